(* C01 deep model - (c): the clause computed by `analyze` (1-UIP resolution along the trail) is entailed by the clause
   database, provided the conflict clause is falsified and the reasons are what invariant (b) says they are.
   Also the shape of the result (uip literal first, the rest false at lower levels), used for the run invariants. *)
From Coq Require Import List ZArith Bool Arith Lia.
Import ListNotations.
From SV Require Import C01.SatSpec C01.Machine C01.DeepCdcl C01.DeepBase C01.DeepTrail C01.RupProofs.
Close Scope Z_scope.
Open Scope nat_scope.

Definition db (s : st) : cnf := s_orig s ++ s_learned s.
Definition db_nonzero (s : st) : Prop := forall c, In c (db s) -> forall l, In l c -> l <> 0%Z.

(* (b) as analyze needs it: the reason clause of an implied variable (level >= 1) is a clause of the database; its
   literals are the variable's own true literal or literals that are false and were assigned earlier *)
Definition reason_ok (s : st) : Prop :=
  forall tr1 v tr2 r, s_trail s = tr1 ++ v :: tr2 -> 1 <= level_of s v -> reason_of s v = Some r ->
    In (get_clause s r) (db s)
    /\ forall l, In l (get_clause s r) ->
         (lvar l = v /\ lit_value s l = Some true) \/ (lit_value s l = Some false /\ In (lvar l) tr2).

(* a variable of level >= 1 without reason is the decision of its level: nothing below it on the trail has that level *)
Definition decision_first (s : st) : Prop :=
  forall tr1 v tr2, s_trail s = tr1 ++ v :: tr2 -> 1 <= level_of s v -> reason_of s v = None ->
    forall w, In w tr2 -> level_of s w <> level_of s v.

(* ---------------------------------------------------------------- literals *)
Lemma lvar_zvar : forall v, lvar (zvar v) = v.
Proof. intros v. unfold lvar, zvar. apply Zabs2Nat.id. Qed.

Lemma lvar_opp : forall l, lvar (- l)%Z = lvar l.
Proof. intros l. unfold lvar. apply Nat2Z.inj. rewrite !Zabs2Nat.id_abs. apply Z.abs_opp. Qed.

Lemma zvar_lvar_pos : forall l, (0 < l)%Z -> zvar (lvar l) = l.
Proof. intros l H. unfold zvar, lvar. rewrite Zabs2Nat.id_abs. lia. Qed.

Lemma zvar_lvar_neg : forall l, (l < 0)%Z -> zvar (lvar l) = (- l)%Z.
Proof. intros l H. unfold zvar, lvar. rewrite Zabs2Nat.id_abs. lia. Qed.

Lemma lit_false_is_false_lit : forall s l, l <> 0%Z -> lit_value s l = Some false -> l = false_lit_of s (lvar l).
Proof.
  intros s l Hnz H. unfold lit_value in H. unfold false_lit_of.
  destruct (val_of s (lvar l)) as [b|]; [|discriminate]. injection H as H.
  unfold lpos in H. destruct (Z.ltb_spec 0 l) as [L|L].
  - destruct b; simpl in H; [discriminate|]. symmetry. apply zvar_lvar_pos. exact L.
  - destruct b; simpl in H; [|discriminate]. rewrite zvar_lvar_neg by lia. lia.
Qed.

Lemma lit_true_is_neg_false_lit : forall s l, l <> 0%Z -> lit_value s l = Some true -> l = (- false_lit_of s (lvar l))%Z.
Proof.
  intros s l Hnz H. unfold lit_value in H. unfold false_lit_of.
  destruct (val_of s (lvar l)) as [b|]; [|discriminate]. injection H as H.
  unfold lpos in H. destruct (Z.ltb_spec 0 l) as [L|L].
  - destruct b; simpl in H; [|discriminate]. rewrite zvar_lvar_pos by exact L. lia.
  - destruct b; simpl in H; [discriminate|]. rewrite zvar_lvar_neg by lia. lia.
Qed.

Lemma lit_value_assigned : forall s l b, lit_value s l = Some b -> val_of s (lvar l) <> None.
Proof. intros s l b H. unfold lit_value in H. destruct (val_of s (lvar l)); congruence. Qed.

Lemma lvar_false_lit_of : forall s v, lvar (false_lit_of s v) = v.
Proof. intros s v. unfold false_lit_of. destruct (val_of s v) as [[|]|]; rewrite ?lvar_opp; apply lvar_zvar. Qed.

Lemma false_lit_of_nonzero : forall s v, v <> 0 -> false_lit_of s v <> 0%Z.
Proof. intros s v Hv. unfold false_lit_of, zvar. destruct (val_of s v) as [[|]|]; lia. Qed.

Lemma false_lit_of_false : forall s v, val_of s v <> None -> v <> 0 -> lit_value s (false_lit_of s v) = Some false.
Proof.
  intros s v Ha Hv. unfold lit_value. rewrite lvar_false_lit_of. unfold false_lit_of.
  destruct (val_of s v) as [[|]|]; [| |congruence]; unfold lpos, zvar.
  - destruct (Z.ltb_spec 0 (- Z.of_nat v)); [lia|reflexivity].
  - destruct (Z.ltb_spec 0 (Z.of_nat v)); [reflexivity|lia].
Qed.

(* ---------------------------------------------------------------- counting *)
Lemma filter_length_ext : forall {A} (f g : A -> bool) l, (forall x, In x l -> f x = g x) ->
  length (filter f l) = length (filter g l).
Proof.
  induction l as [|x l IH]; intros H; simpl; [reflexivity|].
  rewrite (H x) by (left; reflexivity). destruct (g x); simpl; rewrite IH; auto; intros y Hy; apply H; right; exact Hy.
Qed.

Lemma filter_length_flip : forall (f g : nat -> bool) l v, NoDup l -> In v l -> f v = false -> g v = true ->
  (forall w, w <> v -> g w = f w) -> length (filter g l) = S (length (filter f l)).
Proof.
  induction l as [|x l IH]; intros v ND Hin Hf Hg Hext; [contradiction|].
  inversion ND as [|? ? Hx ND']; subst. simpl. destruct Hin as [E|Hin].
  - subst x. rewrite Hf, Hg. simpl. f_equal. apply filter_length_ext.
    intros w Hw. apply Hext. intros C. subst w. contradiction.
  - assert (x <> v) as Hne by (intros C; subst x; contradiction).
    rewrite (Hext x Hne). destruct (f x); simpl; rewrite (IH v); auto.
Qed.

(* ---------------------------------------------------------------- the accumulator of analyze *)
Section Acc.
Variable s : st.
Variable cur : nat.

Definition pend (seen : list bool) (v : nat) : bool := nth v seen false && (level_of s v =? cur).

(* under m, one of the literals still to be accounted for is true *)
Definition P (m : asg) (seen : list bool) (ll : list Z) (tr : list nat) : Prop :=
  (exists l, In l ll /\ lit_true m l = true)
  \/ (exists v, In v tr /\ pend seen v = true /\ lit_true m (false_lit_of s v) = true).

Definition ll_ok (ll : list Z) : Prop :=
  forall l, In l ll -> l <> 0%Z /\ lit_value s l = Some false /\ level_of s (lvar l) <> cur.

Record acc_ok (tr : list nat) (seen : list bool) (ll : list Z) (cnt : nat) : Prop := mkAcc {
  ao_cnt : cnt = length (filter (pend seen) tr);
  ao_seen : forall v, nth v seen false = true -> level_of s v <> cur -> In (false_lit_of s v) ll;
  ao_ll : ll_ok ll;
  ao_len : length seen = length (s_vals s)
}.

Lemma P_mono_ll : forall m seen ll ll' tr, (forall l, In l ll -> In l ll') -> P m seen ll tr -> P m seen ll' tr.
Proof. intros m seen ll ll' tr H [[l [Hl Ht]]|R]; [left; exists l; auto | right; exact R]. Qed.

Lemma add_lit_step : forall tr seen ll cnt l seen' ll' cnt',
  NoDup tr -> acc_ok tr seen ll cnt ->
  l <> 0%Z -> lit_value s l = Some false -> In (lvar l) tr ->
  add_lit s cur (seen, ll, cnt) l = (seen', ll', cnt') ->
  acc_ok tr seen' ll' cnt' /\ cnt <= cnt'
  /\ (forall m, P m seen ll tr \/ lit_true m l = true -> P m seen' ll' tr)
  /\ (forall w, nth w seen false = true -> nth w seen' false = true) /\ nth (lvar l) seen' false = true.
Proof.
  intros tr seen ll cnt l seen' ll' cnt' ND H Hnz Hf Hin E.
  pose proof (lit_false_is_false_lit s l Hnz Hf) as Hl.
  pose proof (lit_value_assigned s l false Hf) as Hass.
  unfold add_lit in E. remember (lvar l) as v eqn:Heqv.
  destruct (nth v seen false) eqn:Es; simpl in E.
  - (* already seen *)
    injection E as E1 E2 E3. subst seen' ll' cnt'. split; [exact H|]. split; [lia|].
    split; [|split; [auto | exact Es]].
    intros m [HP|Ht]; [exact HP|].
    destruct (Nat.eq_dec (level_of s v) cur) as [Lc|Lc].
    + right. exists v. repeat split; auto. unfold pend. rewrite Es. apply Nat.eqb_eq in Lc. rewrite Lc. reflexivity.
      rewrite <- Hl. exact Ht.
    + left. exists l. split; [|exact Ht]. rewrite Hl. apply (ao_seen _ _ _ _ H); assumption.
  - destruct (val_of s v) eqn:Ev; [|congruence]. simpl in E.
    assert (v < length seen) as Hv.
    { rewrite (ao_len _ _ _ _ H). unfold val_of in Ev. destruct (Nat.lt_ge_cases v (length (s_vals s))) as [Q|Q]; [exact Q|].
      rewrite nth_overflow in Ev by exact Q. discriminate. }
    assert (forall w, nth w (upd seen v true) false = if v =? w then true else nth w seen false) as Hseen'.
    { intros w. destruct (Nat.eqb_spec v w) as [Q|Q]; [subst w; apply nth_upd_eq; exact Hv | apply nth_upd_neq; exact Q]. }
    destruct (Nat.eqb_spec (level_of s v) cur) as [Lc|Lc].
    + (* new variable of the current level *)
      injection E as E1 E2 E3. subst seen' ll' cnt'.
      assert ((forall w, nth w seen false = true -> nth w (upd seen v true) false = true) /\ nth v (upd seen v true) false = true) as Hmon.
      { split; [intros w Hw; rewrite Hseen'; destruct (v =? w); auto | rewrite Hseen', Nat.eqb_refl; reflexivity]. }
      split; [|split; [lia|split; [|exact Hmon]]].
      * constructor.
        -- rewrite (ao_cnt _ _ _ _ H). symmetry. apply (filter_length_flip (pend seen) (pend (upd seen v true)) tr v); auto.
           ++ unfold pend. rewrite Es. reflexivity.
           ++ unfold pend. rewrite Hseen', Nat.eqb_refl. apply Nat.eqb_eq in Lc. rewrite Lc. reflexivity.
           ++ intros w Hw. unfold pend. rewrite Hseen'. destruct (Nat.eqb_spec v w); [congruence|reflexivity].
        -- intros w Hw Hlw. rewrite Hseen' in Hw. destruct (Nat.eqb_spec v w) as [Q|Q]; [subst w; contradiction|].
           apply (ao_seen _ _ _ _ H); assumption.
        -- exact (ao_ll _ _ _ _ H).
        -- rewrite upd_length. exact (ao_len _ _ _ _ H).
      * intros m [[HP|HP]|Ht].
        -- left. exact HP.
        -- right. destruct HP as [w [Hw [Hp Hm]]]. exists w. repeat split; auto.
           unfold pend in *. rewrite Hseen'. destruct (v =? w); [|exact Hp].
           apply andb_prop in Hp. destruct Hp as [_ Hp]. rewrite Hp. reflexivity.
        -- right. exists v. repeat split; auto.
           ++ unfold pend. rewrite Hseen', Nat.eqb_refl. apply Nat.eqb_eq in Lc. rewrite Lc. reflexivity.
           ++ rewrite <- Hl. exact Ht.
    + (* new variable of a lower level *)
      rewrite Hf in E. simpl in E. injection E as E1 E2 E3. subst seen' ll' cnt'.
      assert ((forall w, nth w seen false = true -> nth w (upd seen v true) false = true) /\ nth v (upd seen v true) false = true) as Hmon.
      { split; [intros w Hw; rewrite Hseen'; destruct (v =? w); auto | rewrite Hseen', Nat.eqb_refl; reflexivity]. }
      split; [|split; [lia|split; [|exact Hmon]]].
      * constructor.
        -- rewrite (ao_cnt _ _ _ _ H). apply filter_length_ext. intros w Hw. unfold pend. rewrite Hseen'.
           destruct (Nat.eqb_spec v w) as [Q|Q]; [|reflexivity]. subst w. rewrite Es.
           destruct (Nat.eqb_spec (level_of s v) cur); [contradiction|reflexivity].
        -- intros w Hw Hlw. rewrite Hseen' in Hw. apply in_or_app. destruct (Nat.eqb_spec v w) as [Q|Q].
           ++ subst w. right. left. exact Hl.
           ++ left. apply (ao_seen _ _ _ _ H); assumption.
        -- intros x Hx. apply in_app_or in Hx. destruct Hx as [Hx|[Hx|[]]]; [apply (ao_ll _ _ _ _ H); exact Hx|].
           subst x. split; [exact Hnz | split; [exact Hf | rewrite <- Heqv; exact Lc]].
        -- rewrite upd_length. exact (ao_len _ _ _ _ H).
      * intros m [[HP|HP]|Ht].
        -- left. destruct HP as [x [Hx Hm]]. exists x. split; [apply in_or_app; left; exact Hx | exact Hm].
        -- right. destruct HP as [w [Hw [Hp Hm]]]. exists w. repeat split; auto.
           unfold pend in *. rewrite Hseen'. destruct (Nat.eqb_spec v w) as [Q|Q]; [|exact Hp].
           subst w. rewrite Es in Hp. discriminate.
        -- left. exists l. split; [apply in_or_app; right; left; reflexivity | exact Ht].
Qed.

Lemma fold_add_lit : forall tr (skip : Z -> bool) L seen ll cnt seen' ll' cnt',
  NoDup tr -> acc_ok tr seen ll cnt ->
  (forall l, In l L -> skip l = false -> l <> 0%Z /\ lit_value s l = Some false /\ In (lvar l) tr) ->
  fold_left (fun a l => if skip l then a else add_lit s cur a l) L (seen, ll, cnt) = (seen', ll', cnt') ->
  acc_ok tr seen' ll' cnt' /\ cnt <= cnt'
  /\ (forall m, P m seen ll tr \/ (exists l, In l L /\ skip l = false /\ lit_true m l = true) -> P m seen' ll' tr)
  /\ (forall w, nth w seen false = true -> nth w seen' false = true)
  /\ (forall l, In l L -> skip l = false -> nth (lvar l) seen' false = true).
Proof.
  intros tr skip. induction L as [|x L IH]; intros seen ll cnt seen' ll' cnt' ND H HL E; cbn [fold_left] in E.
  - injection E as E1 E2 E3. subst. split; [exact H|]. split; [lia|]. split; [|split; [auto | intros l []]].
    intros m [HP|[l [[] _]]]. exact HP.
  - destruct (skip x) eqn:Esk.
    + destruct (IH _ _ _ _ _ _ ND H (fun l Hl => HL l (or_intror Hl)) E) as (H' & Hle & Hm & Hmo & Hse).
      split; [exact H'|]. split; [exact Hle|]. split; [|split; [exact Hmo|]].
      * intros m [HP|[l [[Q|Hl] [Hs Ht]]]]; apply Hm; [left; exact HP | subst l; congruence | right; exists l; auto].
      * intros l [Q|Hl] Hs; [subst l; congruence | apply Hse; assumption].
    + destruct (add_lit s cur (seen, ll, cnt) x) as [[seen1 ll1] cnt1] eqn:EA.
      destruct (HL x (or_introl eq_refl) Esk) as (Hnz & Hf & Hin).
      destruct (add_lit_step _ _ _ _ _ _ _ _ ND H Hnz Hf Hin EA) as (H1 & Hle1 & Hm1 & Hmo1 & Hse1).
      destruct (IH _ _ _ _ _ _ ND H1 (fun l Hl => HL l (or_intror Hl)) E) as (H' & Hle & Hm & Hmo & Hse).
      split; [exact H'|]. split; [lia|]. split; [|split; [auto|]].
      * intros m [HP|[l [[Q|Hl] [Hs Ht]]]]; apply Hm.
        -- left. apply Hm1. left. exact HP.
        -- subst l. left. apply Hm1. right. exact Ht.
        -- right. exists l. auto.
      * intros l [Q|Hl] Hs; [subst l; apply Hmo; exact Hse1 | apply Hse; assumption].
Qed.

End Acc.

Lemma fold_left_ext : forall {A B} (f g : A -> B -> A) l a, (forall x y, f x y = g x y) -> fold_left f l a = fold_left g l a.
Proof. induction l as [|y l IH]; intros a H; simpl; [reflexivity|]. rewrite H. apply IH. exact H. Qed.

(* ---------------------------------------------------------------- the resolution loop *)
Definition uip_shape (s : st) (cur : nat) (tr : list nat) (res : list Z) : Prop :=
  exists u ll', res = false_lit_of s u :: ll' /\ In u tr /\ level_of s u = cur /\ ll_ok s cur ll'.

Lemma uip_shape_cons : forall s cur v tr res, uip_shape s cur tr res -> uip_shape s cur (v :: tr) res.
Proof.
  intros s cur v tr res (u & ll' & E1 & E2 & E3 & E4). exists u, ll'. split; [exact E1|]. split; [right; exact E2|]. split; assumption.
Qed.

Lemma an_loop_spec : forall s cur, trail_inv s -> db_nonzero s -> reason_ok s -> decision_first s ->
  cur = cur_level s -> 1 <= cur ->
  forall tr pre seen ll cnt, s_trail s = pre ++ tr -> acc_ok s cur tr seen ll cnt ->
    (forall m, models m (db s) -> P s cur m seen ll tr) ->
    entails (db s) (an_loop s cur tr (seen, ll, cnt))
    /\ ((cnt = 0 /\ an_loop s cur tr (seen, ll, cnt) = ll) \/ uip_shape s cur tr (an_loop s cur tr (seen, ll, cnt))).
Proof.
  intros s cur HT Hnz HR HD Hcur Hc1. induction tr as [|v tr IH]; intros pre seen ll cnt Htr H Hsem.
  - (* trail exhausted: by the count no literal is pending *)
    pose proof (ao_cnt _ _ _ _ _ _ H) as Hc. simpl in Hc. subst cnt. simpl. split; [|left; auto].
    intros m Hm. destruct (Hsem m Hm) as [[l [Hl Ht]]|[w [[] _]]].
    apply existsb_exists. exists l. auto.
  - assert (NoDup (v :: tr)) as ND by (pose proof (ti_nodup s HT) as Q; rewrite Htr in Q; exact (NoDup_app_l _ _ Q)).
    assert (NoDup tr) as ND' by (inversion ND; assumption).
    assert (~ In v tr) as Hvtr by (inversion ND; assumption).
    assert (s_trail s = (pre ++ [v]) ++ tr) as Htr' by (rewrite <- app_assoc; exact Htr).
    destruct cnt as [|cnt'].
    + (* counter = 0 *)
      simpl. split; [|left; auto]. intros m Hm. pose proof (ao_cnt _ _ _ _ _ _ H) as Hc.
      destruct (Hsem m Hm) as [[l [Hl Ht]]|[w [Hw [Hp _]]]].
      * apply existsb_exists. exists l. auto.
      * exfalso. assert (In w (filter (pend s cur seen) (v :: tr))) as Q by (apply filter_In; auto).
        destruct (filter (pend s cur seen) (v :: tr)); [contradiction|discriminate].
    + simpl. destruct (nth v seen false) eqn:Es; simpl.
      2:{ (* not seen: skip *)
        assert (pend s cur seen v = false) as Hpv by (unfold pend; rewrite Es; reflexivity).
        destruct (IH (pre ++ [v]) seen ll (S cnt') Htr') as [He Hs].
        - destruct H. constructor; auto. rewrite ao_cnt0. simpl. rewrite Hpv. reflexivity.
        - intros m Hm. destruct (Hsem m Hm) as [L|[w [[Q|Hw] [Hp Ht]]]]; [left; exact L | subst w; congruence | right; exists w; auto].
        - split; [exact He|]. destruct Hs as [[Q _]|Hs]; [discriminate|].
          right. apply uip_shape_cons. exact Hs. }
      destruct (Nat.eqb_spec (level_of s v) cur) as [Lc|Lc].
      2:{ (* seen at a lower level: skip *)
        assert (pend s cur seen v = false) as Hpv.
        { unfold pend. rewrite Es. simpl. destruct (Nat.eqb_spec (level_of s v) cur); [contradiction|reflexivity]. }
        destruct (IH (pre ++ [v]) seen ll (S cnt') Htr') as [He Hs].
        - destruct H. constructor; auto. rewrite ao_cnt0. simpl. rewrite Hpv. reflexivity.
        - intros m Hm. destruct (Hsem m Hm) as [L|[w [[Q|Hw] [Hp Ht]]]]; [left; exact L | subst w; congruence | right; exists w; auto].
        - split; [exact He|]. destruct Hs as [[Q _]|Hs]; [discriminate|].
          right. apply uip_shape_cons. exact Hs. }
      assert (pend s cur seen v = true) as Hpv.
      { unfold pend. rewrite Es. simpl. apply Nat.eqb_eq. exact Lc. }
      assert (cnt' = length (filter (pend s cur seen) tr)) as Hcnt'.
      { pose proof (ao_cnt _ _ _ _ _ _ H) as Q. simpl in Q. rewrite Hpv in Q. simpl in Q. lia. }
      destruct cnt' as [|cnt''].
      * (* the unique implication point *)
        assert (forall w, In w tr -> pend s cur seen w = false) as Hnone.
        { intros w Hw. destruct (pend s cur seen w) eqn:Q; [|reflexivity]. exfalso.
          assert (In w (filter (pend s cur seen) tr)) as Q2 by (apply filter_In; auto).
          destruct (filter (pend s cur seen) tr); [contradiction|discriminate]. }
        split.
        -- intros m Hm. apply existsb_exists. destruct (Hsem m Hm) as [[l [Hl Ht]]|[w [[Q|Hw] [Hp Ht]]]].
           ++ exists l. split; [right; exact Hl | exact Ht].
           ++ subst w. exists (false_lit_of s v). split; [left; reflexivity | exact Ht].
           ++ rewrite (Hnone w Hw) in Hp. discriminate.
        -- right. exists v, ll. split; [reflexivity|]. split; [left; reflexivity|]. split; [exact Lc | exact (ao_ll _ _ _ _ _ _ H)].
      * assert (1 <= level_of s v) as Hlv by lia.
        destruct (reason_of s v) as [r|] eqn:Er.
        -- (* resolve with the reason clause of v *)
           destruct (HR pre v tr r Htr Hlv Er) as [Hdb Hlits].
           destruct (fold_left (fun a l => if lvar l =? v then a else add_lit s cur a l) (get_clause s r) (seen, ll, S cnt''))
             as [[seen1 ll1] cnt1] eqn:EF.
           assert (acc_ok s cur tr seen ll (S cnt'')) as H0.
           { destruct H. constructor; auto. }
           destruct (fold_add_lit s cur tr (fun l => lvar l =? v) (get_clause s r) seen ll (S cnt'') seen1 ll1 cnt1 ND' H0) as (H1 & Hle1 & Hm1 & _ & _).
           { intros l Hl Hsk. apply Nat.eqb_neq in Hsk. destruct (Hlits l Hl) as [[Q _]|[Q1 Q2]]; [contradiction|].
             repeat split; auto. apply (Hnz _ Hdb). exact Hl. }
           { exact EF. }
           destruct (IH (pre ++ [v]) seen1 ll1 cnt1 Htr' H1) as [He Hs].
           { intros m Hm. apply Hm1. destruct (Hsem m Hm) as [L|[w [[Q|Hw] [Hp Ht]]]].
             - left. left. exact L.
             - subst w. right.
               assert (clause_true m (get_clause s r) = true) as Hcr by (apply Hm; exact Hdb).
               apply existsb_exists in Hcr. destruct Hcr as [l [Hl Hlt]]. exists l. split; [exact Hl|]. split; [|exact Hlt].
               apply Nat.eqb_neq. intros Q. destruct (Hlits l Hl) as [[_ Q2]|[Q1 Q2]].
               + assert (l <> 0%Z) as Hl0 by (apply (Hnz _ Hdb); exact Hl).
                 pose proof (lit_true_is_neg_false_lit s l Hl0 Q2) as Q3. rewrite Q in Q3.
                 rewrite Q3 in Hlt. rewrite lit_true_opp in Hlt.
                 * rewrite Ht in Hlt. discriminate.
                 * intros C. apply Hl0. rewrite Q3, C. reflexivity.
               + rewrite Q in Q2. contradiction.
             - left. right. exists w. auto. }
           split; [exact He|]. destruct Hs as [[Q _]|Hs].
           ++ exfalso. lia.
           ++ right. apply uip_shape_cons. exact Hs.
        -- (* no reason: v is the decision of the current level, nothing below it is pending *)
           exfalso. pose proof (HD pre v tr Htr Hlv Er) as Q.
           destruct (filter (pend s cur seen) tr) as [|w rest] eqn:EF'; [simpl in Hcnt'; discriminate|].
           assert (In w (filter (pend s cur seen) tr)) as Q2 by (rewrite EF'; left; reflexivity).
           apply filter_In in Q2. destruct Q2 as [Q2 Q3]. apply (Q _ Q2).
           unfold pend in Q3. apply andb_prop in Q3. destruct Q3 as [_ Q3]. apply Nat.eqb_eq in Q3. rewrite Q3. symmetry. exact Lc.
Qed.

(* ---------------------------------------------------------------- analyze *)
Lemma nth_repeat_false : forall n v, nth v (repeat false n) false = false.
Proof. induction n as [|n IH]; intros [|v]; simpl; auto. Qed.

Lemma acc_ok_init : forall s cur tr, acc_ok s cur tr (repeat false (length (s_vals s))) [] 0.
Proof.
  intros s cur tr. constructor.
  - induction tr as [|v tr IH]; simpl; [reflexivity|]. unfold pend at 1. rewrite nth_repeat_false. simpl. exact IH.
  - intros v Hv. rewrite nth_repeat_false in Hv. discriminate.
  - intros l [].
  - apply repeat_length.
Qed.

(* what `analyze` folds over the conflict clause and walks down the trail *)
Definition analyze_lits (s : st) (ci : nat) : list Z :=
  an_loop s (cur_level s) (s_trail s)
    (fold_left (add_lit s (cur_level s)) (get_clause s ci) (repeat false (length (s_vals s)), [], 0)).

Lemma analyze_some : forall s ci lc bt lbd, analyze s ci = Some (lc, bt, lbd) ->
  1 <= cur_level s /\ lc = analyze_lits s ci /\ lc <> []
  /\ bt = list_max_nat (filter (fun x => x <? list_max_nat (dedup_nat (map (fun l => level_of s (lvar l))
                           (filter (fun l => negb (is_none (val_of s (lvar l)))) lc))))
                         (dedup_nat (map (fun l => level_of s (lvar l)) (filter (fun l => negb (is_none (val_of s (lvar l)))) lc)))).
Proof.
  intros s ci lc bt lbd E. unfold analyze in E. destruct (Nat.eqb_spec (cur_level s) 0) as [Q|Q]; [discriminate|].
  fold (analyze_lits s ci) in E. destruct (analyze_lits s ci) as [|x r] eqn:EL; [discriminate|].
  injection E as E1 E2 E3. subst lc. split; [lia|]. split; [reflexivity|]. split; [discriminate|]. symmetry. exact E2.
Qed.

Lemma analyze_lits_spec : forall s ci, trail_inv s -> db_nonzero s -> reason_ok s -> decision_first s -> 1 <= cur_level s ->
  In (get_clause s ci) (db s) -> (forall l, In l (get_clause s ci) -> lit_value s l = Some false) ->
  entails (db s) (analyze_lits s ci)
  /\ ((exists l, In l (get_clause s ci) /\ level_of s (lvar l) = cur_level s) ->
      uip_shape s (cur_level s) (s_trail s) (analyze_lits s ci)).
Proof.
  intros s ci HT Hnz HR HD Hc1 Hdb Hfalse. unfold analyze_lits.
  destruct (fold_left (add_lit s (cur_level s)) (get_clause s ci) (repeat false (length (s_vals s)), [], 0)) as [[seen ll] cnt] eqn:EF.
  assert (fold_left (fun a l => if (fun _ : Z => false) l then a else add_lit s (cur_level s) a l) (get_clause s ci)
            (repeat false (length (s_vals s)), [], 0) = (seen, ll, cnt)) as EF'.
  { rewrite <- EF. apply fold_left_ext. reflexivity. }
  destruct (fold_add_lit s (cur_level s) (s_trail s) (fun _ => false) (get_clause s ci) _ _ _ seen ll cnt (ti_nodup s HT)
              (acc_ok_init s (cur_level s) (s_trail s))) as (H1 & _ & Hm1 & _ & Hse).
  { intros l Hl _. split; [apply (Hnz _ Hdb); exact Hl|]. split; [apply Hfalse; exact Hl|].
    apply (ti_assigned s HT). eapply lit_value_assigned. apply Hfalse. exact Hl. }
  { exact EF'. }
  destruct (an_loop_spec s (cur_level s) HT Hnz HR HD eq_refl Hc1 (s_trail s) [] seen ll cnt eq_refl H1) as [He Hs].
  { intros m Hm. apply Hm1. right. assert (clause_true m (get_clause s ci) = true) as Q by (apply Hm; exact Hdb).
    apply existsb_exists in Q. destruct Q as [l [Hl Ht]]. exists l. auto. }
  split; [exact He|]. intros [l0 [Hl0 Hlv]]. destruct Hs as [[Q _]|Hs]; [|exact Hs]. exfalso.
  pose proof (ao_cnt _ _ _ _ _ _ H1) as Hc. rewrite Q in Hc.
  assert (In (lvar l0) (filter (pend s (cur_level s) seen) (s_trail s))) as Q2.
  { apply filter_In. split.
    - apply (ti_assigned s HT). eapply lit_value_assigned. apply Hfalse. exact Hl0.
    - unfold pend. rewrite (Hse l0 Hl0 eq_refl). apply Nat.eqb_eq in Hlv. rewrite Hlv. reflexivity. }
  destruct (filter (pend s (cur_level s) seen) (s_trail s)); [contradiction|discriminate].
Qed.

(* (c) *)
Theorem analyze_entailed : forall s ci lc bt lbd,
  trail_inv s -> db_nonzero s -> reason_ok s -> decision_first s ->
  In (get_clause s ci) (db s) -> (forall l, In l (get_clause s ci) -> lit_value s l = Some false) ->
  analyze s ci = Some (lc, bt, lbd) -> entails (db s) lc.
Proof.
  intros s ci lc bt lbd HT Hnz HR HD Hdb Hfalse E. destruct (analyze_some _ _ _ _ _ E) as (Hc1 & Elc & _). subst lc.
  exact (proj1 (analyze_lits_spec s ci HT Hnz HR HD Hc1 Hdb Hfalse)).
Qed.

(* ---------------------------------------------------------------- the backjump level *)
Lemma fold_max_ge_acc : forall l a, a <= fold_left Nat.max l a.
Proof. induction l as [|x l IH]; intros a; simpl; [lia|]. pose proof (IH (Nat.max a x)). lia. Qed.

Lemma fold_max_ge : forall l a x, In x l -> x <= fold_left Nat.max l a.
Proof.
  induction l as [|y l IH]; intros a x H; simpl; [contradiction|]. destruct H as [E|H].
  - subst y. pose proof (fold_max_ge_acc l (Nat.max a x)). lia.
  - apply IH. exact H.
Qed.

Lemma fold_max_le : forall l a b, a <= b -> (forall x, In x l -> x <= b) -> fold_left Nat.max l a <= b.
Proof.
  induction l as [|y l IH]; intros a b Ha H; simpl; [exact Ha|]. apply IH.
  - pose proof (H y (or_introl eq_refl)). lia.
  - intros x Hx. apply H. right. exact Hx.
Qed.

Lemma list_max_nat_ge : forall l x, In x l -> x <= list_max_nat l.
Proof. intros l x H. unfold list_max_nat. apply fold_max_ge. exact H. Qed.

Lemma list_max_nat_le : forall l b, (forall x, In x l -> x <= b) -> list_max_nat l <= b.
Proof. intros l b H. unfold list_max_nat. apply fold_max_le; [lia|exact H]. Qed.

Lemma In_dedup_nat : forall l x, In x (dedup_nat l) <-> In x l.
Proof.
  induction l as [|y l IH]; intros x; simpl; [tauto|].
  destruct (existsb (Nat.eqb y) l) eqn:E.
  - rewrite IH. split; [auto|]. intros [Q|Q]; [|exact Q]. subst y.
    apply existsb_exists in E. destruct E as [z [Hz Ez]]. apply Nat.eqb_eq in Ez. subst z. exact Hz.
  - simpl. rewrite IH. tauto.
Qed.

Lemma filter_length_le' : forall {A} (f : A -> bool) l, length (filter f l) <= length l.
Proof. induction l as [|x l IH]; simpl; [lia|]. destruct (f x); simpl; lia. Qed.

Lemma level_le_cur : forall s v, trail_inv s -> In v (s_trail s) -> level_of s v <= cur_level s.
Proof.
  intros s v HT Hin. destruct (in_split _ _ Hin) as [tr1 [tr2 E]]. rewrite (ti_levels s HT tr1 v tr2 E).
  unfold lvl_at, cur_level. apply filter_length_le'.
Qed.

Lemma analyze_bt : forall s ci lc bt lbd u ll', trail_inv s -> analyze s ci = Some (lc, bt, lbd) ->
  lc = false_lit_of s u :: ll' -> In u (s_trail s) -> level_of s u = cur_level s -> ll_ok s (cur_level s) ll' ->
  bt < cur_level s /\ forall l, In l ll' -> level_of s (lvar l) <= bt.
Proof.
  intros s ci lc bt lbd u ll' HT E Elc Hu Hlu Hll. destruct (analyze_some _ _ _ _ _ E) as (Hc1 & _ & _ & Ebt).
  set (lvls := dedup_nat (map (fun l => level_of s (lvar l)) (filter (fun l => negb (is_none (val_of s (lvar l)))) lc))) in *.
  assert (forall l, In l lc -> val_of s (lvar l) <> None -> In (level_of s (lvar l)) lvls) as Hin.
  { intros l Hl Ha. unfold lvls. apply In_dedup_nat. apply in_map_iff. exists l. split; [reflexivity|].
    apply filter_In. split; [exact Hl|]. destruct (val_of s (lvar l)); [reflexivity|congruence]. }
  assert (forall x, In x lvls -> x <= cur_level s) as Hle.
  { intros x Hx. unfold lvls in Hx. apply (proj1 (In_dedup_nat _ _)) in Hx. apply in_map_iff in Hx. destruct Hx as [l [El Hl]].
    apply filter_In in Hl. destruct Hl as [Hl Ha]. subst x. apply level_le_cur; [exact HT|].
    apply (ti_assigned s HT). destruct (val_of s (lvar l)); [congruence|discriminate]. }
  assert (list_max_nat lvls = cur_level s) as Htop.
  { apply Nat.le_antisymm; [apply list_max_nat_le; exact Hle|]. apply list_max_nat_ge.
    rewrite <- Hlu. rewrite <- (lvar_false_lit_of s u) at 1. apply Hin.
    - rewrite Elc. left. reflexivity.
    - rewrite lvar_false_lit_of. apply (ti_assigned s HT). exact Hu. }
  rewrite Htop in Ebt. split.
  - rewrite Ebt. destruct (Nat.eq_dec (list_max_nat (filter (fun x => x <? cur_level s) lvls)) 0) as [Q|Q]; [lia|].
    assert (list_max_nat (filter (fun x => x <? cur_level s) lvls) <= cur_level s - 1); [|lia].
    apply list_max_nat_le. intros x Hx. apply filter_In in Hx. destruct Hx as [_ Hx]. apply Nat.ltb_lt in Hx. lia.
  - intros l Hl. destruct (Hll l Hl) as (_ & Hf & Hne). rewrite Ebt. apply list_max_nat_ge. apply filter_In.
    assert (In (level_of s (lvar l)) lvls) as Q.
    { apply Hin; [rewrite Elc; right; exact Hl | eapply lit_value_assigned; exact Hf]. }
    split; [exact Q|]. apply Nat.ltb_lt. pose proof (Hle _ Q). lia.
Qed.
