(* C01 (stretch, shape A/O) - a faithful executable model of solvor/sat.py solve_sat as of /repo HEAD
   (after the four `fix:` commits d892230 258b8b1 51e71e7 0fc2b69).  Definitions only.

   One Gallina function per Python function / loop.  What is NOT modelled: the VSIDS activities (floats) and the
   heap; `pick_var()` is an oracle: the list of variables it returned, consumed one per decision.  pick_var()
   returns 0 exactly when no variable is UNDEF (heap invariant of the code, validated run by run through the
   exact trace equality): the model takes the `var == 0` branch iff every variable 1..n_vars is assigned, and
   otherwise consumes the next oracle entry, which must be an UNDEF variable in range (else `Err`).

   Representation
     literal = Z, variable = nat (Z.abs_nat), arrays = lists indexed by variable (index 0 unused, as in the code)
     vals    : None = UNDEF, Some true = 1, Some false = 0
     reasons : None = -1, Some idx
     trail   : NEWEST FIRST (Python appends at the end; trail[i] = nth (len - 1 - i))
     lim     : trail_lim, Python order
     watch lists / implication lists: Python order
     conflict index: CNone = -1, CAssum = -2, CAt idx
   Every `while` loop runs on explicit fuel and yields None when it is exhausted (propagated to `Err EFuel`). *)
From Coq Require Import List ZArith Bool Arith.
Import ListNotations.
From SV Require Import C01.SatSpec C01.Machine C01.Luby.
Open Scope Z_scope.

(* ---------------------------------------------------------------- arrays *)
Fixpoint upd {A} (l : list A) (i : nat) (x : A) : list A :=
  match l, i with
  | [], _ => []
  | _ :: t, O => x :: t
  | h :: t, S j => h :: upd t j x
  end.

Definition lvar (l : Z) : nat := Z.abs_nat l.          (* lit_var *)
Definition lpos (l : Z) : bool := 0 <? l.              (* lit > 0 *)
Definition zvar (v : nat) : Z := Z.of_nat v.

(* ---------------------------------------------------------------- solver state *)
Record st := mkSt {
  s_vals : list (option bool);
  s_levels : list nat;
  s_reasons : list (option nat);
  s_trail : list nat;
  s_lim : list nat;
  s_head : nat;                      (* prop_head *)
  s_phase : list bool;
  s_props : Z;                       (* propagations *)
  s_confl : Z;                       (* conflicts *)
  s_orig : list clause;              (* clauses (literal order is mutated by propagate) *)
  s_learned : list clause;
  s_lbd : list nat;                  (* lbd_scores *)
  s_wpos : list (list nat);
  s_wneg : list (list nat);
  s_bpos : list (list (Z * nat));    (* big.pos *)
  s_bneg : list (list (Z * nat))     (* big.neg *)
}.

Definition val_of (s : st) (v : nat) : option bool := nth v (s_vals s) None.
Definition level_of (s : st) (v : nat) : nat := nth v (s_levels s) 0%nat.
Definition reason_of (s : st) (v : nat) : option nat := nth v (s_reasons s) None.
Definition cur_level (s : st) : nat := length (s_lim s).

(* lit_value: None = unassigned, Some true / Some false *)
Definition lit_value (s : st) (l : Z) : option bool :=
  match val_of s (lvar l) with
  | None => None
  | Some b => Some (Bool.eqb b (lpos l))
  end.
Definition is_false (o : option bool) : bool := match o with Some false => true | _ => false end.
Definition is_true (o : option bool) : bool := match o with Some true => true | _ => false end.

Definition get_clause (s : st) (idx : nat) : clause :=
  if (idx <? length (s_orig s))%nat then nth idx (s_orig s) []
  else nth (idx - length (s_orig s)) (s_learned s) [].

Definition set_clause (s : st) (idx : nat) (c : clause) : st :=
  if (idx <? length (s_orig s))%nat
  then mkSt (s_vals s) (s_levels s) (s_reasons s) (s_trail s) (s_lim s) (s_head s) (s_phase s) (s_props s) (s_confl s)
            (upd (s_orig s) idx c) (s_learned s) (s_lbd s) (s_wpos s) (s_wneg s) (s_bpos s) (s_bneg s)
  else mkSt (s_vals s) (s_levels s) (s_reasons s) (s_trail s) (s_lim s) (s_head s) (s_phase s) (s_props s) (s_confl s)
            (s_orig s) (upd (s_learned s) (idx - length (s_orig s)) c) (s_lbd s) (s_wpos s) (s_wneg s) (s_bpos s) (s_bneg s).

Definition watch_list (s : st) (l : Z) : list nat :=
  if lpos l then nth (lvar l) (s_wpos s) [] else nth (lvar l) (s_wneg s) [].

Definition set_watch_list (s : st) (l : Z) (ws : list nat) : st :=
  if lpos l
  then mkSt (s_vals s) (s_levels s) (s_reasons s) (s_trail s) (s_lim s) (s_head s) (s_phase s) (s_props s) (s_confl s)
            (s_orig s) (s_learned s) (s_lbd s) (upd (s_wpos s) (lvar l) ws) (s_wneg s) (s_bpos s) (s_bneg s)
  else mkSt (s_vals s) (s_levels s) (s_reasons s) (s_trail s) (s_lim s) (s_head s) (s_phase s) (s_props s) (s_confl s)
            (s_orig s) (s_learned s) (s_lbd s) (s_wpos s) (upd (s_wneg s) (lvar l) ws) (s_bpos s) (s_bneg s).

Definition add_watch (l : Z) (idx : nat) (s : st) : st := set_watch_list s l (watch_list s l ++ [idx]).

(* BinaryImplications.add / implications *)
Definition big_add1 (a b : Z) (idx : nat) (s : st) : st :=
  if lpos a
  then mkSt (s_vals s) (s_levels s) (s_reasons s) (s_trail s) (s_lim s) (s_head s) (s_phase s) (s_props s) (s_confl s)
            (s_orig s) (s_learned s) (s_lbd s) (s_wpos s) (s_wneg s) (s_bpos s)
            (upd (s_bneg s) (lvar a) (nth (lvar a) (s_bneg s) [] ++ [(b, idx)]))
  else mkSt (s_vals s) (s_levels s) (s_reasons s) (s_trail s) (s_lim s) (s_head s) (s_phase s) (s_props s) (s_confl s)
            (s_orig s) (s_learned s) (s_lbd s) (s_wpos s) (s_wneg s)
            (upd (s_bpos s) (lvar a) (nth (lvar a) (s_bpos s) [] ++ [(b, idx)])) (s_bneg s).
Definition big_add (a b : Z) (idx : nat) (s : st) : st := big_add1 b a idx (big_add1 a b idx s).
Definition implications (s : st) (false_lit : Z) : list (Z * nat) :=
  if lpos false_lit then nth (lvar false_lit) (s_bneg s) [] else nth (lvar false_lit) (s_bpos s) [].

(* ---------------------------------------------------------------- assign / unassign_to *)
Definition assign (v : nat) (b : bool) (r : option nat) (s : st) : st :=
  mkSt (upd (s_vals s) v (Some b)) (upd (s_levels s) v (cur_level s)) (upd (s_reasons s) v r)
       (v :: s_trail s) (s_lim s) (s_head s) (s_phase s) (s_props s + 1) (s_confl s)
       (s_orig s) (s_learned s) (s_lbd s) (s_wpos s) (s_wneg s) (s_bpos s) (s_bneg s).

Definition assign_lit (l : Z) (r : option nat) (s : st) : st := assign (lvar l) (lpos l) r s.

(* the `while len(trail) > target: var = trail.pop(); phase[var] = vals[var] == 1; vals[var] = UNDEF` loop, k pops *)
Fixpoint unwind (k : nat) (vals : list (option bool)) (phase : list bool) (tr : list nat)
  : list (option bool) * list bool * list nat :=
  match k, tr with
  | S k', v :: tr' => unwind k' (upd vals v None) (upd phase v (is_true (nth v vals None))) tr'
  | _, _ => (vals, phase, tr)
  end.

Definition unassign_to (level : nat) (s : st) : st :=
  let target := if (level <? length (s_lim s))%nat then nth level (s_lim s) 0%nat else length (s_trail s) in
  let '(vals', phase', tr') := unwind (length (s_trail s) - target) (s_vals s) (s_phase s) (s_trail s) in
  mkSt vals' (s_levels s) (s_reasons s) tr' (firstn level (s_lim s)) (Nat.min (s_head s) (length tr')) phase'
       (s_props s) (s_confl s) (s_orig s) (s_learned s) (s_lbd s) (s_wpos s) (s_wneg s) (s_bpos s) (s_bneg s).

Definition bump_confl (s : st) : st :=
  mkSt (s_vals s) (s_levels s) (s_reasons s) (s_trail s) (s_lim s) (s_head s) (s_phase s) (s_props s) (s_confl s + 1)
       (s_orig s) (s_learned s) (s_lbd s) (s_wpos s) (s_wneg s) (s_bpos s) (s_bneg s).

Definition set_head (s : st) (h : nat) : st :=
  mkSt (s_vals s) (s_levels s) (s_reasons s) (s_trail s) (s_lim s) h (s_phase s) (s_props s) (s_confl s)
       (s_orig s) (s_learned s) (s_lbd s) (s_wpos s) (s_wneg s) (s_bpos s) (s_bneg s).

Definition push_lim (s : st) : st :=   (* trail_lim.append(len(trail)) *)
  mkSt (s_vals s) (s_levels s) (s_reasons s) (s_trail s) (s_lim s ++ [length (s_trail s)]) (s_head s) (s_phase s)
       (s_props s) (s_confl s) (s_orig s) (s_learned s) (s_lbd s) (s_wpos s) (s_wneg s) (s_bpos s) (s_bneg s).

(* ---------------------------------------------------------------- propagate *)
Inductive confl := CNone | CAssum | CAt (idx : nat).

(* `if len(trail_lim) == 0: for lit in assumptions: ...`; true = conflict (-2) *)
Fixpoint prop_assums (A : list Z) (s : st) : st * bool :=
  match A with
  | [] => (s, false)
  | l :: A' =>
      match val_of s (lvar l) with
      | None => prop_assums A' (assign_lit l None s)
      | Some b => if Bool.eqb b (lpos l) then prop_assums A' s else (bump_confl s, true)
      end
  end.

(* `for implied, clause_idx in big.implications(false_lit): ...` *)
Fixpoint prop_bin (imps : list (Z * nat)) (s : st) : st * option nat :=
  match imps with
  | [] => (s, None)
  | (implied, ci) :: rest =>
      match val_of s (lvar implied) with
      | None => prop_bin rest (assign_lit implied (Some ci) s)
      | Some b => if Bool.eqb b (lpos implied) then prop_bin rest s else (bump_confl s, Some ci)
      end
  end.

Definition swap01 (c : clause) : clause :=
  match c with a :: b :: r => b :: a :: r | _ => c end.

(* clause[1], clause[k] = clause[k], clause[1] *)
Definition swap1k (c : clause) (k : nat) : clause :=
  upd (upd c 1%nat (nth k c 0)) k (nth 1%nat c 0).

(* `for k in range(2, len(clause)): if lit_value(clause[k]) is not False` - first such k; `rest` = clause[k:] *)
Fixpoint find_nonfalse (s : st) (rest : list Z) (k : nat) : option nat :=
  match rest with
  | [] => None
  | l :: rest' => if is_false (lit_value s l) then find_nonfalse s rest' (S k) else Some k
  end.

(* watches[i] = watches[-1]; watches.pop() *)
Definition remove_swap_last (ws : list nat) (i : nat) : list nat :=
  removelast (upd ws i (last ws 0%nat)).

(* one iteration of the `while i < len(watches)` loop of propagate for the false literal fl:
   WDone = loop condition false; WNext = `i += 1`; WStay = `continue` after the watch was moved; WConf = `return clause_idx` *)
Inductive wstep := WDone | WNext (s : st) | WStay (s : st) | WConf (s : st) (ci : nat).

Definition watch_step (fl : Z) (i : nat) (s : st) : wstep :=
  let ws := watch_list s fl in
  if (i <? length ws)%nat then
    let ci := nth i ws 0%nat in
    let c := get_clause s ci in
    if (length c =? 1)%nat then WConf (bump_confl s) ci
    else
      let c1 := if nth 0%nat c 0 =? fl then swap01 c else c in
      let s1 := if nth 0%nat c 0 =? fl then set_clause s ci c1 else s in
      let first_val := lit_value s1 (nth 0%nat c1 0) in
      if is_true first_val then WNext s1
      else
        match find_nonfalse s1 (skipn 2 c1) 2 with
        | Some k =>
            let c2 := swap1k c1 k in
            let s2 := set_clause s1 ci c2 in
            let s3 := set_watch_list s2 fl (remove_swap_last ws i) in
            WStay (add_watch (nth 1%nat c2 0) ci s3)
        | None =>
            if is_false first_val then WConf (bump_confl s1) ci
            else WNext (assign_lit (nth 0%nat c1 0) (Some ci) s1)
        end
  else WDone.

Fixpoint prop_watch (fuel : nat) (fl : Z) (i : nat) (s : st) : option (st * option nat) :=
  match fuel with
  | O => None
  | S f =>
      match watch_step fl i s with
      | WDone => Some (s, None)
      | WNext s' => prop_watch f fl (S i) s'
      | WStay s' => prop_watch f fl i s'
      | WConf s' ci => Some (s', Some ci)
      end
  end.

(* trail[i] in Python order *)
Definition trail_at (s : st) (i : nat) : nat := nth (length (s_trail s) - 1 - i) (s_trail s) 0%nat.

(* false_lit = var if vals[var] == 0 else -var *)
Definition false_lit_of (s : st) (v : nat) : Z := match val_of s v with Some false => zvar v | _ => - zvar v end.

(* one iteration of the `while prop_head < len(trail)` loop; `inner` = fuel of the watch loop *)
Definition head_step (inner : nat) (s : st) : option (st * option nat) :=
  let v := trail_at s (s_head s) in
  let s1 := set_head s (S (s_head s)) in
  let fl := false_lit_of s1 v in
  match prop_bin (implications s1 fl) s1 with
  | (s2, Some ci) => Some (s2, Some ci)
  | (s2, None) => prop_watch inner fl 0%nat s2
  end.

Fixpoint prop_loop (fuel : nat) (inner : nat) (s : st) : option (st * confl) :=
  match fuel with
  | O => None
  | S f =>
      if (s_head s <? length (s_trail s))%nat then
        match head_step inner s with
        | None => None
        | Some (s', Some ci) => Some (s', CAt ci)
        | Some (s', None) => prop_loop f inner s'
        end
      else Some (s, CNone)
  end.

Definition propagate (fuel : nat) (A : list Z) (s : st) : option (st * confl) :=
  if (cur_level s =? 0)%nat then
    match prop_assums A s with
    | (s1, true) => Some (s1, CAssum)
    | (s1, false) => prop_loop fuel fuel s1
    end
  else prop_loop fuel fuel s.

(* ---------------------------------------------------------------- analyze *)
Definition is_none {X} (o : option X) : bool := match o with None => true | _ => false end.

(* add_lit; acc = (seen, learned_lits, counter) *)
Definition add_lit (s : st) (cur : nat) (acc : list bool * list Z * nat) (l : Z) : list bool * list Z * nat :=
  let '(seen, ll, cnt) := acc in
  let v := lvar l in
  if nth v seen false || is_none (val_of s v) then acc
  else
    let seen' := upd seen v true in
    if (level_of s v =? cur)%nat then (seen', ll, S cnt)
    else (seen', ll ++ [if is_true (lit_value s l) then - l else l], cnt).

(* the `while counter > 0` loop, walking the trail from its end (= head of the newest-first list) *)
Fixpoint an_loop (s : st) (cur : nat) (tr : list nat) (acc : list bool * list Z * nat) : list Z :=
  let '(seen, ll, cnt) := acc in
  match cnt with
  | O => ll
  | S cnt' =>
      match tr with
      | [] => ll
      | v :: tr' =>
          if negb (nth v seen false) then an_loop s cur tr' acc
          else if (level_of s v =? cur)%nat then
            match cnt' with
            | O => false_lit_of s v :: ll
            | S _ =>
                match reason_of s v with
                | Some r =>
                    an_loop s cur tr'
                      (fold_left (fun a l => if (lvar l =? v)%nat then a else add_lit s cur a l) (get_clause s r) (seen, ll, cnt'))
                | None => an_loop s cur tr' (seen, ll, cnt')
                end
            end
          else an_loop s cur tr' acc
      end
  end.

Fixpoint dedup_nat (l : list nat) : list nat :=
  match l with
  | [] => []
  | x :: r => if existsb (Nat.eqb x) r then dedup_nat r else x :: dedup_nat r
  end.

Definition list_max_nat (l : list nat) : nat := fold_left Nat.max l 0%nat.

(* returns None | Some (learned_lits, bt_level, lbd); conflict_idx = -2 is handled by the caller *)
Definition analyze (s : st) (ci : nat) : option (list Z * nat * nat) :=
  let cur := cur_level s in
  if (cur =? 0)%nat then None
  else
    let acc0 := fold_left (add_lit s cur) (get_clause s ci) (repeat false (length (s_vals s)), [], 0%nat) in
    let ll := an_loop s cur (s_trail s) acc0 in
    match ll with
    | [] => None
    | _ =>
        let lvls := dedup_nat (map (fun l => level_of s (lvar l)) (filter (fun l => negb (is_none (val_of s (lvar l)))) ll)) in
        let top := list_max_nat lvls in
        let bt := list_max_nat (filter (fun x => (x <? top)%nat) lvls) in
        Some (ll, bt, length lvls)
    end.

(* ---------------------------------------------------------------- clause attachment, reduce_db *)
Definition append_learned (c : clause) (lbd : nat) (s : st) : st :=
  mkSt (s_vals s) (s_levels s) (s_reasons s) (s_trail s) (s_lim s) (s_head s) (s_phase s) (s_props s) (s_confl s)
       (s_orig s) (s_learned s ++ [c]) (s_lbd s ++ [lbd]) (s_wpos s) (s_wneg s) (s_bpos s) (s_bneg s).

Definition n_clauses (s : st) : nat := (length (s_orig s) + length (s_learned s))%nat.

(* if len == 2: big.add(c[0], c[1], idx) elif len > 2: add_watch(c[0], idx); add_watch(c[1], idx) *)
Definition attach (c : clause) (idx : nat) (s : st) : st :=
  match c with
  | [a; b] => big_add a b idx s
  | a :: b :: _ :: _ => add_watch b idx (add_watch a idx s)
  | _ => s
  end.

(* stable insertion sort by key (lbd, len): x goes after every element whose key is <= its own *)
Definition key_le (a b : nat * nat) : bool :=
  (fst a <? fst b)%nat || ((fst a =? fst b)%nat && (snd a <=? snd b)%nat).
Fixpoint ins_sorted {X} (key : X -> nat * nat) (x : X) (l : list X) : list X :=
  match l with
  | [] => [x]
  | y :: r => if key_le (key y) (key x) then y :: ins_sorted key x r else x :: l
  end.
Definition stable_sort {X} (key : X -> nat * nat) (l : list X) : list X :=
  fold_left (fun acc x => ins_sorted key x acc) l [].

Fixpoint keep_loop (half : nat) (i : nat) (l : list (nat * clause)) : list (nat * clause) :=
  match l with
  | [] => []
  | (lbd, c) :: r =>
      if (i <? half)%nat || (lbd <=? 3)%nat then (lbd, c) :: keep_loop half (S i) r else keep_loop half (S i) r
  end.

Fixpoint attach_all (cs : list clause) (idx : nat) (s : st) : st :=
  match cs with
  | [] => s
  | c :: r => attach_all r (S idx) (attach c idx s)
  end.

(* `watch_pos[v] = [c for c in watch_pos[v] if c < len(clauses)]` for v in 1..n_vars (index 0 untouched) *)
Definition filter_tail {X} (f : X -> bool) (l : list (list X)) : list (list X) :=
  match l with
  | [] => []
  | h :: t => h :: map (filter f) t
  end.

Definition reduce_threshold : nat := 2000.

Definition reduce_db (s : st) : st :=
  if (length (s_learned s) <? reduce_threshold)%nat then s
  else
    let indexed := stable_sort (fun p => (fst p, length (snd p))) (combine (s_lbd s) (s_learned s)) in
    let kept := keep_loop (Nat.div2 (length indexed)) 0%nat indexed in
    let no := length (s_orig s) in
    let s1 :=
      mkSt (s_vals s) (s_levels s) (s_reasons s) (s_trail s) (s_lim s) (s_head s) (s_phase s) (s_props s) (s_confl s)
           (s_orig s) (map snd kept) (map fst kept)
           (filter_tail (fun c => (c <? no)%nat) (s_wpos s)) (filter_tail (fun c => (c <? no)%nat) (s_wneg s))
           (map (filter (fun p : Z * nat => (snd p <? no)%nat)) (s_bpos s))
           (map (filter (fun p : Z * nat => (snd p <? no)%nat)) (s_bneg s)) in
    attach_all (map snd kept) no s1.

(* ---------------------------------------------------------------- set-up *)
Definition n_vars_of (cls : cnf) : nat := Z.to_nat (max_var cls).

Definition count_occ_lit (cls : cnf) (l : Z) : nat :=
  fold_left (fun a c => fold_left (fun a' x => if x =? l then S a' else a') c a) cls 0%nat.

(* find_pure_literals: [(v, True)] if only positive occurrences, [(v, False)] if only negative ones, v ascending *)
Definition find_pure_literals (cls : cnf) (n : nat) : list (nat * bool) :=
  flat_map (fun v =>
    let p := count_occ_lit cls (zvar v) in
    let q := count_occ_lit cls (- zvar v) in
    if (0 <? p)%nat && (q =? 0)%nat then [(v, true)]
    else if (0 <? q)%nat && (p =? 0)%nat then [(v, false)] else []) (seq 1 n).

Definition init_state (cls : cnf) (n : nat) : st :=
  mkSt (repeat None (S n)) (repeat 0%nat (S n)) (repeat None (S n)) [] [] 0%nat (repeat true (S n)) 0 0
       cls [] [] (repeat [] (S n)) (repeat [] (S n)) (repeat [] (S n)) (repeat [] (S n)).

(* the `for i, clause in enumerate(clauses)` loop (empty clauses are dealt with before) *)
Fixpoint attach_orig (cs : list clause) (idx : nat) (units : list (Z * nat)) (s : st) : st * list (Z * nat) :=
  match cs with
  | [] => (s, units)
  | c :: r =>
      match c with
      | [l] => attach_orig r (S idx) (units ++ [(l, idx)]) s
      | _ => attach_orig r (S idx) units (attach c idx s)
      end
  end.

Fixpoint assign_pures (A : list Z) (pl : list (nat * bool)) (s : st) : st :=
  match pl with
  | [] => s
  | (v, b) :: r =>
      if is_none (val_of s v) && negb (existsb (fun a => (lvar a =? v)%nat) A)
      then assign_pures A r (assign v b None s) else assign_pures A r s
  end.

(* true = clash between unit clauses (or with a pure literal): INFEASIBLE *)
Fixpoint assign_units (ul : list (Z * nat)) (s : st) : st * bool :=
  match ul with
  | [] => (s, false)
  | (l, idx) :: r =>
      match val_of s (lvar l) with
      | None => assign_units r (assign_lit l (Some idx) s)
      | Some b => if Bool.eqb b (lpos l) then assign_units r s else (s, true)
      end
  end.

(* ---------------------------------------------------------------- results and events *)
Record dres := mkDres {
  d_status : status;
  d_solution : option model;
  d_objective : Z;
  d_iterations : Z;
  d_evaluations : Z;
  d_solutions : option (list model)
}.

Inductive devent :=
| DEv (e : event)       (* the events of the first hook (d951d11) *)
| DDecide (v : nat)     (* ("decide", var) *)
| DRestart.             (* ("restart",) *)

Inductive derr := EFuel | EOracleEmpty | EOracleBad (v : nat) | ELuby.

Inductive outcome :=
| Done (evs : list devent) (r : dres)
| Err (e : derr) (evs : list devent).      (* events emitted so far, oldest first *)

(* sol = {v: vals[v] == 1 for v in range(1, n_vars + 1) if vals[v] != UNDEF} as the list of its true literals *)
Definition solution_of (s : st) (n : nat) : model :=
  flat_map (fun v => match val_of s v with Some true => [zvar v] | Some false => [- zvar v] | None => [] end) (seq 1 n).

(* blocking = [(-v if vals[v] == 1 else v) for v in range(1, n_vars + 1) if vals[v] != UNDEF] *)
Definition blocking_of (s : st) (n : nat) : clause :=
  flat_map (fun v => match val_of s v with Some true => [- zvar v] | Some false => [zvar v] | None => [] end) (seq 1 n).

Definition all_assigned (s : st) (n : nat) : bool :=
  forallb (fun v => negb (is_none (val_of s v))) (seq 1 n).

Record params := mkParams {
  p_assum : list Z;
  p_max_conflicts : Z;
  p_max_restarts : Z;
  p_limit : Z;
  p_luby_factor : Z;
  p_nvars : nat
}.

(* the local variables of the main loop *)
Record loop := mkLoop {
  l_st : st;
  l_conflict : confl;
  l_dec_level : nat;
  l_csr : Z;                 (* conflicts_since_restart *)
  l_luby_idx : Z;
  l_next : Z;                (* next_restart *)
  l_decisions : Z;
  l_restarts : Z;
  l_sols : list model;       (* all_solutions, NEWEST FIRST *)
  l_evs : list devent;       (* emitted events, NEWEST FIRST *)
  l_oracle : list nat
}.

Inductive step_res := Cont (L : loop) | Stop (o : outcome).

Definition finish (L : loop) (st_ : status) : outcome :=
  let evs := rev (DEv (EVerdict st_) :: l_evs L) in
  let s := l_st L in
  match rev (l_sols L) with
  | first :: _ =>
      Done evs (mkDres st_ (Some first) (Z.of_nat (length first)) (l_decisions L) (s_props s) (Some (rev (l_sols L))))
  | [] => Done evs (mkDres st_ None 0 (l_decisions L) (s_props s) None)
  end.

(* the two `OPTIMAL if all_solutions else INFEASIBLE` exits *)
Definition finish_exhausted (L : loop) : outcome :=
  match l_sols L with [] => finish L INFEASIBLE | _ => finish L OPTIMAL end.

Definition luby_val (i : Z) : option Z := luby (luby_fuel i) i.

Definition with_prop (fuel : nat) (P : params) (L : loop) (s : st) (k : st -> confl -> step_res) : step_res :=
  match propagate fuel (p_assum P) s with
  | None => Stop (Err EFuel (rev (l_evs L)))
  | Some (s', c) => k s' c
  end.

(* stable partition = blocking.sort(key=lambda lit: lit_value(lit) is False) *)
Definition sort_blocking (s : st) (b : clause) : clause :=
  filter (fun l => negb (is_false (lit_value s l))) b ++ filter (fun l => is_false (lit_value s l)) b.

Definition set_last_learned (s : st) (c : clause) : st :=
  mkSt (s_vals s) (s_levels s) (s_reasons s) (s_trail s) (s_lim s) (s_head s) (s_phase s) (s_props s) (s_confl s)
       (s_orig s) (removelast (s_learned s) ++ [c]) (s_lbd s) (s_wpos s) (s_wneg s) (s_bpos s) (s_bneg s).

(* one iteration of `while True:` *)
Definition main_step (fuel : nat) (P : params) (L : loop) : step_res :=
  let s := l_st L in
  match l_conflict L with
  | CAssum => Stop (finish_exhausted L)
  | CAt ci =>
      if (l_dec_level L =? 0)%nat then Stop (finish_exhausted L)
      else
        match analyze s ci with
        | None => Stop (finish_exhausted L)
        | Some (lc, bt, lbd) =>
            let s1 := unassign_to bt s in
            let cidx := n_clauses s1 in
            let evs1 := DEv (ELearn lc false) :: l_evs L in
            let s2 := attach lc cidx (append_learned lc lbd s1) in
            let s3 := match lc with l0 :: _ => assign_lit l0 (Some cidx) s2 | [] => s2 end in
            let csr := l_csr L + 1 in
            if l_next L <=? csr then
              if p_max_restarts P <=? l_restarts L then
                Stop (finish (mkLoop s3 (l_conflict L) bt csr (l_luby_idx L) (l_next L) (l_decisions L) (l_restarts L)
                                     (l_sols L) evs1 (l_oracle L)) MAX_ITER)
              else
                match luby_val (l_luby_idx L + 1) with
                | None => Stop (Err ELuby (rev evs1))
                | Some lv =>
                    let evs2 := DRestart :: evs1 in
                    let s4 := reduce_db (unassign_to 0 s3) in
                    let L' := mkLoop s4 CNone 0%nat 0 (l_luby_idx L + 1) (p_luby_factor P * lv) (l_decisions L)
                                     (l_restarts L + 1) (l_sols L) evs2 (l_oracle L) in
                    with_prop fuel P L' s4 (fun s5 c =>
                      Cont (mkLoop s5 c 0%nat 0 (l_luby_idx L + 1) (p_luby_factor P * lv) (l_decisions L)
                                   (l_restarts L + 1) (l_sols L) evs2 (l_oracle L)))
                end
            else
              let L' := mkLoop s3 CNone bt csr (l_luby_idx L) (l_next L) (l_decisions L) (l_restarts L) (l_sols L) evs1 (l_oracle L) in
              with_prop fuel P L' s3 (fun s5 c =>
                Cont (mkLoop s5 c bt csr (l_luby_idx L) (l_next L) (l_decisions L) (l_restarts L) (l_sols L) evs1 (l_oracle L)))
        end
  | CNone =>
      let n := p_nvars P in
      if all_assigned s n then
        (* pick_var() == 0 *)
        let sol := solution_of s n in
        let sols := sol :: l_sols L in
        let evs1 := DEv (ESolution sol) :: l_evs L in
        if p_limit P <=? Z.of_nat (length sols) then
          let evs2 := rev (DEv (EVerdict OPTIMAL) :: evs1) in
          Stop (Done evs2 (mkDres OPTIMAL (Some sol) (Z.of_nat (length sol)) (l_decisions L) (s_props s)
                                  (if p_limit P =? 1 then None else Some (rev sols))))
        else
          let blocking := blocking_of s n in
          let cidx := n_clauses s in
          let evs2 := DEv (ELearn blocking true) :: evs1 in
          let s1 := unassign_to 0 (append_learned blocking 0%nat s) in
          let sorted := sort_blocking s1 blocking in
          let s2 := set_last_learned s1 sorted in
          let open_lits := length (filter (fun l => negb (is_false (lit_value s2 l))) sorted) in
          if (open_lits =? 0)%nat then
            Cont (mkLoop s2 (CAt cidx) 0%nat (l_csr L) (l_luby_idx L) (l_next L) (l_decisions L) (l_restarts L) sols evs2 (l_oracle L))
          else
            let s3 := if (open_lits =? 1)%nat then assign_lit (nth 0%nat sorted 0) (Some cidx) s2 else s2 in
            let s4 := if (2 <=? length sorted)%nat
                      then add_watch (nth 1%nat sorted 0) cidx (add_watch (nth 0%nat sorted 0) cidx s3) else s3 in
            let L' := mkLoop s4 CNone 0%nat (l_csr L) (l_luby_idx L) (l_next L) (l_decisions L) (l_restarts L) sols evs2 (l_oracle L) in
            with_prop fuel P L' s4 (fun s5 c =>
              Cont (mkLoop s5 c 0%nat (l_csr L) (l_luby_idx L) (l_next L) (l_decisions L) (l_restarts L) sols evs2 (l_oracle L)))
      else
        match l_oracle L with
        | [] => Stop (Err EOracleEmpty (rev (l_evs L)))
        | v :: orc =>
            if (1 <=? v)%nat && (v <=? n)%nat && is_none (val_of s v) then
              let evs1 := DDecide v :: l_evs L in
              let s1 := assign v (nth v (s_phase s) true) None (push_lim s) in
              let L' := mkLoop s1 CNone (S (l_dec_level L)) (l_csr L) (l_luby_idx L) (l_next L) (l_decisions L + 1)
                               (l_restarts L) (l_sols L) evs1 orc in
              with_prop fuel P L' s1 (fun s2 c =>
                let L2 := mkLoop s2 c (S (l_dec_level L)) (l_csr L) (l_luby_idx L) (l_next L) (l_decisions L + 1)
                                 (l_restarts L) (l_sols L) evs1 orc in
                if p_max_conflicts P <=? s_confl s2 then Stop (finish L2 MAX_ITER) else Cont L2)
            else Stop (Err (EOracleBad v) (rev (l_evs L)))
        end
  end.

Fixpoint main_loop (fuel : nat) (inner : nat) (P : params) (L : loop) : outcome :=
  match fuel with
  | O => Err EFuel (rev (l_evs L))
  | S f =>
      match main_step inner P L with
      | Stop o => o
      | Cont L' => main_loop f inner P L'
      end
  end.

(* ---------------------------------------------------------------- solve_sat *)
Definition is_nilb {X} (l : list X) : bool := match l with [] => true | _ => false end.

(* everything before `while True:`; IDone = one of the early returns *)
Inductive init_res := IDone (o : outcome) | ILoop (P : params) (L : loop).

Definition init_loop (fuel : nat) (cls : cnf) (A : list Z) (max_conflicts max_restarts limit luby_factor : Z)
                     (oracle : list nat) : init_res :=
  match cls with
  | [] => IDone (Done [] (mkDres OPTIMAL (Some []) 0 0 0 None))
  | _ =>
      let n := n_vars_of cls in
      if (n =? 0)%nat then IDone (Done [DEv (EVerdict OPTIMAL)] (mkDres OPTIMAL (Some []) 0 0 0 None))
      else if existsb is_nilb cls then IDone (Done [DEv (EVerdict INFEASIBLE)] (mkDres INFEASIBLE None 0 0 0 None))
      else
        let '(s0, units) := attach_orig cls 0%nat [] (init_state cls n) in
        let s1 := if limit <=? 1 then assign_pures A (find_pure_literals cls n) s0 else s0 in
        match assign_units units s1 with
        | (_, true) => IDone (Done [DEv (EVerdict INFEASIBLE)] (mkDres INFEASIBLE None 0 0 0 None))
        | (s2, false) =>
            let pure := flat_map (fun v => match reason_of s2 v with
                                           | None => [match val_of s2 v with Some true => zvar v | _ => - zvar v end]
                                           | Some _ => [] end) (rev (s_trail s2)) in
            let ev0 := DEv (EInit (Z.of_nat n) pure (map fst units) A) in
            match propagate fuel A s2 with
            | None => IDone (Err EFuel [ev0])
            | Some (s3, CAt _) =>
                IDone (Done [ev0; DEv (EVerdict INFEASIBLE)] (mkDres INFEASIBLE None 0 0 (s_props s3) None))
            | Some (s3, c) =>
                match luby_val 1 with
                | None => IDone (Err ELuby [ev0])
                | Some lv =>
                    ILoop (mkParams A max_conflicts max_restarts limit luby_factor n)
                          (mkLoop s3 c 0%nat 0 1 (luby_factor * lv) 0 0 [] [ev0] oracle)
                end
            end
        end
  end.

Definition solve_sat (fuel : nat) (cls : cnf) (A : list Z) (max_conflicts max_restarts limit luby_factor : Z)
                     (oracle : list nat) : outcome :=
  match init_loop fuel cls A max_conflicts max_restarts limit luby_factor oracle with
  | IDone o => o
  | ILoop P L => main_loop fuel fuel P L
  end.

(* the loop states a run goes through (for the invariants of Props/C01_deep.v) *)
Inductive reach (fuel : nat) (P : params) (L0 : loop) : loop -> Prop :=
| reach_init : reach fuel P L0 L0
| reach_step : forall L L', reach fuel P L0 L -> main_step fuel P L = Cont L' -> reach fuel P L0 L'.

(* ---------------------------------------------------------------- comparison with the implementation *)
Fixpoint decisions_of (evs : list devent) : list nat :=
  match evs with
  | [] => []
  | DDecide v :: r => v :: decisions_of r
  | _ :: r => decisions_of r
  end.

Definition event_eqb (a b : event) : bool :=
  match a, b with
  | EInit n p u x, EInit n' p' u' x' => (n =? n') && zlist_eqb p p' && zlist_eqb u u' && zlist_eqb x x'
  | ELearn c f, ELearn c' f' => zlist_eqb c c' && Bool.eqb f f'
  | ESolution m, ESolution m' => zlist_eqb m m'
  | EVerdict s, EVerdict s' => status_eqb s s'
  | _, _ => false
  end.

Definition devent_eqb (a b : devent) : bool :=
  match a, b with
  | DEv e, DEv e' => event_eqb e e'
  | DDecide v, DDecide v' => (v =? v')%nat
  | DRestart, DRestart => true
  | _, _ => false
  end.

Fixpoint devents_eqb (a b : list devent) : bool :=
  match a, b with
  | [], [] => true
  | x :: xs, y :: ys => devent_eqb x y && devents_eqb xs ys
  | _, _ => false
  end.

Definition dres_eqb (a b : dres) : bool :=
  status_eqb (d_status a) (d_status b) && opt_eqb zlist_eqb (d_solution a) (d_solution b)
  && (d_objective a =? d_objective b) && (d_iterations a =? d_iterations b) && (d_evaluations a =? d_evaluations b)
  && opt_eqb models_eqb (d_solutions a) (d_solutions b).

(* the model, driven by the decisions of the implementation's own trace, reproduces the trace and the Result *)
Definition deep_ok (fuel : nat) (cls : cnf) (A : list Z) (mc mr limit lf : Z) (evs : list devent) (impl : dres) : bool :=
  match solve_sat fuel cls A mc mr limit lf (decisions_of evs) with
  | Done evs' r => devents_eqb evs' evs && dres_eqb r impl
  | Err _ _ => false
  end.

(* fuel that is provably generous for a run that produced `evs`: every iteration of `while True` emits at least one
   event; a propagate loop runs at most once per trail entry (+1), a watch loop at most once per clause (+1) *)
Definition deep_fuel (cls : cnf) (evs : list devent) : nat :=
  (length evs + length cls + n_vars_of cls + 8)%nat.

Definition deep_check (cls : cnf) (A : list Z) (mc mr limit lf : Z) (evs : list devent) (impl : dres) : bool :=
  deep_ok (deep_fuel cls evs) cls A mc mr limit lf evs impl.
