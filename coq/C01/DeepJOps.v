(* C01 deep model - coverage (W "at least") through the elementary operations. *)
From Coq Require Import List ZArith Bool Arith Lia Permutation.
Import ListNotations.
From SV Require Import C01.SatSpec C01.Machine C01.DeepCdcl C01.DeepBase C01.DeepTrail C01.DeepTrailProp C01.DeepAnalyze
  C01.DeepWatch C01.DeepReason C01.DeepReasonProp C01.DeepRunOps C01.DeepJ.
Close Scope Z_scope.
Open Scope nat_scope.

(* ---------------------------------------------------------------- monotone changes *)
Lemma cov_all_mono : forall s s', n_clauses s' = n_clauses s -> (forall r, get_clause s' r = get_clause s r) ->
  (forall l ci, cnt (watch_list s l) ci <= cnt (watch_list s' l) ci) ->
  (forall fl p, In p (implications s fl) -> In p (implications s' fl)) ->
  (forall l, lit_value s l = Some true -> level_of s (lvar l) = 0 -> lit_value s' l = Some true /\ level_of s' (lvar l) = 0) ->
  cov_all s -> cov_all s'.
Proof.
  intros s s' En Eg Hw Hi Hu H ci Hci. rewrite En in Hci. pose proof (H ci Hci) as Q. unfold covered in *. rewrite Eg.
  destruct (get_clause s ci) as [|a [|b r]]; [exact Q | apply Hu; tauto|].
  destruct Q as [Q|[Q1 [Q2 Q3]]]; [left | right].
  - intros l. pose proof (Q l). pose proof (Hw l ci). lia.
  - split; [exact Q1|]. split; apply Hi; assumption.
Qed.

Lemma cov_all_db_eq_asg : forall s s', db_eq s s' ->
  (forall l, lit_value s l = Some true -> level_of s (lvar l) = 0 -> lit_value s' l = Some true /\ level_of s' (lvar l) = 0) ->
  cov_all s -> cov_all s'.
Proof.
  intros s s' E Hu H. apply (cov_all_mono s); auto.
  - apply db_eq_n_clauses. exact E.
  - intros r. apply db_eq_get_clause. exact E.
  - intros l ci. rewrite (db_eq_watch_list _ _ _ E). lia.
  - intros fl p Hp. rewrite (db_eq_implications _ _ _ E). exact Hp.
Qed.

Lemma arr_len_db_eq : forall s s', db_eq s s' -> nv s' = nv s -> arr_len s -> arr_len s'.
Proof. intros s s' (_ & _ & E3 & E4 & E5 & E6) En (A1 & A2 & A3 & A4). unfold arr_len. rewrite E3, E4, E5, E6, En. auto. Qed.

Lemma cov_all_assign : forall s v b r, trail_inv s -> val_of s v = None -> v < length (s_vals s) -> cov_all s -> cov_all (assign v b r s).
Proof.
  intros s v b r HT Hn Hv H. apply (cov_all_db_eq_asg s); [apply assign_db_eq | | exact H].
  intros l Ht Hl. assert (lvar l <> v) as Hne by (intros C; apply lit_value_assigned in Ht; rewrite C in Ht; contradiction).
  split; [rewrite lit_value_assign_other by exact Hne; exact Ht|].
  rewrite level_of_assign by (rewrite (ti_len_levels s HT); exact Hv). destruct (Nat.eqb_spec v (lvar l)); [congruence | exact Hl].
Qed.

Lemma cov_all_asg_eq_db_eq : forall s s', asg_eq s s' -> db_eq s s' -> cov_all s -> cov_all s'.
Proof.
  intros s s' EA ED H. apply (cov_all_db_eq_asg s); auto. intros l Ht Hl.
  rewrite (asg_eq_lit_value _ _ _ EA), (asg_eq_level_of _ _ _ EA). auto.
Qed.

Lemma cov_all_unassign_to : forall s level, trail_inv s -> cov_all s -> cov_all (unassign_to level s).
Proof.
  intros s level HT H. apply (cov_all_db_eq_asg s); [apply unassign_to_db_eq | | exact H].
  intros l Ht Hl. destruct (unassign_to_spec s level HT) as [popped (_ & EL & _)].
  split; [|unfold level_of; rewrite EL; exact Hl].
  assert (In (lvar l) (s_trail s)) as Hin by (apply (ti_assigned s HT); eapply lit_value_assigned; exact Ht).
  destruct (Nat.lt_ge_cases level (cur_level s)) as [L|L].
  - destruct (proj1 (unassign_to_stays_or_goes s level (lvar l) HT Hin L) ltac:(lia)) as [_ Q]. unfold lit_value in *. rewrite Q. exact Ht.
  - destruct (unassign_to_spec s level HT) as [popped' (_ & _ & _ & _ & _ & _ & Hkeep & _ & Hge)].
    unfold cur_level in L. rewrite (Hge L) in Hkeep. unfold lit_value in *. rewrite Hkeep by (intros []). exact Ht.
Qed.

(* ---------------------------------------------------------------- swap01 *)
Lemma cov_all_swap01 : forall s ci, cov_all s -> ci < n_clauses s -> cov_all (set_clause s ci (swap01 (get_clause s ci))).
Proof.
  intros s ci H Hci cj Hcj. rewrite n_clauses_set_clause in Hcj. pose proof (H cj Hcj) as Q. unfold covered in *.
  pose proof (set_clause_asg s ci (swap01 (get_clause s ci))) as EA.
  destruct (Nat.eq_dec cj ci) as [E|E].
  - subst cj. rewrite get_clause_set_clause_eq by exact Hci.
    destruct (get_clause s ci) as [|a [|b r]]; simpl swap01 in *; cbv iota; [exact Q | rewrite (asg_eq_lit_value _ _ _ EA), (asg_eq_level_of _ _ _ EA); exact Q|].
    destruct Q as [Q|[Q1 [Q2 Q3]]]; [left | right].
    + intros l. rewrite watch_list_set_clause. pose proof (Q l) as Q'. unfold pos01 in *. lia.
    + split; [exact Q1|]. split; rewrite implications_set_clause; assumption.
  - rewrite get_clause_set_clause_neq by exact E.
    destruct (get_clause s cj) as [|a [|b r]]; [exact Q | rewrite (asg_eq_lit_value _ _ _ EA), (asg_eq_level_of _ _ _ EA); exact Q|].
    destruct Q as [Q|[Q1 [Q2 Q3]]]; [left | right].
    + intros l. rewrite watch_list_set_clause. apply Q.
    + split; [exact Q1|]. split; rewrite implications_set_clause; assumption.
Qed.

(* ---------------------------------------------------------------- exact effect of add_watch within range *)
Lemma slot_len_set_watch_list : forall s l ws l', slot_len (set_watch_list s l ws) l' = slot_len s l'.
Proof. intros. unfold slot_len, set_watch_list. destruct (lpos l); destruct (lpos l'); simpl; rewrite ?upd_length; reflexivity. Qed.

Lemma cnt_add_watch_ge : forall l' idx s l cj, lvar l' < slot_len s l' ->
  cnt (watch_list s l) cj + (if Z.eq_dec l l' then if Nat.eq_dec idx cj then 1 else 0 else 0)
  <= cnt (watch_list (add_watch l' idx s) l) cj.
Proof.
  intros l' idx s l cj Hr. unfold add_watch. destruct (Z.eq_dec l l') as [E|E].
  - subst l'. rewrite watch_list_set_same. destruct (Nat.ltb_spec (lvar l) (slot_len s l)); [|lia]. rewrite cnt_app, cnt_one. lia.
  - rewrite watch_list_set_other by exact E. lia.
Qed.

Lemma watch_nonempty_in_range : forall s l, watch_list s l <> [] -> lvar l < slot_len s l.
Proof.
  intros s l H. unfold watch_list, slot_len in *. destruct (lpos l).
  - destruct (Nat.lt_ge_cases (lvar l) (length (s_wpos s))) as [Q|Q]; [exact Q | exfalso; apply H; apply nth_overflow; exact Q].
  - destruct (Nat.lt_ge_cases (lvar l) (length (s_wneg s))) as [Q|Q]; [exact Q | exfalso; apply H; apply nth_overflow; exact Q].
Qed.

(* ---------------------------------------------------------------- watches[i] = watches[-1]; watches.pop(), by index *)
Lemma removelast_length' : forall {A} (l : list A), length (removelast l) = length l - 1.
Proof.
  intros A l. destruct (list_last_case l) as [E|(l' & z & E)]; subst; [reflexivity|].
  rewrite removelast_app_one, app_length. simpl. lia.
Qed.

Lemma nth_removelast : forall {A} (l : list A) j d, j < length l - 1 -> nth j (removelast l) d = nth j l d.
Proof.
  intros A l j d H. destruct (list_last_case l) as [E|(l' & z & E)]; subst; [simpl in H; lia|].
  rewrite removelast_app_one. rewrite app_length in H. simpl in H. rewrite app_nth1 by lia. reflexivity.
Qed.

Lemma last_nth : forall (l : list nat) d, last l d = nth (length l - 1) l d.
Proof.
  intros l d. destruct (list_last_case l) as [E|(l' & z & E)]; subst; [reflexivity|].
  rewrite last_app_one, app_length. simpl. rewrite app_nth2 by lia. replace (length l' + 1 - 1 - length l') with 0 by lia. reflexivity.
Qed.

Lemma length_remove_swap_last : forall ws i, length (remove_swap_last ws i) = length ws - 1.
Proof. intros. unfold remove_swap_last. rewrite removelast_length', upd_length. reflexivity. Qed.

Lemma nth_remove_swap_last : forall ws i j, i < length ws -> j < length ws - 1 ->
  nth j (remove_swap_last ws i) 0 = if i =? j then nth (length ws - 1) ws 0 else nth j ws 0.
Proof.
  intros ws i j Hi Hj. unfold remove_swap_last. rewrite nth_removelast by (rewrite upd_length; exact Hj).
  destruct (Nat.eqb_spec i j) as [E|E].
  - subst j. rewrite nth_upd_eq by exact Hi. apply last_nth.
  - apply nth_upd_neq. exact E.
Qed.

(* ---------------------------------------------------------------- moving a watch keeps every clause covered *)
Lemma cov_all_move : forall s fl i a rest j,
  cov_all s -> watch_le s -> i < length (watch_list s fl) ->
  get_clause s (nth i (watch_list s fl) 0) = a :: fl :: rest -> j < length rest -> nth j rest 0%Z <> fl ->
  lvar (nth j rest 0%Z) < slot_len s (nth j rest 0%Z) ->
  cov_all (add_watch (nth j rest 0%Z) (nth i (watch_list s fl) 0)
             (set_watch_list (set_clause s (nth i (watch_list s fl) 0) (a :: nth j rest 0%Z :: upd rest j fl))
                             fl (remove_swap_last (watch_list s fl) i))).
Proof.
  intros s fl i a rest j H HW Hi Hc Hj Hx Hxr. set (ws := watch_list s fl) in *. set (ci := nth i ws 0) in *.
  set (x := nth j rest 0%Z) in *. set (c2 := a :: x :: upd rest j fl).
  assert (ci < n_clauses s) as Hci.
  { destruct (watch_le_member s fl ci HW) as [Q _]; [apply nth_In; exact Hi | exact Q]. }
  set (s2 := set_clause s ci c2). set (s3 := set_watch_list s2 fl (remove_swap_last ws i)). set (s4 := add_watch x ci s3).
  assert (n_clauses s4 = n_clauses s) as N4.
  { unfold s4, add_watch, s3, s2. rewrite !n_clauses_set_watch_list, n_clauses_set_clause. reflexivity. }
  assert (forall cj, get_clause s4 cj = get_clause s2 cj) as G4.
  { intros cj. unfold s4, add_watch, s3. rewrite !get_clause_set_watch_list. reflexivity. }
  assert (asg_eq s s4) as EA.
  { unfold s4, s3, s2. eapply asg_eq_trans; [apply set_clause_asg|]. eapply asg_eq_trans; [apply set_watch_list_asg | apply add_watch_asg]. }
  assert (forall l p, In p (implications s l) -> In p (implications s4 l)) as I4.
  { intros l p Hp. unfold s4, add_watch, s3, s2. rewrite !implications_set_watch_list, implications_set_clause. exact Hp. }
  assert (lvar fl < slot_len s fl) as Hflr.
  { apply watch_nonempty_in_range. fold ws. intros C. rewrite C in Hi. simpl in Hi. lia. }
  assert (forall l cj, cnt (watch_list s l) cj + (if Z.eq_dec l x then if Nat.eq_dec ci cj then 1 else 0 else 0)
                       <= cnt (watch_list s4 l) cj + (if Z.eq_dec l fl then if Nat.eq_dec ci cj then 1 else 0 else 0)) as W4.
  { intros l cj. unfold s4.
    assert (lvar x < slot_len s3 x) as Hxr3.
    { unfold s3, s2. rewrite slot_len_set_watch_list. unfold slot_len, set_clause. destruct (ci <? length (s_orig s)); exact Hxr. }
    pose proof (cnt_add_watch_ge x ci s3 l cj Hxr3) as Q1.
    assert (cnt (watch_list s3 l) cj + (if Z.eq_dec l fl then if Nat.eq_dec ci cj then 1 else 0 else 0) = cnt (watch_list s l) cj) as Q2.
    { unfold s3. destruct (Z.eq_dec l fl) as [E|E].
      - subst l. rewrite watch_list_set_same.
        assert (slot_len s2 fl = slot_len s fl) as Q3 by (unfold s2, slot_len, set_clause; destruct (ci <? length (s_orig s)); reflexivity).
        rewrite Q3. destruct (Nat.ltb_spec (lvar fl) (slot_len s fl)); [|lia].
        pose proof (cnt_remove_swap_last ws i cj Hi) as Q4. fold ci in Q4. fold ws. lia.
      - rewrite watch_list_set_other by exact E. unfold s2. rewrite watch_list_set_clause. lia. }
    lia. }
  intros cj Hcj. rewrite N4 in Hcj. pose proof (H cj Hcj) as Q. unfold covered in *. rewrite G4.
  destruct (Nat.eq_dec cj ci) as [E|E].
  - subst cj. unfold s2. rewrite get_clause_set_clause_eq by exact Hci. rewrite Hc in Q. unfold c2.
    destruct Q as [Q|[Q1 _]]; [|subst rest; simpl in Hj; lia].
    left. intros l. pose proof (Q l) as Ql. pose proof (W4 l ci) as Wl. unfold pos01 in *.
    destruct (Nat.eq_dec ci ci); [|congruence].
    destruct (Z.eq_dec l x) as [E1|E1]; destruct (Z.eq_dec l fl) as [E2|E2]; subst;
      repeat match goal with |- context [(?p =? ?q)%Z] => destruct (Z.eqb_spec p q) end;
      repeat match goal with H0 : context [(?p =? ?q)%Z] |- _ => destruct (Z.eqb_spec p q) end; try congruence; lia.
  - unfold s2. rewrite get_clause_set_clause_neq by exact E.
    destruct (get_clause s cj) as [|a0 [|b0 r0]]; [exact Q | rewrite (asg_eq_lit_value _ _ _ EA), (asg_eq_level_of _ _ _ EA); exact Q|].
    destruct Q as [Q|[Q1 [Q2 Q3]]]; [left | right].
    + intros l. pose proof (Q l) as Ql. pose proof (W4 l cj) as Wl.
      destruct (Nat.eq_dec ci cj); [congruence|]. destruct (Z.eq_dec l x); destruct (Z.eq_dec l fl); lia.
    + split; [exact Q1|]. split; apply I4; assumption.
Qed.
