(* C01 deep model - invariant (T): vals / trail / trail_lim / levels / prop_head are consistent.
   Part 1: the invariant, assign, unassign_to, decide (push_lim + assign), frame operations. *)
From Coq Require Import List ZArith Bool Arith Lia.
Import ListNotations.
From SV Require Import C01.SatSpec C01.Machine C01.DeepCdcl C01.DeepBase.
Close Scope Z_scope.
Open Scope nat_scope.

(* level of the trail entry at Python position pos: number of decision marks at or below it *)
Definition lvl_at (lim : list nat) (pos : nat) : nat := length (filter (fun l => l <=? pos) lim).

Definition lim_sorted (lim : list nat) : Prop :=
  forall i j, i <= j -> j < length lim -> nth i lim 0 <= nth j lim 0.

Record trail_inv (s : st) : Prop := mkTI {
  ti_nodup : NoDup (s_trail s);                                         (* every variable at most once on the trail *)
  ti_assigned : forall v, val_of s v <> None <-> In v (s_trail s);       (* assigned iff on the trail *)
  ti_head : s_head s <= length (s_trail s);
  ti_sorted : lim_sorted (s_lim s);
  ti_lim_le : forall l, In l (s_lim s) -> l <= length (s_trail s);
  ti_levels : forall tr1 v tr2, s_trail s = tr1 ++ v :: tr2 -> level_of s v = lvl_at (s_lim s) (length tr2);
  ti_len_levels : length (s_levels s) = length (s_vals s);
  ti_len_reasons : length (s_reasons s) = length (s_vals s)
}.

Lemma trail_inv_asg_eq : forall s s', asg_eq s s' -> trail_inv s -> trail_inv s'.
Proof.
  intros s s' E H. pose proof E as (E1 & E2 & E3 & E4 & E5 & E6 & E7). destruct H.
  constructor; unfold val_of, level_of in *; rewrite ?E1, ?E2, ?E3, ?E4, ?E5, ?E6; auto.
Qed.

Lemma trail_var_in_range : forall s v, trail_inv s -> In v (s_trail s) -> v < length (s_vals s).
Proof.
  intros s v H Hin. apply (ti_assigned s H) in Hin. unfold val_of in Hin.
  destruct (Nat.lt_ge_cases v (length (s_vals s))) as [L|L]; [exact L|].
  rewrite nth_overflow in Hin by exact L. congruence.
Qed.

(* ---------------------------------------------------------------- lvl_at *)
Lemma lvl_at_all : forall lim pos, (forall l, In l lim -> l <= pos) -> lvl_at lim pos = length lim.
Proof.
  induction lim as [|x r IH]; intros pos H; unfold lvl_at in *; simpl; [reflexivity|].
  assert (x <= pos) as Hx by (apply H; left; reflexivity).
  apply Nat.leb_le in Hx. rewrite Hx. simpl. f_equal. apply IH. intros l Hl. apply H. right. exact Hl.
Qed.

Lemma lvl_at_app : forall a b pos, lvl_at (a ++ b) pos = lvl_at a pos + lvl_at b pos.
Proof. intros a b pos. unfold lvl_at. rewrite filter_app, app_length. reflexivity. Qed.

Lemma lvl_at_none : forall lim pos, (forall l, In l lim -> pos < l) -> lvl_at lim pos = 0.
Proof.
  induction lim as [|x r IH]; intros pos H; unfold lvl_at in *; simpl; [reflexivity|].
  assert (pos < x) as Hx by (apply H; left; reflexivity).
  destruct (Nat.leb_spec x pos); [lia|]. apply IH. intros l Hl. apply H. right. exact Hl.
Qed.

Lemma nth_skipn' : forall {A} (l : list A) k j d, nth j (skipn k l) d = nth (k + j) l d.
Proof.
  induction l as [|x l IH]; intros [|k] j d; simpl; auto. destruct j; reflexivity.
Qed.

Lemma nth_firstn' : forall {A} (l : list A) k j d, j < k -> nth j (firstn k l) d = nth j l d.
Proof.
  induction l as [|x l IH]; intros [|k] [|j] d H; simpl; auto; try lia. apply IH. lia.
Qed.

Lemma lim_sorted_skipn_ge : forall lim k x, lim_sorted lim -> k < length lim -> In x (skipn k lim) -> nth k lim 0 <= x.
Proof.
  intros lim k x Hs Hk Hin. destruct (In_nth _ _ 0 Hin) as [j [Hj Hx]].
  rewrite skipn_length in Hj. rewrite nth_skipn' in Hx. subst x. apply Hs; lia.
Qed.

Lemma lvl_at_firstn : forall lim k pos, lim_sorted lim -> k < length lim -> pos < nth k lim 0 ->
  lvl_at (firstn k lim) pos = lvl_at lim pos.
Proof.
  intros lim k pos Hs Hk Hpos. rewrite <- (firstn_skipn k lim) at 2. rewrite lvl_at_app.
  rewrite (lvl_at_none (skipn k lim)); [lia|].
  intros l Hl. pose proof (lim_sorted_skipn_ge lim k l Hs Hk Hl). lia.
Qed.

Lemma lim_sorted_firstn : forall lim k, lim_sorted lim -> lim_sorted (firstn k lim).
Proof.
  intros lim k Hs i j Hij Hj. rewrite firstn_length in Hj.
  rewrite !nth_firstn' by lia. apply Hs; lia.
Qed.

Lemma lim_sorted_snoc : forall lim x, lim_sorted lim -> (forall l, In l lim -> l <= x) -> lim_sorted (lim ++ [x]).
Proof.
  intros lim x Hs Hle i j Hij Hj. rewrite app_length in Hj. simpl in Hj.
  destruct (Nat.lt_ge_cases j (length lim)) as [L|L].
  - rewrite !app_nth1 by lia. apply Hs; lia.
  - assert (j = length lim) by lia. subst j.
    assert (nth (length lim) (lim ++ [x]) 0 = x) as Q.
    { rewrite app_nth2 by lia. rewrite Nat.sub_diag. reflexivity. }
    destruct (Nat.lt_ge_cases i (length lim)) as [L2|L2].
    + rewrite Q. rewrite app_nth1 by lia. apply Hle. apply nth_In. exact L2.
    + assert (i = length lim) by lia. subst i. lia.
Qed.

(* ---------------------------------------------------------------- assign *)
Lemma val_of_assign : forall s v b r w, v < length (s_vals s) ->
  val_of (assign v b r s) w = if v =? w then Some b else val_of s w.
Proof.
  intros s v b r w Hv. unfold val_of, assign. simpl.
  destruct (Nat.eqb_spec v w) as [E|E].
  - subst w. apply nth_upd_eq. exact Hv.
  - apply nth_upd_neq. exact E.
Qed.

Lemma level_of_assign : forall s v b r w, v < length (s_levels s) ->
  level_of (assign v b r s) w = if v =? w then cur_level s else level_of s w.
Proof.
  intros s v b r w Hv. unfold level_of, assign. simpl.
  destruct (Nat.eqb_spec v w) as [E|E].
  - subst w. apply nth_upd_eq. exact Hv.
  - apply nth_upd_neq. exact E.
Qed.

Lemma assign_trail_inv : forall s v b r, trail_inv s -> val_of s v = None -> v < length (s_vals s) ->
  trail_inv (assign v b r s).
Proof.
  intros s v b r H Hnone Hv.
  assert (~ In v (s_trail s)) as Hnotin.
  { intros Hin. apply (ti_assigned s H) in Hin. congruence. }
  constructor.
  - simpl. constructor; [exact Hnotin | exact (ti_nodup s H)].
  - intros w. rewrite val_of_assign by exact Hv. simpl.
    destruct (Nat.eqb_spec v w) as [E|E].
    + split; [intros _; left; exact E | intros _; discriminate].
    + rewrite (ti_assigned s H w). split; [intros Hin; right; exact Hin | intros [Hc|Hin]; [congruence | exact Hin]].
  - simpl. pose proof (ti_head s H). lia.
  - simpl. exact (ti_sorted s H).
  - simpl. intros l Hl. pose proof (ti_lim_le s H l Hl). lia.
  - intros tr1 w tr2 Heq. simpl in Heq.
    rewrite level_of_assign by (rewrite (ti_len_levels s H); exact Hv).
    change (s_lim (assign v b r s)) with (s_lim s).
    destruct tr1 as [|x tr1'].
    + simpl in Heq. injection Heq as Hw Htr. subst w tr2. rewrite Nat.eqb_refl.
      unfold cur_level. symmetry. apply lvl_at_all. exact (ti_lim_le s H).
    + simpl in Heq. injection Heq as Hx Htr. subst x.
      assert (In w (s_trail s)) as Hin by (rewrite Htr; apply in_or_app; right; left; reflexivity).
      destruct (Nat.eqb_spec v w) as [E|E]; [subst w; contradiction|].
      exact (ti_levels s H tr1' w tr2 Htr).
  - simpl. rewrite !upd_length. exact (ti_len_levels s H).
  - simpl. rewrite !upd_length. exact (ti_len_reasons s H).
Qed.

(* ---------------------------------------------------------------- unwind / unassign_to *)
Lemma unwind_spec : forall k vals phase tr vals' phase' tr',
  unwind k vals phase tr = (vals', phase', tr') ->
  exists popped, tr = popped ++ tr' /\ length popped = Nat.min k (length tr)
    /\ length vals' = length vals /\ length phase' = length phase
    /\ (forall v, In v popped -> nth v vals' None = None)
    /\ (forall v, ~ In v popped -> nth v vals' None = nth v vals None).
Proof.
  induction k as [|k IH]; intros vals phase tr vals' phase' tr' H.
  - simpl in H. injection H as H1 H2 H3. subst. exists []. simpl. repeat split; auto. intros v [].
  - destruct tr as [|x tr0].
    + simpl in H. injection H as H1 H2 H3. subst. exists []. simpl. repeat split; auto. intros v [].
    + simpl in H. apply IH in H. destruct H as [popped (E & L & LV & LP & Hin & Hout)].
      exists (x :: popped). rewrite !upd_length in *. simpl. repeat split; auto.
      * rewrite E. reflexivity.
      * intros v [Hv|Hv].
        -- subst v. destruct (in_dec Nat.eq_dec x popped) as [I|I]; [apply Hin; exact I|].
           rewrite (Hout x I). rewrite nth_upd_default. rewrite Nat.eqb_refl. reflexivity.
        -- apply Hin. exact Hv.
      * intros v Hv. assert (x <> v /\ ~ In v popped) as [Hx Hp] by (split; intros C; apply Hv; [left|right]; auto).
        rewrite (Hout v Hp). apply nth_upd_neq. exact Hx.
Qed.

Lemma NoDup_app_l : forall {A} (a b : list A), NoDup (a ++ b) -> NoDup b.
Proof. induction a as [|x a IH]; intros b H; simpl in *; [exact H|]. inversion H; subst. apply IH. assumption. Qed.

Lemma NoDup_app_disjoint : forall {A} (a b : list A) x, NoDup (a ++ b) -> In x a -> ~ In x b.
Proof.
  induction a as [|y a IH]; intros b x H Hin; simpl in *; [contradiction|].
  inversion H; subst. destruct Hin as [E|Hin].
  - subst y. intros Hb. apply H2. apply in_or_app. right. exact Hb.
  - apply IH; assumption.
Qed.

Lemma unassign_to_trail_inv : forall s level, trail_inv s -> trail_inv (unassign_to level s).
Proof.
  intros s level H. unfold unassign_to.
  set (target := if level <? length (s_lim s) then nth level (s_lim s) 0 else length (s_trail s)).
  destruct (unwind (length (s_trail s) - target) (s_vals s) (s_phase s) (s_trail s)) as [[vals' phase'] tr'] eqn:EU.
  apply unwind_spec in EU. destruct EU as [popped (E & L & LV & LP & Hin & Hout)].
  assert (target <= length (s_trail s)) as Htl.
  { unfold target. destruct (Nat.ltb_spec level (length (s_lim s))) as [Q|Q]; [|lia].
    apply (ti_lim_le s H). apply nth_In. exact Q. }
  assert (length tr' = target) as Hlen.
  { assert (length (s_trail s) = length popped + length tr') as Q by (rewrite E at 1; apply app_length). lia. }
  pose proof (ti_nodup s H) as ND. rewrite E in ND.
  constructor; simpl.
  - exact (NoDup_app_l _ _ ND).
  - intros v. unfold val_of. simpl. destruct (in_dec Nat.eq_dec v popped) as [I|I].
    + rewrite (Hin v I). split; [congruence|]. intros Q. exfalso. exact (NoDup_app_disjoint _ _ _ ND I Q).
    + rewrite (Hout v I). fold (val_of s v). rewrite (ti_assigned s H v). rewrite E.
      split; [intros Q; apply in_app_or in Q; destruct Q; [contradiction|assumption] | intros Q; apply in_or_app; right; exact Q].
  - apply Nat.le_min_r.
  - apply lim_sorted_firstn. exact (ti_sorted s H).
  - intros l Hl. rewrite Hlen. unfold target.
    destruct (Nat.ltb_spec level (length (s_lim s))) as [Q|Q].
    + destruct (In_nth _ _ 0 Hl) as [j [Hj Hx]]. rewrite firstn_length in Hj.
      rewrite nth_firstn' in Hx by lia. subst l. apply (ti_sorted s H); lia.
    + rewrite firstn_all2 in Hl by lia. exact (ti_lim_le s H l Hl).
  - intros tr1 v tr2 Heq. unfold level_of. simpl. fold (level_of s v).
    rewrite (ti_levels s H (popped ++ tr1) v tr2) by (rewrite E, Heq, app_assoc; reflexivity).
    assert (length tr2 < target) as Hlt.
    { rewrite <- Hlen, Heq, app_length. simpl. lia. }
    unfold target in Hlt. destruct (Nat.ltb_spec level (length (s_lim s))) as [Q|Q].
    + symmetry. apply lvl_at_firstn; [exact (ti_sorted s H) | exact Q | exact Hlt].
    + rewrite firstn_all2 by lia. reflexivity.
  - rewrite LV. exact (ti_len_levels s H).
  - rewrite LV. exact (ti_len_reasons s H).
Qed.

Lemma unassign_to_nvals : forall s level, length (s_vals (unassign_to level s)) = length (s_vals s).
Proof.
  intros s level. unfold unassign_to.
  destruct (unwind _ (s_vals s) (s_phase s) (s_trail s)) as [[vals' phase'] tr'] eqn:EU.
  apply unwind_spec in EU. destruct EU as [popped (E & L & LV & _)]. simpl. exact LV.
Qed.

(* ---------------------------------------------------------------- decide = push_lim; assign *)
Lemma push_lim_trail_inv : forall s, trail_inv s -> trail_inv (push_lim s).
Proof.
  intros s H. constructor; simpl; try (destruct H; assumption).
  - apply lim_sorted_snoc; [exact (ti_sorted s H) | exact (ti_lim_le s H)].
  - intros l Hl. apply in_app_or in Hl. destruct Hl as [Hl|[Hl|[]]]; [exact (ti_lim_le s H l Hl) | lia].
  - intros tr1 v tr2 Heq. unfold level_of. simpl. fold (level_of s v).
    rewrite (ti_levels s H tr1 v tr2 Heq). rewrite lvl_at_app.
    assert (length tr2 < length (s_trail s)) as Q by (rewrite Heq, app_length; simpl; lia).
    unfold lvl_at at 3. simpl. destruct (Nat.leb_spec (length (s_trail s)) (length tr2)); [lia|]. simpl. lia.
Qed.

Lemma decide_trail_inv : forall s v b, trail_inv s -> val_of s v = None -> v < length (s_vals s) ->
  trail_inv (assign v b None (push_lim s)).
Proof.
  intros s v b H Hn Hv. apply assign_trail_inv; [apply push_lim_trail_inv; exact H | exact Hn | exact Hv].
Qed.

Lemma set_head_trail_inv : forall s h, trail_inv s -> h <= length (s_trail s) -> trail_inv (set_head s h).
Proof. intros s h H Hh. destruct H. constructor; simpl; auto. Qed.
