(* C01 deep model - the loop invariant LI of `while True:` : the bundle BI holds in every state a run goes through, the
   recorded conflict is a falsified clause with a literal of the current level, dec_level = len(trail_lim).
   Consequence: every clause `analyze` produces during a run is entailed by the clause database of that moment. *)
From Coq Require Import List ZArith Bool Arith Lia Permutation.
Import ListNotations.
From SV Require Import C01.SatSpec C01.Machine C01.DeepCdcl C01.DeepBase C01.DeepTrail C01.DeepTrailProp C01.DeepAnalyze
  C01.DeepWatch C01.DeepReason C01.DeepReasonProp C01.DeepRunOps C01.DeepReduce.
Close Scope Z_scope.
Open Scope nat_scope.

(* ---------------------------------------------------------------- propagate does not touch trail_lim *)
Lemma prop_assums_lim : forall A s s' r, prop_assums A s = (s', r) -> s_lim s' = s_lim s.
Proof.
  induction A as [|l A IH]; intros s s' r E; simpl in E.
  - injection E as E1 E2. subst. reflexivity.
  - destruct (val_of s (lvar l)) as [b|].
    + destruct (Bool.eqb b (lpos l)); [eapply IH; eauto | injection E as E1 E2; subst; reflexivity].
    + apply IH in E. rewrite E. reflexivity.
Qed.

Lemma prop_bin_lim : forall imps s s' r, prop_bin imps s = (s', r) -> s_lim s' = s_lim s.
Proof.
  induction imps as [|[l ci] imps IH]; intros s s' r E; simpl in E.
  - injection E as E1 E2. subst. reflexivity.
  - destruct (val_of s (lvar l)) as [b|].
    + destruct (Bool.eqb b (lpos l)); [eapply IH; eauto | injection E as E1 E2; subst; reflexivity].
    + apply IH in E. rewrite E. reflexivity.
Qed.

Lemma asg_eq_lim : forall s s', asg_eq s s' -> s_lim s' = s_lim s.
Proof. intros s s' (_ & _ & _ & _ & H & _). exact H. Qed.

Lemma watch_step_lim : forall lim fl i s, s_lim s = lim -> wstep_post (fun s' => s_lim s' = lim) (watch_step fl i s).
Proof.
  intros lim fl i s H. unfold watch_step.
  destruct (i <? length (watch_list s fl)); [|exact Logic.I].
  destruct (length (get_clause s (nth i (watch_list s fl) 0)) =? 1); [simpl; exact H|].
  set (ci := nth i (watch_list s fl) 0). set (c := get_clause s ci).
  set (c1 := if (nth 0 c 0 =? fl)%Z then swap01 c else c).
  set (s1 := if (nth 0 c 0 =? fl)%Z then set_clause s ci c1 else s).
  assert (s_lim s1 = lim) as H1 by (unfold s1; destruct (nth 0 c 0 =? fl)%Z; [rewrite (asg_eq_lim _ _ (set_clause_asg s ci c1))|]; exact H).
  destruct (is_true (lit_value s1 (nth 0 c1 0%Z))); [simpl; exact H1|].
  destruct (find_nonfalse s1 (skipn 2 c1) 2) as [k|].
  - simpl. rewrite (asg_eq_lim _ _ (add_watch_asg _ _ _)), (asg_eq_lim _ _ (set_watch_list_asg _ _ _)), (asg_eq_lim _ _ (set_clause_asg _ _ _)). exact H1.
  - destruct (is_false (lit_value s1 (nth 0 c1 0%Z))); simpl; exact H1.
Qed.

Lemma prop_watch_lim : forall fuel fl i s s' r, prop_watch fuel fl i s = Some (s', r) -> s_lim s' = s_lim s.
Proof.
  intros fuel fl i s s' r E.
  apply (prop_watch_inv (fun x => s_lim x = s_lim s) fl (fun i0 s0 H0 => watch_step_lim (s_lim s) fl i0 s0 H0) fuel i s s' r eq_refl E).
Qed.

Lemma prop_loop_lim : forall fuel inner s s' c, prop_loop fuel inner s = Some (s', c) -> s_lim s' = s_lim s.
Proof.
  induction fuel as [|f IH]; intros inner s s' c E; simpl in E; [discriminate|].
  destruct (s_head s <? length (s_trail s)).
  - assert (forall s1 r, head_step inner s = Some (s1, r) -> s_lim s1 = s_lim s) as HS.
    { intros s1 r EH. unfold head_step in EH.
      destruct (prop_bin _ (set_head s (S (s_head s)))) as [s2 [ci|]] eqn:EB; apply prop_bin_lim in EB.
      - injection EH as E1 E2. subst. exact EB.
      - apply prop_watch_lim in EH. rewrite EH. exact EB. }
    destruct (head_step inner s) as [[s1 [ci|]]|] eqn:EH; [| |discriminate].
    + injection E as E1 E2. subst. eapply HS; eauto.
    + apply IH in E. rewrite E. eapply HS; eauto.
  - injection E as E1 E2. subst. reflexivity.
Qed.

Lemma propagate_lim : forall fuel A s s' c, propagate fuel A s = Some (s', c) -> s_lim s' = s_lim s.
Proof.
  intros fuel A s s' c E. unfold propagate in E. destruct (cur_level s =? 0).
  - destruct (prop_assums A s) as [s1 [|]] eqn:EA; apply prop_assums_lim in EA.
    + injection E as E1 E2. subst. exact EA.
    + apply prop_loop_lim in E. congruence.
  - eapply prop_loop_lim; eauto.
Qed.

(* ---------------------------------------------------------------- the loop invariant *)
Record LI (P : params) (L : loop) : Prop := mkLI {
  li_bi : BI (l_st L);
  li_nv : nv (l_st L) = S (p_nvars P);
  li_assum : assum_ok (S (p_nvars P)) (p_assum P);
  li_dec : l_dec_level L = cur_level (l_st L);
  li_conf : match l_conflict L with
            | CNone => s_head (l_st L) = length (s_trail (l_st L))
            | CAssum => cur_level (l_st L) = 0
            | CAt ci => cur_level (l_st L) = 0 \/ conflict_ok (l_st L) ci
            end
}.

(* after a propagate() on a state with BI *)
Lemma LI_after_propagate : forall fuel P s s' c dl csr li nx dc rs sols evs orc,
  BI s -> nv s = S (p_nvars P) -> assum_ok (S (p_nvars P)) (p_assum P) -> dl = cur_level s ->
  propagate fuel (p_assum P) s = Some (s', c) ->
  LI P (mkLoop s' c dl csr li nx dc rs sols evs orc).
Proof.
  intros fuel P s s' c dl csr li nx dc rs sols evs orc H Hn HA Hd E.
  assert (assum_ok (nv s) (p_assum P)) as HA' by (rewrite Hn; exact HA).
  destruct (propagate_BI _ _ _ _ _ HA' H E) as (Q1 & Q2 & Q3 & Q4). constructor; simpl; auto.
  - rewrite (propagate_nv _ _ _ _ _ E). exact Hn.
  - unfold cur_level. rewrite (propagate_lim _ _ _ _ _ E). exact Hd.
  - destruct c as [| |ci]; auto.
Qed.

(* ---------------------------------------------------------------- learning a clause *)
Lemma cur_level_unassign_to : forall s level, level <= cur_level s -> cur_level (unassign_to level s) = level.
Proof.
  intros s level H. unfold cur_level in *. unfold unassign_to.
  destruct (unwind _ (s_vals s) (s_phase s) (s_trail s)) as [[a b] c]. simpl. rewrite firstn_length. lia.
Qed.

Lemma false_lit_of_in : forall s u, u < nv s -> lit_in (nv s) (false_lit_of s u).
Proof. intros s u H. unfold lit_in. rewrite lvar_false_lit_of. exact H. Qed.

Lemma val_in_range : forall s v, val_of s v <> None -> v < nv s.
Proof.
  intros s v H. unfold val_of, nv in *. destruct (Nat.lt_ge_cases v (length (s_vals s))) as [L|L]; [exact L|].
  rewrite nth_overflow in H by exact L. congruence.
Qed.

Lemma learn_BI : forall s ci lc bt lbd, BI s -> conflict_ok s ci -> analyze s ci = Some (lc, bt, lbd) ->
  let s1 := unassign_to bt s in
  let cidx := n_clauses s1 in
  let s2 := attach lc cidx (append_learned lc lbd s1) in
  let s3 := match lc with l0 :: _ => assign_lit l0 (Some cidx) s2 | [] => s2 end in
  BI s3 /\ cur_level s3 = bt /\ nv s3 = nv s.
Proof.
  intros s ci lc bt lbd H (Hci & Hfalse & Hlev) E s1 cidx s2 s3.
  destruct (BI_analyze_hyps s H) as (HT & Hnz & HR & HD).
  destruct (analyze_some _ _ _ _ _ E) as (Hc1 & Elc & _).
  destruct (analyze_lits_spec s ci HT Hnz HR HD Hc1 (get_clause_in_db s ci Hci) Hfalse) as [_ Hshape].
  destruct (Hshape Hlev) as (u & ll' & Ell & Hu & Hlu & Hll). rewrite <- Elc in Ell.
  destruct (analyze_bt s ci lc bt lbd u ll' HT E Ell Hu Hlu Hll) as [Hbt Hlow].
  assert (val_of s u <> None) as Hua by (apply (ti_assigned s HT); exact Hu).
  assert (u <> 0) as Hu0 by (intros Q; rewrite Q in Hua; apply Hua; exact (bi_v0 s H)).
  assert (BI s1) as H1 by (apply BI_unassign_to; exact H).
  assert (nv s1 = nv s) as Hn1 by apply unassign_to_nvals.
  assert (cur_level s1 = bt) as Hc by (apply cur_level_unassign_to; lia).
  assert (clause_in (nv s1) lc) as Hin.
  { rewrite Hn1, Ell. constructor; [apply false_lit_of_in; apply val_in_range; exact Hua|].
    apply Forall_forall. intros l Hl. destruct (Hll l Hl) as (_ & Hf & _). apply val_in_range. eapply lit_value_assigned. exact Hf. }
  assert (forall l, In l lc -> l <> 0%Z) as Hnz'.
  { rewrite Ell. intros l [Q|Q]; [subst l; apply false_lit_of_nonzero; exact Hu0 | exact (proj1 (Hll l Q))]. }
  assert (BI s2) as H2 by (apply BI_append_attach; assumption).
  destruct (attach_frame lc cidx (append_learned lc lbd s1)) as (En & Eg & _).
  assert (asg_eq s1 s2) as EA by (unfold s2; eapply asg_eq_trans; [apply append_learned_asg | apply attach_asg]).
  assert (nv s2 = nv s) as Hn2 by (unfold nv in *; destruct EA as (Q & _); rewrite Q; exact Hn1).
  assert (n_clauses s2 = S cidx) as Hn2c by (unfold s2; rewrite En, n_clauses_append; reflexivity).
  assert (get_clause s2 cidx = lc) as Hg2 by (unfold s2; rewrite Eg; unfold cidx; apply get_clause_append_new).
  unfold s3. rewrite Ell. unfold assign_lit. rewrite lvar_false_lit_of.
  assert (val_of s2 u = None) as Hun.
  { rewrite (asg_eq_val_of _ _ _ EA). apply (proj2 (unassign_to_stays_or_goes s bt u HT Hu Hbt)). lia. }
  split; [|split].
  - apply BI_assign; auto.
    + unfold nv in Hn2. rewrite Hn2. apply val_in_range. exact Hua.
    + intros r Hr _. injection Hr as Hr. subst r. split.
      * rewrite Hn2c. lia.
      * rewrite Hg2. rewrite Ell.
        intros l [Q|Q]; [subst l; left; split; [apply lvar_false_lit_of | reflexivity]|]. right.
        destruct (Hll l Q) as (_ & Hf & _). rewrite (asg_eq_lit_value _ _ _ EA).
        assert (In (lvar l) (s_trail s)) as Hlt by (apply (ti_assigned s HT); eapply lit_value_assigned; exact Hf).
        destruct (proj1 (unassign_to_stays_or_goes s bt (lvar l) HT Hlt Hbt) (Hlow l Q)) as [_ Qv].
        unfold lit_value in *. unfold s1. rewrite Qv. exact Hf.
    + discriminate.
  - change (cur_level (assign u (lpos (false_lit_of s u)) (Some cidx) s2)) with (cur_level s2).
    rewrite (asg_eq_cur_level _ _ EA). exact Hc.
  - rewrite nv_assign. exact Hn2.
Qed.

(* ---------------------------------------------------------------- recording a model: the blocking clause *)
Lemma lpos_zvar : forall v, 1 <= v -> lpos (zvar v) = true.
Proof. intros v H. unfold lpos, zvar. apply Z.ltb_lt. lia. Qed.

Lemma lpos_opp_zvar : forall v, lpos (- zvar v)%Z = false.
Proof. intros v. unfold lpos, zvar. apply Z.ltb_ge. lia. Qed.

Lemma block_lits : forall s n l, In l (blocking_of s n) -> l <> 0%Z /\ 1 <= lvar l <= n /\ lit_value s l = Some false.
Proof.
  intros s n l H. unfold blocking_of in H. apply in_flat_map in H. destruct H as [v [Hv Hl]]. apply in_seq in Hv.
  destruct (val_of s v) as [[|]|] eqn:E; simpl in Hl; [| |contradiction]; destruct Hl as [Hl|[]]; subst l.
  - split; [unfold zvar; lia|]. rewrite lvar_opp, lvar_zvar. split; [lia|]. unfold lit_value. rewrite lvar_opp, lvar_zvar, E, lpos_opp_zvar. reflexivity.
  - split; [unfold zvar; lia|]. rewrite lvar_zvar. split; [lia|]. unfold lit_value. rewrite lvar_zvar, E, lpos_zvar by lia. reflexivity.
Qed.

Lemma filter_idem : forall {X} (f : X -> bool) l, filter f (filter f l) = filter f l.
Proof. intros X f l. induction l as [|x l IH]; simpl; [reflexivity|]. destruct (f x) eqn:E; simpl; rewrite ?E, IH; reflexivity. Qed.

Lemma filter_neg_nil : forall {X} (f g : X -> bool) l, (forall x, g x = negb (f x)) -> filter f (filter g l) = [].
Proof.
  intros X f g l H. induction l as [|x l IH]; simpl; [reflexivity|]. rewrite H. destruct (f x) eqn:E; simpl; rewrite ?E, IH; reflexivity.
Qed.

Lemma filter_partition : forall {X} (f g : X -> bool) l, (forall x, g x = negb (f x)) -> filter f (filter f l ++ filter g l) = filter f l.
Proof. intros X f g l H. rewrite filter_app, filter_idem, (filter_neg_nil f g l H). apply app_nil_r. Qed.

Lemma removelast_snoc_length : forall {X} (L : list X) b x, length (removelast (L ++ [b]) ++ [x]) = length (L ++ [b]).
Proof. intros. rewrite removelast_app_one. rewrite !app_length. reflexivity. Qed.

Lemma two_shape : forall (l : list Z), 2 <= length l -> exists a b r, l = a :: b :: r.
Proof. intros [|a [|b r]] H; simpl in H; try lia. exists a, b, r. reflexivity. Qed.

Lemma db_range_set_last : forall s1 L b c, db_range s1 -> s_learned s1 = L ++ [b] -> clause_in (nv s1) c ->
  db_range (set_last_learned s1 c).
Proof.
  intros s1 L b c [D1 D2 D3 D4 D5] E Hc. constructor; auto.
  change (Forall (clause_in (nv s1)) (removelast (s_learned s1) ++ [c])). rewrite E in *. rewrite removelast_app_one.
  apply Forall_app in D3. destruct D3 as [D3 _]. apply Forall_app. split; [exact D3 | constructor; [exact Hc | constructor]].
Qed.

Section Block.
Variable s : st.
Variable n : nat.
Hypothesis HB : BI s.
Hypothesis Hnv : nv s = S n.

Let blocking := blocking_of s n.
Let cidx := n_clauses s.
Let s0 := append_learned blocking 0 s.
Let s1 := unassign_to 0 s0.
Let sorted := sort_blocking s1 blocking.
Let s2 := set_last_learned s1 sorted.

Lemma blk_in : clause_in (nv s) blocking /\ (forall l, In l blocking -> l <> 0%Z).
Proof.
  split.
  - apply Forall_forall. intros l Hl. destruct (block_lits s n l Hl) as (_ & Q & _). unfold lit_in. lia.
  - intros l Hl. exact (proj1 (block_lits s n l Hl)).
Qed.

Lemma blk_s0 : BI s0.
Proof. destruct blk_in as [Q1 Q2]. apply BI_append_learned; assumption. Qed.

Lemma blk_s1 : BI s1 /\ cur_level s1 = 0 /\ nv s1 = nv s /\ db_eq s0 s1.
Proof.
  split; [apply BI_unassign_to; exact blk_s0|]. split; [apply cur_level_unassign_to; lia|].
  split; [unfold nv, s1; rewrite unassign_to_nvals; reflexivity | apply unassign_to_db_eq].
Qed.

Lemma blk_learned1 : s_learned s1 = s_learned s ++ [blocking].
Proof. destruct blk_s1 as (_ & _ & _ & (_ & Q & _)). rewrite Q. reflexivity. Qed.

Lemma blk_sorted_sub : forall l, In l sorted -> In l blocking.
Proof. intros l H. unfold sorted, sort_blocking in H. apply in_app_or in H. destruct H as [H|H]; apply filter_In in H; tauto. Qed.

Lemma blk_get2 : forall r, get_clause s2 r = if r =? cidx then sorted else get_clause s1 r.
Proof.
  intros r. unfold get_clause, s2, set_last_learned. simpl. rewrite blk_learned1, removelast_app_one.
  assert (s_orig s1 = s_orig s) as Qo by (destruct blk_s1 as (_ & _ & _ & (Q & _)); rewrite Q; reflexivity). rewrite Qo.
  unfold cidx, n_clauses. destruct (Nat.ltb_spec r (length (s_orig s))) as [L|L].
  - destruct (Nat.eqb_spec r (length (s_orig s) + length (s_learned s))); [lia | reflexivity].
  - destruct (Nat.eqb_spec r (length (s_orig s) + length (s_learned s))) as [E|E].
    + subst r. rewrite app_nth2 by lia. replace (length (s_orig s) + length (s_learned s) - length (s_orig s) - length (s_learned s)) with 0 by lia. reflexivity.
    + destruct (Nat.lt_ge_cases (r - length (s_orig s)) (length (s_learned s))) as [L2|L2].
      * rewrite !app_nth1 by lia. reflexivity.
      * rewrite !nth_overflow; [reflexivity | rewrite app_length; simpl; lia | rewrite app_length; simpl; lia].
Qed.

Lemma blk_nclauses2 : n_clauses s2 = S cidx /\ n_clauses s1 = S cidx.
Proof.
  assert (n_clauses s1 = S cidx) as Q.
  { rewrite (db_eq_n_clauses _ _ (proj2 (proj2 (proj2 blk_s1)))). unfold s0. rewrite n_clauses_append. reflexivity. }
  split; [|exact Q]. rewrite <- Q. unfold n_clauses, s2, set_last_learned. simpl. rewrite blk_learned1, removelast_snoc_length. reflexivity.
Qed.

Lemma blk_watch_fresh : forall l, cnt (watch_list s1 l) cidx = 0 /\ watch_list s2 l = watch_list s1 l.
Proof.
  intros l. split; [|reflexivity]. rewrite (db_eq_watch_list _ _ l (proj2 (proj2 (proj2 blk_s1)))).
  change (watch_list s0 l) with (watch_list s l). pose proof (bi_wle s HB l cidx) as Q. unfold cidx in *.
  destruct (Nat.ltb_spec (n_clauses s) (n_clauses s)); lia.
Qed.

Lemma blk_s2 : BI s2 /\ cur_level s2 = 0 /\ nv s2 = nv s.
Proof.
  destruct blk_s1 as (H1 & Hc1 & Hn1 & Hdb). destruct blk_nclauses2 as [N2 N1].
  assert (asg_eq s1 s2) as EA by apply set_last_learned_asg.
  split; [|split; [rewrite (asg_eq_cur_level _ _ EA); exact Hc1 | unfold nv in *; destruct EA as (Q & _); rewrite Q; exact Hn1]].
  apply (BI_frame s1); auto.
  - congruence.
  - intros r l Hl. rewrite blk_get2 in Hl. destruct (Nat.eqb_spec r cidx) as [E|E]; [|exact Hl].
    subst r. apply blk_sorted_sub in Hl.
    rewrite (db_eq_get_clause _ _ _ Hdb). unfold s0, cidx. rewrite get_clause_append_new. exact Hl.
  - split; [eapply trail_inv_asg_eq; [exact EA | exact (proj1 (bi_ti s1 H1))]|].
    apply (db_range_set_last s1 (s_learned s) blocking); [exact (proj2 (bi_ti s1 H1)) | exact blk_learned1|].
    apply Forall_forall. intros l Hl. apply blk_sorted_sub in Hl. destruct blk_in as [Q _]. unfold clause_in in Q. rewrite Forall_forall in Q.
    rewrite Hn1. exact (Q l Hl).
  - intros l cj. destruct (blk_watch_fresh l) as [F1 F2]. rewrite F2, N2, blk_get2.
    destruct (Nat.eqb_spec cj cidx) as [E|E]; [subst cj; rewrite F1; lia|].
    pose proof (bi_wle s1 H1 l cj) as Q. rewrite N1 in Q. exact Q.
  - intros fl implied ci Hin. change (implications s2 fl) with (implications s1 fl) in Hin.
    destruct (bi_big s1 H1 fl implied ci Hin) as [Q1 Q2]. rewrite N2, blk_get2. rewrite N1 in Q1. split; [exact Q1|].
    destruct (Nat.eqb_spec ci cidx) as [E|E]; [|exact Q2]. exfalso. subst ci.
    rewrite (db_eq_implications _ _ _ Hdb) in Hin. change (implications s0 fl) with (implications s fl) in Hin.
    destruct (bi_big s HB fl implied cidx Hin) as [Q3 _]. unfold cidx in Q3. lia.
Qed.

(* a literal of the blocking clause is false or unassigned after the restart to level 0 *)
Lemma blk_not_true : forall l, In l blocking -> is_false (lit_value s2 l) = false -> val_of s2 (lvar l) = None.
Proof.
  intros l Hl Hnf. destruct (block_lits s n l Hl) as (_ & _ & Hf).
  change (val_of s2 (lvar l)) with (val_of s1 (lvar l)). change (lit_value s2 l) with (lit_value s1 l) in Hnf.
  destruct (val_of_unassign_to s0 0 (lvar l) (proj1 (bi_ti s0 blk_s0))) as [Q|Q]; [exact Q|]. exfalso.
  unfold lit_value in Hnf. fold s1 in Q. rewrite Q in Hnf. change (val_of s0 (lvar l)) with (val_of s (lvar l)) in Hnf.
  unfold lit_value in Hf. rewrite Hf in Hnf. discriminate.
Qed.

Definition blk_open : nat := length (filter (fun l => negb (is_false (lit_value s2 l))) sorted).
Definition blk_s3 : st := if blk_open =? 1 then assign_lit (nth 0 sorted 0%Z) (Some cidx) s2 else s2.
Definition blk_s4 : st :=
  if 2 <=? length sorted then add_watch (nth 1 sorted 0%Z) cidx (add_watch (nth 0 sorted 0%Z) cidx blk_s3) else blk_s3.

Lemma blk_first_open : blk_open <> 0 -> In (nth 0 sorted 0%Z) blocking /\ is_false (lit_value s2 (nth 0 sorted 0%Z)) = false.
Proof.
  intros Ho. unfold blk_open in Ho. change (fun l => negb (is_false (lit_value s2 l))) with (fun l => negb (is_false (lit_value s1 l))) in Ho.
  unfold sorted, sort_blocking in *.
  rewrite (filter_partition (fun l => negb (is_false (lit_value s1 l))) (fun l => is_false (lit_value s1 l)) blocking) in Ho
    by (intros; rewrite negb_involutive; reflexivity).
  destruct (filter (fun l => negb (is_false (lit_value s1 l))) blocking) as [|x A] eqn:EA; [simpl in Ho; contradiction|].
  simpl. assert (In x (filter (fun l => negb (is_false (lit_value s1 l))) blocking)) as Hx by (rewrite EA; left; reflexivity).
  apply filter_In in Hx. destruct Hx as [Hx1 Hx2]. split; [exact Hx1|]. apply negb_true_iff in Hx2. exact Hx2.
Qed.

Lemma blk_s3_BI : blk_open <> 0 -> BI blk_s3 /\ cur_level blk_s3 = 0 /\ nv blk_s3 = nv s /\ db_eq s2 blk_s3.
Proof.
  intros Ho. destruct blk_s2 as (H2 & Hc2 & Hn2). unfold blk_s3. destruct (blk_open =? 1); [|split; [exact H2 | split; [exact Hc2 | split; [exact Hn2 | apply db_eq_refl]]]].
  destruct (blk_first_open Ho) as [Hx1 Hx2]. set (x := nth 0 sorted 0%Z) in *.
  destruct (block_lits s n x Hx1) as (Hx0 & Hxr & _).
  split; [|split; [exact Hc2 | split; [unfold assign_lit; rewrite nv_assign; exact Hn2 | apply assign_db_eq]]].
  unfold assign_lit. apply BI_assign; auto.
  - apply blk_not_true; assumption.
  - fold (nv s2). rewrite Hn2, Hnv. lia.
  - lia.
  - intros r _ Hlv. lia.
Qed.

Lemma blk_s4_BI : blk_open <> 0 -> BI blk_s4 /\ cur_level blk_s4 = 0 /\ nv blk_s4 = nv s.
Proof.
  intros Ho. destruct (blk_s3_BI Ho) as (H3 & Hc3 & Hn3 & Hdb3). unfold blk_s4.
  destruct (Nat.leb_spec 2 (length sorted)) as [L|L]; [|auto].
  destruct (two_shape sorted L) as (a & b & r & Es). rewrite Es. simpl nth.
  assert (asg_eq blk_s3 (add_watch b cidx (add_watch a cidx blk_s3))) as EA by (eapply asg_eq_trans; apply add_watch_asg).
  split; [|split; [rewrite (asg_eq_cur_level _ _ EA); exact Hc3 | unfold nv in *; destruct EA as (Q & _); rewrite Q; exact Hn3]].
  apply (BI_add_watch2 blk_s3 cidx a b r); auto.
  - rewrite (db_eq_n_clauses _ _ Hdb3). rewrite (proj1 blk_nclauses2). lia.
  - rewrite (db_eq_get_clause _ _ _ Hdb3). rewrite blk_get2, Nat.eqb_refl. exact Es.
  - intros l. rewrite (db_eq_watch_list _ _ l Hdb3). destruct (blk_watch_fresh l) as [F1 F2]. rewrite F2. exact F1.
Qed.

End Block.

(* ---------------------------------------------------------------- a decision *)
Lemma BI_push_lim : forall s, BI s -> s_head s = length (s_trail s) -> BI (push_lim s).
Proof.
  intros s H Hh. pose proof (bi_ti s H) as [HT HD]. constructor.
  - split; [apply push_lim_trail_inv; exact HT | apply (db_range_db_eq s); [apply push_lim_db_eq | reflexivity | exact HD]].
  - exact (bi_nz s H).
  - exact (bi_v0 s H).
  - eapply watch_le_db_eq; [apply push_lim_db_eq | exact (bi_wle s H)].
  - eapply big_ok_db_eq; [apply push_lim_db_eq | exact (bi_big s H)].
  - apply (reason_inv_levels_frame s); auto. exact (bi_reason s H).
  - apply (decision_first_levels_frame s); auto. exact (bi_dec s H).
  - apply head_inv_push_lim; [exact (bi_head s H) | exact Hh].
Qed.

Lemma decide_BI : forall s v b, BI s -> s_head s = length (s_trail s) -> 1 <= v -> v < nv s -> val_of s v = None ->
  BI (assign v b None (push_lim s)) /\ cur_level (assign v b None (push_lim s)) = S (cur_level s)
  /\ nv (assign v b None (push_lim s)) = nv s.
Proof.
  intros s v b H Hh Hv1 Hv2 Hn. pose proof (BI_push_lim s H Hh) as H1. split; [|split].
  - apply BI_assign; auto; [lia | discriminate|].
    intros _. right. intros w Hw. change (level_of (push_lim s) w) with (level_of s w).
    pose proof (level_le_cur s w (proj1 (bi_ti s H)) Hw) as Q. unfold cur_level in *. simpl. rewrite app_length. simpl. lia.
  - unfold cur_level. simpl. rewrite app_length. simpl. lia.
  - rewrite nv_assign. reflexivity.
Qed.

(* ---------------------------------------------------------------- one iteration of `while True:` *)
Lemma reduce_db_nv : forall s, nv (reduce_db s) = nv s.
Proof. intros s. unfold nv. destruct (reduce_db_asg s) as (Q & _). rewrite Q. reflexivity. Qed.

Theorem main_step_LI : forall fuel P L L', LI P L -> main_step fuel P L = Cont L' -> LI P L'.
Proof.
  intros fuel P L L' HL E. destruct HL as [HB Hnv HA Hdec Hconf]. unfold main_step in E.
  destruct (l_conflict L) as [| |ci] eqn:EC.
  - (* no conflict *)
    destruct (all_assigned (l_st L) (p_nvars P)) eqn:EAll.
    + (* a model *)
      match type of E with (if ?c then _ else _) = _ => destruct c end; [discriminate|].
      change (l_st L) with (l_st L) in E.
      pose proof (blk_s2 (l_st L) (p_nvars P) HB Hnv) as (H2 & Hc2 & Hn2).
      fold (blk_open (l_st L) (p_nvars P)) in E.
      destruct (Nat.eqb_spec (blk_open (l_st L) (p_nvars P)) 0) as [Ho|Ho].
      * injection E as E. subst L'. constructor; simpl; auto. congruence.
      * unfold with_prop in E.
        pose proof (blk_s4_BI (l_st L) (p_nvars P) HB Hnv Ho) as (H4 & Hc4 & Hn4).
        unfold blk_s4, blk_s3 in H4, Hc4, Hn4.
        match type of E with match propagate ?f ?A ?x with _ => _ end = _ => destruct (propagate f A x) as [[s5 c]|] eqn:EP end; [|discriminate].
        injection E as E. subst L'. eapply LI_after_propagate; [exact H4 | congruence | exact HA | symmetry; exact Hc4 | exact EP].
    + destruct (l_oracle L) as [|v orc]; [discriminate|].
      match type of E with (if ?c then _ else _) = _ => destruct c eqn:EV end; [|discriminate].
      apply andb_prop in EV. destruct EV as [EV EV3]. apply andb_prop in EV. destruct EV as [EV1 EV2].
      apply Nat.leb_le in EV1. apply Nat.leb_le in EV2.
      assert (val_of (l_st L) v = None) as Hvn by (destruct (val_of (l_st L) v); [discriminate | reflexivity]).
      destruct (decide_BI (l_st L) v (nth v (s_phase (l_st L)) true) HB Hconf EV1 ltac:(rewrite Hnv; lia) Hvn) as (H1 & Hc1 & Hn1).
      unfold with_prop in E.
      match type of E with match propagate ?f ?A ?x with _ => _ end = _ => destruct (propagate f A x) as [[s2 c]|] eqn:EP end; [|discriminate].
      match type of E with (if ?c then _ else _) = _ => destruct c end; [discriminate|].
      injection E as E. subst L'. eapply LI_after_propagate; [exact H1 | congruence | exact HA | | exact EP]. rewrite Hc1, Hdec. reflexivity.
  - discriminate.
  - (* a conflict *)
    destruct (Nat.eqb_spec (l_dec_level L) 0) as [Hd0|Hd0]; [discriminate|].
    destruct (analyze (l_st L) ci) as [[[lc bt] lbd]|] eqn:EA; [|discriminate].
    destruct Hconf as [Hconf|Hconf]; [lia|].
    pose proof (learn_BI (l_st L) ci lc bt lbd HB Hconf EA) as (H3 & Hc3 & Hn3). cbv zeta in H3, Hc3, Hn3.
    match type of E with (if ?c then _ else _) = _ => destruct c end.
    + match type of E with (if ?c then _ else _) = _ => destruct c end; [discriminate|].
      destruct (luby_val (l_luby_idx L + 1)) as [lv|]; [|discriminate].
      unfold with_prop in E.
      match type of E with match propagate ?f ?A (reduce_db (unassign_to 0 ?x)) with _ => _ end = _ =>
        destruct (propagate f A (reduce_db (unassign_to 0 x))) as [[s5 c]|] eqn:EP; [|discriminate];
        assert (BI (unassign_to 0 x)) as H4 by (apply BI_unassign_to; exact H3);
        assert (cur_level (unassign_to 0 x) = 0) as Hc4 by (apply cur_level_unassign_to; lia);
        assert (nv (unassign_to 0 x) = nv (l_st L)) as Hn4 by (unfold nv; rewrite unassign_to_nvals; exact Hn3)
      end.
      injection E as E. subst L'. eapply LI_after_propagate; [apply reduce_db_BI; [exact H4 | exact Hc4] | | exact HA | | exact EP].
      * rewrite reduce_db_nv. congruence.
      * rewrite (asg_eq_cur_level _ _ (reduce_db_asg _)). symmetry. exact Hc4.
    + unfold with_prop in E.
      match type of E with match propagate ?f ?A ?x with _ => _ end = _ => destruct (propagate f A x) as [[s5 c]|] eqn:EP end; [|discriminate].
      injection E as E. subst L'. eapply LI_after_propagate; [exact H3 | congruence | exact HA | symmetry; exact Hc3 | exact EP].
Qed.

(* every state of a run satisfies LI *)
Theorem reach_LI : forall fuel P L0 L, LI P L0 -> reach fuel P L0 L -> LI P L.
Proof. intros fuel P L0 L H0 R. induction R as [|L1 L2 R IH E]; [exact H0 | eapply main_step_LI; eauto]. Qed.

(* (c) along a run: the clause learned from a conflict is entailed by the clause database of that moment *)
Theorem learned_entailed_run : forall P L ci lc bt lbd, LI P L -> l_conflict L = CAt ci -> l_dec_level L <> 0 ->
  analyze (l_st L) ci = Some (lc, bt, lbd) -> entails (db (l_st L)) lc.
Proof.
  intros P L ci lc bt lbd [HB Hnv HA Hdec Hconf] EC Hd EA. rewrite EC in Hconf. destruct Hconf as [Q|(Hci & Hfalse & _)]; [lia|].
  destruct (BI_analyze_hyps _ HB) as (HT & Hnz & HR & HD).
  exact (analyze_entailed _ ci lc bt lbd HT Hnz HR HD (get_clause_in_db _ ci Hci) Hfalse EA).
Qed.
