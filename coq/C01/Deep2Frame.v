(* C02 on the faithful model - what propagate leaves alone (used for termination): it only extends the trail, keeps the values
   of assigned variables, the number of clauses and trail_lim; it counts exactly one conflict when it reports one. *)
From Coq Require Import List ZArith Bool Arith Lia Permutation.
Import ListNotations.
From SV Require Import C01.SatSpec C01.Machine C01.DeepCdcl C01.DeepBase C01.DeepTrail C01.DeepTrailProp C01.DeepWatch.
Close Scope Z_scope.
Open Scope nat_scope.

Record ext (s s' : st) : Prop := mkExt {
  ex_n : n_clauses s' = n_clauses s;
  ex_trail : exists e, s_trail s' = e ++ s_trail s;
  ex_lim : s_lim s' = s_lim s;
  ex_val : forall v, val_of s v <> None -> val_of s' v = val_of s v;
  ex_level : forall v, val_of s v <> None -> level_of s' v = level_of s v
}.

Lemma ext_refl : forall s, ext s s.
Proof. intros s. constructor; auto. exists []. reflexivity. Qed.

Lemma ext_trans : forall a b c, ext a b -> ext b c -> ext a c.
Proof.
  intros a b c [A1 [e1 A2] A3 A4 A5] [B1 [e2 B2] B3 B4 B5]. constructor; try congruence.
  - exists (e2 ++ e1). rewrite B2, A2, app_assoc. reflexivity.
  - intros v Hv. rewrite B4; [apply A4; exact Hv | rewrite A4; exact Hv].
  - intros v Hv. rewrite B5; [apply A5; exact Hv | rewrite A4; exact Hv].
Qed.

Lemma ext_asg_eq : forall s s', asg_eq s s' -> n_clauses s' = n_clauses s -> ext s s'.
Proof.
  intros s s' (E1 & E2 & _ & E4 & E5 & _) En. constructor; auto.
  - exists []. simpl. exact E4.
  - intros v _. unfold val_of. rewrite E1. reflexivity.
  - intros v _. unfold level_of. rewrite E2. reflexivity.
Qed.

Lemma ext_set_clause : forall s ci c, ext s (set_clause s ci c).
Proof. intros. apply ext_asg_eq; [apply set_clause_asg | apply n_clauses_set_clause]. Qed.
Lemma ext_set_watch_list : forall s l ws, ext s (set_watch_list s l ws).
Proof. intros. apply ext_asg_eq; [apply set_watch_list_asg | apply n_clauses_set_watch_list]. Qed.
Lemma ext_add_watch : forall l i s, ext s (add_watch l i s).
Proof. intros. unfold add_watch. apply ext_set_watch_list. Qed.
Lemma ext_bump : forall s, ext s (bump_confl s).
Proof. intros. apply ext_asg_eq; [apply bump_confl_asg | reflexivity]. Qed.
Lemma ext_set_head : forall s h, ext s (set_head s h).
Proof. intros s h. constructor; auto. exists []. reflexivity. Qed.

Lemma ext_assign : forall s v b r, val_of s v = None -> ext s (assign v b r s).
Proof.
  intros s v b r Hn. constructor; auto.
  - exists [v]. reflexivity.
  - intros w Hw. unfold val_of, assign. simpl. apply nth_upd_neq. intros C. subst w. contradiction.
  - intros w Hw. unfold level_of, assign. simpl. apply nth_upd_neq. intros C. subst w. contradiction.
Qed.

(* ---------------------------------------------------------------- the conflict counter and prop_head *)
Lemma prop_bin_frame : forall imps s s' r, prop_bin imps s = (s', r) ->
  ext s s' /\ s_head s' = s_head s /\ s_confl s' = (s_confl s + match r with Some _ => 1 | None => 0 end)%Z.
Proof.
  induction imps as [|[l ci] imps IH]; intros s s' r E; simpl in E.
  - injection E as E1 E2. subst. split; [apply ext_refl|]. split; [reflexivity | lia].
  - destruct (val_of s (lvar l)) as [b|] eqn:EV.
    + destruct (Bool.eqb b (lpos l)); [apply IH; exact E|]. injection E as E1 E2. subst. split; [apply ext_bump|]. split; reflexivity.
    + destruct (IH _ _ _ E) as (Q1 & Q2 & Q3). split; [eapply ext_trans; [unfold assign_lit; apply ext_assign; exact EV | exact Q1]|].
      split; [exact Q2 | exact Q3].
Qed.

Definition wpost (s : st) (w : wstep) : Prop :=
  match w with
  | WDone => True
  | WNext s' | WStay s' => ext s s' /\ s_head s' = s_head s /\ s_confl s' = s_confl s
  | WConf s' _ => ext s s' /\ s_head s' = s_head s /\ s_confl s' = (s_confl s + 1)%Z
  end.

Lemma watch_step_frame : forall fl i s, wpost s (watch_step fl i s).
Proof.
  intros fl i s. unfold watch_step.
  destruct (i <? length (watch_list s fl)); [|exact Logic.I].
  destruct (length (get_clause s (nth i (watch_list s fl) 0)) =? 1); [simpl; split; [apply ext_bump | split; reflexivity]|].
  set (ci := nth i (watch_list s fl) 0). set (c := get_clause s ci).
  set (c1 := if (nth 0 c 0 =? fl)%Z then swap01 c else c).
  set (s1 := if (nth 0 c 0 =? fl)%Z then set_clause s ci c1 else s).
  assert (ext s s1 /\ s_head s1 = s_head s /\ s_confl s1 = s_confl s) as (X1 & X2 & X3).
  { unfold s1. destruct (nth 0 c 0 =? fl)%Z; [|split; [apply ext_refl | split; reflexivity]].
    split; [apply ext_set_clause|]. unfold set_clause. destruct (ci <? length (s_orig s)); split; reflexivity. }
  destruct (is_true (lit_value s1 (nth 0 c1 0%Z))) eqn:E1; [simpl; auto|].
  destruct (find_nonfalse s1 (skipn 2 c1) 2) as [k|].
  - simpl. split; [|split].
    + eapply ext_trans; [exact X1|]. eapply ext_trans; [apply ext_set_clause|]. eapply ext_trans; [apply ext_set_watch_list | apply ext_add_watch].
    + unfold add_watch, set_watch_list. repeat match goal with |- context [lpos ?x] => destruct (lpos x) end; simpl;
        unfold set_clause; destruct (ci <? length (s_orig s1)); simpl; exact X2.
    + unfold add_watch, set_watch_list. repeat match goal with |- context [lpos ?x] => destruct (lpos x) end; simpl;
        unfold set_clause; destruct (ci <? length (s_orig s1)); simpl; exact X3.
  - destruct (is_false (lit_value s1 (nth 0 c1 0%Z))) eqn:E2; simpl.
    + split; [eapply ext_trans; [exact X1 | apply ext_bump]|]. split; [exact X2 | rewrite <- X3; reflexivity].
    + split; [eapply ext_trans; [exact X1|]; unfold assign_lit; apply ext_assign; apply lit_value_none; assumption|].
      split; [exact X2 | exact X3].
Qed.

Lemma prop_watch_frame : forall fuel fl i s s' r, prop_watch fuel fl i s = Some (s', r) ->
  ext s s' /\ s_head s' = s_head s /\ s_confl s' = (s_confl s + match r with Some _ => 1 | None => 0 end)%Z.
Proof.
  induction fuel as [|f IH]; intros fl i s s' r E; simpl in E; [discriminate|].
  pose proof (watch_step_frame fl i s) as Hp. destruct (watch_step fl i s) as [|s1|s1|s1 ci]; simpl in Hp.
  - injection E as E1 E2. subst. split; [apply ext_refl|]. split; [reflexivity | lia].
  - destruct Hp as (P1 & P2 & P3). destruct (IH _ _ _ _ _ E) as (Q1 & Q2 & Q3). split; [exact (ext_trans _ _ _ P1 Q1)|]. split; [rewrite Q2; exact P2 | rewrite Q3, P3; reflexivity].
  - destruct Hp as (P1 & P2 & P3). destruct (IH _ _ _ _ _ E) as (Q1 & Q2 & Q3). split; [exact (ext_trans _ _ _ P1 Q1)|]. split; [rewrite Q2; exact P2 | rewrite Q3, P3; reflexivity].
  - injection E as E1 E2. subst. exact Hp.
Qed.

Lemma head_step_frame : forall inner s s' r, head_step inner s = Some (s', r) ->
  ext s s' /\ s_head s' = S (s_head s) /\ s_confl s' = (s_confl s + match r with Some _ => 1 | None => 0 end)%Z.
Proof.
  intros inner s s' r E. unfold head_step in E.
  destruct (prop_bin _ (set_head s (S (s_head s)))) as [s2 [ci|]] eqn:EB; destruct (prop_bin_frame _ _ _ _ EB) as (Q1 & Q2 & Q3).
  - injection E as E1 E2. subst. split; [eapply ext_trans; [apply ext_set_head | exact Q1]|]. split; [exact Q2 | exact Q3].
  - destruct (prop_watch_frame _ _ _ _ _ _ E) as (R1 & R2 & R3).
    split; [eapply ext_trans; [apply ext_set_head|]; eapply ext_trans; eauto|]. split; [rewrite R2, Q2; reflexivity|]. rewrite R3, Q3. simpl. lia.
Qed.

Lemma prop_loop_frame : forall fuel inner s s' c, prop_loop fuel inner s = Some (s', c) ->
  ext s s' /\ s_head s <= s_head s' /\ s_confl s' = (s_confl s + match c with CNone => 0 | _ => 1 end)%Z.
Proof.
  induction fuel as [|f IH]; intros inner s s' c E; simpl in E; [discriminate|].
  destruct (s_head s <? length (s_trail s)).
  - destruct (head_step inner s) as [[s1 [ci|]]|] eqn:EH; [| |discriminate]; destruct (head_step_frame _ _ _ _ EH) as (Q1 & Q2 & Q3).
    + injection E as E1 E2. subst. split; [exact Q1|]. split; [lia | exact Q3].
    + destruct (IH _ _ _ _ E) as (R1 & R2 & R3). split; [eapply ext_trans; eauto|]. split; [lia|]. rewrite R3, Q3. lia.
  - injection E as E1 E2. subst. split; [apply ext_refl|]. split; lia.
Qed.

Lemma prop_assums_frame : forall A s s' r, prop_assums A s = (s', r) ->
  ext s s' /\ s_head s' = s_head s /\ s_confl s' = (s_confl s + if r then 1 else 0)%Z.
Proof.
  induction A as [|l A IH]; intros s s' r E; simpl in E.
  - injection E as E1 E2. subst. split; [apply ext_refl|]. split; [reflexivity | lia].
  - destruct (val_of s (lvar l)) as [b|] eqn:EV.
    + destruct (Bool.eqb b (lpos l)); [apply IH; exact E|]. injection E as E1 E2. subst. split; [apply ext_bump|]. split; reflexivity.
    + destruct (IH _ _ _ E) as (Q1 & Q2 & Q3). split; [eapply ext_trans; [unfold assign_lit; apply ext_assign; exact EV | exact Q1]|].
      split; [exact Q2 | exact Q3].
Qed.

Theorem propagate_frame : forall fuel A s s' c, propagate fuel A s = Some (s', c) ->
  ext s s' /\ s_head s <= s_head s' /\ s_confl s' = (s_confl s + match c with CNone => 0 | _ => 1 end)%Z.
Proof.
  intros fuel A s s' c E. unfold propagate in E. destruct (cur_level s =? 0).
  - destruct (prop_assums A s) as [s1 [|]] eqn:EA; destruct (prop_assums_frame _ _ _ _ EA) as (Q1 & Q2 & Q3).
    + injection E as E1 E2. subst. split; [exact Q1|]. split; [lia | exact Q3].
    + destruct (prop_loop_frame _ _ _ _ _ E) as (R1 & R2 & R3). split; [eapply ext_trans; eauto|]. split; [lia|]. rewrite R3, Q3. lia.
  - apply prop_loop_frame in E. exact E.
Qed.
