(* C01 deep model - everything before `while True:` establishes the loop invariant LI, for every valid input. *)
From Coq Require Import List ZArith Bool Arith Lia Permutation.
Import ListNotations.
From SV Require Import C01.SatSpec C01.Machine C01.DeepCdcl C01.DeepBase C01.DeepTrail C01.DeepTrailProp C01.DeepAnalyze
  C01.DeepWatch C01.DeepReason C01.DeepReasonProp C01.DeepRunOps C01.DeepReduce C01.DeepRun.
Close Scope Z_scope.
Open Scope nat_scope.

(* ---------------------------------------------------------------- n_vars bounds every variable *)
Lemma inner_max_ge : forall (c : clause) (a : Z), (a <= fold_left (fun a l => Z.max a (Z.abs l)) c a)%Z.
Proof. induction c as [|x c IH]; intros a; simpl; [lia|]. pose proof (IH (Z.max a (Z.abs x))). lia. Qed.

Lemma inner_max_in : forall (c : clause) (a : Z) l, In l c -> (Z.abs l <= fold_left (fun a l => Z.max a (Z.abs l)) c a)%Z.
Proof.
  induction c as [|x c IH]; intros a l H; simpl; [contradiction|]. destruct H as [E|H].
  - subst x. pose proof (inner_max_ge c (Z.max a (Z.abs l))). lia.
  - apply IH. exact H.
Qed.

Lemma outer_max_ge : forall (f : cnf) (a : Z),
  (a <= fold_left (fun acc c => fold_left (fun a l => Z.max a (Z.abs l)) c acc) f a)%Z.
Proof.
  induction f as [|c f IH]; intros a; simpl; [lia|].
  pose proof (IH (fold_left (fun a l => Z.max a (Z.abs l)) c a)). pose proof (inner_max_ge c a). lia.
Qed.

Lemma max_var_bound : forall (f : cnf) c l, In c f -> In l c -> (Z.abs l <= max_var f)%Z.
Proof.
  intros f c l Hc Hl. unfold max_var. generalize 0%Z as a. induction f as [|d f IH]; intros a; simpl; [contradiction|].
  destruct Hc as [E|Hc].
  - subst d. pose proof (outer_max_ge f (fold_left (fun a l => Z.max a (Z.abs l)) c a)). pose proof (inner_max_in c a l Hl). lia.
  - apply IH. exact Hc.
Qed.

Lemma lvar_le_nvars : forall (f : cnf) c l, In c f -> In l c -> lvar l <= n_vars_of f.
Proof.
  intros f c l Hc Hl. pose proof (max_var_bound f c l Hc Hl) as Q. unfold lvar, n_vars_of. lia.
Qed.

(* ---------------------------------------------------------------- the initial state *)
Lemma nth_repeat : forall {X} (x : X) n i, nth i (repeat x n) x = x.
Proof. induction n as [|n IH]; intros [|i]; simpl; auto. Qed.

Lemma init_state_BI : forall cls n,
  (forall c l, In c cls -> In l c -> l <> 0%Z /\ lvar l <= n) -> BI (init_state cls n).
Proof.
  intros cls n Hin.
  assert (forall v, val_of (init_state cls n) v = None) as Hv by (intros v; change (nth v (repeat (@None bool) (S n)) None = None); apply nth_repeat).
  assert (forall l, watch_list (init_state cls n) l = []) as Hw.
  { intros l. unfold watch_list, init_state. cbn [s_wpos s_wneg]. destruct (lpos l); apply nth_repeat. }
  assert (forall l, implications (init_state cls n) l = []) as Hi.
  { intros l. unfold implications, init_state. cbn [s_bpos s_bneg]. destruct (lpos l); apply nth_repeat. }
  constructor.
  - split.
    + constructor; simpl.
      * constructor.
      * intros v. rewrite Hv. split; [congruence | contradiction].
      * lia.
      * intros i j _ Hj. simpl in Hj. lia.
      * intros l [].
      * intros tr1 v tr2 E. destruct tr1; discriminate.
      * rewrite !repeat_length. reflexivity.
      * rewrite !repeat_length. reflexivity.
    + constructor; unfold nv, init_state; cbn [s_vals s_orig s_learned s_bpos s_bneg]; rewrite ?repeat_length.
      * lia.
      * apply Forall_forall. intros c Hc. apply Forall_forall. intros l Hl. unfold lit_in. pose proof (proj2 (Hin c l Hc Hl)). lia.
      * constructor.
      * apply Forall_forall. intros x Hx. apply repeat_spec in Hx. subst x. constructor.
      * apply Forall_forall. intros x Hx. apply repeat_spec in Hx. subst x. constructor.
  - intros ci l Hl. destruct (get_clause_in_or_nil (init_state cls n) ci) as [Q|Q]; [rewrite Q in Hl; contradiction|].
    unfold db in Q. simpl in Q. rewrite app_nil_r in Q. exact (proj1 (Hin _ l Q Hl)).
  - apply Hv.
  - intros l ci. rewrite Hw. rewrite cnt_nil. lia.
  - intros fl implied ci H. rewrite Hi in H. contradiction.
  - intros tr1 v tr2 r E. destruct tr1; discriminate.
  - intros tr1 v tr2 E. destruct tr1; discriminate.
  - constructor; simpl; [intros l [] | intros tr1 v tr2 E; destruct tr1; discriminate].
Qed.

(* what stays fixed while the level-0 set-up runs *)
Definition lvl0 (s : st) : Prop := cur_level s = 0.

(* ---------------------------------------------------------------- attaching the input clauses *)
Lemma attach_unit : forall l idx s, attach [l] idx s = s.
Proof. reflexivity. Qed.

Lemma attach_orig_spec : forall cs idx units s s' units',
  BI s -> idx + length cs <= n_clauses s ->
  (forall k, k < length cs -> get_clause s (idx + k) = nth k cs []) ->
  (forall l cj, idx <= cj -> cnt (watch_list s l) cj = 0) ->
  attach_orig cs idx units s = (s', units') ->
  BI s' /\ asg_eq s s' /\ (forall r, get_clause s' r = get_clause s r) /\ n_clauses s' = n_clauses s
  /\ (forall l i, In (l, i) units' -> In (l, i) units \/ get_clause s i = [l]).
Proof.
  induction cs as [|c cs IH]; intros idx units s s' units' H Hlen Hget Hfresh E; simpl in E.
  - injection E as E1 E2. subst. split; [exact H|]. split; [apply asg_eq_refl|]. auto.
  - simpl in Hlen.
    assert (get_clause s idx = c) as Hc by (rewrite <- (Nat.add_0_r idx) at 1; apply (Hget 0); simpl; lia).
    destruct (attach_frame c idx s) as (En & Eg & Ew).
    assert (BI (attach c idx s)) as H1 by (apply BI_attach_fresh; auto; lia).
    assert (forall u, attach_orig cs (S idx) u (attach c idx s) = (s', units') ->
              BI s' /\ asg_eq s s' /\ (forall r, get_clause s' r = get_clause s r) /\ n_clauses s' = n_clauses s
              /\ (forall l i, In (l, i) units' -> In (l, i) u \/ get_clause s i = [l])) as Hstep.
    { intros u Eu. destruct (IH (S idx) u (attach c idx s) s' units' H1) as (Q1 & Q2 & Q3 & Q4 & Q5); auto.
      - rewrite En. lia.
      - intros k Hk. rewrite Eg. replace (S idx + k) with (idx + S k) by lia. apply (Hget (S k)). simpl. lia.
      - intros l cj Hcj. pose proof (Ew l cj) as Q. rewrite (Hfresh l cj) in Q by lia. lia.
      - split; [exact Q1|]. split; [eapply asg_eq_trans; [apply attach_asg | exact Q2]|].
        split; [intros r; rewrite Q3; apply Eg|]. split; [congruence|].
        intros l i Hl. destruct (Q5 l i Hl) as [Q|Q]; [left; exact Q | right; rewrite <- Eg; exact Q]. }
    destruct c as [|l [|b r]].
    + apply Hstep. exact E.
    + rewrite <- (attach_unit l idx s) in E. destruct (Hstep _ E) as (Q1 & Q2 & Q3 & Q4 & Q5).
      split; [exact Q1|]. split; [exact Q2|]. split; [exact Q3|]. split; [exact Q4|].
      intros l0 i Hl. destruct (Q5 l0 i Hl) as [Q|Q]; [|right; exact Q].
      apply in_app_or in Q. destruct Q as [Q|[Q|[]]]; [left; exact Q|]. injection Q as Q6 Q7. subst. right. exact Hc.
    + apply Hstep. exact E.
Qed.

(* ---------------------------------------------------------------- pure literals and unit clauses at level 0 *)
Lemma find_pure_range : forall cls n v b, In (v, b) (find_pure_literals cls n) -> 1 <= v <= n.
Proof.
  intros cls n v b H. unfold find_pure_literals in H. apply in_flat_map in H. destruct H as [w [Hw H]]. apply in_seq in Hw.
  destruct ((0 <? count_occ_lit cls (zvar w)) && (count_occ_lit cls (- zvar w) =? 0)).
  - destruct H as [H|[]]. injection H as H1 H2. subst. lia.
  - destruct ((0 <? count_occ_lit cls (- zvar w)) && (count_occ_lit cls (zvar w) =? 0)); [|contradiction].
    destruct H as [H|[]]. injection H as H1 H2. subst. lia.
Qed.

Lemma assign_pures_BI : forall A pl s n, BI s -> lvl0 s -> nv s = S n -> (forall v b, In (v, b) pl -> 1 <= v <= n) ->
  BI (assign_pures A pl s) /\ lvl0 (assign_pures A pl s) /\ nv (assign_pures A pl s) = S n /\ db_eq s (assign_pures A pl s).
Proof.
  intros A pl. induction pl as [|[v b] pl IH]; intros s n H H0 Hn Hpl; simpl.
  - split; [exact H|]. split; [exact H0|]. split; [exact Hn | apply db_eq_refl].
  - destruct (is_none (val_of s v) && negb (existsb (fun a => lvar a =? v) A)) eqn:E.
    + apply andb_prop in E. destruct E as [E _]. destruct (Hpl v b (or_introl eq_refl)) as [Hv1 Hv2].
      assert (val_of s v = None) as Hvn by (destruct (val_of s v); [discriminate | reflexivity]).
      assert (v < length (s_vals s)) as Hvr by (unfold nv in Hn; lia).
      assert (BI (assign v b None s)) as HBa.
      { apply (BI_assign s v b None H Hvn Hvr); [lia | discriminate | intros _; left; exact H0]. }
      assert (lvl0 (assign v b None s)) as HLa by exact H0.
      assert (nv (assign v b None s) = S n) as HNa by (rewrite nv_assign; exact Hn).
      assert (forall w c, In (w, c) pl -> 1 <= w <= n) as HPa by (intros w c Hw; apply (Hpl w c); right; exact Hw).
      destruct (IH (assign v b None s) n HBa HLa HNa HPa) as (Q1 & Q2 & Q3 & Q4).
      split; [exact Q1|]. split; [exact Q2|]. split; [exact Q3|].
      destruct Q4 as (E1 & E2 & E3 & E4 & E5 & E6). repeat split; assumption.
    + apply IH; auto. intros w c Hw. apply (Hpl w c). right. exact Hw.
Qed.

Lemma assign_units_BI : forall ul s s' n, BI s -> lvl0 s -> nv s = S n ->
  (forall l i, In (l, i) ul -> get_clause s i = [l]) -> assign_units ul s = (s', false) ->
  BI s' /\ lvl0 s' /\ nv s' = S n.
Proof.
  induction ul as [|[l i] ul IH]; intros s s' n H H0 Hn Hul E; simpl in E.
  - injection E as E. subst. auto.
  - destruct (val_of s (lvar l)) as [b|] eqn:EV.
    + destruct (Bool.eqb b (lpos l)); [|discriminate]. eapply IH; eauto. intros l0 i0 Q. apply Hul. right. exact Q.
    + assert (In l (get_clause s i)) as Hl by (rewrite (Hul l i (or_introl eq_refl)); left; reflexivity).
      assert (lvar l < nv s) as Hr.
      { pose proof (get_clause_in s i (proj2 (bi_ti s H))) as Q. unfold clause_in in Q. rewrite Forall_forall in Q. exact (Q l Hl). }
      assert (BI (assign_lit l (Some i) s)) as HBa.
      { unfold assign_lit. apply (BI_assign s (lvar l) (lpos l) (Some i) H EV Hr).
        - apply lvar_nonzero. exact (bi_nz s H i l Hl).
        - intros r _ Hlv. unfold lvl0 in H0. lia.
        - discriminate. }
      assert (nv (assign_lit l (Some i) s) = S n) as HNa by (unfold assign_lit; rewrite nv_assign; exact Hn).
      apply (IH (assign_lit l (Some i) s) s' n HBa H0 HNa); [|exact E].
      intros l0 i0 Q. change (get_clause (assign_lit l (Some i) s) i0) with (get_clause s i0). apply Hul. right. exact Q.
Qed.

(* ---------------------------------------------------------------- init_loop *)
Lemma valid_input_facts : forall cls A, valid_input cls A = true ->
  (forall c l, In c cls -> In l c -> l <> 0%Z /\ lvar l <= n_vars_of cls)
  /\ assum_ok (S (n_vars_of cls)) A.
Proof.
  intros cls A H. unfold valid_input in H. apply andb_prop in H. destruct H as [H H3]. apply andb_prop in H. destruct H as [H1 H2].
  rewrite forallb_forall in H1, H2. split.
  - intros c l Hc Hl. pose proof (H1 c Hc) as Q. rewrite forallb_forall in Q. pose proof (Q l Hl) as Q1.
    apply negb_true_iff in Q1. apply Z.eqb_neq in Q1. split; [exact Q1 | eapply lvar_le_nvars; eauto].
  - apply Forall_forall. intros l Hl. pose proof (H2 l Hl) as Q. apply andb_prop in Q. destruct Q as [Q1 Q2].
    apply negb_true_iff in Q1. apply Z.eqb_neq in Q1. apply Z.leb_le in Q2. split; [exact Q1|].
    unfold lit_in, lvar, n_vars_of. lia.
Qed.

Theorem init_LI : forall fuel cls A mc mr limit lf orc P L0, valid_input cls A = true ->
  init_loop fuel cls A mc mr limit lf orc = ILoop P L0 -> LI P L0.
Proof.
  intros fuel cls A mc mr limit lf orc P L0 Hvalid E. destruct (valid_input_facts cls A Hvalid) as [Hcls HA].
  unfold init_loop in E. destruct cls as [|c0 cls0]; [discriminate|]. set (cls := c0 :: cls0) in *. set (n := n_vars_of cls) in *.
  destruct (n =? 0); [discriminate|]. destruct (existsb is_nilb cls); [discriminate|].
  destruct (attach_orig cls 0 [] (init_state cls n)) as [s0 units] eqn:EO.
  pose proof (init_state_BI cls n Hcls) as HB0.
  destruct (attach_orig_spec cls 0 [] (init_state cls n) s0 units HB0) as (H0 & EA0 & Eg0 & En0 & Hu0); auto.
  { unfold n_clauses, init_state. cbn [s_orig s_learned]. simpl. rewrite Nat.add_0_r. apply Nat.le_refl. }
  { intros k Hk. change (0 + k) with k. unfold get_clause, init_state. cbn [s_orig s_learned]. destruct (Nat.ltb_spec k (length cls)) as [Q|Q]; [reflexivity | exfalso; apply (Nat.lt_irrefl k); eapply Nat.lt_le_trans; [exact Hk | exact Q]]. }
  { intros l cj _. unfold watch_list, init_state. cbn [s_wpos s_wneg]. destruct (lpos l); rewrite nth_repeat; reflexivity. }
  assert (lvl0 s0) as Lv0 by (unfold lvl0; rewrite (asg_eq_cur_level _ _ EA0); reflexivity).
  assert (nv s0 = S n) as N0 by (unfold nv; destruct EA0 as (Q & _); rewrite Q; unfold init_state; cbn [s_vals]; apply repeat_length).
  set (s1 := if (limit <=? 1)%Z then assign_pures A (find_pure_literals cls n) s0 else s0) in *.
  assert (BI s1 /\ lvl0 s1 /\ nv s1 = S n /\ db_eq s0 s1) as (H1 & L1 & N1 & D1).
  { unfold s1. destruct (limit <=? 1)%Z; [|split; [exact H0 | split; [exact Lv0 | split; [exact N0 | apply db_eq_refl]]]].
    apply assign_pures_BI; auto. intros v b Hv. eapply find_pure_range; eauto. }
  destruct (assign_units units s1) as [s2 [|]] eqn:EU; [discriminate|].
  destruct (assign_units_BI units s1 s2 n H1 L1 N1) as (H2 & L2 & N2); auto.
  { intros l i Hl. rewrite (db_eq_get_clause _ _ _ D1), Eg0. destruct (Hu0 l i Hl) as [[]|Q]. exact Q. }
  destruct (propagate fuel A s2) as [[s3 c]|] eqn:EP; [|discriminate].
  assert (forall csr li nx dc rs sols evs orc0, LI (mkParams A mc mr limit lf n) (mkLoop s3 c 0 csr li nx dc rs sols evs orc0)) as HLI.
  { intros. eapply LI_after_propagate; eauto. }
  destruct c as [| |ci]; try discriminate; (destruct (luby_val 1) as [lv|]; [|discriminate]); injection E as E1 E2; subst P L0; apply HLI.
Qed.

(* ---------------------------------------------------------------- every state of every run *)
Theorem run_LI : forall fuel cls A mc mr limit lf orc P L0 L, valid_input cls A = true ->
  init_loop fuel cls A mc mr limit lf orc = ILoop P L0 -> reach fuel P L0 L -> LI P L.
Proof. intros. eapply reach_LI; [eapply init_LI; eauto | eauto]. Qed.

(* (c) for every run: what analyze learns from the recorded conflict is entailed by the database of that moment *)
Theorem run_learned_entailed : forall fuel cls A mc mr limit lf orc P L0 L ci lc bt lbd, valid_input cls A = true ->
  init_loop fuel cls A mc mr limit lf orc = ILoop P L0 -> reach fuel P L0 L ->
  l_conflict L = CAt ci -> l_dec_level L <> 0 -> analyze (l_st L) ci = Some (lc, bt, lbd) -> entails (db (l_st L)) lc.
Proof. intros. eapply learned_entailed_run; eauto. eapply run_LI; eauto. Qed.
