(* C01 deep model - (e) C01_algorithm: when the main loop records a solution (no conflict pending, every variable assigned),
   every input clause, every clause of the database (learned and blocking clauses) and every assumption is satisfied by it. *)
From Coq Require Import List ZArith Bool Arith Lia Permutation.
Import ListNotations.
From SV Require Import C01.SatSpec C01.Machine C01.DeepCdcl C01.DeepBase C01.DeepTrail C01.DeepTrailProp C01.DeepAnalyze
  C01.DeepWatch C01.DeepReason C01.DeepReasonProp C01.DeepRunOps C01.DeepReduce C01.DeepRun C01.DeepInit C01.DeepJ C01.DeepJOps
  C01.DeepJProp C01.DeepJAttach C01.DeepJLearn C01.DeepJReduce C01.DeepJRun C01.DeepSteps C01.RupProofs.
Close Scope Z_scope.
Open Scope nat_scope.

(* ---------------------------------------------------------------- two more invariants, via elementary steps *)
(* the input clauses keep their literals: only the order inside a clause changes *)
Definition orig_ok (cls : cnf) (s : st) : Prop :=
  length (s_orig s) = length cls /\ forall i, same_mem (nth i (s_orig s) []) (nth i cls []).

(* literal a is true at level 0 *)
Definition true0 (a : Z) (s : st) : Prop := lit_value s a = Some true /\ level_of s (lvar a) = 0.
Definition asm_ok (A : list Z) (s : st) : Prop := forall a, In a A -> true0 a s.

Lemma orig_ok_estep : forall cls s s', estep s s' -> orig_ok cls s -> orig_ok cls s'.
Proof.
  intros cls s s' E [H1 H2].
  destruct E as [s v b r _ _ | s ci c Hm | s s' EA Eo _ _ | s c k | s c b L _ _ | s | s h | s k _ | s]; try (split; assumption).
  - unfold orig_ok, set_clause. destruct (Nat.ltb_spec ci (length (s_orig s))) as [L|L]; simpl; [|split; assumption].
    split; [rewrite upd_length; exact H1|]. intros i. destruct (Nat.eq_dec ci i) as [Q|Q].
    + subst i. rewrite nth_upd_eq by exact L. intros l. rewrite (Hm l). unfold get_clause.
      destruct (Nat.ltb_spec ci (length (s_orig s))); [|lia]. apply H2.
    + rewrite nth_upd_neq by exact Q. apply H2.
  - unfold orig_ok. rewrite Eo. split; assumption.
  - unfold orig_ok. rewrite orig_reduce_db. split; assumption.
  - destruct (unassign_to_db_eq k s) as (Q & _). unfold orig_ok. rewrite Q. split; assumption.
Qed.

Lemma true0_estep : forall a s s', estep s s' -> true0 a s -> true0 a s'.
Proof.
  intros a s s' E [H1 H2].
  assert (forall x y, asg_eq x y -> lit_value x a = Some true -> level_of x (lvar a) = 0 -> true0 a y) as Hasg.
  { intros x y EA Q1 Q2. split; [rewrite (asg_eq_lit_value _ _ _ EA) | rewrite (asg_eq_level_of _ _ _ EA)]; assumption. }
  destruct E as [s v b r HT HT' | s ci c Hm | s s' EA Eo _ _ | s c k | s c b L _ _ | s | s h | s k HT | s].
  - assert (lvar a <> v) as Hne.
    { intros C. apply lit_value_assigned in H1. apply (ti_assigned s HT) in H1. rewrite C in H1.
      pose proof (ti_nodup _ HT') as ND. simpl in ND. inversion ND; contradiction. }
    split; [rewrite lit_value_assign_other by exact Hne; exact H1|].
    unfold level_of, assign. simpl. rewrite nth_upd_neq by (intros C; apply Hne; symmetry; exact C). exact H2.
  - pose proof (set_clause_asg s ci c) as EA. split; [rewrite (asg_eq_lit_value _ _ _ EA) | rewrite (asg_eq_level_of _ _ _ EA)]; assumption.
  - split; [rewrite (asg_eq_lit_value _ _ _ EA) | rewrite (asg_eq_level_of _ _ _ EA)]; assumption.
  - apply (Hasg s); [apply append_learned_asg | exact H1 | exact H2].
  - apply (Hasg s); [apply set_last_learned_asg | exact H1 | exact H2].
  - apply (Hasg s); [apply reduce_db_asg | exact H1 | exact H2].
  - split; assumption.
  - destruct (unassign_to_spec s k HT) as [popped (_ & EL & _ & _ & _ & _ & Hkeep & _ & Hge)].
    split; [|unfold level_of; rewrite EL; exact H2].
    assert (In (lvar a) (s_trail s)) as Hin by (apply (ti_assigned s HT); eapply lit_value_assigned; exact H1).
    destruct (Nat.lt_ge_cases k (cur_level s)) as [L|L].
    + destruct (proj1 (unassign_to_stays_or_goes s k (lvar a) HT Hin L) ltac:(lia)) as [_ Q]. unfold lit_value in *. rewrite Q. exact H1.
    + unfold cur_level in L. rewrite (Hge L) in Hkeep. unfold lit_value in *. rewrite Hkeep by (intros []). exact H1.
  - split; assumption.
Qed.

Lemma orig_ok_esteps : forall cls s s', esteps s s' -> orig_ok cls s -> orig_ok cls s'.
Proof. intros cls. apply esteps_pres. apply orig_ok_estep. Qed.

Lemma asm_ok_esteps : forall A s s', esteps s s' -> asm_ok A s -> asm_ok A s'.
Proof. intros A s s' R H a Ha. apply (esteps_pres (true0 a) (true0_estep a) s s' R). apply H. exact Ha. Qed.

Record LE (cls : cnf) (P : params) (L : loop) : Prop := mkLE {
  le_orig : orig_ok cls (l_st L);
  le_asm : l_conflict L = CAssum \/ asm_ok (p_assum P) (l_st L)
}.

Theorem main_step_LE : forall cls fuel P L L', LI P L -> LE cls P L -> main_step fuel P L = Cont L' -> LE cls P L'.
Proof.
  intros cls fuel P L L' HL [H1 H2] E. pose proof (main_step_esteps fuel P L L' HL E) as R. constructor.
  - eapply orig_ok_esteps; eauto.
  - right. destruct H2 as [H2|H2]; [|eapply asm_ok_esteps; eauto].
    unfold main_step in E. rewrite H2 in E. discriminate.
Qed.

(* ---------------------------------------------------------------- before the loop *)
Lemma assign_pures_esteps : forall A pl s n, BI s -> lvl0 s -> nv s = S n -> (forall v b, In (v, b) pl -> 1 <= v <= n) ->
  esteps s (assign_pures A pl s).
Proof.
  intros A pl. induction pl as [|[v b] pl IH]; intros s n H H0 Hn Hpl; simpl; [apply ess_refl|].
  destruct (is_none (val_of s v) && negb (existsb (fun a => lvar a =? v) A)) eqn:E.
  - apply andb_prop in E. destruct E as [E _]. destruct (Hpl v b (or_introl eq_refl)) as [Hv1 Hv2].
    assert (val_of s v = None) as Hvn by (destruct (val_of s v); [discriminate | reflexivity]).
    assert (v < length (s_vals s)) as Hvr by (unfold nv in Hn; lia).
    assert (BI (assign v b None s)) as HBa.
    { apply (BI_assign s v b None H Hvn Hvr); [lia | discriminate | intros _; left; exact H0]. }
    eapply esteps_trans; [apply esteps_one; apply es_assign; [exact (proj1 (bi_ti s H)) | exact (proj1 (bi_ti _ HBa))]|].
    apply (IH _ n HBa H0); [rewrite nv_assign; exact Hn | intros w c Hw; apply (Hpl w c); right; exact Hw].
  - apply (IH s n H H0 Hn). intros w c Hw. apply (Hpl w c). right. exact Hw.
Qed.

Lemma assign_units_esteps : forall ul s s' n, BI s -> lvl0 s -> nv s = S n ->
  (forall l i, In (l, i) ul -> get_clause s i = [l]) -> assign_units ul s = (s', false) -> esteps s s'.
Proof.
  induction ul as [|[l i] ul IH]; intros s s' n H H0 Hn Hul E; simpl in E.
  - injection E as E. subst. apply ess_refl.
  - destruct (val_of s (lvar l)) as [b|] eqn:EV.
    + destruct (Bool.eqb b (lpos l)); [|discriminate]. eapply IH; eauto. intros l0 i0 Q. apply Hul. right. exact Q.
    + assert (In l (get_clause s i)) as Hl by (rewrite (Hul l i (or_introl eq_refl)); left; reflexivity).
      assert (lvar l < nv s) as Hr.
      { pose proof (get_clause_in s i (proj2 (bi_ti s H))) as Q. unfold clause_in in Q. rewrite Forall_forall in Q. exact (Q l Hl). }
      assert (BI (assign_lit l (Some i) s)) as HBa.
      { unfold assign_lit. apply (BI_assign s (lvar l) (lpos l) (Some i) H EV Hr).
        - apply lvar_nonzero. exact (bi_nz s H i l Hl).
        - intros r _ Hlv. unfold lvl0 in H0. lia.
        - discriminate. }
      eapply esteps_trans; [apply esteps_one; unfold assign_lit; apply es_assign; [exact (proj1 (bi_ti s H)) | exact (proj1 (bi_ti _ HBa))]|].
      apply (IH _ s' n HBa H0); [unfold assign_lit; rewrite nv_assign; exact Hn | | exact E].
      intros l0 i0 Q. change (get_clause (assign_lit l (Some i) s) i0) with (get_clause s i0). apply Hul. right. exact Q.
Qed.

(* after the assumption loop every assumption is true at level 0 *)
Lemma prop_assums_true : forall A s s', assum_ok (nv s) A -> BI s -> cur_level s = 0 -> prop_assums A s = (s', false) ->
  asm_ok A s' /\ (forall x, true0 x s -> true0 x s').
Proof.
  induction A as [|l A IH]; intros s s' HA H Hc E; simpl in E.
  - injection E as E. subst. split; [intros a [] | auto].
  - inversion HA as [|? ? [Hl0 Hl] HA']; subst. pose proof (proj1 (bi_ti s H)) as HT.
    destruct (val_of s (lvar l)) as [b|] eqn:EV.
    + destruct (Bool.eqb b (lpos l)) eqn:EB; [|discriminate].
      destruct (IH s s' HA' H Hc E) as [Q1 Q2]. split; [|exact Q2].
      intros a [Q|Q]; [|apply Q1; exact Q]. subst a. apply Q2. split.
      * unfold lit_value. rewrite EV, EB. reflexivity.
      * assert (In (lvar l) (s_trail s)) as Hin by (apply (ti_assigned s HT); congruence).
        pose proof (level_le_cur s (lvar l) HT Hin). lia.
    + assert (BI (assign_lit l None s)) as H1.
      { unfold assign_lit. apply BI_assign; auto. apply lvar_nonzero; exact Hl0. discriminate. }
      destruct (IH (assign_lit l None s) s') as [Q1 Q2]; auto.
      { unfold assign_lit. rewrite nv_assign. exact HA'. }
      assert (forall x, true0 x s -> true0 x (assign_lit l None s)) as Hk.
      { intros x. apply true0_estep. unfold assign_lit. apply es_assign; [exact HT | exact (proj1 (bi_ti _ H1))]. }
      split; [|intros x Hx; apply Q2, Hk; exact Hx].
      intros a [Q|Q]; [|apply Q1; exact Q]. subst a. apply Q2. unfold assign_lit. split.
      * rewrite lit_value_assign_same by auto. destruct (lpos l); reflexivity.
      * rewrite level_of_assign by (rewrite (ti_len_levels s HT); exact Hl). rewrite Nat.eqb_refl. exact Hc.
Qed.

Theorem init_LE : forall fuel cls A mc mr limit lf orc P L0, valid_input cls A = true ->
  init_loop fuel cls A mc mr limit lf orc = ILoop P L0 ->
  LE cls P L0 /\ p_assum P = A /\ p_nvars P = n_vars_of cls /\ esteps (init_state cls (n_vars_of cls)) (l_st L0) /\ l_sols L0 = [].
Proof.
  intros fuel cls A mc mr limit lf orc P L0 Hvalid E. destruct (valid_input_facts cls A Hvalid) as [Hcls HA].
  unfold init_loop in E. destruct cls as [|c0 cls0]; [discriminate|]. set (cls := c0 :: cls0) in *. set (n := n_vars_of cls) in *.
  destruct (n =? 0); [discriminate|]. destruct (existsb is_nilb cls) eqn:Enil; [discriminate|].
  destruct (attach_orig cls 0 [] (init_state cls n)) as [s0 units] eqn:EO.
  pose proof (init_state_BI cls n Hcls) as HB0.
  assert (s0 = attach_all cls 0 (init_state cls n)) as Es0 by (rewrite <- DeepJRun.attach_orig_state with (u := []); rewrite EO; reflexivity).
  destruct (attach_orig_spec cls 0 [] (init_state cls n) s0 units HB0) as (H0 & EA0 & Eg0 & En0 & Hu0); auto.
  { unfold n_clauses, init_state. cbn [s_orig s_learned]. simpl. rewrite Nat.add_0_r. apply Nat.le_refl. }
  { intros k Hk. change (0 + k) with k. unfold get_clause, init_state. cbn [s_orig s_learned].
    destruct (Nat.ltb_spec k (length cls)) as [Q|Q]; [reflexivity | exfalso; apply (Nat.lt_irrefl k); eapply Nat.lt_le_trans; [exact Hk | exact Q]]. }
  { intros l cj _. unfold watch_list, init_state. cbn [s_wpos s_wneg]. destruct (lpos l); rewrite nth_repeat; reflexivity. }
  assert (lvl0 s0) as Lv0 by (unfold lvl0; rewrite (asg_eq_cur_level _ _ EA0); reflexivity).
  assert (nv s0 = S n) as N0 by (unfold nv; destruct EA0 as (Q & _); rewrite Q; unfold init_state; cbn [s_vals]; apply repeat_length).
  assert (esteps (init_state cls n) s0) as R0 by (rewrite Es0; apply esteps_one; apply es_attach_all).
  set (s1 := if (limit <=? 1)%Z then assign_pures A (find_pure_literals cls n) s0 else s0) in *.
  assert (BI s1 /\ lvl0 s1 /\ nv s1 = S n /\ db_eq s0 s1) as (H1 & L1 & N1 & D1).
  { unfold s1. destruct (limit <=? 1)%Z; [|split; [exact H0 | split; [exact Lv0 | split; [exact N0 | apply db_eq_refl]]]].
    apply assign_pures_BI; auto. intros v b Hv. eapply find_pure_range; eauto. }
  assert (esteps s0 s1) as R1.
  { unfold s1. destruct (limit <=? 1)%Z; [|apply ess_refl]. apply (assign_pures_esteps A _ s0 n); auto. intros v b Hv. eapply find_pure_range; eauto. }
  destruct (assign_units units s1) as [s2 [|]] eqn:EU; [discriminate|].
  assert (forall l i, In (l, i) units -> get_clause s1 i = [l]) as Hun1.
  { intros l i Hl. rewrite (db_eq_get_clause _ _ _ D1), Eg0. destruct (Hu0 l i Hl) as [[]|Q]. exact Q. }
  destruct (assign_units_BI units s1 s2 n H1 L1 N1 Hun1 EU) as (H2 & L2 & N2).
  pose proof (assign_units_esteps units s1 s2 n H1 L1 N1 Hun1 EU) as R2.
  assert (orig_ok cls s2) as O2.
  { apply (orig_ok_esteps cls (init_state cls n)); [eapply esteps_trans; [exact R0|]; eapply esteps_trans; eauto|].
    split; [reflexivity | intros i l; tauto]. }
  assert (assum_ok (nv s2) A) as HA2 by (rewrite N2; exact HA).
  destruct (propagate fuel A s2) as [[s3 c]|] eqn:EP; [|discriminate].
  assert (orig_ok cls s3) as O3 by (eapply orig_ok_esteps; [eapply propagate_esteps; eauto | exact O2]).
  assert (esteps (init_state cls n) s3) as R3.
  { eapply esteps_trans; [exact R0|]. eapply esteps_trans; [exact R1|]. eapply esteps_trans; [exact R2|]. eapply propagate_esteps; eauto. }
  assert (c = CAssum \/ asm_ok A s3) as As3.
  { unfold propagate in EP. unfold lvl0 in L2. rewrite L2 in EP. simpl in EP.
    destruct (prop_assums A s2) as [s2' [|]] eqn:EPA.
    - injection EP as E1 E2. left. symmetry. exact E2.
    - right. destruct (prop_assums_true A s2 s2' HA2 H2 L2 EPA) as [Q1 _].
      destruct (prop_assums_BI _ _ _ _ HA2 H2 L2 EPA) as (H2' & _ & _).
      eapply asm_ok_esteps; [eapply prop_loop_esteps; eauto | exact Q1]. }
  destruct c as [| |ci]; try discriminate; (destruct (luby_val 1) as [lv|]; [|discriminate]); injection E as E1 E2; subst P L0;
    (split; [constructor; [exact O3 | exact As3] | split; [reflexivity | split; [reflexivity | split; [exact R3 | reflexivity]]]]).
Qed.

(* ---------------------------------------------------------------- a total assignment with W and J satisfies every clause *)
Lemma all_assigned_val : forall s n v, all_assigned s n = true -> 1 <= v <= n -> val_of s v <> None.
Proof.
  intros s n v H Hv. unfold all_assigned in H. rewrite forallb_forall in H.
  assert (In v (seq 1 n)) as Hin by (apply in_seq; lia). pose proof (H v Hin) as Q. destruct (val_of s v); [congruence | discriminate].
Qed.

Lemma lit_value_total : forall s l, val_of s (lvar l) <> None -> lit_value s l = Some true \/ lit_value s l = Some false.
Proof.
  intros s l H. unfold lit_value. destruct (val_of s (lvar l)) as [b|]; [|congruence]. destruct (Bool.eqb b (lpos l)); auto.
Qed.

Lemma all_true_lit : forall s n, BI s -> nv s = S n -> all_assigned s n = true -> s_head s = length (s_trail s) ->
  cov_all s -> J s -> forall ci, ci < n_clauses s -> exists l, In l (get_clause s ci) /\ lit_value s l = Some true.
Proof.
  intros s n H Hn Hall Hh HC HJ ci Hci. pose proof (HC ci Hci) as Q. unfold covered in Q.
  pose proof (proj1 (bi_ti s H)) as HT.
  assert (forall l, In l (get_clause s ci) -> val_of s (lvar l) <> None) as Hass.
  { intros l Hl. apply (all_assigned_val s n); [exact Hall|].
    pose proof (get_clause_in s ci (proj2 (bi_ti s H))) as R. unfold clause_in in R. rewrite Forall_forall in R.
    pose proof (R l Hl) as R1. unfold lit_in in R1. pose proof (lvar_nonzero l (bi_nz s H ci l Hl)). lia. }
  assert (forall l, In l (get_clause s ci) -> lit_value s l = Some false -> fp s l) as Hfp.
  { intros l Hl Hf. split; [exact Hf|]. assert (In (lvar l) (s_trail s)) as Hin by (apply (ti_assigned s HT); apply Hass; exact Hl).
    destruct (in_split _ _ Hin) as (tr1 & tr2 & E). exists tr1, tr2. split; [exact E|]. rewrite Hh, E, app_length. simpl. lia. }
  destruct (get_clause s ci) as [|a [|b r]] eqn:Ec; [contradiction | exists a; split; [left; reflexivity | exact (proj1 Q)]|].
  destruct (lit_value_total s a (Hass a (or_introl eq_refl))) as [Ta|Fa]; [exists a; split; [left; reflexivity | exact Ta]|].
  destruct (lit_value_total s b (Hass b (or_intror (or_introl eq_refl)))) as [Tb|Fb]; [exists b; split; [right; left; reflexivity | exact Tb]|].
  exfalso. exact (HJ ci a b r Hci Ec (Hfp a (or_introl eq_refl) Fa) (Hfp b (or_intror (or_introl eq_refl)) Fb)).
Qed.

(* ---------------------------------------------------------------- the reported dict as an assignment *)
Lemma In_solution_pos : forall s n v, In (zvar v) (solution_of s n) <-> (1 <= v <= n /\ val_of s v = Some true).
Proof.
  intros s n v. unfold solution_of. rewrite in_flat_map. split.
  - intros [w [Hw Hin]]. apply in_seq in Hw. destruct (val_of s w) as [[|]|] eqn:E; simpl in Hin; [| |contradiction]; destruct Hin as [Q|[]].
    + unfold zvar in Q. apply Nat2Z.inj in Q. subst w. split; [lia | exact E].
    + exfalso. unfold zvar in Q. lia.
  - intros [Hv E]. exists v. split; [apply in_seq; lia|]. rewrite E. left. reflexivity.
Qed.

Lemma sol_lit_true : forall s n l, l <> 0%Z -> lvar l <= n -> lit_value s l = Some true ->
  lit_true (asg_of (solution_of s n)) l = true.
Proof.
  intros s n l Hnz Hr Ht. unfold lit_true, asg_of. unfold lit_value in Ht.
  destruct (val_of s (lvar l)) as [b|] eqn:EV; [|discriminate]. injection Ht as Ht. unfold lpos in Ht.
  assert (1 <= lvar l) as H1 by (pose proof (lvar_nonzero l Hnz); lia).
  destruct (Z.ltb_spec 0 l) as [L|L].
  - destruct b; simpl in Ht; [|discriminate]. apply mem_In. rewrite <- (zvar_lvar_pos l L). apply In_solution_pos. split; [lia | exact EV].
  - destruct b; simpl in Ht; [discriminate|]. apply negb_true_iff.
    destruct (mem (- l) (solution_of s n)) eqn:Em; [|reflexivity]. exfalso. apply mem_In in Em.
    rewrite <- (zvar_lvar_neg l ltac:(lia)) in Em. apply In_solution_pos in Em. destruct Em as [_ Q]. congruence.
Qed.

(* ---------------------------------------------------------------- (e) *)
Theorem algo_models : forall cls P L, LI P L -> LJ L -> LE cls P L -> l_conflict L = CNone ->
  all_assigned (l_st L) (p_nvars P) = true ->
  let m := solution_of (l_st L) (p_nvars P) in
  models (asg_of m) cls /\ agrees (asg_of m) (p_assum P) /\ models (asg_of m) (db (l_st L)).
Proof.
  intros cls P L [HB Hnv HA Hdec Hconf] HLJ [HO HAs] EC Hall m. unfold LJ in HLJ. rewrite EC in *.
  destruct HLJ as (HAr & HC & HJ). destruct HAs as [Q|HAs]; [discriminate|].
  set (s := l_st L) in *. set (n := p_nvars P) in *.
  pose proof (all_true_lit s n HB Hnv Hall Hconf HC HJ) as Htrue.
  assert (forall ci l, In l (get_clause s ci) -> lit_value s l = Some true -> lit_true (asg_of m) l = true) as Hlt.
  { intros ci l Hl Ht. apply sol_lit_true; [exact (bi_nz s HB ci l Hl) | | exact Ht].
    pose proof (get_clause_in s ci (proj2 (bi_ti s HB))) as R. unfold clause_in in R. rewrite Forall_forall in R.
    pose proof (R l Hl) as R1. unfold lit_in in R1. lia. }
  assert (models (asg_of m) (db s)) as Mdb.
  { intros c Hc. destruct (in_db_get_clause s c Hc) as [ci [Hci E]]. destruct (Htrue ci Hci) as [l [Hl Ht]].
    apply existsb_exists. exists l. split; [rewrite <- E; exact Hl | apply (Hlt ci l Hl Ht)]. }
  split; [|split; [|exact Mdb]].
  - intros c Hc. destruct (In_nth cls c ([] : clause) Hc) as [i [Hi E]]. destruct HO as [O1 O2].
    assert (i < n_clauses s) as Hci by (unfold n_clauses; rewrite O1; lia).
    destruct (Htrue i Hci) as [l [Hl Ht]]. apply existsb_exists. exists l. split; [|apply (Hlt i l Hl Ht)].
    rewrite <- E. apply (O2 i l). unfold get_clause in Hl. destruct (Nat.ltb_spec i (length (s_orig s))) as [Q|Q]; [exact Hl | lia].
  - intros a Ha. destruct (HAs a Ha) as [Ht _]. unfold assum_ok in HA. rewrite Forall_forall in HA. destruct (HA a Ha) as [Ha0 Har].
    apply sol_lit_true; [exact Ha0 | unfold lit_in in Har; lia | exact Ht].
Qed.

(* every state of every run: LI, LJ and LE *)
Theorem run_all : forall fuel cls A mc mr limit lf orc P L0 L, valid_input cls A = true ->
  init_loop fuel cls A mc mr limit lf orc = ILoop P L0 -> reach fuel P L0 L -> LI P L /\ LJ L /\ LE cls P L.
Proof.
  intros fuel cls A mc mr limit lf orc P L0 L Hv Hi R. induction R as [|L1 L2 R IH E].
  - split; [eapply init_LI; eauto|]. split; [eapply init_LJ; eauto | exact (proj1 (init_LE _ _ _ _ _ _ _ _ _ _ Hv Hi))].
  - destruct IH as (IH1 & IH2 & IH3). split; [eapply main_step_LI; eauto|]. split; [eapply main_step_LJ; eauto | eapply main_step_LE; eauto].
Qed.

(* C01_algorithm: whenever a run of the model reaches the point where it records a solution - no conflict pending and every
   variable assigned, i.e. pick_var() returned 0 - the recorded assignment satisfies every input clause, every assumption and
   every clause of the database (all learned and blocking clauses). *)
Theorem C01_algorithm_thm : forall fuel cls A mc mr limit lf orc P L0 L, valid_input cls A = true ->
  init_loop fuel cls A mc mr limit lf orc = ILoop P L0 -> reach fuel P L0 L ->
  l_conflict L = CNone -> all_assigned (l_st L) (n_vars_of cls) = true ->
  let m := solution_of (l_st L) (n_vars_of cls) in
  models (asg_of m) cls /\ agrees (asg_of m) A /\ models (asg_of m) (db (l_st L)).
Proof.
  intros fuel cls A mc mr limit lf orc P L0 L Hv Hi R EC Hall.
  destruct (run_all _ _ _ _ _ _ _ _ _ _ _ Hv Hi R) as (H1 & H2 & H3). destruct (init_LE _ _ _ _ _ _ _ _ _ _ Hv Hi) as (_ & EA & En & _).
  rewrite <- En in *. rewrite <- EA. exact (algo_models cls P L H1 H2 H3 EC Hall).
Qed.
