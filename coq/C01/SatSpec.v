(* C01 / C02 - CNF semantics (DESIGN.md Appendix A) and the boolean twins used by the guarded machine.
   Definitions only. *)
From Coq Require Import List ZArith Bool.
Import ListNotations.
Open Scope Z_scope.

Definition lit := Z.
Definition clause := list lit.
Definition cnf := list clause.
Definition asg := Z -> bool.

Definition lit_true (m : asg) (l : lit) : bool := if 0 <? l then m l else negb (m (- l)).
Definition clause_true (m : asg) (c : clause) : bool := existsb (lit_true m) c.
Definition models (m : asg) (f : cnf) : Prop := forall c, In c f -> clause_true m c = true.
Definition agrees (m : asg) (a : list lit) : Prop := forall l, In l a -> lit_true m l = true.
Definition entails (f : cnf) (c : clause) : Prop := forall m, models m f -> clause_true m c = true.
Definition unsat_under (f : cnf) (a : list lit) : Prop := ~ exists m, models m f /\ agrees m a.

(* ---- boolean helpers ---- *)
Definition mem (l : Z) (s : list Z) : bool := existsb (Z.eqb l) s.

(* A reported model is the list of its true literals in variable order, e.g. [1; -2; 3]
   for {1: True, 2: False, 3: True}.  As an assignment: variable v is true iff v is listed. *)
Definition model := list Z.
Definition asg_of (m : model) : asg := fun v => mem v m.

Definition units (ls : list lit) : cnf := map (fun l => [l]) ls.

Definition models_b (m : asg) (f : cnf) : bool := forallb (clause_true m) f.
Definition agrees_b (m : asg) (a : list lit) : bool := forallb (lit_true m) a.

(* every literal listed in m is true under asg_of m (no complementary pair, no 0) *)
Definition consistent_b (m : model) : bool := forallb (lit_true (asg_of m)) m.

Fixpoint zseq (start : Z) (len : nat) : list Z :=
  match len with O => [] | S k => start :: zseq (start + 1) k end.

Fixpoint zlist_eqb (a b : list Z) : bool :=
  match a, b with
  | [], [] => true
  | x :: xs, y :: ys => (x =? y) && zlist_eqb xs ys
  | _, _ => false
  end.

(* m assigns exactly the variables 1..n, in this order (the dict the code builds) *)
Definition wf_model (n : Z) (m : model) : bool := zlist_eqb (map Z.abs m) (zseq 1 (Z.to_nat n)).

Definition max_var (f : cnf) : Z :=
  fold_left (fun acc c => fold_left (fun a l => Z.max a (Z.abs l)) c acc) f 0.

(* inputs the theorems talk about without further ado: no literal 0, every assumption variable
   within the variable range of the clauses (the code raises IndexError otherwise) *)
Definition valid_input (f : cnf) (a : list lit) : bool :=
  forallb (forallb (fun l => negb (l =? 0))) f
  && forallb (fun l => negb (l =? 0) && (Z.abs l <=? max_var f)) a
  && (0 <? max_var f).
