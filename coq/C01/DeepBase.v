(* C01 deep model - list / array lemmas and frame lemmas shared by the Deep*Proofs files. *)
From Coq Require Import List ZArith Bool Arith Lia.
Import ListNotations.
From SV Require Import C01.SatSpec C01.Machine C01.DeepCdcl.
Close Scope Z_scope.
Open Scope nat_scope.

(* ---------------------------------------------------------------- upd / nth *)
Lemma upd_length : forall {A} (l : list A) i x, length (upd l i x) = length l.
Proof. induction l as [|h t IH]; intros [|i] x; simpl; auto. Qed.

Lemma nth_upd_eq : forall {A} (l : list A) i x d, i < length l -> nth i (upd l i x) d = x.
Proof. induction l as [|h t IH]; intros [|i] x d H; simpl in *; try lia; auto. apply IH. lia. Qed.

Lemma nth_upd_neq : forall {A} (l : list A) i j x d, i <> j -> nth j (upd l i x) d = nth j l d.
Proof. induction l as [|h t IH]; intros [|i] [|j] x d H; simpl; auto; try congruence. Qed.

Lemma nth_upd_default : forall {A} (l : list A) i j d, nth j (upd l i d) d = if (i =? j) then d else nth j l d.
Proof.
  intros A l i j d. destruct (Nat.eqb_spec i j) as [E|E].
  - subst j. destruct (Nat.lt_ge_cases i (length l)) as [H|H].
    + apply nth_upd_eq; exact H.
    + apply nth_overflow. rewrite upd_length. exact H.
  - apply nth_upd_neq; exact E.
Qed.

Lemma In_upd : forall {A} (l : list A) i x y, In y (upd l i x) -> y = x \/ In y l.
Proof.
  induction l as [|h t IH]; intros [|i] x y H; simpl in *; auto.
  - destruct H; auto.
  - destruct H as [H|H]; auto. destruct (IH _ _ _ H); auto.
Qed.

Lemma Forall_upd : forall {A} (P : A -> Prop) (l : list A) i x, Forall P l -> P x -> Forall P (upd l i x).
Proof.
  intros A P l i x Hl Hx. apply Forall_forall. intros y Hy. destruct (In_upd _ _ _ _ Hy) as [E|E].
  - subst; exact Hx.
  - rewrite Forall_forall in Hl. auto.
Qed.

Lemma Forall_nth_default : forall {A} (P : A -> Prop) (l : list A) i d, Forall P l -> P d -> P (nth i l d).
Proof.
  intros A P l i d Hl Hd. destruct (Nat.lt_ge_cases i (length l)) as [H|H].
  - rewrite Forall_forall in Hl. apply Hl. apply nth_In. exact H.
  - rewrite nth_overflow by exact H. exact Hd.
Qed.

Lemma repeat_nth : forall {A} (x : A) n i d, i < n -> nth i (repeat x n) d = x.
Proof. induction n as [|n IH]; intros [|i] d H; simpl; try lia; auto. apply IH. lia. Qed.

(* ---------------------------------------------------------------- the assignment part of a state *)
Definition asg_eq (s s' : st) : Prop :=
  s_vals s' = s_vals s /\ s_levels s' = s_levels s /\ s_reasons s' = s_reasons s /\ s_trail s' = s_trail s
  /\ s_lim s' = s_lim s /\ s_head s' = s_head s /\ s_phase s' = s_phase s.

Lemma asg_eq_refl : forall s, asg_eq s s.
Proof. intros s. repeat split. Qed.

Lemma asg_eq_trans : forall a b c, asg_eq a b -> asg_eq b c -> asg_eq a c.
Proof.
  intros a b c (H1 & H2 & H3 & H4 & H5 & H6 & H7) (G1 & G2 & G3 & G4 & G5 & G6 & G7).
  repeat split; congruence.
Qed.

Lemma set_clause_asg : forall s i c, asg_eq s (set_clause s i c).
Proof. intros s i c. unfold set_clause. destruct (i <? length (s_orig s)); repeat split. Qed.

Lemma set_watch_list_asg : forall s l ws, asg_eq s (set_watch_list s l ws).
Proof. intros s l ws. unfold set_watch_list. destruct (lpos l); repeat split. Qed.

Lemma add_watch_asg : forall l i s, asg_eq s (add_watch l i s).
Proof. intros l i s. unfold add_watch. apply set_watch_list_asg. Qed.

Lemma bump_confl_asg : forall s, asg_eq s (bump_confl s).
Proof. intros s. repeat split. Qed.

Lemma big_add1_asg : forall a b i s, asg_eq s (big_add1 a b i s).
Proof. intros a b i s. unfold big_add1. destruct (lpos a); repeat split. Qed.

Lemma big_add_asg : forall a b i s, asg_eq s (big_add a b i s).
Proof. intros a b i s. unfold big_add. eapply asg_eq_trans; apply big_add1_asg. Qed.

Lemma append_learned_asg : forall c k s, asg_eq s (append_learned c k s).
Proof. intros c k s. repeat split. Qed.

Lemma set_last_learned_asg : forall s c, asg_eq s (set_last_learned s c).
Proof. intros s c. repeat split. Qed.

Lemma attach_asg : forall c i s, asg_eq s (attach c i s).
Proof.
  intros c i s. unfold attach. destruct c as [|a [|b [|x r]]]; try apply asg_eq_refl.
  - apply big_add_asg.
  - eapply asg_eq_trans; apply add_watch_asg.
Qed.

Lemma attach_all_asg : forall cs i s, asg_eq s (attach_all cs i s).
Proof.
  induction cs as [|c r IH]; intros i s; simpl; [apply asg_eq_refl|].
  eapply asg_eq_trans; [apply attach_asg | apply IH].
Qed.

Lemma reduce_db_asg : forall s, asg_eq s (reduce_db s).
Proof.
  intros s. unfold reduce_db. destruct (length (s_learned s) <? reduce_threshold); [apply asg_eq_refl|].
  eapply asg_eq_trans; [|apply attach_all_asg]. repeat split.
Qed.

(* observers that only read the assignment part *)
Lemma asg_eq_val_of : forall s s' v, asg_eq s s' -> val_of s' v = val_of s v.
Proof. intros s s' v (H & _). unfold val_of. rewrite H. reflexivity. Qed.

Lemma asg_eq_level_of : forall s s' v, asg_eq s s' -> level_of s' v = level_of s v.
Proof. intros s s' v (_ & H & _). unfold level_of. rewrite H. reflexivity. Qed.

Lemma asg_eq_reason_of : forall s s' v, asg_eq s s' -> reason_of s' v = reason_of s v.
Proof. intros s s' v (_ & _ & H & _). unfold reason_of. rewrite H. reflexivity. Qed.

Lemma asg_eq_lit_value : forall s s' l, asg_eq s s' -> lit_value s' l = lit_value s l.
Proof. intros s s' l H. unfold lit_value. rewrite (asg_eq_val_of _ _ _ H). reflexivity. Qed.

Lemma asg_eq_cur_level : forall s s', asg_eq s s' -> cur_level s' = cur_level s.
Proof. intros s s' (_ & _ & _ & _ & H & _). unfold cur_level. rewrite H. reflexivity. Qed.
