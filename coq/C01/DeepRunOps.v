(* C01 deep model - the bundle BI through the operations of the main loop: backjump, learned-clause attachment,
   blocking-clause attachment, decision.  (reduce_db is in DeepReduce.v) *)
From Coq Require Import List ZArith Bool Arith Lia Permutation.
Import ListNotations.
From SV Require Import C01.SatSpec C01.Machine C01.DeepCdcl C01.DeepBase C01.DeepTrail C01.DeepTrailProp C01.DeepAnalyze
  C01.DeepWatch C01.DeepReason C01.DeepReasonProp.
Close Scope Z_scope.
Open Scope nat_scope.

(* ---------------------------------------------------------------- unassign_to: who stays, who goes *)
Lemma lvl_at_le_length : forall lim p, lvl_at lim p <= length lim.
Proof. intros. unfold lvl_at. apply filter_length_le'. Qed.

Lemma app_split_unique : forall (tr1 : list nat) w tr2 p1 q, NoDup (tr1 ++ w :: tr2) -> tr1 ++ w :: tr2 = p1 ++ w :: q ->
  tr1 = p1 /\ tr2 = q.
Proof.
  induction tr1 as [|x t IH]; intros w tr2 p1 q ND E; destruct p1 as [|y p1]; simpl in *.
  - injection E as E. auto.
  - injection E as E1 E2. subst y. exfalso. inversion ND as [|? ? Hn _]; subst. apply Hn. apply in_or_app. right. left. reflexivity.
  - injection E as E1 E2. subst x. exfalso. inversion ND as [|? ? Hn _]; subst. apply Hn. apply in_or_app. right. left. reflexivity.
  - injection E as E1 E2. subst y. inversion ND as [|? ? _ ND']; subst. destruct (IH w tr2 p1 q ND' E2) as [Q1 Q2]. subst. auto.
Qed.

Lemma unassign_to_stays_or_goes : forall s level w, trail_inv s -> In w (s_trail s) -> level < cur_level s ->
  (level_of s w <= level -> In w (s_trail (unassign_to level s)) /\ val_of (unassign_to level s) w = val_of s w)
  /\ (level < level_of s w -> val_of (unassign_to level s) w = None).
Proof.
  intros s level w HT Hin Hlv. unfold cur_level in Hlv.
  destruct (unassign_to_spec s level HT) as [popped (E & EL & ER & ELim & EH & Hpop & Hkeep & Hlen & _)].
  pose proof (Hlen Hlv) as Hlen'. pose proof (ti_nodup s HT) as ND. rewrite E in ND.
  destruct (in_split _ _ Hin) as (tr1 & tr2 & Etr).
  pose proof (ti_levels s HT tr1 w tr2 Etr) as Hlw.
  destruct (in_dec Nat.eq_dec w popped) as [Ip|Ip].
  - (* popped: its position is >= lim[level], so its level is > level *)
    split; [|intros _; apply Hpop; exact Ip]. intros Hle. exfalso.
    (* position of w >= length of what is left *)
    assert (length (s_trail (unassign_to level s)) <= length tr2) as Hpos.
    { destruct (in_split _ _ Ip) as (p1 & p2 & Ep). rewrite Ep in E. rewrite Etr in E. rewrite <- app_assoc in E. simpl in E.
      assert (tr1 = p1 /\ tr2 = p2 ++ s_trail (unassign_to level s)) as [_ Q].
      { apply (app_split_unique tr1 w tr2 p1 _); [|exact E]. pose proof (ti_nodup s HT) as ND0. rewrite Etr in ND0. exact ND0. }
      rewrite Q, app_length. lia. }
    rewrite Hlen' in Hpos.
    assert (level < lvl_at (s_lim s) (length tr2)); [|lia].
    rewrite <- (firstn_skipn (S level) (s_lim s)). rewrite lvl_at_app.
    rewrite (lvl_at_all (firstn (S level) (s_lim s))).
    + rewrite firstn_length. lia.
    + intros l Hl. destruct (In_nth _ _ 0 Hl) as [j [Hj Hx]]. rewrite firstn_length in Hj. rewrite nth_firstn' in Hx by lia. subst l.
      pose proof (ti_sorted s HT j level). lia.
  - assert (In w (s_trail (unassign_to level s))) as Iw.
    { rewrite E in Hin. apply in_app_or in Hin. destruct Hin; [contradiction|assumption]. }
    split; [intros _; split; [exact Iw | apply Hkeep; exact Ip]|]. intros Hgt. exfalso.
    destruct (in_split _ _ Iw) as (t1 & t2 & Et).
    assert (s_trail s = (popped ++ t1) ++ w :: t2) as Etr' by (rewrite E, Et, app_assoc; reflexivity).
    pose proof (ti_levels s HT _ w t2 Etr') as Hlw'.
    assert (length t2 < nth level (s_lim s) 0) as Hpos by (rewrite <- Hlen', Et, app_length; simpl; lia).
    rewrite <- (lvl_at_firstn (s_lim s) level (length t2) (ti_sorted s HT) Hlv Hpos) in Hlw'.
    pose proof (lvl_at_le_length (firstn level (s_lim s)) (length t2)) as Q. rewrite firstn_length in Q. lia.
Qed.

Lemma val_of_unassign_to : forall s level w, trail_inv s ->
  val_of (unassign_to level s) w = None \/ val_of (unassign_to level s) w = val_of s w.
Proof.
  intros s level w HT. destruct (unassign_to_spec s level HT) as [popped (_ & _ & _ & _ & _ & Hpop & Hkeep & _)].
  destruct (in_dec Nat.eq_dec w popped) as [Ip|Ip]; [left; apply Hpop; exact Ip | right; apply Hkeep; exact Ip].
Qed.

Lemma db_range_db_eq : forall s s', db_eq s s' -> nv s' = nv s -> db_range s -> db_range s'.
Proof.
  intros s s' (E1 & E2 & E3 & E4 & E5 & E6) En [H1 H2 H3 H4 H5]. constructor; rewrite ?En, ?E1, ?E2, ?E5, ?E6; assumption.
Qed.

Lemma nz_db_eq : forall s s', db_eq s s' -> nz s -> nz s'.
Proof. intros s s' E H ci l Hl. rewrite (db_eq_get_clause _ _ _ E) in Hl. exact (H ci l Hl). Qed.

Lemma BI_unassign_to : forall s level, BI s -> BI (unassign_to level s).
Proof.
  intros s level H. pose proof (bi_ti s H) as [HT HD]. constructor.
  - split; [apply unassign_to_trail_inv; exact HT|].
    apply (db_range_db_eq s); [apply unassign_to_db_eq | apply unassign_to_nvals | exact HD].
  - apply (nz_db_eq s); [apply unassign_to_db_eq | exact (bi_nz s H)].
  - destruct (val_of_unassign_to s level 0 HT) as [Q|Q]; [exact Q | rewrite Q; exact (bi_v0 s H)].
  - eapply watch_le_db_eq; [apply unassign_to_db_eq | exact (bi_wle s H)].
  - eapply big_ok_db_eq; [apply unassign_to_db_eq | exact (bi_big s H)].
  - apply reason_inv_unassign_to; [exact HT | exact (bi_reason s H)].
  - apply decision_first_unassign_to; [exact HT | exact (bi_dec s H)].
  - apply head_inv_unassign_to; [exact HT | exact (bi_head s H)].
Qed.

(* ---------------------------------------------------------------- appending a clause to `learned` *)
Lemma n_clauses_append : forall c k s, n_clauses (append_learned c k s) = S (n_clauses s).
Proof. intros. unfold n_clauses, append_learned. simpl. rewrite app_length. simpl. lia. Qed.

Lemma get_clause_append_old : forall c k s r, r < n_clauses s -> get_clause (append_learned c k s) r = get_clause s r.
Proof.
  intros c k s r H. unfold n_clauses in H. unfold get_clause, append_learned. simpl.
  destruct (Nat.ltb_spec r (length (s_orig s))) as [L|L]; [reflexivity|]. apply app_nth1. lia.
Qed.

Lemma get_clause_append_new : forall c k s, get_clause (append_learned c k s) (n_clauses s) = c.
Proof.
  intros c k s. unfold n_clauses, get_clause, append_learned. simpl.
  destruct (Nat.ltb_spec (length (s_orig s) + length (s_learned s)) (length (s_orig s))) as [L|L]; [lia|].
  rewrite app_nth2 by lia. replace (length (s_orig s) + length (s_learned s) - length (s_orig s) - length (s_learned s)) with 0 by lia.
  reflexivity.
Qed.

Lemma get_clause_overflow : forall s r, n_clauses s <= r -> get_clause s r = [].
Proof.
  intros s r H. unfold n_clauses in H. unfold get_clause. destruct (Nat.ltb_spec r (length (s_orig s))); [lia|]. apply nth_overflow. lia.
Qed.

Lemma get_clause_append_cases : forall c k s r l, In l (get_clause (append_learned c k s) r) -> In l (get_clause s r) \/ (r = n_clauses s /\ In l c).
Proof.
  intros c k s r l H. destruct (Nat.lt_trichotomy r (n_clauses s)) as [L|[L|L]].
  - left. rewrite get_clause_append_old in H by exact L. exact H.
  - right. subst r. rewrite get_clause_append_new in H. auto.
  - rewrite get_clause_overflow in H; [contradiction|]. rewrite n_clauses_append. lia.
Qed.

Lemma BI_append_learned : forall c k s, BI s -> clause_in (nv s) c -> (forall l, In l c -> l <> 0%Z) -> BI (append_learned c k s).
Proof.
  intros c k s H Hc Hnz. pose proof (bi_ti s H) as [HT HD].
  assert (asg_eq s (append_learned c k s)) as EA by apply append_learned_asg. constructor.
  - split; [eapply trail_inv_asg_eq; eauto|]. destruct HD as [D1 D2 D3 D4 D5]. constructor; auto.
    unfold append_learned; simpl. apply Forall_app. split; [exact D3 | constructor; [exact Hc | constructor]].
  - intros ci l Hl. destruct (get_clause_append_cases _ _ _ _ _ Hl) as [Q|[_ Q]]; [exact (bi_nz s H ci l Q) | exact (Hnz l Q)].
  - exact (bi_v0 s H).
  - intros l ci. change (watch_list (append_learned c k s) l) with (watch_list s l). rewrite n_clauses_append.
    pose proof (bi_wle s H l ci) as Q. destruct (Nat.ltb_spec ci (n_clauses s)) as [L|L].
    + destruct (Nat.ltb_spec ci (S (n_clauses s))); [|lia]. rewrite get_clause_append_old by exact L. exact Q.
    + lia.
  - intros fl implied ci Hin. change (implications (append_learned c k s) fl) with (implications s fl) in Hin.
    destruct (bi_big s H fl implied ci Hin) as [Q1 Q2]. rewrite n_clauses_append. split; [lia|].
    rewrite get_clause_append_old by exact Q1. exact Q2.
  - intros tr1 v tr2 r Htr Hl Hr. destruct (bi_reason s H tr1 v tr2 r Htr Hl Hr) as [Q1 Q2]. rewrite n_clauses_append. split; [lia|].
    rewrite get_clause_append_old by exact Q1. exact Q2.
  - exact (bi_dec s H).
  - eapply head_inv_asg_eq; [exact EA | exact (bi_head s H)].
Qed.

(* ---------------------------------------------------------------- adding watches / implications for a fresh clause *)
Lemma cnt_add_watch_le : forall l' idx s l cj,
  cnt (watch_list (add_watch l' idx s) l) cj
  <= cnt (watch_list s l) cj + (if Z.eq_dec l l' then if Nat.eq_dec idx cj then 1 else 0 else 0).
Proof.
  intros l' idx s l cj. unfold add_watch. destruct (Z.eq_dec l l') as [E|E].
  - subst l'. rewrite watch_list_set_same. destruct (lvar l <? slot_len s l); [|rewrite cnt_nil; lia].
    rewrite cnt_app, cnt_one. lia.
  - rewrite watch_list_set_other by exact E. lia.
Qed.

Lemma BI_dbframe : forall s s', BI s -> asg_eq s s' -> n_clauses s' = n_clauses s ->
  (forall r, get_clause s' r = get_clause s r) -> db_range s' -> watch_le s' -> big_ok s' -> BI s'.
Proof.
  intros s s' H EA En Eg HD HW HB. apply (BI_frame s); auto.
  - intros r l Hl. rewrite Eg in Hl. exact Hl.
  - split; [eapply trail_inv_asg_eq; eauto; exact (proj1 (bi_ti s H)) | exact HD].
Qed.

(* both watches of a clause that is not watched yet *)
Lemma BI_add_watch2 : forall s idx a b r, BI s -> idx < n_clauses s -> get_clause s idx = a :: b :: r ->
  (forall l, cnt (watch_list s l) idx = 0) -> BI (add_watch b idx (add_watch a idx s)).
Proof.
  intros s idx a b r H Hidx Hc Hfresh. set (s2 := add_watch b idx (add_watch a idx s)).
  assert (asg_eq s s2) as EA by (unfold s2; eapply asg_eq_trans; apply add_watch_asg).
  apply (BI_dbframe s); auto.
  - unfold s2, add_watch. rewrite !n_clauses_set_watch_list. reflexivity.
  - intros r0. unfold s2, add_watch. rewrite !get_clause_set_watch_list. reflexivity.
  - unfold s2. apply db_range_add_watch, db_range_add_watch. exact (proj2 (bi_ti s H)).
  - intros l cj. unfold s2.
    assert (n_clauses (add_watch b idx (add_watch a idx s)) = n_clauses s) as En by (unfold add_watch; rewrite !n_clauses_set_watch_list; reflexivity).
    assert (get_clause (add_watch b idx (add_watch a idx s)) cj = get_clause s cj) as Eg by (unfold add_watch; rewrite !get_clause_set_watch_list; reflexivity).
    rewrite En, Eg. pose proof (cnt_add_watch_le b idx (add_watch a idx s) l cj) as Q1. pose proof (cnt_add_watch_le a idx s l cj) as Q2.
    pose proof (bi_wle s H l cj) as Q3. destruct (Nat.eq_dec idx cj) as [E|E].
    + subst cj. rewrite Hfresh in *. destruct (Nat.ltb_spec idx (n_clauses s)); [|lia]. rewrite Hc. unfold pos01.
      destruct (Z.eq_dec l b); destruct (Z.eq_dec l a); subst; rewrite ?Z.eqb_refl;
        repeat match goal with |- context [(?x =? ?y)%Z] => destruct (Z.eqb_spec x y) end; try congruence; lia.
    + destruct (Z.eq_dec l b); destruct (Z.eq_dec l a); lia.
  - unfold s2. apply big_ok_add_watch, big_ok_add_watch. exact (bi_big s H).
Qed.

Lemma In_nth_upd_app : forall {X} (L : list (list X)) i j e x,
  In x (nth j (upd L i (nth i L [] ++ [e])) []) -> In x (nth j L []) \/ (i = j /\ x = e).
Proof.
  intros X L i j e x H. destruct (Nat.eq_dec i j) as [E|E].
  - subst j. destruct (Nat.lt_ge_cases i (length L)) as [Q|Q].
    + rewrite nth_upd_eq in H by exact Q. apply in_app_or in H. destruct H as [H|[H|[]]]; auto.
    + rewrite nth_overflow in H by (rewrite upd_length; exact Q). contradiction.
  - rewrite nth_upd_neq in H by exact E. auto.
Qed.

Lemma implications_big_add1 : forall a b idx s fl p, In p (implications (big_add1 a b idx s) fl) ->
  In p (implications s fl) \/ (fl = a /\ p = (b, idx)).
Proof.
  intros a b idx s fl p H. unfold implications, big_add1 in *. destruct (lpos a) eqn:Ea; destruct (lpos fl) eqn:Ef; simpl in H; auto.
  - destruct (In_nth_upd_app _ _ _ _ _ H) as [Q|[Q1 Q2]]; [left; exact Q | right; split; [apply slot_eq; congruence | exact Q2]].
  - destruct (In_nth_upd_app _ _ _ _ _ H) as [Q|[Q1 Q2]]; [left; exact Q | right; split; [apply slot_eq; congruence | exact Q2]].
Qed.

Lemma get_clause_big_add1 : forall a b idx s r, get_clause (big_add1 a b idx s) r = get_clause s r.
Proof. intros. unfold big_add1, get_clause. destruct (lpos a); reflexivity. Qed.
Lemma n_clauses_big_add1 : forall a b idx s, n_clauses (big_add1 a b idx s) = n_clauses s.
Proof. intros. unfold big_add1, n_clauses. destruct (lpos a); reflexivity. Qed.
Lemma watch_list_big_add1 : forall a b idx s l, watch_list (big_add1 a b idx s) l = watch_list s l.
Proof. intros. unfold big_add1, watch_list. destruct (lpos a); reflexivity. Qed.
Lemma nv_big_add1 : forall a b idx s, nv (big_add1 a b idx s) = nv s.
Proof. intros. unfold big_add1, nv. destruct (lpos a); reflexivity. Qed.

Lemma db_range_big_add1 : forall a b idx s, db_range s -> lit_in (nv s) b -> db_range (big_add1 a b idx s).
Proof.
  intros a b idx s [D1 D2 D3 D4 D5] Hb. unfold big_add1. destruct (lpos a); constructor; unfold nv in *; simpl; auto;
    (apply Forall_upd; [assumption|]; apply Forall_app; split; [apply Forall_nth_default; [assumption | constructor] | constructor; [exact Hb | constructor]]).
Qed.

Lemma BI_big_add : forall s idx a b, BI s -> idx < n_clauses s -> get_clause s idx = [a; b] -> BI (big_add a b idx s).
Proof.
  intros s idx a b H Hidx Hc. unfold big_add. set (s1 := big_add1 a b idx s). set (s2 := big_add1 b a idx s1).
  assert (asg_eq s s2) as EA by (unfold s2, s1; eapply asg_eq_trans; apply big_add1_asg).
  assert (clause_in (nv s) [a; b]) as Hin by (rewrite <- Hc; apply get_clause_in; exact (proj2 (bi_ti s H))).
  inversion Hin as [|? ? Ha Hin']; subst. inversion Hin' as [|? ? Hb _]; subst.
  apply (BI_dbframe s); auto.
  - unfold s2, s1. rewrite !n_clauses_big_add1. reflexivity.
  - intros r. unfold s2, s1. rewrite !get_clause_big_add1. reflexivity.
  - unfold s2. apply db_range_big_add1; [unfold s1; apply db_range_big_add1; [exact (proj2 (bi_ti s H)) | exact Hb]|].
    unfold s1. rewrite nv_big_add1. exact Ha.
  - intros l cj. unfold s2, s1. rewrite !watch_list_big_add1, !n_clauses_big_add1, !get_clause_big_add1. exact (bi_wle s H l cj).
  - intros fl implied ci Hi. unfold s2, s1 in *. rewrite !n_clauses_big_add1, !get_clause_big_add1.
    destruct (implications_big_add1 _ _ _ _ _ _ Hi) as [Q|[Q1 Q2]].
    + destruct (implications_big_add1 _ _ _ _ _ _ Q) as [Q'|[Q1 Q2]].
      * exact (bi_big s H fl implied ci Q').
      * injection Q2 as Q2 Q3. subst. split; [exact Hidx | left; exact Hc].
    + injection Q2 as Q2 Q3. subst. split; [exact Hidx | right; exact Hc].
Qed.

(* learned.append(c); attach *)
Lemma BI_append_attach : forall c k s, BI s -> clause_in (nv s) c -> (forall l, In l c -> l <> 0%Z) ->
  BI (attach c (n_clauses s) (append_learned c k s)).
Proof.
  intros c k s H Hc Hnz. pose proof (BI_append_learned c k s H Hc Hnz) as H1.
  assert (n_clauses s < n_clauses (append_learned c k s)) as Hidx by (rewrite n_clauses_append; lia).
  pose proof (get_clause_append_new c k s) as Hg.
  unfold attach. destruct c as [|a [|b [|x r]]]; try exact H1.
  - apply BI_big_add; assumption.
  - apply (BI_add_watch2 _ _ a b (x :: r)); auto.
    intros l. change (watch_list (append_learned (a :: b :: x :: r) k s) l) with (watch_list s l).
    pose proof (bi_wle s H l (n_clauses s)) as Q. destruct (Nat.ltb_spec (n_clauses s) (n_clauses s)); lia.
Qed.
