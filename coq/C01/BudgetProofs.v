(* C02 (stretch) - budget counters are monotone; MAX_ITER is accepted only when a budget is met. *)
From Coq Require Import List ZArith Bool Lia.
Import ListNotations.
From SV Require Import C01.SatSpec C01.Machine C01.Luby C01.Budget.
Open Scope Z_scope.

Definition b_le (b b' : bstate) : Prop :=
  b_learns b <= b_learns b' /\ b_restarts b <= b_restarts b' /\ b_idx b <= b_idx b'.

(* hit means: at a restart point with the restart budget used up *)
Definition b_inv (mr : Z) (b : bstate) : Prop :=
  b_hit b = true -> mr <= b_restarts b /\ b_next b <= b_csr b.

Lemma b_step_le : forall lf mc mr b e b', b_step lf mc mr b e = Some b' -> b_le b b'.
Proof.
  intros lf mc mr b e b' H. unfold b_le. destruct e as [n pu un asm | c bl | m | st]; simpl in H.
  - destruct (b_hit b); [discriminate|]. injection H as H; subst; lia.
  - destruct bl.
    + destruct (b_hit b); [discriminate|]. injection H as H; subst; lia.
    + destruct (b_hit b); [discriminate|].
      destruct (b_next b <=? b_csr b + 1).
      * destruct (mr <=? b_restarts b).
        -- injection H as H; subst; simpl; lia.
        -- destruct (luby_val (b_idx b + 1)); [|discriminate]. injection H as H; subst; simpl; lia.
      * injection H as H; subst; simpl; lia.
  - destruct (b_hit b); [discriminate|]. injection H as H; subst; lia.
  - destruct st.
    + destruct (b_hit b); [discriminate|]. injection H as H; subst; lia.
    + destruct (b_hit b); [discriminate|]. injection H as H; subst; lia.
    + destruct (b_hit b || (mc <=? b_learns b + 1)); [|discriminate]. injection H as H; subst; lia.
Qed.

Lemma b_step_inv : forall lf mc mr b e b', b_inv mr b -> b_step lf mc mr b e = Some b' -> b_inv mr b'.
Proof.
  intros lf mc mr b e b' HI H. unfold b_inv in *. destruct e as [n pu un asm | c bl | m | st]; simpl in H.
  - destruct (b_hit b) eqn:Eh; [discriminate|]. injection H as H; subst. rewrite Eh. discriminate.
  - destruct bl.
    + destruct (b_hit b) eqn:Eh; [discriminate|]. injection H as H; subst. rewrite Eh. discriminate.
    + destruct (b_hit b) eqn:Eh; [discriminate|].
      destruct (b_next b <=? b_csr b + 1) eqn:E1.
      * destruct (mr <=? b_restarts b) eqn:E2.
        -- injection H as H; subst; simpl. intros _. apply Z.leb_le in E1, E2. lia.
        -- destruct (luby_val (b_idx b + 1)); [|discriminate]. injection H as H; subst; simpl. discriminate.
      * injection H as H; subst; simpl. discriminate.
  - destruct (b_hit b) eqn:Eh; [discriminate|]. injection H as H; subst. rewrite Eh. discriminate.
  - destruct st.
    + destruct (b_hit b) eqn:Eh; [discriminate|]. injection H as H; subst. rewrite Eh. discriminate.
    + destruct (b_hit b) eqn:Eh; [discriminate|]. injection H as H; subst. rewrite Eh. discriminate.
    + destruct (b_hit b || (mc <=? b_learns b + 1)); [|discriminate]. injection H as H; subst. exact HI.
Qed.

Lemma b_le_refl : forall b, b_le b b.
Proof. intros b. unfold b_le. lia. Qed.

Lemma b_le_trans : forall a b c, b_le a b -> b_le b c -> b_le a c.
Proof. unfold b_le. intros a b c H1 H2. lia. Qed.

(* counters never decrease along an accepted trace: every prefix state is below the final state *)
Theorem budget_monotone : forall lf mc mr evs1 evs2 b0 b1 b2,
  b_run_from lf mc mr b0 evs1 = Some b1 -> b_run_from lf mc mr b1 evs2 = Some b2 ->
  b_run_from lf mc mr b0 (evs1 ++ evs2) = Some b2 /\ b_le b0 b1 /\ b_le b1 b2.
Proof.
  intros lf mc mr evs1. induction evs1 as [|e evs1 IH]; intros evs2 b0 b1 b2 H1 H2; simpl in *.
  - injection H1 as H1. subst b1. split; [exact H2|]. split; [apply b_le_refl|].
    revert b0 b2 H2. induction evs2 as [|e evs2 IH2]; intros b0 b2 H2; simpl in H2.
    + injection H2 as H2. subst. apply b_le_refl.
    + destruct (b_step lf mc mr b0 e) as [b'|] eqn:Es; [|discriminate].
      apply (b_le_trans _ b'); [exact (b_step_le _ _ _ _ _ _ Es) | apply IH2; exact H2].
  - destruct (b_step lf mc mr b0 e) as [b'|] eqn:Es; [|discriminate].
    destruct (IH evs2 b' b1 b2 H1 H2) as [Hr [Hl1 Hl2]]. split; [exact Hr|]. split; [|exact Hl2].
    apply (b_le_trans _ b'); [exact (b_step_le _ _ _ _ _ _ Es) | exact Hl1].
Qed.

Lemma b_run_from_inv : forall lf mc mr evs b b', b_inv mr b -> b_run_from lf mc mr b evs = Some b' -> b_inv mr b'.
Proof.
  intros lf mc mr evs. induction evs as [|e evs IH]; intros b b' HI H; simpl in H.
  - injection H as H. subst. exact HI.
  - destruct (b_step lf mc mr b e) as [b1|] eqn:Es; [|discriminate].
    apply (IH b1 b'); [exact (b_step_inv _ _ _ _ _ _ HI Es) | exact H].
Qed.

(* a MAX_ITER verdict is accepted only when max_conflicts <= L + 1 (L analysed conflicts so far), or the
   run is at a restart point (conflicts_since_restart >= next_restart) with restarts >= max_restarts *)
Theorem budget_partial : forall lf mc mr evs b,
  b_run lf mc mr (evs ++ [EVerdict MAX_ITER]) = Some b ->
  mc <= b_learns b + 1 \/ (mr <= b_restarts b /\ b_next b <= b_csr b).
Proof.
  intros lf mc mr evs b H. unfold b_run in H. destruct (b_init lf) as [b0|] eqn:E0; [|discriminate].
  assert (b_inv mr b0) as HI0.
  { unfold b_init in E0. destruct (luby_val 1); [|discriminate]. injection E0 as E0. subst b0.
    unfold b_inv. simpl. discriminate. }
  assert (forall evs b0 b, b_inv mr b0 -> b_run_from lf mc mr b0 (evs ++ [EVerdict MAX_ITER]) = Some b ->
          mc <= b_learns b + 1 \/ (mr <= b_restarts b /\ b_next b <= b_csr b)) as Hgen.
  { clear. intros evs. induction evs as [|e evs IH]; intros b0 b HI H; simpl in H.
    - destruct (b_hit b0 || (mc <=? b_learns b0 + 1)) eqn:E; [|discriminate]. injection H as H. subst b.
      apply orb_prop in E. destruct E as [E | E].
      + right. exact (HI E).
      + left. apply Z.leb_le in E. exact E.
    - destruct (b_step lf mc mr b0 e) as [b1|] eqn:Es; [|discriminate].
      apply (IH b1 b); [exact (b_step_inv _ _ _ _ _ _ HI Es) | exact H]. }
  exact (Hgen evs b0 b HI0 H).
Qed.
