(* C02 - reverse unit propagation checker (definitions only).
   rup F c = true  iff  unit propagation on F ∪ {¬l | l ∈ c} reaches a conflict within
   (number of clauses + 1) rounds; each round scans all clauses once. *)
From Coq Require Import List ZArith Bool.
Import ListNotations.
From SV Require Import C01.SatSpec.
Open Scope Z_scope.

(* s = literals currently taken to be true.  l is false under s iff its negation is in s
   (0 has no negation and is never considered false) *)
Definition lit_false (s : list Z) (l : Z) : bool := negb (l =? 0) && mem (- l) s.

Inductive cstat := CSat | CConflict | CUnit (u : Z) | COpen.

Definition clause_status (s : list Z) (c : clause) : cstat :=
  if existsb (fun l => mem l s) c then CSat
  else match filter (fun l => negb (lit_false s l)) c with
       | [] => CConflict
       | u :: tl => if forallb (Z.eqb u) tl then CUnit u else COpen
       end.

(* one round; None = conflict found; the boolean says whether s grew *)
Fixpoint scan (F : cnf) (s : list Z) (changed : bool) : option (list Z * bool) :=
  match F with
  | [] => Some (s, changed)
  | c :: F' =>
      match clause_status s c with
      | CConflict => None
      | CUnit u => scan F' (u :: s) true
      | _ => scan F' s changed
      end
  end.

Fixpoint up (fuel : nat) (F : cnf) (s : list Z) : bool :=
  match fuel with
  | O => false
  | S f =>
      match scan F s false with
      | None => true
      | Some (s', true) => up f F s'
      | Some (_, false) => false
      end
  end.

Definition rup (F : cnf) (c : clause) : bool :=
  if mem 0 c then false else up (S (length F)) F (map Z.opp c).
