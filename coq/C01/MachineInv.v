(* C01 / C02 - invariant of the guarded machine, preserved by every accepted event. *)
From Coq Require Import List ZArith Bool Lia.
Import ListNotations.
From SV Require Import C01.SatSpec C01.Rup C01.RupProofs C01.Machine C01.SatLemmas.
Open Scope Z_scope.

(* every accepted non-blocking clause is entailed by N, the assumption units, the pure units and
   the blocking clauses accepted BEFORE it (d is newest first, so d' is "so far") *)
Fixpoint db_entailed (B : cnf) (d : list (clause * bool)) : Prop :=
  match d with
  | [] => True
  | (c, b) :: d' => (b = false -> entails (B ++ blockings d') c) /\ db_entailed B d'
  end.

Fixpoint distinct (ss : list model) : Prop :=
  match ss with
  | [] => True
  | m :: r => (forall m', In m' r -> differ m m') /\ distinct r
  end.

Definition sol_ok (N : cnf) (A : list lit) (m : model) : Prop :=
  wf_model (max_var N) m = true /\ consistent_b m = true /\ models (asg_of m) N /\ agrees (asg_of m) A.

Record Inv (chk : bool) (N : cnf) (A : list lit) (s : state) : Prop := mkInv {
  inv_sols : forall m, In m (sols s) -> sol_ok N A m;
  inv_distinct : distinct (sols s);
  inv_db : chk = true -> db_entailed (base N A (pures s)) (db s);
  inv_pure : pure_okb N A (pures s) = true;
  inv_block_from : forall c, In c (blockings (db s)) -> exists m, In m (sols s) /\ c = map Z.opp m;
  inv_block_all : forall m, In m (if pending s then tl (sols s) else sols s) ->
                  In (map Z.opp m) (blockings (db s));
  inv_pending : pending s = true -> sols s <> [];
  inv_enum_nopure : pending s = false -> sols s <> [] -> pures s = [];
  inv_verdict : match verdict s with
                | Some RInfeasible => (chk = true -> unsat_under N A) /\ sols s = []
                | Some RExhausted => sols s <> [] /\ pending s = false
                                     /\ (chk = true -> forall m, ~ models m (premises N A s))
                | Some RLimit => sols s <> []
                | _ => True
                end
}.

Lemma blockings_cons_false : forall c d, blockings ((c, false) :: d) = blockings d.
Proof. reflexivity. Qed.
Lemma blockings_cons_true : forall c d, blockings ((c, true) :: d) = c :: blockings d.
Proof. reflexivity. Qed.

(* a model of the base and of the blocking clauses is a model of every accepted clause *)
Lemma db_models : forall B d m, db_entailed B d -> models m B -> models m (blockings d) ->
  models m (map fst d).
Proof.
  intros B d m. induction d as [|[c b] d IH]; intros Hd HB Hbl; [apply models_nil|].
  simpl in Hd. destruct Hd as [Hc Hd]. simpl. apply models_cons.
  destruct b.
  - rewrite blockings_cons_true in Hbl. apply models_cons in Hbl. destruct Hbl as [Hcb Hbl].
    split; [exact Hcb | apply IH; assumption].
  - rewrite blockings_cons_false in Hbl. split; [|apply IH; assumption].
    apply (Hc eq_refl). apply models_app. split; assumption.
Qed.

Lemma premises_models : forall N A s m, db_entailed (base N A (pures s)) (db s) ->
  models m (base N A (pures s)) -> models m (blockings (db s)) -> models m (premises N A s).
Proof.
  intros N A s m Hd HB Hbl. unfold premises. unfold base in HB.
  apply models_app in HB. destruct HB as [HA HB]. apply models_app in HB. destruct HB as [HP HN].
  apply models_app. split; [exact HA|]. apply models_app. split; [exact HP|].
  apply models_app. split; [|exact HN].
  apply (db_models (base N A (pures s)) (db s) m Hd); [|exact Hbl].
  unfold base. apply models_app. split; [exact HA|]. apply models_app. split; assumption.
Qed.

Lemma init_Inv : forall chk N A, Inv chk N A init_state.
Proof.
  intros chk N A. constructor; simpl; try tauto; try (intros ? []); try discriminate.
Qed.

Lemma andb5 : forall a b, a && b = true -> a = true /\ b = true.
Proof. intros a b H. apply andb_prop. exact H. Qed.

Lemma step_Inv : forall chk N A limit s e s', Inv chk N A s -> step chk N A limit s e = Some s' -> Inv chk N A s'.
Proof.
  intros chk N A limit s e s' HI Hstep. unfold step in Hstep.
  destruct (verdict s) eqn:Ev; [discriminate|].
  destruct HI as [Hsols Hdist Hdb Hpure Hbf Hba Hpend Hnopure Hverd].
  destruct e as [n pu un asm | c b | m | st].
  - (* EInit *)
    match type of Hstep with (if ?g then _ else _) = _ => destruct g eqn:Eg; [|discriminate] end.
    injection Hstep as Hs'. subst s'.
    apply andb5 in Eg. destruct Eg as [_ Hpu].
    constructor; simpl; try exact Hpu; try tauto; try (intros ? []); try discriminate.
  - destruct b.
    + (* blocking clause *)
      destruct (pending s) eqn:Ep; [|discriminate].
      destruct (sols s) as [|m rest] eqn:Es; [discriminate|].
      match type of Hstep with (if ?g then _ else _) = _ => destruct g eqn:Eg; [|discriminate] end.
      injection Hstep as Hs'. subst s'.
      apply andb5 in Eg. destruct Eg as [Eg Hnilp]. apply andb5 in Eg. destruct Eg as [Hc _]. apply zlist_eqb_eq in Hc. subst c.
      assert (pures s = []) as Hp0 by (destruct (pures s); [reflexivity | discriminate]).
      constructor; simpl.
      * exact Hsols.
      * exact Hdist.
      * intros Hchk. split; [discriminate | exact (Hdb Hchk)].
      * exact Hpure.
      * intros c [Heq | Hin].
        -- exists m. split; [left; reflexivity | symmetry; exact Heq].
        -- destruct (Hbf c Hin) as [m0 [H1 H2]]. exists m0. split; assumption.
      * intros m0 [Heq | Hin]; [left; subst; reflexivity | right; apply Hba; exact Hin].
      * discriminate.
      * intros _ _. exact Hp0.
      * exact I.
    + (* learned clause *)
      match type of Hstep with (if ?g then _ else _) = _ => destruct g eqn:Eg; [|discriminate] end.
      injection Hstep as Hs'. subst s'.
      apply andb5 in Eg. destruct Eg as [Eg Hrup]. apply andb5 in Eg. destruct Eg as [_ Hnp].
      apply negb_true_iff in Hnp.
      constructor; simpl.
      * exact Hsols.
      * exact Hdist.
      * intros Hchk. rewrite Hchk in Hrup. split; [|exact (Hdb Hchk)]. intros _ m Hm.
        apply (rup_sound _ _ Hrup). apply models_app in Hm. destruct Hm as [HB Hbl].
        apply premises_models; [exact (Hdb Hchk) | assumption | assumption].
      * exact Hpure.
      * exact Hbf.
      * rewrite Hnp in Hba. exact Hba.
      * discriminate.
      * intros _. exact (Hnopure Hnp).
      * exact I.
  - (* ESolution *)
    match type of Hstep with (if ?g then _ else _) = _ => destruct g eqn:Eg; [|discriminate] end.
    injection Hstep as Hs'. subst s'.
    apply andb5 in Eg. destruct Eg as [Eg Hblk]. apply andb5 in Eg. destruct Eg as [Eg HA].
    apply andb5 in Eg. destruct Eg as [Eg HN]. apply andb5 in Eg. destruct Eg as [Eg Hcons].
    apply andb5 in Eg. destruct Eg as [Eg Hwf]. apply andb5 in Eg. destruct Eg as [_ Hnp].
    apply negb_true_iff in Hnp. rewrite Hnp in Hba.
    constructor; simpl.
    + intros m0 [Heq | Hin].
      * subst m0. repeat split; try assumption; [apply models_b_sound | apply agrees_b_sound]; assumption.
      * apply Hsols. exact Hin.
    + split; [|exact Hdist]. intros m' Hin.
      apply blocking_differ; [exact (proj1 (proj2 (Hsols m' Hin)))|].
      apply (models_b_sound _ _ Hblk). apply Hba. exact Hin.
    + exact Hdb.
    + exact Hpure.
    + intros c Hin. destruct (Hbf c Hin) as [m0 [H1 H2]]. exists m0. split; [right; exact H1 | exact H2].
    + exact Hba.
    + discriminate.
    + discriminate.
    + exact I.
  - (* EVerdict *)
    destruct st.
    + (* OPTIMAL *)
      destruct (pending s) eqn:Ep.
      * match type of Hstep with (if ?g then _ else _) = _ => destruct g eqn:Eg; [|discriminate] end.
        injection Hstep as Hs'. subst s'.
        constructor; simpl; try assumption; try (rewrite Ep; assumption).
        exact (Hpend eq_refl).
      * match type of Hstep with (if ?g then _ else _) = _ => destruct g eqn:Eg; [|discriminate] end.
        injection Hstep as Hs'. subst s'.
        apply andb5 in Eg. destruct Eg as [Eg Hrup]. apply andb5 in Eg. destruct Eg as [_ Hnn].
        constructor; simpl; try assumption.
        split; [|split; [reflexivity|]].
        -- destruct (sols s); [discriminate | discriminate].
        -- intros Hchk m Hm. rewrite Hchk in Hrup. exact (rup_empty_unsat _ Hrup m Hm).
    + (* INFEASIBLE *)
      match type of Hstep with (if ?g then _ else _) = _ => destruct g eqn:Eg; [|discriminate] end.
      injection Hstep as Hs'. subst s'.
      apply andb5 in Eg. destruct Eg as [Eg Hrup]. apply andb5 in Eg. destruct Eg as [Hnp Hnil].
      apply negb_true_iff in Hnp. rewrite Hnp in Hba.
      assert (sols s = []) as Hs0 by (destruct (sols s); [reflexivity | discriminate]).
      constructor; simpl; try assumption.
      * discriminate.
      * intros _ Hne. exact (Hnopure Hnp Hne).
      * split; [|exact Hs0].
        intros Hchk [m [HmN HmA]]. rewrite Hchk in Hrup.
        destruct (pure_ok N A (pures s) m Hpure HmN HmA) as [HfN [HfA HfP]].
        assert (blockings (db s) = []) as Hb0.
        { destruct (blockings (db s)) as [|c0 r] eqn:Eb; [reflexivity|].
          destruct (Hbf c0 (or_introl eq_refl)) as [m0 [Hin _]]. rewrite Hs0 in Hin. destruct Hin. }
        apply (rup_empty_unsat _ Hrup (force (pures s) m)).
        apply premises_models; [exact (Hdb Hchk) | | rewrite Hb0; apply models_nil].
        unfold base. apply models_app. split; [apply models_units; exact HfA|].
        apply models_app. split; [apply models_units; exact HfP | exact HfN].
    + (* MAX_ITER *)
      injection Hstep as Hs'. subst s'.
      constructor; simpl; try assumption. exact I.
Qed.

Lemma run_from_Inv : forall chk N A limit evs s s', Inv chk N A s -> run_from chk N A limit s evs = Some s' -> Inv chk N A s'.
Proof.
  intros chk N A limit evs. induction evs as [|e evs IH]; intros s s' HI Hrun; simpl in Hrun.
  - injection Hrun as Heq. subst. exact HI.
  - destruct (step chk N A limit s e) as [s1|] eqn:Es; [|discriminate].
    apply (IH s1 s'); [|exact Hrun]. exact (step_Inv chk N A limit s e s1 HI Es).
Qed.

Theorem run_Inv : forall chk N A limit evs s, run chk N A limit evs = Some s -> Inv chk N A s.
Proof.
  intros chk N A limit evs s H. exact (run_from_Inv chk N A limit evs init_state s (init_Inv chk N A) H).
Qed.
