(* C01 deep model - (d) through reduce_db(): the rebuilt watch / implication lists cover every kept clause, J is untouched. *)
From Coq Require Import List ZArith Bool Arith Lia Permutation.
Import ListNotations.
From SV Require Import C01.SatSpec C01.Machine C01.DeepCdcl C01.DeepBase C01.DeepTrail C01.DeepTrailProp C01.DeepAnalyze
  C01.DeepWatch C01.DeepReason C01.DeepReasonProp C01.DeepRunOps C01.DeepReduce C01.DeepRun C01.DeepJ C01.DeepJOps C01.DeepJProp
  C01.DeepJAttach.
Close Scope Z_scope.
Open Scope nat_scope.

(* ---------------------------------------------------------------- attach_all *)
Lemma attach_all_frame : forall cs idx s,
  n_clauses (attach_all cs idx s) = n_clauses s /\ (forall r, get_clause (attach_all cs idx s) r = get_clause s r)
  /\ asg_eq s (attach_all cs idx s)
  /\ (forall l cj, cnt (watch_list s l) cj <= cnt (watch_list (attach_all cs idx s) l) cj)
  /\ (forall fl p, In p (implications s fl) -> In p (implications (attach_all cs idx s) fl))
  /\ (arr_len s -> arr_len (attach_all cs idx s)).
Proof.
  induction cs as [|c cs IH]; intros idx s; simpl.
  - split; [reflexivity|]. split; [reflexivity|]. split; [apply asg_eq_refl|]. split; [intros; lia|]. split; auto.
  - destruct (attach_frame c idx s) as (En & Eg & _). destruct (attach_mono c idx s) as (Mw & Mi & EA).
    destruct (IH (S idx) (attach c idx s)) as (Q1 & Q2 & Q3 & Q4 & Q5 & Q6).
    split; [congruence|]. split; [intros r; rewrite Q2; apply Eg|]. split; [eapply asg_eq_trans; eauto|].
    split; [intros l cj; pose proof (Mw l cj); pose proof (Q4 l cj); lia|]. split; [intros fl p Hp; apply Q5, Mi; exact Hp|].
    intros HA. apply Q6. apply arr_len_attach. exact HA.
Qed.

Lemma covered_asg_db : forall s s' ci, asg_eq s s' -> get_clause s' ci = get_clause s ci ->
  (forall l, cnt (watch_list s l) ci <= cnt (watch_list s' l) ci) ->
  (forall fl p, In p (implications s fl) -> In p (implications s' fl)) -> covered s ci -> covered s' ci.
Proof.
  intros s s' ci EA Eg Hw Hi Q. apply (covered_mono s s'); auto. intros l Q1 Q2.
  rewrite (asg_eq_lit_value _ _ _ EA), (asg_eq_level_of _ _ _ EA). auto.
Qed.

Lemma covered_asg_idx : forall s s' ci, asg_eq s s' -> get_clause s' ci = get_clause s ci ->
  (forall l, cnt (watch_list s l) ci <= cnt (watch_list s' l) ci) ->
  (forall fl b, In (b, ci) (implications s fl) -> In (b, ci) (implications s' fl)) -> covered s ci -> covered s' ci.
Proof.
  intros s s' ci EA Eg Hw Hi Q. unfold covered in *. rewrite Eg.
  destruct (get_clause s ci) as [|a [|b r]]; [exact Q | rewrite (asg_eq_lit_value _ _ _ EA), (asg_eq_level_of _ _ _ EA); exact Q|].
  destruct Q as [Q|[Q1 [Q2 Q3]]]; [left | right].
  - intros l. pose proof (Q l). pose proof (Hw l). lia.
  - split; [exact Q1|]. split; apply Hi; assumption.
Qed.

Lemma covered_attach_all : forall cs idx s k, arr_len s -> k < length cs -> 2 <= length (nth k cs []) ->
  clause_in (nv s) (nth k cs []) -> (forall j, j < length cs -> get_clause s (idx + j) = nth j cs []) ->
  covered (attach_all cs idx s) (idx + k).
Proof.
  induction cs as [|c cs IH]; intros idx s k HA Hk Hlen Hin Hget; simpl in Hk; [lia|].
  simpl attach_all. destruct (attach_frame c idx s) as (En & Eg & _). destruct (attach_all_frame cs (S idx) (attach c idx s)) as (Q1 & Q2 & Q3 & Q4 & Q5 & Q6).
  destruct k as [|k].
  - simpl in Hlen, Hin. rewrite Nat.add_0_r.
    assert (get_clause s idx = c) as Hc by (rewrite <- (Nat.add_0_r idx) at 1; apply (Hget 0); simpl; lia).
    apply (covered_asg_db (attach c idx s)); auto.
    apply covered_attach; auto.
  - replace (idx + S k) with (S idx + k) by lia. simpl in Hlen, Hin. apply IH; auto.
    + apply arr_len_attach. exact HA.
    + lia.
    + unfold nv in *. destruct (attach_asg c idx s) as (Qv & _). rewrite Qv. exact Hin.
    + intros j Hj. rewrite Eg. replace (S idx + j) with (idx + S j) by lia. apply (Hget (S j)). simpl. lia.
Qed.

(* ---------------------------------------------------------------- reduce_db *)
Lemma cnt_filter_keep : forall (f : nat -> bool) ws x, f x = true -> cnt (filter f ws) x = cnt ws x.
Proof.
  intros f ws x Hf. induction ws as [|y ws IH]; simpl; [reflexivity|]. unfold cnt in *. destruct (f y) eqn:E; simpl.
  - destruct (Nat.eq_dec y x); rewrite IH; reflexivity.
  - destruct (Nat.eq_dec y x); [subst; congruence | exact IH].
Qed.

Lemma length_filter_tail : forall {X} (f : X -> bool) L, length (filter_tail f L) = length L.
Proof. intros X f [|h t]; simpl; [reflexivity|]. rewrite map_length. reflexivity. Qed.

Theorem reduce_db_PJ : forall s, BI s -> arr_len s -> cov_all s -> J s -> cur_level s = 0 ->
  arr_len (reduce_db s) /\ cov_all (reduce_db s) /\ J (reduce_db s).
Proof.
  intros s H HA HC HJ Hc0. unfold reduce_db. destruct (length (s_learned s) <? reduce_threshold); [auto|].
  set (kept := keep_loop _ 0 _).
  assert (forall c, In c (map snd kept) -> In c (s_learned s)) as Hk by (intros c Hc; apply kept_in_learned; exact Hc).
  set (no := length (s_orig s)).
  set (s1 := mkSt (s_vals s) (s_levels s) (s_reasons s) (s_trail s) (s_lim s) (s_head s) (s_phase s) (s_props s) (s_confl s)
                  (s_orig s) (map snd kept) (map fst kept)
                  (filter_tail (fun c => c <? no) (s_wpos s)) (filter_tail (fun c => c <? no) (s_wneg s))
                  (map (filter (fun p : Z * nat => snd p <? no)) (s_bpos s)) (map (filter (fun p : Z * nat => snd p <? no)) (s_bneg s))).
  assert (asg_eq s s1) as EA by (repeat split).
  destruct (attach_all_frame (map snd kept) no s1) as (Q1 & Q2 & Q3 & Q4 & Q5 & Q6).
  assert (arr_len s1) as HA1.
  { destruct HA as (A1 & A2 & A3 & A4). unfold arr_len, nv, s1; simpl. rewrite !length_filter_tail, !map_length. auto. }
  assert (forall r, r < no -> get_clause s1 r = get_clause s r) as Gold.
  { intros r Hr. unfold get_clause, s1. simpl. fold no. destruct (Nat.ltb_spec r no); [reflexivity | lia]. }
  assert (forall r, get_clause s1 r = [] \/ exists r', r' < n_clauses s /\ get_clause s r' = get_clause s1 r) as Gsub.
  { intros r. destruct (get_clause_in_or_nil s1 r) as [Q|Q]; [left; exact Q|]. right.
    assert (In (get_clause s1 r) (db s)) as Q'.
    { unfold db, s1 in Q. simpl in Q. apply in_app_or in Q. unfold db. apply in_or_app. destruct Q as [Q|Q]; [left; exact Q | right; apply Hk; exact Q]. }
    destruct (in_db_get_clause s _ Q') as [r' [Hr' E]]. exists r'. auto. }
  pose proof (bi_ti s H) as [HT HD].
  split; [apply Q6; exact HA1|]. split.
  - (* coverage *)
    intros cj Hcj. rewrite Q1 in Hcj.
    destruct (Nat.lt_ge_cases cj no) as [L|L].
    + assert (cj < n_clauses s) as L2 by (unfold n_clauses; fold no; lia).
      apply (covered_asg_db s1 _ cj Q3 (Q2 cj) (fun l => Q4 l cj) Q5).
      apply (covered_asg_idx s s1 cj EA (Gold cj L)); [| |exact (HC cj L2)].
      * intros l. destruct (Nat.eq_dec (lvar l) 0) as [E0|E0].
        -- assert (watch_list s1 l = watch_list s l) as Q.
           { unfold watch_list, s1. simpl. destruct (lpos l); rewrite nth_filter_tail, E0; reflexivity. }
           rewrite Q. lia.
        -- assert (watch_list s1 l = filter (fun c => c <? no) (watch_list s l)) as Q.
           { unfold watch_list, s1. simpl. destruct (lpos l); rewrite nth_filter_tail; destruct (Nat.eqb_spec (lvar l) 0); try contradiction; reflexivity. }
           rewrite Q. rewrite cnt_filter_keep; [lia|]. apply Nat.ltb_lt. exact L.
      * intros fl b Hp. unfold implications, s1 in *. simpl.
        destruct (lpos fl); rewrite nth_map_filter; apply filter_In; (split; [exact Hp|]); simpl; apply Nat.ltb_lt; exact L.
    + (* a kept learned clause *)
      set (k := cj - no). assert (cj = no + k) as Ecj by (unfold k; lia).
      assert (k < length (map snd kept)) as Hk2.
      { unfold n_clauses, s1 in Hcj. simpl in Hcj. fold no in Hcj. lia. }
      assert (get_clause s1 cj = nth k (map snd kept) []) as Eg1.
      { unfold get_clause, s1. simpl. fold no. destruct (Nat.ltb_spec cj no); [lia|]. fold k. reflexivity. }
      assert (In (nth k (map snd kept) []) (s_learned s)) as Hin by (apply Hk; apply nth_In; exact Hk2).
      assert (In (nth k (map snd kept) []) (db s)) as Hdb by (unfold db; apply in_or_app; right; exact Hin).
      destruct (in_db_get_clause s _ Hdb) as [r' [Hr' Er']].
      pose proof (HC r' Hr') as Qc. unfold covered in Qc. rewrite Er' in Qc.
      destruct (nth k (map snd kept) []) as [|a [|b r]] eqn:Ec; [contradiction | |].
      * (* unit: true at level 0 as before *)
        unfold covered. rewrite Q2, Eg1. rewrite (asg_eq_lit_value _ _ _ Q3), (asg_eq_level_of _ _ _ Q3).
        rewrite (asg_eq_lit_value _ _ _ EA), (asg_eq_level_of _ _ _ EA). exact Qc.
      * rewrite Ecj. apply (covered_attach_all (map snd kept) no s1 k HA1 Hk2).
        -- assert (2 <= length (a :: b :: r)) as Q by (simpl; lia). rewrite <- Ec in Q. exact Q.
        -- destruct HD as [_ _ D3 _ _]. rewrite Forall_forall in D3. pose proof (D3 _ Hin) as Q. rewrite <- Ec in Q. exact Q.
        -- intros j Hj. unfold get_clause, s1. simpl. fold no. destruct (Nat.ltb_spec (no + j) no); [lia|].
           replace (no + j - no) with j by lia. reflexivity.
  - (* J: every clause of the new database is a clause of the old one *)
    intros cj a b r H1 H2 H3 H4. rewrite Q2 in H2.
    apply (fp_asg_eq _ _ _ Q3) in H3. apply (fp_asg_eq _ _ _ Q3) in H4.
    apply (fp_asg_eq _ _ _ EA) in H3. apply (fp_asg_eq _ _ _ EA) in H4.
    destruct (Gsub cj) as [Q|[r' [Hr' Er']]]; [rewrite Q in H2; discriminate|].
    rewrite H2 in Er'. exact (HJ r' a b r Hr' Er' H3 H4).
Qed.
