(* C01 deep model - end to end: whatever solve_sat (the model) hands back in `solution` / `solutions` satisfies the input
   clauses and the assumptions, and the entries of `solutions` are pairwise distinct.  Distinctness: the blocking clause of a
   recorded model stays in the database (lbd 0 survives reduce_db) and every later model satisfies it. *)
From Coq Require Import List ZArith Bool Arith Lia Permutation.
Import ListNotations.
From SV Require Import C01.SatSpec C01.Machine C01.DeepCdcl C01.DeepBase C01.DeepTrail C01.DeepTrailProp C01.DeepAnalyze
  C01.DeepWatch C01.DeepReason C01.DeepReasonProp C01.DeepRunOps C01.DeepReduce C01.DeepRun C01.DeepInit C01.DeepJ C01.DeepJOps
  C01.DeepJProp C01.DeepJAttach C01.DeepJLearn C01.DeepJReduce C01.DeepJRun C01.DeepSteps C01.DeepAlgo C01.RupProofs C01.SatLemmas.
Close Scope Z_scope.
Open Scope nat_scope.

(* ---------------------------------------------------------------- lists *)
Lemma combine_app' : forall {X Y} (a1 a2 : list X) (b1 b2 : list Y), length a1 = length b1 ->
  combine (a1 ++ a2) (b1 ++ b2) = combine a1 b1 ++ combine a2 b2.
Proof.
  intros X Y a1. induction a1 as [|x a1 IH]; intros a2 [|y b1] b2 H; simpl in *; try discriminate; [reflexivity|].
  rewrite IH by lia. reflexivity.
Qed.

Lemma combine_map_fst_snd : forall {X Y} (l : list (X * Y)), combine (map fst l) (map snd l) = l.
Proof. induction l as [|[x y] l IH]; simpl; [reflexivity | rewrite IH; reflexivity]. Qed.

Lemma In_combine_upd : forall {X Y} (l1 : list X) (l2 : list Y) j c x y d, In (x, y) (combine l1 l2) ->
  exists y', In (x, y') (combine l1 (upd l2 j c)) /\ (y' = y \/ (y' = c /\ y = nth j l2 d)).
Proof.
  intros X Y l1. induction l1 as [|a l1 IH]; intros [|b l2] j c x y d H; simpl in H; try contradiction.
  destruct j as [|j]; simpl.
  - destruct H as [H|H].
    + injection H as E1 E2. subst. exists c. split; [left; reflexivity | right; auto].
    + exists y. split; [right; exact H | left; reflexivity].
  - destruct H as [H|H].
    + injection H as E1 E2. subst. exists y. split; [left; reflexivity | left; reflexivity].
    + destruct (IH l2 j c x y d H) as [y' [Q1 Q2]]. exists y'. split; [right; exact Q1 | exact Q2].
Qed.

Lemma In_ins_sorted_rev : forall {X} (key : X -> nat * nat) x l y, y = x \/ In y l -> In y (ins_sorted key x l).
Proof.
  intros X key x l. induction l as [|z l IH]; intros y H; simpl.
  - destruct H as [H|[]]. left. symmetry. exact H.
  - destruct (key_le (key z) (key x)).
    + destruct H as [H|[H|H]]; [right; apply IH; left; exact H | left; exact H | right; apply IH; right; exact H].
    + destruct H as [H|H]; [left; symmetry; exact H | right; exact H].
Qed.

Lemma In_fold_ins_rev : forall {X} (key : X -> nat * nat) l acc y, In y acc \/ In y l ->
  In y (fold_left (fun a x => ins_sorted key x a) l acc).
Proof.
  intros X key l. induction l as [|x l IH]; intros acc y H; simpl; [destruct H as [H|[]]; exact H|].
  apply IH. destruct H as [H|[H|H]]; [left; apply In_ins_sorted_rev; right; exact H | left; apply In_ins_sorted_rev; left; symmetry; exact H | right; exact H].
Qed.

Lemma In_stable_sort_rev : forall {X} (key : X -> nat * nat) l y, In y l -> In y (stable_sort key l).
Proof. intros. unfold stable_sort. apply In_fold_ins_rev. right. assumption. Qed.

Lemma In_keep_loop_rev : forall half l i lbd c, In (lbd, c) l -> lbd <= 3 -> In (lbd, c) (keep_loop half i l).
Proof.
  intros half l. induction l as [|[k d] l IH]; intros i lbd c H Hl; simpl in *; [contradiction|].
  destruct H as [H|H].
  - injection H as E1 E2. subst. apply Nat.leb_le in Hl. rewrite Hl, orb_true_r. left. reflexivity.
  - destruct ((i <? half) || (k <=? 3)); [right|]; apply IH; assumption.
Qed.

(* ---------------------------------------------------------------- blocking clauses stay in the database *)
Definition lbd_ok (s : st) : Prop := length (s_lbd s) = length (s_learned s).
Definition blocked (s : st) (m : model) : Prop :=
  exists c, In (0, c) (combine (s_lbd s) (s_learned s)) /\ same_mem c (map Z.opp m).
Definition BKs (s : st) (ms : list model) : Prop := lbd_ok s /\ forall m, In m ms -> blocked s m.

Lemma same_mem_trans : forall a b c, same_mem a b -> same_mem b c -> same_mem a c.
Proof. intros a b c H1 H2 l. rewrite (H1 l). apply H2. Qed.

Lemma BKs_same : forall s s' ms, s_learned s' = s_learned s -> s_lbd s' = s_lbd s -> BKs s ms -> BKs s' ms.
Proof. intros s s' ms E1 E2 [H1 H2]. unfold BKs, lbd_ok, blocked. rewrite E1, E2. split; assumption. Qed.

Lemma BKs_estep : forall ms s s', estep s s' -> BKs s ms -> BKs s' ms.
Proof.
  intros ms s s' E H.
  destruct E as [s v b r _ _ | s ci c Hm | s s' EA Eo El Eb | s c k | s c b L EL Hm | s | s h | s k _ | s].
  - apply (BKs_same s); auto.
  - (* a clause gets permuted *)
    destruct H as [H1 H2]. unfold set_clause. destruct (Nat.ltb_spec ci (length (s_orig s))) as [Q|Q]; [split; assumption|].
    split; [unfold lbd_ok in *; simpl; rewrite upd_length; exact H1|].
    intros m Hm0. destruct (H2 m Hm0) as [c0 [Q1 Q2]]. simpl.
    destruct (In_combine_upd (s_lbd s) (s_learned s) (ci - length (s_orig s)) c 0 c0 [] Q1) as [y' [R1 [R2|[R2 R3]]]].
    + subst y'. exists c0. auto.
    + subst y'. exists c. split; [exact R1|]. eapply same_mem_trans; [|exact Q2]. rewrite R3.
      intros l. rewrite (Hm l). unfold get_clause. destruct (Nat.ltb_spec ci (length (s_orig s))); [lia | tauto].
  - apply (BKs_same s); auto.
  - (* learned.append *)
    destruct H as [H1 H2]. split; [unfold lbd_ok in *; simpl; rewrite !app_length; simpl; lia|].
    intros m Hm0. destruct (H2 m Hm0) as [c0 [Q1 Q2]]. exists c0. split; [|exact Q2]. simpl.
    rewrite combine_app' by exact H1. apply in_or_app. left. exact Q1.
  - (* the last clause is reordered *)
    destruct H as [H1 H2]. unfold lbd_ok in H1. rewrite EL in H1.
    destruct (list_last_case (s_lbd s)) as [Eb|(B & k & Eb)]; [rewrite Eb, app_length in H1; simpl in H1; lia|].
    assert (length B = length L) as HBL by (rewrite Eb, !app_length in H1; simpl in H1; lia).
    split; [unfold lbd_ok; simpl; rewrite EL, removelast_app_one, Eb, !app_length; simpl; lia|].
    intros m Hm0. destruct (H2 m Hm0) as [c0 [Q1 Q2]]. rewrite EL, Eb in Q1. rewrite combine_app' in Q1 by exact HBL.
    unfold blocked. simpl. rewrite EL, removelast_app_one, Eb. rewrite combine_app' by exact HBL.
    apply in_app_or in Q1. destruct Q1 as [Q1|[Q1|[]]].
    + exists c0. split; [apply in_or_app; left; exact Q1 | exact Q2].
    + injection Q1 as E1 E2. subst. exists c. split; [apply in_or_app; right; left; reflexivity|]. eapply same_mem_trans; eauto.
  - (* reduce_db keeps clauses with lbd <= 3 *)
    destruct H as [H1 H2]. unfold reduce_db. destruct (length (s_learned s) <? reduce_threshold); [split; assumption|].
    set (kept := keep_loop _ 0 _).
    destruct (learned_attach_all (map snd kept) (length (s_orig s))
               (mkSt (s_vals s) (s_levels s) (s_reasons s) (s_trail s) (s_lim s) (s_head s) (s_phase s) (s_props s) (s_confl s)
                  (s_orig s) (map snd kept) (map fst kept)
                  (filter_tail (fun c => c <? length (s_orig s)) (s_wpos s)) (filter_tail (fun c => c <? length (s_orig s)) (s_wneg s))
                  (map (filter (fun p : Z * nat => snd p <? length (s_orig s))) (s_bpos s))
                  (map (filter (fun p : Z * nat => snd p <? length (s_orig s))) (s_bneg s)))) as [E1 E2].
    unfold BKs, lbd_ok, blocked. rewrite E1, E2. simpl. split; [rewrite !map_length; reflexivity|].
    intros m Hm0. destruct (H2 m Hm0) as [c0 [Q1 Q2]]. exists c0. split; [|exact Q2].
    rewrite combine_map_fst_snd. unfold kept. apply In_keep_loop_rev; [|lia]. apply In_stable_sort_rev. exact Q1.
  - apply (BKs_same s); auto.
  - apply (BKs_same s); auto; destruct (unassign_to_db_eq k s) as (_ & Q & _); [exact Q|].
    unfold unassign_to. destruct (unwind _ (s_vals s) (s_phase s) (s_trail s)) as [[a b] c]. reflexivity.
  - apply (BKs_same s); auto.
Qed.

Lemma BKs_esteps : forall ms s s', esteps s s' -> BKs s ms -> BKs s' ms.
Proof. intros ms. apply esteps_pres. apply BKs_estep. Qed.

(* ---------------------------------------------------------------- the recorded dict *)
Lemma solution_consistent : forall s n, consistent_b (solution_of s n) = true.
Proof.
  intros s n. unfold consistent_b. apply forallb_forall. intros x Hx. unfold solution_of in Hx. apply in_flat_map in Hx.
  destruct Hx as [v [Hv Hx]]. apply in_seq in Hv.
  destruct (val_of s v) as [[|]|] eqn:E; simpl in Hx; [| |contradiction]; destruct Hx as [Q|[]]; subst x; unfold lit_true, asg_of.
  - destruct (Z.ltb_spec 0 (zvar v)) as [L|L]; [|unfold zvar in L; lia]. apply mem_In. apply In_solution_pos. split; [lia | exact E].
  - destruct (Z.ltb_spec 0 (- zvar v)) as [L|L]; [unfold zvar in L; lia|]. rewrite Z.opp_involutive. apply negb_true_iff.
    destruct (mem (zvar v) (solution_of s n)) eqn:Em; [|reflexivity]. exfalso. apply mem_In in Em.
    apply In_solution_pos in Em. destruct Em as [_ Q]. congruence.
Qed.

Lemma map_opp_solution : forall s n, map Z.opp (solution_of s n) = blocking_of s n.
Proof.
  intros s n. unfold solution_of, blocking_of. induction (seq 1 n) as [|v l IH]; simpl; [reflexivity|].
  rewrite map_app, IH. destruct (val_of s v) as [[|]|]; simpl; rewrite ?Z.opp_involutive; reflexivity.
Qed.

Lemma clause_true_same_mem : forall (a : asg) c c', same_mem c c' -> clause_true a c = true -> clause_true a c' = true.
Proof.
  intros a c c' H Q. unfold clause_true in *. apply existsb_exists in Q. destruct Q as [l [Hl Ht]].
  apply existsb_exists. exists l. split; [apply H; exact Hl | exact Ht].
Qed.

(* ---------------------------------------------------------------- the invariant about the recorded models *)
Definition good (cls : cnf) (A : list Z) (m : model) : Prop :=
  models (asg_of m) cls /\ agrees (asg_of m) A /\ consistent_b m = true.

Record LS (cls : cnf) (A : list Z) (L : loop) : Prop := mkLS {
  ls_good : forall m, In m (l_sols L) -> good cls A m;
  ls_blocked : BKs (l_st L) (l_sols L);
  ls_nodup : NoDup (l_sols L)
}.

Lemma in_combine_learned_db : forall s k c, In (k, c) (combine (s_lbd s) (s_learned s)) -> In c (db s).
Proof. intros s k c H. unfold db. apply in_or_app. right. eapply in_combine_r. exact H. Qed.

(* the model about to be recorded is good and differs from all earlier ones *)
Lemma new_solution_good : forall cls P L, LI P L -> LJ L -> LE cls P L -> LS cls (p_assum P) L ->
  l_conflict L = CNone -> all_assigned (l_st L) (p_nvars P) = true ->
  good cls (p_assum P) (solution_of (l_st L) (p_nvars P)) /\ ~ In (solution_of (l_st L) (p_nvars P)) (l_sols L).
Proof.
  intros cls P L H1 H2 H3 [G B N] EC Hall. destruct (algo_models cls P L H1 H2 H3 EC Hall) as (M1 & M2 & M3).
  split; [split; [exact M1 | split; [exact M2 | apply solution_consistent]]|].
  intros Hin. destruct B as [_ B]. destruct (B _ Hin) as [c [Q1 Q2]].
  pose proof (M3 c (in_combine_learned_db _ _ _ Q1)) as Q3.
  pose proof (clause_true_same_mem _ _ _ Q2 Q3) as Q4.
  exact (differ_neq _ _ (blocking_differ _ _ (solution_consistent _ _) Q4) eq_refl).
Qed.

Theorem main_step_LS : forall cls fuel P L L', LI P L -> LJ L -> LE cls P L -> LS cls (p_assum P) L ->
  main_step fuel P L = Cont L' -> LS cls (p_assum P) L'.
Proof.
  intros cls fuel P L L' H1 H2 H3 H4 E.
  destruct (main_step_esteps_sols fuel P L L' H1 E) as [[Es R]|(EC & Hall & Es & R)].
  - destruct H4 as [G B N]. constructor; rewrite Es; auto. eapply BKs_esteps; eauto.
  - destruct (new_solution_good cls P L H1 H2 H3 H4 EC Hall) as [Gn Nn]. destruct H4 as [G [B1 B2] N].
    constructor; rewrite Es.
    + intros m [Q|Q]; [subst m; exact Gn | apply G; exact Q].
    + apply (BKs_esteps _ _ _ R). split; [unfold lbd_ok in *; simpl; rewrite !app_length; simpl; lia|].
      intros m [Q|Q].
      * subst m. exists (blocking_of (l_st L) (p_nvars P)). split.
        -- simpl. rewrite combine_app' by exact B1. apply in_or_app. right. left. reflexivity.
        -- rewrite map_opp_solution. intros l. tauto.
      * destruct (B2 m Q) as [c0 [Q1 Q2]]. exists c0. split; [|exact Q2]. simpl. rewrite combine_app' by exact B1. apply in_or_app. left. exact Q1.
    + constructor; assumption.
Qed.

(* ---------------------------------------------------------------- what is handed back *)
Definition result_sound (cls : cnf) (A : list Z) (r : dres) : Prop :=
  (forall m, d_solution r = Some m -> good cls A m)
  /\ (forall ms, d_solutions r = Some ms -> NoDup ms /\ forall m, In m ms -> good cls A m).

Lemma finish_sound : forall cls A L st_ evs r, (forall m, In m (l_sols L) -> good cls A m) -> NoDup (l_sols L) ->
  finish L st_ = Done evs r -> result_sound cls A r.
Proof.
  intros cls A L st_ evs r G N E. unfold finish in E. destruct (rev (l_sols L)) as [|first rest] eqn:Er.
  - injection E as E1 E2. subst r. split; simpl; intros; discriminate.
  - injection E as E1 E2. subst r. split; simpl.
    + intros m Q. injection Q as Q. subst m. apply G. apply in_rev. rewrite Er. left. reflexivity.
    + intros ms Q. injection Q as Q. subst ms. rewrite <- Er. split; [apply NoDup_rev; exact N | intros m Hm; apply G; apply in_rev; exact Hm].
Qed.

Lemma finish_exhausted_sound : forall cls A L evs r, (forall m, In m (l_sols L) -> good cls A m) -> NoDup (l_sols L) ->
  finish_exhausted L = Done evs r -> result_sound cls A r.
Proof. intros cls A L evs r G N E. unfold finish_exhausted in E. destruct (l_sols L) eqn:Q; rewrite <- Q in *; eapply finish_sound; eauto. Qed.

Theorem main_step_stop_sound : forall cls fuel P L evs r, LI P L -> LJ L -> LE cls P L -> LS cls (p_assum P) L ->
  main_step fuel P L = Stop (Done evs r) -> result_sound cls (p_assum P) r.
Proof.
  intros cls fuel P L evs r H1 H2 H3 H4 E. pose proof H4 as [G B N]. unfold main_step in E.
  destruct (l_conflict L) as [| |ci] eqn:EC.
  - destruct (all_assigned (l_st L) (p_nvars P)) eqn:EAll.
    + destruct (new_solution_good cls P L H1 H2 H3 H4 EC EAll) as [Gn Nn].
      match type of E with (if ?c then _ else _) = _ => destruct c end.
      * injection E as E1 E2. subst r. split; cbn [d_solution d_solutions].
        -- intros m Q. injection Q as Q. subst m. exact Gn.
        -- intros ms Q. destruct (p_limit P =? 1)%Z; [discriminate|]. injection Q as Q. subst ms.
           change (rev (l_sols L) ++ [solution_of (l_st L) (p_nvars P)]) with (rev (solution_of (l_st L) (p_nvars P) :: l_sols L)).
           split; [apply NoDup_rev; constructor; assumption|]. intros m Hm. apply in_rev in Hm. destruct Hm as [Q|Q]; [subst m; exact Gn | apply G; exact Q].
      * match type of E with (if ?c then _ else _) = _ => destruct c end; [discriminate|].
        unfold with_prop in E. match type of E with match ?p with _ => _ end = _ => destruct p as [[s5 c]|] end; discriminate.
    + destruct (l_oracle L) as [|v orc]; [discriminate|].
      match type of E with (if ?c then _ else _) = _ => destruct c end; [|discriminate].
      unfold with_prop in E. match type of E with match ?p with _ => _ end = _ => destruct p as [[s2 c]|] end; [|discriminate].
      match type of E with (if ?c then _ else _) = _ => destruct c end; [|discriminate].
      injection E as E. eapply finish_sound; [| |exact E]; simpl; assumption.
  - injection E as E. eapply finish_exhausted_sound; eauto.
  - destruct (l_dec_level L =? 0); [injection E as E; eapply finish_exhausted_sound; eauto|].
    destruct (analyze (l_st L) ci) as [[[lc bt] lbd]|]; [|injection E as E; eapply finish_exhausted_sound; eauto].
    match type of E with (if ?c then _ else _) = _ => destruct c end.
    + match type of E with (if ?c then _ else _) = _ => destruct c end.
      * injection E as E. eapply finish_sound; [| |exact E]; simpl; assumption.
      * destruct (luby_val (l_luby_idx L + 1)) as [lv|]; [|discriminate].
        unfold with_prop in E. match type of E with match ?p with _ => _ end = _ => destruct p as [[s5 c]|] end; discriminate.
    + unfold with_prop in E. match type of E with match ?p with _ => _ end = _ => destruct p as [[s5 c]|] end; discriminate.
Qed.

Theorem main_loop_sound : forall cls inner P fuel L evs r, LI P L -> LJ L -> LE cls P L -> LS cls (p_assum P) L ->
  main_loop fuel inner P L = Done evs r -> result_sound cls (p_assum P) r.
Proof.
  intros cls inner P. induction fuel as [|f IH]; intros L evs r H1 H2 H3 H4 E; simpl in E; [discriminate|].
  destruct (main_step inner P L) as [L'|o] eqn:ES.
  - apply (IH L' evs r); [eapply main_step_LI | eapply main_step_LJ | eapply main_step_LE | eapply main_step_LS | exact E]; eauto.
  - subst o. eapply main_step_stop_sound; eauto.
Qed.

(* the end-to-end statement *)
Theorem solve_sat_sound : forall fuel cls A mc mr limit lf orc evs r, valid_input cls A = true ->
  solve_sat fuel cls A mc mr limit lf orc = Done evs r ->
  (forall m, d_solution r = Some m -> models (asg_of m) cls /\ agrees (asg_of m) A)
  /\ (forall ms, d_solutions r = Some ms -> NoDup ms /\ forall m, In m ms -> models (asg_of m) cls /\ agrees (asg_of m) A).
Proof.
  intros fuel cls A mc mr limit lf orc evs r Hv E. unfold solve_sat in E.
  destruct (init_loop fuel cls A mc mr limit lf orc) as [o|P L0] eqn:EI.
  - (* early returns: no model is handed back *)
    subst o. unfold init_loop in EI.
    assert (n_vars_of cls <> 0) as Hn0.
    { unfold valid_input in Hv. apply andb_prop in Hv. destruct Hv as [_ Hv]. apply Z.ltb_lt in Hv. unfold n_vars_of. lia. }
    destruct cls as [|c0 cls0]; [exfalso; apply Hn0; reflexivity|].
    destruct (Nat.eqb_spec (n_vars_of (c0 :: cls0)) 0); [contradiction|].
    destruct (existsb is_nilb (c0 :: cls0)); [injection EI as E1 E2; subst r; split; simpl; intros; discriminate|].
    destruct (attach_orig (c0 :: cls0) 0 [] (init_state (c0 :: cls0) (n_vars_of (c0 :: cls0)))) as [s0 units].
    match type of EI with context [assign_units units ?x] => destruct (assign_units units x) as [s2 [|]] end;
      [injection EI as E1 E2; subst r; split; simpl; intros; discriminate|].
    destruct (propagate fuel A s2) as [[s3 [| |ci]]|]; try discriminate; try (destruct (luby_val 1); discriminate).
    injection EI as E1 E2. subst r. split; simpl; intros; discriminate.
  - destruct (init_LE _ _ _ _ _ _ _ _ _ _ Hv EI) as (H3 & EA & En & R0 & Es0).
    assert (LS cls (p_assum P) L0) as H4.
    { constructor; rewrite Es0; [intros m [] | | constructor].
      apply (BKs_esteps [] _ _ R0). split; [reflexivity | intros m []]. }
    pose proof (main_loop_sound cls fuel P fuel L0 evs r (init_LI _ _ _ _ _ _ _ _ _ _ Hv EI) (init_LJ _ _ _ _ _ _ _ _ _ _ Hv EI) H3 H4 E) as [Q1 Q2].
    rewrite EA in *. split.
    + intros m Hm. destruct (Q1 m Hm) as (G1 & G2 & _). auto.
    + intros ms Hms. destruct (Q2 ms Hms) as [N G]. split; [exact N|]. intros m Hm. destruct (G m Hm) as (G1 & G2 & _). auto.
Qed.

(* ---------------------------------------------------------------- the per-run check, once it passes *)
Lemma models_eqb_eq : forall a b, models_eqb a b = true -> a = b.
Proof.
  induction a as [|x a IH]; intros [|y b] H; simpl in H; try discriminate; [reflexivity|].
  apply andb_prop in H. destruct H as [H1 H2]. apply zlist_eqb_eq in H1. apply IH in H2. subst. reflexivity.
Qed.

Lemma opt_eqb_eq : forall {X} (eqb : X -> X -> bool) (a b : option X), (forall x y, eqb x y = true -> x = y) ->
  opt_eqb eqb a b = true -> a = b.
Proof. intros X eqb [x|] [y|] H E; simpl in E; try discriminate; [f_equal; apply H; exact E | reflexivity]. Qed.

(* if the model, driven by the decisions of a real call, reproduces that call's trace and Result (deep_check = true, evaluated
   inside coqc for every run of the check), then the solutions the IMPLEMENTATION returned satisfy clauses and assumptions and
   are pairwise distinct - by the theorems about the model, not by evaluating them *)
Theorem deep_check_sound : forall cls A mc mr limit lf evs impl, valid_input cls A = true ->
  deep_check cls A mc mr limit lf evs impl = true ->
  (forall m, d_solution impl = Some m -> models (asg_of m) cls /\ agrees (asg_of m) A)
  /\ (forall ms, d_solutions impl = Some ms -> NoDup ms /\ forall m, In m ms -> models (asg_of m) cls /\ agrees (asg_of m) A).
Proof.
  intros cls A mc mr limit lf evs impl Hv H. unfold deep_check, deep_ok in H.
  destruct (solve_sat (deep_fuel cls evs) cls A mc mr limit lf (decisions_of evs)) as [evs' r|] eqn:E; [|discriminate].
  apply andb_prop in H. destruct H as [_ H]. unfold dres_eqb in H.
  repeat (apply andb_prop in H; destruct H as [H ?]).
  assert (d_solution r = d_solution impl) as E1 by (apply (opt_eqb_eq zlist_eqb); [apply zlist_eqb_eq | assumption]).
  assert (d_solutions r = d_solutions impl) as E2 by (apply (opt_eqb_eq models_eqb); [apply models_eqb_eq | assumption]).
  destruct (solve_sat_sound _ _ _ _ _ _ _ _ _ _ Hv E) as [Q1 Q2]. rewrite E1 in Q1. rewrite E2 in Q2. split; assumption.
Qed.
