(* C02 on the faithful model - the verdict theorems: INFEASIBLE is sound, an enumeration that ends below solution_limit is
   complete, no model for an unsatisfiable formula, the status of a satisfiable formula is OPTIMAL unless a budget ran out. *)
From Coq Require Import List ZArith Bool Arith Lia Permutation.
Import ListNotations.
From SV Require Import C01.SatSpec C01.Machine C01.DeepCdcl C01.DeepBase C01.DeepTrail C01.DeepTrailProp C01.DeepAnalyze
  C01.DeepWatch C01.DeepReason C01.DeepReasonProp C01.DeepRunOps C01.DeepReduce C01.DeepRun C01.DeepInit C01.DeepJ C01.DeepJRun
  C01.DeepSteps C01.DeepAlgo C01.DeepResult C01.RupProofs C01.SatLemmas C01.Deep2Sem C01.Deep2Run.
Close Scope Z_scope.
Open Scope nat_scope.

(* ---------------------------------------------------------------- pure literals *)
Definition plit (v : nat) (b : bool) : Z := if b then zvar v else (- zvar v)%Z.

(* the pure literals the code may assert: pure in the clauses, variable not assumed *)
Definition pure_lits (cls : cnf) (A : list Z) : list Z :=
  map (fun p => plit (fst p) (snd p))
      (filter (fun p : nat * bool => negb (existsb (fun a => lvar a =? fst p) A)) (find_pure_literals cls (n_vars_of cls))).

Lemma lvar_plit : forall v b, lvar (plit v b) = v.
Proof. intros v [|]; unfold plit; rewrite ?lvar_opp; apply lvar_zvar. Qed.

Lemma lpos_plit : forall v b, 1 <= v -> lpos (plit v b) = b.
Proof. intros v [|] H; unfold plit; [apply lpos_zvar; exact H | apply lpos_opp_zvar]. Qed.

Lemma plit_nonzero : forall v b, 1 <= v -> plit v b <> 0%Z.
Proof. intros v [|] H; unfold plit, zvar; lia. Qed.

Lemma inner_count_ge : forall (c : clause) l a, a <= fold_left (fun a' x => if (x =? l)%Z then S a' else a') c a.
Proof. induction c as [|x c IH]; intros l a; simpl; [lia|]. destruct (x =? l)%Z; [pose proof (IH l (S a)); lia | apply IH]. Qed.

Lemma inner_count_in : forall (c : clause) l a, In l c -> a < fold_left (fun a' x => if (x =? l)%Z then S a' else a') c a.
Proof.
  induction c as [|x c IH]; intros l a H; simpl; [contradiction|]. destruct H as [E|H].
  - subst x. rewrite Z.eqb_refl. pose proof (inner_count_ge c l (S a)). lia.
  - destruct (x =? l)%Z; [pose proof (IH l (S a) H); lia | apply IH; exact H].
Qed.

Lemma count_occ_lit_pos : forall cls c l, In c cls -> In l c -> 0 < count_occ_lit cls l.
Proof.
  intros cls c l Hc Hl. unfold count_occ_lit. generalize 0 as a. induction cls as [|d cls IH]; intros a; simpl; [contradiction|].
  destruct Hc as [E|Hc].
  - subst d. pose proof (inner_count_in c l a Hl) as Q.
    assert (forall f b, b <= fold_left (fun a0 c0 => fold_left (fun a' x => if (x =? l)%Z then S a' else a') c0 a0) f b) as Hge.
    { induction f as [|e f IHf]; intros b; simpl; [lia|]. pose proof (IHf (fold_left (fun a' x => if (x =? l)%Z then S a' else a') e b)).
      pose proof (inner_count_ge e l b). lia. }
    pose proof (Hge cls (fold_left (fun a' x => if (x =? l)%Z then S a' else a') c a)). lia.
  - pose proof (IH Hc (fold_left (fun a' x => if (x =? l)%Z then S a' else a') d a)) as Q1. pose proof (inner_count_ge d l a) as Q2. lia.
Qed.

Lemma count0_not_occurs : forall cls l, count_occ_lit cls l = 0 -> occurs l cls = false.
Proof.
  intros cls l H. unfold occurs. destruct (existsb (mem l) cls) eqn:E; [|reflexivity]. exfalso.
  apply existsb_exists in E. destruct E as [c [Hc Hm]]. apply mem_In in Hm. pose proof (count_occ_lit_pos cls c l Hc Hm). lia.
Qed.

Lemma find_pure_spec : forall cls n v b, In (v, b) (find_pure_literals cls n) ->
  1 <= v <= n /\ count_occ_lit cls (- plit v b)%Z = 0 /\ 0 < count_occ_lit cls (plit v b).
Proof.
  intros cls n v b H. unfold find_pure_literals in H. apply in_flat_map in H. destruct H as [w [Hw H]]. apply in_seq in Hw.
  destruct ((0 <? count_occ_lit cls (zvar w)) && (count_occ_lit cls (- zvar w) =? 0)) eqn:E1.
  - destruct H as [H|[]]. injection H as H1 H2. subst. apply andb_prop in E1. destruct E1 as [Q1 Q2].
    apply Nat.ltb_lt in Q1. apply Nat.eqb_eq in Q2. unfold plit. split; [lia | split; assumption].
  - destruct ((0 <? count_occ_lit cls (- zvar w)) && (count_occ_lit cls (zvar w) =? 0)) eqn:E2; [|contradiction].
    destruct H as [H|[]]. injection H as H1 H2. subst. apply andb_prop in E2. destruct E2 as [Q1 Q2].
    apply Nat.ltb_lt in Q1. apply Nat.eqb_eq in Q2. unfold plit. rewrite Z.opp_involutive. split; [lia | split; assumption].
Qed.

Lemma plit_inj_opp : forall v b v' b', 1 <= v -> 1 <= v' -> (- plit v b)%Z = plit v' b' -> v' = v /\ b' = negb b.
Proof. intros v [|] v' [|] H1 H2 E; unfold plit, zvar in E; simpl; split; try lia. Qed.

Lemma pure_lits_ok : forall cls A, pure_okb cls A (pure_lits cls A) = true.
Proof.
  intros cls A. unfold pure_okb. apply forallb_forall. intros p Hp. unfold pure_lits in Hp. apply in_map_iff in Hp.
  destruct Hp as [[v b] [Ep Hf]]. simpl in Ep. apply filter_In in Hf. destruct Hf as [Hf Hna]. simpl in Hna.
  destruct (find_pure_spec _ _ _ _ Hf) as (Hv & Hneg & Hpos). subst p.
  apply andb_true_intro. split; [apply andb_true_intro; split; [apply andb_true_intro; split|]|].
  - apply negb_true_iff. apply Z.eqb_neq. apply plit_nonzero. lia.
  - apply negb_true_iff. apply count0_not_occurs. exact Hneg.
  - apply negb_true_iff. destruct (mem (- plit v b) (pure_lits cls A)) eqn:E; [|reflexivity]. exfalso. apply mem_In in E.
    unfold pure_lits in E. apply in_map_iff in E. destruct E as [[v' b'] [E Hf']]. simpl in E. apply filter_In in Hf'. destruct Hf' as [Hf' _].
    destruct (find_pure_spec _ _ _ _ Hf') as (Hv' & Hneg' & Hpos').
    destruct (plit_inj_opp v b v' b' ltac:(lia) ltac:(lia) (eq_sym E)) as [Q1 Q2]. subst v' b'.
    rewrite E in Hpos'. lia.
  - apply negb_true_iff. apply negb_true_iff in Hna. destruct (existsb (fun a => (Z.abs a =? Z.abs (plit v b))%Z) A) eqn:E; [|reflexivity]. exfalso.
    apply existsb_exists in E. destruct E as [a [Ha Q]]. apply Z.eqb_eq in Q.
    assert (existsb (fun a0 => lvar a0 =? v) A = true) as Q2; [|congruence].
    apply existsb_exists. exists a. split; [exact Ha|]. apply Nat.eqb_eq. rewrite <- (lvar_plit v b). unfold lvar. lia.
Qed.

(* ---------------------------------------------------------------- the set-up keeps MI *)
Lemma assign_as_lit : forall v b r s, 1 <= v -> assign v b r s = assign_lit (plit v b) r s.
Proof. intros v b r s H. unfold assign_lit. rewrite lvar_plit, lpos_plit by exact H. reflexivity. Qed.

Lemma assign_pures_MI : forall m A pl s n, BI s -> lvl0 s -> nv s = S n -> MI m s ->
  (forall v b, In (v, b) pl -> 1 <= v <= n /\ (existsb (fun a => lvar a =? v) A = false -> lit_true m (plit v b) = true)) ->
  MI m (assign_pures A pl s).
Proof.
  intros m A pl. induction pl as [|[v b] pl IH]; intros s n H H0 Hn HM Hpl; simpl; [exact HM|].
  destruct (is_none (val_of s v) && negb (existsb (fun a => lvar a =? v) A)) eqn:E.
  - apply andb_prop in E. destruct E as [E1 E2]. apply negb_true_iff in E2. destruct (Hpl v b (or_introl eq_refl)) as [[Hv1 Hv2] Ht].
    assert (val_of s v = None) as Hvn by (destruct (val_of s v); [discriminate | reflexivity]).
    assert (v < length (s_vals s)) as Hvr by (unfold nv in Hn; lia).
    assert (BI (assign v b None s)) as HBa.
    { apply (BI_assign s v b None H Hvn Hvr); [lia | discriminate | intros _; left; exact H0]. }
    apply (IH (assign v b None s) n HBa H0); [rewrite nv_assign; exact Hn | | intros w c Hw; apply (Hpl w c); right; exact Hw].
    rewrite assign_as_lit by exact Hv1. apply MI_assign_lit; auto.
    + exact (proj1 (bi_ti s H)).
    + rewrite lvar_plit. exact Hvn.
    + rewrite lvar_plit. exact Hvr.
    + apply plit_nonzero. exact Hv1.
  - apply (IH s n H H0 Hn HM). intros w c Hw. apply (Hpl w c). right. exact Hw.
Qed.

Lemma assign_units_MI : forall m ul s s' r n, BI s -> lvl0 s -> nv s = S n -> MI m s ->
  (forall l i, In (l, i) ul -> get_clause s i = [l] /\ i < n_clauses s) -> assign_units ul s = (s', r) ->
  r = false /\ MI m s'.
Proof.
  intros m. induction ul as [|[l i] ul IH]; intros s s' r n H H0 Hn HM Hul E; simpl in E.
  - injection E as E1 E2. subst. auto.
  - destruct (Hul l i (or_introl eq_refl)) as [Hc Hci].
    assert (In l (get_clause s i)) as Hl by (rewrite Hc; left; reflexivity).
    assert (In (get_clause s i) (db s)) as Hdb by (apply get_clause_in_db; exact Hci).
    assert (lit_true m l = true) as Hlt.
    { pose proof (proj1 HM _ Hdb) as Q. rewrite Hc in Q. simpl in Q. rewrite orb_false_r in Q. exact Q. }
    assert (l <> 0%Z) as Hl0 by exact (bi_nz s H i l Hl).
    pose proof (proj1 (bi_ti s H)) as HT.
    destruct (val_of s (lvar l)) as [b|] eqn:EV.
    + destruct (Bool.eqb b (lpos l)) eqn:EB.
      * apply (IH s s' r n H H0 Hn HM); [intros l0 i0 Q; apply Hul; right; exact Q | exact E].
      * exfalso. destruct HM as [_ H2]. assert (lit_value s l = Some false) as Hf by (unfold lit_value; rewrite EV, EB; reflexivity).
        assert (level_of s (lvar l) = 0) as Hl0'.
        { assert (In (lvar l) (s_trail s)) as Hin by (apply (ti_assigned s HT); congruence).
          pose proof (level_le_cur s (lvar l) HT Hin). unfold lvl0 in H0. lia. }
        rewrite (H2 l Hl0 Hf Hl0') in Hlt. discriminate.
    + assert (lvar l < nv s) as Hr.
      { pose proof (get_clause_in s i (proj2 (bi_ti s H))) as Q. unfold clause_in in Q. rewrite Forall_forall in Q. exact (Q l Hl). }
      assert (BI (assign_lit l (Some i) s)) as HBa.
      { unfold assign_lit. apply (BI_assign s (lvar l) (lpos l) (Some i) H EV Hr).
        - apply lvar_nonzero. exact Hl0.
        - intros r0 _ Hlv. unfold lvl0 in H0. lia.
        - discriminate. }
      apply (IH (assign_lit l (Some i) s) s' r n HBa H0); [unfold assign_lit; rewrite nv_assign; exact Hn | | | exact E].
      * apply MI_assign_lit; auto.
      * intros l0 i0 Q. change (get_clause (assign_lit l (Some i) s) i0) with (get_clause s i0).
        change (n_clauses (assign_lit l (Some i) s)) with (n_clauses s). apply Hul. right. exact Q.
Qed.

Lemma MI_init : forall m cls n, models m cls -> MI m (init_state cls n).
Proof.
  intros m cls n Hm. split.
  - intros c Hc. unfold db, init_state in Hc. simpl in Hc. rewrite app_nil_r in Hc. apply Hm. exact Hc.
  - intros l _ Hf _. exfalso. unfold lit_value, val_of, init_state in Hf. cbn [s_vals] in Hf. rewrite nth_repeat in Hf. discriminate.
Qed.

Lemma db_attach_all : forall cs i s, db (attach_all cs i s) = db s.
Proof. intros. unfold db. rewrite orig_attach_all. rewrite (proj1 (learned_attach_all cs i s)). reflexivity. Qed.

(* ---------------------------------------------------------------- everything before the loop, semantically *)
Definition init_sem (m : asg) (cls : cnf) (A : list Z) (limit : Z) (ir : init_res) : Prop :=
  match ir with
  | IDone (Done evs r) => RV m (n_vars_of cls) limit r
  | IDone (Err _ _) => True
  | ILoop P L0 => LM m P L0 /\ p_assum P = A /\ p_limit P = limit /\ p_nvars P = n_vars_of cls
  end.

Theorem init_loop_sem : forall m fuel cls A mc mr limit lf orc, valid_input cls A = true ->
  models m cls -> agrees m A -> ((limit <= 1)%Z -> agrees m (pure_lits cls A)) ->
  init_sem m cls A limit (init_loop fuel cls A mc mr limit lf orc).
Proof.
  intros m fuel cls A mc mr limit lf orc Hvalid Hm Hag Hpure. destruct (valid_input_facts cls A Hvalid) as [Hcls HA].
  assert (n_vars_of cls <> 0) as Hn0.
  { unfold valid_input in Hvalid. apply andb_prop in Hvalid. destruct Hvalid as [_ Hv]. apply Z.ltb_lt in Hv. unfold n_vars_of. lia. }
  unfold init_loop. destruct cls as [|c0 cls0]; [exfalso; apply Hn0; reflexivity|]. set (cls := c0 :: cls0) in *. set (n := n_vars_of cls) in *.
  destruct (Nat.eqb_spec n 0); [contradiction|].
  destruct (existsb is_nilb cls) eqn:Enil.
  { (* an empty clause: m cannot satisfy it *)
    simpl. split; [intros _|split; simpl; discriminate].
    apply existsb_exists in Enil. destruct Enil as [c [Hc Hnil]]. destruct c; [|discriminate]. pose proof (Hm [] Hc) as Q. discriminate. }
  destruct (attach_orig cls 0 [] (init_state cls n)) as [s0 units] eqn:EO.
  pose proof (init_state_BI cls n Hcls) as HB0.
  assert (s0 = attach_all cls 0 (init_state cls n)) as Es0 by (rewrite <- DeepJRun.attach_orig_state with (u := []); rewrite EO; reflexivity).
  destruct (attach_orig_spec cls 0 [] (init_state cls n) s0 units HB0) as (H0 & EA0 & Eg0 & En0 & Hu0); auto.
  { unfold n_clauses, init_state. cbn [s_orig s_learned]. simpl. rewrite Nat.add_0_r. apply Nat.le_refl. }
  { intros k Hk. change (0 + k) with k. unfold get_clause, init_state. cbn [s_orig s_learned].
    destruct (Nat.ltb_spec k (length cls)) as [Q|Q]; [reflexivity | exfalso; apply (Nat.lt_irrefl k); eapply Nat.lt_le_trans; [exact Hk | exact Q]]. }
  { intros l cj _. unfold watch_list, init_state. cbn [s_wpos s_wneg]. destruct (lpos l); rewrite nth_repeat; reflexivity. }
  assert (lvl0 s0) as Lv0 by (unfold lvl0; rewrite (asg_eq_cur_level _ _ EA0); reflexivity).
  assert (nv s0 = S n) as N0 by (unfold nv; destruct EA0 as (Q & _); rewrite Q; unfold init_state; cbn [s_vals]; apply repeat_length).
  assert (MI m s0) as M0.
  { rewrite Es0. apply (MI_asg_db m (init_state cls n)); [apply attach_all_asg | apply db_attach_all | apply MI_init; exact Hm]. }
  set (s1 := if (limit <=? 1)%Z then assign_pures A (find_pure_literals cls n) s0 else s0) in *.
  assert (BI s1 /\ lvl0 s1 /\ nv s1 = S n /\ db_eq s0 s1) as (H1 & L1 & N1 & D1).
  { unfold s1. destruct (limit <=? 1)%Z; [|split; [exact H0 | split; [exact Lv0 | split; [exact N0 | apply db_eq_refl]]]].
    apply assign_pures_BI; auto. intros v b Hv. eapply find_pure_range; eauto. }
  assert (MI m s1) as M1.
  { unfold s1. destruct (Z.leb_spec limit 1) as [Hl|Hl]; [|exact M0].
    apply (assign_pures_MI m A _ s0 n H0 Lv0 N0 M0). intros v b Hv. split; [eapply find_pure_range; eauto|]. intros Hna.
    apply (Hpure Hl). unfold pure_lits. apply in_map_iff. exists (v, b). split; [reflexivity|]. apply filter_In. split; [exact Hv|]. simpl. rewrite Hna. reflexivity. }
  assert (forall l i, In (l, i) units -> get_clause s1 i = [l] /\ i < n_clauses s1) as Hun1.
  { intros l i Hl. rewrite (db_eq_get_clause _ _ _ D1), (db_eq_n_clauses _ _ D1), Eg0, En0. destruct (Hu0 l i Hl) as [[]|Q]. split; [exact Q|].
    destruct (Nat.lt_ge_cases i (n_clauses (init_state cls n))) as [L|L]; [exact L|]. rewrite get_clause_overflow in Q by exact L. discriminate. }
  destruct (assign_units units s1) as [s2 r2] eqn:EU.
  destruct (assign_units_MI m units s1 s2 r2 n H1 L1 N1 M1 Hun1 EU) as [Er2 M2]. subst r2.
  destruct (assign_units_BI units s1 s2 n H1 L1 N1 (fun l i Q => proj1 (Hun1 l i Q)) EU) as (H2 & L2 & N2).
  assert (assum_ok (nv s2) A) as HA2 by (rewrite N2; exact HA).
  destruct (propagate fuel A s2) as [[s3 c]|] eqn:EP; [|exact Logic.I].
  destruct (propagate_MI m fuel A s2 s3 c HA2 Hag H2 M2 EP) as (M3 & Hna & Hn0c).
  assert (cur_level s3 = 0) as L3 by (unfold cur_level; rewrite (propagate_lim _ _ _ _ _ EP); exact L2).
  destruct c as [| |ci]; [| congruence | exfalso; exact (Hn0c ci eq_refl L3)].
  destruct (luby_val 1) as [lv|]; [|exact Logic.I]. simpl. split; [|auto].
  right. unfold MIok. simpl. split; [exact M3|]. split; [discriminate | intros ci Q; discriminate].
Qed.

(* ---------------------------------------------------------------- the theorems *)
Lemma solve_sat_RV : forall m fuel cls A mc mr limit lf orc evs r, valid_input cls A = true ->
  models m cls -> agrees m A -> ((limit <= 1)%Z -> agrees m (pure_lits cls A)) ->
  solve_sat fuel cls A mc mr limit lf orc = Done evs r -> RV m (n_vars_of cls) limit r.
Proof.
  intros m fuel cls A mc mr limit lf orc evs r Hv Hm Hag Hp E. unfold solve_sat in E.
  pose proof (init_loop_sem m fuel cls A mc mr limit lf orc Hv Hm Hag Hp) as HS.
  destruct (init_loop fuel cls A mc mr limit lf orc) as [o|P L0] eqn:EI.
  - subst o. exact HS.
  - destruct HS as (HLM & EA & El & En). rewrite <- En, <- El.
    apply (main_loop_RV m fuel P fuel L0 evs r (init_LI _ _ _ _ _ _ _ _ _ _ Hv EI)); [rewrite EA; exact Hag | exact HLM | exact E].
Qed.

(* (1) INFEASIBLE only if clauses + assumptions have no model *)
Theorem infeasible_sound : forall fuel cls A mc mr limit lf orc evs r, valid_input cls A = true ->
  solve_sat fuel cls A mc mr limit lf orc = Done evs r -> d_status r = INFEASIBLE ->
  ~ exists m, models m cls /\ agrees m A.
Proof.
  intros fuel cls A mc mr limit lf orc evs r Hv E Hst [m0 [Hm Hag]].
  destruct (pure_ok cls A (pure_lits cls A) m0 (pure_lits_ok cls A) Hm Hag) as (Q1 & Q2 & Q3).
  destruct (solve_sat_RV (force (pure_lits cls A) m0) fuel cls A mc mr limit lf orc evs r Hv Q1 Q2 (fun _ => Q3) E) as [R _].
  exact (R Hst).
Qed.

(* (1b) an enumeration (solution_limit >= 2) that ends with fewer than solution_limit models has found ALL models *)
Theorem enumeration_complete : forall fuel cls A mc mr limit lf orc evs r ms, valid_input cls A = true -> (1 < limit)%Z ->
  solve_sat fuel cls A mc mr limit lf orc = Done evs r -> d_status r = OPTIMAL -> d_solutions r = Some ms ->
  (Z.of_nat (length ms) < limit)%Z ->
  forall m, models m cls -> agrees m A -> exists sol, In sol ms /\ forall v, 1 <= v <= n_vars_of cls -> m (zvar v) = asg_of sol (zvar v).
Proof.
  intros fuel cls A mc mr limit lf orc evs r ms Hv Hl E Hst Hms Hlen m Hm Hag.
  destruct (solve_sat_RV m fuel cls A mc mr limit lf orc evs r Hv Hm Hag ltac:(intros; lia) E) as (_ & R & _).
  exact (R Hst ms Hms Hlen).
Qed.

(* (2) never a model for an unsatisfiable formula *)
Theorem no_false_model : forall fuel cls A mc mr limit lf orc evs r, valid_input cls A = true ->
  solve_sat fuel cls A mc mr limit lf orc = Done evs r -> (~ exists m, models m cls /\ agrees m A) ->
  d_solution r = None /\ forall ms, d_solutions r = Some ms -> ms = [].
Proof.
  intros fuel cls A mc mr limit lf orc evs r Hv E Hun. destruct (solve_sat_sound _ _ _ _ _ _ _ _ _ _ Hv E) as [Q1 Q2]. split.
  - destruct (d_solution r) as [m|] eqn:Es; [|reflexivity]. exfalso. apply Hun. exists (asg_of m). exact (Q1 m eq_refl).
  - intros ms Hms. destruct ms as [|m ms']; [reflexivity|]. exfalso. apply Hun. exists (asg_of m).
    exact (proj2 (Q2 _ Hms) m (or_introl eq_refl)).
Qed.

(* (3) a satisfiable formula gets OPTIMAL with a model unless a budget ran out *)
Theorem verdict_complete : forall fuel cls A mc mr limit lf orc evs r, valid_input cls A = true ->
  solve_sat fuel cls A mc mr limit lf orc = Done evs r -> (exists m, models m cls /\ agrees m A) -> d_status r <> MAX_ITER ->
  d_status r = OPTIMAL /\ exists m, d_solution r = Some m /\ models (asg_of m) cls /\ agrees (asg_of m) A.
Proof.
  intros fuel cls A mc mr limit lf orc evs r Hv E [m0 [Hm Hag]] Hmi.
  destruct (pure_ok cls A (pure_lits cls A) m0 (pure_lits_ok cls A) Hm Hag) as (Q1 & Q2 & Q3).
  destruct (solve_sat_RV (force (pure_lits cls A) m0) fuel cls A mc mr limit lf orc evs r Hv Q1 Q2 (fun _ => Q3) E) as (R1 & _ & R3).
  assert (d_status r = OPTIMAL) as Hst by (destruct (d_status r); [reflexivity | exfalso; apply R1; reflexivity | congruence]).
  split; [exact Hst|]. destruct (d_solution r) as [m|] eqn:Es; [|exfalso; exact (R3 Hst eq_refl)].
  exists m. split; [reflexivity|]. exact (proj1 (solve_sat_sound _ _ _ _ _ _ _ _ _ _ Hv E) m Es).
Qed.
