(* C01 deep model - coverage of a clause that gets attached (learned clause, blocking clause, input clause, reduce_db),
   and J through backjumps. *)
From Coq Require Import List ZArith Bool Arith Lia Permutation.
Import ListNotations.
From SV Require Import C01.SatSpec C01.Machine C01.DeepCdcl C01.DeepBase C01.DeepTrail C01.DeepTrailProp C01.DeepAnalyze
  C01.DeepWatch C01.DeepReason C01.DeepReasonProp C01.DeepRunOps C01.DeepReduce C01.DeepJ C01.DeepJOps C01.DeepJProp.
Close Scope Z_scope.
Open Scope nat_scope.

(* ---------------------------------------------------------------- one index at a time *)
Lemma covered_mono : forall s s' ci, get_clause s' ci = get_clause s ci ->
  (forall l, cnt (watch_list s l) ci <= cnt (watch_list s' l) ci) ->
  (forall fl p, In p (implications s fl) -> In p (implications s' fl)) ->
  (forall l, lit_value s l = Some true -> level_of s (lvar l) = 0 -> lit_value s' l = Some true /\ level_of s' (lvar l) = 0) ->
  covered s ci -> covered s' ci.
Proof.
  intros s s' ci Eg Hw Hi Hu Q. unfold covered in *. rewrite Eg.
  destruct (get_clause s ci) as [|a [|b r]]; [exact Q | apply Hu; tauto|].
  destruct Q as [Q|[Q1 [Q2 Q3]]]; [left | right].
  - intros l. pose proof (Q l). pose proof (Hw l). lia.
  - split; [exact Q1|]. split; apply Hi; assumption.
Qed.

(* ---------------------------------------------------------------- big_add registers both directions within range *)
Definition bslot_len (s : st) (l : Z) : nat := if lpos l then length (s_bneg s) else length (s_bpos s).

Lemma implications_big_add1_mono : forall a b idx s fl p, In p (implications s fl) -> In p (implications (big_add1 a b idx s) fl).
Proof.
  intros a b idx s fl p H. unfold implications, big_add1 in *. destruct (lpos a) eqn:Ea; destruct (lpos fl) eqn:Ef; simpl; auto.
  - destruct (Nat.eq_dec (lvar a) (lvar fl)) as [E|E].
    + rewrite <- E in *. destruct (Nat.lt_ge_cases (lvar a) (length (s_bneg s))) as [Q|Q].
      * rewrite nth_upd_eq by exact Q. apply in_or_app. left. exact H.
      * rewrite nth_overflow in H by exact Q. contradiction.
    + rewrite nth_upd_neq by exact E. exact H.
  - destruct (Nat.eq_dec (lvar a) (lvar fl)) as [E|E].
    + rewrite <- E in *. destruct (Nat.lt_ge_cases (lvar a) (length (s_bpos s))) as [Q|Q].
      * rewrite nth_upd_eq by exact Q. apply in_or_app. left. exact H.
      * rewrite nth_overflow in H by exact Q. contradiction.
    + rewrite nth_upd_neq by exact E. exact H.
Qed.

Lemma implications_big_add1_new : forall a b idx s, lvar a < bslot_len s a -> In (b, idx) (implications (big_add1 a b idx s) a).
Proof.
  intros a b idx s H. unfold implications, big_add1, bslot_len in *. destruct (lpos a) eqn:Ea; simpl; rewrite ?Ea;
    rewrite nth_upd_eq by exact H; apply in_or_app; right; left; reflexivity.
Qed.

Lemma bslot_len_big_add1 : forall a b idx s l, bslot_len (big_add1 a b idx s) l = bslot_len s l.
Proof. intros. unfold bslot_len, big_add1. destruct (lpos a); destruct (lpos l); simpl; rewrite ?upd_length; reflexivity. Qed.

Lemma arr_len_big_add1 : forall a b idx s, arr_len s -> arr_len (big_add1 a b idx s).
Proof. intros a b idx s H. unfold arr_len, nv, big_add1 in *. destruct (lpos a); simpl; rewrite ?upd_length; exact H. Qed.

Lemma arr_len_attach : forall c idx s, arr_len s -> arr_len (attach c idx s).
Proof.
  intros c idx s H. destruct (attach_cases c idx s) as [E|[(a & b & Ec & E)|(a & b & r & Ec & _ & E)]]; rewrite E; auto.
  - unfold big_add. apply arr_len_big_add1, arr_len_big_add1. exact H.
  - apply arr_len_add_watch, arr_len_add_watch. exact H.
Qed.

Lemma bslot_len_nv : forall s l, arr_len s -> bslot_len s l = nv s.
Proof. intros s l (_ & _ & A3 & A4). unfold bslot_len. destruct (lpos l); assumption. Qed.

(* attach only adds *)
Lemma watch_list_out_of_range : forall s l, slot_len s l <= lvar l -> watch_list s l = [].
Proof. intros s l H. unfold watch_list, slot_len in *. destruct (lpos l); apply nth_overflow; exact H. Qed.

Lemma cnt_add_watch_mono : forall l' idx s l cj, cnt (watch_list s l) cj <= cnt (watch_list (add_watch l' idx s) l) cj.
Proof.
  intros l' idx s l cj. unfold add_watch. destruct (Z.eq_dec l l') as [E|E].
  - subst l'. rewrite watch_list_set_same. destruct (Nat.ltb_spec (lvar l) (slot_len s l)) as [Q|Q].
    + rewrite cnt_app. lia.
    + rewrite (watch_list_out_of_range s l Q). rewrite cnt_nil. lia.
  - rewrite watch_list_set_other by exact E. lia.
Qed.

Lemma attach_mono : forall c idx s,
  (forall l cj, cnt (watch_list s l) cj <= cnt (watch_list (attach c idx s) l) cj)
  /\ (forall fl p, In p (implications s fl) -> In p (implications (attach c idx s) fl))
  /\ asg_eq s (attach c idx s).
Proof.
  intros c idx s. split; [|split; [|apply attach_asg]].
  - intros l cj. destruct (attach_cases c idx s) as [E|[(a & b & Ec & E)|(a & b & r & Ec & _ & E)]]; rewrite E; [lia | |].
    + unfold big_add. rewrite !watch_list_big_add1. lia.
    + pose proof (cnt_add_watch_mono b idx (add_watch a idx s) l cj). pose proof (cnt_add_watch_mono a idx s l cj). lia.
  - intros fl p Hp. destruct (attach_cases c idx s) as [E|[(a & b & Ec & E)|(a & b & r & Ec & _ & E)]]; rewrite E; [exact Hp | |].
    + unfold big_add. apply implications_big_add1_mono, implications_big_add1_mono. exact Hp.
    + unfold add_watch. rewrite !implications_set_watch_list. exact Hp.
Qed.

(* a clause of length >= 2 is covered once attached *)
Lemma covered_attach : forall c idx s, arr_len s -> clause_in (nv s) c -> 2 <= length c -> get_clause s idx = c ->
  covered (attach c idx s) idx.
Proof.
  intros c idx s HA Hin Hlen Hc. destruct (attach_frame c idx s) as (_ & Eg & _). unfold covered. rewrite Eg, Hc.
  destruct c as [|a [|b r]]; simpl in Hlen; try lia.
  inversion Hin as [|? ? Ha Hin']; subst. inversion Hin' as [|? ? Hb _]; subst. unfold lit_in in *.
  destruct r as [|x r].
  - right. split; [reflexivity|]. simpl attach. unfold big_add, bcov. split.
    + apply implications_big_add1_mono. apply implications_big_add1_new. rewrite bslot_len_nv by exact HA. exact Ha.
    + apply implications_big_add1_new. rewrite bslot_len_big_add1, bslot_len_nv by exact HA. exact Hb.
  - left. simpl attach. intros l.
    assert (lvar a < slot_len s a) as Ra by (rewrite slot_len_nv by exact HA; exact Ha).
    assert (lvar b < slot_len (add_watch a idx s) b) as Rb.
    { unfold add_watch. rewrite slot_len_set_watch_list, slot_len_nv by exact HA. exact Hb. }
    pose proof (cnt_add_watch_ge b idx (add_watch a idx s) l idx Rb) as Q1. pose proof (cnt_add_watch_ge a idx s l idx Ra) as Q2.
    unfold pos01. destruct (Nat.eq_dec idx idx); [|congruence].
    destruct (Z.eq_dec l b); destruct (Z.eq_dec l a); subst; rewrite ?Z.eqb_refl;
      repeat match goal with |- context [(?p =? ?q)%Z] => destruct (Z.eqb_spec p q) end; try congruence; lia.
Qed.

(* ---------------------------------------------------------------- J and backjumps *)
Lemma J_unassign_to : forall s level, trail_inv s -> head_inv s -> JC s -> level < cur_level s -> J (unassign_to level s).
Proof.
  intros s level HT HH HJ Hl cj a b r H1 H2 H3 H4.
  rewrite (db_eq_n_clauses _ _ (unassign_to_db_eq level s)) in H1. rewrite (db_eq_get_clause _ _ _ (unassign_to_db_eq level s)) in H2.
  pose proof (fp_unassign_to s level a HT HH H3) as Fa. pose proof (fp_unassign_to s level b HT HH H4) as Fb.
  assert (forall l, fp (unassign_to level s) l -> fp s l -> level_of s (lvar l) = cur_level s -> False) as Hgone.
  { intros l [F1 _] [G1 _] Hlv.
    assert (In (lvar l) (s_trail s)) as Hin by (apply (ti_assigned s HT); eapply lit_value_assigned; exact G1).
    pose proof (proj2 (unassign_to_stays_or_goes s level (lvar l) HT Hin Hl) ltac:(lia)) as Q.
    apply lit_value_assigned in F1. contradiction. }
  destruct (HJ cj a b r H1 H2 Fa Fb) as [Q|Q]; [exact (Hgone a H3 Fa Q) | exact (Hgone b H4 Fb Q)].
Qed.

Lemma J_unassign_to_any : forall s level, trail_inv s -> head_inv s -> J s -> J (unassign_to level s).
Proof.
  intros s level HT HH HJ cj a b r H1 H2 H3 H4.
  rewrite (db_eq_n_clauses _ _ (unassign_to_db_eq level s)) in H1. rewrite (db_eq_get_clause _ _ _ (unassign_to_db_eq level s)) in H2.
  exact (HJ cj a b r H1 H2 (fp_unassign_to s level a HT HH H3) (fp_unassign_to s level b HT HH H4)).
Qed.

Lemma arr_len_unassign_to : forall s level, arr_len s -> arr_len (unassign_to level s).
Proof. intros s level H. apply (arr_len_db_eq s); [apply unassign_to_db_eq | unfold nv; apply unassign_to_nvals | exact H]. Qed.
