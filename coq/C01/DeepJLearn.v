(* C01 deep model - (d) through the conflict branch of the main loop: backjump, learned clause, its assertion. *)
From Coq Require Import List ZArith Bool Arith Lia Permutation.
Import ListNotations.
From SV Require Import C01.SatSpec C01.Machine C01.DeepCdcl C01.DeepBase C01.DeepTrail C01.DeepTrailProp C01.DeepAnalyze
  C01.DeepWatch C01.DeepReason C01.DeepReasonProp C01.DeepRunOps C01.DeepReduce C01.DeepRun C01.DeepJ C01.DeepJOps C01.DeepJProp
  C01.DeepJAttach.
Close Scope Z_scope.
Open Scope nat_scope.

Lemma analyze_bt_unit : forall s ci l bt lbd, analyze s ci = Some ([l], bt, lbd) -> bt = 0.
Proof.
  intros s ci l bt lbd E. destruct (analyze_some _ _ _ _ _ E) as (_ & _ & _ & Ebt). rewrite Ebt. simpl.
  destruct (negb (is_none (val_of s (lvar l)))); simpl; [|reflexivity].
  unfold list_max_nat at 2. simpl. rewrite Nat.ltb_irrefl. reflexivity.
Qed.

Lemma arr_len_append : forall c k s, arr_len s -> arr_len (append_learned c k s).
Proof. intros c k s H. exact H. Qed.

Lemma learn_PJ : forall s ci lc bt lbd, BI s -> arr_len s -> cov_all s -> JC s -> conflict_ok s ci ->
  analyze s ci = Some (lc, bt, lbd) ->
  let s1 := unassign_to bt s in
  let cidx := n_clauses s1 in
  let s2 := attach lc cidx (append_learned lc lbd s1) in
  let s3 := match lc with l0 :: _ => assign_lit l0 (Some cidx) s2 | [] => s2 end in
  arr_len s3 /\ cov_all s3 /\ J s3.
Proof.
  intros s ci lc bt lbd H HA HC HJ (Hci & Hfalse & Hlev) E s1 cidx s2 s3.
  destruct (BI_analyze_hyps s H) as (HT & Hnz & HR & HD).
  destruct (analyze_some _ _ _ _ _ E) as (Hc1 & Elc & _).
  destruct (analyze_lits_spec s ci HT Hnz HR HD Hc1 (get_clause_in_db s ci Hci) Hfalse) as [_ Hshape].
  destruct (Hshape Hlev) as (u & ll' & Ell & Hu & Hlu & Hll). rewrite <- Elc in Ell.
  destruct (analyze_bt s ci lc bt lbd u ll' HT E Ell Hu Hlu Hll) as [Hbt Hlow].
  assert (val_of s u <> None) as Hua by (apply (ti_assigned s HT); exact Hu).
  assert (BI s1) as H1 by (apply BI_unassign_to; exact H).
  pose proof (proj1 (bi_ti s1 H1)) as HT1.
  assert (nv s1 = nv s) as Hn1 by apply unassign_to_nvals.
  assert (arr_len s1) as HA1 by (apply arr_len_unassign_to; exact HA).
  assert (cov_all s1) as HC1 by (apply cov_all_unassign_to; assumption).
  assert (J s1) as HJ1 by (apply J_unassign_to; auto; exact (bi_head s H)).
  assert (clause_in (nv s1) lc) as Hin.
  { rewrite Hn1, Ell. constructor; [apply false_lit_of_in; apply val_in_range; exact Hua|].
    apply Forall_forall. intros l Hl. destruct (Hll l Hl) as (_ & Hf & _). apply val_in_range. eapply lit_value_assigned. exact Hf. }
  set (s2' := append_learned lc lbd s1) in *.
  assert (get_clause s2' cidx = lc) as Hg2' by (unfold s2', cidx; apply get_clause_append_new).
  destruct (attach_frame lc cidx s2') as (En & Eg & _). destruct (attach_mono lc cidx s2') as (Mw & Mi & EA2).
  assert (asg_eq s1 s2) as EA by (unfold s2; eapply asg_eq_trans; [apply append_learned_asg | exact EA2]).
  assert (n_clauses s2 = S cidx) as Hn2c by (unfold s2; rewrite En; unfold s2'; rewrite n_clauses_append; reflexivity).
  assert (forall r, r < cidx -> get_clause s2 r = get_clause s1 r) as Hold.
  { intros r Hr. unfold s2. rewrite Eg. unfold s2'. apply get_clause_append_old. exact Hr. }
  assert (get_clause s2 cidx = lc) as Hg2 by (unfold s2; rewrite Eg; exact Hg2').
  assert (val_of s2 u = None) as Hun.
  { rewrite (asg_eq_val_of _ _ _ EA). apply (proj2 (unassign_to_stays_or_goes s bt u HT Hu Hbt)). lia. }
  assert (trail_inv s2) as HT2 by (eapply trail_inv_asg_eq; eauto).
  assert (u < length (s_vals s2)) as Hur.
  { destruct EA as (Q & _). rewrite Q. fold (nv s1). rewrite Hn1. apply val_in_range. exact Hua. }
  assert (arr_len s2) as HA2 by (unfold s2; apply arr_len_attach; exact HA1).
  unfold s3. rewrite Ell. unfold assign_lit. rewrite lvar_false_lit_of.
  set (s3' := assign u (lpos (false_lit_of s u)) (Some cidx) s2).
  assert (forall l, lit_value s1 l = Some true -> level_of s1 (lvar l) = 0 ->
            lit_value s3' l = Some true /\ level_of s3' (lvar l) = 0) as Hunits.
  { intros l Q1 Q2. assert (lvar l <> u) as Hne.
    { intros C. apply lit_value_assigned in Q1. rewrite C, <- (asg_eq_val_of _ _ _ EA) in Q1. contradiction. }
    unfold s3'. split.
    - rewrite lit_value_assign_other by exact Hne. rewrite (asg_eq_lit_value _ _ _ EA). exact Q1.
    - rewrite level_of_assign by (rewrite (ti_len_levels s2 HT2); exact Hur).
      destruct (Nat.eqb_spec u (lvar l)); [congruence|]. rewrite (asg_eq_level_of _ _ _ EA). exact Q2. }
  split; [unfold s3'; apply arr_len_assign; exact HA2|]. split.
  - (* coverage *)
    intros cj Hcj. change (n_clauses s3') with (n_clauses s2) in Hcj. rewrite Hn2c in Hcj.
    destruct (Nat.eq_dec cj cidx) as [Q|Q].
    + subst cj. destruct ll' as [|l1 ll''].
      * (* unit clause: asserted at level 0 *)
        unfold covered. change (get_clause s3' cidx) with (get_clause s2 cidx). rewrite Hg2, Ell. split.
        -- unfold s3'. rewrite lit_value_assign_same by (auto; apply lvar_false_lit_of). destruct (lpos (false_lit_of s u)); reflexivity.
        -- rewrite lvar_false_lit_of. unfold s3'. rewrite level_of_assign by (rewrite (ti_len_levels s2 HT2); exact Hur).
           rewrite Nat.eqb_refl. rewrite (asg_eq_cur_level _ _ EA). unfold s1. rewrite cur_level_unassign_to by lia.
           rewrite Ell in E. exact (analyze_bt_unit _ _ _ _ _ E).
      * assert (covered s2 cidx) as Q.
        { unfold s2. apply covered_attach; [exact HA1 | exact Hin | rewrite Ell; simpl; apply le_n_S, le_n_S, Nat.le_0_l | exact Hg2']. }
        apply (covered_mono s2 s3'); [reflexivity | intros l; apply Nat.le_refl | intros fl p Hp; exact Hp | | exact Q].
        intros l Q1 Q2. assert (lvar l <> u) as Hne by (intros C; apply lit_value_assigned in Q1; rewrite C in Q1; contradiction).
        unfold s3'. split; [rewrite lit_value_assign_other by exact Hne; exact Q1|].
        rewrite level_of_assign by (rewrite (ti_len_levels s2 HT2); exact Hur). destruct (Nat.eqb_spec u (lvar l)); [congruence | exact Q2].
    + assert (cj < cidx) as Hlt by lia. apply (covered_mono s1 s3').
      * change (get_clause s3' cj) with (get_clause s2 cj). apply Hold. exact Hlt.
      * intros l. change (watch_list s3' l) with (watch_list s2 l). unfold s2. pose proof (Mw l cj) as Q1.
        change (watch_list s2' l) with (watch_list s1 l) in Q1. exact Q1.
      * intros fl p Hp. change (implications s3' fl) with (implications s2 fl). unfold s2. apply Mi. exact Hp.
      * exact Hunits.
      * apply HC1. exact Hlt.
  - (* J *)
    intros cj a b r Q1 Q2 Q3 Q4. change (n_clauses s3') with (n_clauses s2) in Q1. rewrite Hn2c in Q1.
    change (get_clause s3' cj) with (get_clause s2 cj) in Q2.
    apply (fp_assign_inv s2 _ _ _ _ HT2 Hun Hur) in Q3. apply (fp_assign_inv s2 _ _ _ _ HT2 Hun Hur) in Q4.
    destruct (Nat.eq_dec cj cidx) as [Q|Q].
    + subst cj. rewrite Hg2, Ell in Q2. injection Q2 as E1 E2. subst a. destruct Q3 as [Q3 _].
      apply lit_value_assigned in Q3. rewrite lvar_false_lit_of in Q3. contradiction.
    + rewrite Hold in Q2 by lia. apply (fp_asg_eq _ _ _ EA) in Q3. apply (fp_asg_eq _ _ _ EA) in Q4.
      exact (HJ1 cj a b r ltac:(unfold cidx in *; lia) Q2 Q3 Q4).
Qed.
