(* C01 / C02 - elementary lemmas about the CNF semantics, reported models and pure literals. *)
From Coq Require Import List ZArith Bool Lia.
Import ListNotations.
From SV Require Import C01.SatSpec C01.Rup C01.RupProofs C01.Machine.
Open Scope Z_scope.

Lemma zlist_eqb_eq : forall a b, zlist_eqb a b = true -> a = b.
Proof.
  induction a as [|x xs IH]; intros [|y ys] H; simpl in H; try discriminate; [reflexivity|].
  apply andb_prop in H. destruct H as [H1 H2]. apply Z.eqb_eq in H1. apply IH in H2. subst. reflexivity.
Qed.

Lemma zlist_eqb_refl : forall a, zlist_eqb a a = true.
Proof.
  induction a as [|x xs IH]; simpl; [reflexivity|]. rewrite Z.eqb_refl, IH. reflexivity.
Qed.

Lemma models_b_sound : forall m F, models_b m F = true -> models m F.
Proof.
  intros m F H c Hin. unfold models_b in H. rewrite forallb_forall in H. apply H. exact Hin.
Qed.

Lemma agrees_b_sound : forall m A, agrees_b m A = true -> agrees m A.
Proof.
  intros m A H l Hin. unfold agrees_b in H. rewrite forallb_forall in H. apply H. exact Hin.
Qed.

Lemma models_app : forall m F G, models m (F ++ G) <-> models m F /\ models m G.
Proof.
  intros m F G. unfold models. split.
  - intros H. split; intros c Hin; apply H; apply in_or_app; [left | right]; exact Hin.
  - intros [H1 H2] c Hin. apply in_app_or in Hin. destruct Hin; [apply H1 | apply H2]; assumption.
Qed.

Lemma models_units : forall m L, models m (units L) <-> agrees m L.
Proof.
  intros m L. unfold models, agrees, units. split.
  - intros H l Hin. specialize (H [l]). simpl in H. rewrite orb_false_r in H.
    apply H. apply in_map_iff. exists l. split; [reflexivity | exact Hin].
  - intros H c Hin. apply in_map_iff in Hin. destruct Hin as [l [Heq Hl]]. subst c.
    simpl. rewrite orb_false_r. apply H. exact Hl.
Qed.

Lemma models_nil : forall m, models m [].
Proof. intros m c []. Qed.

Lemma models_cons : forall m c F, models m (c :: F) <-> clause_true m c = true /\ models m F.
Proof.
  intros m c F. unfold models. split.
  - intros H. split; [apply H; left; reflexivity | intros c' Hin; apply H; right; exact Hin].
  - intros [H1 H2] c' [Heq | Hin]; [subst; exact H1 | apply H2; exact Hin].
Qed.

(* ---- reported models ---- *)
Lemma consistent_lit : forall m l, consistent_b m = true -> In l m -> lit_true (asg_of m) l = true.
Proof.
  intros m l H Hin. unfold consistent_b in H. rewrite forallb_forall in H. apply H. exact Hin.
Qed.

Lemma consistent_nonzero : forall m l, consistent_b m = true -> In l m -> l <> 0.
Proof.
  intros m l H Hin Hz. subst l. pose proof (consistent_lit m 0 H Hin) as Ht.
  unfold lit_true, asg_of in Ht. simpl in Ht.
  apply mem_In in Hin. rewrite Hin in Ht. discriminate.
Qed.

(* a model that satisfies the blocking clause of m' differs from m' on some variable *)
Definition differ (m m' : model) : Prop :=
  exists l, In l m' /\ lit_true (asg_of m') l = true /\ lit_true (asg_of m) l = false.

Lemma blocking_differ : forall m m', consistent_b m' = true ->
  clause_true (asg_of m) (map Z.opp m') = true -> differ m m'.
Proof.
  intros m m' Hc H. unfold clause_true in H. apply existsb_exists in H.
  destruct H as [l' [Hin Hl']]. apply in_map_iff in Hin. destruct Hin as [l [Heq Hl]]. subst l'.
  exists l. split; [exact Hl|]. split; [apply consistent_lit; assumption|].
  rewrite (lit_true_opp (asg_of m) l (consistent_nonzero m' l Hc Hl)) in Hl'.
  apply negb_true_iff in Hl'. exact Hl'.
Qed.

Lemma differ_neq : forall m m', differ m m' -> m <> m'.
Proof.
  intros m m' [l [_ [H1 H2]]] Heq. subst m'. congruence.
Qed.

(* conversely: an assignment that falsifies the blocking clause of m' makes every literal of m' true *)
Lemma blocking_false_agrees : forall (a : asg) m', consistent_b m' = true ->
  clause_true a (map Z.opp m') = false -> forall l, In l m' -> lit_true a l = true.
Proof.
  intros a m' Hc H l Hl.
  pose proof (clause_true_false_all a (map Z.opp m') H (- l)) as Hf.
  assert (In (- l) (map Z.opp m')) as Hin by (apply in_map; exact Hl).
  specialize (Hf Hin).
  rewrite (lit_true_opp a l (consistent_nonzero m' l Hc Hl)) in Hf.
  apply negb_false_iff in Hf. exact Hf.
Qed.

(* ---- pure literals ---- *)
Definition force (P : list lit) (m : asg) : asg :=
  fun v => if mem v P then true else if mem (- v) P then false else m v.

Lemma force_untouched : forall P m l, mem l P = false -> mem (- l) P = false ->
  lit_true (force P m) l = lit_true m l.
Proof.
  intros P m l H1 H2. unfold lit_true, force.
  destruct (0 <? l).
  - rewrite H1, H2. reflexivity.
  - rewrite H2, Z.opp_involutive, H1. reflexivity.
Qed.

Lemma force_pure : forall P m p, In p P -> p <> 0 -> mem (- p) P = false ->
  lit_true (force P m) p = true.
Proof.
  intros P m p Hin Hnz Hno. apply mem_In in Hin. unfold lit_true, force.
  destruct (0 <? p) eqn:E.
  - rewrite Hin. reflexivity.
  - rewrite Hno, Z.opp_involutive, Hin. reflexivity.
Qed.

Lemma pure_okb_spec : forall N A P, pure_okb N A P = true -> forall p, In p P ->
  p <> 0 /\ occurs (- p) N = false /\ mem (- p) P = false
  /\ (forall a, In a A -> Z.abs a <> Z.abs p).
Proof.
  intros N A P H p Hin. unfold pure_okb in H. rewrite forallb_forall in H. specialize (H p Hin).
  apply andb_prop in H. destruct H as [H H4]. apply andb_prop in H. destruct H as [H H3].
  apply andb_prop in H. destruct H as [H1 H2].
  apply negb_true_iff in H1, H2, H3, H4. apply Z.eqb_neq in H1.
  repeat split; try assumption.
  intros a Ha Heq.
  assert (existsb (fun a => Z.abs a =? Z.abs p) A = true) as Hex.
  { apply existsb_exists. exists a. split; [exact Ha | apply Z.eqb_eq; exact Heq]. }
  congruence.
Qed.

Lemma occurs_false : forall l N c, occurs l N = false -> In c N -> ~ In l c.
Proof.
  intros l N c H Hc Hl. unfold occurs in H.
  assert (existsb (mem l) N = true) as Hex.
  { apply existsb_exists. exists c. split; [exact Hc | apply mem_In; exact Hl]. }
  congruence.
Qed.

(* pure_ok: forcing literals that are pure in N and whose variables are not assumed keeps a model of
   N /\ A a model of N /\ A, and makes the forced literals true *)
Theorem pure_ok : forall N A P m, pure_okb N A P = true -> models m N -> agrees m A ->
  models (force P m) N /\ agrees (force P m) A /\ agrees (force P m) P.
Proof.
  intros N A P m HP HN HA. pose proof (pure_okb_spec N A P HP) as Hspec. split; [|split].
  - intros c Hc. specialize (HN c Hc). unfold clause_true in *.
    apply existsb_exists in HN. destruct HN as [l [Hl Ht]]. apply existsb_exists. exists l. split; [exact Hl|].
    destruct (mem l P) eqn:E1.
    + apply mem_In in E1. destruct (Hspec l E1) as [Hnz [_ [Hno _]]]. apply force_pure; assumption.
    + destruct (mem (- l) P) eqn:E2.
      * exfalso. apply mem_In in E2. destruct (Hspec (- l) E2) as [_ [Hocc _]].
        rewrite Z.opp_involutive in Hocc. exact (occurs_false l N c Hocc Hc Hl).
      * rewrite force_untouched; assumption.
  - intros a Ha. specialize (HA a Ha).
    destruct (mem a P) eqn:E1.
    + exfalso. apply mem_In in E1. destruct (Hspec a E1) as [_ [_ [_ Habs]]]. exact (Habs a Ha eq_refl).
    + destruct (mem (- a) P) eqn:E2.
      * exfalso. apply mem_In in E2. destruct (Hspec (- a) E2) as [_ [_ [_ Habs]]].
        apply (Habs a Ha). rewrite Z.abs_opp. reflexivity.
      * rewrite force_untouched; assumption.
  - intros p Hp. destruct (Hspec p Hp) as [Hnz [_ [Hno _]]]. apply force_pure; assumption.
Qed.
