(* C02 - Gallina models of solvor/sat.py luby(i) (definitions only).
     k = 1
     while True:
         if i == (1 << k) - 1: return 1 << (k - 1)
         if (1 << (k - 1)) <= i < (1 << k) - 1: i -= (1 << (k - 1)) - 1; k = 1     (FIXED tree, d892230)
         if i >= (1 << (k - 1)):               i -= (1 << (k - 1)) - 1; k = 1     (PINNED tree, 18d2659)
         else: k += 1
   One unit of fuel per loop iteration; None = fuel exhausted. *)
From Coq Require Import ZArith Bool.
Open Scope Z_scope.

Fixpoint luby_loop (fuel : nat) (i k : Z) : option Z :=
  match fuel with
  | O => None
  | S f =>
      if i =? Z.shiftl 1 k - 1 then Some (Z.shiftl 1 (k - 1))
      else if (Z.shiftl 1 (k - 1) <=? i) && (i <? Z.shiftl 1 k - 1)
           then luby_loop f (i - (Z.shiftl 1 (k - 1) - 1)) 1
           else luby_loop f i (k + 1)
  end.

Definition luby (fuel : nat) (i : Z) : option Z := luby_loop fuel i 1.

(* explicit fuel bound: 2*i iterations are enough for i >= 1 *)
Definition luby_fuel (i : Z) : nat := Z.to_nat (2 * i).

Fixpoint luby_pinned_loop (fuel : nat) (i k : Z) : option Z :=
  match fuel with
  | O => None
  | S f =>
      if i =? Z.shiftl 1 k - 1 then Some (Z.shiftl 1 (k - 1))
      else if Z.shiftl 1 (k - 1) <=? i
           then luby_pinned_loop f (i - (Z.shiftl 1 (k - 1) - 1)) 1
           else luby_pinned_loop f i (k + 1)
  end.

Definition luby_pinned (fuel : nat) (i : Z) : option Z := luby_pinned_loop fuel i 1.

(* The Luby sequence, as usually defined:
     t(i) = 2^(k-1)              if i = 2^k - 1
     t(i) = t(i - 2^(k-1) + 1)   if 2^(k-1) <= i < 2^k - 1 *)
Inductive Luby : Z -> Z -> Prop :=
| Luby_top : forall k, 1 <= k -> Luby (2 ^ k - 1) (2 ^ (k - 1))
| Luby_rec : forall k i v, 1 <= k -> 2 ^ (k - 1) <= i < 2 ^ k - 1 ->
             Luby (i - 2 ^ (k - 1) + 1) v -> Luby i v.
