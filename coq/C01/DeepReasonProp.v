(* C01 deep model - invariant (b): propagate preserves the bundle BI, and a conflict it reports is a falsified clause of
   the database with a literal of the current level. *)
From Coq Require Import List ZArith Bool Arith Lia Permutation.
Import ListNotations.
From SV Require Import C01.SatSpec C01.Machine C01.DeepCdcl C01.DeepBase C01.DeepTrail C01.DeepTrailProp C01.DeepAnalyze
  C01.DeepWatch C01.DeepReason.
Close Scope Z_scope.
Open Scope nat_scope.

(* ---------------------------------------------------------------- assembling BI *)
Lemma BI_frame : forall s s', BI s -> asg_eq s s' -> n_clauses s' = n_clauses s ->
  (forall r l, In l (get_clause s' r) -> In l (get_clause s r)) -> TI s' -> watch_le s' -> big_ok s' -> BI s'.
Proof.
  intros s s' H E En Eg HT HW HB. destruct H as [H1 H2 H3 H4 H5 H6 H7 H8]. constructor; auto.
  - intros ci l Hl. apply (H2 ci). apply Eg. exact Hl.
  - eapply val_of_asg_eq0; eauto.
  - eapply reason_inv_frame; eauto.
  - eapply decision_first_asg_eq; eauto.
  - eapply head_inv_asg_eq; eauto.
Qed.

Lemma BI_bump_confl : forall s, BI s -> BI (bump_confl s).
Proof.
  intros s H. apply (BI_frame s); auto.
  - apply bump_confl_asg.
  - apply TI_bump_confl. exact (bi_ti s H).
  - eapply watch_le_db_eq; [apply bump_confl_db_eq | exact (bi_wle s H)].
  - eapply big_ok_db_eq; [apply bump_confl_db_eq | exact (bi_big s H)].
Qed.

Lemma BI_assign : forall s v b r0, BI s -> val_of s v = None -> v < length (s_vals s) -> v <> 0 ->
  (forall r, r0 = Some r -> 1 <= cur_level s -> r < n_clauses s
     /\ forall l, In l (get_clause s r) -> (lvar l = v /\ lpos l = b) \/ lit_value s l = Some false) ->
  (r0 = None -> cur_level s = 0 \/ forall w, In w (s_trail s) -> level_of s w < cur_level s) ->
  BI (assign v b r0 s).
Proof.
  intros s v b r0 H Hn Hv Hv0 Hr Hd. pose proof (bi_ti s H) as [HT HD]. constructor.
  - split; [apply assign_trail_inv; assumption | apply db_range_assign; assumption].
  - exact (bi_nz s H).
  - rewrite val_of_assign by exact Hv. destruct (Nat.eqb_spec v 0); [contradiction | exact (bi_v0 s H)].
  - eapply watch_le_db_eq; [apply assign_db_eq | exact (bi_wle s H)].
  - eapply big_ok_db_eq; [apply assign_db_eq | exact (bi_big s H)].
  - apply reason_inv_assign; auto. exact (bi_reason s H).
  - apply decision_first_assign; auto. exact (bi_dec s H).
  - apply head_inv_assign; auto. exact (bi_head s H).
Qed.

(* ---------------------------------------------------------------- the cases of one watch-loop iteration *)
Definition wnorm (fl : Z) (i : nat) (s s1 : st) (ci : nat) (a : Z) (r : list Z) : Prop :=
  i < length (watch_list s fl) /\ ci = nth i (watch_list s fl) 0 /\ ci < n_clauses s
  /\ get_clause s1 ci = a :: fl :: r
  /\ (s1 = s \/ s1 = set_clause s ci (swap01 (get_clause s ci)))
  /\ watch_list s1 fl = watch_list s fl.

Inductive wcase (fl : Z) (i : nat) (s : st) : wstep -> Prop :=
| wc_done : length (watch_list s fl) <= i -> wcase fl i s WDone
| wc_sat : forall s1 ci a r, wnorm fl i s s1 ci a r -> is_true (lit_value s1 a) = true -> wcase fl i s (WNext s1)
| wc_move : forall s1 ci a r j, wnorm fl i s s1 ci a r -> is_true (lit_value s1 a) = false ->
    j < length r -> is_false (lit_value s1 (nth j r 0%Z)) = false ->
    wcase fl i s (WStay (add_watch (nth j r 0%Z) ci
                           (set_watch_list (set_clause s1 ci (a :: nth j r 0%Z :: upd r j fl)) fl
                                           (remove_swap_last (watch_list s1 fl) i))))
| wc_conf : forall s1 ci a r, wnorm fl i s s1 ci a r -> (forall l, In l r -> lit_value s1 l = Some false) ->
    lit_value s1 a = Some false -> wcase fl i s (WConf (bump_confl s1) ci)
| wc_unit : forall s1 ci a r, wnorm fl i s s1 ci a r -> (forall l, In l r -> lit_value s1 l = Some false) ->
    lit_value s1 a = None -> wcase fl i s (WNext (assign_lit a (Some ci) s1)).

Lemma is_false_some : forall o, is_false o = true -> o = Some false.
Proof. intros [[|]|] H; simpl in H; congruence. Qed.

Lemma not_true_false_none : forall o, is_true o = false -> is_false o = false -> o = None.
Proof. intros [[|]|] H1 H2; simpl in *; congruence. Qed.

Lemma watch_step_wcase : forall fl i s, watch_le s -> wcase fl i s (watch_step fl i s).
Proof.
  intros fl i s HW. unfold watch_step.
  destruct (Nat.ltb_spec i (length (watch_list s fl))) as [Hi|Hi]; [|apply wc_done; exact Hi].
  set (ws := watch_list s fl). set (ci := nth i ws 0).
  destruct (watch_le_member s fl ci HW (nth_In _ _ Hi)) as [Hci (a & b & r & Hc & Hab)].
  rewrite Hc. simpl length. simpl Nat.eqb.
  change (nth 0 (a :: b :: r) 0%Z) with a.
  destruct (Z.eqb_spec a fl) as [Ea|Ea].
  - (* clause[0] == false_lit: swap *)
    subst a. change (swap01 (fl :: b :: r)) with (b :: fl :: r). change (nth 0 (b :: fl :: r) 0%Z) with b.
    set (s1 := set_clause s ci (b :: fl :: r)).
    assert (wnorm fl i s s1 ci b r) as Hn.
    { unfold wnorm. repeat split; auto.
      - unfold s1. apply get_clause_set_clause_eq. exact Hci.
      - right. unfold s1. rewrite Hc. reflexivity.
      - unfold s1. apply watch_list_set_clause. }
    destruct (is_true (lit_value s1 b)) eqn:E1; [eapply wc_sat; eauto|].
    change (skipn 2 (b :: fl :: r)) with r.
    destruct (find_nonfalse s1 r 2) as [k|] eqn:EF.
    + destruct (find_nonfalse_spec _ _ _ _ EF) as (K1 & K2 & K3).
      replace k with (S (S (k - 2))) by lia. rewrite swap1k_shape. change (nth 1 (b :: nth (k - 2) r 0%Z :: upd r (k - 2) fl) 0%Z) with (nth (k - 2) r 0%Z).
      replace ws with (watch_list s1 fl) by (unfold s1; apply watch_list_set_clause).
      eapply wc_move; eauto.
    + pose proof (find_nonfalse_none _ _ _ EF) as Hall.
      destruct (is_false (lit_value s1 b)) eqn:E2.
      * eapply wc_conf; eauto. intros l Hl. apply is_false_some. apply Hall. exact Hl. apply is_false_some. exact E2.
      * eapply wc_unit; eauto. intros l Hl. apply is_false_some. apply Hall. exact Hl. apply not_true_false_none; assumption.
  - destruct Hab as [Q|Q]; [contradiction|]. subst b.
    assert (wnorm fl i s s ci a r) as Hn by (unfold wnorm; repeat split; auto).
    change (nth 0 (a :: fl :: r) 0%Z) with a.
    destruct (is_true (lit_value s a)) eqn:E1; [eapply wc_sat; eauto|].
    change (skipn 2 (a :: fl :: r)) with r.
    destruct (find_nonfalse s r 2) as [k|] eqn:EF.
    + destruct (find_nonfalse_spec _ _ _ _ EF) as (K1 & K2 & K3).
      replace k with (S (S (k - 2))) by lia. rewrite swap1k_shape. change (nth 1 (a :: nth (k - 2) r 0%Z :: upd r (k - 2) fl) 0%Z) with (nth (k - 2) r 0%Z).
      eapply wc_move; eauto.
    + pose proof (find_nonfalse_none _ _ _ EF) as Hall.
      destruct (is_false (lit_value s a)) eqn:E2.
      * eapply wc_conf; eauto. intros l Hl. apply is_false_some. apply Hall. exact Hl. apply is_false_some. exact E2.
      * eapply wc_unit; eauto. intros l Hl. apply is_false_some. apply Hall. exact Hl. apply not_true_false_none; assumption.
Qed.

(* ---------------------------------------------------------------- the watch loop preserves BI *)
(* fl is the literal being processed: false, of the current level *)
Definition WI (fl : Z) (s : st) : Prop := BI s /\ lit_value s fl = Some false /\ level_of s (lvar fl) = cur_level s.

(* what a reported conflict looks like *)
Definition conflict_ok (s : st) (ci : nat) : Prop :=
  ci < n_clauses s /\ (forall l, In l (get_clause s ci) -> lit_value s l = Some false)
  /\ exists l, In l (get_clause s ci) /\ level_of s (lvar l) = cur_level s.

Lemma WI_asg_eq : forall fl s s', asg_eq s s' -> BI s' -> lit_value s fl = Some false -> level_of s (lvar fl) = cur_level s -> WI fl s'.
Proof.
  intros fl s s' E HB H1 H2. split; [exact HB|]. split.
  - rewrite (asg_eq_lit_value _ _ _ E). exact H1.
  - rewrite (asg_eq_level_of _ _ _ E), (asg_eq_cur_level _ _ E). exact H2.
Qed.

Lemma wnorm_WI : forall fl i s s1 ci a r, WI fl s -> wnorm fl i s s1 ci a r -> WI fl s1 /\ asg_eq s s1.
Proof.
  intros fl i s s1 ci a r (HB & Hf & Hl) (Hi & Eci & Hci & Hc & [E|E] & Hw).
  - subst s1. split; [split; auto | apply asg_eq_refl].
  - assert (asg_eq s s1) as EA by (subst s1; apply set_clause_asg). split; [|exact EA].
    apply (WI_asg_eq fl s); auto. apply (BI_frame s); auto.
    + subst s1. apply n_clauses_set_clause.
    + intros r0 l Hin. subst s1. destruct (Nat.eq_dec r0 ci) as [Q|Q].
      * subst r0. rewrite get_clause_set_clause_eq in Hin by exact Hci. apply In_swap01. exact Hin.
      * rewrite get_clause_set_clause_neq in Hin by exact Q. exact Hin.
    + subst s1. apply TI_set_clause; [exact (bi_ti s HB)|]. apply swap01_in. apply get_clause_in. exact (proj2 (bi_ti s HB)).
    + subst s1. apply watch_le_swap01; [exact (bi_wle s HB) | exact Hci].
    + subst s1. apply big_ok_swap01; [exact (bi_big s HB) | exact Hci].
Qed.

Lemma wcase_WI : forall fl i s w, WI fl s -> wcase fl i s w ->
  match w with
  | WDone => True
  | WNext s' => WI fl s'
  | WStay s' => WI fl s'
  | WConf s' ci => WI fl s' /\ conflict_ok s' ci
  end.
Proof.
  intros fl i s w H C. destruct C as [Hd | s1 ci a r Hn Ht | s1 ci a r j Hn Ht Hj Hnf | s1 ci a r Hn Hall Ha | s1 ci a r Hn Hall Ha].
  - exact I.
  - exact (proj1 (wnorm_WI _ _ _ _ _ _ _ H Hn)).
  - (* the watch moves to position k = j + 2 *)
    destruct (wnorm_WI _ _ _ _ _ _ _ H Hn) as [(HB & Hf & Hl) EA]. destruct Hn as (Hi & Eci & Hci & Hc & _ & Hw).
    set (x := nth j r 0%Z) in *. set (c2 := a :: x :: upd r j fl).
    assert (x <> fl) as Hx by (intros Q; rewrite Q, Hf in Hnf; discriminate).
    assert (ci < n_clauses s1) as Hci1.
    { rewrite <- Hw in Hi. destruct (watch_le_member s1 fl ci (bi_wle s1 HB)) as [Q _]; [rewrite Eci, <- Hw; apply nth_In; exact Hi | exact Q]. }
    set (s4 := add_watch x ci (set_watch_list (set_clause s1 ci c2) fl (remove_swap_last (watch_list s1 fl) i))).
    assert (asg_eq s1 s4) as E4.
    { unfold s4. eapply asg_eq_trans; [apply set_clause_asg|]. eapply asg_eq_trans; [apply set_watch_list_asg | apply add_watch_asg]. }
    apply (WI_asg_eq fl s1); auto. apply (BI_frame s1); auto.
    + unfold s4, add_watch. rewrite !n_clauses_set_watch_list, n_clauses_set_clause. reflexivity.
    + intros r0 l Hin. unfold s4, add_watch in Hin. rewrite !get_clause_set_watch_list in Hin.
      destruct (Nat.eq_dec r0 ci) as [Q|Q].
      * subst r0. rewrite get_clause_set_clause_eq in Hin by exact Hci1. rewrite Hc. apply (In_swap1k a fl r j l Hj). exact Hin.
      * rewrite get_clause_set_clause_neq in Hin by exact Q. exact Hin.
    + unfold s4. apply TI_add_watch, TI_set_watch_list, TI_set_clause; [exact (bi_ti s1 HB)|].
      pose proof (get_clause_in s1 ci (proj2 (bi_ti s1 HB))) as Q. rewrite Hc in Q.
      apply Forall_forall. intros l0 Hl0. unfold clause_in in Q. rewrite Forall_forall in Q. apply Q. apply (In_swap1k a fl r j l0 Hj). exact Hl0.
    + unfold s4, c2, x. rewrite Eci, <- Hw. apply watch_le_move; auto.
      * exact (bi_wle s1 HB).
      * rewrite Hw. exact Hi.
      * rewrite Hw, <- Eci. exact Hc.
    + unfold s4. apply big_ok_add_watch, big_ok_set_watch_list, big_ok_set_long; [exact (bi_big s1 HB)|].
      rewrite Hc. destruct r; [simpl in Hj; lia | simpl; lia].
  - (* conflict *)
    destruct (wnorm_WI _ _ _ _ _ _ _ H Hn) as [(HB & Hf & Hl) EA]. destruct Hn as (Hi & Eci & Hci & Hc & _ & Hw).
    assert (WI fl (bump_confl s1)) as HW1.
    { apply (WI_asg_eq fl s1); auto; [apply bump_confl_asg | apply BI_bump_confl; exact HB]. }
    split; [exact HW1|]. unfold conflict_ok.
    change (n_clauses (bump_confl s1)) with (n_clauses s1). change (get_clause (bump_confl s1) ci) with (get_clause s1 ci).
    rewrite Hc. split; [|split].
    + rewrite <- Hw in Hi. destruct (watch_le_member s1 fl ci (bi_wle s1 HB)) as [Q _]; [rewrite Eci, <- Hw; apply nth_In; exact Hi | exact Q].
    + intros l [Q|[Q|Q]]; [subst l; exact Ha | subst l; exact Hf | apply Hall; exact Q].
    + exists fl. split; [right; left; reflexivity | exact Hl].
  - (* unit: clause[0] is implied *)
    destruct (wnorm_WI _ _ _ _ _ _ _ H Hn) as [(HB & Hf & Hl) EA]. destruct Hn as (Hi & Eci & Hci & Hc & _ & Hw).
    assert (ci < n_clauses s1) as Hci1.
    { rewrite <- Hw in Hi. destruct (watch_le_member s1 fl ci (bi_wle s1 HB)) as [Q _]; [rewrite Eci, <- Hw; apply nth_In; exact Hi | exact Q]. }
    assert (val_of s1 (lvar a) = None) as Hna by (unfold lit_value in Ha; destruct (val_of s1 (lvar a)); [discriminate|reflexivity]).
    assert (In a (get_clause s1 ci)) as Hin by (rewrite Hc; left; reflexivity).
    assert (lvar a < length (s_vals s1)) as Hra.
    { pose proof (get_clause_in s1 ci (proj2 (bi_ti s1 HB))) as Q. unfold clause_in in Q. rewrite Forall_forall in Q. exact (Q a Hin). }
    assert (lvar a <> lvar fl) as Hne by (intros Q; apply lit_value_assigned in Hf; rewrite <- Q in Hf; contradiction).
    split; [|split].
    + unfold assign_lit. apply BI_assign; auto.
      * apply lvar_nonzero. exact (bi_nz s1 HB ci a Hin).
      * intros r0 Hr0 _. injection Hr0 as Hr0. subst r0. split; [exact Hci1|]. rewrite Hc.
        intros l [Q|[Q|Q]]; [subst l; left; split; reflexivity | subst l; right; exact Hf | right; apply Hall; exact Q].
      * discriminate.
    + unfold assign_lit. rewrite lit_value_assign_other by (intros Q; apply Hne; symmetry; exact Q). exact Hf.
    + unfold assign_lit. rewrite level_of_assign by (rewrite (ti_len_levels s1 (proj1 (bi_ti s1 HB))); exact Hra).
      destruct (Nat.eqb_spec (lvar a) (lvar fl)); [contradiction | exact Hl].
Qed.

Lemma prop_watch_inv2 : forall (I : st -> Prop) (C : st -> nat -> Prop) fl,
  (forall i s, I s -> match watch_step fl i s with
                      | WDone => True | WNext s' => I s' | WStay s' => I s' | WConf s' ci => I s' /\ C s' ci end) ->
  forall fuel i s s' r, I s -> prop_watch fuel fl i s = Some (s', r) -> I s' /\ (forall ci, r = Some ci -> C s' ci).
Proof.
  intros I C fl Hstep. induction fuel as [|f IH]; intros i s s' r HI E; simpl in E; [discriminate|].
  pose proof (Hstep i s HI) as Hp. destruct (watch_step fl i s) as [|s1|s1|s1 ci].
  - injection E as E1 E2. subst. split; [exact HI | discriminate].
  - eapply IH; eauto.
  - eapply IH; eauto.
  - injection E as E1 E2. subst. destruct Hp as [Hp1 Hp2]. split; [exact Hp1|]. intros ci0 Q. injection Q as Q. subst ci0. exact Hp2.
Qed.

Lemma prop_watch_WI : forall fuel fl i s s' r, WI fl s -> prop_watch fuel fl i s = Some (s', r) ->
  WI fl s' /\ (forall ci, r = Some ci -> conflict_ok s' ci).
Proof.
  intros fuel fl i s s' r. apply prop_watch_inv2. intros i0 s0 H0.
  apply (wcase_WI fl i0 s0); [exact H0|]. apply watch_step_wcase. exact (bi_wle s0 (proj1 H0)).
Qed.

(* ---------------------------------------------------------------- binary implications *)
Lemma prop_bin_WI : forall fl imps s s' r, WI fl s -> (forall p, In p imps -> In p (implications s fl)) ->
  prop_bin imps s = (s', r) -> WI fl s' /\ (forall ci, r = Some ci -> conflict_ok s' ci).
Proof.
  intros fl. induction imps as [|[implied ci] imps IH]; intros s s' r H Hsub E; simpl in E.
  - injection E as E1 E2. subst. split; [exact H | discriminate].
  - destruct H as (HB & Hf & Hl).
    destruct (bi_big s HB fl implied ci (Hsub _ (or_introl eq_refl))) as [Hci Hc].
    assert (forall l, In l (get_clause s ci) -> l = fl \/ l = implied) as Hmem.
    { intros l Hin. destruct Hc as [Q|Q]; rewrite Q in Hin; simpl in Hin; destruct Hin as [Q1|[Q1|[]]]; auto. }
    assert (In implied (get_clause s ci)) as Himp by (destruct Hc as [Q|Q]; rewrite Q; simpl; auto).
    assert (In fl (get_clause s ci)) as Hfl by (destruct Hc as [Q|Q]; rewrite Q; simpl; auto).
    destruct (val_of s (lvar implied)) as [b|] eqn:EV.
    + destruct (Bool.eqb b (lpos implied)) eqn:EB.
      * apply (IH s s' r); [split; auto | intros p Hp; apply Hsub; right; exact Hp | exact E].
      * injection E as E1 E2. subst s' r.
        assert (WI fl (bump_confl s)) as HW1 by (apply (WI_asg_eq fl s); auto; [apply bump_confl_asg | apply BI_bump_confl; exact HB]).
        split; [exact HW1|]. intros ci0 Q. injection Q as Q. subst ci0. unfold conflict_ok.
        change (n_clauses (bump_confl s)) with (n_clauses s). change (get_clause (bump_confl s) ci) with (get_clause s ci).
        split; [exact Hci|]. split.
        -- intros l Hin. destruct (Hmem l Hin) as [Q|Q]; subst l; [exact Hf|].
           change (lit_value (bump_confl s) implied) with (lit_value s implied). unfold lit_value. rewrite EV, EB. reflexivity.
        -- exists fl. split; [exact Hfl | exact Hl].
    + assert (lvar implied < length (s_vals s)) as Hra.
      { pose proof (get_clause_in s ci (proj2 (bi_ti s HB))) as Q. unfold clause_in in Q. rewrite Forall_forall in Q. exact (Q implied Himp). }
      assert (lvar implied <> lvar fl) as Hne by (intros Q; apply lit_value_assigned in Hf; rewrite <- Q in Hf; contradiction).
      apply (IH (assign_lit implied (Some ci) s) s' r); [| |exact E].
      * split; [|split].
        -- unfold assign_lit. apply BI_assign; auto.
           ++ apply lvar_nonzero. exact (bi_nz s HB ci implied Himp).
           ++ intros r0 Hr0 _. injection Hr0 as Hr0. subst r0. split; [exact Hci|].
              intros l Hin. destruct (Hmem l Hin) as [Q|Q]; subst l; [right; exact Hf | left; split; reflexivity].
           ++ discriminate.
        -- unfold assign_lit. rewrite lit_value_assign_other by (intros Q; apply Hne; symmetry; exact Q). exact Hf.
        -- unfold assign_lit. rewrite level_of_assign by (rewrite (ti_len_levels s (proj1 (bi_ti s HB))); exact Hra).
           destruct (Nat.eqb_spec (lvar implied) (lvar fl)); [contradiction | exact Hl].
      * intros p Hp. unfold assign_lit. rewrite (db_eq_implications _ _ _ (assign_db_eq _ _ _ s)). apply Hsub. right. exact Hp.
Qed.

(* ---------------------------------------------------------------- one trail entry, the head loop, propagate *)
Lemma trail_at_split : forall s, s_head s < length (s_trail s) ->
  exists tr1 tr2, s_trail s = tr1 ++ trail_at s (s_head s) :: tr2 /\ length tr2 = s_head s.
Proof.
  intros s H. unfold trail_at. set (n := length (s_trail s) - 1 - s_head s).
  assert (n < length (s_trail s)) as Hn by (unfold n; lia).
  destruct (nth_split (s_trail s) 0 Hn) as (l1 & l2 & E & L). exists l1, l2. split; [exact E|].
  assert (length (s_trail s) = length l1 + S (length l2)) as Q by (rewrite E at 1; rewrite app_length; reflexivity).
  unfold n in L. lia.
Qed.

Lemma BI_set_head : forall s, BI s -> s_head s < length (s_trail s) -> BI (set_head s (S (s_head s))).
Proof.
  intros s H Hlt. constructor.
  - apply TI_set_head; [exact (bi_ti s H) | lia].
  - exact (bi_nz s H).
  - exact (bi_v0 s H).
  - eapply watch_le_db_eq; [apply set_head_db_eq | exact (bi_wle s H)].
  - eapply big_ok_db_eq; [apply set_head_db_eq | exact (bi_big s H)].
  - apply (reason_inv_levels_frame s); auto. exact (bi_reason s H).
  - apply (decision_first_levels_frame s); auto. exact (bi_dec s H).
  - apply head_inv_set_head. exact (bi_head s H).
Qed.

Lemma head_step_BI : forall inner s s' r, BI s -> s_head s < length (s_trail s) -> head_step inner s = Some (s', r) ->
  BI s' /\ (forall ci, r = Some ci -> conflict_ok s' ci).
Proof.
  intros inner s s' r H Hlt E. unfold head_step in E.
  destruct (trail_at_split s Hlt) as (tr1 & tr2 & Etr & Ltr). set (v0 := trail_at s (s_head s)) in *.
  set (s1 := set_head s (S (s_head s))) in *.
  assert (BI s1) as H1 by (apply BI_set_head; assumption).
  assert (In v0 (s_trail s)) as Hv0 by (rewrite Etr; apply in_or_app; right; left; reflexivity).
  assert (val_of s1 v0 <> None) as Hass by (apply (ti_assigned s (proj1 (bi_ti s H))); exact Hv0).
  assert (v0 <> 0) as Hnz by (intros Q; rewrite Q in Hass; apply Hass; exact (bi_v0 s H)).
  set (fl := false_lit_of s1 v0) in *.
  assert (WI fl s1) as HW.
  { split; [exact H1|]. split.
    - apply false_lit_of_false; assumption.
    - unfold fl. rewrite lvar_false_lit_of. change (level_of s1 v0) with (level_of s v0). change (cur_level s1) with (cur_level s).
      apply (hi_level s (bi_head s H) tr1 v0 tr2 Etr). lia. }
  destruct (prop_bin (implications s1 fl) s1) as [s2 [ci|]] eqn:EB.
  - injection E as E1 E2. subst s' r. destruct (prop_bin_WI fl _ s1 s2 (Some ci) HW (fun p Hp => Hp) EB) as [HW2 HC]. split; [exact (proj1 HW2) | exact HC].
  - destruct (prop_bin_WI fl _ s1 s2 None HW (fun p Hp => Hp) EB) as [HW2 _].
    destruct (prop_watch_WI inner fl 0 s2 s' r HW2 E) as [HW3 HC]. split; [exact (proj1 HW3) | exact HC].
Qed.

Lemma prop_loop_BI : forall fuel inner s s' c, BI s -> prop_loop fuel inner s = Some (s', c) ->
  BI s' /\ (forall ci, c = CAt ci -> conflict_ok s' ci) /\ (c = CNone -> s_head s' = length (s_trail s')) /\ c <> CAssum.
Proof.
  induction fuel as [|f IH]; intros inner s s' c H E; simpl in E; [discriminate|].
  destruct (Nat.ltb_spec (s_head s) (length (s_trail s))) as [L|L].
  - destruct (head_step inner s) as [[s1 [ci|]]|] eqn:EH; [| |discriminate].
    + injection E as E1 E2. subst s' c. destruct (head_step_BI _ _ _ _ H L EH) as [H1 HC].
      split; [exact H1|]. split; [|split; discriminate]. intros ci0 Q. injection Q as Q. subst ci0. apply HC. reflexivity.
    + destruct (head_step_BI _ _ _ _ H L EH) as [H1 _]. eapply IH; eauto.
  - injection E as E1 E2. subst s' c. split; [exact H|]. split; [discriminate|]. split; [|discriminate].
    intros _. pose proof (ti_head s (proj1 (bi_ti s H))). lia.
Qed.

Definition assum_ok (n : nat) (A : list Z) : Prop := Forall (fun l => l <> 0%Z /\ lit_in n l) A.

Lemma prop_assums_BI : forall A s s' r, assum_ok (nv s) A -> BI s -> cur_level s = 0 -> prop_assums A s = (s', r) ->
  BI s' /\ cur_level s' = 0 /\ nv s' = nv s.
Proof.
  induction A as [|l A IH]; intros s s' r HA H Hc E; simpl in E.
  - injection E as E1 E2. subst. auto.
  - inversion HA as [|? ? [Hl0 Hl] HA']; subst.
    destruct (val_of s (lvar l)) as [b|] eqn:EV.
    + destruct (Bool.eqb b (lpos l)).
      * eapply IH; eauto.
      * injection E as E1 E2. subst. split; [apply BI_bump_confl; exact H | auto].
    + assert (BI (assign_lit l None s)) as H1.
      { unfold assign_lit. apply BI_assign; auto. apply lvar_nonzero; exact Hl0. discriminate. }
      destruct (IH (assign_lit l None s) s' r) as (Q1 & Q2 & Q3); auto.
      * unfold assign_lit. rewrite nv_assign. exact HA'.
      * split; [exact Q1|]. split; [exact Q2|]. rewrite Q3. unfold assign_lit. apply nv_assign.
Qed.

Theorem propagate_BI : forall fuel A s s' c, assum_ok (nv s) A -> BI s -> propagate fuel A s = Some (s', c) ->
  BI s' /\ (forall ci, c = CAt ci -> conflict_ok s' ci) /\ (c = CNone -> s_head s' = length (s_trail s'))
  /\ (c = CAssum -> cur_level s' = 0).
Proof.
  intros fuel A s s' c HA H E. unfold propagate in E.
  destruct (Nat.eqb_spec (cur_level s) 0) as [Hc|Hc].
  - destruct (prop_assums A s) as [s1 [|]] eqn:EA; destruct (prop_assums_BI _ _ _ _ HA H Hc EA) as (H1 & Hc1 & _).
    + injection E as E1 E2. subst s' c. split; [exact H1|]. split; [discriminate|]. split; [discriminate|]. intros _. exact Hc1.
    + destruct (prop_loop_BI _ _ _ _ _ H1 E) as (Q1 & Q2 & Q3 & Q4). split; [exact Q1|]. split; [exact Q2|]. split; [exact Q3|].
      intros Q. contradiction.
  - destruct (prop_loop_BI _ _ _ _ _ H E) as (Q1 & Q2 & Q3 & Q4). split; [exact Q1|]. split; [exact Q2|]. split; [exact Q3|].
    intros Q. contradiction.
Qed.

Lemma BI_analyze_hyps : forall s, BI s -> trail_inv s /\ db_nonzero s /\ reason_ok s /\ decision_first s.
Proof.
  intros s H. split; [exact (proj1 (bi_ti s H))|]. split; [apply nz_db_nonzero; exact (bi_nz s H)|].
  split; [apply reason_inv_ok; exact (bi_reason s H) | exact (bi_dec s H)].
Qed.
