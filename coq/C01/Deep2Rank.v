(* C02 on the faithful model - a measure that strictly decreases at every iteration of `while True:`:
     rank = lexicographic (solution_limit - #solutions, max_conflicts - conflicts, conflict pending?, level | #unassigned)
   flattened with the bounds  conflicts-part <= max_conflicts, level <= n_vars, #unassigned <= n_vars. *)
From Coq Require Import List ZArith Bool Arith Lia Permutation.
Import ListNotations.
From SV Require Import C01.SatSpec C01.Machine C01.DeepCdcl C01.DeepBase C01.DeepTrail C01.DeepTrailProp C01.DeepAnalyze
  C01.DeepWatch C01.DeepReason C01.DeepReasonProp C01.DeepRunOps C01.DeepReduce C01.DeepRun C01.DeepInit C01.DeepJRun
  C01.DeepSteps C01.Deep2Frame C01.Deep2Total.
Close Scope Z_scope.
Open Scope nat_scope.

(* ---------------------------------------------------------------- every level has a variable *)
Definition LV (s : st) : Prop := forall j, 1 <= j <= cur_level s -> exists v, In v (s_trail s) /\ level_of s v = j.

Lemma LV_zero : forall s, cur_level s = 0 -> LV s.
Proof. intros s H j Hj. lia. Qed.

Lemma LV_bound : forall s, LV s -> cur_level s <= length (s_trail s).
Proof.
  intros s H. rewrite <- (seq_length (cur_level s) 1). rewrite <- (map_length (level_of s) (s_trail s)).
  apply NoDup_incl_length; [apply seq_NoDup|]. intros j Hj. apply in_seq in Hj. destruct (H j ltac:(lia)) as [v [Hv Hl]].
  apply in_map_iff. exists v. auto.
Qed.

Lemma LV_ext : forall s s', trail_inv s -> ext s s' -> LV s -> LV s'.
Proof.
  intros s s' HT [_ [e Et] El Ev Elv] H j Hj. unfold cur_level in Hj. rewrite El in Hj. destruct (H j Hj) as [v [Hv Hl]].
  exists v. split; [rewrite Et; apply in_or_app; right; exact Hv|]. rewrite Elv; [exact Hl|]. apply (ti_assigned s HT). exact Hv.
Qed.

Lemma LV_asg_eq : forall s s', asg_eq s s' -> LV s -> LV s'.
Proof.
  intros s s' EA H j Hj. rewrite (asg_eq_cur_level _ _ EA) in Hj. destruct (H j Hj) as [v [Hv Hl]]. exists v.
  destruct EA as (_ & E2 & _ & E4 & _). rewrite E4. split; [exact Hv|]. unfold level_of. rewrite E2. exact Hl.
Qed.

Lemma LV_unassign_to : forall s k, trail_inv s -> LV s -> LV (unassign_to k s).
Proof.
  intros s k HT H. destruct (Nat.lt_ge_cases k (cur_level s)) as [L|L].
  - intros j Hj. rewrite cur_level_unassign_to in Hj by lia. destruct (H j ltac:(lia)) as [v [Hv Hl]].
    destruct (proj1 (unassign_to_stays_or_goes s k v HT Hv L) ltac:(lia)) as [Q _]. exists v. split; [exact Q|].
    destruct (unassign_to_spec s k HT) as [popped (_ & EL & _)]. unfold level_of. rewrite EL. exact Hl.
  - destruct (unassign_to_spec s k HT) as [popped (Etr & EL & _ & ELim & _ & _ & _ & _ & Hge)]. unfold cur_level in L.
    rewrite (Hge L) in Etr. simpl in Etr. intros j Hj. unfold cur_level in Hj. rewrite ELim, firstn_all2 in Hj by lia.
    destruct (H j Hj) as [v [Hv Hl]]. exists v. rewrite <- Etr. split; [exact Hv|]. unfold level_of. rewrite EL. exact Hl.
Qed.

Lemma LV_assign : forall s v b r, trail_inv s -> val_of s v = None -> LV s -> LV (assign v b r s).
Proof. intros s v b r HT Hn H. apply (LV_ext s); [exact HT | apply ext_assign; exact Hn | exact H]. Qed.

Lemma LV_decide : forall s v b, trail_inv s -> val_of s v = None -> v < length (s_vals s) -> LV s -> LV (assign v b None (push_lim s)).
Proof.
  intros s v b HT Hn Hr H j Hj.
  assert (cur_level (assign v b None (push_lim s)) = S (cur_level s)) as Hc by (unfold cur_level; simpl; rewrite app_length; simpl; lia).
  rewrite Hc in Hj. destruct (Nat.eq_dec j (S (cur_level s))) as [E|E].
  - exists v. split; [left; reflexivity|]. rewrite level_of_assign by (simpl; rewrite (ti_len_levels s HT); exact Hr).
    rewrite Nat.eqb_refl. subst j. unfold cur_level. simpl. rewrite app_length. simpl. lia.
  - destruct (H j ltac:(lia)) as [w [Hw Hl]]. exists w. split; [right; exact Hw|].
    unfold level_of, assign. simpl. rewrite nth_upd_neq; [exact Hl|]. intros C. subst w. apply (ti_assigned s HT) in Hw. contradiction.
Qed.

(* ---------------------------------------------------------------- counters that the main loop itself never touches *)
Lemma confl_set_watch_list : forall s l ws, s_confl (set_watch_list s l ws) = s_confl s.
Proof. intros. unfold set_watch_list. destruct (lpos l); reflexivity. Qed.
Lemma confl_add_watch : forall l i s, s_confl (add_watch l i s) = s_confl s.
Proof. intros. unfold add_watch. apply confl_set_watch_list. Qed.
Lemma confl_big_add1 : forall a b i s, s_confl (big_add1 a b i s) = s_confl s.
Proof. intros. unfold big_add1. destruct (lpos a); reflexivity. Qed.
Lemma confl_attach : forall c i s, s_confl (attach c i s) = s_confl s.
Proof.
  intros c i s. destruct (attach_cases c i s) as [E|[(a & b & Ec & E)|(a & b & r & Ec & _ & E)]]; rewrite E; [reflexivity | |].
  - unfold big_add. rewrite !confl_big_add1. reflexivity.
  - rewrite !confl_add_watch. reflexivity.
Qed.
Lemma confl_attach_all : forall cs i s, s_confl (attach_all cs i s) = s_confl s.
Proof. induction cs as [|c cs IH]; intros i s; simpl; [reflexivity|]. rewrite IH. apply confl_attach. Qed.
Lemma confl_reduce_db : forall s, s_confl (reduce_db s) = s_confl s.
Proof. intros s. unfold reduce_db. destruct (length (s_learned s) <? reduce_threshold); [reflexivity|]. rewrite confl_attach_all. reflexivity. Qed.
Lemma confl_unassign_to : forall k s, s_confl (unassign_to k s) = s_confl s.
Proof. intros k s. unfold unassign_to. destruct (unwind _ (s_vals s) (s_phase s) (s_trail s)) as [[a b] c]. reflexivity. Qed.

Lemma length_ins_sorted : forall {X} (key : X -> nat * nat) x l, length (ins_sorted key x l) = S (length l).
Proof. intros X key x l. induction l as [|y l IH]; simpl; [reflexivity|]. destruct (key_le (key y) (key x)); simpl; rewrite ?IH; reflexivity. Qed.

Lemma length_fold_ins : forall {X} (key : X -> nat * nat) l acc,
  length (fold_left (fun a x => ins_sorted key x a) l acc) = length acc + length l.
Proof. intros X key l. induction l as [|x l IH]; intros acc; simpl; [lia|]. rewrite IH, length_ins_sorted. lia. Qed.

Lemma length_keep_loop : forall half l i, length (keep_loop half i l) <= length l.
Proof. intros half l. induction l as [|[k c] l IH]; intros i; simpl; [lia|]. destruct ((i <? half) || (k <=? 3)); simpl; pose proof (IH (S i)); lia. Qed.

Lemma n_clauses_attach_all : forall cs i s, n_clauses (attach_all cs i s) = n_clauses s.
Proof. induction cs as [|c cs IH]; intros i s; simpl; [reflexivity|]. rewrite IH. exact (proj1 (attach_frame c i s)). Qed.

Lemma n_clauses_reduce_db : forall s, n_clauses (reduce_db s) <= n_clauses s.
Proof.
  intros s. unfold reduce_db. destruct (length (s_learned s) <? reduce_threshold); [lia|]. rewrite n_clauses_attach_all.
  unfold n_clauses. simpl. rewrite map_length. apply Nat.add_le_mono_l.
  eapply Nat.le_trans; [apply length_keep_loop|]. unfold stable_sort. rewrite length_fold_ins. simpl. rewrite combine_length. apply Nat.le_min_r.
Qed.

(* ---------------------------------------------------------------- the measure *)
Definition unassigned (n : nat) (s : st) : nat := length (filter (fun v => is_none (val_of s v)) (seq 1 n)).

Lemma unassigned_le : forall n s, unassigned n s <= n.
Proof. intros n s. unfold unassigned. rewrite <- (seq_length n 1) at 2. apply filter_length_le'. Qed.

Lemma filter_length_mono : forall {X} (f g : X -> bool) l, (forall x, In x l -> g x = true -> f x = true) ->
  length (filter g l) <= length (filter f l).
Proof.
  intros X f g l. induction l as [|x l IH]; intros H; simpl; [lia|].
  assert (length (filter g l) <= length (filter f l)) as Q by (apply IH; intros y Hy; apply H; right; exact Hy).
  destruct (g x) eqn:Eg; [rewrite (H x (or_introl eq_refl) Eg); simpl; lia | destruct (f x); simpl; lia].
Qed.

Lemma filter_length_strict : forall {X} (f g : X -> bool) l x, (forall y, In y l -> g y = true -> f y = true) ->
  In x l -> f x = true -> g x = false -> length (filter g l) < length (filter f l).
Proof.
  intros X f g l. induction l as [|y l IH]; intros x H Hin Hf Hg; [contradiction|]. simpl.
  assert (length (filter g l) <= length (filter f l)) as Q by (apply filter_length_mono; intros z Hz; apply H; right; exact Hz).
  destruct Hin as [E|Hin].
  - subst y. rewrite Hf, Hg. simpl. lia.
  - pose proof (IH x (fun z Hz => H z (or_intror Hz)) Hin Hf Hg) as Q2.
    destruct (g y) eqn:Eg; [rewrite (H y (or_introl eq_refl) Eg); simpl; lia | destruct (f y); simpl; lia].
Qed.

Lemma unassigned_ext : forall n s s', ext s s' -> unassigned n s' <= unassigned n s.
Proof.
  intros n s s' E. unfold unassigned. apply filter_length_mono. intros v _ Hv.
  destruct (val_of s v) as [b|] eqn:Q; [|reflexivity]. rewrite (ex_val s s' E v) in Hv by congruence. rewrite Q in Hv. discriminate.
Qed.

Lemma unassigned_decide : forall n s v b, 1 <= v <= n -> val_of s v = None -> v < length (s_vals s) ->
  unassigned n (assign v b None (push_lim s)) < unassigned n s.
Proof.
  intros n s v b Hv Hn Hr. unfold unassigned. apply (filter_length_strict _ _ _ v).
  - intros w _ Hw. rewrite val_of_assign in Hw by exact Hr. destruct (v =? w); [discriminate | exact Hw].
  - apply in_seq. lia.
  - rewrite Hn. reflexivity.
  - rewrite val_of_assign by exact Hr. rewrite Nat.eqb_refl. reflexivity.
Qed.

Definition Mof (P : params) : nat := Z.to_nat (p_max_conflicts P).
Definition Limof (P : params) : nat := Z.to_nat (p_limit P).
Definition mu_a (P : params) (L : loop) : nat := Limof P - length (l_sols L).
Definition mu_b (P : params) (L : loop) : nat := Mof P - Z.to_nat (s_confl (l_st L)).
Definition mu_f (L : loop) : nat := match l_conflict L with CNone => 0 | _ => 1 end.
Definition mu_d (P : params) (L : loop) : nat :=
  match l_conflict L with CNone => unassigned (p_nvars P) (l_st L) | _ => cur_level (l_st L) end.

Definition rank4 (M n a b f d : nat) : nat := ((a * S M + b) * 2 + f) * S n + d.
Definition rank (P : params) (L : loop) : nat := rank4 (Mof P) (p_nvars P) (mu_a P L) (mu_b P L) (mu_f L) (mu_d P L).

Lemma rank4_lt : forall M n a b f d a' b' f' d', b' <= M -> f' <= 1 -> d' <= n ->
  (a' < a \/ (a' = a /\ (b' < b \/ (b' = b /\ (f' < f \/ (f' = f /\ d' < d)))))) ->
  rank4 M n a' b' f' d' < rank4 M n a b f d.
Proof. intros M n a b f d a' b' f' d' Hb Hf Hd H. unfold rank4. nia. Qed.

Lemma rank4_le : forall M n a b f d, a <= 0 + a -> b <= M -> f <= 1 -> d <= n -> forall A, a <= A ->
  rank4 M n a b f d <= ((A * S M + M) * 2 + 1) * S n + n.
Proof. intros. unfold rank4. nia. Qed.

(* ---------------------------------------------------------------- the learn step, once more: levels and counters *)
Lemma learn_facts : forall s ci lc bt lbd, BI s -> LV s -> conflict_ok s ci -> analyze s ci = Some (lc, bt, lbd) ->
  let s1 := unassign_to bt s in
  let cidx := n_clauses s1 in
  let s2 := attach lc cidx (append_learned lc lbd s1) in
  let s3 := match lc with l0 :: _ => assign_lit l0 (Some cidx) s2 | [] => s2 end in
  bt < cur_level s /\ LV s3 /\ s_confl s3 = s_confl s /\ n_clauses s3 = S (n_clauses s).
Proof.
  intros s ci lc bt lbd H HLV (Hci & Hfalse & Hlev) E s1 cidx s2 s3.
  destruct (BI_analyze_hyps s H) as (HT & Hnz & HR & HD).
  destruct (analyze_some _ _ _ _ _ E) as (Hc1 & Elc & _).
  destruct (analyze_lits_spec s ci HT Hnz HR HD Hc1 (get_clause_in_db s ci Hci) Hfalse) as [_ Hshape].
  destruct (Hshape Hlev) as (u & ll' & Ell & Hu & Hlu & Hll). rewrite <- Elc in Ell.
  destruct (analyze_bt s ci lc bt lbd u ll' HT E Ell Hu Hlu Hll) as [Hbt Hlow].
  split; [exact Hbt|].
  assert (asg_eq s1 s2) as EA by (unfold s2; eapply asg_eq_trans; [apply append_learned_asg | apply attach_asg]).
  assert (LV s2) as HLV2 by (apply (LV_asg_eq s1); [exact EA | apply LV_unassign_to; assumption]).
  assert (cur_level s2 = bt) as Hc2 by (rewrite (asg_eq_cur_level _ _ EA); apply cur_level_unassign_to; lia).
  assert (s_confl s2 = s_confl s) as Cf2 by (unfold s2; rewrite confl_attach; simpl; apply confl_unassign_to).
  assert (n_clauses s2 = S (n_clauses s)) as N2.
  { unfold s2. rewrite (proj1 (attach_frame _ _ _)), n_clauses_append. f_equal. apply (db_eq_n_clauses _ _ (unassign_to_db_eq bt s)). }
  unfold s3. rewrite Ell. split; [|split; [exact Cf2 | exact N2]].
  (* the asserted literal belongs to a variable of the conflict level: the witnesses of the lower levels are other variables *)
  intros j Hj. change (cur_level (assign_lit (false_lit_of s u) (Some cidx) s2)) with (cur_level s2) in Hj. rewrite Hc2 in Hj.
  destruct (HLV2 j ltac:(lia)) as [w [Hw Hl]]. exists w. split; [right; exact Hw|].
  unfold assign_lit, level_of, assign. simpl. rewrite lvar_false_lit_of. rewrite nth_upd_neq; [exact Hl|].
  intros C. subst w. rewrite (asg_eq_level_of _ _ _ EA) in Hl.
  destruct (unassign_to_spec s bt HT) as [popped (_ & EL & _)]. unfold level_of in Hl, Hlu. fold s1 in EL. rewrite EL in Hl. lia.
Qed.

Lemma blk_confl : forall s n, s_confl (blk_s4 s n) = s_confl s
  /\ s_confl (set_last_learned (unassign_to 0 (append_learned (blocking_of s n) 0 s))
                (sort_blocking (unassign_to 0 (append_learned (blocking_of s n) 0 s)) (blocking_of s n))) = s_confl s.
Proof.
  intros s n.
  assert (s_confl (set_last_learned (unassign_to 0 (append_learned (blocking_of s n) 0 s))
                (sort_blocking (unassign_to 0 (append_learned (blocking_of s n) 0 s)) (blocking_of s n))) = s_confl s) as Q2.
  { simpl. rewrite confl_unassign_to. reflexivity. }
  split; [|exact Q2]. unfold blk_s4, blk_s3.
  destruct (2 <=? _); rewrite ?confl_add_watch; destruct (blk_open s n =? 1); simpl; rewrite ?confl_unassign_to; reflexivity.
Qed.

(* ---------------------------------------------------------------- the measure decreases *)
Record LT (L : loop) : Prop := mkLT {
  lt_lv : LV (l_st L);
  lt_confl : (0 <= s_confl (l_st L))%Z;
  lt_luby : (1 <= l_luby_idx L)%Z
}.

Definition lexlt (P : params) (L' L : loop) : Prop :=
  mu_a P L' < mu_a P L
  \/ (mu_a P L' = mu_a P L /\ (mu_b P L' < mu_b P L
      \/ (mu_b P L' = mu_b P L /\ (mu_f L' < mu_f L \/ (mu_f L' = mu_f L /\ mu_d P L' < mu_d P L))))).

Lemma after_propagate_LT : forall fuel A x s' c, BI x -> LV x -> (0 <= s_confl x)%Z -> propagate fuel A x = Some (s', c) ->
  LV s' /\ (0 <= s_confl s')%Z /\ s_confl s' = (s_confl x + match c with CNone => 0 | _ => 1 end)%Z
  /\ n_clauses s' = n_clauses x /\ cur_level s' = cur_level x.
Proof.
  intros fuel A x s' c H HLV Hc E. destruct (propagate_frame _ _ _ _ _ E) as (EX & _ & Ec).
  split; [apply (LV_ext x); [exact (proj1 (bi_ti x H)) | exact EX | exact HLV]|].
  split; [rewrite Ec; destruct c; lia|]. split; [exact Ec|]. split; [exact (ex_n _ _ EX)|]. unfold cur_level. rewrite (ex_lim _ _ EX). reflexivity.
Qed.

Theorem main_step_lex : forall fuel P L L', LI P L -> LT L -> main_step fuel P L = Cont L' ->
  LT L' /\ lexlt P L' L /\ n_clauses (l_st L') <= S (n_clauses (l_st L)).
Proof.
  intros fuel P L L' HL [HLV Hcf Hlu] E. destruct HL as [HB Hnv HA Hdec Hconf]. unfold main_step in E.
  pose proof (proj1 (bi_ti _ HB)) as HT.
  destruct (l_conflict L) as [| |ci] eqn:EC.
  - destruct (all_assigned (l_st L) (p_nvars P)) eqn:EAll.
    + (* a model is recorded: fewer solutions to go *)
      destruct (Z.leb_spec (p_limit P) (Z.of_nat (length (solution_of (l_st L) (p_nvars P) :: l_sols L)))) as [Hlim|Hlim]; [discriminate|].
      fold (blk_open (l_st L) (p_nvars P)) in E. destruct (blk_confl (l_st L) (p_nvars P)) as [Cf4 Cf2].
      assert (forall Lx, l_sols Lx = solution_of (l_st L) (p_nvars P) :: l_sols L -> mu_a P Lx < mu_a P L) as Ha.
      { intros Lx Es. unfold mu_a, Limof. rewrite Es. simpl length in *. lia. }
      destruct (Nat.eqb_spec (blk_open (l_st L) (p_nvars P)) 0) as [Ho|Ho].
      * injection E as E. subst L'. destruct (blk_s2 (l_st L) (p_nvars P) HB Hnv) as (_ & Hc2 & _).
        split; [constructor; cbn [l_st l_luby_idx l_conflict l_sols]; [apply LV_zero; exact Hc2 | rewrite Cf2; exact Hcf | exact Hlu]|].
        split; [left; apply Ha; reflexivity|]. cbn [l_st]. rewrite (proj1 (blk_nclauses2 (l_st L) (p_nvars P) HB Hnv)). lia.
      * unfold with_prop in E. destruct (blk_s4_BI (l_st L) (p_nvars P) HB Hnv Ho) as (H4 & Hc4 & Hn4).
        pose proof (bj_n4 (l_st L) (p_nvars P) HB Hnv Ho) as N4. unfold blk_s4, blk_s3 in H4, Hc4, N4, Cf4.
        match type of E with match propagate ?f ?A ?x with _ => _ end = _ => destruct (propagate f A x) as [[s5 c]|] eqn:EP end; [|discriminate].
        injection E as E. subst L'.
        destruct (after_propagate_LT _ _ _ _ _ H4 (LV_zero _ Hc4) ltac:(rewrite Cf4; exact Hcf) EP) as (Q1 & Q2 & Q3 & Q4 & Q5).
        split; [constructor; cbn [l_st l_luby_idx l_conflict l_sols]; assumption|]. split; [left; apply Ha; reflexivity|]. cbn [l_st]. rewrite Q4, N4. lia.
    + (* a decision *)
      destruct (l_oracle L) as [|v orc]; [discriminate|].
      match type of E with (if ?c then _ else _) = _ => destruct c eqn:EV end; [|discriminate].
      apply andb_prop in EV. destruct EV as [EV EV3]. apply andb_prop in EV. destruct EV as [EV1 EV2].
      apply Nat.leb_le in EV1. apply Nat.leb_le in EV2.
      assert (val_of (l_st L) v = None) as Hvn by (destruct (val_of (l_st L) v); [discriminate | reflexivity]).
      assert (v < nv (l_st L)) as Hvr by (rewrite Hnv; lia).
      destruct (decide_BI (l_st L) v (nth v (s_phase (l_st L)) true) HB Hconf EV1 Hvr Hvn) as (H1 & Hc1 & Hn1).
      pose proof (LV_decide (l_st L) v (nth v (s_phase (l_st L)) true) HT Hvn Hvr HLV) as LV1.
      unfold with_prop in E.
      match type of E with match propagate ?f ?A ?x with _ => _ end = _ => destruct (propagate f A x) as [[s2 c]|] eqn:EP end; [|discriminate].
      destruct (Z.leb_spec (p_max_conflicts P) (s_confl s2)) as [Hmc|Hmc]; [discriminate|].
      injection E as E. subst L'.
      destruct (after_propagate_LT _ _ _ _ _ H1 LV1 Hcf EP) as (Q1 & Q2 & Q3 & Q4 & Q5). simpl in Q3.
      split; [constructor; cbn [l_st l_luby_idx l_conflict l_sols]; assumption|]. split; [|cbn [l_st]; rewrite Q4; apply Nat.le_succ_diag_r].
      right. split; [reflexivity|]. unfold mu_b, mu_f, mu_d, Mof. cbn [l_st l_conflict]. rewrite EC. destruct c as [| |cj].
      * right. split; [rewrite Q3; f_equal; f_equal; lia|]. right. split; [reflexivity|].
        destruct (propagate_frame _ _ _ _ _ EP) as (EX & _).
        eapply Nat.le_lt_trans; [apply (unassigned_ext _ _ _ EX)|]. apply unassigned_decide; [lia | exact Hvn | exact Hvr].
      * left. rewrite Q3 in *. lia.
      * left. rewrite Q3 in *. lia.
  - discriminate.
  - (* a conflict is analysed *)
    destruct (Nat.eqb_spec (l_dec_level L) 0) as [Hd0|Hd0]; [discriminate|].
    destruct (analyze (l_st L) ci) as [[[lc bt] lbd]|] eqn:EA; [|discriminate].
    destruct Hconf as [Hconf|Hconf]; [lia|].
    pose proof (learn_BI (l_st L) ci lc bt lbd HB Hconf EA) as (H3 & Hc3 & Hn3). cbv zeta in H3, Hc3, Hn3.
    pose proof (learn_facts (l_st L) ci lc bt lbd HB HLV Hconf EA) as (Hbt & LV3 & Cf3 & N3). cbv zeta in LV3, Cf3, N3.
    assert (forall s5 c Lx, l_st Lx = s5 -> l_conflict Lx = c -> l_sols Lx = l_sols L ->
              s_confl s5 = (s_confl (l_st L) + match c with CNone => 0 | _ => 1 end)%Z -> cur_level s5 <= bt -> lexlt P Lx L) as Hlex.
    { intros s5 c Lx E1 E2 E3 Q3 Q5. right. split; [unfold mu_a; rewrite E3; reflexivity|].
      unfold mu_b, mu_f, mu_d, Mof. rewrite E1, E2, EC. destruct c as [| |cj].
      - right. split; [rewrite Q3; f_equal; f_equal; lia|]. left. lia.
      - destruct (Nat.eq_dec (Z.to_nat (p_max_conflicts P) - Z.to_nat (s_confl s5)) (Z.to_nat (p_max_conflicts P) - Z.to_nat (s_confl (l_st L)))) as [Q|Q].
        + right. split; [exact Q|]. right. split; [reflexivity | lia].
        + left. rewrite Q3 in *. lia.
      - destruct (Nat.eq_dec (Z.to_nat (p_max_conflicts P) - Z.to_nat (s_confl s5)) (Z.to_nat (p_max_conflicts P) - Z.to_nat (s_confl (l_st L)))) as [Q|Q].
        + right. split; [exact Q|]. right. split; [reflexivity | lia].
        + left. rewrite Q3 in *. lia. }
    match type of E with (if ?c then _ else _) = _ => destruct c end.
    + match type of E with (if ?c then _ else _) = _ => destruct c end; [discriminate|].
      destruct (luby_val (l_luby_idx L + 1)) as [lv|]; [|discriminate].
      unfold with_prop in E.
      match type of E with match propagate ?f ?A (reduce_db (unassign_to 0 ?x)) with _ => _ end = _ =>
        destruct (propagate f A (reduce_db (unassign_to 0 x))) as [[s5 c]|] eqn:EP; [|discriminate];
        assert (BI (unassign_to 0 x)) as H4 by (apply BI_unassign_to; exact H3);
        assert (cur_level (unassign_to 0 x) = 0) as Hc4 by (apply cur_level_unassign_to; lia);
        assert (n_clauses (reduce_db (unassign_to 0 x)) <= S (n_clauses (l_st L))) as N4
          by (eapply Nat.le_trans; [apply n_clauses_reduce_db|]; rewrite (db_eq_n_clauses _ _ (unassign_to_db_eq 0 x)), N3; lia);
        assert (s_confl (reduce_db (unassign_to 0 x)) = s_confl (l_st L)) as Cf4 by (rewrite confl_reduce_db, confl_unassign_to; exact Cf3)
      end.
      injection E as E. subst L'.
      match type of EP with propagate _ _ ?y = _ =>
        assert (cur_level y = 0) as Hc5 by (rewrite (asg_eq_cur_level _ _ (reduce_db_asg _)); exact Hc4);
        destruct (after_propagate_LT _ _ _ _ _ (reduce_db_BI _ H4 Hc4) (LV_zero _ Hc5) ltac:(rewrite Cf4; exact Hcf) EP) as (Q1 & Q2 & Q3 & Q4 & Q5)
      end.
      split; [constructor; cbn [l_st l_luby_idx l_conflict l_sols]; [exact Q1 | exact Q2 | lia]|]. split; [|cbn [l_st]; rewrite Q4; exact N4].
      apply (Hlex s5 c); cbn [l_st l_conflict l_sols]; auto; [rewrite Q3, Cf4; reflexivity | rewrite Q5, Hc5; lia].
    + unfold with_prop in E.
      match type of E with match propagate ?f ?A ?x with _ => _ end = _ => destruct (propagate f A x) as [[s5 c]|] eqn:EP end; [|discriminate].
      injection E as E. subst L'.
      destruct (after_propagate_LT _ _ _ _ _ H3 LV3 ltac:(rewrite Cf3; exact Hcf) EP) as (Q1 & Q2 & Q3 & Q4 & Q5).
      split; [constructor; cbn [l_st l_luby_idx l_conflict l_sols]; assumption|]. split; [|cbn [l_st]; rewrite Q4, N3; lia].
      apply (Hlex s5 c); cbn [l_st l_conflict l_sols]; auto; [rewrite Q3, Cf3; reflexivity | rewrite Q5, Hc3; lia].
Qed.
