(* C01 / C02 - the guarded machine (shape G) replaying solve_sat's event trace (definitions only).

   solvor/sat.py under SOLVOR_VERIF=1 emits
     ("init", n_vars, pure literals assigned, unit-clause literals, assumptions)   -> EInit
     ("learn", clause, False)   conflict analysis result                            -> ELearn c false
     ("learn", clause, True)    blocking clause of the model just recorded          -> ELearn c true
     ("solution", dict)         model appended to all_solutions                     -> ESolution m
     ("verdict", status)        just before `return Result(...)`                    -> EVerdict st
   The machine accepts an event only if its guard (a boolean computation) holds. *)
From Coq Require Import List ZArith Bool.
Import ListNotations.
From SV Require Import C01.SatSpec C01.Rup.
Open Scope Z_scope.

Inductive status := OPTIMAL | INFEASIBLE | MAX_ITER.

Inductive event :=
| EInit (n : Z) (pure : list lit) (unit_cls : list lit) (assum : list lit)
| ELearn (c : clause) (blocking : bool)
| ESolution (m : model)
| EVerdict (st : status).

(* which `return Result(...)` of the code was taken *)
Inductive route :=
| RLimit        (* len(all_solutions) >= solution_limit, right after a model was recorded *)
| RExhausted    (* level-0 conflict / no open literal in a blocking clause, with models recorded *)
| RInfeasible   (* level-0 conflict, assumption conflict or early exit, no model recorded *)
| RMaxIter.     (* max_conflicts / max_restarts *)

Record state := mkState {
  inited : bool;                 (* EInit seen *)
  pures : list lit;              (* pure literals asserted at level 0 *)
  db : list (clause * bool);     (* accepted learned clauses, newest first; true = blocking clause *)
  sols : list model;             (* accepted models, newest first *)
  pending : bool;                (* the newest model has no blocking clause yet *)
  verdict : option route
}.

Definition init_state : state := mkState false [] [] [] false None.

Definition unit_lits (N : cnf) : list lit :=
  flat_map (fun c => match c with [l] => [l] | _ => [] end) N.

Definition occurs (l : lit) (N : cnf) : bool := existsb (mem l) N.

(* every recorded pure literal is non-zero, its negation occurs nowhere in N nor in the list,
   and its variable is not an assumption variable *)
Definition pure_okb (N : cnf) (A P : list lit) : bool :=
  forallb (fun p => negb (p =? 0) && negb (occurs (- p) N) && negb (mem (- p) P)
                    && negb (existsb (fun a => Z.abs a =? Z.abs p) A)) P.

Definition blockings (d : list (clause * bool)) : cnf := map fst (filter snd d).

(* what unit propagation may use: level-0 units first, then learned clauses newest first, then N *)
Definition base (N : cnf) (A P : list lit) : cnf := units A ++ units P ++ N.
Definition premises (N : cnf) (A : list lit) (s : state) : cnf :=
  units A ++ units (pures s) ++ map fst (db s) ++ N.

Definition is_nil {X} (l : list X) : bool := match l with [] => true | _ => false end.

(* chk = true: the full machine (C02).  chk = false: the RUP guards of learned clauses and of the
   INFEASIBLE / enumeration-complete verdicts are not evaluated (C01 needs none of them). *)
Definition step (chk : bool) (N : cnf) (A : list lit) (limit : Z) (s : state) (e : event) : option state :=
  match verdict s with
  | Some _ => None
  | None =>
    match e with
    | EInit n pu un asm =>
        if negb (inited s) && (n =? max_var N) && (0 <? n) && zlist_eqb asm A
           && zlist_eqb un (unit_lits N) && pure_okb N A pu
        then Some (mkState true pu [] [] false None) else None
    | ELearn c false =>
        if inited s && negb (pending s) && (if chk then rup (premises N A s) c else true)
        then Some (mkState true (pures s) ((c, false) :: db s) (sols s) false None) else None
    | ELearn c true =>
        match pending s, sols s with
        | true, m :: _ =>
            (* pure literals are only asserted when solution_limit <= 1, where no blocking clause is ever built *)
            if zlist_eqb c (map Z.opp m) && (Z.of_nat (length (sols s)) <? limit) && is_nil (pures s)
            then Some (mkState (inited s) (pures s) ((c, true) :: db s) (sols s) false None) else None
        | _, _ => None
        end
    | ESolution m =>
        if inited s && negb (pending s) && wf_model (max_var N) m && consistent_b m
           && models_b (asg_of m) N && agrees_b (asg_of m) A && models_b (asg_of m) (blockings (db s))
        then Some (mkState true (pures s) (db s) (m :: sols s) true None) else None
    | EVerdict OPTIMAL =>
        if pending s then
          if limit <=? Z.of_nat (length (sols s))
          then Some (mkState (inited s) (pures s) (db s) (sols s) (pending s) (Some RLimit)) else None
        else
          if inited s && negb (is_nil (sols s)) && (if chk then rup (premises N A s) [] else true)
          then Some (mkState (inited s) (pures s) (db s) (sols s) false (Some RExhausted)) else None
    | EVerdict INFEASIBLE =>
        if negb (pending s) && is_nil (sols s) && (if chk then rup (premises N A s) [] else true)
        then Some (mkState (inited s) (pures s) (db s) (sols s) false (Some RInfeasible)) else None
    | EVerdict MAX_ITER =>
        Some (mkState (inited s) (pures s) (db s) (sols s) (pending s) (Some RMaxIter))
    end
  end.

Fixpoint run_from (chk : bool) (N : cnf) (A : list lit) (limit : Z) (s : state) (evs : list event) : option state :=
  match evs with
  | [] => Some s
  | e :: evs' => match step chk N A limit s e with
                 | Some s' => run_from chk N A limit s' evs'
                 | None => None
                 end
  end.

Definition run (chk : bool) (N : cnf) (A : list lit) (limit : Z) (evs : list event) : option state :=
  run_from chk N A limit init_state evs.

(* index of the first rejected event, None if the whole trace is accepted *)
Fixpoint first_reject_from (chk : bool) (N : cnf) (A : list lit) (limit : Z) (s : state) (evs : list event) (i : nat) : option nat :=
  match evs with
  | [] => None
  | e :: evs' => match step chk N A limit s e with
                 | Some s' => first_reject_from chk N A limit s' evs' (S i)
                 | None => Some i
                 end
  end.
Definition first_reject chk N A limit evs := first_reject_from chk N A limit init_state evs 0.

(* ---- the Result the code hands back, as a function of the accepted trace ---- *)
Record result := mkResult {
  r_status : status;
  r_solution : option model;
  r_objective : Z;                       (* number of assigned variables of r_solution, 0 if None *)
  r_solutions : option (list model)      (* Result.solutions (oldest first), None if not set *)
}.

Definition with_solutions (st : status) (m : model) (all : option (list model)) : result :=
  mkResult st (Some m) (Z.of_nat (length m)) all.

Definition result_of (limit : Z) (s : state) : option result :=
  match verdict s with
  | None => None
  | Some r =>
      Some match r, sols s with
           | RLimit, m :: _ =>        (* `sol`: the model recorded last *)
               with_solutions OPTIMAL m (if limit =? 1 then None else Some (rev (sols s)))
           | RExhausted, m :: rest => (* all_solutions[0] *)
               with_solutions OPTIMAL (last rest m) (Some (rev (sols s)))
           | RMaxIter, m :: rest =>
               with_solutions MAX_ITER (last rest m) (Some (rev (sols s)))
           | RMaxIter, [] => mkResult MAX_ITER None 0 None
           | RInfeasible, _ => mkResult INFEASIBLE None 0 None
           | _, [] => mkResult OPTIMAL None 0 None   (* unreachable: guards require a model *)
           end
  end.

(* ---- boolean equality of results (for the correspondence lemmas) ---- *)
Definition status_eqb (a b : status) : bool :=
  match a, b with
  | OPTIMAL, OPTIMAL | INFEASIBLE, INFEASIBLE | MAX_ITER, MAX_ITER => true
  | _, _ => false
  end.

Fixpoint models_eqb (a b : list model) : bool :=
  match a, b with
  | [], [] => true
  | x :: xs, y :: ys => zlist_eqb x y && models_eqb xs ys
  | _, _ => false
  end.

Definition opt_eqb {X} (eqb : X -> X -> bool) (a b : option X) : bool :=
  match a, b with
  | None, None => true
  | Some x, Some y => eqb x y
  | _, _ => false
  end.

Definition result_eqb (a b : result) : bool :=
  status_eqb (r_status a) (r_status b) && opt_eqb zlist_eqb (r_solution a) (r_solution b)
  && (r_objective a =? r_objective b) && opt_eqb models_eqb (r_solutions a) (r_solutions b).

(* the correspondence check: the trace is accepted and the machine's result is the code's result *)
Definition trace_ok (chk : bool) (N : cnf) (A : list lit) (limit : Z) (evs : list event) (impl : result) : bool :=
  match run chk N A limit evs with
  | Some s => opt_eqb result_eqb (result_of limit s) (Some impl)
  | None => false
  end.

(* ---- spec_check: judges an implementation result directly, independent of the machine ---- *)
Definition model_ok (N : cnf) (A : list lit) (m : model) : bool :=
  wf_model (max_var N) m && consistent_b m && models_b (asg_of m) N && agrees_b (asg_of m) A.

Fixpoint nodup_b (l : list model) : bool :=
  match l with
  | [] => true
  | m :: r => negb (existsb (zlist_eqb m) r) && nodup_b r
  end.

Definition spec_check (N : cnf) (A : list lit) (r : result) : bool :=
  match r_solution r with Some m => model_ok N A m | None => true end
  && match r_solutions r with Some l => forallb (model_ok N A) l && nodup_b l | None => true end.
