(* C02 (stretch) - the budget counters of solve_sat recomputed from the event trace (definitions only).
   conflicts_since_restart, luby_idx, next_restart and restarts are functions of the number of analysed
   conflicts (= ELearn _ false events) and luby_factor; `conflicts` lies in {L, L+1} when the code tests
   max_conflicts (every counted conflict is either analysed - one learn event - or ends the call).
   A MAX_ITER verdict is accepted only if one of the two budgets is met at that point. *)
From Coq Require Import List ZArith Bool.
Import ListNotations.
From SV Require Import C01.SatSpec C01.Machine C01.Luby.
Open Scope Z_scope.

Record bstate := mkB {
  b_learns : Z;      (* analysed conflicts so far *)
  b_csr : Z;         (* conflicts_since_restart *)
  b_idx : Z;         (* luby_idx *)
  b_next : Z;        (* next_restart = luby_factor * luby(luby_idx) *)
  b_restarts : Z;    (* restarts *)
  b_hit : bool       (* the last analysed conflict found restarts >= max_restarts at a restart point *)
}.

Definition luby_val (i : Z) : option Z := luby (luby_fuel i) i.

Definition b_init (lf : Z) : option bstate :=
  match luby_val 1 with
  | Some v => Some (mkB 0 0 1 (lf * v) 0 false)
  | None => None
  end.

Definition b_step (lf mc mr : Z) (b : bstate) (e : event) : option bstate :=
  match e with
  | ELearn _ false =>
      if b_hit b then None
      else
        let csr := b_csr b + 1 in
        if b_next b <=? csr then
          if mr <=? b_restarts b
          then Some (mkB (b_learns b + 1) csr (b_idx b) (b_next b) (b_restarts b) true)
          else match luby_val (b_idx b + 1) with
               | Some v => Some (mkB (b_learns b + 1) 0 (b_idx b + 1) (lf * v) (b_restarts b + 1) false)
               | None => None
               end
        else Some (mkB (b_learns b + 1) csr (b_idx b) (b_next b) (b_restarts b) false)
  | EVerdict MAX_ITER => if b_hit b || (mc <=? b_learns b + 1) then Some b else None
  | _ => if b_hit b then None else Some b
  end.

Fixpoint b_run_from (lf mc mr : Z) (b : bstate) (evs : list event) : option bstate :=
  match evs with
  | [] => Some b
  | e :: evs' => match b_step lf mc mr b e with
                 | Some b' => b_run_from lf mc mr b' evs'
                 | None => None
                 end
  end.

Definition b_run (lf mc mr : Z) (evs : list event) : option bstate :=
  match b_init lf with
  | Some b => b_run_from lf mc mr b evs
  | None => None
  end.

Definition budget_ok (lf mc mr : Z) (evs : list event) : bool :=
  match b_run lf mc mr evs with Some _ => true | None => false end.
