(* C01 / C02 - theorems about every accepted trace of the guarded machine. *)
From Coq Require Import List ZArith Bool Lia.
Import ListNotations.
From SV Require Import C01.SatSpec C01.Rup C01.RupProofs C01.Machine C01.SatLemmas C01.MachineInv.
Open Scope Z_scope.

(* ================= C01 ================= *)

Theorem models_thm : forall chk N A limit evs s, run chk N A limit evs = Some s ->
  forall m, In m (sols s) -> models (asg_of m) N /\ agrees (asg_of m) A.
Proof.
  intros chk N A limit evs s Hrun m Hin.
  destruct (inv_sols chk N A s (run_Inv chk N A limit evs s Hrun) m Hin) as [_ [_ [H1 H2]]]. split; assumption.
Qed.

(* every recorded model assigns exactly the variables 1..max_var N, in this order *)
Theorem total_thm : forall chk N A limit evs s, run chk N A limit evs = Some s ->
  forall m, In m (sols s) -> map Z.abs m = zseq 1 (Z.to_nat (max_var N)).
Proof.
  intros chk N A limit evs s Hrun m Hin.
  destruct (inv_sols chk N A s (run_Inv chk N A limit evs s Hrun) m Hin) as [Hwf _].
  apply zlist_eqb_eq. exact Hwf.
Qed.

Lemma distinct_NoDup : forall ss, distinct ss -> NoDup ss.
Proof.
  induction ss as [|m r IH]; intros H; [constructor|].
  destruct H as [Hd Hr]. constructor; [|apply IH; exact Hr].
  intros Hin. exact (differ_neq m m (Hd m Hin) eq_refl).
Qed.

Definition var_of (l : lit) : Z := if 0 <? l then l else - l.

Lemma differ_var : forall m m', differ m m' -> exists v, asg_of m v <> asg_of m' v.
Proof.
  intros m m' [l [_ [H1 H2]]]. exists (var_of l). intros Heq.
  unfold lit_true in H1, H2. unfold var_of in Heq. destruct (0 <? l); rewrite Heq in H2; congruence.
Qed.

Lemma distinct_pairwise : forall ss, distinct ss -> forall m m', In m ss -> In m' ss -> m <> m' ->
  exists v, asg_of m v <> asg_of m' v.
Proof.
  induction ss as [|m0 r IH]; intros H m m' Hm Hm' Hne; [destruct Hm|].
  destruct H as [Hd Hr]. destruct Hm as [Hm | Hm]; destruct Hm' as [Hm' | Hm'].
  - subst. congruence.
  - subst m0. apply differ_var. apply Hd. exact Hm'.
  - subst m0. destruct (differ_var m' m (Hd m Hm)) as [v Hv]. exists v. congruence.
  - apply (IH Hr); assumption.
Qed.

Theorem distinct_thm : forall chk N A limit evs s, run chk N A limit evs = Some s ->
  NoDup (sols s)
  /\ forall m m', In m (sols s) -> In m' (sols s) -> m <> m' -> exists v, asg_of m v <> asg_of m' v.
Proof.
  intros chk N A limit evs s Hrun. pose proof (inv_distinct chk N A s (run_Inv chk N A limit evs s Hrun)) as Hd.
  split; [apply distinct_NoDup; exact Hd | apply distinct_pairwise; exact Hd].
Qed.

Lemma last_In : forall {X} (l : list X) d, In (last l d) (d :: l).
Proof.
  intros X l. induction l as [|x l IH]; intros d; [left; reflexivity|].
  destruct l as [|y l'].
  - right. left. reflexivity.
  - right. change (last (x :: y :: l') d) with (last (y :: l') d).
    specialize (IH x). change (last (y :: l') x) with (last (y :: l') d) in IH || idtac.
    assert (forall d1 d2, last (y :: l') d1 = last (y :: l') d2) as Hind.
    { clear. revert y. induction l' as [|z l'' IHl]; intros y d1 d2; [reflexivity|].
      change (last (z :: l'') d1 = last (z :: l'') d2). apply IHl. }
    rewrite (Hind d x). exact IH.
Qed.

(* the Result handed back is a function of the accepted trace: which model, objective, solutions *)
Theorem result_is_trace_thm : forall chk N A limit evs s r, run chk N A limit evs = Some s ->
  result_of limit s = Some r ->
  (forall m, r_solution r = Some m -> In m (sols s) /\ r_objective r = Z.of_nat (length m))
  /\ (r_solution r = None -> sols s = [] /\ r_objective r = 0 /\ r_solutions r = None)
  /\ (forall l, r_solutions r = Some l -> l = rev (sols s) /\ r_solution r <> None).
Proof.
  intros chk N A limit evs s r Hrun Hres.
  pose proof (inv_verdict chk N A s (run_Inv chk N A limit evs s Hrun)) as Hv.
  unfold result_of in Hres. destruct (verdict s) as [rt|]; [|discriminate].
  injection Hres as Hr.
  destruct rt; destruct (sols s) as [|m0 rest] eqn:Es; subst r; unfold with_solutions; simpl;
    try (exfalso; apply Hv; reflexivity);
    try (exfalso; apply (proj1 Hv); reflexivity);
    try (exfalso; generalize (proj2 Hv); discriminate).
  - (* RLimit *) repeat split.
    + injection H as Hm. subst m. left. reflexivity.
    + injection H as Hm. subst m. reflexivity.
    + discriminate.
    + discriminate.
    + discriminate.
    + destruct (limit =? 1); [discriminate | injection H as Hl; subst l; reflexivity].
    + discriminate.
  - (* RExhausted *) repeat split.
    + injection H as Hm. subst m. apply last_In.
    + injection H as Hm. subst m. reflexivity.
    + discriminate.
    + discriminate.
    + discriminate.
    + injection H as Hl. subst l. reflexivity.
    + discriminate.
  - (* RInfeasible, [] *) repeat split; try discriminate; intros; discriminate.
  - (* RMaxIter, [] *) repeat split; try discriminate; intros; discriminate.
  - (* RMaxIter, models *) repeat split.
    + injection H as Hm. subst m. apply last_In.
    + injection H as Hm. subst m. reflexivity.
    + discriminate.
    + discriminate.
    + discriminate.
    + injection H as Hl. subst l. reflexivity.
    + discriminate.
Qed.

(* hence: whatever the code hands back has been checked *)
Theorem result_sound_thm : forall chk N A limit evs s r, run chk N A limit evs = Some s ->
  result_of limit s = Some r ->
  (forall m, r_solution r = Some m -> models (asg_of m) N /\ agrees (asg_of m) A)
  /\ (forall l, r_solutions r = Some l ->
        NoDup l /\ forall m, In m l -> models (asg_of m) N /\ agrees (asg_of m) A).
Proof.
  intros chk N A limit evs s r Hrun Hres.
  destruct (result_is_trace_thm chk N A limit evs s r Hrun Hres) as [H1 [_ H3]].
  split.
  - intros m Hm. destruct (H1 m Hm) as [Hin _]. exact (models_thm chk N A limit evs s Hrun m Hin).
  - intros l Hl. destruct (H3 l Hl) as [Heq _]. subst l. split.
    + apply NoDup_rev. exact (proj1 (distinct_thm chk N A limit evs s Hrun)).
    + intros m Hin. apply in_rev in Hin. exact (models_thm chk N A limit evs s Hrun m Hin).
Qed.

(* ================= C02 ================= *)

Lemma entails_mono : forall F G c, (forall x, In x F -> In x G) -> entails F c -> entails G c.
Proof.
  intros F G c Hinc H m Hm. apply H. intros x Hx. apply Hm. apply Hinc. exact Hx.
Qed.

Theorem learned_entailed_sofar_thm : forall N A limit evs s, run true N A limit evs = Some s ->
  db_entailed (base N A (pures s)) (db s).
Proof.
  intros N A limit evs s Hrun. exact (inv_db true N A s (run_Inv true N A limit evs s Hrun) eq_refl).
Qed.

Lemma db_entailed_In : forall B d c, db_entailed B d -> In (c, false) d -> entails (B ++ blockings d) c.
Proof.
  intros B d c. induction d as [|[c0 b0] d IH]; intros Hd Hin; [destruct Hin|].
  simpl in Hd. destruct Hd as [Hc Hd].
  assert (forall x, In x (B ++ blockings d) -> In x (B ++ blockings ((c0, b0) :: d))) as Hinc.
  { intros x Hx. apply in_app_or in Hx. apply in_or_app. destruct Hx as [Hx | Hx]; [left; exact Hx|].
    right. destruct b0; [rewrite blockings_cons_true; right; exact Hx | exact Hx]. }
  destruct Hin as [Heq | Hin].
  - injection Heq as H1 H2. subst c0 b0. apply (entails_mono _ _ _ Hinc). apply Hc. reflexivity.
  - apply (entails_mono _ _ _ Hinc). apply IH; assumption.
Qed.

(* every accepted non-blocking clause is entailed by N, the assumption units, the pure units and
   the blocking clauses *)
Theorem learned_entailed_thm : forall N A limit evs s, run true N A limit evs = Some s ->
  forall c, In (c, false) (db s) ->
  entails (units A ++ units (pures s) ++ N ++ blockings (db s)) c.
Proof.
  intros N A limit evs s Hrun c Hin.
  pose proof (db_entailed_In _ _ c (learned_entailed_sofar_thm N A limit evs s Hrun) Hin) as H.
  unfold base in H. rewrite <- !app_assoc in H. exact H.
Qed.

Theorem unsat_sound_thm : forall N A limit evs s, run true N A limit evs = Some s ->
  verdict s = Some RInfeasible -> unsat_under N A.
Proof.
  intros N A limit evs s Hrun Hv.
  pose proof (inv_verdict true N A s (run_Inv true N A limit evs s Hrun)) as H. rewrite Hv in H. exact (proj1 H eq_refl).
Qed.

Theorem unsat_result_thm : forall N A limit evs s r, run true N A limit evs = Some s ->
  result_of limit s = Some r -> r_status r = INFEASIBLE -> unsat_under N A /\ r_solution r = None.
Proof.
  intros N A limit evs s r Hrun Hres Hst.
  unfold result_of in Hres. destruct (verdict s) as [rt|] eqn:Ev; [|discriminate].
  injection Hres as Hr.
  destruct rt; destruct (sols s) as [|m0 rest]; subst r; simpl in Hst; try discriminate;
    (split; [exact (unsat_sound_thm N A limit evs s Hrun Ev) | reflexivity]).
Qed.

Theorem no_false_model_thm : forall chk N A limit evs s, run chk N A limit evs = Some s ->
  unsat_under N A ->
  sols s = [] /\ forall r, result_of limit s = Some r -> r_solution r = None /\ r_solutions r = None.
Proof.
  intros chk N A limit evs s Hrun Hunsat.
  assert (sols s = []) as Hs.
  { destruct (sols s) as [|m rest] eqn:Es; [reflexivity|]. exfalso. apply Hunsat.
    exists (asg_of m). apply (models_thm chk N A limit evs s Hrun). rewrite Es. left. reflexivity. }
  split; [exact Hs|]. intros r Hres. unfold result_of in Hres. rewrite Hs in Hres.
  destruct (verdict s) as [rt|]; [|discriminate]. injection Hres as Hr. subst r.
  destruct rt; split; reflexivity.
Qed.

Lemma forallb_false_ex : forall {X} (f : X -> bool) l, forallb f l = false -> exists x, In x l /\ f x = false.
Proof.
  intros X f l. induction l as [|x l IH]; intros H; [discriminate|]. simpl in H.
  destruct (f x) eqn:E.
  - destruct (IH H) as [y [Hy Hf]]. exists y. split; [right; exact Hy | exact Hf].
  - exists x. split; [left; reflexivity | exact E].
Qed.

(* enumeration finished by the "level-0 conflict / no open literal in a blocking clause" route:
   every model of N /\ A extends one of the recorded models (the machine accepts a blocking clause only
   when no pure literal was asserted, as in the code: pure literals are off when enumerating) *)
Theorem enum_complete_thm : forall N A limit evs s, run true N A limit evs = Some s ->
  verdict s = Some RExhausted ->
  forall a, models a N -> agrees a A ->
  exists m, In m (sols s) /\ forall l, In l m -> lit_true a l = true.
Proof.
  intros N A limit evs s Hrun Hv a HN HA.
  pose proof (run_Inv true N A limit evs s Hrun) as HI.
  pose proof (inv_verdict true N A s HI) as H. rewrite Hv in H. destruct H as [Hne [Hnp Hno]]. specialize (Hno eq_refl).
  pose proof (inv_enum_nopure true N A s HI Hnp Hne) as Hp.
  destruct (existsb (fun m => forallb (lit_true a) m) (sols s)) eqn:Eex.
  - apply existsb_exists in Eex. destruct Eex as [m [Hin Hall]]. exists m. split; [exact Hin|].
    rewrite forallb_forall in Hall. exact Hall.
  - exfalso. apply (Hno a). apply premises_models.
    + exact (inv_db true N A s HI eq_refl).
    + rewrite Hp. unfold base. apply models_app. split; [apply models_units; exact HA|].
      apply models_app. split; [apply models_nil | exact HN].
    + intros c Hc. destruct (inv_block_from true N A s HI c Hc) as [m [Hin Heq]]. subst c.
      assert (forallb (lit_true a) m = false) as Hf.
      { destruct (forallb (lit_true a) m) eqn:E; [|reflexivity].
        assert (existsb (fun m => forallb (lit_true a) m) (sols s) = true) as Hex
          by (apply existsb_exists; exists m; split; assumption).
        congruence. }
      destruct (forallb_false_ex _ _ Hf) as [l [Hl Hlf]].
      destruct (inv_sols true N A s HI m Hin) as [_ [Hcons _]].
      unfold clause_true. apply existsb_exists. exists (- l). split; [apply in_map; exact Hl|].
      rewrite (lit_true_opp a l (consistent_nonzero m l Hcons Hl)). rewrite Hlf. reflexivity.
Qed.

(* ================= spec_check (judges implementation results directly) ================= *)

Lemma model_ok_sound : forall N A m, model_ok N A m = true -> models (asg_of m) N /\ agrees (asg_of m) A.
Proof.
  intros N A m H. unfold model_ok in H.
  apply andb_prop in H. destruct H as [H HA]. apply andb_prop in H. destruct H as [_ HN].
  split; [apply models_b_sound | apply agrees_b_sound]; assumption.
Qed.

Lemma nodup_b_sound : forall l, nodup_b l = true -> NoDup l.
Proof.
  induction l as [|m r IH]; intros H; [constructor|]. simpl in H.
  apply andb_prop in H. destruct H as [H1 H2]. apply negb_true_iff in H1.
  constructor; [|apply IH; exact H2].
  intros Hin. assert (existsb (zlist_eqb m) r = true) as Hex.
  { apply existsb_exists. exists m. split; [exact Hin | apply zlist_eqb_refl]. }
  congruence.
Qed.

Theorem spec_check_sound : forall N A r, spec_check N A r = true ->
  (forall m, r_solution r = Some m -> models (asg_of m) N /\ agrees (asg_of m) A)
  /\ (forall l, r_solutions r = Some l ->
        NoDup l /\ forall m, In m l -> models (asg_of m) N /\ agrees (asg_of m) A).
Proof.
  intros N A r H. unfold spec_check in H. apply andb_prop in H. destruct H as [H1 H2]. split.
  - intros m Hm. rewrite Hm in H1. apply model_ok_sound. exact H1.
  - intros l Hl. rewrite Hl in H2. apply andb_prop in H2. destruct H2 as [Hall Hnd]. split.
    + apply nodup_b_sound. exact Hnd.
    + intros m Hin. rewrite forallb_forall in Hall. apply model_ok_sound. apply Hall. exact Hin.
Qed.
