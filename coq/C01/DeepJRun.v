(* C01 deep model - (d) for whole runs: coverage (W) and J hold whenever the main loop is about to pick a variable;
   after a reported conflict coverage and JC hold. *)
From Coq Require Import List ZArith Bool Arith Lia Permutation.
Import ListNotations.
From SV Require Import C01.SatSpec C01.Machine C01.DeepCdcl C01.DeepBase C01.DeepTrail C01.DeepTrailProp C01.DeepAnalyze
  C01.DeepWatch C01.DeepReason C01.DeepReasonProp C01.DeepRunOps C01.DeepReduce C01.DeepRun C01.DeepJ C01.DeepJOps C01.DeepJProp
  C01.DeepJAttach C01.DeepJLearn C01.DeepJReduce C01.DeepInit.
Close Scope Z_scope.
Open Scope nat_scope.

Lemma list_shape3 : forall (l : list Z), l = [] \/ (exists a, l = [a]) \/ exists a b r, l = a :: b :: r.
Proof. intros [|a [|b r]]; [left | right; left; exists a | right; right; exists a, b, r]; reflexivity. Qed.

(* ---------------------------------------------------------------- the blocking clause *)
Section BlockJ.
Variable s : st.
Variable n : nat.
Hypothesis HB : BI s.
Hypothesis Hnv : nv s = S n.
Hypothesis HA : arr_len s.
Hypothesis HC : cov_all s.
Hypothesis HJ : J s.
Hypothesis Hopen : blk_open s n <> 0.

Let blocking := blocking_of s n.
Let cidx := n_clauses s.
Let s0 := append_learned blocking 0 s.
Let s1 := unassign_to 0 s0.
Let sorted := sort_blocking s1 blocking.
Let s2 := set_last_learned s1 sorted.
Let s3 := blk_s3 s n.
Let s4 := blk_s4 s n.

Lemma G0 : BI s0. Proof. exact (blk_s0 s n HB Hnv). Qed.
Lemma G1 : BI s1 /\ cur_level s1 = 0 /\ nv s1 = nv s /\ db_eq s0 s1. Proof. exact (blk_s1 s n HB Hnv). Qed.
Lemma G2 : BI s2 /\ cur_level s2 = 0 /\ nv s2 = nv s. Proof. exact (blk_s2 s n HB Hnv). Qed.
Lemma G3 : BI s3 /\ cur_level s3 = 0 /\ nv s3 = nv s /\ db_eq s2 s3. Proof. exact (blk_s3_BI s n HB Hnv Hopen). Qed.
Lemma Gfirst : In (nth 0 sorted 0%Z) blocking /\ is_false (lit_value s2 (nth 0 sorted 0%Z)) = false.
Proof. exact (blk_first_open s n Hopen). Qed.
Lemma Gnt : forall l, In l blocking -> is_false (lit_value s2 l) = false -> val_of s2 (lvar l) = None.
Proof. exact (blk_not_true s n HB Hnv). Qed.
Lemma Gget2 : forall r, get_clause s2 r = if r =? cidx then sorted else get_clause s1 r.
Proof. exact (blk_get2 s n HB Hnv). Qed.
Lemma Gn2 : n_clauses s2 = S cidx /\ n_clauses s1 = S cidx. Proof. exact (blk_nclauses2 s n HB Hnv). Qed.
Lemma Gsub : forall l, In l sorted -> In l blocking. Proof. exact (blk_sorted_sub s n). Qed.
Lemma Gopen : blk_open s n = length (filter (fun l => negb (is_false (lit_value s2 l))) sorted). Proof. reflexivity. Qed.

Lemma E3 : s3 = if blk_open s n =? 1 then assign_lit (nth 0 sorted 0%Z) (Some cidx) s2 else s2.
Proof. reflexivity. Qed.
Lemma E4 : s4 = if 2 <=? length sorted then add_watch (nth 1 sorted 0%Z) cidx (add_watch (nth 0 sorted 0%Z) cidx s3) else s3.
Proof. reflexivity. Qed.

Lemma bj_first_range : lvar (nth 0 sorted 0%Z) < length (s_vals s2) /\ val_of s2 (lvar (nth 0 sorted 0%Z)) = None.
Proof.
  destruct Gfirst as [Hx1 Hx2]. destruct (block_lits s n _ Hx1) as (_ & Hxr & _). split; [|apply Gnt; assumption].
  destruct G2 as (_ & _ & Hn2). unfold nv in Hn2. rewrite Hn2. fold (nv s). rewrite Hnv. lia.
Qed.

Lemma bj_trail2 : trail_inv s2.
Proof. exact (proj1 (bi_ti s2 (proj1 G2))). Qed.

Lemma bj_asg34 : asg_eq s3 s4.
Proof. rewrite E4. destruct (2 <=? length sorted); [eapply asg_eq_trans; apply add_watch_asg | apply asg_eq_refl]. Qed.

Lemma bj_trail0 : trail_inv s0.
Proof. exact (proj1 (bi_ti s0 G0)). Qed.

(* a literal that is false and processed at the end was so when the model was recorded *)
Lemma bj_fp3 : forall l, fp s4 l -> fp s3 l.
Proof. intros l H. eapply fp_asg_eq; [exact bj_asg34 | exact H]. Qed.

Lemma bj_fp2 : forall l, fp s3 l -> fp s2 l.
Proof.
  intros l H3. rewrite E3 in H3. destruct (blk_open s n =? 1); [|exact H3].
  destruct bj_first_range as [Hr Hn]. unfold assign_lit in H3. exact (fp_assign_inv s2 _ _ _ _ bj_trail2 Hn Hr H3).
Qed.

Lemma bj_fp : forall l, fp s4 l -> fp s l.
Proof.
  intros l H4. pose proof (bj_fp2 l (bj_fp3 l H4)) as H2.
  assert (fp s1 l) as H1 by (eapply fp_asg_eq; [apply set_last_learned_asg | exact H2]).
  apply (fp_unassign_to s0 0 l bj_trail0 (bi_head s0 G0)) in H1.
  eapply fp_asg_eq; [apply append_learned_asg | exact H1].
Qed.

Lemma bj_get3 : forall r, get_clause s3 r = get_clause s2 r.
Proof. intros r. rewrite E3. destruct (blk_open s n =? 1); reflexivity. Qed.

Lemma bj_get4 : forall r, get_clause s4 r = if r =? cidx then sorted else get_clause s1 r.
Proof.
  intros r. rewrite <- Gget2, <- bj_get3. rewrite E4. destruct (2 <=? length sorted); [|reflexivity].
  unfold add_watch. rewrite !get_clause_set_watch_list. reflexivity.
Qed.

Lemma bj_old_clause : forall r, r < cidx -> get_clause s1 r = get_clause s r.
Proof.
  intros r Hr. destruct G1 as (_ & _ & _ & Hdb). rewrite (db_eq_get_clause _ _ _ Hdb).
  unfold s0. apply get_clause_append_old. exact Hr.
Qed.

Lemma bj_n4 : n_clauses s4 = S cidx.
Proof.
  assert (n_clauses s3 = S cidx) as Q3.
  { destruct G3 as (_ & _ & _ & Hdb). rewrite (db_eq_n_clauses _ _ Hdb). exact (proj1 Gn2). }
  rewrite E4. destruct (2 <=? length sorted); [|exact Q3].
  unfold add_watch. rewrite !n_clauses_set_watch_list. exact Q3.
Qed.

(* the first literal of the sorted blocking clause is never false and processed *)
Lemma bj_first_not_fp : ~ fp s3 (nth 0 sorted 0%Z).
Proof.
  intros [Q _]. destruct Gfirst as [_ Hx2]. rewrite E3 in Q. destruct (blk_open s n =? 1).
  - destruct bj_first_range as [Hr _]. unfold assign_lit in Q. rewrite lit_value_assign_same in Q by auto.
    destruct (lpos (nth 0 sorted 0%Z)); discriminate.
  - rewrite Q in Hx2. discriminate.
Qed.

Lemma bj_J : J s4.
Proof.
  intros cj a b r H1 H2 H3 H4. rewrite bj_n4 in H1. rewrite bj_get4 in H2.
  destruct (Nat.eqb_spec cj cidx) as [E|E].
  - apply bj_first_not_fp. rewrite H2. simpl. apply bj_fp3. exact H3.
  - rewrite bj_old_clause in H2 by lia. exact (HJ cj a b r ltac:(unfold cidx in *; lia) H2 (bj_fp a H3) (bj_fp b H4)).
Qed.

Lemma bj_arr3 : arr_len s3.
Proof.
  assert (arr_len s1) as A1 by (unfold s1; apply arr_len_unassign_to; exact HA).
  assert (arr_len s2) as A2 by exact A1.
  rewrite E3. destruct (blk_open s n =? 1); [unfold assign_lit; apply arr_len_assign|]; exact A2.
Qed.

Lemma bj_arr : arr_len s4.
Proof. rewrite E4. destruct (2 <=? length sorted); [apply arr_len_add_watch, arr_len_add_watch|]; exact bj_arr3. Qed.

(* values of level 0 survive *)
Lemma bj_units : forall l, lit_value s l = Some true -> level_of s (lvar l) = 0 -> lit_value s4 l = Some true /\ level_of s4 (lvar l) = 0.
Proof.
  intros l Q1 Q2.
  assert (lit_value s1 l = Some true /\ level_of s1 (lvar l) = 0) as [R1 R2].
  { destruct (unassign_to_spec s0 0 bj_trail0) as [popped (_ & EL & _ & _ & _ & _ & Hkeep & _ & Hge)]. fold s1 in EL, Hkeep.
    split; [|unfold level_of; rewrite EL; exact Q2].
    assert (In (lvar l) (s_trail s0)) as Hin by (apply (ti_assigned s (proj1 (bi_ti s HB))); eapply lit_value_assigned; exact Q1).
    destruct (Nat.eq_dec (cur_level s0) 0) as [L|L].
    - unfold cur_level in L. rewrite (Hge ltac:(lia)) in Hkeep. unfold lit_value in *. rewrite Hkeep by (intros []). exact Q1.
    - assert (level_of s0 (lvar l) <= 0) as Q0 by (change (level_of s0 (lvar l)) with (level_of s (lvar l)); lia).
      destruct (proj1 (unassign_to_stays_or_goes s0 0 (lvar l) bj_trail0 Hin ltac:(lia)) Q0) as [_ Qv].
      fold s1 in Qv. unfold lit_value in *. rewrite Qv. exact Q1. }
  assert (lit_value s3 l = Some true /\ level_of s3 (lvar l) = 0) as [T1 T2].
  { rewrite E3. destruct (blk_open s n =? 1); [|split; assumption].
    destruct bj_first_range as [Hr Hn].
    assert (lvar l <> lvar (nth 0 sorted 0%Z)) as Hne.
    { intros C. apply lit_value_assigned in R1. change (val_of s1 (lvar l)) with (val_of s2 (lvar l)) in R1. rewrite C in R1. contradiction. }
    unfold assign_lit. split; [rewrite lit_value_assign_other by exact Hne; exact R1|].
    rewrite level_of_assign by (rewrite (ti_len_levels s2 bj_trail2); exact Hr).
    destruct (Nat.eqb_spec (lvar (nth 0 sorted 0%Z)) (lvar l)); [congruence | exact R2]. }
  rewrite (asg_eq_lit_value _ _ _ bj_asg34), (asg_eq_level_of _ _ _ bj_asg34). split; assumption.
Qed.

Lemma bj_watch2 : forall l, watch_list s2 l = watch_list s l.
Proof.
  intros l. change (watch_list s2 l) with (watch_list s1 l). unfold s1. rewrite (db_eq_watch_list _ _ l (unassign_to_db_eq 0 s0)). reflexivity.
Qed.

Lemma bj_impl2 : forall l, implications s2 l = implications s l.
Proof.
  intros l. change (implications s2 l) with (implications s1 l). unfold s1. rewrite (db_eq_implications _ _ l (unassign_to_db_eq 0 s0)). reflexivity.
Qed.

Lemma bj_watch3 : forall l, watch_list s3 l = watch_list s l.
Proof. intros l. rewrite <- bj_watch2. rewrite E3. destruct (blk_open s n =? 1); reflexivity. Qed.

Lemma bj_impl4 : forall fl, implications s4 fl = implications s fl.
Proof.
  intros fl. assert (implications s3 fl = implications s fl) as Q3 by (rewrite <- bj_impl2; rewrite E3; destruct (blk_open s n =? 1); reflexivity).
  rewrite E4. destruct (2 <=? length sorted); [|exact Q3].
  unfold add_watch. rewrite !implications_set_watch_list. exact Q3.
Qed.

Lemma bj_cov : cov_all s4.
Proof.
  intros cj Hcj. rewrite bj_n4 in Hcj. destruct (Nat.eq_dec cj cidx) as [E|E].
  - subst cj. unfold covered. rewrite bj_get4, Nat.eqb_refl.
    destruct Gfirst as [Hx1 Hx2]. destruct bj_first_range as [Hr Hn]. pose proof Gopen as Go. pose proof E3 as E3'. pose proof E4 as E4'.
    destruct (list_shape3 sorted) as [Es|[[a Es]|(a & b & r & Es)]]; rewrite Es in *.
    + simpl in Hx1. destruct (block_lits s n _ Hx1) as (Q & _). contradiction.
    + (* a single literal: it is the open one and has just been asserted *)
      simpl in Hx1, Hx2, Hr, Hn.
      assert (blk_open s n = 1) as Ho1.
      { rewrite Go. simpl. rewrite Hx2. reflexivity. }
      rewrite Ho1 in E3'. simpl in E3', E4'. rewrite E4', E3'. unfold assign_lit. split.
      * rewrite lit_value_assign_same by auto. destruct (lpos a); reflexivity.
      * rewrite level_of_assign by (rewrite (ti_len_levels s2 bj_trail2); exact Hr). rewrite Nat.eqb_refl. exact (proj1 (proj2 G2)).
    + left. simpl in E4'. rewrite E4'. intros l.
      assert (nv s3 = S n) as N3 by (destruct G3 as (_ & _ & Q & _); rewrite Q; exact Hnv).
      assert (forall x, In x (a :: b :: r) -> lvar x < nv s3) as Hrange.
      { intros x Hx. rewrite <- Es in Hx. apply Gsub in Hx. destruct (block_lits s n x Hx) as (_ & Q & _). rewrite N3. lia. }
      assert (lvar a < slot_len s3 a) as Ra by (rewrite slot_len_nv by exact bj_arr3; apply Hrange; left; reflexivity).
      assert (lvar b < slot_len (add_watch a cidx s3) b) as Rb.
      { unfold add_watch. rewrite slot_len_set_watch_list, slot_len_nv by exact bj_arr3. apply Hrange. right. left. reflexivity. }
      pose proof (cnt_add_watch_ge b cidx (add_watch a cidx s3) l cidx Rb) as Q1. pose proof (cnt_add_watch_ge a cidx s3 l cidx Ra) as Q2.
      unfold pos01. destruct (Nat.eq_dec cidx cidx); [|congruence].
      destruct (Z.eq_dec l b); destruct (Z.eq_dec l a); subst; rewrite ?Z.eqb_refl;
        repeat match goal with |- context [(?p =? ?q)%Z] => destruct (Z.eqb_spec p q) end; try congruence; lia.
  - assert (cj < cidx) as Hlt by lia. apply (covered_mono s s4).
    + rewrite bj_get4. destruct (Nat.eqb_spec cj cidx); [lia|]. apply bj_old_clause. exact Hlt.
    + intros l. rewrite <- (bj_watch3 l). rewrite E4. destruct (2 <=? length sorted); [|lia].
      pose proof (cnt_add_watch_mono (nth 1 sorted 0%Z) cidx (add_watch (nth 0 sorted 0%Z) cidx s3) l cj).
      pose proof (cnt_add_watch_mono (nth 0 sorted 0%Z) cidx s3 l cj). lia.
    + intros fl p Hp. rewrite bj_impl4. exact Hp.
    + exact bj_units.
    + apply HC. exact Hlt.
Qed.

End BlockJ.

(* ---------------------------------------------------------------- a decision *)
Lemma decide_PJ : forall s v b, BI s -> arr_len s -> cov_all s -> J s -> s_head s = length (s_trail s) ->
  v < nv s -> val_of s v = None ->
  arr_len (assign v b None (push_lim s)) /\ cov_all (assign v b None (push_lim s)) /\ J (assign v b None (push_lim s)).
Proof.
  intros s v b H HA HC HJ Hh Hv Hn. pose proof (BI_push_lim s H Hh) as H1. pose proof (proj1 (bi_ti _ H1)) as HT1.
  split; [apply arr_len_assign; exact HA|]. split.
  - apply cov_all_assign; [exact HT1 | exact Hn | exact Hv |]. apply (cov_all_db_eq_asg s); [apply push_lim_db_eq | | exact HC]. intros l Q1 Q2. auto.
  - intros cj a b' r Q1 Q2 Q3 Q4.
    apply (fp_assign_inv (push_lim s) _ _ _ _ HT1 Hn Hv) in Q3. apply (fp_assign_inv (push_lim s) _ _ _ _ HT1 Hn Hv) in Q4.
    exact (HJ cj a b' r Q1 Q2 (fp_push_lim s a Q3) (fp_push_lim s b' Q4)).
Qed.

(* ---------------------------------------------------------------- the loop invariant for (d) *)
Definition LJ (L : loop) : Prop :=
  match l_conflict L with
  | CNone => arr_len (l_st L) /\ cov_all (l_st L) /\ J (l_st L)
  | CAt _ => cur_level (l_st L) = 0 \/ (arr_len (l_st L) /\ cov_all (l_st L) /\ JC (l_st L))
  | CAssum => True
  end.

Lemma LJ_after_propagate : forall fuel A s s' c dl csr li nx dc rs sols evs orc,
  assum_ok (nv s) A -> BI s -> arr_len s -> cov_all s -> J s -> propagate fuel A s = Some (s', c) ->
  LJ (mkLoop s' c dl csr li nx dc rs sols evs orc).
Proof.
  intros fuel A s s' c dl csr li nx dc rs sols evs orc HA H HAr HC HJ E.
  pose proof (propagate_PJ fuel A s s' c HA (conj H (conj HAr (conj HC HJ))) E) as Q. unfold LJ. simpl.
  destruct c as [| |ci]; [destruct Q as (_ & Q2 & Q3 & Q4); auto | exact Logic.I | destruct Q as (_ & Q2 & Q3 & Q4); right; auto].
Qed.

Theorem main_step_LJ : forall fuel P L L', LI P L -> LJ L -> main_step fuel P L = Cont L' -> LJ L'.
Proof.
  intros fuel P L L' HL HLJ E. destruct HL as [HB Hnv HA Hdec Hconf]. unfold LJ in HLJ. unfold main_step in E.
  assert (assum_ok (nv (l_st L)) (p_assum P)) as HA0 by (rewrite Hnv; exact HA).
  destruct (l_conflict L) as [| |ci] eqn:EC.
  - destruct HLJ as (HAr & HC & HJ).
    destruct (all_assigned (l_st L) (p_nvars P)) eqn:EAll.
    + match type of E with (if ?c then _ else _) = _ => destruct c end; [discriminate|].
      fold (blk_open (l_st L) (p_nvars P)) in E.
      destruct (Nat.eqb_spec (blk_open (l_st L) (p_nvars P)) 0) as [Ho|Ho].
      * injection E as E. subst L'. unfold LJ. simpl. left. exact (proj1 (proj2 (blk_s2 (l_st L) (p_nvars P) HB Hnv))).
      * unfold with_prop in E.
        pose proof (blk_s4_BI (l_st L) (p_nvars P) HB Hnv Ho) as (H4 & Hc4 & Hn4).
        pose proof (bj_arr (l_st L) (p_nvars P) HAr) as A4.
        pose proof (bj_cov (l_st L) (p_nvars P) HB Hnv HAr HC Ho) as C4.
        pose proof (bj_J (l_st L) (p_nvars P) HB Hnv HJ Ho) as J4.
        unfold blk_s4, blk_s3 in H4, Hn4, A4, C4, J4.
        match type of E with match propagate ?f ?A ?x with _ => _ end = _ => destruct (propagate f A x) as [[s5 c]|] eqn:EP end; [|discriminate].
        injection E as E. subst L'. eapply LJ_after_propagate; [| exact H4 | exact A4 | exact C4 | exact J4 | exact EP]. rewrite Hn4. exact HA0.
    + destruct (l_oracle L) as [|v orc]; [discriminate|].
      match type of E with (if ?c then _ else _) = _ => destruct c eqn:EV end; [|discriminate].
      apply andb_prop in EV. destruct EV as [EV EV3]. apply andb_prop in EV. destruct EV as [EV1 EV2].
      apply Nat.leb_le in EV1. apply Nat.leb_le in EV2.
      assert (val_of (l_st L) v = None) as Hvn by (destruct (val_of (l_st L) v); [discriminate | reflexivity]).
      assert (v < nv (l_st L)) as Hvr by (rewrite Hnv; lia).
      destruct (decide_BI (l_st L) v (nth v (s_phase (l_st L)) true) HB Hconf EV1 Hvr Hvn) as (H1 & Hc1 & Hn1).
      destruct (decide_PJ (l_st L) v (nth v (s_phase (l_st L)) true) HB HAr HC HJ Hconf Hvr Hvn) as (A1 & C1 & J1).
      unfold with_prop in E.
      match type of E with match propagate ?f ?A ?x with _ => _ end = _ => destruct (propagate f A x) as [[s2 c]|] eqn:EP end; [|discriminate].
      match type of E with (if ?c then _ else _) = _ => destruct c end; [discriminate|].
      injection E as E. subst L'. eapply LJ_after_propagate; [| exact H1 | exact A1 | exact C1 | exact J1 | exact EP]. rewrite Hn1. exact HA0.
  - discriminate.
  - destruct (Nat.eqb_spec (l_dec_level L) 0) as [Hd0|Hd0]; [discriminate|].
    destruct (analyze (l_st L) ci) as [[[lc bt] lbd]|] eqn:EA; [|discriminate].
    destruct Hconf as [Hconf|Hconf]; [lia|]. destruct HLJ as [HLJ|(HAr & HC & HJ)]; [lia|].
    pose proof (learn_BI (l_st L) ci lc bt lbd HB Hconf EA) as (H3 & Hc3 & Hn3). cbv zeta in H3, Hc3, Hn3.
    pose proof (learn_PJ (l_st L) ci lc bt lbd HB HAr HC HJ Hconf EA) as (A3 & C3 & J3). cbv zeta in A3, C3, J3.
    match type of E with (if ?c then _ else _) = _ => destruct c end.
    + match type of E with (if ?c then _ else _) = _ => destruct c end; [discriminate|].
      destruct (luby_val (l_luby_idx L + 1)) as [lv|]; [|discriminate].
      unfold with_prop in E.
      match type of E with match propagate ?f ?A (reduce_db (unassign_to 0 ?x)) with _ => _ end = _ =>
        destruct (propagate f A (reduce_db (unassign_to 0 x))) as [[s5 c]|] eqn:EP; [|discriminate];
        assert (BI (unassign_to 0 x)) as H4 by (apply BI_unassign_to; exact H3);
        assert (cur_level (unassign_to 0 x) = 0) as Hc4 by (apply cur_level_unassign_to; lia);
        assert (nv (unassign_to 0 x) = nv (l_st L)) as Hn4 by (unfold nv; rewrite unassign_to_nvals; exact Hn3);
        assert (arr_len (unassign_to 0 x)) as A4 by (apply arr_len_unassign_to; exact A3);
        assert (cov_all (unassign_to 0 x)) as C4 by (apply cov_all_unassign_to; [exact (proj1 (bi_ti _ H3)) | exact C3]);
        assert (J (unassign_to 0 x)) as J4 by (apply J_unassign_to_any; [exact (proj1 (bi_ti _ H3)) | exact (bi_head _ H3) | exact J3]);
        destruct (reduce_db_PJ (unassign_to 0 x) H4 A4 C4 J4 Hc4) as (A5 & C5 & J5)
      end.
      injection E as E. subst L'. eapply LJ_after_propagate; [| apply reduce_db_BI; [exact H4 | exact Hc4] | exact A5 | exact C5 | exact J5 | exact EP].
      rewrite reduce_db_nv, Hn4. exact HA0.
    + unfold with_prop in E.
      match type of E with match propagate ?f ?A ?x with _ => _ end = _ => destruct (propagate f A x) as [[s5 c]|] eqn:EP end; [|discriminate].
      injection E as E. subst L'. eapply LJ_after_propagate; [| exact H3 | exact A3 | exact C3 | exact J3 | exact EP]. rewrite Hn3. exact HA0.
Qed.

(* ---------------------------------------------------------------- before the loop *)
Lemma attach_orig_state : forall cs idx u s, fst (attach_orig cs idx u s) = attach_all cs idx s.
Proof.
  induction cs as [|c cs IH]; intros idx u s; simpl; [reflexivity|].
  destruct c as [|l [|b r]]; apply IH.
Qed.

Lemma attach_orig_units : forall cs idx u s,
  (forall p, In p u -> In p (snd (attach_orig cs idx u s)))
  /\ (forall k l, k < length cs -> nth k cs [] = [l] -> In (l, idx + k) (snd (attach_orig cs idx u s))).
Proof.
  induction cs as [|c cs IH]; intros idx u s; simpl; [split; [auto | intros; lia]|].
  assert (forall u' s', (forall p, In p u -> In p u') ->
            (forall p, In p u -> In p (snd (attach_orig cs (S idx) u' s')))) as Hmono.
  { intros u' s' Hsub p Hp. apply (proj1 (IH (S idx) u' s')). apply Hsub. exact Hp. }
  destruct c as [|l [|b r]].
  - split; [apply Hmono; auto|]. intros [|k] l0 Hk Hn; [discriminate|].
    replace (idx + S k) with (S idx + k) by lia. apply (proj2 (IH (S idx) u (attach [] idx s))); [lia | exact Hn].
  - split; [apply Hmono; intros p Hp; apply in_or_app; left; exact Hp|]. intros [|k] l0 Hk Hn.
    + injection Hn as Hn. subst l0. rewrite Nat.add_0_r. apply (proj1 (IH (S idx) (u ++ [(l, idx)]) s)). apply in_or_app. right. left. reflexivity.
    + replace (idx + S k) with (S idx + k) by lia. apply (proj2 (IH (S idx) (u ++ [(l, idx)]) s)); [lia | exact Hn].
  - split; [apply Hmono; auto|]. intros [|k] l0 Hk Hn; [discriminate|].
    replace (idx + S k) with (S idx + k) by lia. apply (proj2 (IH (S idx) u (attach (l :: b :: r) idx s))); [lia | exact Hn].
Qed.

Lemma covered_db_eq_long : forall s s' ci, db_eq s s' -> 2 <= length (get_clause s ci) -> covered s ci -> covered s' ci.
Proof.
  intros s s' ci E Hlen Q. unfold covered in *. rewrite (db_eq_get_clause _ _ _ E).
  destruct (get_clause s ci) as [|a [|b r]]; simpl in Hlen; try lia.
  destruct Q as [Q|[Q1 [Q2 Q3]]]; [left | right].
  - intros l. rewrite (db_eq_watch_list _ _ _ E). apply Q.
  - split; [exact Q1|]. split; rewrite (db_eq_implications _ _ _ E); assumption.
Qed.

Lemma assign_pures_frame : forall A pl s, s_head (assign_pures A pl s) = s_head s /\ (arr_len s -> arr_len (assign_pures A pl s)).
Proof.
  intros A pl. induction pl as [|[v b] pl IH]; intros s; simpl; [auto|].
  destruct (is_none (val_of s v) && negb (existsb (fun a => lvar a =? v) A)); [|apply IH].
  destruct (IH (assign v b None s)) as [Q1 Q2]. split; [exact Q1|]. intros HA. apply Q2. apply arr_len_assign. exact HA.
Qed.

(* the unit clauses end up true at level 0 *)
Lemma assign_units_true : forall ul s s' n, BI s -> lvl0 s -> nv s = S n ->
  (forall l i, In (l, i) ul -> get_clause s i = [l]) -> assign_units ul s = (s', false) ->
  s_head s' = s_head s /\ (arr_len s -> arr_len s') /\ db_eq s s'
  /\ (forall x, lit_value s x = Some true -> level_of s (lvar x) = 0 -> lit_value s' x = Some true /\ level_of s' (lvar x) = 0)
  /\ (forall l i, In (l, i) ul -> lit_value s' l = Some true /\ level_of s' (lvar l) = 0).
Proof.
  induction ul as [|[l i] ul IH]; intros s s' n H H0 Hn Hul E; simpl in E.
  - injection E as E. subst. split; [reflexivity|]. split; [auto|]. split; [apply db_eq_refl|]. split; [auto | intros l i []].
  - pose proof (proj1 (bi_ti s H)) as HT.
    destruct (val_of s (lvar l)) as [b|] eqn:EV.
    + destruct (Bool.eqb b (lpos l)) eqn:EB; [|discriminate].
      destruct (IH s s' n H H0 Hn (fun l0 i0 Q => Hul l0 i0 (or_intror Q)) E) as (Q1 & Q2 & Q3 & Q4 & Q5).
      split; [exact Q1|]. split; [exact Q2|]. split; [exact Q3|]. split; [exact Q4|].
      intros l0 i0 [Q|Q]; [|exact (Q5 l0 i0 Q)]. injection Q as E1 E2. subst l0 i0. apply Q4.
      * unfold lit_value. rewrite EV, EB. reflexivity.
      * assert (In (lvar l) (s_trail s)) as Hin by (apply (ti_assigned s HT); congruence).
        pose proof (level_le_cur s (lvar l) HT Hin) as Q. unfold lvl0 in H0. lia.
    + assert (In l (get_clause s i)) as Hl by (rewrite (Hul l i (or_introl eq_refl)); left; reflexivity).
      assert (lvar l < nv s) as Hr.
      { pose proof (get_clause_in s i (proj2 (bi_ti s H))) as Q. unfold clause_in in Q. rewrite Forall_forall in Q. exact (Q l Hl). }
      assert (BI (assign_lit l (Some i) s)) as HBa.
      { unfold assign_lit. apply (BI_assign s (lvar l) (lpos l) (Some i) H EV Hr).
        - apply lvar_nonzero. exact (bi_nz s H i l Hl).
        - intros r _ Hlv. unfold lvl0 in H0. lia.
        - discriminate. }
      assert (nv (assign_lit l (Some i) s) = S n) as HNa by (unfold assign_lit; rewrite nv_assign; exact Hn).
      destruct (IH (assign_lit l (Some i) s) s' n HBa H0 HNa) as (Q1 & Q2 & Q3 & Q4 & Q5); [|exact E|].
      { intros l0 i0 Q. change (get_clause (assign_lit l (Some i) s) i0) with (get_clause s i0). apply Hul. right. exact Q. }
      assert (forall x, lit_value s x = Some true -> level_of s (lvar x) = 0 ->
                lit_value (assign_lit l (Some i) s) x = Some true /\ level_of (assign_lit l (Some i) s) (lvar x) = 0) as Hk.
      { intros x X1 X2. assert (lvar x <> lvar l) as Hne by (intros C; apply lit_value_assigned in X1; rewrite C in X1; contradiction).
        unfold assign_lit. split; [rewrite lit_value_assign_other by exact Hne; exact X1|].
        rewrite level_of_assign by (rewrite (ti_len_levels s HT); exact Hr). destruct (Nat.eqb_spec (lvar l) (lvar x)); [congruence | exact X2]. }
      split; [exact Q1|]. split; [intros HA; apply Q2; unfold assign_lit; apply arr_len_assign; exact HA|].
      split; [destruct Q3 as (E1 & E2 & E3 & E4 & E5 & E6); repeat split; assumption|].
      split; [intros x X1 X2; destruct (Hk x X1 X2) as [Y1 Y2]; apply Q4; assumption|].
      intros l0 i0 [Q|Q]; [|exact (Q5 l0 i0 Q)]. injection Q as E1 E2. subst l0 i0. apply Q4.
      * unfold assign_lit. rewrite lit_value_assign_same by auto. destruct (lpos l); reflexivity.
      * unfold assign_lit. rewrite level_of_assign by (rewrite (ti_len_levels s HT); exact Hr). rewrite Nat.eqb_refl. exact H0.
Qed.

Lemma J_head0 : forall s, s_head s = 0 -> J s.
Proof. intros s H cj a b r _ _ [_ (tr1 & tr2 & _ & L)] _. lia. Qed.

Lemma arr_len_init : forall cls n, arr_len (init_state cls n).
Proof. intros cls n. unfold arr_len, nv, init_state. simpl. rewrite !repeat_length. auto. Qed.

Theorem init_LJ : forall fuel cls A mc mr limit lf orc P L0, valid_input cls A = true ->
  init_loop fuel cls A mc mr limit lf orc = ILoop P L0 -> LJ L0.
Proof.
  intros fuel cls A mc mr limit lf orc P L0 Hvalid E. destruct (valid_input_facts cls A Hvalid) as [Hcls HA].
  unfold init_loop in E. destruct cls as [|c0 cls0]; [discriminate|]. set (cls := c0 :: cls0) in *. set (n := n_vars_of cls) in *.
  destruct (n =? 0); [discriminate|]. destruct (existsb is_nilb cls) eqn:Enil; [discriminate|].
  destruct (attach_orig cls 0 [] (init_state cls n)) as [s0 units] eqn:EO.
  pose proof (init_state_BI cls n Hcls) as HB0.
  assert (s0 = attach_all cls 0 (init_state cls n)) as Es0 by (rewrite <- attach_orig_state with (u := []); rewrite EO; reflexivity).
  assert (units = snd (attach_orig cls 0 [] (init_state cls n))) as Eun by (rewrite EO; reflexivity).
  destruct (attach_orig_spec cls 0 [] (init_state cls n) s0 units HB0) as (H0 & EA0 & Eg0 & En0 & Hu0); auto.
  { unfold n_clauses, init_state. cbn [s_orig s_learned]. simpl. rewrite Nat.add_0_r. apply Nat.le_refl. }
  { intros k Hk. change (0 + k) with k. unfold get_clause, init_state. cbn [s_orig s_learned].
    destruct (Nat.ltb_spec k (length cls)) as [Q|Q]; [reflexivity | exfalso; apply (Nat.lt_irrefl k); eapply Nat.lt_le_trans; [exact Hk | exact Q]]. }
  { intros l cj _. unfold watch_list, init_state. cbn [s_wpos s_wneg]. destruct (lpos l); rewrite nth_repeat; reflexivity. }
  destruct (attach_all_frame cls 0 (init_state cls n)) as (F1 & F2 & F3 & F4 & F5 & F6). rewrite <- Es0 in *.
  assert (lvl0 s0) as Lv0 by (unfold lvl0; rewrite (asg_eq_cur_level _ _ EA0); reflexivity).
  assert (nv s0 = S n) as N0 by (unfold nv; destruct EA0 as (Q & _); rewrite Q; unfold init_state; cbn [s_vals]; apply repeat_length).
  assert (arr_len s0) as A0 by (apply F6; apply arr_len_init).
  assert (s_head s0 = 0) as Hh0 by (destruct EA0 as (_ & _ & _ & _ & _ & Q & _); rewrite Q; reflexivity).
  assert (n_clauses s0 = length cls) as Nc0.
  { rewrite En0. unfold n_clauses, init_state. cbn [s_orig s_learned]. simpl. rewrite Nat.add_0_r. reflexivity. }
  assert (forall ci, get_clause s0 ci = nth ci cls []) as G0.
  { intros ci. rewrite Eg0. unfold get_clause, init_state. cbn [s_orig s_learned].
    destruct (Nat.ltb_spec ci (length cls)) as [Q|Q]; [reflexivity|]. rewrite (nth_overflow cls) by exact Q. destruct (ci - length cls); reflexivity. }
  assert (forall ci, ci < length cls -> 2 <= length (nth ci cls []) -> covered s0 ci) as Cov0.
  { intros ci Hci Hlen. rewrite Es0. change ci with (0 + ci). apply covered_attach_all; auto.
    - apply arr_len_init.
    - apply Forall_forall. intros l Hl. unfold lit_in, nv, init_state. cbn [s_vals]. rewrite repeat_length.
      pose proof (proj2 (Hcls (nth ci cls []) l (nth_In _ _ Hci) Hl)). lia.
    - intros j Hj. change (0 + j) with j. unfold get_clause, init_state. cbn [s_orig s_learned].
      destruct (Nat.ltb_spec j (length cls)) as [Q|Q]; [reflexivity | exfalso; apply (Nat.lt_irrefl j); eapply Nat.lt_le_trans; [exact Hj | exact Q]]. }
  set (s1 := if (limit <=? 1)%Z then assign_pures A (find_pure_literals cls n) s0 else s0) in *.
  assert (BI s1 /\ lvl0 s1 /\ nv s1 = S n /\ db_eq s0 s1) as (H1 & L1 & N1 & D1).
  { unfold s1. destruct (limit <=? 1)%Z; [|split; [exact H0 | split; [exact Lv0 | split; [exact N0 | apply db_eq_refl]]]].
    apply assign_pures_BI; auto. intros v b Hv. eapply find_pure_range; eauto. }
  assert (s_head s1 = 0 /\ arr_len s1) as [Hh1 A1].
  { unfold s1. destruct (limit <=? 1)%Z; [|auto]. destruct (assign_pures_frame A (find_pure_literals cls n) s0) as [Q1 Q2]. split; [congruence | auto]. }
  destruct (assign_units units s1) as [s2 [|]] eqn:EU; [discriminate|].
  assert (forall l i, In (l, i) units -> get_clause s1 i = [l]) as Hun1.
  { intros l i Hl. rewrite (db_eq_get_clause _ _ _ D1), Eg0. destruct (Hu0 l i Hl) as [[]|Q]. exact Q. }
  destruct (assign_units_BI units s1 s2 n H1 L1 N1 Hun1 EU) as (H2 & L2 & N2).
  destruct (assign_units_true units s1 s2 n H1 L1 N1 Hun1 EU) as (Hh2 & A2 & D2 & _ & T2).
  assert (db_eq s0 s2) as D02.
  { destruct D1 as (E1 & E2 & E3 & E4 & E5 & E6). destruct D2 as (G1 & G2 & G3 & G4 & G5 & G6). repeat split; congruence. }
  assert (cov_all s2) as C2.
  { intros ci Hci. rewrite (db_eq_n_clauses _ _ D02), Nc0 in Hci.
    destruct (nth ci cls []) as [|a [|b r]] eqn:Ec.
    - exfalso. assert (existsb is_nilb cls = true) as Q; [|congruence].
      apply existsb_exists. exists (nth ci cls []). split; [apply nth_In; exact Hci | rewrite Ec; reflexivity].
    - unfold covered. rewrite (db_eq_get_clause _ _ _ D02), G0, Ec. apply (T2 a ci).
      rewrite Eun. pose proof (proj2 (attach_orig_units cls 0 [] (init_state cls n)) ci a Hci Ec) as Q. exact Q.
    - apply (covered_db_eq_long s0); auto.
      + rewrite G0, Ec. simpl. lia.
      + apply Cov0; [exact Hci | rewrite Ec; simpl; lia]. }
  destruct (propagate fuel A s2) as [[s3 c]|] eqn:EP; [|discriminate].
  assert (forall csr li nx dc rs sols evs orc0, LJ (mkLoop s3 c 0 csr li nx dc rs sols evs orc0)) as HLJ.
  { intros. eapply LJ_after_propagate; [| exact H2 | apply A2; exact A1 | exact C2 | apply J_head0; congruence | exact EP]. rewrite N2. exact HA. }
  destruct c as [| |ci]; try discriminate; (destruct (luby_val 1) as [lv|]; [|discriminate]); injection E as E1 E2; subst P L0; apply HLJ.
Qed.

(* (d) for every state of every run *)
Theorem run_LJ : forall fuel cls A mc mr limit lf orc P L0 L, valid_input cls A = true ->
  init_loop fuel cls A mc mr limit lf orc = ILoop P L0 -> reach fuel P L0 L -> LI P L /\ LJ L.
Proof.
  intros fuel cls A mc mr limit lf orc P L0 L Hv Hi R. induction R as [|L1 L2 R IH E].
  - split; [eapply DeepInit.init_LI; eauto | eapply init_LJ; eauto].
  - destruct IH as [IH1 IH2]. split; [eapply main_step_LI; eauto | eapply main_step_LJ; eauto].
Qed.
