(* C02 - soundness of the RUP checker: rup F c = true -> entails F c. *)
From Coq Require Import List ZArith Bool Lia.
Import ListNotations.
From SV Require Import C01.SatSpec C01.Rup.
Open Scope Z_scope.

Lemma mem_In : forall l s, mem l s = true <-> In l s.
Proof.
  intros l s. unfold mem. rewrite existsb_exists. split.
  - intros [x [Hin Heq]]. apply Z.eqb_eq in Heq. subst. exact Hin.
  - intros Hin. exists l. split; [exact Hin | apply Z.eqb_refl].
Qed.

Lemma mem_false_notIn : forall l s, mem l s = false -> ~ In l s.
Proof.
  intros l s H Hin. apply mem_In in Hin. congruence.
Qed.

Lemma lit_true_opp : forall m l, l <> 0 -> lit_true m (- l) = negb (lit_true m l).
Proof.
  intros m l Hl. unfold lit_true.
  destruct (0 <? l) eqn:E1; destruct (0 <? - l) eqn:E2;
    try (apply Z.ltb_lt in E1); try (apply Z.ltb_lt in E2);
    try (apply Z.ltb_ge in E1); try (apply Z.ltb_ge in E2); try lia.
  - rewrite Z.opp_involutive. reflexivity.
  - rewrite negb_involutive. reflexivity.
Qed.

Lemma clause_true_false_all : forall m c, clause_true m c = false ->
  forall l, In l c -> lit_true m l = false.
Proof.
  intros m c H l Hin. unfold clause_true in H.
  destruct (lit_true m l) eqn:E; [|reflexivity].
  assert (existsb (lit_true m) c = true) as Ht by (apply existsb_exists; exists l; auto).
  congruence.
Qed.

Definition all_true (m : asg) (s : list Z) : Prop := forall l, In l s -> lit_true m l = true.

Lemma lit_false_sound : forall m s l, all_true m s -> lit_false s l = true -> lit_true m l = false.
Proof.
  intros m s l Hs H. unfold lit_false in H. apply andb_prop in H. destruct H as [Hnz Hmem].
  apply negb_true_iff in Hnz. apply Z.eqb_neq in Hnz.
  apply mem_In in Hmem. apply Hs in Hmem.
  rewrite (lit_true_opp m l Hnz) in Hmem. apply negb_true_iff in Hmem. exact Hmem.
Qed.

Lemma status_conflict_sound : forall m s c, all_true m s ->
  clause_status s c = CConflict -> clause_true m c = false.
Proof.
  intros m s c Hs H. unfold clause_status in H.
  destruct (existsb (fun l => mem l s) c); [discriminate|].
  destruct (filter (fun l => negb (lit_false s l)) c) as [|u tl] eqn:Ef.
  - unfold clause_true. apply not_true_is_false. intros Hex.
    apply existsb_exists in Hex. destruct Hex as [l [Hin Hl]].
    destruct (lit_false s l) eqn:Elf.
    + rewrite (lit_false_sound m s l Hs Elf) in Hl. discriminate.
    + assert (In l (filter (fun l => negb (lit_false s l)) c)) as Hf.
      { apply filter_In. split; [exact Hin | rewrite Elf; reflexivity]. }
      rewrite Ef in Hf. destruct Hf.
  - destruct (forallb (Z.eqb u) tl); discriminate.
Qed.

Lemma status_unit_sound : forall m s c u, all_true m s -> clause_true m c = true ->
  clause_status s c = CUnit u -> lit_true m u = true.
Proof.
  intros m s c u Hs Hc H. unfold clause_status in H.
  destruct (existsb (fun l => mem l s) c); [discriminate|].
  destruct (filter (fun l => negb (lit_false s l)) c) as [|u' tl] eqn:Ef; [discriminate|].
  destruct (forallb (Z.eqb u') tl) eqn:Eall; [|discriminate].
  injection H as Hu. subst u'.
  unfold clause_true in Hc. apply existsb_exists in Hc. destruct Hc as [l [Hin Hl]].
  destruct (lit_false s l) eqn:Elf.
  - rewrite (lit_false_sound m s l Hs Elf) in Hl. discriminate.
  - assert (In l (filter (fun l => negb (lit_false s l)) c)) as Hf.
    { apply filter_In. split; [exact Hin | rewrite Elf; reflexivity]. }
    rewrite Ef in Hf. destruct Hf as [Heq | Htl].
    + subst. exact Hl.
    + rewrite forallb_forall in Eall. apply Eall in Htl. apply Z.eqb_eq in Htl. subst. exact Hl.
Qed.

Lemma all_true_cons : forall m s u, all_true m s -> lit_true m u = true -> all_true m (u :: s).
Proof.
  intros m s u Hs Hu l [Heq | Hin]; [subst; exact Hu | apply Hs; exact Hin].
Qed.

Lemma scan_sound : forall m F s ch, (forall c, In c F -> clause_true m c = true) -> all_true m s ->
  match scan F s ch with
  | None => False
  | Some (s', _) => all_true m s'
  end.
Proof.
  intros m F. induction F as [|c F IH]; intros s ch HF Hs; simpl.
  - exact Hs.
  - assert (clause_true m c = true) as Hc by (apply HF; left; reflexivity).
    assert (forall c', In c' F -> clause_true m c' = true) as HF' by (intros c' Hin; apply HF; right; exact Hin).
    destruct (clause_status s c) as [| |u|] eqn:Est.
    + apply IH; assumption.
    + rewrite (status_conflict_sound m s c Hs Est) in Hc. discriminate.
    + apply IH; [exact HF'|]. apply all_true_cons; [exact Hs|].
      exact (status_unit_sound m s c u Hs Hc Est).
    + apply IH; assumption.
Qed.

Lemma up_sound : forall m fuel F s, (forall c, In c F -> clause_true m c = true) -> all_true m s ->
  up fuel F s = false.
Proof.
  intros m fuel. induction fuel as [|f IH]; intros F s HF Hs; simpl; [reflexivity|].
  pose proof (scan_sound m F s false HF Hs) as Hscan.
  destruct (scan F s false) as [[s' ch']|]; [|destruct Hscan].
  destruct ch'; [apply IH; assumption | reflexivity].
Qed.

Theorem rup_sound : forall F c, rup F c = true -> entails F c.
Proof.
  intros F c H m Hm. unfold rup in H.
  destruct (mem 0 c) eqn:E0; [discriminate|].
  destruct (clause_true m c) eqn:Ec; [reflexivity|].
  exfalso.
  assert (all_true m (map Z.opp c)) as Hs.
  { intros l' Hin. apply in_map_iff in Hin. destruct Hin as [l [Heq Hl]]. subst l'.
    assert (l <> 0) as Hnz.
    { intros Hz. subst l. apply mem_false_notIn in E0. apply E0. exact Hl. }
    rewrite (lit_true_opp m l Hnz). rewrite (clause_true_false_all m c Ec l Hl). reflexivity. }
  rewrite (up_sound m (S (length F)) F (map Z.opp c) Hm Hs) in H. discriminate.
Qed.

(* rup F [] = true: F has no model *)
Corollary rup_empty_unsat : forall F, rup F [] = true -> forall m, ~ models m F.
Proof.
  intros F H m Hm. pose proof (rup_sound F [] H m Hm) as Hc. discriminate.
Qed.
