(* C01 deep model - (d): propagate preserves coverage (W) and (J); when it reports a conflict, what is left of J is JC. *)
From Coq Require Import List ZArith Bool Arith Lia Permutation.
Import ListNotations.
From SV Require Import C01.SatSpec C01.Machine C01.DeepCdcl C01.DeepBase C01.DeepTrail C01.DeepTrailProp C01.DeepAnalyze
  C01.DeepWatch C01.DeepReason C01.DeepReasonProp C01.DeepRunOps C01.DeepJ C01.DeepJOps.
Close Scope Z_scope.
Open Scope nat_scope.

(* ---------------------------------------------------------------- array lengths *)
Lemma arr_len_set_clause : forall s ci c, arr_len s -> arr_len (set_clause s ci c).
Proof. intros s ci c H. unfold arr_len, nv, set_clause in *. destruct (ci <? length (s_orig s)); exact H. Qed.

Lemma arr_len_set_watch_list : forall s l ws, arr_len s -> arr_len (set_watch_list s l ws).
Proof. intros s l ws H. unfold arr_len, nv, set_watch_list in *. destruct (lpos l); simpl; rewrite ?upd_length; exact H. Qed.

Lemma arr_len_add_watch : forall l i s, arr_len s -> arr_len (add_watch l i s).
Proof. intros. unfold add_watch. apply arr_len_set_watch_list. assumption. Qed.

Lemma arr_len_assign : forall s v b r, arr_len s -> arr_len (assign v b r s).
Proof. intros s v b r H. apply (arr_len_db_eq s); [apply assign_db_eq | apply nv_assign | exact H]. Qed.

Lemma arr_len_bump : forall s, arr_len s -> arr_len (bump_confl s).
Proof. intros s H. exact H. Qed.

Lemma slot_len_nv : forall s l, arr_len s -> slot_len s l = nv s.
Proof. intros s l (A1 & A2 & _). unfold slot_len. destruct (lpos l); assumption. Qed.

(* ---------------------------------------------------------------- the invariants of the watch loop *)
Definition JW (fl : Z) (i : nat) (s : st) : Prop :=
  Jx s (fun ci _ _ => exists j, i <= j < length (watch_list s fl) /\ nth j (watch_list s fl) 0 = ci).

Definition JWI (fl : Z) (i : nat) (s : st) : Prop := WI fl s /\ arr_len s /\ cov_all s /\ JW fl i s.
Definition CI (fl : Z) (s : st) : Prop := WI fl s /\ arr_len s /\ cov_all s /\ JC s.
Definition DI (fl : Z) (s : st) : Prop := WI fl s /\ arr_len s /\ cov_all s /\ J s.

Lemma swap01_two : forall c a b r, swap01 c = a :: b :: r -> c = b :: a :: r.
Proof. intros [|x [|y t]] a b r H; simpl in H; try discriminate. injection H as E1 E2 E3. subst. reflexivity. Qed.

Lemma wnorm_JW : forall fl i s s1 ci a r, wnorm fl i s s1 ci a r -> arr_len s -> cov_all s -> JW fl i s ->
  arr_len s1 /\ cov_all s1 /\ JW fl i s1.
Proof.
  intros fl i s s1 ci a r (Hi & Eci & Hci & Hc & [E|E] & Hw) HA HC HJ; [subst s1; auto|].
  split; [subst s1; apply arr_len_set_clause; exact HA|]. split; [subst s1; apply cov_all_swap01; assumption|].
  assert (asg_eq s s1) as EA by (subst s1; apply set_clause_asg).
  intros cj a' b' r' Hcj Hg Ha Hb. rewrite Hw.
  assert (n_clauses s1 = n_clauses s) as En by (subst s1; apply n_clauses_set_clause). rewrite En in Hcj.
  apply (fp_asg_eq _ _ _ EA) in Ha. apply (fp_asg_eq _ _ _ EA) in Hb.
  destruct (Nat.eq_dec cj ci) as [Q|Q].
  - subst cj. rewrite E in Hg. rewrite get_clause_set_clause_eq in Hg by exact Hci. apply swap01_two in Hg.
    exact (HJ ci b' a' r' Hcj Hg Hb Ha).
  - rewrite E in Hg. rewrite get_clause_set_clause_neq in Hg by exact Q. exact (HJ cj a' b' r' Hcj Hg Ha Hb).
Qed.

Lemma watch_step_JWI : forall fl i s, JWI fl i s ->
  match watch_step fl i s with
  | WDone => DI fl s
  | WNext s' => JWI fl (S i) s'
  | WStay s' => JWI fl i s'
  | WConf s' _ => CI fl s'
  end.
Proof.
  intros fl i s (HW & HA & HC & HJ).
  pose proof (watch_step_wcase fl i s (bi_wle s (proj1 HW))) as C. pose proof (wcase_WI fl i s _ HW C) as HWI.
  destruct C as [Hd | s1 ci a r Hn Ht | s1 ci a r j Hn Ht Hj Hnf | s1 ci a r Hn Hall Ha | s1 ci a r Hn Hall Ha].
  - (* done *)
    split; [exact HW|]. split; [exact HA|]. split; [exact HC|].
    intros cj a' b' r' H1 H2 H3 H4. destruct (HJ cj a' b' r' H1 H2 H3 H4) as [j [Q _]]. lia.
  - (* first watch true *)
    destruct (wnorm_JW _ _ _ _ _ _ _ Hn HA HC HJ) as (HA1 & HC1 & HJ1). destruct Hn as (Hi & Eci & Hci & Hc & _ & Hw).
    split; [exact HWI|]. split; [exact HA1|]. split; [exact HC1|].
    intros cj a' b' r' H1 H2 H3 H4. destruct (HJ1 cj a' b' r' H1 H2 H3 H4) as [j0 [Q1 Q2]]. exists j0. split; [|exact Q2].
    destruct (Nat.eq_dec j0 i) as [E|E]; [|lia]. exfalso. subst j0. rewrite Hw, <- Eci in Q2. subst cj.
    rewrite Hc in H2. injection H2 as E1 E2 E3. subst a'. destruct H3 as [H3 _]. rewrite H3 in Ht. discriminate.
  - (* watch moved *)
    destruct (wnorm_WI _ _ _ _ _ _ _ HW Hn) as [(HB1 & Hf1 & Hl1) EA1].
    destruct (wnorm_JW _ _ _ _ _ _ _ Hn HA HC HJ) as (HA1 & HC1 & HJ1). destruct Hn as (Hi & Eci & Hci & Hc & _ & Hw).
    set (x := nth j r 0%Z) in *.
    assert (x <> fl) as Hx by (intros Q; rewrite Q, Hf1 in Hnf; discriminate).
    assert (i < length (watch_list s1 fl)) as Hi1 by (rewrite Hw; exact Hi).
    assert (ci = nth i (watch_list s1 fl) 0) as Eci1 by (rewrite Hw; exact Eci).
    assert (ci < n_clauses s1) as Hci1.
    { destruct (watch_le_member s1 fl ci (bi_wle s1 HB1)) as [Q _]; [rewrite Eci1; apply nth_In; exact Hi1 | exact Q]. }
    assert (In x (get_clause s1 ci)) as Hxin by (rewrite Hc; right; right; apply nth_In; exact Hj).
    assert (lvar x < nv s1) as Hxr.
    { pose proof (get_clause_in s1 ci (proj2 (bi_ti s1 HB1))) as Q. unfold clause_in in Q. rewrite Forall_forall in Q. exact (Q x Hxin). }
    set (s4 := add_watch x ci (set_watch_list (set_clause s1 ci (a :: x :: upd r j fl)) fl (remove_swap_last (watch_list s1 fl) i))) in *.
    assert (asg_eq s1 s4) as E4.
    { unfold s4. eapply asg_eq_trans; [apply set_clause_asg|]. eapply asg_eq_trans; [apply set_watch_list_asg | apply add_watch_asg]. }
    assert (watch_list s4 fl = remove_swap_last (watch_list s1 fl) i) as W4.
    { unfold s4, add_watch. rewrite watch_list_set_other by (intros Q; apply Hx; symmetry; exact Q). rewrite watch_list_set_same.
      assert (lvar fl < slot_len (set_clause s1 ci (a :: x :: upd r j fl)) fl) as Q.
      { assert (slot_len (set_clause s1 ci (a :: x :: upd r j fl)) fl = slot_len s1 fl) as Q0 by (unfold slot_len, set_clause; destruct (ci <? length (s_orig s1)); reflexivity).
        rewrite Q0. apply watch_nonempty_in_range. intros Q1. rewrite Q1 in Hi1. simpl in Hi1. lia. }
      destruct (Nat.ltb_spec (lvar fl) (slot_len (set_clause s1 ci (a :: x :: upd r j fl)) fl)); [reflexivity | lia]. }
    split; [exact HWI|]. split; [|split].
    + unfold s4. apply arr_len_add_watch, arr_len_set_watch_list, arr_len_set_clause. exact HA1.
    + unfold s4, x. rewrite Eci1. apply cov_all_move; auto.
      * exact (bi_wle s1 HB1).
      * rewrite <- Eci1. exact Hc.
      * rewrite slot_len_nv by exact HA1. exact Hxr.
    + intros cj a' b' r' H1 H2 H3 H4.
      assert (n_clauses s4 = n_clauses s1) as N4 by (unfold s4, add_watch; rewrite !n_clauses_set_watch_list, n_clauses_set_clause; reflexivity).
      assert (get_clause s4 cj = get_clause (set_clause s1 ci (a :: x :: upd r j fl)) cj) as G4 by (unfold s4, add_watch; rewrite !get_clause_set_watch_list; reflexivity).
      rewrite N4 in H1. rewrite G4 in H2. apply (fp_asg_eq _ _ _ E4) in H3. apply (fp_asg_eq _ _ _ E4) in H4.
      destruct (Nat.eq_dec cj ci) as [Q|Q].
      * exfalso. subst cj. rewrite get_clause_set_clause_eq in H2 by exact Hci1. injection H2 as E1 E2 E3. subst b'.
        destruct H4 as [H4 _]. rewrite H4 in Hnf. discriminate.
      * rewrite get_clause_set_clause_neq in H2 by exact Q.
        destruct (HJ1 cj a' b' r' H1 H2 H3 H4) as [j0 [Q1 Q2]]. rewrite W4, length_remove_swap_last.
        assert (j0 <> i) as Hj0 by (intros C; subst j0; rewrite <- Eci1 in Q2; congruence).
        destruct (Nat.eq_dec j0 (length (watch_list s1 fl) - 1)) as [Q3|Q3].
        -- exists i. split; [lia|]. rewrite nth_remove_swap_last by lia. rewrite Nat.eqb_refl. rewrite <- Q3. exact Q2.
        -- exists j0. split; [lia|]. rewrite nth_remove_swap_last by lia. destruct (Nat.eqb_spec i j0); [lia | exact Q2].
  - (* conflict *)
    destruct (wnorm_WI _ _ _ _ _ _ _ HW Hn) as [(HB1 & Hf1 & Hl1) EA1].
    destruct (wnorm_JW _ _ _ _ _ _ _ Hn HA HC HJ) as (HA1 & HC1 & HJ1).
    split; [exact (proj1 HWI)|]. split; [exact HA1|]. split.
    + apply (cov_all_asg_eq_db_eq s1); [apply bump_confl_asg | apply bump_confl_db_eq | exact HC1].
    + intros cj a' b' r' H1 H2 H3 H4. apply fp_bump_confl in H3. apply fp_bump_confl in H4.
      change (level_of (bump_confl s1)) with (level_of s1). change (cur_level (bump_confl s1)) with (cur_level s1).
      destruct (HJ1 cj a' b' r' H1 H2 H3 H4) as [j0 [Q1 Q2]].
      assert (In cj (watch_list s1 fl)) as Hin by (rewrite <- Q2; apply nth_In; lia).
      destruct (watch_le_member s1 fl cj (bi_wle s1 HB1) Hin) as [_ (a2 & b2 & r2 & Hg & Hab)].
      change (get_clause (bump_confl s1) cj) with (get_clause s1 cj) in H2. rewrite Hg in H2. injection H2 as E1 E2 E3. subst.
      destruct Hab as [Q|Q]; subst; [left | right]; exact Hl1.
  - (* unit *)
    destruct (wnorm_WI _ _ _ _ _ _ _ HW Hn) as [(HB1 & Hf1 & Hl1) EA1].
    destruct (wnorm_JW _ _ _ _ _ _ _ Hn HA HC HJ) as (HA1 & HC1 & HJ1). destruct Hn as (Hi & Eci & Hci & Hc & _ & Hw).
    assert (val_of s1 (lvar a) = None) as Hna by (unfold lit_value in Ha; destruct (val_of s1 (lvar a)); [discriminate|reflexivity]).
    assert (In a (get_clause s1 ci)) as Hin by (rewrite Hc; left; reflexivity).
    assert (lvar a < length (s_vals s1)) as Hra.
    { pose proof (get_clause_in s1 ci (proj2 (bi_ti s1 HB1))) as Q. unfold clause_in in Q. rewrite Forall_forall in Q. exact (Q a Hin). }
    pose proof (proj1 (bi_ti s1 HB1)) as HT1.
    split; [exact HWI|]. split; [unfold assign_lit; apply arr_len_assign; exact HA1|]. split.
    + unfold assign_lit. apply cov_all_assign; assumption.
    + intros cj a' b' r' H1 H2 H3 H4. unfold assign_lit in *.
      apply (fp_assign_inv s1 _ _ _ _ HT1 Hna Hra) in H3. apply (fp_assign_inv s1 _ _ _ _ HT1 Hna Hra) in H4.
      change (watch_list (assign (lvar a) (lpos a) (Some ci) s1) fl) with (watch_list s1 fl).
      destruct (HJ1 cj a' b' r' H1 H2 H3 H4) as [j0 [Q1 Q2]]. exists j0. split; [|exact Q2].
      destruct (Nat.eq_dec j0 i) as [E|E]; [|lia]. exfalso. subst j0. rewrite Hw, <- Eci in Q2. subst cj.
      change (get_clause (assign (lvar a) (lpos a) (Some ci) s1) ci) with (get_clause s1 ci) in H2.
      rewrite Hc in H2. injection H2 as E1 E2 E3. subst a'. destruct H3 as [H3 _]. rewrite H3 in Ha. discriminate.
Qed.

Lemma prop_watch_inv3 : forall (I : nat -> st -> Prop) (C D : st -> Prop) fl,
  (forall i s, I i s -> match watch_step fl i s with
                        | WDone => D s | WNext s' => I (S i) s' | WStay s' => I i s' | WConf s' _ => C s' end) ->
  forall fuel i s s' r, I i s -> prop_watch fuel fl i s = Some (s', r) -> match r with None => D s' | Some _ => C s' end.
Proof.
  intros I C D fl Hstep. induction fuel as [|f IH]; intros i s s' r HI E; simpl in E; [discriminate|].
  pose proof (Hstep i s HI) as Hp. destruct (watch_step fl i s) as [|s1|s1|s1 ci].
  - injection E as E1 E2. subst. exact Hp.
  - eapply IH; eauto.
  - eapply IH; eauto.
  - injection E as E1 E2. subst. exact Hp.
Qed.

Lemma prop_watch_JWI : forall fuel fl i s s' r, JWI fl i s -> prop_watch fuel fl i s = Some (s', r) ->
  match r with None => DI fl s' | Some _ => CI fl s' end.
Proof. intros fuel fl i s s' r. apply (prop_watch_inv3 (JWI fl) (CI fl) (DI fl) fl). apply watch_step_JWI. Qed.

(* ---------------------------------------------------------------- binary implications *)
Definition JF (fl : Z) (s : st) : Prop := Jx s (fun _ a b => a = fl \/ b = fl).

Lemma JF_JC : forall fl s, level_of s (lvar fl) = cur_level s -> JF fl s -> JC s.
Proof. intros fl s Hl H. eapply Jx_weaken; [|exact H]. intros ci a b [Q|Q]; subst; [left | right]; exact Hl. Qed.

Lemma prop_bin_J : forall fl imps done s s' r, WI fl s -> arr_len s -> cov_all s -> JF fl s ->
  implications s fl = done ++ imps -> (forall p, In p done -> lit_value s (fst p) = Some true) ->
  prop_bin imps s = (s', r) ->
  match r with
  | Some _ => CI fl s'
  | None => WI fl s' /\ arr_len s' /\ cov_all s' /\ JF fl s'
            /\ (forall p, In p (implications s' fl) -> lit_value s' (fst p) = Some true)
  end.
Proof.
  intros fl. induction imps as [|[implied ci] imps IH]; intros done s s' r HW HA HC HJ Himp Hdone E.
  - simpl in E. injection E as E1 E2. subst. split; [exact HW|]. split; [exact HA|]. split; [exact HC|]. split; [exact HJ|].
    intros p Hp. apply Hdone. rewrite Himp, app_nil_r in Hp. exact Hp.
  - assert (forall p, In p [(implied, ci)] -> In p (implications s fl)) as Hsub1.
    { intros p [Q|[]]. subst p. rewrite Himp. apply in_or_app. right. left. reflexivity. }
    pose proof HW as (HB & Hf & Hl). simpl in E.
    destruct (val_of s (lvar implied)) as [b|] eqn:EV.
    + destruct (Bool.eqb b (lpos implied)) eqn:EB.
      * apply (IH (done ++ [(implied, ci)]) s s' r); auto.
        -- rewrite <- app_assoc. exact Himp.
        -- intros p Hp. apply in_app_or in Hp. destruct Hp as [Hp|[Hp|[]]]; [apply Hdone; exact Hp|]. subst p. simpl.
           unfold lit_value. rewrite EV, EB. reflexivity.
      * injection E as E1 E2. subst s' r.
        destruct (prop_bin_WI fl [(implied, ci)] s (bump_confl s) (Some ci) HW Hsub1) as [HW1 _].
        { simpl. rewrite EV, EB. reflexivity. }
        split; [exact HW1|]. split; [exact HA|]. split.
        -- apply (cov_all_asg_eq_db_eq s); [apply bump_confl_asg | apply bump_confl_db_eq | exact HC].
        -- apply (JF_JC fl); [exact Hl|]. intros cj a' b' r' H1 H2 H3 H4. apply fp_bump_confl in H3. apply fp_bump_confl in H4.
           exact (HJ cj a' b' r' H1 H2 H3 H4).
    + destruct (prop_bin_WI fl [(implied, ci)] s (assign_lit implied (Some ci) s) None HW Hsub1) as [HW1 _].
      { simpl. rewrite EV. reflexivity. }
      pose proof (proj1 (bi_ti s HB)) as HT.
      destruct (bi_big s HB fl implied ci (Hsub1 _ (or_introl eq_refl))) as [Hci Hc].
      assert (In implied (get_clause s ci)) as Himpl by (destruct Hc as [Q|Q]; rewrite Q; simpl; auto).
      assert (lvar implied < length (s_vals s)) as Hra.
      { pose proof (get_clause_in s ci (proj2 (bi_ti s HB))) as Q. unfold clause_in in Q. rewrite Forall_forall in Q. exact (Q implied Himpl). }
      apply (IH (done ++ [(implied, ci)]) (assign_lit implied (Some ci) s) s' r); auto.
      * unfold assign_lit. apply arr_len_assign. exact HA.
      * unfold assign_lit. apply cov_all_assign; assumption.
      * intros cj a' b' r' H1 H2 H3 H4. unfold assign_lit in *.
        apply (fp_assign_inv s _ _ _ _ HT EV Hra) in H3. apply (fp_assign_inv s _ _ _ _ HT EV Hra) in H4.
        exact (HJ cj a' b' r' H1 H2 H3 H4).
      * unfold assign_lit. rewrite (db_eq_implications _ _ _ (assign_db_eq _ _ _ s)). rewrite <- app_assoc. exact Himp.
      * intros p Hp. apply in_app_or in Hp. destruct Hp as [Hp|[Hp|[]]].
        -- pose proof (Hdone p Hp) as Q. unfold assign_lit. rewrite lit_value_assign_other; [exact Q|].
           intros C. apply lit_value_assigned in Q. rewrite C in Q. contradiction.
        -- subst p. simpl. unfold assign_lit. rewrite lit_value_assign_same by auto. destruct (lpos implied); reflexivity.
Qed.

(* after the implication list: a clause that still violates J is watched on fl *)
Lemma JF_to_JW : forall fl s, WI fl s -> cov_all s -> JF fl s ->
  (forall p, In p (implications s fl) -> lit_value s (fst p) = Some true) -> JW fl 0 s.
Proof.
  intros fl s (HB & Hf & Hl) HC HJ Htrue cj a b r H1 H2 H3 H4.
  pose proof (HC cj H1) as Q. unfold covered in Q. rewrite H2 in Q.
  destruct (HJ cj a b r H1 H2 H3 H4) as [E|E]; subst.
  - destruct Q as [Q|[_ [Q2 _]]].
    + pose proof (Q fl) as Q'. unfold pos01 in Q'. rewrite Z.eqb_refl in Q'.
      assert (In cj (watch_list s fl)) as Hin by (apply (count_occ_In Nat.eq_dec); unfold cnt in Q'; lia).
      destruct (In_nth _ _ 0 Hin) as [j [Hj Ej]]. exists j. split; [lia | exact Ej].
    + exfalso. pose proof (Htrue _ Q2) as Q3. simpl in Q3. destruct H4 as [H4 _]. congruence.
  - destruct Q as [Q|[_ [_ Q3]]].
    + pose proof (Q fl) as Q'. unfold pos01 in Q'. rewrite Z.eqb_refl in Q'.
      assert (In cj (watch_list s fl)) as Hin by (apply (count_occ_In Nat.eq_dec); unfold cnt in Q'; destruct (a =? fl)%Z; lia).
      destruct (In_nth _ _ 0 Hin) as [j [Hj Ej]]. exists j. split; [lia | exact Ej].
    + exfalso. pose proof (Htrue _ Q3) as Q4. simpl in Q4. destruct H3 as [H3 _]. congruence.
Qed.

(* ---------------------------------------------------------------- one trail entry *)
Definition PJ (s : st) : Prop := BI s /\ arr_len s /\ cov_all s /\ J s.    (* between two trail entries *)
Definition PC (s : st) : Prop := BI s /\ arr_len s /\ cov_all s /\ JC s.   (* when a conflict is reported *)

Lemma head_step_PJ : forall inner s s' r, PJ s -> s_head s < length (s_trail s) -> head_step inner s = Some (s', r) ->
  match r with None => PJ s' | Some _ => PC s' end.
Proof.
  intros inner s s' r (H & HA & HC & HJ) Hlt E. unfold head_step in E.
  destruct (trail_at_split s Hlt) as (tr1 & tr2 & Etr & Ltr). set (v0 := trail_at s (s_head s)) in *.
  set (s1 := set_head s (S (s_head s))) in *.
  assert (BI s1) as H1 by (apply BI_set_head; assumption).
  pose proof (proj1 (bi_ti s H)) as HT.
  assert (In v0 (s_trail s)) as Hv0 by (rewrite Etr; apply in_or_app; right; left; reflexivity).
  assert (val_of s1 v0 <> None) as Hass by (apply (ti_assigned s HT); exact Hv0).
  assert (v0 <> 0) as Hnz by (intros Q; rewrite Q in Hass; apply Hass; exact (bi_v0 s H)).
  set (fl := false_lit_of s1 v0) in *.
  assert (WI fl s1) as HW.
  { split; [exact H1|]. split.
    - apply false_lit_of_false; assumption.
    - unfold fl. rewrite lvar_false_lit_of. change (level_of s1 v0) with (level_of s v0). change (cur_level s1) with (cur_level s).
      apply (hi_level s (bi_head s H) tr1 v0 tr2 Etr). lia. }
  assert (arr_len s1) as HA1 by exact HA.
  assert (cov_all s1) as HC1.
  { apply (cov_all_db_eq_asg s); [apply set_head_db_eq | | exact HC]. intros l Q1 Q2. split; assumption. }
  assert (JF fl s1) as HJ1.
  { intros cj a b r0 Q1 Q2 Q3 Q4. change (n_clauses s1) with (n_clauses s) in Q1. change (get_clause s1 cj) with (get_clause s cj) in Q2.
    assert (a <> 0%Z) as Ha0 by (apply (bi_nz s H cj); rewrite Q2; left; reflexivity).
    assert (b <> 0%Z) as Hb0 by (apply (bi_nz s H cj); rewrite Q2; right; left; reflexivity).
    destruct (fp_set_head s a HT Hlt Ha0 Q3) as [Fa|Fa]; [|left; exact Fa].
    destruct (fp_set_head s b HT Hlt Hb0 Q4) as [Fb|Fb]; [|right; exact Fb].
    exfalso. exact (HJ cj a b r0 Q1 Q2 Fa Fb). }
  destruct (prop_bin (implications s1 fl) s1) as [s2 [ci|]] eqn:EB.
  - injection E as E1 E2. subst s' r.
    pose proof (prop_bin_J fl _ [] s1 s2 (Some ci) HW HA1 HC1 HJ1 eq_refl (fun p (F : In p []) => match F with end) EB) as (Q1 & Q2 & Q3 & Q4).
    split; [exact (proj1 Q1)|]. auto.
  - pose proof (prop_bin_J fl _ [] s1 s2 None HW HA1 HC1 HJ1 eq_refl (fun p (F : In p []) => match F with end) EB) as (Q1 & Q2 & Q3 & Q4 & Q5).
    pose proof (JF_to_JW fl s2 Q1 Q3 Q4 Q5) as Q6.
    pose proof (prop_watch_JWI inner fl 0 s2 s' r (conj Q1 (conj Q2 (conj Q3 Q6))) E) as Q7.
    destruct r as [ci|]; destruct Q7 as (R1 & R2 & R3 & R4); (split; [exact (proj1 R1)|]); auto.
Qed.

Lemma prop_loop_PJ : forall fuel inner s s' c, PJ s -> prop_loop fuel inner s = Some (s', c) ->
  match c with CNone => PJ s' | CAt _ => PC s' | CAssum => False end.
Proof.
  induction fuel as [|f IH]; intros inner s s' c H E; simpl in E; [discriminate|].
  destruct (Nat.ltb_spec (s_head s) (length (s_trail s))) as [L|L].
  - destruct (head_step inner s) as [[s1 [ci|]]|] eqn:EH; [| |discriminate].
    + injection E as E1 E2. subst s' c. exact (head_step_PJ _ _ _ _ H L EH).
    + pose proof (head_step_PJ _ _ _ _ H L EH) as H1. simpl in H1. eapply IH; eauto.
  - injection E as E1 E2. subst s' c. exact H.
Qed.

Lemma prop_assums_PJ : forall A s s' r, assum_ok (nv s) A -> PJ s -> cur_level s = 0 -> prop_assums A s = (s', r) -> PJ s'.
Proof.
  induction A as [|l A IH]; intros s s' r HA H Hc E; simpl in E.
  - injection E as E1 E2. subst. exact H.
  - inversion HA as [|? ? [Hl0 Hl] HA']; subst. destruct H as (HB & HAr & HC & HJ).
    destruct (val_of s (lvar l)) as [b|] eqn:EV.
    + destruct (Bool.eqb b (lpos l)).
      * apply (IH s s' r HA'); [exact (conj HB (conj HAr (conj HC HJ))) | exact Hc | exact E].
      * injection E as E1 E2. subst. split; [apply BI_bump_confl; exact HB|]. split; [exact HAr|]. split.
        -- apply (cov_all_asg_eq_db_eq s); [apply bump_confl_asg | apply bump_confl_db_eq | exact HC].
        -- intros cj a' b' r' H1 H2 H3 H4. apply fp_bump_confl in H3. apply fp_bump_confl in H4. exact (HJ cj a' b' r' H1 H2 H3 H4).
    + pose proof (proj1 (bi_ti s HB)) as HT.
      assert (BI (assign_lit l None s)) as H1.
      { unfold assign_lit. apply BI_assign; auto. apply lvar_nonzero; exact Hl0. discriminate. }
      apply (IH (assign_lit l None s) s' r); auto.
      * unfold assign_lit. rewrite nv_assign. exact HA'.
      * split; [exact H1|]. split; [unfold assign_lit; apply arr_len_assign; exact HAr|]. split.
        -- unfold assign_lit. apply cov_all_assign; assumption.
        -- intros cj a' b' r' Q1 Q2 Q3 Q4. unfold assign_lit in *.
           apply (fp_assign_inv s _ _ _ _ HT EV Hl) in Q3. apply (fp_assign_inv s _ _ _ _ HT EV Hl) in Q4.
           exact (HJ cj a' b' r' Q1 Q2 Q3 Q4).
Qed.

(* (d) through propagate *)
Theorem propagate_PJ : forall fuel A s s' c, assum_ok (nv s) A -> PJ s -> propagate fuel A s = Some (s', c) ->
  match c with CNone => PJ s' | CAt _ => PC s' | CAssum => True end.
Proof.
  intros fuel A s s' c HA H E. unfold propagate in E.
  destruct (Nat.eqb_spec (cur_level s) 0) as [Hc|Hc].
  - destruct (prop_assums A s) as [s1 [|]] eqn:EA.
    + injection E as E1 E2. subst. exact Logic.I.
    + pose proof (prop_assums_PJ _ _ _ _ HA H Hc EA) as H1. pose proof (prop_loop_PJ _ _ _ _ _ H1 E) as Q. destruct c; auto.
  - pose proof (prop_loop_PJ _ _ _ _ _ H E) as Q. destruct c; auto.
Qed.
