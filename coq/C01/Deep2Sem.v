(* C02 on the faithful model - the semantic invariant: a fixed assignment m that satisfies the clause database and every
   literal asserted at level 0 keeps doing so through propagate (MI m).  It is the engine of the soundness of INFEASIBLE and of
   the completeness of an exhausted enumeration. *)
From Coq Require Import List ZArith Bool Arith Lia Permutation.
Import ListNotations.
From SV Require Import C01.SatSpec C01.Machine C01.DeepCdcl C01.DeepBase C01.DeepTrail C01.DeepTrailProp C01.DeepAnalyze
  C01.DeepWatch C01.DeepReason C01.DeepReasonProp C01.DeepRunOps C01.DeepReduce C01.DeepRun C01.DeepInit C01.DeepSteps
  C01.DeepAlgo C01.DeepResult C01.RupProofs.
Close Scope Z_scope.
Open Scope nat_scope.

Section Sem.
Variable m : asg.

Definition mi_db (s : st) : Prop := forall c, In c (db s) -> clause_true m c = true.
(* a literal that is false at level 0 is false under m *)
Definition mi_l0 (s : st) : Prop :=
  forall l, l <> 0%Z -> lit_value s l = Some false -> level_of s (lvar l) = 0 -> lit_true m l = false.
Definition MI (s : st) : Prop := mi_db s /\ mi_l0 s.

Lemma MI_frame : forall s s', (forall l, lit_value s' l = lit_value s l) -> (forall v, level_of s' v = level_of s v) ->
  (forall c', In c' (db s') -> exists c, In c (db s) /\ same_mem c c') -> MI s -> MI s'.
Proof.
  intros s s' Hv Hl Hdb [H1 H2]. split.
  - intros c' Hc'. destruct (Hdb c' Hc') as [c [Hc Hm]]. eapply clause_true_same_mem; [exact Hm | apply H1; exact Hc].
  - intros l Hnz Hf H0. rewrite Hv in Hf. rewrite Hl in H0. apply H2; assumption.
Qed.

Lemma same_mem_refl : forall c, same_mem c c.
Proof. intros c l. tauto. Qed.

Lemma MI_asg_db : forall s s', asg_eq s s' -> db s' = db s -> MI s -> MI s'.
Proof.
  intros s s' EA Ed H. apply (MI_frame s); auto.
  - intros l. apply asg_eq_lit_value. exact EA.
  - intros v. apply asg_eq_level_of. exact EA.
  - intros c' Hc'. rewrite Ed in Hc'. exists c'. split; [exact Hc' | apply same_mem_refl].
Qed.

Lemma db_set_clause_mem : forall s ci c c', same_mem c (get_clause s ci) -> In c' (db (set_clause s ci c)) ->
  exists c0, In c0 (db s) /\ same_mem c0 c'.
Proof.
  intros s ci c c' Hm Hc'. destruct (in_db_get_clause _ _ Hc') as [r [Hr E]]. rewrite n_clauses_set_clause in Hr.
  destruct (Nat.eq_dec r ci) as [Q|Q].
  - subst r. destruct (Nat.lt_ge_cases ci (n_clauses s)) as [L|L]; [|lia].
    rewrite get_clause_set_clause_eq in E by exact L. subst c'. exists (get_clause s ci). split; [apply get_clause_in_db; exact L|].
    intros l. symmetry. apply Hm.
  - rewrite get_clause_set_clause_neq in E by exact Q. subst c'. exists (get_clause s r). split; [apply get_clause_in_db; exact Hr | apply same_mem_refl].
Qed.

Lemma MI_set_clause : forall s ci c, same_mem c (get_clause s ci) -> MI s -> MI (set_clause s ci c).
Proof.
  intros s ci c Hm H. pose proof (set_clause_asg s ci c) as EA. apply (MI_frame s); auto.
  - intros l. apply asg_eq_lit_value. exact EA.
  - intros v. apply asg_eq_level_of. exact EA.
  - intros c' Hc'. eapply db_set_clause_mem; eauto.
Qed.

Lemma db_set_watch_list : forall s l ws, db (set_watch_list s l ws) = db s.
Proof. intros. unfold db, set_watch_list. destruct (lpos l); reflexivity. Qed.

Lemma MI_set_watch_list : forall s l ws, MI s -> MI (set_watch_list s l ws).
Proof. intros. apply (MI_asg_db s); [apply set_watch_list_asg | apply db_set_watch_list | assumption]. Qed.

Lemma MI_add_watch : forall l i s, MI s -> MI (add_watch l i s).
Proof. intros. unfold add_watch. apply MI_set_watch_list. assumption. Qed.

Lemma MI_bump : forall s, MI s -> MI (bump_confl s).
Proof. intros. apply (MI_asg_db s); [apply bump_confl_asg | reflexivity | assumption]. Qed.

Lemma MI_set_head : forall s h, MI s -> MI (set_head s h).
Proof. intros s h H. apply (MI_frame s); auto. intros c' Hc'. exists c'. split; [exact Hc' | apply same_mem_refl]. Qed.

Lemma MI_push_lim : forall s, MI s -> MI (push_lim s).
Proof. intros s H. apply (MI_frame s); auto. intros c' Hc'. exists c'. split; [exact Hc' | apply same_mem_refl]. Qed.

Lemma MI_unassign_to : forall s k, trail_inv s -> MI s -> MI (unassign_to k s).
Proof.
  intros s k HT [H1 H2]. destruct (unassign_to_spec s k HT) as [popped (_ & EL & _ & _ & _ & Hpop & Hkeep & _)]. split.
  - intros c Hc. apply H1. unfold db in *. destruct (unassign_to_db_eq k s) as (E1 & E2 & _). rewrite E1, E2 in Hc. exact Hc.
  - intros l Hnz Hf H0. unfold level_of in H0. rewrite EL in H0. apply H2; auto.
    unfold lit_value in *. destruct (in_dec Nat.eq_dec (lvar l) popped) as [I|I]; [rewrite (Hpop _ I) in Hf; discriminate | rewrite (Hkeep _ I) in Hf; exact Hf].
Qed.

(* assign: at level 0 the literal made true must be true under m *)
Lemma MI_assign_lit : forall s a r, trail_inv s -> val_of s (lvar a) = None -> lvar a < length (s_vals s) -> a <> 0%Z ->
  (cur_level s = 0 -> lit_true m a = true) -> MI s -> MI (assign_lit a r s).
Proof.
  intros s a r HT Hn Hr Ha0 Hob [H1 H2]. unfold assign_lit. split; [exact H1|].
  intros l Hnz Hf H0. rewrite level_of_assign in H0 by (rewrite (ti_len_levels s HT); exact Hr).
  destruct (Nat.eqb_spec (lvar a) (lvar l)) as [E|E].
  - rewrite lit_value_assign_same in Hf by auto. injection Hf as Hf.
    assert (l = (- a)%Z) as El.
    { assert (lpos l = negb (lpos a)) as Q by (destruct (lpos a), (lpos l); simpl in *; congruence).
      apply slot_eq; [|rewrite lvar_opp; symmetry; exact E]. rewrite Q. unfold lpos. destruct (Z.ltb_spec 0 a); destruct (Z.ltb_spec 0 (- a)); simpl; try reflexivity; lia. }
    subst l. rewrite lit_true_opp by exact Ha0. rewrite (Hob H0). reflexivity.
  - rewrite lit_value_assign_other in Hf by (intros C; apply E; symmetry; exact C). apply H2; assumption.
Qed.

(* a clause of the database all of whose literals but `a` are false at level 0 forces `a` under m *)
Lemma MI_unit_forces : forall s c a, BI s -> MI s -> cur_level s = 0 -> In c (db s) -> In a c ->
  (forall l, In l c -> l = a \/ lit_value s l = Some false) -> lit_true m a = true.
Proof.
  intros s c a HB [H1 H2] Hc0 Hc Ha Hall. pose proof (H1 c Hc) as Q. apply existsb_exists in Q. destruct Q as [l [Hl Ht]].
  destruct (Hall l Hl) as [E|Hf]; [subst l; exact Ht|]. exfalso.
  destruct (in_db_get_clause s c Hc) as [ci [_ Eci]]. assert (l <> 0%Z) as Hnz by (apply (bi_nz s HB ci); rewrite Eci; exact Hl).
  assert (level_of s (lvar l) = 0) as Hl0.
  { pose proof (proj1 (bi_ti s HB)) as HT. assert (In (lvar l) (s_trail s)) as Hin by (apply (ti_assigned s HT); eapply lit_value_assigned; exact Hf).
    pose proof (level_le_cur s (lvar l) HT Hin). lia. }
  rewrite (H2 l Hnz Hf Hl0) in Ht. discriminate.
Qed.

(* a falsified clause of the database at level 0 contradicts MI *)
Lemma MI_conflict0 : forall s ci, BI s -> MI s -> cur_level s = 0 -> ci < n_clauses s ->
  (forall l, In l (get_clause s ci) -> lit_value s l = Some false) -> False.
Proof.
  intros s ci HB [H1 H2] Hc0 Hci Hall. pose proof (H1 _ (get_clause_in_db s ci Hci)) as Q.
  apply existsb_exists in Q. destruct Q as [l [Hl Ht]].
  assert (l <> 0%Z) as Hnz by exact (bi_nz s HB ci l Hl).
  assert (level_of s (lvar l) = 0) as Hl0.
  { pose proof (proj1 (bi_ti s HB)) as HT. assert (In (lvar l) (s_trail s)) as Hin by (apply (ti_assigned s HT); eapply lit_value_assigned; apply Hall; exact Hl).
    pose proof (level_le_cur s (lvar l) HT Hin). lia. }
  rewrite (H2 l Hnz (Hall l Hl) Hl0) in Ht. discriminate.
Qed.

(* ---------------------------------------------------------------- through propagate *)
Lemma wnorm_MI : forall fl i s s1 ci a r, wnorm fl i s s1 ci a r -> MI s -> MI s1.
Proof.
  intros fl i s s1 ci a r (_ & _ & _ & _ & [E|E] & _) H; subst s1; [exact H|].
  apply MI_set_clause; [|exact H]. intros l. apply In_swap01.
Qed.

Lemma wcase_MI : forall fl i s w, WI fl s -> MI s -> wcase fl i s w ->
  match w with WDone => True | WNext s' => MI s' | WStay s' => MI s' | WConf s' _ => MI s' end.
Proof.
  intros fl i s w HW HM C.
  destruct C as [Hd | s1 ci a r Hn Ht | s1 ci a r j Hn Ht Hj Hnf | s1 ci a r Hn Hall Ha | s1 ci a r Hn Hall Ha].
  - exact I.
  - eapply wnorm_MI; eauto.
  - pose proof (wnorm_MI _ _ _ _ _ _ _ Hn HM) as H1. destruct Hn as (_ & _ & _ & Hc & _ & _).
    apply MI_add_watch, MI_set_watch_list, MI_set_clause; [|exact H1]. rewrite Hc. intros l. apply (In_swap1k a fl r j l Hj).
  - apply MI_bump. eapply wnorm_MI; eauto.
  - pose proof (wnorm_MI _ _ _ _ _ _ _ Hn HM) as H1. destruct (wnorm_WI _ _ _ _ _ _ _ HW Hn) as [(HB1 & Hf1 & _) _].
    destruct Hn as (Hi & Eci & Hci & Hc & _ & Hw).
    assert (ci < n_clauses s1) as Hci1.
    { destruct (watch_le_member s1 fl ci (bi_wle s1 HB1)) as [Q _]; [rewrite Eci, Hw; apply nth_In; rewrite <- Hw in Hi; rewrite Hw in *; exact Hi | exact Q]. }
    assert (In a (get_clause s1 ci)) as Hin by (rewrite Hc; left; reflexivity).
    assert (val_of s1 (lvar a) = None) as Hna by (unfold lit_value in Ha; destruct (val_of s1 (lvar a)); [discriminate|reflexivity]).
    apply MI_assign_lit; auto.
    + exact (proj1 (bi_ti s1 HB1)).
    + pose proof (get_clause_in s1 ci (proj2 (bi_ti s1 HB1))) as Q. unfold clause_in in Q. rewrite Forall_forall in Q. exact (Q a Hin).
    + exact (bi_nz s1 HB1 ci a Hin).
    + intros Hc0. apply (MI_unit_forces s1 (get_clause s1 ci) a HB1 H1 Hc0 (get_clause_in_db s1 ci Hci1) Hin).
      rewrite Hc. intros l [Q|[Q|Q]]; [left; symmetry; exact Q | subst l; right; exact Hf1 | right; apply Hall; exact Q].
Qed.

Lemma prop_watch_MI : forall fuel fl i s s' r, WI fl s -> MI s -> prop_watch fuel fl i s = Some (s', r) -> MI s'.
Proof.
  intros fuel fl i s s' r HW HM E.
  assert (WI fl s' /\ MI s') as [_ Q]; [|exact Q].
  apply (prop_watch_inv (fun x => WI fl x /\ MI x) fl) with (fuel := fuel) (i := i) (s := s) (r := r); [| split; assumption | exact E].
  intros i0 s0 [H0 M0]. pose proof (watch_step_wcase fl i0 s0 (bi_wle s0 (proj1 H0))) as C.
  pose proof (wcase_WI fl i0 s0 _ H0 C) as HW'. pose proof (wcase_MI fl i0 s0 _ H0 M0 C) as HM'.
  destruct (watch_step fl i0 s0) as [|s1|s1|s1 ci]; simpl; [exact Logic.I | split; assumption | split; assumption | split; [exact (proj1 HW') | exact HM']].
Qed.

Lemma prop_bin_MI : forall fl imps s s' r, WI fl s -> MI s -> (forall p, In p imps -> In p (implications s fl)) ->
  prop_bin imps s = (s', r) -> MI s'.
Proof.
  intros fl. induction imps as [|[implied ci] imps IH]; intros s s' r HW HM Hsub E; simpl in E.
  - injection E as E1 E2. subst. exact HM.
  - assert (forall p, In p [(implied, ci)] -> In p (implications s fl)) as Hsub1.
    { intros p [Q|[]]. subst p. apply Hsub. left. reflexivity. }
    pose proof HW as (HB & Hf & Hl).
    destruct (val_of s (lvar implied)) as [b|] eqn:EV.
    + destruct (Bool.eqb b (lpos implied)) eqn:EB.
      * apply (IH s s' r HW HM); [intros p Hp; apply Hsub; right; exact Hp | exact E].
      * injection E as E1 E2. subst. apply MI_bump. exact HM.
    + destruct (prop_bin_WI fl [(implied, ci)] s (assign_lit implied (Some ci) s) None HW Hsub1) as [HW1 _].
      { simpl. rewrite EV. reflexivity. }
      destruct (bi_big s HB fl implied ci (Hsub1 _ (or_introl eq_refl))) as [Hci Hc].
      assert (In implied (get_clause s ci)) as Himpl by (destruct Hc as [Q|Q]; rewrite Q; simpl; auto).
      apply (IH (assign_lit implied (Some ci) s) s' r HW1); [| |exact E].
      * apply MI_assign_lit; auto.
        -- exact (proj1 (bi_ti s HB)).
        -- pose proof (get_clause_in s ci (proj2 (bi_ti s HB))) as Q. unfold clause_in in Q. rewrite Forall_forall in Q. exact (Q implied Himpl).
        -- exact (bi_nz s HB ci implied Himpl).
        -- intros Hc0. apply (MI_unit_forces s (get_clause s ci) implied HB HM Hc0 (get_clause_in_db s ci Hci) Himpl).
           intros l Hin. destruct Hc as [Q|Q]; rewrite Q in Hin; simpl in Hin; destruct Hin as [Q1|[Q1|[]]]; subst l; auto.
      * intros p Hp. unfold assign_lit. rewrite (db_eq_implications _ _ _ (assign_db_eq _ _ _ s)). apply Hsub. right. exact Hp.
Qed.

Lemma head_step_MI : forall inner s s' r, BI s -> MI s -> s_head s < length (s_trail s) -> head_step inner s = Some (s', r) -> MI s'.
Proof.
  intros inner s s' r H HM Hlt E. unfold head_step in E.
  destruct (trail_at_split s Hlt) as (tr1 & tr2 & Etr & Ltr). set (v0 := trail_at s (s_head s)) in *.
  set (s1 := set_head s (S (s_head s))) in *.
  assert (BI s1) as H1 by (apply BI_set_head; assumption).
  assert (In v0 (s_trail s)) as Hv0 by (rewrite Etr; apply in_or_app; right; left; reflexivity).
  assert (val_of s1 v0 <> None) as Hass by (apply (ti_assigned s (proj1 (bi_ti s H))); exact Hv0).
  assert (v0 <> 0) as Hnz by (intros Q; rewrite Q in Hass; apply Hass; exact (bi_v0 s H)).
  set (fl := false_lit_of s1 v0) in *.
  assert (WI fl s1) as HW.
  { split; [exact H1|]. split.
    - apply false_lit_of_false; assumption.
    - unfold fl. rewrite lvar_false_lit_of. change (level_of s1 v0) with (level_of s v0). change (cur_level s1) with (cur_level s).
      apply (hi_level s (bi_head s H) tr1 v0 tr2 Etr). lia. }
  assert (MI s1) as HM1 by (apply MI_set_head; exact HM).
  destruct (prop_bin (implications s1 fl) s1) as [s2 [ci|]] eqn:EB.
  - injection E as E1 E2. subst s' r. exact (prop_bin_MI fl _ s1 s2 _ HW HM1 (fun p Hp => Hp) EB).
  - destruct (prop_bin_WI fl _ s1 s2 None HW (fun p Hp => Hp) EB) as [HW2 _].
    eapply prop_watch_MI; [exact HW2 | | exact E]. exact (prop_bin_MI fl _ s1 s2 _ HW HM1 (fun p Hp => Hp) EB).
Qed.

Lemma prop_loop_MI : forall fuel inner s s' c, BI s -> MI s -> prop_loop fuel inner s = Some (s', c) -> MI s'.
Proof.
  induction fuel as [|f IH]; intros inner s s' c H HM E; simpl in E; [discriminate|].
  destruct (Nat.ltb_spec (s_head s) (length (s_trail s))) as [L|L].
  - destruct (head_step inner s) as [[s1 [ci|]]|] eqn:EH; [| |discriminate].
    + injection E as E1 E2. subst. exact (head_step_MI inner s s' (Some ci) H HM L EH).
    + destruct (head_step_BI _ _ _ _ H L EH) as [H1 _]. eapply IH; [exact H1 | exact (head_step_MI inner s s1 None H HM L EH) | exact E].
  - injection E as E1 E2. subst. exact HM.
Qed.

Lemma prop_assums_MI : forall A s s' r, assum_ok (nv s) A -> agrees m A -> BI s -> MI s -> cur_level s = 0 ->
  prop_assums A s = (s', r) -> MI s' /\ (r = true -> False).
Proof.
  induction A as [|l A IH]; intros s s' r HA Hag H HM Hc E; simpl in E.
  - injection E as E1 E2. subst. split; [exact HM | discriminate].
  - inversion HA as [|? ? [Hl0 Hl] HA']; subst.
    assert (agrees m A) as Hag' by (intros a Ha; apply Hag; right; exact Ha).
    assert (lit_true m l = true) as Hlt by (apply Hag; left; reflexivity).
    destruct (val_of s (lvar l)) as [b|] eqn:EV.
    + destruct (Bool.eqb b (lpos l)) eqn:EB; [eapply IH; eauto|].
      injection E as E1 E2. subst. split; [apply MI_bump; exact HM|]. intros _.
      (* the assumption is false at level 0: impossible under m *)
      destruct HM as [_ H2]. assert (lit_value s l = Some false) as Hf by (unfold lit_value; rewrite EV, EB; reflexivity).
      assert (level_of s (lvar l) = 0) as Hl0'.
      { pose proof (proj1 (bi_ti s H)) as HT. assert (In (lvar l) (s_trail s)) as Hin by (apply (ti_assigned s HT); congruence).
        pose proof (level_le_cur s (lvar l) HT Hin). lia. }
      rewrite (H2 l Hl0 Hf Hl0') in Hlt. discriminate.
    + assert (BI (assign_lit l None s)) as H1.
      { unfold assign_lit. apply BI_assign; auto. apply lvar_nonzero; exact Hl0. discriminate. }
      apply (IH (assign_lit l None s) s' r); auto.
      * unfold assign_lit. rewrite nv_assign. exact HA'.
      * apply MI_assign_lit; auto. exact (proj1 (bi_ti s H)).
Qed.

(* propagate keeps MI; with MI no assumption conflict and no level-0 conflict can be reported *)
Theorem propagate_MI : forall fuel A s s' c, assum_ok (nv s) A -> agrees m A -> BI s -> MI s ->
  propagate fuel A s = Some (s', c) ->
  MI s' /\ c <> CAssum /\ (forall ci, c = CAt ci -> cur_level s' = 0 -> False).
Proof.
  intros fuel A s s' c HA Hag H HM E.
  destruct (propagate_BI fuel A s s' c HA H E) as (HB' & Hconf & _ & _).
  assert (MI s' /\ c <> CAssum) as [HM' Hna].
  { unfold propagate in E. destruct (Nat.eqb_spec (cur_level s) 0) as [Hc|Hc].
    - destruct (prop_assums A s) as [s1 [|]] eqn:EA; destruct (prop_assums_MI _ _ _ _ HA Hag H HM Hc EA) as [HM1 Hno]; [exfalso; auto|].
      destruct (prop_assums_BI _ _ _ _ HA H Hc EA) as (H1 & _ & _).
      split; [exact (prop_loop_MI _ _ _ _ _ H1 HM1 E)|]. destruct (prop_loop_BI _ _ _ _ _ H1 E) as (_ & _ & _ & Q). exact Q.
    - split; [exact (prop_loop_MI _ _ _ _ _ H HM E)|]. destruct (prop_loop_BI _ _ _ _ _ H E) as (_ & _ & _ & Q). exact Q. }
  split; [exact HM'|]. split; [exact Hna|].
  intros ci Ec Hc0. destruct (Hconf ci Ec) as (Hci & Hfalse & _). exact (MI_conflict0 s' ci HB' HM' Hc0 Hci Hfalse).
Qed.

End Sem.
