(* C01 deep model - invariants (W, "at least" half = coverage) and (J):
     covered : every clause of the database is looked after: a unit clause is true at level 0; a longer clause is watched on
               its positions 0 and 1 (with multiplicity) or - if binary - sits in both implication lists
     J       : no clause has both literals of positions 0/1 false and processed
   Definitions and the behaviour of `false and processed` under the elementary operations. *)
From Coq Require Import List ZArith Bool Arith Lia Permutation.
Import ListNotations.
From SV Require Import C01.SatSpec C01.Machine C01.DeepCdcl C01.DeepBase C01.DeepTrail C01.DeepTrailProp C01.DeepAnalyze
  C01.DeepWatch C01.DeepReason C01.DeepReasonProp C01.DeepRunOps.
Close Scope Z_scope.
Open Scope nat_scope.

(* the trail entry of variable v has been taken by the head loop *)
Definition processed (s : st) (v : nat) : Prop :=
  exists tr1 tr2, s_trail s = tr1 ++ v :: tr2 /\ length tr2 < s_head s.

(* literal l is false and its trail entry is processed *)
Definition fp (s : st) (l : Z) : Prop := lit_value s l = Some false /\ processed s (lvar l).

Definition wcov (s : st) (ci : nat) (c : clause) : Prop := forall l, pos01 c l <= cnt (watch_list s l) ci.
Definition bcov (s : st) (ci : nat) (a b : Z) : Prop := In (b, ci) (implications s a) /\ In (a, ci) (implications s b).

Definition covered (s : st) (ci : nat) : Prop :=
  match get_clause s ci with
  | [] => False
  | [l] => lit_value s l = Some true /\ level_of s (lvar l) = 0
  | a :: b :: r => wcov s ci (a :: b :: r) \/ (r = [] /\ bcov s ci a b)
  end.

Definition cov_all (s : st) : Prop := forall ci, ci < n_clauses s -> covered s ci.

Definition arr_len (s : st) : Prop :=
  length (s_wpos s) = nv s /\ length (s_wneg s) = nv s /\ length (s_bpos s) = nv s /\ length (s_bneg s) = nv s.

(* J up to exceptions X *)
Definition Jx (s : st) (X : nat -> Z -> Z -> Prop) : Prop :=
  forall ci a b r, ci < n_clauses s -> get_clause s ci = a :: b :: r -> fp s a -> fp s b -> X ci a b.

Definition J (s : st) : Prop := Jx s (fun _ _ _ => False).
(* what is left of J when propagate reports a conflict: a violating clause involves a literal of the current level *)
Definition JC (s : st) : Prop :=
  Jx s (fun _ a b => level_of s (lvar a) = cur_level s \/ level_of s (lvar b) = cur_level s).

Lemma Jx_weaken : forall s (X Y : nat -> Z -> Z -> Prop), (forall ci a b, X ci a b -> Y ci a b) -> Jx s X -> Jx s Y.
Proof. intros s X Y H HJ ci a b r H1 H2 H3 H4. apply H. eapply HJ; eauto. Qed.

Lemma J_JC : forall s, J s -> JC s.
Proof. intros s H. eapply Jx_weaken; [|exact H]. intros ci a b []. Qed.

(* ---------------------------------------------------------------- fp under the operations *)
Lemma processed_asg_eq : forall s s' v, asg_eq s s' -> processed s' v -> processed s v.
Proof. intros s s' v (_ & _ & _ & E4 & _ & E6 & _) (tr1 & tr2 & E & L). exists tr1, tr2. rewrite <- E4, <- E6. auto. Qed.

Lemma fp_asg_eq : forall s s' l, asg_eq s s' -> fp s' l -> fp s l.
Proof.
  intros s s' l E [H1 H2]. split; [rewrite <- (asg_eq_lit_value _ _ _ E); exact H1 | eapply processed_asg_eq; eauto].
Qed.

Lemma asg_eq_sym : forall s s', asg_eq s s' -> asg_eq s' s.
Proof. intros s s' (E1 & E2 & E3 & E4 & E5 & E6 & E7). repeat split; symmetry; assumption. Qed.

Lemma fp_assign_inv : forall s v b r l, trail_inv s -> val_of s v = None -> v < length (s_vals s) ->
  fp (assign v b r s) l -> fp s l.
Proof.
  intros s v b r l HT Hn Hv [H1 (tr1 & tr2 & E & L)].
  assert (~ In v (s_trail s)) as Hnotin by (intros C; apply (ti_assigned s HT) in C; congruence).
  simpl in E, L. destruct tr1 as [|x tr1'].
  - simpl in E. injection E as E1 E2. subst tr2. pose proof (ti_head s HT). lia.
  - simpl in E. injection E as E1 E2. subst x.
    assert (lvar l <> v) as Hne by (intros C; apply Hnotin; rewrite E2, <- C; apply in_or_app; right; left; reflexivity).
    split; [rewrite lit_value_assign_other in H1 by exact Hne; exact H1 | exists tr1', tr2; auto].
Qed.

Lemma fp_bump_confl : forall s l, fp (bump_confl s) l -> fp s l.
Proof. intros s l H. eapply fp_asg_eq; [apply bump_confl_asg | exact H]. Qed.

(* after `prop_head += 1` the only new false-and-processed literal is the false literal of the entry just taken *)
Lemma fp_set_head : forall s l, trail_inv s -> s_head s < length (s_trail s) -> l <> 0%Z ->
  fp (set_head s (S (s_head s))) l -> fp s l \/ l = false_lit_of s (trail_at s (s_head s)).
Proof.
  intros s l HT Hlt Hnz [H1 (tr1 & tr2 & E & L)]. simpl in E, L.
  change (lit_value (set_head s (S (s_head s))) l) with (lit_value s l) in H1.
  destruct (Nat.eq_dec (length tr2) (s_head s)) as [Q|Q].
  - right. destruct (trail_at_split s Hlt) as (t1 & t2 & Et & Lt).
    assert (tr1 = t1 /\ tr2 = t2 /\ lvar l = trail_at s (s_head s)) as (_ & _ & Ev).
    { pose proof (ti_nodup s HT) as ND. rewrite E in Et.
      assert (length tr1 = length t1) as Ll.
      { assert (length (tr1 ++ lvar l :: tr2) = length (t1 ++ trail_at s (s_head s) :: t2)) as Q2 by (rewrite Et; reflexivity).
        rewrite !app_length in Q2. simpl in Q2. lia. }
      clear - Et Ll. revert t1 Et Ll. induction tr1 as [|x tr1 IH]; intros [|y t1] Et Ll; simpl in *; try lia.
      - injection Et as E1 E2. auto.
      - injection Et as E1 E2. destruct (IH t1 E2 ltac:(lia)) as (Q1 & Q2 & Q3). subst. auto. }
    rewrite <- Ev. apply lit_false_is_false_lit; assumption.
  - left. split; [exact H1 | exists tr1, tr2; split; [exact E | lia]].
Qed.

Lemma fp_unassign_to : forall s level l, trail_inv s -> head_inv s -> fp (unassign_to level s) l -> fp s l.
Proof.
  intros s level l HT HH [H1 (tr1 & tr2 & E & L)].
  destruct (unassign_to_spec s level HT) as [popped (Etr & _ & _ & _ & EH & Hpop & Hkeep & _)].
  pose proof (ti_nodup s HT) as ND. rewrite Etr in ND.
  assert (In (lvar l) (s_trail (unassign_to level s))) as Hin by (rewrite E; apply in_or_app; right; left; reflexivity).
  assert (~ In (lvar l) popped) as Hnp by (intros C; exact (NoDup_app_disjoint _ _ _ ND C Hin)).
  split.
  - unfold lit_value in *. rewrite (Hkeep _ Hnp) in H1. exact H1.
  - exists (popped ++ tr1), tr2. split; [rewrite Etr, E, app_assoc; reflexivity|]. rewrite EH in L. lia.
Qed.

Lemma fp_push_lim : forall s l, fp (push_lim s) l -> fp s l.
Proof. intros s l [H1 (tr1 & tr2 & E & L)]. split; [exact H1 | exists tr1, tr2; auto]. Qed.

(* ---------------------------------------------------------------- Jx through frame changes of the database *)
Lemma Jx_frame : forall s s' (X : nat -> Z -> Z -> Prop), asg_eq s s' -> n_clauses s' = n_clauses s ->
  (forall r, get_clause s' r = get_clause s r) -> Jx s X -> Jx s' X.
Proof.
  intros s s' X EA En Eg H ci a b r H1 H2 H3 H4. rewrite En in H1. rewrite Eg in H2.
  eapply H; eauto; eapply fp_asg_eq; eauto.
Qed.
