(* C02 on the faithful model - propagate() never runs out of fuel once the fuel exceeds n_vars + 1 and 2 * (number of clauses) + 1:
   the head loop takes every trail entry at most once (the trail has at most n_vars entries), the watch loop of a literal makes
   at most (length of its watch list - i) + 1 steps, and a watch list holds a clause at most twice. *)
From Coq Require Import List ZArith Bool Arith Lia Permutation.
Import ListNotations.
From SV Require Import C01.SatSpec C01.Machine C01.DeepCdcl C01.DeepBase C01.DeepTrail C01.DeepTrailProp C01.DeepAnalyze
  C01.DeepWatch C01.DeepReason C01.DeepReasonProp C01.DeepRunOps C01.DeepReduce C01.DeepJOps C01.Deep2Frame.
Close Scope Z_scope.
Open Scope nat_scope.

(* ---------------------------------------------------------------- sizes *)
Lemma trail_len_le : forall s n, BI s -> nv s = S n -> length (s_trail s) <= n.
Proof.
  intros s n H Hn. pose proof (proj1 (bi_ti s H)) as HT.
  rewrite <- (seq_length n 1). apply NoDup_incl_length; [exact (ti_nodup s HT)|].
  intros v Hv. apply in_seq. pose proof (trail_var_in_range s v HT Hv) as Q. fold (nv s) in Q.
  assert (v <> 0) by (intros C; subst v; apply (ti_assigned s HT) in Hv; apply Hv; exact (bi_v0 s H)). lia.
Qed.

Lemma cnt_filter_ne : forall ws x y, x <> y -> cnt (filter (fun z => negb (z =? x)) ws) y = cnt ws y.
Proof.
  intros ws x y H. induction ws as [|z ws IH]; simpl; [reflexivity|]. unfold cnt in *.
  destruct (Nat.eqb_spec z x) as [E|E]; simpl.
  - subst z. destruct (Nat.eq_dec x y); [contradiction | exact IH].
  - destruct (Nat.eq_dec z y); rewrite IH; reflexivity.
Qed.

Lemma length_cnt_split : forall ws x, length ws = cnt ws x + length (filter (fun z => negb (z =? x)) ws).
Proof.
  intros ws x. induction ws as [|z ws IH]; simpl; [reflexivity|]. unfold cnt in *. simpl.
  destruct (Nat.eqb_spec z x) as [E|E]; simpl.
  - subst z. destruct (Nat.eq_dec x x); [lia | congruence].
  - destruct (Nat.eq_dec z x); [contradiction | lia].
Qed.

Lemma length_le_counts : forall N ws, (forall ci, cnt ws ci <= if ci <? N then 2 else 0) -> length ws <= 2 * N.
Proof.
  induction N as [|N IH]; intros ws H.
  - destruct ws as [|x ws]; [simpl; lia|]. pose proof (H x) as Q. unfold cnt in Q. simpl in Q. destruct (Nat.eq_dec x x); [lia | congruence].
  - rewrite (length_cnt_split ws N). pose proof (H N) as QN. destruct (Nat.ltb_spec N (S N)); [|lia].
    assert (length (filter (fun z => negb (z =? N)) ws) <= 2 * N); [|lia]. apply IH. intros ci.
    destruct (Nat.eq_dec N ci) as [E|E].
    + subst ci. destruct (Nat.ltb_spec N N); [lia|].
      assert (cnt (filter (fun z => negb (z =? N)) ws) N = 0); [|lia]. apply cnt_filter_out. rewrite Nat.eqb_refl. reflexivity.
    + rewrite cnt_filter_ne by exact E. pose proof (H ci) as Q. destruct (Nat.ltb_spec ci (S N)); destruct (Nat.ltb_spec ci N); lia.
Qed.

Lemma pos01_le2 : forall c l, pos01 c l <= 2.
Proof. intros c l. unfold pos01. destruct c as [|a [|b r]]; try lia. destruct (a =? l)%Z; destruct (b =? l)%Z; lia. Qed.

Lemma watch_list_len : forall s l, watch_le s -> length (watch_list s l) <= 2 * n_clauses s.
Proof.
  intros s l H. apply length_le_counts. intros ci. pose proof (H l ci) as Q. pose proof (pos01_le2 (get_clause s ci) l).
  destruct (ci <? n_clauses s); lia.
Qed.

(* ---------------------------------------------------------------- the watch loop *)
Lemma prop_watch_total : forall fuel fl i s, WI fl s -> length (watch_list s fl) - i < fuel ->
  exists res, prop_watch fuel fl i s = Some res.
Proof.
  induction fuel as [|f IH]; intros fl i s HW Hf; [lia|]. simpl.
  pose proof (watch_step_wcase fl i s (bi_wle s (proj1 HW))) as C. pose proof (wcase_WI fl i s _ HW C) as HW'.
  destruct C as [Hd | s1 ci a r Hn Ht | s1 ci a r j Hn Ht Hj Hnf | s1 ci a r Hn Hall Ha | s1 ci a r Hn Hall Ha].
  - eexists. reflexivity.
  - destruct Hn as (Hi & _ & _ & _ & _ & Hw). apply IH; [exact HW'|]. rewrite Hw. lia.
  - destruct (wnorm_WI _ _ _ _ _ _ _ HW Hn) as [(HB1 & Hf1 & _) _]. destruct Hn as (Hi & Eci & Hci & Hc & _ & Hw).
    apply IH; [exact HW'|].
    assert (nth j r 0%Z <> fl) as Hx by (intros Q; rewrite Q, Hf1 in Hnf; discriminate).
    assert (watch_list (add_watch (nth j r 0%Z) ci (set_watch_list (set_clause s1 ci (a :: nth j r 0%Z :: upd r j fl)) fl (remove_swap_last (watch_list s1 fl) i))) fl
            = remove_swap_last (watch_list s1 fl) i) as W4.
    { unfold add_watch. rewrite watch_list_set_other by (intros Q; apply Hx; symmetry; exact Q). rewrite watch_list_set_same.
      assert (slot_len (set_clause s1 ci (a :: nth j r 0%Z :: upd r j fl)) fl = slot_len s1 fl) as Q0 by (unfold slot_len, set_clause; destruct (ci <? length (s_orig s1)); reflexivity).
      rewrite Q0. assert (lvar fl < slot_len s1 fl) as Q1.
      { apply watch_nonempty_in_range. rewrite Hw. intros Q2. rewrite Q2 in Hi. simpl in Hi. lia. }
      destruct (Nat.ltb_spec (lvar fl) (slot_len s1 fl)); [reflexivity | lia]. }
    rewrite W4, length_remove_swap_last, Hw. lia.
  - eexists. reflexivity.
  - destruct Hn as (Hi & _ & _ & _ & _ & Hw). apply IH; [exact HW'|].
    change (watch_list (assign_lit a (Some ci) s1) fl) with (watch_list s1 fl). rewrite Hw. lia.
Qed.

(* ---------------------------------------------------------------- the head loop *)
Lemma head_step_total : forall inner s, BI s -> s_head s < length (s_trail s) -> 2 * n_clauses s < inner ->
  exists res, head_step inner s = Some res.
Proof.
  intros inner s H Hlt Hin. unfold head_step.
  destruct (trail_at_split s Hlt) as (tr1 & tr2 & Etr & Ltr). set (v0 := trail_at s (s_head s)) in *.
  set (s1 := set_head s (S (s_head s))) in *.
  assert (BI s1) as H1 by (apply BI_set_head; assumption).
  assert (In v0 (s_trail s)) as Hv0 by (rewrite Etr; apply in_or_app; right; left; reflexivity).
  assert (val_of s1 v0 <> None) as Hass by (apply (ti_assigned s (proj1 (bi_ti s H))); exact Hv0).
  assert (v0 <> 0) as Hnz by (intros Q; rewrite Q in Hass; apply Hass; exact (bi_v0 s H)).
  set (fl := false_lit_of s1 v0) in *.
  assert (WI fl s1) as HW.
  { split; [exact H1|]. split.
    - apply false_lit_of_false; assumption.
    - unfold fl. rewrite lvar_false_lit_of. change (level_of s1 v0) with (level_of s v0). change (cur_level s1) with (cur_level s).
      apply (hi_level s (bi_head s H) tr1 v0 tr2 Etr). lia. }
  destruct (prop_bin (implications s1 fl) s1) as [s2 [ci|]] eqn:EB; [eexists; reflexivity|].
  destruct (prop_bin_WI fl _ s1 s2 None HW (fun p Hp => Hp) EB) as [HW2 _].
  apply prop_watch_total; [exact HW2|]. destruct (prop_bin_frame _ _ _ _ EB) as ([En _ _ _ _] & _).
  pose proof (watch_list_len s2 fl (bi_wle s2 (proj1 HW2))) as Q. rewrite En in Q. change (n_clauses s1) with (n_clauses s) in Q. lia.
Qed.

Lemma prop_loop_total : forall n inner fuel s, BI s -> nv s = S n -> 2 * n_clauses s < inner -> n - s_head s < fuel ->
  exists res, prop_loop fuel inner s = Some res.
Proof.
  intros n inner. induction fuel as [|f IH]; intros s H Hn Hin Hf; [lia|]. simpl.
  destruct (Nat.ltb_spec (s_head s) (length (s_trail s))) as [L|L]; [|eexists; reflexivity].
  destruct (head_step_total inner s H L Hin) as [[s1 r] EH]. rewrite EH.
  destruct r as [ci|]; [eexists; reflexivity|].
  destruct (head_step_BI _ _ _ _ H L EH) as [H1 _]. destruct (head_step_frame _ _ _ _ EH) as ([En _ _ _ _] & Eh & _).
  apply IH; [exact H1 | rewrite (head_step_nv _ _ _ _ EH); exact Hn | rewrite En; exact Hin|].
  pose proof (trail_len_le s n H Hn). lia.
Qed.

Theorem propagate_total : forall n fuel A s, BI s -> assum_ok (nv s) A -> nv s = S n ->
  2 * n_clauses s < fuel -> n < fuel -> exists res, propagate fuel A s = Some res.
Proof.
  intros n fuel A s H HA Hn Hc Hf. unfold propagate. destruct (Nat.eqb_spec (cur_level s) 0) as [Hl|Hl].
  - destruct (prop_assums A s) as [s1 [|]] eqn:EA; [eexists; reflexivity|].
    destruct (prop_assums_BI _ _ _ _ HA H Hl EA) as (H1 & _ & Hn1). destruct (prop_assums_frame _ _ _ _ EA) as ([En _ _ _ _] & _).
    apply (prop_loop_total n); [exact H1 | congruence | rewrite En; exact Hc | lia].
  - apply (prop_loop_total n); [exact H | exact Hn | exact Hc | lia].
Qed.
