(* C01 deep model - every run is a sequence of elementary steps (estep); an invariant preserved by each elementary step is
   preserved by propagate and by every iteration of the main loop.  Used for: the input clauses keep their literals
   (only their order changes), literals true at level 0 stay so (assumptions). *)
From Coq Require Import List ZArith Bool Arith Lia Permutation.
Import ListNotations.
From SV Require Import C01.SatSpec C01.Machine C01.DeepCdcl C01.DeepBase C01.DeepTrail C01.DeepTrailProp C01.DeepAnalyze
  C01.DeepWatch C01.DeepReason C01.DeepReasonProp C01.DeepRunOps C01.DeepReduce C01.DeepRun C01.DeepInit.
Close Scope Z_scope.
Open Scope nat_scope.

Definition same_mem (c c' : clause) : Prop := forall l, In l c <-> In l c'.

Inductive estep : st -> st -> Prop :=
| es_assign : forall s v b r, trail_inv s -> trail_inv (assign v b r s) -> estep s (assign v b r s)
| es_set_clause : forall s ci c, same_mem c (get_clause s ci) -> estep s (set_clause s ci c)
| es_db : forall s s', asg_eq s s' -> s_orig s' = s_orig s -> s_learned s' = s_learned s -> s_lbd s' = s_lbd s -> estep s s'
| es_append_c : forall s c k, estep s (append_learned c k s)
| es_set_last_c : forall s c b L, s_learned s = L ++ [b] -> same_mem c b -> estep s (set_last_learned s c)
| es_reduce : forall s, estep s (reduce_db s)
| es_set_head : forall s h, estep s (set_head s h)
| es_unassign : forall s k, trail_inv s -> estep s (unassign_to k s)
| es_push_lim : forall s, estep s (push_lim s).

Inductive esteps : st -> st -> Prop :=
| ess_refl : forall s, esteps s s
| ess_step : forall s s' s'', esteps s s' -> estep s' s'' -> esteps s s''.

Lemma esteps_trans : forall a b c, esteps a b -> esteps b c -> esteps a c.
Proof. intros a b c H1 H2. induction H2 as [|x y z R IH E]; [exact H1 | eapply ess_step; [apply IH; exact H1 | exact E]]. Qed.

Lemma esteps_one : forall s s', estep s s' -> esteps s s'.
Proof. intros. eapply ess_step; [apply ess_refl | assumption]. Qed.

Lemma esteps_pres : forall (Q : st -> Prop), (forall s s', estep s s' -> Q s -> Q s') -> forall s s', esteps s s' -> Q s -> Q s'.
Proof. intros Q H s s' R. induction R; auto. intros Hq. eapply H; eauto. Qed.

(* ---------------------------------------------------------------- frame steps *)
Lemma orig_set_watch_list : forall s l ws, s_orig (set_watch_list s l ws) = s_orig s.
Proof. intros. unfold set_watch_list. destruct (lpos l); reflexivity. Qed.

Lemma learned_set_watch_list : forall s l ws, s_learned (set_watch_list s l ws) = s_learned s /\ s_lbd (set_watch_list s l ws) = s_lbd s.
Proof. intros. unfold set_watch_list. destruct (lpos l); split; reflexivity. Qed.

Lemma es_set_watch_list : forall s l ws, estep s (set_watch_list s l ws).
Proof.
  intros. apply es_db; [apply set_watch_list_asg | apply orig_set_watch_list | apply learned_set_watch_list | apply learned_set_watch_list].
Qed.

Lemma es_add_watch : forall l i s, estep s (add_watch l i s).
Proof. intros. unfold add_watch. apply es_set_watch_list. Qed.

Lemma es_bump : forall s, estep s (bump_confl s).
Proof. intros. apply es_db; [apply bump_confl_asg | reflexivity | reflexivity | reflexivity]. Qed.

Lemma orig_big_add1 : forall a b i s, s_orig (big_add1 a b i s) = s_orig s.
Proof. intros. unfold big_add1. destruct (lpos a); reflexivity. Qed.

Lemma orig_attach : forall c i s, s_orig (attach c i s) = s_orig s.
Proof.
  intros c i s. destruct (attach_cases c i s) as [E|[(a & b & Ec & E)|(a & b & r & Ec & _ & E)]]; rewrite E; [reflexivity | |].
  - unfold big_add. rewrite !orig_big_add1. reflexivity.
  - unfold add_watch. rewrite !orig_set_watch_list. reflexivity.
Qed.

Lemma learned_big_add1 : forall a b i s, s_learned (big_add1 a b i s) = s_learned s /\ s_lbd (big_add1 a b i s) = s_lbd s.
Proof. intros. unfold big_add1. destruct (lpos a); split; reflexivity. Qed.

Lemma learned_attach : forall c i s, s_learned (attach c i s) = s_learned s /\ s_lbd (attach c i s) = s_lbd s.
Proof.
  intros c i s. destruct (attach_cases c i s) as [E|[(a & b & Ec & E)|(a & b & r & Ec & _ & E)]]; rewrite E; [split; reflexivity | |].
  - unfold big_add. destruct (learned_big_add1 b a i (big_add1 a b i s)) as [Q1 Q2]. destruct (learned_big_add1 a b i s) as [Q3 Q4]. split; congruence.
  - unfold add_watch. destruct (learned_set_watch_list (set_watch_list s a (watch_list s a ++ [i])) b (watch_list (set_watch_list s a (watch_list s a ++ [i])) b ++ [i])) as [Q1 Q2].
    destruct (learned_set_watch_list s a (watch_list s a ++ [i])) as [Q3 Q4]. split; congruence.
Qed.

Lemma es_attach : forall c i s, estep s (attach c i s).
Proof. intros. apply es_db; [apply attach_asg | apply orig_attach | apply learned_attach | apply learned_attach]. Qed.

Lemma orig_attach_all : forall cs i s, s_orig (attach_all cs i s) = s_orig s.
Proof. induction cs as [|c cs IH]; intros i s; simpl; [reflexivity|]. rewrite IH. apply orig_attach. Qed.

Lemma learned_attach_all : forall cs i s, s_learned (attach_all cs i s) = s_learned s /\ s_lbd (attach_all cs i s) = s_lbd s.
Proof.
  induction cs as [|c cs IH]; intros i s; simpl; [split; reflexivity|]. destruct (IH (S i) (attach c i s)) as [Q1 Q2].
  destruct (learned_attach c i s) as [Q3 Q4]. split; congruence.
Qed.

Lemma es_attach_all : forall cs i s, estep s (attach_all cs i s).
Proof. intros. apply es_db; [apply attach_all_asg | apply orig_attach_all | apply learned_attach_all | apply learned_attach_all]. Qed.

Lemma orig_reduce_db : forall s, s_orig (reduce_db s) = s_orig s.
Proof.
  intros s. unfold reduce_db. destruct (length (s_learned s) <? reduce_threshold); [reflexivity|]. rewrite orig_attach_all. reflexivity.
Qed.

Lemma es_reduce_db : forall s, estep s (reduce_db s).
Proof. intros. apply es_reduce. Qed.

Lemma es_append : forall c k s, estep s (append_learned c k s).
Proof. intros. apply es_append_c. Qed.

(* ---------------------------------------------------------------- the watch loop *)
Lemma wnorm_esteps : forall fl i s s1 ci a r, wnorm fl i s s1 ci a r -> esteps s s1.
Proof.
  intros fl i s s1 ci a r (_ & _ & _ & _ & [E|E] & _); subst s1; [apply ess_refl|].
  apply esteps_one. apply es_set_clause. intros l. apply In_swap01.
Qed.

Lemma wcase_esteps : forall fl i s w, WI fl s -> wcase fl i s w ->
  match w with WDone => True | WNext s' => esteps s s' | WStay s' => esteps s s' | WConf s' _ => esteps s s' end.
Proof.
  intros fl i s w H C. pose proof (wcase_WI fl i s w H C) as HWI.
  destruct C as [Hd | s1 ci a r Hn Ht | s1 ci a r j Hn Ht Hj Hnf | s1 ci a r Hn Hall Ha | s1 ci a r Hn Hall Ha].
  - exact I.
  - eapply wnorm_esteps; eauto.
  - pose proof (wnorm_esteps _ _ _ _ _ _ _ Hn) as R1. destruct Hn as (_ & _ & _ & Hc & _ & _).
    eapply ess_step; [|apply es_add_watch]. eapply ess_step; [|apply es_set_watch_list]. eapply ess_step; [exact R1|].
    apply es_set_clause. rewrite Hc. intros l. apply (In_swap1k a fl r j l Hj).
  - eapply ess_step; [eapply wnorm_esteps; eauto | apply es_bump].
  - destruct (wnorm_WI _ _ _ _ _ _ _ H Hn) as [(HB1 & _) _].
    eapply ess_step; [eapply wnorm_esteps; eauto|]. unfold assign_lit. apply es_assign.
    + exact (proj1 (bi_ti s1 HB1)).
    + exact (proj1 (bi_ti _ (proj1 HWI))).
Qed.

Lemma prop_watch_esteps : forall fuel fl i s s' r, WI fl s -> prop_watch fuel fl i s = Some (s', r) -> esteps s s'.
Proof.
  intros fuel fl i s s' r H E.
  assert (WI fl s' /\ esteps s s') as [_ Q]; [|exact Q].
  apply (prop_watch_inv (fun x => WI fl x /\ esteps s x) fl) with (fuel := fuel) (i := i) (s := s) (r := r); [| split; [exact H | apply ess_refl] | exact E].
  intros i0 s0 [H0 R0]. pose proof (watch_step_wcase fl i0 s0 (bi_wle s0 (proj1 H0))) as C.
  pose proof (wcase_WI fl i0 s0 _ H0 C) as HW. pose proof (wcase_esteps fl i0 s0 _ H0 C) as HE.
  destruct (watch_step fl i0 s0) as [|s1|s1|s1 ci]; simpl; [exact Logic.I | | |].
  - split; [exact HW | eapply esteps_trans; eauto].
  - split; [exact HW | eapply esteps_trans; eauto].
  - split; [exact (proj1 HW) | eapply esteps_trans; eauto].
Qed.

Lemma prop_bin_esteps : forall fl imps s s' r, WI fl s -> (forall p, In p imps -> In p (implications s fl)) ->
  prop_bin imps s = (s', r) -> esteps s s'.
Proof.
  intros fl. induction imps as [|[implied ci] imps IH]; intros s s' r HW Hsub E; simpl in E.
  - injection E as E1 E2. subst. apply ess_refl.
  - assert (forall p, In p [(implied, ci)] -> In p (implications s fl)) as Hsub1.
    { intros p [Q|[]]. subst p. apply Hsub. left. reflexivity. }
    destruct (val_of s (lvar implied)) as [b|] eqn:EV.
    + destruct (Bool.eqb b (lpos implied)) eqn:EB.
      * apply (IH s s' r HW); [intros p Hp; apply Hsub; right; exact Hp | exact E].
      * injection E as E1 E2. subst. apply esteps_one. apply es_bump.
    + destruct (prop_bin_WI fl [(implied, ci)] s (assign_lit implied (Some ci) s) None HW Hsub1) as [HW1 _].
      { simpl. rewrite EV. reflexivity. }
      eapply esteps_trans; [apply esteps_one; unfold assign_lit; apply es_assign|].
      * exact (proj1 (bi_ti s (proj1 HW))).
      * exact (proj1 (bi_ti _ (proj1 HW1))).
      * apply (IH _ s' r HW1); [|exact E]. intros p Hp. unfold assign_lit. rewrite (db_eq_implications _ _ _ (assign_db_eq _ _ _ s)).
        apply Hsub. right. exact Hp.
Qed.

Lemma head_step_esteps : forall inner s s' r, BI s -> s_head s < length (s_trail s) -> head_step inner s = Some (s', r) -> esteps s s'.
Proof.
  intros inner s s' r H Hlt E. unfold head_step in E.
  destruct (trail_at_split s Hlt) as (tr1 & tr2 & Etr & Ltr). set (v0 := trail_at s (s_head s)) in *.
  set (s1 := set_head s (S (s_head s))) in *.
  assert (BI s1) as H1 by (apply BI_set_head; assumption).
  assert (In v0 (s_trail s)) as Hv0 by (rewrite Etr; apply in_or_app; right; left; reflexivity).
  assert (val_of s1 v0 <> None) as Hass by (apply (ti_assigned s (proj1 (bi_ti s H))); exact Hv0).
  assert (v0 <> 0) as Hnz by (intros Q; rewrite Q in Hass; apply Hass; exact (bi_v0 s H)).
  set (fl := false_lit_of s1 v0) in *.
  assert (WI fl s1) as HW.
  { split; [exact H1|]. split.
    - apply false_lit_of_false; assumption.
    - unfold fl. rewrite lvar_false_lit_of. change (level_of s1 v0) with (level_of s v0). change (cur_level s1) with (cur_level s).
      apply (hi_level s (bi_head s H) tr1 v0 tr2 Etr). lia. }
  assert (esteps s s1) as R1 by (apply esteps_one; apply es_set_head).
  destruct (prop_bin (implications s1 fl) s1) as [s2 [ci|]] eqn:EB.
  - injection E as E1 E2. subst s' r. eapply esteps_trans; [exact R1|]. eapply prop_bin_esteps; eauto.
  - destruct (prop_bin_WI fl _ s1 s2 None HW (fun p Hp => Hp) EB) as [HW2 _].
    eapply esteps_trans; [exact R1|]. eapply esteps_trans; [eapply prop_bin_esteps; eauto|]. eapply prop_watch_esteps; eauto.
Qed.

Lemma prop_loop_esteps : forall fuel inner s s' c, BI s -> prop_loop fuel inner s = Some (s', c) -> esteps s s'.
Proof.
  induction fuel as [|f IH]; intros inner s s' c H E; simpl in E; [discriminate|].
  destruct (Nat.ltb_spec (s_head s) (length (s_trail s))) as [L|L].
  - destruct (head_step inner s) as [[s1 [ci|]]|] eqn:EH; [| |discriminate].
    + injection E as E1 E2. subst. eapply head_step_esteps; eauto.
    + destruct (head_step_BI _ _ _ _ H L EH) as [H1 _]. eapply esteps_trans; [eapply head_step_esteps; eauto | eapply IH; eauto].
  - injection E as E1 E2. subst. apply ess_refl.
Qed.

Lemma prop_assums_esteps : forall A s s' r, assum_ok (nv s) A -> BI s -> cur_level s = 0 -> prop_assums A s = (s', r) -> esteps s s'.
Proof.
  induction A as [|l A IH]; intros s s' r HA H Hc E; simpl in E.
  - injection E as E1 E2. subst. apply ess_refl.
  - inversion HA as [|? ? [Hl0 Hl] HA']; subst.
    destruct (val_of s (lvar l)) as [b|] eqn:EV.
    + destruct (Bool.eqb b (lpos l)); [eapply IH; eauto | injection E as E1 E2; subst; apply esteps_one; apply es_bump].
    + assert (BI (assign_lit l None s)) as H1.
      { unfold assign_lit. apply BI_assign; auto. apply lvar_nonzero; exact Hl0. discriminate. }
      eapply esteps_trans; [apply esteps_one; unfold assign_lit; apply es_assign; [exact (proj1 (bi_ti s H)) | exact (proj1 (bi_ti _ H1))]|].
      apply (IH _ s' r); auto. unfold assign_lit. rewrite nv_assign. exact HA'.
Qed.

Theorem propagate_esteps : forall fuel A s s' c, assum_ok (nv s) A -> BI s -> propagate fuel A s = Some (s', c) -> esteps s s'.
Proof.
  intros fuel A s s' c HA H E. unfold propagate in E.
  destruct (Nat.eqb_spec (cur_level s) 0) as [Hc|Hc].
  - destruct (prop_assums A s) as [s1 [|]] eqn:EA.
    + injection E as E1 E2. subst. eapply prop_assums_esteps; eauto.
    + destruct (prop_assums_BI _ _ _ _ HA H Hc EA) as (H1 & _ & _).
      eapply esteps_trans; [eapply prop_assums_esteps; eauto | eapply prop_loop_esteps; eauto].
  - eapply prop_loop_esteps; eauto.
Qed.

(* ---------------------------------------------------------------- one iteration of the main loop *)
(* either the list of recorded models is unchanged, or a model was recorded: then its blocking clause was appended (with lbd 0)
   and the rest of the iteration is a sequence of elementary steps from there *)
Theorem main_step_esteps_sols : forall fuel P L L', LI P L -> main_step fuel P L = Cont L' ->
  (l_sols L' = l_sols L /\ esteps (l_st L) (l_st L'))
  \/ (l_conflict L = CNone /\ all_assigned (l_st L) (p_nvars P) = true
      /\ l_sols L' = solution_of (l_st L) (p_nvars P) :: l_sols L
      /\ esteps (append_learned (blocking_of (l_st L) (p_nvars P)) 0 (l_st L)) (l_st L')).
Proof.
  intros fuel P L L' HL E. destruct HL as [HB Hnv HA Hdec Hconf]. unfold main_step in E.
  assert (assum_ok (nv (l_st L)) (p_assum P)) as HA0 by (rewrite Hnv; exact HA).
  pose proof (proj1 (bi_ti _ HB)) as HT.
  destruct (l_conflict L) as [| |ci] eqn:EC.
  - destruct (all_assigned (l_st L) (p_nvars P)) eqn:EAll.
    + match type of E with (if ?c then _ else _) = _ => destruct c end; [discriminate|].
      fold (blk_open (l_st L) (p_nvars P)) in E.
      set (s := l_st L) in *. set (n := p_nvars P) in *.
      set (s0 := append_learned (blocking_of s n) 0 s) in *.
      right. split; [reflexivity|]. split; [reflexivity|].
      assert (esteps s0 (set_last_learned (unassign_to 0 s0) (sort_blocking (unassign_to 0 s0) (blocking_of s n)))) as R2.
      { eapply ess_step; [|eapply (es_set_last_c _ _ (blocking_of s n) (s_learned s))].
        - apply esteps_one.
          apply es_unassign. eapply trail_inv_asg_eq; [apply append_learned_asg | exact HT].
        - exact (blk_learned1 s n HB Hnv).
        - intros l. unfold sort_blocking. rewrite in_app_iff, !filter_In.
          destruct (is_false (lit_value (unassign_to 0 s0) l)); simpl; intuition congruence. }
      destruct (Nat.eqb_spec (blk_open s n) 0) as [Ho|Ho].
      * injection E as E. subst L'. split; [reflexivity | exact R2].
      * unfold with_prop in E.
        pose proof (blk_s2 s n HB Hnv) as (H2 & _ & _).
        pose proof (blk_s3_BI s n HB Hnv Ho) as (H3 & _ & _ & _).
        pose proof (blk_s4_BI s n HB Hnv Ho) as (H4 & Hc4 & Hn4).
        assert (esteps s0 (blk_s4 s n)) as R4.
        { eapply esteps_trans; [exact R2|].
          assert (esteps (set_last_learned (unassign_to 0 s0) (sort_blocking (unassign_to 0 s0) (blocking_of s n))) (blk_s3 s n)) as R3.
          { unfold blk_s3 in *. destruct (blk_open s n =? 1); [|apply ess_refl].
            apply esteps_one. unfold assign_lit. apply es_assign; [exact (proj1 (bi_ti _ H2)) | exact (proj1 (bi_ti _ H3))]. }
          eapply esteps_trans; [exact R3|]. unfold blk_s4.
          destruct (2 <=? length (sort_blocking (unassign_to 0 (append_learned (blocking_of s n) 0 s)) (blocking_of s n))); [|apply ess_refl].
          eapply ess_step; [apply esteps_one; apply es_add_watch | apply es_add_watch]. }
        unfold blk_s4, blk_s3 in H4, Hn4, R4.
        match type of E with match propagate ?f ?A ?x with _ => _ end = _ => destruct (propagate f A x) as [[s5 c]|] eqn:EP end; [|discriminate].
        injection E as E. subst L'. simpl. split; [reflexivity|]. eapply esteps_trans; [exact R4|]. eapply propagate_esteps; [| exact H4 | exact EP].
        rewrite Hn4. exact HA0.
    + destruct (l_oracle L) as [|v orc]; [discriminate|].
      match type of E with (if ?c then _ else _) = _ => destruct c eqn:EV end; [|discriminate].
      apply andb_prop in EV. destruct EV as [EV EV3]. apply andb_prop in EV. destruct EV as [EV1 EV2].
      apply Nat.leb_le in EV1. apply Nat.leb_le in EV2.
      assert (val_of (l_st L) v = None) as Hvn by (destruct (val_of (l_st L) v); [discriminate | reflexivity]).
      assert (v < nv (l_st L)) as Hvr by (rewrite Hnv; lia).
      destruct (decide_BI (l_st L) v (nth v (s_phase (l_st L)) true) HB Hconf EV1 Hvr Hvn) as (H1 & Hc1 & Hn1).
      unfold with_prop in E.
      match type of E with match propagate ?f ?A ?x with _ => _ end = _ => destruct (propagate f A x) as [[s2 c]|] eqn:EP end; [|discriminate].
      match type of E with (if ?c then _ else _) = _ => destruct c end; [discriminate|].
      injection E as E. subst L'. simpl. left. split; [reflexivity|].
      eapply esteps_trans; [|eapply propagate_esteps; [| exact H1 | exact EP]; rewrite Hn1; exact HA0].
      eapply ess_step; [apply esteps_one; apply es_push_lim|].
      apply es_assign; [exact (proj1 (bi_ti _ (BI_push_lim _ HB Hconf))) | exact (proj1 (bi_ti _ H1))].
  - discriminate.
  - destruct (Nat.eqb_spec (l_dec_level L) 0) as [Hd0|Hd0]; [discriminate|].
    destruct (analyze (l_st L) ci) as [[[lc bt] lbd]|] eqn:EA; [|discriminate].
    destruct Hconf as [Hconf|Hconf]; [lia|].
    pose proof (learn_BI (l_st L) ci lc bt lbd HB Hconf EA) as (H3 & Hc3 & Hn3). cbv zeta in H3, Hc3, Hn3.
    set (s1 := unassign_to bt (l_st L)) in *.
    set (s2 := attach lc (n_clauses s1) (append_learned lc lbd s1)) in *.
    assert (esteps (l_st L) s2) as R2.
    { eapply ess_step; [|apply es_attach]. eapply ess_step; [apply esteps_one; apply es_unassign; exact HT | apply es_append]. }
    assert (trail_inv s2) as HT2.
    { eapply trail_inv_asg_eq; [|apply unassign_to_trail_inv; exact HT]. unfold s2. eapply asg_eq_trans; [apply append_learned_asg | apply attach_asg]. }
    assert (esteps (l_st L) (match lc with l0 :: _ => assign_lit l0 (Some (n_clauses s1)) s2 | [] => s2 end)) as R3.
    { destruct lc as [|l0 lc']; [exact R2|]. eapply ess_step; [exact R2|]. unfold assign_lit. apply es_assign; [exact HT2 | exact (proj1 (bi_ti _ H3))]. }
    match type of E with (if ?c then _ else _) = _ => destruct c end.
    + match type of E with (if ?c then _ else _) = _ => destruct c end; [discriminate|].
      destruct (luby_val (l_luby_idx L + 1)) as [lv|]; [|discriminate].
      unfold with_prop in E.
      match type of E with match propagate ?f ?A (reduce_db (unassign_to 0 ?x)) with _ => _ end = _ =>
        destruct (propagate f A (reduce_db (unassign_to 0 x))) as [[s5 c]|] eqn:EP; [|discriminate];
        assert (BI (unassign_to 0 x)) as H4 by (apply BI_unassign_to; exact H3);
        assert (cur_level (unassign_to 0 x) = 0) as Hc4 by (apply cur_level_unassign_to; lia);
        assert (nv (unassign_to 0 x) = nv (l_st L)) as Hn4 by (unfold nv; rewrite unassign_to_nvals; exact Hn3)
      end.
      injection E as E. subst L'. simpl. left. split; [reflexivity|].
      eapply esteps_trans; [|eapply propagate_esteps; [| apply reduce_db_BI; [exact H4 | exact Hc4] | exact EP]; rewrite reduce_db_nv, Hn4; exact HA0].
      eapply ess_step; [|apply es_reduce_db]. eapply ess_step; [exact R3|]. apply es_unassign. exact (proj1 (bi_ti _ H3)).
    + unfold with_prop in E.
      match type of E with match propagate ?f ?A ?x with _ => _ end = _ => destruct (propagate f A x) as [[s5 c]|] eqn:EP end; [|discriminate].
      injection E as E. subst L'. simpl. left. split; [reflexivity|].
      eapply esteps_trans; [exact R3|]. eapply propagate_esteps; [| exact H3 | exact EP]. rewrite Hn3. exact HA0.
Qed.

Theorem main_step_esteps : forall fuel P L L', LI P L -> main_step fuel P L = Cont L' -> esteps (l_st L) (l_st L').
Proof.
  intros fuel P L L' HL E. destruct (main_step_esteps_sols fuel P L L' HL E) as [[_ R]|(_ & _ & _ & R)]; [exact R|].
  eapply esteps_trans; [apply esteps_one; apply es_append | exact R].
Qed.
