(* C01 deep model - invariant (b) and its companions, operation by operation.
     reason_inv     : the reason clause of an implied variable of level >= 1 is a clause of the database; its literals are
                      the variable's true literal or false literals assigned earlier
     decision_first : a reasonless variable of level >= 1 is the first of its level on the trail
     head_inv       : every decision mark is <= prop_head; every unprocessed trail entry lies on the current level
     BI             : the bundle (T) + no literal 0 + watch_le + big_ok + the three above *)
From Coq Require Import List ZArith Bool Arith Lia Permutation.
Import ListNotations.
From SV Require Import C01.SatSpec C01.Machine C01.DeepCdcl C01.DeepBase C01.DeepTrail C01.DeepTrailProp C01.DeepAnalyze C01.DeepWatch.
Close Scope Z_scope.
Open Scope nat_scope.

Definition reason_inv (s : st) : Prop :=
  forall tr1 v tr2 r, s_trail s = tr1 ++ v :: tr2 -> 1 <= level_of s v -> reason_of s v = Some r ->
    r < n_clauses s
    /\ forall l, In l (get_clause s r) ->
         (lvar l = v /\ lit_value s l = Some true) \/ (lit_value s l = Some false /\ In (lvar l) tr2).

Record head_inv (s : st) : Prop := mkHI {
  hi_lim : forall l, In l (s_lim s) -> l <= s_head s;
  hi_level : forall tr1 v tr2, s_trail s = tr1 ++ v :: tr2 -> s_head s <= length tr2 -> level_of s v = cur_level s
}.

(* no literal 0 anywhere in the database; variable 0 is never assigned *)
Definition nz (s : st) : Prop := forall ci l, In l (get_clause s ci) -> l <> 0%Z.

Record BI (s : st) : Prop := mkBI {
  bi_ti : TI s;
  bi_nz : nz s;
  bi_v0 : val_of s 0 = None;
  bi_wle : watch_le s;
  bi_big : big_ok s;
  bi_reason : reason_inv s;
  bi_dec : decision_first s;
  bi_head : head_inv s
}.

(* ---------------------------------------------------------------- database membership *)
Lemma get_clause_in_db : forall s ci, ci < n_clauses s -> In (get_clause s ci) (db s).
Proof.
  intros s ci H. unfold n_clauses in H. unfold get_clause, db. apply in_or_app.
  destruct (Nat.ltb_spec ci (length (s_orig s))) as [L|L].
  - left. apply nth_In. exact L.
  - right. apply nth_In. lia.
Qed.

Lemma in_db_get_clause : forall s c, In c (db s) -> exists ci, ci < n_clauses s /\ get_clause s ci = c.
Proof.
  intros s c H. unfold db in H. apply in_app_or in H. unfold get_clause, n_clauses. destruct H as [H|H].
  - destruct (In_nth (s_orig s) c ([] : clause) H) as [i [Hi E]]. exists i. split; [lia|].
    destruct (Nat.ltb_spec i (length (s_orig s))); [exact E | lia].
  - destruct (In_nth (s_learned s) c ([] : clause) H) as [i [Hi E]]. exists (length (s_orig s) + i). split; [lia|].
    destruct (Nat.ltb_spec (length (s_orig s) + i) (length (s_orig s))); [lia|].
    replace (length (s_orig s) + i - length (s_orig s)) with i by lia. exact E.
Qed.

Lemma nz_db_nonzero : forall s, nz s -> db_nonzero s.
Proof. intros s H c Hc l Hl. destruct (in_db_get_clause s c Hc) as [ci [_ E]]. subst c. exact (H ci l Hl). Qed.

Lemma reason_inv_ok : forall s, reason_inv s -> reason_ok s.
Proof.
  intros s H tr1 v tr2 r E Hl Hr. destruct (H tr1 v tr2 r E Hl Hr) as [Q1 Q2]. split; [apply get_clause_in_db; exact Q1 | exact Q2].
Qed.

Lemma lvar_nonzero : forall l, l <> 0%Z -> lvar l <> 0.
Proof. intros l H. unfold lvar. lia. Qed.

(* ---------------------------------------------------------------- invariants that read the assignment part only *)
Lemma decision_first_asg_eq : forall s s', asg_eq s s' -> decision_first s -> decision_first s'.
Proof.
  intros s s' E H tr1 v tr2 Htr Hl Hr w Hw. pose proof E as (_ & _ & _ & E4 & _).
  rewrite !(asg_eq_level_of _ _ _ E) in *. rewrite (asg_eq_reason_of _ _ _ E) in Hr. rewrite E4 in Htr.
  exact (H tr1 v tr2 Htr Hl Hr w Hw).
Qed.

Lemma head_inv_asg_eq : forall s s', asg_eq s s' -> head_inv s -> head_inv s'.
Proof.
  intros s s' E [H1 H2]. pose proof E as (_ & _ & _ & E4 & E5 & E6 & _). constructor.
  - rewrite E5, E6. exact H1.
  - intros tr1 v tr2 Htr Hh. rewrite (asg_eq_level_of _ _ _ E), (asg_eq_cur_level _ _ E). rewrite E4 in Htr. rewrite E6 in Hh. eauto.
Qed.

Lemma reason_inv_frame : forall s s', asg_eq s s' -> n_clauses s' = n_clauses s ->
  (forall r l, In l (get_clause s' r) -> In l (get_clause s r)) -> reason_inv s -> reason_inv s'.
Proof.
  intros s s' E En Eg H tr1 v tr2 r Htr Hl Hr. pose proof E as (_ & _ & _ & E4 & _).
  rewrite (asg_eq_level_of _ _ _ E) in Hl. rewrite (asg_eq_reason_of _ _ _ E) in Hr. rewrite E4 in Htr.
  destruct (H tr1 v tr2 r Htr Hl Hr) as [Q1 Q2]. split; [rewrite En; exact Q1|].
  intros l Hin. rewrite (asg_eq_lit_value _ _ _ E). apply Q2. apply Eg. exact Hin.
Qed.

Lemma val_of_asg_eq0 : forall s s', asg_eq s s' -> val_of s 0 = None -> val_of s' 0 = None.
Proof. intros s s' E H. rewrite (asg_eq_val_of _ _ _ E). exact H. Qed.

(* ---------------------------------------------------------------- assign *)
Lemma lit_value_assign_other : forall s v b r l, lvar l <> v -> lit_value (assign v b r s) l = lit_value s l.
Proof.
  intros s v b r l H. unfold lit_value, val_of, assign. simpl. rewrite nth_upd_neq by (intros C; apply H; symmetry; exact C). reflexivity.
Qed.

Lemma lit_value_assign_same : forall s v b r l, v < length (s_vals s) -> lvar l = v -> lit_value (assign v b r s) l = Some (Bool.eqb b (lpos l)).
Proof.
  intros s v b r l Hv H. unfold lit_value. rewrite val_of_assign by exact Hv. rewrite H, Nat.eqb_refl. reflexivity.
Qed.

Lemma reason_of_assign : forall s v b r w, v < length (s_reasons s) ->
  reason_of (assign v b r s) w = if v =? w then r else reason_of s w.
Proof.
  intros s v b r w Hv. unfold reason_of, assign. simpl. destruct (Nat.eqb_spec v w) as [E|E].
  - subst w. apply nth_upd_eq. exact Hv.
  - apply nth_upd_neq. exact E.
Qed.

Lemma reason_inv_assign : forall s v b r0, trail_inv s -> reason_inv s -> val_of s v = None -> v < length (s_vals s) ->
  (forall r, r0 = Some r -> 1 <= cur_level s -> r < n_clauses s
     /\ forall l, In l (get_clause s r) -> (lvar l = v /\ lpos l = b) \/ lit_value s l = Some false) ->
  reason_inv (assign v b r0 s).
Proof.
  intros s v b r0 HT H Hn Hv Hob tr1 w tr2 r Htr Hl Hr.
  assert (~ In v (s_trail s)) as Hnotin by (intros C; apply (ti_assigned s HT) in C; congruence).
  assert (forall l o, lit_value s l = Some o -> lit_value (assign v b r0 s) l = Some o) as Hkeep.
  { intros l o Q. rewrite lit_value_assign_other; [exact Q|]. intros C. apply lit_value_assigned in Q. rewrite C in Q. congruence. }
  rewrite reason_of_assign in Hr by (rewrite (ti_len_reasons s HT); exact Hv).
  rewrite level_of_assign in Hl by (rewrite (ti_len_levels s HT); exact Hv).
  change (n_clauses (assign v b r0 s)) with (n_clauses s). change (get_clause (assign v b r0 s) r) with (get_clause s r).
  simpl in Htr. destruct tr1 as [|x tr1'].
  - simpl in Htr. injection Htr as E1 E2. subst w tr2. rewrite Nat.eqb_refl in Hr, Hl. destruct (Hob r Hr Hl) as [Q1 Q2].
    split; [exact Q1|]. intros l Hin. destruct (Q2 l Hin) as [[Qa Qb]|Qf].
    + left. split; [exact Qa|]. rewrite lit_value_assign_same by assumption. rewrite Qb. destruct b; reflexivity.
    + right. split; [apply Hkeep; exact Qf|]. apply (ti_assigned s HT). eapply lit_value_assigned. exact Qf.
  - simpl in Htr. injection Htr as E1 E2. subst x.
    assert (In w (s_trail s)) as Hw by (rewrite E2; apply in_or_app; right; left; reflexivity).
    destruct (Nat.eqb_spec v w) as [C|C]; [subst w; contradiction|].
    destruct (H tr1' w tr2 r E2 Hl Hr) as [Q1 Q2]. split; [exact Q1|].
    intros l Hin. destruct (Q2 l Hin) as [[Qa Qb]|[Qa Qb]]; [left | right]; split; auto.
Qed.

Lemma decision_first_assign : forall s v b r0, trail_inv s -> decision_first s -> val_of s v = None -> v < length (s_vals s) ->
  (r0 = None -> cur_level s = 0 \/ forall w, In w (s_trail s) -> level_of s w < cur_level s) ->
  decision_first (assign v b r0 s).
Proof.
  intros s v b r0 HT H Hn Hv Hob tr1 w tr2 Htr Hl Hr u Hu.
  assert (~ In v (s_trail s)) as Hnotin by (intros C; apply (ti_assigned s HT) in C; congruence).
  rewrite reason_of_assign in Hr by (rewrite (ti_len_reasons s HT); exact Hv).
  rewrite !level_of_assign in * by (rewrite (ti_len_levels s HT); exact Hv).
  simpl in Htr. destruct tr1 as [|x tr1'].
  - simpl in Htr. injection Htr as E1 E2. subst w tr2. rewrite Nat.eqb_refl in *.
    destruct (Nat.eqb_spec v u) as [C|C]; [subst u; contradiction|].
    destruct (Hob Hr) as [Q|Q]; [lia|]. pose proof (Q u Hu). lia.
  - simpl in Htr. injection Htr as E1 E2. subst x.
    assert (In w (s_trail s)) as Hw by (rewrite E2; apply in_or_app; right; left; reflexivity).
    assert (In u (s_trail s)) as Hu' by (rewrite E2; apply in_or_app; right; right; exact Hu).
    destruct (Nat.eqb_spec v w) as [C|C]; [subst w; contradiction|].
    destruct (Nat.eqb_spec v u) as [C2|C2]; [subst u; contradiction|].
    exact (H tr1' w tr2 E2 Hl Hr u Hu).
Qed.

Lemma head_inv_assign : forall s v b r0, trail_inv s -> head_inv s -> val_of s v = None -> v < length (s_vals s) ->
  head_inv (assign v b r0 s).
Proof.
  intros s v b r0 HT [H1 H2] Hn Hv.
  assert (~ In v (s_trail s)) as Hnotin by (intros C; apply (ti_assigned s HT) in C; congruence).
  constructor; simpl; [exact H1|].
  intros tr1 w tr2 Htr Hh. rewrite level_of_assign by (rewrite (ti_len_levels s HT); exact Hv).
  change (cur_level (assign v b r0 s)) with (cur_level s).
  destruct tr1 as [|x tr1'].
  - simpl in Htr. injection Htr as E1 E2. subst w. rewrite Nat.eqb_refl. reflexivity.
  - simpl in Htr. injection Htr as E1 E2. subst x.
    assert (In w (s_trail s)) as Hw by (rewrite E2; apply in_or_app; right; left; reflexivity).
    destruct (Nat.eqb_spec v w) as [C|C]; [subst w; contradiction|]. eauto.
Qed.

(* ---------------------------------------------------------------- unassign_to *)
Lemma unassign_to_spec : forall s level, trail_inv s ->
  exists popped,
    s_trail s = popped ++ s_trail (unassign_to level s)
    /\ s_levels (unassign_to level s) = s_levels s /\ s_reasons (unassign_to level s) = s_reasons s
    /\ s_lim (unassign_to level s) = firstn level (s_lim s)
    /\ s_head (unassign_to level s) = Nat.min (s_head s) (length (s_trail (unassign_to level s)))
    /\ (forall v, In v popped -> val_of (unassign_to level s) v = None)
    /\ (forall v, ~ In v popped -> val_of (unassign_to level s) v = val_of s v)
    /\ (level < length (s_lim s) -> length (s_trail (unassign_to level s)) = nth level (s_lim s) 0)
    /\ (length (s_lim s) <= level -> popped = []).
Proof.
  intros s level HT. unfold unassign_to.
  set (target := if level <? length (s_lim s) then nth level (s_lim s) 0 else length (s_trail s)).
  destruct (unwind (length (s_trail s) - target) (s_vals s) (s_phase s) (s_trail s)) as [[vals' phase'] tr'] eqn:EU.
  apply unwind_spec in EU. destruct EU as [popped (E & L & LV & LP & Hin & Hout)].
  assert (target <= length (s_trail s)) as Htl.
  { unfold target. destruct (Nat.ltb_spec level (length (s_lim s))) as [Q|Q]; [|lia].
    apply (ti_lim_le s HT). apply nth_In. exact Q. }
  assert (length (s_trail s) = length popped + length tr') as Q0 by (rewrite E at 1; apply app_length).
  exists popped. simpl. unfold val_of. simpl. repeat split; auto.
  - intros Q. unfold target in *. destruct (Nat.ltb_spec level (length (s_lim s))); lia.
  - intros Q. unfold target in *. destruct (Nat.ltb_spec level (length (s_lim s))); [lia|].
    destruct popped; [reflexivity | simpl in *; lia].
Qed.

Lemma reason_inv_unassign_to : forall s level, trail_inv s -> reason_inv s -> reason_inv (unassign_to level s).
Proof.
  intros s level HT H. destruct (unassign_to_spec s level HT) as [popped (E & EL & ER & _ & _ & Hin & Hout & _)].
  pose proof (ti_nodup s HT) as ND. rewrite E in ND.
  intros tr1 v tr2 r Htr Hl Hr.
  unfold level_of in Hl. rewrite EL in Hl. unfold reason_of in Hr. rewrite ER in Hr.
  assert (s_trail s = (popped ++ tr1) ++ v :: tr2) as Htr' by (rewrite E, Htr, app_assoc; reflexivity).
  destruct (H _ v tr2 r Htr' Hl Hr) as [Q1 Q2].
  rewrite (db_eq_n_clauses _ _ (unassign_to_db_eq level s)). rewrite (db_eq_get_clause _ _ _ (unassign_to_db_eq level s)).
  split; [exact Q1|]. intros l Hlin.
  assert (forall u, In u (s_trail (unassign_to level s)) -> val_of (unassign_to level s) u = val_of s u) as Hkeep.
  { intros u Hu. apply Hout. intros C. exact (NoDup_app_disjoint _ _ _ ND C Hu). }
  destruct (Q2 l Hlin) as [[Qa Qb]|[Qa Qb]]; [left | right]; (split; [|assumption]) || (split; [assumption|]).
  - unfold lit_value. rewrite Hkeep; [exact Qb|]. rewrite Qa, Htr. apply in_or_app. right. left. reflexivity.
  - unfold lit_value. rewrite Hkeep; [exact Qa|]. rewrite Htr. apply in_or_app. right. right. exact Qb.
Qed.

Lemma decision_first_unassign_to : forall s level, trail_inv s -> decision_first s -> decision_first (unassign_to level s).
Proof.
  intros s level HT H. destruct (unassign_to_spec s level HT) as [popped (E & EL & ER & _)].
  intros tr1 v tr2 Htr Hl Hr w Hw. unfold level_of in *. rewrite EL in *. unfold reason_of in Hr. rewrite ER in Hr.
  assert (s_trail s = (popped ++ tr1) ++ v :: tr2) as Htr' by (rewrite E, Htr, app_assoc; reflexivity).
  exact (H _ v tr2 Htr' Hl Hr w Hw).
Qed.

Lemma head_inv_unassign_to : forall s level, trail_inv s -> head_inv s -> head_inv (unassign_to level s).
Proof.
  intros s level HT [H1 H2].
  destruct (unassign_to_spec s level HT) as [popped (E & EL & ER & ELim & EH & _ & _ & Hlt & Hge)].
  destruct (Nat.lt_ge_cases level (length (s_lim s))) as [L|L].
  - (* the trail is cut at a decision mark, which is <= prop_head: everything left is processed *)
    pose proof (Hlt L) as Hlen.
    assert (nth level (s_lim s) 0 <= s_head s) as Q by (apply H1; apply nth_In; exact L).
    constructor.
    + intros l Hl. rewrite ELim in Hl. rewrite EH, Hlen. rewrite Nat.min_r by lia.
      destruct (In_nth _ _ 0 Hl) as [j [Hj Hx]]. rewrite firstn_length in Hj. rewrite nth_firstn' in Hx by lia. subst l.
      apply (ti_sorted s HT); lia.
    + intros tr1 v tr2 Htr Hh. exfalso. rewrite EH in Hh.
      assert (length tr2 < length (s_trail (unassign_to level s))) by (rewrite Htr, app_length; simpl; lia). lia.
  - pose proof (Hge L) as Hp. subst popped. simpl in E.
    constructor.
    + intros l Hl. rewrite ELim in Hl. rewrite firstn_all2 in Hl by lia. rewrite EH, <- E.
      rewrite Nat.min_l by exact (ti_head s HT). apply H1. exact Hl.
    + intros tr1 v tr2 Htr Hh. unfold level_of, cur_level. rewrite EL, ELim. rewrite firstn_all2 by lia.
      rewrite EH, <- E in Hh. rewrite Nat.min_l in Hh by exact (ti_head s HT). rewrite <- E in Htr. exact (H2 tr1 v tr2 Htr Hh).
Qed.

(* ---------------------------------------------------------------- push_lim / set_head *)
Lemma head_inv_push_lim : forall s, head_inv s -> s_head s = length (s_trail s) -> head_inv (push_lim s).
Proof.
  intros s [H1 H2] Hh. constructor; simpl.
  - intros l Hl. apply in_app_or in Hl. destruct Hl as [Hl|[Hl|[]]]; [apply H1; exact Hl | lia].
  - intros tr1 v tr2 Htr Hle. exfalso. assert (length tr2 < length (s_trail s)) by (rewrite Htr, app_length; simpl; lia). lia.
Qed.

Lemma head_inv_set_head : forall s, head_inv s -> head_inv (set_head s (S (s_head s))).
Proof.
  intros s [H1 H2]. constructor; simpl.
  - intros l Hl. pose proof (H1 l Hl). lia.
  - intros tr1 v tr2 Htr Hle. apply (H2 tr1 v tr2 Htr). lia.
Qed.

Lemma reason_inv_levels_frame : forall s s', s_vals s' = s_vals s -> s_levels s' = s_levels s -> s_reasons s' = s_reasons s ->
  s_trail s' = s_trail s -> n_clauses s' = n_clauses s -> (forall r, get_clause s' r = get_clause s r) ->
  reason_inv s -> reason_inv s'.
Proof.
  intros s s' E1 E2 E3 E4 En Eg H tr1 v tr2 r Htr Hl Hr.
  unfold level_of in Hl. rewrite E2 in Hl. unfold reason_of in Hr. rewrite E3 in Hr. rewrite E4 in Htr.
  destruct (H tr1 v tr2 r Htr Hl Hr) as [Q1 Q2]. rewrite En, Eg. split; [exact Q1|].
  intros l Hin. unfold lit_value, val_of. rewrite E1. exact (Q2 l Hin).
Qed.

Lemma decision_first_levels_frame : forall s s', s_levels s' = s_levels s -> s_reasons s' = s_reasons s ->
  s_trail s' = s_trail s -> decision_first s -> decision_first s'.
Proof.
  intros s s' E2 E3 E4 H tr1 v tr2 Htr Hl Hr w Hw. unfold level_of in *. rewrite E2 in *. unfold reason_of in Hr. rewrite E3 in Hr.
  rewrite E4 in Htr. exact (H tr1 v tr2 Htr Hl Hr w Hw).
Qed.

(* ---------------------------------------------------------------- clause permutations *)
Lemma In_swap01 : forall c l, In l (swap01 c) <-> In l c.
Proof. intros c l. unfold swap01. destruct c as [|a [|b r]]; simpl; tauto. Qed.

Lemma upd_perm : forall (rest : list Z) j b, j < length rest -> Permutation (nth j rest 0%Z :: upd rest j b) (b :: rest).
Proof.
  intros rest j b H. destruct (nth_split rest 0%Z H) as (r1 & r2 & E & L). set (x := nth j rest 0%Z) in *.
  rewrite E. rewrite <- L. rewrite upd_app_mid.
  apply Permutation_trans with (r1 ++ x :: b :: r2); [apply Permutation_middle|].
  apply Permutation_sym. apply Permutation_trans with (r1 ++ b :: x :: r2); [apply Permutation_middle|].
  apply Permutation_app_head. apply perm_swap.
Qed.

Lemma In_swap1k : forall a b rest j l, j < length rest ->
  (In l (a :: nth j rest 0%Z :: upd rest j b) <-> In l (a :: b :: rest)).
Proof.
  intros a b rest j l H. pose proof (upd_perm rest j b H) as P. simpl. split; intros [Q|Q]; auto; right.
  - exact (Permutation_in _ P Q).
  - exact (Permutation_in _ (Permutation_sym P) Q).
Qed.
