(* C01 deep model - the watch structure, "at most" half of invariant (W):
     watch_le : clause ci occurs in the watch list of literal l at most as often as l stands on positions 0 / 1 of ci
                (in particular: a watched clause has length >= 2, is a clause of the database, and is watched on a literal
                of its first two positions)
     big_ok   : an entry (implied, ci) of the implication list of literal fl is the binary clause {fl, implied} of the database
   and their preservation by the elementary operations of propagate. *)
From Coq Require Import List ZArith Bool Arith Lia Permutation.
Import ListNotations.
From SV Require Import C01.SatSpec C01.Machine C01.DeepCdcl C01.DeepBase.
Close Scope Z_scope.
Open Scope nat_scope.

(* ---------------------------------------------------------------- the database part of a state *)
Definition db_eq (s s' : st) : Prop :=
  s_orig s' = s_orig s /\ s_learned s' = s_learned s /\ s_wpos s' = s_wpos s /\ s_wneg s' = s_wneg s
  /\ s_bpos s' = s_bpos s /\ s_bneg s' = s_bneg s.

Lemma db_eq_refl : forall s, db_eq s s.
Proof. intros s. repeat split. Qed.

Lemma assign_db_eq : forall v b r s, db_eq s (assign v b r s).
Proof. intros. repeat split. Qed.
Lemma bump_confl_db_eq : forall s, db_eq s (bump_confl s).
Proof. intros. repeat split. Qed.
Lemma set_head_db_eq : forall s h, db_eq s (set_head s h).
Proof. intros. repeat split. Qed.
Lemma push_lim_db_eq : forall s, db_eq s (push_lim s).
Proof. intros. repeat split. Qed.
Lemma unassign_to_db_eq : forall k s, db_eq s (unassign_to k s).
Proof.
  intros k s. unfold unassign_to. destruct (unwind _ (s_vals s) (s_phase s) (s_trail s)) as [[a b] c]. repeat split.
Qed.

Lemma db_eq_get_clause : forall s s' ci, db_eq s s' -> get_clause s' ci = get_clause s ci.
Proof. intros s s' ci (H1 & H2 & _). unfold get_clause. rewrite H1, H2. reflexivity. Qed.

Lemma db_eq_n_clauses : forall s s', db_eq s s' -> n_clauses s' = n_clauses s.
Proof. intros s s' (H1 & H2 & _). unfold n_clauses. rewrite H1, H2. reflexivity. Qed.

Lemma db_eq_watch_list : forall s s' l, db_eq s s' -> watch_list s' l = watch_list s l.
Proof. intros s s' l (_ & _ & H3 & H4 & _). unfold watch_list. rewrite H3, H4. reflexivity. Qed.

Lemma db_eq_implications : forall s s' l, db_eq s s' -> implications s' l = implications s l.
Proof. intros s s' l (_ & _ & _ & _ & H5 & H6). unfold implications. rewrite H5, H6. reflexivity. Qed.

(* ---------------------------------------------------------------- get_clause / set_clause *)
Lemma n_clauses_set_clause : forall s ci c, n_clauses (set_clause s ci c) = n_clauses s.
Proof. intros. unfold set_clause, n_clauses. destruct (ci <? length (s_orig s)); simpl; rewrite upd_length; reflexivity. Qed.

Lemma get_clause_set_clause_eq : forall s ci c, ci < n_clauses s -> get_clause (set_clause s ci c) ci = c.
Proof.
  intros s ci c H. unfold n_clauses in H. unfold set_clause, get_clause.
  destruct (Nat.ltb_spec ci (length (s_orig s))) as [L|L]; simpl; rewrite ?upd_length.
  - destruct (Nat.ltb_spec ci (length (s_orig s))); [|lia]. apply nth_upd_eq. exact L.
  - destruct (Nat.ltb_spec ci (length (s_orig s))); [lia|]. apply nth_upd_eq. lia.
Qed.

Lemma get_clause_set_clause_neq : forall s ci c r, r <> ci -> get_clause (set_clause s ci c) r = get_clause s r.
Proof.
  intros s ci c r H. unfold set_clause, get_clause.
  destruct (Nat.ltb_spec ci (length (s_orig s))) as [L|L]; simpl; rewrite ?upd_length.
  - destruct (r <? length (s_orig s)); [|reflexivity]. apply nth_upd_neq. lia.
  - destruct (Nat.ltb_spec r (length (s_orig s))) as [L2|L2]; [reflexivity|]. apply nth_upd_neq. lia.
Qed.

Lemma watch_list_set_clause : forall s ci c l, watch_list (set_clause s ci c) l = watch_list s l.
Proof. intros. unfold set_clause, watch_list. destruct (ci <? length (s_orig s)); reflexivity. Qed.

Lemma implications_set_clause : forall s ci c l, implications (set_clause s ci c) l = implications s l.
Proof. intros. unfold set_clause, implications. destruct (ci <? length (s_orig s)); reflexivity. Qed.

(* ---------------------------------------------------------------- watch lists *)
Lemma slot_eq : forall l l', lpos l = lpos l' -> lvar l = lvar l' -> l = l'.
Proof.
  intros l l' H1 H2. unfold lpos, lvar in *. assert (Z.abs l = Z.abs l') as Q.
  { rewrite <- !Zabs2Nat.id_abs. rewrite H2. reflexivity. }
  destruct (Z.ltb_spec 0 l); destruct (Z.ltb_spec 0 l'); try discriminate; lia.
Qed.

Definition slot_len (s : st) (l : Z) : nat := if lpos l then length (s_wpos s) else length (s_wneg s).

Lemma watch_list_set_same : forall s l ws, watch_list (set_watch_list s l ws) l = if lvar l <? slot_len s l then ws else [].
Proof.
  intros s l ws. unfold watch_list, set_watch_list, slot_len. destruct (lpos l) eqn:E; simpl.
  - destruct (Nat.ltb_spec (lvar l) (length (s_wpos s))) as [L|L]; [apply nth_upd_eq; exact L | apply nth_overflow; rewrite upd_length; exact L].
  - destruct (Nat.ltb_spec (lvar l) (length (s_wneg s))) as [L|L]; [apply nth_upd_eq; exact L | apply nth_overflow; rewrite upd_length; exact L].
Qed.

Lemma watch_list_set_other : forall s l ws l', l' <> l -> watch_list (set_watch_list s l ws) l' = watch_list s l'.
Proof.
  intros s l ws l' H. unfold watch_list, set_watch_list. destruct (lpos l) eqn:E; destruct (lpos l') eqn:E'; simpl; try reflexivity;
    apply nth_upd_neq; intros Q; apply H; apply slot_eq; congruence.
Qed.

Lemma n_clauses_set_watch_list : forall s l ws, n_clauses (set_watch_list s l ws) = n_clauses s.
Proof. intros. unfold set_watch_list, n_clauses. destruct (lpos l); reflexivity. Qed.

Lemma get_clause_set_watch_list : forall s l ws ci, get_clause (set_watch_list s l ws) ci = get_clause s ci.
Proof. intros. unfold set_watch_list, get_clause. destruct (lpos l); reflexivity. Qed.

Lemma implications_set_watch_list : forall s l ws fl, implications (set_watch_list s l ws) fl = implications s fl.
Proof. intros. unfold set_watch_list, implications. destruct (lpos l); reflexivity. Qed.

(* ---------------------------------------------------------------- counting *)
Definition cnt (ws : list nat) (ci : nat) : nat := count_occ Nat.eq_dec ws ci.

Definition pos01 (c : clause) (l : Z) : nat :=
  match c with
  | a :: b :: _ => (if (a =? l)%Z then 1 else 0) + (if (b =? l)%Z then 1 else 0)
  | _ => 0
  end.

Definition watch_le (s : st) : Prop :=
  forall l ci, cnt (watch_list s l) ci <= (if ci <? n_clauses s then pos01 (get_clause s ci) l else 0).

Definition big_ok (s : st) : Prop :=
  forall fl implied ci, In (implied, ci) (implications s fl) ->
    ci < n_clauses s /\ (get_clause s ci = [fl; implied] \/ get_clause s ci = [implied; fl]).

Lemma watch_le_db_eq : forall s s', db_eq s s' -> watch_le s -> watch_le s'.
Proof.
  intros s s' E H l ci. rewrite (db_eq_watch_list _ _ _ E), (db_eq_n_clauses _ _ E), (db_eq_get_clause _ _ _ E). apply H.
Qed.

Lemma big_ok_db_eq : forall s s', db_eq s s' -> big_ok s -> big_ok s'.
Proof.
  intros s s' E H fl implied ci Hin. rewrite (db_eq_implications _ _ _ E) in Hin.
  rewrite (db_eq_n_clauses _ _ E), (db_eq_get_clause _ _ _ E). apply H. exact Hin.
Qed.

Lemma cnt_app : forall a b x, cnt (a ++ b) x = cnt a x + cnt b x.
Proof. intros. unfold cnt. apply count_occ_app. Qed.

Lemma cnt_pos_In : forall ws x, In x ws -> 1 <= cnt ws x.
Proof. intros ws x H. unfold cnt. apply (count_occ_In Nat.eq_dec) in H. lia. Qed.

(* a member of a watch list: a clause of the database, of length >= 2, watched on position 0 or 1 *)
Lemma watch_le_member : forall s l ci, watch_le s -> In ci (watch_list s l) ->
  ci < n_clauses s /\ exists a b r, get_clause s ci = a :: b :: r /\ (a = l \/ b = l).
Proof.
  intros s l ci H Hin. pose proof (H l ci) as Q. pose proof (cnt_pos_In _ _ Hin) as Q1.
  destruct (Nat.ltb_spec ci (n_clauses s)) as [L|L]; [|lia]. split; [exact L|].
  unfold pos01 in Q. destruct (get_clause s ci) as [|a [|b r]]; try lia. exists a, b, r. split; [reflexivity|].
  destruct (Z.eqb_spec a l); [left; assumption|]. destruct (Z.eqb_spec b l); [right; assumption|]. lia.
Qed.

Lemma pos01_swap01 : forall c l, pos01 (swap01 c) l = pos01 c l.
Proof. intros c l. unfold pos01, swap01. destruct c as [|a [|b r]]; auto. lia. Qed.

(* ---------------------------------------------------------------- watches[i] = watches[-1]; watches.pop() *)
Lemma removelast_app_one : forall {A} (l : list A) x, removelast (l ++ [x]) = l.
Proof. intros. rewrite removelast_app by discriminate. simpl. apply app_nil_r. Qed.

Lemma last_app_one : forall {A} (l : list A) x d, last (l ++ [x]) d = x.
Proof. intros. apply last_last. Qed.

Lemma upd_app_mid : forall {A} (a : list A) x b y, upd (a ++ x :: b) (length a) y = a ++ y :: b.
Proof. induction a as [|h a IH]; intros; simpl; [reflexivity|]. rewrite IH. reflexivity. Qed.

Lemma list_last_case : forall {A} (l : list A), l = [] \/ exists l' z, l = l' ++ [z].
Proof.
  intros A l. destruct l as [|h t]; [left; reflexivity|]. right.
  exists (removelast (h :: t)), (last (h :: t) h). apply app_removelast_last. discriminate.
Qed.

Lemma remove_swap_last_perm : forall ws i, i < length ws -> Permutation (nth i ws 0 :: remove_swap_last ws i) ws.
Proof.
  intros ws i H. destruct (nth_split ws 0 H) as (a & b & E & La). unfold remove_swap_last.
  set (x := nth i ws 0) in *. rewrite E. rewrite <- La.
  destruct (list_last_case b) as [Eb|(b' & z & Eb)]; subst b.
  - rewrite last_app_one. rewrite upd_app_mid. rewrite removelast_app_one. apply Permutation_cons_append.
  - replace (a ++ x :: b' ++ [z]) with ((a ++ x :: b') ++ [z]) by (rewrite <- app_assoc; reflexivity).
    rewrite last_app_one. rewrite <- app_assoc. simpl. rewrite upd_app_mid.
    replace (a ++ z :: b' ++ [z]) with ((a ++ z :: b') ++ [z]) by (rewrite <- app_assoc; reflexivity).
    rewrite removelast_app_one.
    apply Permutation_trans with (a ++ x :: z :: b').
    + apply Permutation_middle.
    + apply Permutation_app_head. apply perm_skip. apply Permutation_cons_append.
Qed.

Lemma cnt_perm : forall a b x, Permutation a b -> cnt a x = cnt b x.
Proof. intros a b x H. unfold cnt. apply (Permutation_count_occ Nat.eq_dec). exact H. Qed.

Lemma cnt_remove_swap_last : forall ws i x, i < length ws ->
  cnt ws x = (if Nat.eq_dec (nth i ws 0) x then 1 else 0) + cnt (remove_swap_last ws i) x.
Proof.
  intros ws i x H. rewrite <- (cnt_perm _ _ x (remove_swap_last_perm ws i H)). unfold cnt. simpl.
  destruct (Nat.eq_dec (nth i ws 0) x); reflexivity.
Qed.

(* ---------------------------------------------------------------- watch_le through the operations of the watch loop *)
Lemma watch_le_swap01 : forall s ci, watch_le s -> ci < n_clauses s ->
  watch_le (set_clause s ci (swap01 (get_clause s ci))).
Proof.
  intros s ci H Hci l cj. rewrite watch_list_set_clause, n_clauses_set_clause.
  destruct (Nat.eq_dec cj ci) as [E|E].
  - subst cj. rewrite get_clause_set_clause_eq by exact Hci. rewrite pos01_swap01. apply H.
  - rewrite get_clause_set_clause_neq by exact E. apply H.
Qed.

Lemma swap1k_shape : forall a b rest j, swap1k (a :: b :: rest) (S (S j)) = a :: nth j rest 0%Z :: upd rest j b.
Proof. intros. unfold swap1k. simpl. reflexivity. Qed.

Lemma cnt_nil : forall x, cnt [] x = 0.
Proof. reflexivity. Qed.

Lemma cnt_one : forall x y, cnt [x] y = if Nat.eq_dec x y then 1 else 0.
Proof. intros. unfold cnt. simpl. destruct (Nat.eq_dec x y); reflexivity. Qed.

(* the watch of clause ci on fl (position 1) is moved to its literal at position k >= 2 *)
Lemma watch_le_move : forall s fl i a rest j,
  watch_le s -> i < length (watch_list s fl) ->
  get_clause s (nth i (watch_list s fl) 0) = a :: fl :: rest -> j < length rest -> nth j rest 0%Z <> fl ->
  watch_le (add_watch (nth j rest 0%Z) (nth i (watch_list s fl) 0)
             (set_watch_list (set_clause s (nth i (watch_list s fl) 0) (a :: nth j rest 0%Z :: upd rest j fl))
                             fl (remove_swap_last (watch_list s fl) i))).
Proof.
  intros s fl i a rest j H Hi Hc Hj Hx. set (ws := watch_list s fl) in *. set (ci := nth i ws 0) in *.
  set (x := nth j rest 0%Z) in *. set (c2 := a :: x :: upd rest j fl).
  assert (ci < n_clauses s) as Hci.
  { destruct (watch_le_member s fl ci H) as [Q _]; [apply nth_In; exact Hi | exact Q]. }
  set (s2 := set_clause s ci c2). set (s3 := set_watch_list s2 fl (remove_swap_last ws i)).
  assert (forall l, watch_list s2 l = watch_list s l) as W2 by (intros; apply watch_list_set_clause).
  set (s4 := add_watch x ci s3).
  assert (n_clauses s4 = n_clauses s) as N4.
  { unfold s4, add_watch, s3, s2. rewrite !n_clauses_set_watch_list, n_clauses_set_clause. reflexivity. }
  assert (forall cj, get_clause s4 cj = get_clause s2 cj) as G4.
  { intros cj. unfold s4, add_watch, s3. rewrite !get_clause_set_watch_list. reflexivity. }
  intros l cj. rewrite N4, G4.
  change (watch_list s4 l) with (watch_list (set_watch_list s3 x (watch_list s3 x ++ [ci])) l).
  pose proof (cnt_remove_swap_last ws i cj Hi) as Hrm. fold ci in Hrm.
  pose proof (H l cj) as Hl. pose proof (H fl cj) as Hfl. pose proof (H x cj) as Hxx. fold ws in Hfl.
  assert (watch_list s3 x = watch_list s x) as W3x.
  { unfold s3. rewrite watch_list_set_other by exact Hx. apply W2. }
  (* the new list of l *)
  assert (cnt (watch_list (set_watch_list s3 x (watch_list s3 x ++ [ci])) l) cj
          <= (if Z.eq_dec l x then cnt (watch_list s x) cj + (if Nat.eq_dec ci cj then 1 else 0)
              else if Z.eq_dec l fl then cnt (remove_swap_last ws i) cj else cnt (watch_list s l) cj)) as Hnew.
  { destruct (Z.eq_dec l x) as [E|E].
    - subst l. rewrite watch_list_set_same. destruct (lvar x <? slot_len s3 x); [|rewrite cnt_nil; lia].
      rewrite cnt_app, cnt_one, W3x. lia.
    - rewrite watch_list_set_other by exact E. unfold s3. destruct (Z.eq_dec l fl) as [E2|E2].
      + subst l. rewrite watch_list_set_same. destruct (lvar fl <? slot_len s2 fl); [lia | rewrite cnt_nil; lia].
      + rewrite watch_list_set_other by exact E2. rewrite W2. lia. }
  eapply Nat.le_trans; [exact Hnew|]. clear Hnew.
  destruct (Nat.ltb_spec cj (n_clauses s)) as [L|L].
  2:{ (* stale index: occurs nowhere *)
    assert (ci <> cj) by lia. destruct (Nat.eq_dec ci cj); [contradiction|].
    destruct (Z.eq_dec l x); [lia|]. destruct (Z.eq_dec l fl); lia. }
  destruct (Nat.eq_dec ci cj) as [E|E].
  - subst cj. unfold s2. rewrite get_clause_set_clause_eq by exact Hci. rewrite Hc in *. unfold c2. unfold pos01 in *.
    destruct (Z.eq_dec l x) as [E1|E1].
    + subst l. rewrite Z.eqb_refl. destruct (Z.eqb_spec fl x); [congruence|]. lia.
    + destruct (Z.eq_dec l fl) as [E2|E2].
      * subst l. rewrite Z.eqb_refl in Hfl. destruct (Z.eqb_spec x fl); [contradiction|]. lia.
      * destruct (Z.eqb_spec fl l); [congruence|]. destruct (Z.eqb_spec x l); [congruence|]. lia.
  - unfold s2. rewrite get_clause_set_clause_neq by (intros C; apply E; symmetry; exact C).
    destruct (Z.eq_dec l x); [subst l; lia|]. destruct (Z.eq_dec l fl); [subst l; lia | lia].
Qed.

(* ---------------------------------------------------------------- big_ok through the same operations *)
Lemma big_ok_swap01 : forall s ci, big_ok s -> ci < n_clauses s -> big_ok (set_clause s ci (swap01 (get_clause s ci))).
Proof.
  intros s ci H Hci fl implied cj Hin. rewrite implications_set_clause in Hin. rewrite n_clauses_set_clause.
  destruct (H fl implied cj Hin) as [Q1 Q2]. split; [exact Q1|].
  destruct (Nat.eq_dec cj ci) as [E|E].
  - subst cj. rewrite get_clause_set_clause_eq by exact Hci. destruct Q2 as [Q2|Q2]; rewrite Q2; simpl; auto.
  - rewrite get_clause_set_clause_neq by exact E. exact Q2.
Qed.

Lemma big_ok_set_long : forall s ci c, big_ok s -> 3 <= length (get_clause s ci) -> big_ok (set_clause s ci c).
Proof.
  intros s ci c H Hlen fl implied cj Hin. rewrite implications_set_clause in Hin. rewrite n_clauses_set_clause.
  destruct (H fl implied cj Hin) as [Q1 Q2]. split; [exact Q1|].
  destruct (Nat.eq_dec cj ci) as [E|E].
  - subst cj. exfalso. destruct Q2 as [Q2|Q2]; rewrite Q2 in Hlen; simpl in Hlen; lia.
  - rewrite get_clause_set_clause_neq by exact E. exact Q2.
Qed.

Lemma big_ok_set_watch_list : forall s l ws, big_ok s -> big_ok (set_watch_list s l ws).
Proof.
  intros s l ws H fl implied cj Hin. rewrite implications_set_watch_list in Hin.
  rewrite n_clauses_set_watch_list, get_clause_set_watch_list. apply H. exact Hin.
Qed.

Lemma big_ok_add_watch : forall l i s, big_ok s -> big_ok (add_watch l i s).
Proof. intros. unfold add_watch. apply big_ok_set_watch_list. assumption. Qed.

Lemma find_nonfalse_spec : forall s rest k0 k, find_nonfalse s rest k0 = Some k ->
  k0 <= k /\ k - k0 < length rest /\ is_false (lit_value s (nth (k - k0) rest 0%Z)) = false.
Proof.
  intros s rest. induction rest as [|l rest IH]; intros k0 k H; simpl in H; [discriminate|].
  destruct (is_false (lit_value s l)) eqn:E.
  - apply IH in H. destruct H as (H1 & H2 & H3). split; [lia|]. split; [simpl; lia|].
    replace (k - k0) with (S (k - S k0)) by lia. simpl. exact H3.
  - injection H as H. subst k. rewrite Nat.sub_diag. simpl. split; [lia|]. split; [lia|exact E].
Qed.

Lemma find_nonfalse_none : forall s rest k0, find_nonfalse s rest k0 = None -> forall l, In l rest -> is_false (lit_value s l) = true.
Proof.
  intros s rest. induction rest as [|x rest IH]; intros k0 H l Hl; simpl in *; [contradiction|].
  destruct (is_false (lit_value s x)) eqn:E; [|discriminate]. destruct Hl as [Q|Hl]; [subst; exact E | eapply IH; eauto].
Qed.
