(* C01 deep model - invariant (T), part 2: propagate preserves it (together with the range invariant of the
   clause database: every literal stored in a clause / implication list indexes into the arrays). *)
From Coq Require Import List ZArith Bool Arith Lia.
Import ListNotations.
From SV Require Import C01.SatSpec C01.Machine C01.DeepCdcl C01.DeepBase C01.DeepTrail.
Close Scope Z_scope.
Open Scope nat_scope.

Definition nv (s : st) : nat := length (s_vals s).
Definition lit_in (n : nat) (l : Z) : Prop := lvar l < n.
Definition clause_in (n : nat) (c : clause) : Prop := Forall (lit_in n) c.
Definition imps_in (n : nat) (l : list (Z * nat)) : Prop := Forall (fun p => lit_in n (fst p)) l.

Record db_range (s : st) : Prop := mkDR {
  dr_pos : 0 < nv s;
  dr_orig : Forall (clause_in (nv s)) (s_orig s);
  dr_learned : Forall (clause_in (nv s)) (s_learned s);
  dr_bpos : Forall (imps_in (nv s)) (s_bpos s);
  dr_bneg : Forall (imps_in (nv s)) (s_bneg s)
}.

(* the bundle preserved by every operation of the solver *)
Definition TI (s : st) : Prop := trail_inv s /\ db_range s.

Lemma get_clause_in : forall s ci, db_range s -> clause_in (nv s) (get_clause s ci).
Proof.
  intros s ci H. unfold get_clause. destruct (ci <? length (s_orig s)).
  - apply Forall_nth_default; [exact (dr_orig s H) | constructor].
  - apply Forall_nth_default; [exact (dr_learned s H) | constructor].
Qed.

Lemma implications_in : forall s fl, db_range s -> imps_in (nv s) (implications s fl).
Proof.
  intros s fl H. unfold implications. destruct (lpos fl).
  - apply Forall_nth_default; [exact (dr_bneg s H) | constructor].
  - apply Forall_nth_default; [exact (dr_bpos s H) | constructor].
Qed.

Lemma lit_in_zero : forall n, 0 < n -> lit_in n 0%Z.
Proof. intros n H. unfold lit_in, lvar. simpl. exact H. Qed.

Lemma clause_in_nth : forall n c k, 0 < n -> clause_in n c -> lit_in n (nth k c 0%Z).
Proof. intros n c k Hn H. apply Forall_nth_default; [exact H | apply lit_in_zero; exact Hn]. Qed.

Lemma swap01_in : forall n c, clause_in n c -> clause_in n (swap01 c).
Proof.
  intros n c H. unfold swap01. destruct c as [|a [|b r]]; auto.
  inversion H as [|? ? Ha Hr]; subst. inversion Hr as [|? ? Hb Hr']; subst. repeat constructor; assumption.
Qed.

Lemma swap1k_in : forall n c k, 0 < n -> clause_in n c -> clause_in n (swap1k c k).
Proof.
  intros n c k Hn H. unfold swap1k. apply Forall_upd; [apply Forall_upd; [exact H|] |]; apply clause_in_nth; assumption.
Qed.

(* ---------------------------------------------------------------- frame operations *)
Lemma db_range_set_clause : forall s ci c, db_range s -> clause_in (nv s) c -> db_range (set_clause s ci c).
Proof.
  intros s ci c H Hc. destruct H. unfold set_clause. destruct (ci <? length (s_orig s)); constructor; unfold nv in *; simpl; auto;
    apply Forall_upd; assumption.
Qed.

Lemma db_range_set_watch_list : forall s l ws, db_range s -> db_range (set_watch_list s l ws).
Proof. intros s l ws H. destruct H. unfold set_watch_list. destruct (lpos l); constructor; unfold nv in *; simpl; auto. Qed.

Lemma db_range_add_watch : forall l i s, db_range s -> db_range (add_watch l i s).
Proof. intros l i s H. unfold add_watch. apply db_range_set_watch_list. exact H. Qed.

Lemma db_range_bump_confl : forall s, db_range s -> db_range (bump_confl s).
Proof. intros s H. destruct H. constructor; unfold nv in *; simpl; auto. Qed.

Lemma db_range_set_head : forall s h, db_range s -> db_range (set_head s h).
Proof. intros s h H. destruct H. constructor; unfold nv in *; simpl; auto. Qed.

Lemma db_range_assign : forall s v b r, db_range s -> db_range (assign v b r s).
Proof. intros s v b r H. destruct H. constructor; unfold nv in *; simpl; rewrite ?upd_length; auto. Qed.

Lemma nv_assign : forall s v b r, nv (assign v b r s) = nv s.
Proof. intros. unfold nv. simpl. apply upd_length. Qed.

Lemma TI_set_clause : forall s ci c, TI s -> clause_in (nv s) c -> TI (set_clause s ci c).
Proof.
  intros s ci c [HT HD] Hc. split; [eapply trail_inv_asg_eq; [apply set_clause_asg | exact HT] | apply db_range_set_clause; assumption].
Qed.

Lemma TI_set_watch_list : forall s l ws, TI s -> TI (set_watch_list s l ws).
Proof.
  intros s l ws [HT HD]. split; [eapply trail_inv_asg_eq; [apply set_watch_list_asg | exact HT] | apply db_range_set_watch_list; assumption].
Qed.

Lemma TI_add_watch : forall l i s, TI s -> TI (add_watch l i s).
Proof. intros l i s H. unfold add_watch. apply TI_set_watch_list. exact H. Qed.

Lemma TI_bump_confl : forall s, TI s -> TI (bump_confl s).
Proof.
  intros s [HT HD]. split; [eapply trail_inv_asg_eq; [apply bump_confl_asg | exact HT] | apply db_range_bump_confl; assumption].
Qed.

Lemma TI_assign_lit : forall s l r, TI s -> lit_in (nv s) l -> val_of s (lvar l) = None -> TI (assign_lit l r s).
Proof.
  intros s l r [HT HD] Hl Hn. unfold assign_lit. split; [apply assign_trail_inv; assumption | apply db_range_assign; assumption].
Qed.

Lemma nv_set_clause : forall s ci c, nv (set_clause s ci c) = nv s.
Proof. intros. unfold set_clause, nv. destruct (ci <? length (s_orig s)); reflexivity. Qed.

Lemma nv_set_watch_list : forall s l ws, nv (set_watch_list s l ws) = nv s.
Proof. intros. unfold set_watch_list, nv. destruct (lpos l); reflexivity. Qed.

(* ---------------------------------------------------------------- lit_value facts *)
Lemma lit_value_none : forall s l, is_true (lit_value s l) = false -> is_false (lit_value s l) = false ->
  val_of s (lvar l) = None.
Proof.
  intros s l H1 H2. unfold lit_value in *. destruct (val_of s (lvar l)) as [b|]; [|reflexivity].
  destruct (Bool.eqb b (lpos l)); simpl in *; discriminate.
Qed.

(* ---------------------------------------------------------------- prop_assums / prop_bin *)
Lemma prop_assums_TI : forall A s s' r, Forall (lit_in (nv s)) A -> TI s -> prop_assums A s = (s', r) -> TI s'.
Proof.
  induction A as [|l A IH]; intros s s' r HA H E; simpl in E.
  - injection E as E1 E2. subst. exact H.
  - inversion HA as [|? ? Hl HA']; subst.
    destruct (val_of s (lvar l)) as [b|] eqn:EV.
    + destruct (Bool.eqb b (lpos l)).
      * eapply IH; eauto.
      * injection E as E1 E2. subst. apply TI_bump_confl. exact H.
    + eapply IH; [| |exact E].
      * unfold assign_lit. rewrite nv_assign. exact HA'.
      * apply TI_assign_lit; assumption.
Qed.

Lemma prop_bin_TI : forall imps s s' r, imps_in (nv s) imps -> TI s -> prop_bin imps s = (s', r) -> TI s'.
Proof.
  induction imps as [|[l ci] imps IH]; intros s s' r HA H E; simpl in E.
  - injection E as E1 E2. subst. exact H.
  - inversion HA as [|? ? Hl HA']; subst. simpl in Hl.
    destruct (val_of s (lvar l)) as [b|] eqn:EV.
    + destruct (Bool.eqb b (lpos l)).
      * eapply IH; eauto.
      * injection E as E1 E2. subst. apply TI_bump_confl. exact H.
    + eapply IH; [| |exact E].
      * unfold assign_lit. rewrite nv_assign. exact HA'.
      * apply TI_assign_lit; assumption.
Qed.

(* ---------------------------------------------------------------- the watch loop *)
Definition wstep_post (I : st -> Prop) (w : wstep) : Prop :=
  match w with WDone => True | WNext s' => I s' | WStay s' => I s' | WConf s' _ => I s' end.

Lemma prop_watch_inv : forall (I : st -> Prop) fl,
  (forall i s, I s -> wstep_post I (watch_step fl i s)) ->
  forall fuel i s s' r, I s -> prop_watch fuel fl i s = Some (s', r) -> I s'.
Proof.
  intros I fl Hstep. induction fuel as [|f IH]; intros i s s' r HI E; simpl in E; [discriminate|].
  pose proof (Hstep i s HI) as Hp. destruct (watch_step fl i s) as [|s1|s1|s1 ci]; simpl in Hp.
  - injection E as E1 E2. subst. exact HI.
  - eapply IH; eauto.
  - eapply IH; eauto.
  - injection E as E1 E2. subst. exact Hp.
Qed.

Lemma watch_step_TI : forall fl i s, TI s -> wstep_post TI (watch_step fl i s).
Proof.
  intros fl i s H. unfold watch_step.
  destruct (i <? length (watch_list s fl)); [|exact Logic.I].
  set (ci := nth i (watch_list s fl) 0). set (c := get_clause s ci).
  destruct (length c =? 1); [simpl; apply TI_bump_confl; exact H|].
  assert (clause_in (nv s) c) as Hc by (apply get_clause_in; exact (proj2 H)).
  assert (0 < nv s) as Hpos by exact (dr_pos s (proj2 H)).
  set (c1 := if (nth 0 c 0 =? fl)%Z then swap01 c else c).
  set (s1 := if (nth 0 c 0 =? fl)%Z then set_clause s ci c1 else s).
  assert (clause_in (nv s) c1) as Hc1 by (unfold c1; destruct (nth 0 c 0 =? fl)%Z; [apply swap01_in|]; exact Hc).
  assert (TI s1 /\ nv s1 = nv s) as [H1 Hn1].
  { unfold s1. destruct (nth 0 c 0 =? fl)%Z; [split; [apply TI_set_clause; assumption | apply nv_set_clause] | split; [exact H | reflexivity]]. }
  destruct (is_true (lit_value s1 (nth 0 c1 0%Z))) eqn:E1; [simpl; exact H1|].
  destruct (find_nonfalse s1 (skipn 2 c1) 2) as [k|].
  - simpl. apply TI_add_watch. apply TI_set_watch_list. apply TI_set_clause; [exact H1|].
    rewrite Hn1. apply swap1k_in; assumption.
  - destruct (is_false (lit_value s1 (nth 0 c1 0%Z))) eqn:E2; simpl; [apply TI_bump_confl; exact H1|].
    apply TI_assign_lit; [exact H1 | rewrite Hn1; apply clause_in_nth; assumption | apply lit_value_none; assumption].
Qed.

Lemma prop_watch_TI : forall fuel fl i s s' r, TI s -> prop_watch fuel fl i s = Some (s', r) -> TI s'.
Proof. intros fuel fl i s s' r. apply prop_watch_inv. intros; apply watch_step_TI; assumption. Qed.

(* ---------------------------------------------------------------- the head loop and propagate *)
Lemma TI_set_head : forall s h, TI s -> h <= length (s_trail s) -> TI (set_head s h).
Proof. intros s h [HT HD] Hh. split; [apply set_head_trail_inv; assumption | apply db_range_set_head; assumption]. Qed.

Lemma head_step_TI : forall inner s s' r, TI s -> s_head s < length (s_trail s) -> head_step inner s = Some (s', r) -> TI s'.
Proof.
  intros inner s s' r H Hlt E. unfold head_step in E.
  set (s1 := set_head s (S (s_head s))) in *.
  assert (TI s1) as H1 by (apply TI_set_head; [exact H | lia]).
  destruct (prop_bin (implications s1 (false_lit_of s1 (trail_at s (s_head s)))) s1) as [s2 [ci|]] eqn:EB.
  - injection E as E1 E2. subst. eapply prop_bin_TI; [|exact H1|exact EB]. apply implications_in. exact (proj2 H1).
  - eapply prop_watch_TI; [|exact E]. eapply prop_bin_TI; [|exact H1|exact EB]. apply implications_in. exact (proj2 H1).
Qed.

Lemma prop_loop_TI : forall fuel inner s s' c, TI s -> prop_loop fuel inner s = Some (s', c) -> TI s'.
Proof.
  induction fuel as [|f IH]; intros inner s s' c H E; simpl in E; [discriminate|].
  destruct (Nat.ltb_spec (s_head s) (length (s_trail s))) as [L|L].
  - destruct (head_step inner s) as [[s1 [ci|]]|] eqn:EH; [| |discriminate].
    + injection E as E1 E2. subst. eapply head_step_TI; eauto.
    + eapply IH; [|exact E]. eapply head_step_TI; eauto.
  - injection E as E1 E2. subst. exact H.
Qed.

Theorem propagate_TI : forall fuel A s s' c, Forall (lit_in (nv s)) A -> TI s -> propagate fuel A s = Some (s', c) -> TI s'.
Proof.
  intros fuel A s s' c HA H E. unfold propagate in E.
  destruct (cur_level s =? 0).
  - destruct (prop_assums A s) as [s1 [|]] eqn:EA.
    + injection E as E1 E2. subst. eapply prop_assums_TI; eauto.
    + eapply prop_loop_TI; [|exact E]. eapply prop_assums_TI; eauto.
  - eapply prop_loop_TI; eauto.
Qed.

(* ---------------------------------------------------------------- the arrays keep their length *)
Lemma nv_bump_confl : forall s, nv (bump_confl s) = nv s.
Proof. reflexivity. Qed.

Lemma nv_add_watch : forall l i s, nv (add_watch l i s) = nv s.
Proof. intros. unfold add_watch. apply nv_set_watch_list. Qed.

Lemma prop_assums_nv : forall A s s' r, prop_assums A s = (s', r) -> nv s' = nv s.
Proof.
  induction A as [|l A IH]; intros s s' r E; simpl in E.
  - injection E as E1 E2. subst. reflexivity.
  - destruct (val_of s (lvar l)) as [b|].
    + destruct (Bool.eqb b (lpos l)); [eapply IH; eauto | injection E as E1 E2; subst; reflexivity].
    + apply IH in E. rewrite E. apply nv_assign.
Qed.

Lemma prop_bin_nv : forall imps s s' r, prop_bin imps s = (s', r) -> nv s' = nv s.
Proof.
  induction imps as [|[l ci] imps IH]; intros s s' r E; simpl in E.
  - injection E as E1 E2. subst. reflexivity.
  - destruct (val_of s (lvar l)) as [b|].
    + destruct (Bool.eqb b (lpos l)); [eapply IH; eauto | injection E as E1 E2; subst; reflexivity].
    + apply IH in E. rewrite E. apply nv_assign.
Qed.

Lemma watch_step_nv : forall n fl i s, nv s = n -> wstep_post (fun s' => nv s' = n) (watch_step fl i s).
Proof.
  intros n fl i s H. unfold watch_step.
  destruct (i <? length (watch_list s fl)); [|exact Logic.I].
  destruct (length (get_clause s (nth i (watch_list s fl) 0)) =? 1); [simpl; exact H|].
  set (ci := nth i (watch_list s fl) 0). set (c := get_clause s ci).
  set (c1 := if (nth 0 c 0 =? fl)%Z then swap01 c else c).
  set (s1 := if (nth 0 c 0 =? fl)%Z then set_clause s ci c1 else s).
  assert (nv s1 = n) as Hn1 by (unfold s1; destruct (nth 0 c 0 =? fl)%Z; [rewrite nv_set_clause|]; exact H).
  destruct (is_true (lit_value s1 (nth 0 c1 0%Z))); [simpl; exact Hn1|].
  destruct (find_nonfalse s1 (skipn 2 c1) 2) as [k|].
  - simpl. rewrite nv_add_watch, nv_set_watch_list, nv_set_clause. exact Hn1.
  - destruct (is_false (lit_value s1 (nth 0 c1 0%Z))); simpl; [exact Hn1|].
    unfold assign_lit. rewrite nv_assign. exact Hn1.
Qed.

Lemma prop_watch_nv : forall fuel fl i s s' r, prop_watch fuel fl i s = Some (s', r) -> nv s' = nv s.
Proof.
  intros fuel fl i s s' r E.
  apply (prop_watch_inv (fun x => nv x = nv s) fl (fun i0 s0 H0 => watch_step_nv (nv s) fl i0 s0 H0) fuel i s s' r eq_refl E).
Qed.

Lemma head_step_nv : forall inner s s' r, head_step inner s = Some (s', r) -> nv s' = nv s.
Proof.
  intros inner s s' r E. unfold head_step in E.
  destruct (prop_bin _ (set_head s (S (s_head s)))) as [s2 [ci|]] eqn:EB; apply prop_bin_nv in EB.
  - injection E as E1 E2. subst. exact EB.
  - apply prop_watch_nv in E. rewrite E. exact EB.
Qed.

Lemma prop_loop_nv : forall fuel inner s s' c, prop_loop fuel inner s = Some (s', c) -> nv s' = nv s.
Proof.
  induction fuel as [|f IH]; intros inner s s' c E; simpl in E; [discriminate|].
  destruct (s_head s <? length (s_trail s)).
  - destruct (head_step inner s) as [[s1 [ci|]]|] eqn:EH; [| |discriminate].
    + injection E as E1 E2. subst. eapply head_step_nv; eauto.
    + apply IH in E. rewrite E. eapply head_step_nv; eauto.
  - injection E as E1 E2. subst. reflexivity.
Qed.

Lemma propagate_nv : forall fuel A s s' c, propagate fuel A s = Some (s', c) -> nv s' = nv s.
Proof.
  intros fuel A s s' c E. unfold propagate in E. destruct (cur_level s =? 0).
  - destruct (prop_assums A s) as [s1 [|]] eqn:EA; apply prop_assums_nv in EA.
    + injection E as E1 E2. subst. exact EA.
    + apply prop_loop_nv in E. congruence.
  - eapply prop_loop_nv; eauto.
Qed.
