(* C02 on the faithful model - the semantic invariant through the main loop: an assignment m that satisfies the input clauses and
   the assumptions either has been recorded (Found) or still satisfies the clause database and every level-0 literal (MI). *)
From Coq Require Import List ZArith Bool Arith Lia Permutation.
Import ListNotations.
From SV Require Import C01.SatSpec C01.Machine C01.DeepCdcl C01.DeepBase C01.DeepTrail C01.DeepTrailProp C01.DeepAnalyze
  C01.DeepWatch C01.DeepReason C01.DeepReasonProp C01.DeepRunOps C01.DeepReduce C01.DeepRun C01.DeepInit C01.DeepJ C01.DeepJRun
  C01.DeepSteps C01.DeepAlgo C01.DeepResult C01.RupProofs C01.Deep2Sem.
Close Scope Z_scope.
Open Scope nat_scope.

(* m coincides with a recorded model on the variables of the formula *)
Definition same_on (n : nat) (m : asg) (sol : model) : Prop := forall v, 1 <= v <= n -> m (zvar v) = asg_of sol (zvar v).
Definition Found (m : asg) (n : nat) (sols : list model) : Prop := exists sol, In sol sols /\ same_on n m sol.

Lemma Found_mono : forall m n a b, (forall x, In x a -> In x b) -> Found m n a -> Found m n b.
Proof. intros m n a b H [sol [Q1 Q2]]. exists sol. auto. Qed.

(* ---------------------------------------------------------------- database frames *)
Lemma db_append : forall c k s c', In c' (db (append_learned c k s)) -> In c' (db s) \/ c' = c.
Proof.
  intros c k s c' H. unfold db, append_learned in *. simpl in H. rewrite app_assoc in H. apply in_app_or in H.
  destruct H as [H|[H|[]]]; [left; exact H | right; symmetry; exact H].
Qed.

Lemma MI_append : forall m c k s, clause_true m c = true -> MI m s -> MI m (append_learned c k s).
Proof.
  intros m c k s Hc [H1 H2]. split; [|exact H2]. intros c' Hc'. destruct (db_append _ _ _ _ Hc') as [Q|Q]; [apply H1; exact Q | subst; exact Hc].
Qed.

Lemma db_attach : forall c i s, db (attach c i s) = db s.
Proof. intros. unfold db. rewrite orig_attach. rewrite (proj1 (learned_attach c i s)). reflexivity. Qed.

Lemma MI_attach : forall m c i s, MI m s -> MI m (attach c i s).
Proof. intros. apply (MI_asg_db m s); [apply attach_asg | apply db_attach | assumption]. Qed.

Lemma MI_reduce_db : forall m s, MI m s -> MI m (reduce_db s).
Proof.
  intros m s H. pose proof (reduce_db_asg s) as EA.
  apply (MI_frame m s); [intros l; apply asg_eq_lit_value; exact EA | intros v; apply asg_eq_level_of; exact EA | | exact H].
  intros c' Hc'. exists c'. split; [|apply same_mem_refl]. unfold db in *. rewrite orig_reduce_db in Hc'.
    apply in_app_or in Hc'. apply in_or_app. destruct Hc' as [Q|Q]; [left; exact Q|right].
    unfold reduce_db in Q. destruct (length (s_learned s) <? reduce_threshold); [exact Q|].
    rewrite (proj1 (learned_attach_all _ _ _)) in Q. simpl in Q. apply kept_in_learned. exact Q.
Qed.

Lemma MI_set_last : forall m s c b L, s_learned s = L ++ [b] -> same_mem c b -> MI m s -> MI m (set_last_learned s c).
Proof.
  intros m s c b L EL Hm H. pose proof (set_last_learned_asg s c) as EA.
  apply (MI_frame m s); [intros l; apply asg_eq_lit_value; exact EA | intros v; apply asg_eq_level_of; exact EA | | exact H].
  intros c' Hc'. unfold db, set_last_learned in *. simpl in Hc'. rewrite EL, removelast_app_one in Hc'. rewrite EL.
    apply in_app_or in Hc'. destruct Hc' as [Q|Q]; [exists c'; split; [apply in_or_app; left; exact Q | apply same_mem_refl]|].
    apply in_app_or in Q. destruct Q as [Q|[Q|[]]].
  - exists c'. split; [apply in_or_app; right; apply in_or_app; left; exact Q | apply same_mem_refl].
  - subst c'. exists b. split; [apply in_or_app; right; apply in_or_app; right; left; reflexivity|]. intros l. symmetry. apply Hm.
Qed.

(* ---------------------------------------------------------------- learning *)
Lemma learn_MI : forall m s ci lc bt lbd, BI s -> MI m s -> conflict_ok s ci -> analyze s ci = Some (lc, bt, lbd) ->
  let s1 := unassign_to bt s in
  let cidx := n_clauses s1 in
  let s2 := attach lc cidx (append_learned lc lbd s1) in
  let s3 := match lc with l0 :: _ => assign_lit l0 (Some cidx) s2 | [] => s2 end in
  MI m s3.
Proof.
  intros m s ci lc bt lbd H HM (Hci & Hfalse & Hlev) E s1 cidx s2 s3.
  destruct (BI_analyze_hyps s H) as (HT & Hnz & HR & HD).
  destruct (analyze_some _ _ _ _ _ E) as (Hc1 & Elc & _).
  pose proof (analyze_entailed s ci lc bt lbd HT Hnz HR HD (get_clause_in_db s ci Hci) Hfalse E) as Hent.
  assert (clause_true m lc = true) as Hmlc by (apply Hent; exact (proj1 HM)).
  destruct (analyze_lits_spec s ci HT Hnz HR HD Hc1 (get_clause_in_db s ci Hci) Hfalse) as [_ Hshape].
  destruct (Hshape Hlev) as (u & ll' & Ell & Hu & Hlu & Hll). rewrite <- Elc in Ell.
  destruct (analyze_bt s ci lc bt lbd u ll' HT E Ell Hu Hlu Hll) as [Hbt Hlow].
  assert (val_of s u <> None) as Hua by (apply (ti_assigned s HT); exact Hu).
  assert (u <> 0) as Hu0 by (intros Q; rewrite Q in Hua; apply Hua; exact (bi_v0 s H)).
  assert (BI s1) as H1 by (apply BI_unassign_to; exact H).
  assert (nv s1 = nv s) as Hn1 by apply unassign_to_nvals.
  assert (cur_level s1 = bt) as Hc by (apply cur_level_unassign_to; lia).
  assert (clause_in (nv s1) lc) as Hin.
  { rewrite Hn1, Ell. constructor; [apply false_lit_of_in; apply val_in_range; exact Hua|].
    apply Forall_forall. intros l Hl. destruct (Hll l Hl) as (_ & Hf & _). apply val_in_range. eapply lit_value_assigned. exact Hf. }
  assert (forall l, In l lc -> l <> 0%Z) as Hnz'.
  { rewrite Ell. intros l [Q|Q]; [subst l; apply false_lit_of_nonzero; exact Hu0 | exact (proj1 (Hll l Q))]. }
  assert (BI s2) as H2 by (apply BI_append_attach; assumption).
  assert (asg_eq s1 s2) as EA by (unfold s2; eapply asg_eq_trans; [apply append_learned_asg | apply attach_asg]).
  assert (MI m s2) as HM2.
  { unfold s2. apply MI_attach. apply MI_append; [exact Hmlc|]. apply MI_unassign_to; assumption. }
  assert (val_of s2 u = None) as Hun.
  { rewrite (asg_eq_val_of _ _ _ EA). apply (proj2 (unassign_to_stays_or_goes s bt u HT Hu Hbt)). lia. }
  assert (In lc (db s2)) as Hlcdb.
  { unfold s2. rewrite db_attach. unfold db, append_learned. simpl. apply in_or_app. right. apply in_or_app. right. left. reflexivity. }
  unfold s3. rewrite Ell. apply MI_assign_lit; auto.
  - exact (proj1 (bi_ti s2 H2)).
  - rewrite lvar_false_lit_of. exact Hun.
  - rewrite lvar_false_lit_of. destruct EA as (Q & _). rewrite Q. fold (nv s1). rewrite Hn1. apply val_in_range. exact Hua.
  - apply false_lit_of_nonzero. exact Hu0.
  - intros Hc0. apply (MI_unit_forces m s2 lc (false_lit_of s u) H2 HM2 Hc0 Hlcdb); [rewrite Ell; left; reflexivity|].
    rewrite Ell. intros l [Q|Q]; [left; symmetry; exact Q|]. right.
    destruct (Hll l Q) as (_ & Hf & _). rewrite (asg_eq_lit_value _ _ _ EA).
    assert (In (lvar l) (s_trail s)) as Hlt by (apply (ti_assigned s HT); eapply lit_value_assigned; exact Hf).
    destruct (proj1 (unassign_to_stays_or_goes s bt (lvar l) HT Hlt Hbt) (Hlow l Q)) as [_ Qv].
    unfold lit_value in *. unfold s1. rewrite Qv. exact Hf.
Qed.

(* ---------------------------------------------------------------- recording a model *)
Lemma asg_of_solution : forall s n v, 1 <= v <= n -> val_of s v <> None ->
  asg_of (solution_of s n) (zvar v) = match val_of s v with Some true => true | _ => false end.
Proof.
  intros s n v Hv Ha. unfold asg_of. destruct (mem (zvar v) (solution_of s n)) eqn:E.
  - apply mem_In in E. apply In_solution_pos in E. destruct E as [_ E]. rewrite E. reflexivity.
  - destruct (val_of s v) as [[|]|] eqn:EV; [|reflexivity|congruence]. exfalso.
    assert (In (zvar v) (solution_of s n)) as Q by (apply In_solution_pos; auto). apply mem_In in Q. congruence.
Qed.

(* m either coincides with the model being recorded or satisfies its blocking clause *)
Lemma same_or_blocked : forall m s n, all_assigned s n = true ->
  same_on n m (solution_of s n) \/ clause_true m (blocking_of s n) = true.
Proof.
  intros m s n Hall.
  destruct (forallb (fun v => Bool.eqb (m (zvar v)) (asg_of (solution_of s n) (zvar v))) (seq 1 n)) eqn:E.
  - left. intros v Hv. rewrite forallb_forall in E. apply eqb_prop. apply E. apply in_seq. lia.
  - right. assert (exists v, In v (seq 1 n) /\ Bool.eqb (m (zvar v)) (asg_of (solution_of s n) (zvar v)) = false) as [v [Hv Hd]].
    { clear Hall. induction (seq 1 n) as [|x l IH]; simpl in E; [discriminate|]. apply andb_false_iff in E. destruct E as [E|E].
      - exists x. split; [left; reflexivity | exact E].
      - destruct (IH E) as [v [Q1 Q2]]. exists v. split; [right; exact Q1 | exact Q2]. }
    pose proof Hv as Hv'. apply in_seq in Hv'.
    assert (val_of s v <> None) as Ha by (apply (all_assigned_val s n); [exact Hall | lia]).
    rewrite asg_of_solution in Hd by (auto; lia).
    apply existsb_exists. unfold blocking_of.
    destruct (val_of s v) as [[|]|] eqn:EV; [| |congruence].
    + exists (- zvar v)%Z. split; [apply in_flat_map; exists v; split; [exact Hv | rewrite EV; left; reflexivity]|].
      unfold lit_true. destruct (Z.ltb_spec 0 (- zvar v)) as [L|L]; [unfold zvar in L; lia|]. rewrite Z.opp_involutive.
      destruct (m (zvar v)); [discriminate | reflexivity].
    + exists (zvar v). split; [apply in_flat_map; exists v; split; [exact Hv | rewrite EV; left; reflexivity]|].
      unfold lit_true. destruct (Z.ltb_spec 0 (zvar v)) as [L|L]; [|unfold zvar in L; lia].
      destruct (m (zvar v)); [reflexivity | discriminate].
Qed.

Section BlockM.
Variable m : asg.
Variable s : st.
Variable n : nat.
Hypothesis HB : BI s.
Hypothesis Hnv : nv s = S n.
Hypothesis HM : MI m s.
Hypothesis Hblk : clause_true m (blocking_of s n) = true.

Let blocking := blocking_of s n.
Let cidx := n_clauses s.
Let s0 := append_learned blocking 0 s.
Let s1 := unassign_to 0 s0.
Let sorted := sort_blocking s1 blocking.
Let s2 := set_last_learned s1 sorted.

Lemma bm_sorted_mem : same_mem sorted blocking.
Proof.
  intros l. unfold sorted, sort_blocking. rewrite in_app_iff, !filter_In.
  destruct (is_false (lit_value s1 l)); simpl; intuition congruence.
Qed.

Lemma bm_s2 : MI m s2.
Proof.
  unfold s2. apply (MI_set_last m s1 sorted blocking (s_learned s)); [exact (blk_learned1 s n HB Hnv) | exact bm_sorted_mem|].
  unfold s1. apply MI_unassign_to; [exact (proj1 (bi_ti _ (blk_s0 s n HB Hnv)))|]. unfold s0. apply MI_append; assumption.
Qed.

Lemma bm_G2 : BI s2 /\ cur_level s2 = 0 /\ nv s2 = nv s. Proof. exact (blk_s2 s n HB Hnv). Qed.
Lemma bm_get2 : forall r, get_clause s2 r = if r =? cidx then sorted else get_clause s1 r. Proof. exact (blk_get2 s n HB Hnv). Qed.
Lemma bm_n2 : n_clauses s2 = S cidx. Proof. exact (proj1 (blk_nclauses2 s n HB Hnv)). Qed.
Lemma bm_open : blk_open s n = length (filter (fun l => negb (is_false (lit_value s2 l))) sorted). Proof. reflexivity. Qed.

(* every literal of the blocking clause false at level 0: impossible under m *)
Lemma bm_open0 : blk_open s n = 0 -> False.
Proof.
  intros Ho. destruct bm_G2 as (H2 & Hc2 & _). apply (MI_conflict0 m s2 cidx H2 bm_s2 Hc2); [rewrite bm_n2; lia|].
  rewrite bm_get2, Nat.eqb_refl. intros l Hl. rewrite bm_open in Ho.
  destruct (is_false (lit_value s2 l)) eqn:E; [destruct (lit_value s2 l) as [[|]|]; simpl in E; congruence|]. exfalso.
  assert (In l (filter (fun l => negb (is_false (lit_value s2 l))) sorted)) as Q by (apply filter_In; split; [exact Hl | rewrite E; reflexivity]).
  destruct (filter (fun l => negb (is_false (lit_value s2 l))) sorted); [contradiction | discriminate].
Qed.

Lemma bm_s3 : blk_open s n <> 0 -> MI m (blk_s3 s n).
Proof.
  intros Ho. assert (blk_s3 s n = if blk_open s n =? 1 then assign_lit (nth 0 sorted 0%Z) (Some cidx) s2 else s2) as E3 by reflexivity.
  rewrite E3. destruct (Nat.eqb_spec (blk_open s n) 1) as [Ho1|Ho1]; [|exact bm_s2].
  destruct bm_G2 as (H2 & Hc2 & Hn2). destruct (blk_first_open s n Ho) as [Hx1 Hx2]. fold blocking s0 s1 sorted s2 in Hx1, Hx2.
  set (x := nth 0 sorted 0%Z) in *.
  destruct (block_lits s n x Hx1) as (Hx0 & Hxr & _).
  assert (In x sorted) as Hxs by (apply bm_sorted_mem; exact Hx1).
  assert (forall l, In l sorted -> l = x \/ lit_value s2 l = Some false) as Hothers.
  { intros l Hl. destruct (is_false (lit_value s2 l)) eqn:E; [right; destruct (lit_value s2 l) as [[|]|]; simpl in E; congruence|]. left.
    rewrite bm_open in Ho1.
    assert (In l (filter (fun l => negb (is_false (lit_value s2 l))) sorted)) as Q1 by (apply filter_In; split; [exact Hl | rewrite E; reflexivity]).
    assert (In x (filter (fun l => negb (is_false (lit_value s2 l))) sorted)) as Q2 by (apply filter_In; split; [exact Hxs | rewrite Hx2; reflexivity]).
    destruct (filter (fun l => negb (is_false (lit_value s2 l))) sorted) as [|y [|z r]]; simpl in Ho1; try lia.
    destruct Q1 as [Q1|[]]. destruct Q2 as [Q2|[]]. congruence. }
  assert (val_of s2 (lvar x) = None) as Hvx by (apply (blk_not_true s n HB Hnv); assumption).
  assert (lvar x < length (s_vals s2)) as Hrx by (fold (nv s2); rewrite Hn2, Hnv; lia).
  apply (MI_assign_lit m s2 x (Some cidx) (proj1 (bi_ti s2 H2)) Hvx Hrx Hx0); [|exact bm_s2].
  intros _. apply (MI_unit_forces m s2 sorted x H2 bm_s2 Hc2); auto.
  assert (get_clause s2 cidx = sorted) as Q by (rewrite bm_get2, Nat.eqb_refl; reflexivity).
  rewrite <- Q. apply get_clause_in_db. rewrite bm_n2. lia.
Qed.

Lemma bm_s4 : blk_open s n <> 0 -> MI m (blk_s4 s n).
Proof.
  intros Ho. assert (blk_s4 s n = if 2 <=? length sorted then add_watch (nth 1 sorted 0%Z) cidx (add_watch (nth 0 sorted 0%Z) cidx (blk_s3 s n)) else blk_s3 s n) as E4 by reflexivity.
  rewrite E4. destruct (2 <=? length sorted); [apply MI_add_watch, MI_add_watch|]; apply bm_s3; exact Ho.
Qed.

End BlockM.

(* ---------------------------------------------------------------- the loop invariant *)
Definition MIok (m : asg) (L : loop) : Prop :=
  MI m (l_st L) /\ l_conflict L <> CAssum /\ (forall ci, l_conflict L = CAt ci -> cur_level (l_st L) <> 0).
Definition LM (m : asg) (P : params) (L : loop) : Prop := Found m (p_nvars P) (l_sols L) \/ MIok m L.

Lemma MI_assign_high : forall m s v b r, trail_inv s -> v < length (s_vals s) -> cur_level s <> 0 -> MI m s -> MI m (assign v b r s).
Proof.
  intros m s v b r HT Hr Hc [H1 H2]. split; [exact H1|]. intros l Hnz Hf H0.
  rewrite level_of_assign in H0 by (rewrite (ti_len_levels s HT); exact Hr).
  destruct (Nat.eqb_spec v (lvar l)) as [E|E]; [contradiction|].
  rewrite lit_value_assign_other in Hf by (intros C; apply E; symmetry; exact C). apply H2; assumption.
Qed.

Lemma MIok_after_propagate : forall m fuel A s s' c dl csr li nx dc rs sols evs orc,
  assum_ok (nv s) A -> agrees m A -> BI s -> MI m s -> propagate fuel A s = Some (s', c) ->
  MIok m (mkLoop s' c dl csr li nx dc rs sols evs orc).
Proof.
  intros m fuel A s s' c dl csr li nx dc rs sols evs orc HA Hag H HM E.
  destruct (propagate_MI m fuel A s s' c HA Hag H HM E) as (Q1 & Q2 & Q3). unfold MIok. simpl.
  split; [exact Q1|]. split; [exact Q2|]. intros ci Ec Hc0. exact (Q3 ci Ec Hc0).
Qed.

Lemma analyze_not_none : forall s ci, BI s -> conflict_ok s ci -> cur_level s <> 0 -> analyze s ci <> None.
Proof.
  intros s ci H (Hci & Hfalse & Hlev) Hc. destruct (BI_analyze_hyps s H) as (HT & Hnz & HR & HD).
  destruct (analyze_lits_spec s ci HT Hnz HR HD ltac:(lia) (get_clause_in_db s ci Hci) Hfalse) as [_ Hshape].
  destruct (Hshape Hlev) as (u & ll' & Ell & _). unfold analyze. destruct (Nat.eqb_spec (cur_level s) 0); [contradiction|].
  fold (analyze_lits s ci). rewrite Ell. discriminate.
Qed.

Theorem main_step_LM : forall m fuel P L L', LI P L -> agrees m (p_assum P) -> LM m P L -> main_step fuel P L = Cont L' -> LM m P L'.
Proof.
  intros m fuel P L L' HL Hag [HF|(HM & Hna & Hnl)] E.
  - (* already recorded *)
    left. destruct (main_step_esteps_sols fuel P L L' HL E) as [[Es _]|(_ & _ & Es & _)]; rewrite Es; [exact HF|].
    eapply Found_mono; [|exact HF]. intros x Hx. right. exact Hx.
  - destruct HL as [HB Hnv HA Hdec Hconf]. unfold main_step in E.
    assert (assum_ok (nv (l_st L)) (p_assum P)) as HA0 by (rewrite Hnv; exact HA).
    pose proof (proj1 (bi_ti _ HB)) as HT.
    destruct (l_conflict L) as [| |ci] eqn:EC.
    + destruct (all_assigned (l_st L) (p_nvars P)) eqn:EAll.
      * match type of E with (if ?c then _ else _) = _ => destruct c end; [discriminate|].
        fold (blk_open (l_st L) (p_nvars P)) in E.
        destruct (same_or_blocked m (l_st L) (p_nvars P) EAll) as [Hsame|Hblk].
        -- (* m is the model just recorded *)
           left. destruct (Nat.eqb_spec (blk_open (l_st L) (p_nvars P)) 0) as [Ho|Ho].
           ++ injection E as E. subst L'. simpl. exists (solution_of (l_st L) (p_nvars P)). split; [left; reflexivity | exact Hsame].
           ++ unfold with_prop in E. match type of E with match ?p with _ => _ end = _ => destruct p as [[s5 c]|] end; [|discriminate].
              injection E as E. subst L'. simpl. exists (solution_of (l_st L) (p_nvars P)). split; [left; reflexivity | exact Hsame].
        -- right. destruct (Nat.eqb_spec (blk_open (l_st L) (p_nvars P)) 0) as [Ho|Ho].
           ++ exfalso. exact (bm_open0 m (l_st L) (p_nvars P) HB Hnv HM Hblk Ho).
           ++ unfold with_prop in E.
              pose proof (blk_s4_BI (l_st L) (p_nvars P) HB Hnv Ho) as (H4 & Hc4 & Hn4).
              pose proof (bm_s4 m (l_st L) (p_nvars P) HB Hnv HM Hblk Ho) as M4.
              unfold blk_s4, blk_s3 in H4, Hn4, M4.
              match type of E with match propagate ?f ?A ?x with _ => _ end = _ => destruct (propagate f A x) as [[s5 c]|] eqn:EP end; [|discriminate].
              injection E as E. subst L'. eapply MIok_after_propagate; [| exact Hag | exact H4 | exact M4 | exact EP]. rewrite Hn4. exact HA0.
      * right. destruct (l_oracle L) as [|v orc]; [discriminate|].
        match type of E with (if ?c then _ else _) = _ => destruct c eqn:EV end; [|discriminate].
        apply andb_prop in EV. destruct EV as [EV EV3]. apply andb_prop in EV. destruct EV as [EV1 EV2].
        apply Nat.leb_le in EV1. apply Nat.leb_le in EV2.
        assert (val_of (l_st L) v = None) as Hvn by (destruct (val_of (l_st L) v); [discriminate | reflexivity]).
        assert (v < nv (l_st L)) as Hvr by (rewrite Hnv; lia).
        destruct (decide_BI (l_st L) v (nth v (s_phase (l_st L)) true) HB Hconf EV1 Hvr Hvn) as (H1 & Hc1 & Hn1).
        assert (MI m (assign v (nth v (s_phase (l_st L)) true) None (push_lim (l_st L)))) as M1.
        { apply MI_assign_high; [exact (proj1 (bi_ti _ (BI_push_lim _ HB Hconf))) | exact Hvr | | apply MI_push_lim; exact HM].
          unfold cur_level. simpl. rewrite app_length. simpl. lia. }
        unfold with_prop in E.
        match type of E with match propagate ?f ?A ?x with _ => _ end = _ => destruct (propagate f A x) as [[s2 c]|] eqn:EP end; [|discriminate].
        match type of E with (if ?c then _ else _) = _ => destruct c end; [discriminate|].
        injection E as E. subst L'. eapply MIok_after_propagate; [| exact Hag | exact H1 | exact M1 | exact EP]. rewrite Hn1. exact HA0.
    + discriminate.
    + right. destruct (Nat.eqb_spec (l_dec_level L) 0) as [Hd0|Hd0]; [discriminate|].
      destruct (analyze (l_st L) ci) as [[[lc bt] lbd]|] eqn:EA; [|discriminate].
      destruct Hconf as [Hconf|Hconf]; [lia|].
      pose proof (learn_BI (l_st L) ci lc bt lbd HB Hconf EA) as (H3 & Hc3 & Hn3). cbv zeta in H3, Hc3, Hn3.
      pose proof (learn_MI m (l_st L) ci lc bt lbd HB HM Hconf EA) as M3. cbv zeta in M3.
      match type of E with (if ?c then _ else _) = _ => destruct c end.
      * match type of E with (if ?c then _ else _) = _ => destruct c end; [discriminate|].
        destruct (luby_val (l_luby_idx L + 1)) as [lv|]; [|discriminate].
        unfold with_prop in E.
        match type of E with match propagate ?f ?A (reduce_db (unassign_to 0 ?x)) with _ => _ end = _ =>
          destruct (propagate f A (reduce_db (unassign_to 0 x))) as [[s5 c]|] eqn:EP; [|discriminate];
          assert (BI (unassign_to 0 x)) as H4 by (apply BI_unassign_to; exact H3);
          assert (cur_level (unassign_to 0 x) = 0) as Hc4 by (apply cur_level_unassign_to; lia);
          assert (nv (unassign_to 0 x) = nv (l_st L)) as Hn4 by (unfold nv; rewrite unassign_to_nvals; exact Hn3);
          assert (MI m (reduce_db (unassign_to 0 x))) as M4 by (apply MI_reduce_db; apply MI_unassign_to; [exact (proj1 (bi_ti _ H3)) | exact M3])
        end.
        injection E as E. subst L'. eapply MIok_after_propagate; [| exact Hag | apply reduce_db_BI; [exact H4 | exact Hc4] | exact M4 | exact EP].
        rewrite reduce_db_nv, Hn4. exact HA0.
      * unfold with_prop in E.
        match type of E with match propagate ?f ?A ?x with _ => _ end = _ => destruct (propagate f A x) as [[s5 c]|] eqn:EP end; [|discriminate].
        injection E as E. subst L'. eapply MIok_after_propagate; [| exact Hag | exact H3 | exact M3 | exact EP]. rewrite Hn3. exact HA0.
Qed.

(* ---------------------------------------------------------------- verdicts *)
(* what the returned Result says about m: INFEASIBLE is impossible; an enumeration that stopped below solution_limit contains m *)
Definition RV (m : asg) (n : nat) (limit : Z) (r : dres) : Prop :=
  (d_status r = INFEASIBLE -> False)
  /\ (d_status r = OPTIMAL -> forall ms, d_solutions r = Some ms -> (Z.of_nat (length ms) < limit)%Z -> Found m n ms)
  /\ (d_status r = OPTIMAL -> d_solution r <> None).

Lemma finish_exhausted_RV : forall m n limit L evs r, Found m n (l_sols L) -> finish_exhausted L = Done evs r -> RV m n limit r.
Proof.
  intros m n limit L evs r [sol [Hin Hs]] E. unfold finish_exhausted, finish in E.
  destruct (l_sols L) as [|x l] eqn:El; [contradiction|]. rewrite <- El in *.
  destruct (rev (l_sols L)) as [|first rest] eqn:Er.
  - exfalso. assert (In sol (rev (l_sols L))) as Q by (apply in_rev in Hin; exact Hin). rewrite Er in Q. contradiction.
  - injection E as E1 E2. subst r. split; simpl; [discriminate|]. split; [|discriminate]. intros _ ms Q _. injection Q as Q. subst ms.
    exists sol. split; [rewrite <- Er; apply in_rev in Hin; exact Hin | exact Hs].
Qed.

Lemma finish_maxiter_RV : forall m n limit L evs r, finish L MAX_ITER = Done evs r -> RV m n limit r.
Proof.
  intros m n limit L evs r E. unfold finish in E. destruct (rev (l_sols L)); injection E as E1 E2; subst r; split; simpl; [discriminate | split; discriminate | discriminate | split; discriminate].
Qed.

Theorem main_step_stop_RV : forall m fuel P L evs r, LI P L -> LM m P L -> main_step fuel P L = Stop (Done evs r) ->
  RV m (p_nvars P) (p_limit P) r.
Proof.
  intros m fuel P L evs r HL HLM E. destruct HL as [HB Hnv HA Hdec Hconf]. unfold main_step in E.
  destruct (l_conflict L) as [| |ci] eqn:EC.
  - destruct (all_assigned (l_st L) (p_nvars P)) eqn:EAll.
    + destruct (Z.leb_spec (p_limit P) (Z.of_nat (length (solution_of (l_st L) (p_nvars P) :: l_sols L)))) as [Hlim|Hlim].
      * injection E as E1 E2. subst r. split; cbn [d_status d_solutions d_solution]; [discriminate|]. split; [|discriminate]. intros _ ms Q Hlt.
        destruct (p_limit P =? 1)%Z; [discriminate|]. injection Q as Q. subst ms.
        simpl in Hlt, Hlim. rewrite ?app_length, ?rev_length in Hlt. simpl in Hlt. lia.
      * match type of E with (if ?c then _ else _) = _ => destruct c end; [discriminate|].
        unfold with_prop in E. match type of E with match ?p with _ => _ end = _ => destruct p as [[s5 c]|] end; discriminate.
    + destruct (l_oracle L) as [|v orc]; [discriminate|].
      match type of E with (if ?c then _ else _) = _ => destruct c end; [|discriminate].
      unfold with_prop in E. match type of E with match ?p with _ => _ end = _ => destruct p as [[s2 c]|] end; [|discriminate].
      match type of E with (if ?c then _ else _) = _ => destruct c end; [|discriminate].
      injection E as E. eapply finish_maxiter_RV; eauto.
  - injection E as E. destruct HLM as [HF|(_ & Hna & _)]; [eapply finish_exhausted_RV; eauto | congruence].
  - destruct (Nat.eqb_spec (l_dec_level L) 0) as [Hd0|Hd0].
    + injection E as E. destruct HLM as [HF|(_ & _ & Hnl)]; [eapply finish_exhausted_RV; eauto|].
      exfalso. apply (Hnl ci EC). rewrite <- Hdec. exact Hd0.
    + destruct (analyze (l_st L) ci) as [[[lc bt] lbd]|] eqn:EA.
      * match type of E with (if ?c then _ else _) = _ => destruct c end.
        -- match type of E with (if ?c then _ else _) = _ => destruct c end.
           ++ injection E as E. eapply finish_maxiter_RV; eauto.
           ++ destruct (luby_val (l_luby_idx L + 1)) as [lv|]; [|discriminate].
              unfold with_prop in E. match type of E with match ?p with _ => _ end = _ => destruct p as [[s5 c]|] end; discriminate.
        -- unfold with_prop in E. match type of E with match ?p with _ => _ end = _ => destruct p as [[s5 c]|] end; discriminate.
      * injection E as E. destruct HLM as [HF|(_ & _ & Hnl)]; [eapply finish_exhausted_RV; eauto|].
        exfalso. destruct Hconf as [Hconf|Hconf]; [lia|]. apply (analyze_not_none (l_st L) ci HB Hconf); [lia | exact EA].
Qed.

Theorem main_loop_RV : forall m inner P fuel L evs r, LI P L -> agrees m (p_assum P) -> LM m P L ->
  main_loop fuel inner P L = Done evs r -> RV m (p_nvars P) (p_limit P) r.
Proof.
  intros m inner P. induction fuel as [|f IH]; intros L evs r H1 Hag H2 E; simpl in E; [discriminate|].
  destruct (main_step inner P L) as [L'|o] eqn:ES.
  - apply (IH L' evs r); [eapply main_step_LI; eauto | exact Hag | eapply main_step_LM; eauto | exact E].
  - subst o. eapply main_step_stop_RV; eauto.
Qed.
