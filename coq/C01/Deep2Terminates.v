(* C02 on the faithful model - termination: with fuel >= term_fuel (explicit in n_vars, number of clauses, max_conflicts,
   solution_limit) solve_sat never returns the out-of-fuel error (nor the Luby one): every call comes back with a Result or
   with an oracle error. *)
From Coq Require Import List ZArith Bool Arith Lia Permutation.
Import ListNotations.
From SV Require Import C01.SatSpec C01.Machine C01.Luby C01.LubyProofs C01.DeepCdcl C01.DeepBase C01.DeepTrail C01.DeepTrailProp
  C01.DeepAnalyze C01.DeepWatch C01.DeepReason C01.DeepReasonProp C01.DeepRunOps C01.DeepReduce C01.DeepRun C01.DeepInit
  C01.DeepJRun C01.DeepSteps C01.Deep2Frame C01.Deep2Total C01.Deep2Rank.
Close Scope Z_scope.
Open Scope nat_scope.

Lemma luby_val_some : forall i, (1 <= i)%Z -> luby_val i <> None.
Proof. intros i Hi. unfold luby_val. destruct (luby_spec i Hi) as [v [Q _]]. rewrite Q. discriminate. Qed.

(* ---------------------------------------------------------------- rank *)
Lemma mu_d_le : forall P L, LI P L -> LT L -> mu_d P L <= p_nvars P.
Proof.
  intros P L [HB Hnv _ _ _] [HLV _ _]. unfold mu_d. pose proof (trail_len_le _ _ HB Hnv). pose proof (LV_bound _ HLV).
  destruct (l_conflict L); [apply unassigned_le | lia | lia].
Qed.

Lemma rank_decreases : forall P L L', LI P L' -> LT L' -> lexlt P L' L -> rank P L' < rank P L.
Proof.
  intros P L L' H1 H2 Hlex. unfold rank. apply rank4_lt; [unfold mu_b; lia | unfold mu_f; destruct (l_conflict L'); lia | apply mu_d_le; assumption | exact Hlex].
Qed.

Definition rank_bound (P : params) : nat := ((Limof P * S (Mof P) + Mof P) * 2 + 1) * S (p_nvars P) + p_nvars P.

Lemma rank_le_bound : forall P L, LI P L -> LT L -> rank P L <= rank_bound P.
Proof.
  intros P L H1 H2. unfold rank, rank_bound. pose proof (mu_d_le P L H1 H2).
  assert (mu_a P L <= Limof P) by (unfold mu_a; lia). assert (mu_b P L <= Mof P) by (unfold mu_b; lia).
  assert (mu_f L <= 1) by (unfold mu_f; destruct (l_conflict L); lia). unfold rank4. nia.
Qed.

(* ---------------------------------------------------------------- one iteration never runs out of fuel *)
Definition fuel_err (e : derr) : Prop := e = EFuel \/ e = ELuby.

Theorem main_step_no_fuel : forall inner P L e evs, LI P L -> LT L ->
  2 * S (n_clauses (l_st L)) < inner -> p_nvars P < inner ->
  main_step inner P L = Stop (Err e evs) -> ~ fuel_err e.
Proof.
  intros inner P L e evs HL [HLV Hcf Hlu] Hin Hn E. destruct HL as [HB Hnv HA Hdec Hconf]. unfold main_step in E.
  assert (assum_ok (nv (l_st L)) (p_assum P)) as HA0 by (rewrite Hnv; exact HA).
  assert (forall x, BI x -> nv x = nv (l_st L) -> n_clauses x <= S (n_clauses (l_st L)) -> propagate inner (p_assum P) x <> None) as Htot.
  { intros x Hx Hnx Hcx. destruct (propagate_total (p_nvars P) inner (p_assum P) x Hx) as [res Q]; [rewrite Hnx; exact HA0 | congruence | lia | exact Hn|].
    rewrite Q. discriminate. }
  destruct (l_conflict L) as [| |ci] eqn:EC.
  - destruct (all_assigned (l_st L) (p_nvars P)) eqn:EAll.
    + match type of E with (if ?c then _ else _) = _ => destruct c end; [discriminate|].
      fold (blk_open (l_st L) (p_nvars P)) in E.
      destruct (Nat.eqb_spec (blk_open (l_st L) (p_nvars P)) 0) as [Ho|Ho]; [discriminate|].
      unfold with_prop in E. destruct (blk_s4_BI (l_st L) (p_nvars P) HB Hnv Ho) as (H4 & Hc4 & Hn4).
      pose proof (bj_n4 (l_st L) (p_nvars P) HB Hnv Ho) as N4. unfold blk_s4, blk_s3 in H4, Hn4, N4.
      match type of E with match propagate ?f ?A ?x with _ => _ end = _ => destruct (propagate f A x) as [[s5 c]|] eqn:EP end; [discriminate|].
      exfalso. eapply Htot; [exact H4 | exact Hn4 | rewrite N4; lia | exact EP].
    + destruct (l_oracle L) as [|v orc]; [injection E as E1 E2; subst e; intros [Q|Q]; discriminate|].
      match type of E with (if ?c then _ else _) = _ => destruct c eqn:EV end; [|injection E as E1 E2; subst e; intros [Q|Q]; discriminate].
      apply andb_prop in EV. destruct EV as [EV EV3]. apply andb_prop in EV. destruct EV as [EV1 EV2].
      apply Nat.leb_le in EV1. apply Nat.leb_le in EV2.
      assert (val_of (l_st L) v = None) as Hvn by (destruct (val_of (l_st L) v); [discriminate | reflexivity]).
      assert (v < nv (l_st L)) as Hvr by (rewrite Hnv; lia).
      destruct (decide_BI (l_st L) v (nth v (s_phase (l_st L)) true) HB Hconf EV1 Hvr Hvn) as (H1 & Hc1 & Hn1).
      unfold with_prop in E.
      match type of E with match propagate ?f ?A ?x with _ => _ end = _ => destruct (propagate f A x) as [[s2 c]|] eqn:EP end.
      * match type of E with (if ?c then _ else _) = _ => destruct c end; [|discriminate].
        unfold finish in E. destruct (rev _); discriminate.
      * exfalso. eapply Htot; [exact H1 | exact Hn1 | | exact EP]. apply Nat.le_succ_diag_r.
  - unfold finish_exhausted, finish in E. destruct (l_sols L); destruct (rev _); discriminate.
  - destruct (l_dec_level L =? 0) eqn:Ed; [unfold finish_exhausted, finish in E; destruct (l_sols L); destruct (rev _); discriminate|].
    apply Nat.eqb_neq in Ed.
    destruct (analyze (l_st L) ci) as [[[lc bt] lbd]|] eqn:EA; [|unfold finish_exhausted, finish in E; destruct (l_sols L); destruct (rev _); discriminate].
    destruct Hconf as [Hconf|Hconf]; [lia|].
    pose proof (learn_BI (l_st L) ci lc bt lbd HB Hconf EA) as (H3 & Hc3 & Hn3). cbv zeta in H3, Hc3, Hn3.
    pose proof (learn_facts (l_st L) ci lc bt lbd HB HLV Hconf EA) as (Hbt & LV3 & Cf3 & N3). cbv zeta in LV3, Cf3, N3.
    match type of E with (if ?c then _ else _) = _ => destruct c end.
    + match type of E with (if ?c then _ else _) = _ => destruct c end; [unfold finish in E; destruct (rev _); discriminate|].
      destruct (luby_val (l_luby_idx L + 1)) as [lv|] eqn:ELu; [|exfalso; apply (luby_val_some (l_luby_idx L + 1)); [lia | exact ELu]].
      unfold with_prop in E.
      match type of E with match propagate ?f ?A (reduce_db (unassign_to 0 ?x)) with _ => _ end = _ =>
        destruct (propagate f A (reduce_db (unassign_to 0 x))) as [[s5 c]|] eqn:EP; [discriminate|];
        assert (BI (unassign_to 0 x)) as H4 by (apply BI_unassign_to; exact H3);
        assert (cur_level (unassign_to 0 x) = 0) as Hc4 by (apply cur_level_unassign_to; lia);
        assert (nv (unassign_to 0 x) = nv (l_st L)) as Hn4 by (unfold nv; rewrite unassign_to_nvals; exact Hn3);
        assert (n_clauses (reduce_db (unassign_to 0 x)) <= S (n_clauses (l_st L))) as N4
          by (eapply Nat.le_trans; [apply n_clauses_reduce_db|]; rewrite (db_eq_n_clauses _ _ (unassign_to_db_eq 0 x)), N3; lia)
      end.
      exfalso. eapply Htot; [apply reduce_db_BI; [exact H4 | exact Hc4] | rewrite reduce_db_nv; exact Hn4 | exact N4 | exact EP].
    + unfold with_prop in E.
      match type of E with match propagate ?f ?A ?x with _ => _ end = _ => destruct (propagate f A x) as [[s5 c]|] eqn:EP end; [discriminate|].
      exfalso. eapply Htot; [exact H3 | exact Hn3 | rewrite N3; lia | exact EP].
Qed.

(* ---------------------------------------------------------------- the main loop *)
Theorem main_loop_no_fuel : forall inner P k L e evs, LI P L -> LT L -> rank P L < k ->
  2 * (n_clauses (l_st L) + rank P L + 2) < inner -> p_nvars P < inner ->
  main_loop k inner P L = Err e evs -> ~ fuel_err e.
Proof.
  intros inner P. induction k as [|k IH]; intros L e evs H1 H2 Hr Hin Hn E; [lia|]. simpl in E.
  destruct (main_step inner P L) as [L'|o] eqn:ES.
  - destruct (main_step_lex inner P L L' H1 H2 ES) as (H2' & Hlex & Hncl). pose proof (main_step_LI inner P L L' H1 ES) as H1'.
    pose proof (rank_decreases P L L' H1' H2' Hlex) as Hrk.
    apply (IH L' e evs H1' H2'); [lia | lia | exact Hn | exact E].
  - subst o. apply (main_step_no_fuel inner P L e evs H1 H2); [lia | exact Hn | exact ES].
Qed.

(* ---------------------------------------------------------------- before the loop *)
Lemma assign_pures_confl : forall A pl s, s_confl (assign_pures A pl s) = s_confl s /\ n_clauses (assign_pures A pl s) = n_clauses s.
Proof.
  intros A pl. induction pl as [|[v b] pl IH]; intros s; simpl; [auto|].
  destruct (is_none (val_of s v) && negb (existsb (fun a => lvar a =? v) A)); [|apply IH]. destruct (IH (assign v b None s)) as [Q1 Q2]. auto.
Qed.

Lemma assign_units_confl : forall ul s s' r, assign_units ul s = (s', r) -> s_confl s' = s_confl s /\ n_clauses s' = n_clauses s.
Proof.
  induction ul as [|[l i] ul IH]; intros s s' r E; simpl in E.
  - injection E as E1 E2. subst. auto.
  - destruct (val_of s (lvar l)) as [b|].
    + destruct (Bool.eqb b (lpos l)); [eapply IH; eauto | injection E as E1 E2; subst; auto].
    + destruct (IH _ _ _ E) as [Q1 Q2]. auto.
Qed.

Definition init_term (cls : cnf) (mc limit : Z) (ir : init_res) : Prop :=
  match ir with
  | IDone (Err e _) => ~ fuel_err e
  | IDone (Done _ _) => True
  | ILoop P L0 => LT L0 /\ n_clauses (l_st L0) = length cls /\ p_nvars P = n_vars_of cls /\ p_max_conflicts P = mc /\ p_limit P = limit
  end.

Theorem init_loop_term : forall fuel cls A mc mr limit lf orc, valid_input cls A = true ->
  2 * length cls < fuel -> n_vars_of cls < fuel -> init_term cls mc limit (init_loop fuel cls A mc mr limit lf orc).
Proof.
  intros fuel cls A mc mr limit lf orc Hvalid Hf1 Hf2. destruct (valid_input_facts cls A Hvalid) as [Hcls HA].
  unfold init_loop. destruct cls as [|c0 cls0]; [exact Logic.I|]. set (cls := c0 :: cls0) in *. set (n := n_vars_of cls) in *.
  destruct (n =? 0); [exact Logic.I|]. destruct (existsb is_nilb cls); [exact Logic.I|].
  destruct (attach_orig cls 0 [] (init_state cls n)) as [s0 units] eqn:EO.
  pose proof (init_state_BI cls n Hcls) as HB0.
  assert (s0 = attach_all cls 0 (init_state cls n)) as Es0 by (rewrite <- DeepJRun.attach_orig_state with (u := []); rewrite EO; reflexivity).
  destruct (attach_orig_spec cls 0 [] (init_state cls n) s0 units HB0) as (H0 & EA0 & Eg0 & En0 & Hu0); auto.
  { unfold n_clauses, init_state. cbn [s_orig s_learned]. simpl. rewrite Nat.add_0_r. apply Nat.le_refl. }
  { intros k Hk. change (0 + k) with k. unfold get_clause, init_state. cbn [s_orig s_learned].
    destruct (Nat.ltb_spec k (length cls)) as [Q|Q]; [reflexivity | exfalso; apply (Nat.lt_irrefl k); eapply Nat.lt_le_trans; [exact Hk | exact Q]]. }
  { intros l cj _. unfold watch_list, init_state. cbn [s_wpos s_wneg]. destruct (lpos l); rewrite nth_repeat; reflexivity. }
  assert (lvl0 s0) as Lv0 by (unfold lvl0; rewrite (asg_eq_cur_level _ _ EA0); reflexivity).
  assert (nv s0 = S n) as N0 by (unfold nv; destruct EA0 as (Q & _); rewrite Q; unfold init_state; cbn [s_vals]; apply repeat_length).
  assert (s_confl s0 = 0%Z) as C0 by (rewrite Es0, confl_attach_all; reflexivity).
  assert (n_clauses s0 = length cls) as Nc0.
  { rewrite En0. unfold n_clauses, init_state. cbn [s_orig s_learned]. simpl. rewrite Nat.add_0_r. reflexivity. }
  set (s1 := if (limit <=? 1)%Z then assign_pures A (find_pure_literals cls n) s0 else s0) in *.
  assert (BI s1 /\ lvl0 s1 /\ nv s1 = S n /\ db_eq s0 s1) as (H1 & L1 & N1 & D1).
  { unfold s1. destruct (limit <=? 1)%Z; [|split; [exact H0 | split; [exact Lv0 | split; [exact N0 | apply db_eq_refl]]]].
    apply assign_pures_BI; auto. intros v b Hv. eapply find_pure_range; eauto. }
  assert (s_confl s1 = 0%Z /\ n_clauses s1 = length cls) as [C1 Nc1].
  { unfold s1. destruct (limit <=? 1)%Z; [|auto]. destruct (assign_pures_confl A (find_pure_literals cls n) s0) as [Q1 Q2]. split; congruence. }
  destruct (assign_units units s1) as [s2 [|]] eqn:EU; [exact Logic.I|].
  assert (forall l i, In (l, i) units -> get_clause s1 i = [l]) as Hun1.
  { intros l i Hl. rewrite (db_eq_get_clause _ _ _ D1), Eg0. destruct (Hu0 l i Hl) as [[]|Q]. exact Q. }
  destruct (assign_units_BI units s1 s2 n H1 L1 N1 Hun1 EU) as (H2 & L2 & N2).
  destruct (assign_units_confl _ _ _ _ EU) as [C2 Nc2].
  assert (assum_ok (nv s2) A) as HA2 by (rewrite N2; exact HA).
  destruct (propagate_total n fuel A s2 H2 HA2 N2) as [[s3 c] EP]; [rewrite Nc2, Nc1; exact Hf1 | exact Hf2|].
  rewrite EP.
  assert (cur_level s3 = 0) as L3 by (unfold cur_level; rewrite (propagate_lim _ _ _ _ _ EP); exact L2).
  destruct (propagate_frame _ _ _ _ _ EP) as (EX & _ & Ec).
  assert (LT (mkLoop s3 c 0 0 1 (lf * 1) 0 0 [] [] orc) -> True) by auto.
  destruct (luby_val 1) as [lv|] eqn:ELu; [|exfalso; apply (luby_val_some 1); [lia | exact ELu]].
  destruct c as [| |ci]; try exact Logic.I; simpl;
    (split; [constructor; cbn [l_st l_luby_idx]; [apply LV_zero; exact L3 | rewrite Ec, C2, C1; lia | lia] |
      split; [rewrite (ex_n _ _ EX), Nc2, Nc1; reflexivity | auto]]).
Qed.

(* ---------------------------------------------------------------- the explicit bound and the theorem *)
Definition term_rank (n : nat) (mc limit : Z) : nat :=
  ((Z.to_nat limit * S (Z.to_nat mc) + Z.to_nat mc) * 2 + 1) * S n + n.

(* fuel that always suffices: F(n_vars, n_clauses, max_conflicts, solution_limit) - max_restarts and luby_factor do not enter *)
Definition term_fuel (cls : cnf) (mc limit : Z) : nat :=
  2 * (length cls + term_rank (n_vars_of cls) mc limit + 3) + n_vars_of cls + 1.

Theorem solve_sat_terminates : forall fuel cls A mc mr limit lf orc e evs, valid_input cls A = true ->
  term_fuel cls mc limit <= fuel -> solve_sat fuel cls A mc mr limit lf orc = Err e evs -> ~ fuel_err e.
Proof.
  intros fuel cls A mc mr limit lf orc e evs Hv Hf E. unfold term_fuel in Hf. unfold solve_sat in E.
  pose proof (init_loop_term fuel cls A mc mr limit lf orc Hv ltac:(lia) ltac:(lia)) as HI.
  destruct (init_loop fuel cls A mc mr limit lf orc) as [o|P L0] eqn:EI.
  - subst o. exact HI.
  - destruct HI as (HT & Hn & En & Emc & Elim). pose proof (init_LI _ _ _ _ _ _ _ _ _ _ Hv EI) as HL.
    pose proof (rank_le_bound P L0 HL HT) as Hr.
    assert (rank_bound P = term_rank (n_vars_of cls) mc limit) as Eb by (unfold rank_bound, term_rank, Limof, Mof; rewrite En, Emc, Elim; reflexivity).
    apply (main_loop_no_fuel fuel P fuel L0 e evs HL HT); [lia | rewrite Hn; lia | rewrite En; lia | exact E].
Qed.

(* every call returns: a Result, or one of the two oracle errors (the decision list ran out / named an assigned variable) *)
Theorem solve_sat_returns : forall fuel cls A mc mr limit lf orc, valid_input cls A = true -> term_fuel cls mc limit <= fuel ->
  (exists evs r, solve_sat fuel cls A mc mr limit lf orc = Done evs r)
  \/ (exists evs, solve_sat fuel cls A mc mr limit lf orc = Err EOracleEmpty evs)
  \/ (exists v evs, solve_sat fuel cls A mc mr limit lf orc = Err (EOracleBad v) evs).
Proof.
  intros fuel cls A mc mr limit lf orc Hv Hf. destruct (solve_sat fuel cls A mc mr limit lf orc) as [evs r|e evs] eqn:E.
  - left. eauto.
  - pose proof (solve_sat_terminates _ _ _ _ _ _ _ _ _ _ Hv Hf E) as Q. unfold fuel_err in Q.
    destruct e as [| |v|]; [exfalso; apply Q; left; reflexivity | right; left; eauto | right; right; eauto | exfalso; apply Q; right; reflexivity].
Qed.

Theorem measure_decreases : forall fuel P L L', LI P L -> LT L -> main_step fuel P L = Cont L' ->
  rank P L' < rank P L /\ n_clauses (l_st L') <= S (n_clauses (l_st L)) /\ LI P L' /\ LT L'.
Proof.
  intros fuel P L L' H1 H2 E. destruct (main_step_lex fuel P L L' H1 H2 E) as (H2' & Hlex & Hn).
  pose proof (main_step_LI fuel P L L' H1 E) as H1'. split; [apply rank_decreases; assumption | auto].
Qed.
