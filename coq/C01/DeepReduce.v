(* C01 deep model - reduce_db() (called right after unassign_to(0)) preserves the bundle BI. *)
From Coq Require Import List ZArith Bool Arith Lia Permutation.
Import ListNotations.
From SV Require Import C01.SatSpec C01.Machine C01.DeepCdcl C01.DeepBase C01.DeepTrail C01.DeepTrailProp C01.DeepAnalyze
  C01.DeepWatch C01.DeepReason C01.DeepReasonProp C01.DeepRunOps.
Close Scope Z_scope.
Open Scope nat_scope.

(* ---------------------------------------------------------------- what is kept is a sub-collection of `learned` *)
Lemma In_ins_sorted : forall {X} (key : X -> nat * nat) x l y, In y (ins_sorted key x l) -> y = x \/ In y l.
Proof.
  intros X key x l. induction l as [|z l IH]; intros y H; simpl in H.
  - destruct H as [H|[]]; auto.
  - destruct (key_le (key z) (key x)).
    + destruct H as [H|H]; [right; left; exact H|]. destruct (IH y H); auto. right. right. assumption.
    + destruct H as [H|H]; auto.
Qed.

Lemma In_fold_ins : forall {X} (key : X -> nat * nat) l acc y,
  In y (fold_left (fun a x => ins_sorted key x a) l acc) -> In y acc \/ In y l.
Proof.
  intros X key l. induction l as [|x l IH]; intros acc y H; simpl in H; [auto|].
  destruct (IH _ _ H) as [Q|Q]; [|right; right; exact Q].
  destruct (In_ins_sorted key x acc y Q) as [Q1|Q1]; [right; left; auto | left; exact Q1].
Qed.

Lemma In_stable_sort : forall {X} (key : X -> nat * nat) l y, In y (stable_sort key l) -> In y l.
Proof. intros X key l y H. unfold stable_sort in H. destruct (In_fold_ins key l [] y H) as [[]|Q]. exact Q. Qed.

Lemma In_keep_loop : forall half l i p, In p (keep_loop half i l) -> In p l.
Proof.
  intros half l. induction l as [|[lbd c] l IH]; intros i p H; simpl in H; [contradiction|].
  destruct ((i <? half) || (lbd <=? 3)); [destruct H as [H|H]; [left; exact H | right; eapply IH; eauto] | right; eapply IH; eauto].
Qed.

Lemma kept_in_learned : forall s c,
  In c (map snd (keep_loop (Nat.div2 (length (stable_sort (fun p : nat * clause => (fst p, length (snd p))) (combine (s_lbd s) (s_learned s)))))
                           0 (stable_sort (fun p : nat * clause => (fst p, length (snd p))) (combine (s_lbd s) (s_learned s))))) ->
  In c (s_learned s).
Proof.
  intros s c H. apply in_map_iff in H. destruct H as [[lbd c'] [E H]]. simpl in E. subst c'.
  apply In_keep_loop in H. apply In_stable_sort in H. eapply in_combine_r. exact H.
Qed.

(* ---------------------------------------------------------------- helper facts *)
Lemma get_clause_in_or_nil : forall s r, get_clause s r = [] \/ In (get_clause s r) (db s).
Proof.
  intros s r. destruct (Nat.lt_ge_cases r (n_clauses s)) as [L|L]; [right; apply get_clause_in_db; exact L | left; apply get_clause_overflow; exact L].
Qed.

Lemma nz_of_db : forall s, (forall c, In c (db s) -> forall l, In l c -> l <> 0%Z) -> nz s.
Proof.
  intros s H ci l Hl. destruct (get_clause_in_or_nil s ci) as [Q|Q]; [rewrite Q in Hl; contradiction | exact (H _ Q l Hl)].
Qed.

Lemma watch_zero_slot_empty : forall s l ci, nz s -> watch_le s -> lvar l = 0 -> cnt (watch_list s l) ci = 0.
Proof.
  intros s l ci Hnz HW Hl. assert (l = 0%Z) as El by (unfold lvar in Hl; lia). subst l.
  pose proof (HW 0%Z ci) as Q. destruct (ci <? n_clauses s); [|lia].
  unfold pos01 in Q. destruct (get_clause s ci) as [|a [|b r]] eqn:Ec; try lia.
  assert (a <> 0%Z) by (apply (Hnz ci); rewrite Ec; left; reflexivity).
  assert (b <> 0%Z) by (apply (Hnz ci); rewrite Ec; right; left; reflexivity).
  destruct (Z.eqb_spec a 0); destruct (Z.eqb_spec b 0); try contradiction; lia.
Qed.

Lemma cnt_filter_le : forall f ws x, cnt (filter f ws) x <= cnt ws x.
Proof.
  intros f ws x. induction ws as [|y ws IH]; simpl; [lia|]. unfold cnt in *. destruct (f y); simpl; destruct (Nat.eq_dec y x); lia.
Qed.

Lemma cnt_filter_out : forall f ws x, f x = false -> cnt (filter f ws) x = 0.
Proof.
  intros f ws x Hf. induction ws as [|y ws IH]; simpl; [reflexivity|]. destruct (f y) eqn:E; [|exact IH].
  unfold cnt in *. simpl. destruct (Nat.eq_dec y x); [subst; congruence | exact IH].
Qed.

Lemma nth_filter_tail : forall {X} (f : X -> bool) L j, nth j (filter_tail f L) [] = if j =? 0 then nth 0 L [] else filter f (nth j L []).
Proof.
  intros X f L j. destruct L as [|h t]; simpl.
  - destruct j; reflexivity.
  - destruct j as [|j]; simpl; [reflexivity|].
    destruct (Nat.lt_ge_cases j (length t)) as [Q|Q].
    + rewrite (nth_indep _ [] (filter f []) ) by (rewrite map_length; exact Q). rewrite map_nth. reflexivity.
    + rewrite !nth_overflow; [reflexivity | exact Q | rewrite map_length; exact Q].
Qed.

Lemma nth_map_filter : forall {X} (f : X -> bool) (L : list (list X)) j, nth j (map (filter f) L) [] = filter f (nth j L []).
Proof. intros X f L j. change (@nil X) with (filter f []) at 1. apply map_nth. Qed.

(* ---------------------------------------------------------------- attach_all on fresh indices *)
Lemma attach_cases : forall c idx s, attach c idx s = s \/ (exists a b, c = [a; b] /\ attach c idx s = big_add a b idx s)
  \/ (exists a b r, c = a :: b :: r /\ r <> [] /\ attach c idx s = add_watch b idx (add_watch a idx s)).
Proof.
  intros c idx s. unfold attach. destruct c as [|a [|b [|x r]]]; auto.
  - right. left. exists a, b. auto.
  - right. right. exists a, b, (x :: r). split; [reflexivity|]. split; [discriminate|reflexivity].
Qed.

Lemma attach_frame : forall c idx s, n_clauses (attach c idx s) = n_clauses s /\ (forall r, get_clause (attach c idx s) r = get_clause s r)
  /\ (forall l cj, cj <> idx -> cnt (watch_list (attach c idx s) l) cj <= cnt (watch_list s l) cj).
Proof.
  intros c idx s. destruct (attach_cases c idx s) as [E|[(a & b & Ec & E)|(a & b & r & Ec & _ & E)]]; rewrite E.
  - split; [reflexivity|]. split; [reflexivity | intros; lia].
  - unfold big_add. rewrite !n_clauses_big_add1. split; [reflexivity|]. split.
    + intros r. rewrite !get_clause_big_add1. reflexivity.
    + intros l cj _. rewrite !watch_list_big_add1. lia.
  - split; [unfold add_watch; rewrite !n_clauses_set_watch_list; reflexivity|]. split.
    + intros r0. unfold add_watch. rewrite !get_clause_set_watch_list. reflexivity.
    + intros l cj Hne. pose proof (cnt_add_watch_le b idx (add_watch a idx s) l cj) as Q1. pose proof (cnt_add_watch_le a idx s l cj) as Q2.
      destruct (Nat.eq_dec idx cj); [congruence|]. destruct (Z.eq_dec l b); destruct (Z.eq_dec l a); lia.
Qed.

Lemma BI_attach_fresh : forall c idx s, BI s -> idx < n_clauses s -> get_clause s idx = c ->
  (forall l, cnt (watch_list s l) idx = 0) -> BI (attach c idx s).
Proof.
  intros c idx s H Hidx Hc Hfresh. destruct (attach_cases c idx s) as [E|[(a & b & Ec & E)|(a & b & r & Ec & _ & E)]]; rewrite E.
  - exact H.
  - apply BI_big_add; auto. rewrite Hc. exact Ec.
  - apply (BI_add_watch2 s idx a b r); auto. rewrite Hc. exact Ec.
Qed.

Lemma BI_attach_all : forall cs idx s, BI s -> idx + length cs <= n_clauses s ->
  (forall k, k < length cs -> get_clause s (idx + k) = nth k cs []) ->
  (forall l cj, idx <= cj -> cnt (watch_list s l) cj = 0) -> BI (attach_all cs idx s).
Proof.
  induction cs as [|c cs IH]; intros idx s H Hlen Hget Hfresh; simpl; [exact H|].
  simpl in Hlen. destruct (attach_frame c idx s) as (En & Eg & Ew).
  apply IH.
  - apply BI_attach_fresh; auto; [lia | rewrite <- (Nat.add_0_r idx) at 1; apply (Hget 0); simpl; lia].
  - rewrite En. lia.
  - intros k Hk. rewrite Eg. replace (S idx + k) with (idx + S k) by lia. apply (Hget (S k)). simpl. lia.
  - intros l cj Hcj. pose proof (Ew l cj) as Q. rewrite (Hfresh l cj) in Q by lia. lia.
Qed.

(* ---------------------------------------------------------------- reduce_db *)
Theorem reduce_db_BI : forall s, BI s -> cur_level s = 0 -> BI (reduce_db s).
Proof.
  intros s H Hc0. unfold reduce_db. destruct (length (s_learned s) <? reduce_threshold); [exact H|].
  set (kept := keep_loop _ 0 _).
  assert (forall c, In c (map snd kept) -> In c (s_learned s)) as Hk by (intros c Hc; apply kept_in_learned; exact Hc).
  set (no := length (s_orig s)).
  set (s1 := mkSt (s_vals s) (s_levels s) (s_reasons s) (s_trail s) (s_lim s) (s_head s) (s_phase s) (s_props s) (s_confl s)
                  (s_orig s) (map snd kept) (map fst kept)
                  (filter_tail (fun c => c <? no) (s_wpos s)) (filter_tail (fun c => c <? no) (s_wneg s))
                  (map (filter (fun p : Z * nat => snd p <? no)) (s_bpos s)) (map (filter (fun p : Z * nat => snd p <? no)) (s_bneg s))).
  pose proof (bi_ti s H) as [HT HD].
  assert (asg_eq s s1) as EA by (repeat split).
  assert (forall r, r < no -> get_clause s1 r = get_clause s r) as Gold.
  { intros r Hr. unfold get_clause, s1. simpl. fold no. destruct (Nat.ltb_spec r no); [reflexivity | lia]. }
  assert (forall r l, In l (get_clause s1 r) -> exists r', In l (get_clause s r')) as Gsub.
  { intros r l Hl. destruct (get_clause_in_or_nil s1 r) as [Q|Q]; [rewrite Q in Hl; contradiction|].
    unfold db, s1 in Q. simpl in Q. apply in_app_or in Q. destruct Q as [Q|Q].
    - assert (In (get_clause s1 r) (db s)) as Q' by (unfold db; apply in_or_app; left; exact Q).
      destruct (in_db_get_clause s _ Q') as [r' [_ E]]. exists r'. rewrite E. exact Hl.
    - assert (In (get_clause s1 r) (db s)) as Q' by (unfold db; apply in_or_app; right; apply Hk; exact Q).
      destruct (in_db_get_clause s _ Q') as [r' [_ E]]. exists r'. rewrite E. exact Hl. }
  assert (forall l cj, cnt (watch_list s1 l) cj <= cnt (watch_list s l) cj /\ (no <= cj -> cnt (watch_list s1 l) cj = 0)) as Hw1.
  { intros l cj. destruct (Nat.eq_dec (lvar l) 0) as [E0|E0].
    - assert (watch_list s1 l = watch_list s l) as Q.
      { unfold watch_list, s1. simpl. destruct (lpos l); rewrite nth_filter_tail, E0; reflexivity. }
      rewrite Q. split; [lia|]. intros _. apply watch_zero_slot_empty; [exact (bi_nz s H) | exact (bi_wle s H) | exact E0].
    - assert (watch_list s1 l = filter (fun c => c <? no) (watch_list s l)) as Q.
      { unfold watch_list, s1. simpl. destruct (lpos l); rewrite nth_filter_tail; destruct (Nat.eqb_spec (lvar l) 0); try contradiction; reflexivity. }
      rewrite Q. split; [apply cnt_filter_le|]. intros Hge. apply cnt_filter_out. apply Nat.ltb_ge. exact Hge. }
  assert (BI s1) as H1.
  { constructor.
    - split; [eapply trail_inv_asg_eq; eauto|]. destruct HD as [D1 D2 D3 D4 D5]. constructor; unfold nv, s1 in *; simpl; auto.
      + apply Forall_forall. intros c Hc. rewrite Forall_forall in D3. apply D3. apply Hk. exact Hc.
      + apply Forall_forall. intros x Hx. apply in_map_iff in Hx. destruct Hx as [y [E Hy]]. subst x.
        rewrite Forall_forall in D4. pose proof (D4 y Hy) as Q. unfold imps_in in *. rewrite Forall_forall in *. intros p Hp. apply filter_In in Hp. apply Q. tauto.
      + apply Forall_forall. intros x Hx. apply in_map_iff in Hx. destruct Hx as [y [E Hy]]. subst x.
        rewrite Forall_forall in D5. pose proof (D5 y Hy) as Q. unfold imps_in in *. rewrite Forall_forall in *. intros p Hp. apply filter_In in Hp. apply Q. tauto.
    - intros ci l Hl. destruct (Gsub ci l Hl) as [r' Hr']. exact (bi_nz s H r' l Hr').
    - exact (bi_v0 s H).
    - intros l cj. destruct (Hw1 l cj) as [Q1 Q2]. destruct (Nat.lt_ge_cases cj no) as [L|L].
      + assert (cj < n_clauses s1) as L1 by (unfold n_clauses, s1; simpl; fold no; lia).
        destruct (Nat.ltb_spec cj (n_clauses s1)); [|lia]. rewrite Gold by exact L.
        pose proof (bi_wle s H l cj) as Q3. assert (cj < n_clauses s) as L2 by (unfold n_clauses; fold no; lia).
        destruct (Nat.ltb_spec cj (n_clauses s)); [lia | lia].
      + rewrite (Q2 L). lia.
    - intros fl implied ci Hin.
      assert (In (implied, ci) (implications s fl) /\ ci < no) as [Q1 Q2].
      { unfold implications, s1 in Hin. simpl in Hin. unfold implications. destruct (lpos fl); rewrite nth_map_filter in Hin;
          apply filter_In in Hin; destruct Hin as [Q1 Q2]; simpl in Q2; apply Nat.ltb_lt in Q2; auto. }
      destruct (bi_big s H fl implied ci Q1) as [_ Q3]. rewrite Gold by exact Q2. split; [unfold n_clauses, s1; simpl; fold no; lia | exact Q3].
    - intros tr1 v tr2 r Htr Hl Hr. exfalso.
      assert (In v (s_trail s)) as Hv by (simpl in Htr; rewrite Htr; apply in_or_app; right; left; reflexivity).
      pose proof (level_le_cur s v HT Hv) as Q. change (level_of s1 v) with (level_of s v) in Hl. lia.
    - exact (bi_dec s H).
    - eapply head_inv_asg_eq; [exact EA | exact (bi_head s H)]. }
  apply BI_attach_all; auto.
  - intros k Hk0. unfold get_clause, s1. simpl. fold no. destruct (Nat.ltb_spec (no + k) no); [lia|].
    replace (no + k - no) with k by lia. reflexivity.
  - intros l cj Hcj. exact (proj2 (Hw1 l cj) Hcj).
Qed.
