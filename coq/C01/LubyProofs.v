(* C02 - the fixed luby() loop computes the Luby sequence within 2*i iterations; the pinned loop
   never returns on i = 2. *)
From Coq Require Import ZArith Bool Lia.
From SV Require Import C01.Luby.
Open Scope Z_scope.

Lemma shiftl1 : forall k, 0 <= k -> Z.shiftl 1 k = 2 ^ k.
Proof.
  intros k Hk. rewrite Z.shiftl_mul_pow2 by exact Hk. lia.
Qed.

Lemma pow2_pos : forall k, 0 <= k -> 0 < 2 ^ k.
Proof. intros k Hk. apply Z.pow_pos_nonneg; lia. Qed.

Lemma pow2_succ : forall k, 1 <= k -> 2 ^ k = 2 * 2 ^ (k - 1).
Proof.
  intros k Hk. replace k with (Z.succ (k - 1)) at 1 by lia. rewrite Z.pow_succ_r by lia. reflexivity.
Qed.

Lemma pow2_gt_lin : forall k, 0 <= k -> k < 2 ^ k.
Proof. intros k Hk. apply Z.pow_gt_lin_r; lia. Qed.

(* one loop iteration of the fixed code, with 1 << k rewritten to 2^k *)
Lemma luby_loop_unfold : forall f i k, 1 <= k ->
  luby_loop (S f) i k =
    if i =? 2 ^ k - 1 then Some (2 ^ (k - 1))
    else if (2 ^ (k - 1) <=? i) && (i <? 2 ^ k - 1)
         then luby_loop f (i - (2 ^ (k - 1) - 1)) 1
         else luby_loop f i (k + 1).
Proof.
  intros f i k Hk. simpl. rewrite !shiftl1 by lia. reflexivity.
Qed.

(* measure 2*i - k decreases strictly with every iteration that does not return *)
Lemma luby_loop_spec : forall fuel i k, 1 <= k -> 2 ^ (k - 1) <= i -> 2 * i - k < Z.of_nat fuel ->
  exists v, luby_loop fuel i k = Some v /\ Luby i v /\ 1 <= v.
Proof.
  induction fuel as [|f IH]; intros i k Hk Hi Hfuel.
  - exfalso. assert (k - 1 < 2 ^ (k - 1)) as H by (apply pow2_gt_lin; lia).
    change (Z.of_nat 0) with 0 in Hfuel. lia.
  - rewrite luby_loop_unfold by exact Hk.
    pose proof (pow2_succ k Hk) as Hsucc.
    assert (0 < 2 ^ (k - 1)) as Hpos by (apply pow2_pos; lia).
    destruct (i =? 2 ^ k - 1) eqn:E1.
    + apply Z.eqb_eq in E1. exists (2 ^ (k - 1)). split; [reflexivity|]. split; [|lia].
      rewrite E1. apply Luby_top. exact Hk.
    + apply Z.eqb_neq in E1.
      destruct ((2 ^ (k - 1) <=? i) && (i <? 2 ^ k - 1)) eqn:E2.
      * apply andb_prop in E2. destruct E2 as [E2 E3]. apply Z.leb_le in E2. apply Z.ltb_lt in E3.
        assert (2 <= k) as Hk2.
        { destruct (Z.eq_dec k 1) as [Hk1|Hk1]; [|lia]. subst k. simpl in *. lia. }
        assert (k - 1 < 2 ^ (k - 1)) as Hlin by (apply pow2_gt_lin; lia).
        destruct (IH (i - (2 ^ (k - 1) - 1)) 1) as [v [Hv [HL Hv1]]].
        -- lia.
        -- simpl. lia.
        -- rewrite Nat2Z.inj_succ in Hfuel. lia.
        -- exists v. split; [exact Hv|]. split; [|exact Hv1].
           apply (Luby_rec k i v Hk); [lia|].
           replace (i - 2 ^ (k - 1) + 1) with (i - (2 ^ (k - 1) - 1)) by lia. exact HL.
      * assert (2 ^ k <= i) as Hge.
        { apply andb_false_iff in E2. destruct E2 as [E2 | E2].
          - apply Z.leb_gt in E2. lia.
          - apply Z.ltb_ge in E2. lia. }
        destruct (IH i (k + 1)) as [v [Hv [HL Hv1]]].
        -- lia.
        -- replace (k + 1 - 1) with k by lia. exact Hge.
        -- rewrite Nat2Z.inj_succ in Hfuel. lia.
        -- exists v. split; [exact Hv|]. split; assumption.
Qed.

(* the Luby relation is a function *)
Lemma pow2_le_mono : forall a b, 0 <= a <= b -> 2 ^ a <= 2 ^ b.
Proof. intros a b H. apply Z.pow_le_mono_r; lia. Qed.

Lemma block_unique : forall k1 k2 i, 1 <= k1 -> 1 <= k2 ->
  2 ^ (k1 - 1) <= i <= 2 ^ k1 - 1 -> 2 ^ (k2 - 1) <= i <= 2 ^ k2 - 1 -> k1 = k2.
Proof.
  intros k1 k2 i H1 H2 B1 B2.
  destruct (Z.lt_trichotomy k1 k2) as [Hlt | [Heq | Hgt]]; [|exact Heq|].
  - pose proof (pow2_le_mono k1 (k2 - 1)). lia.
  - pose proof (pow2_le_mono k2 (k1 - 1)). lia.
Qed.

Lemma Luby_fun : forall i v, Luby i v -> forall v', Luby i v' -> v = v'.
Proof.
  intros i v H. induction H as [k Hk | k i v Hk Hi HL IH]; intros v' H'.
  - inversion H' as [k' Hk' Heq Hv | k' i' v'' Hk' Hi' HL' Hi'' Hv''].
    + assert (k = k') as Hkk.
      { pose proof (pow2_succ k Hk). pose proof (pow2_succ k' Hk').
        pose proof (pow2_pos (k - 1)). pose proof (pow2_pos (k' - 1)).
        apply (block_unique k k' (2 ^ k - 1)); try assumption; lia. }
      subst. reflexivity.
    + exfalso. subst.
      pose proof (pow2_succ k Hk). pose proof (pow2_succ k' Hk').
      pose proof (pow2_pos (k - 1)). pose proof (pow2_pos (k' - 1)).
      assert (k = k') by (apply (block_unique k k' (2 ^ k - 1)); try assumption; lia).
      subst. lia.
  - inversion H' as [k' Hk' Heq Hv | k' i' v'' Hk' Hi' HL' Hi'' Hv''].
    + exfalso. subst.
      pose proof (pow2_succ k Hk). pose proof (pow2_succ k' Hk').
      pose proof (pow2_pos (k - 1)). pose proof (pow2_pos (k' - 1)).
      assert (k = k') by (apply (block_unique k k' (2 ^ k' - 1)); try assumption; lia).
      subst. lia.
    + subst.
      pose proof (pow2_succ k Hk). pose proof (pow2_succ k' Hk').
      assert (k = k') by (apply (block_unique k k' i); try assumption; lia).
      subst. apply IH. exact HL'.
Qed.

Theorem luby_spec : forall i, 1 <= i ->
  exists v, luby (luby_fuel i) i = Some v /\ Luby i v /\ 1 <= v
            /\ forall v', Luby i v' -> v' = v.
Proof.
  intros i Hi. unfold luby, luby_fuel.
  destruct (luby_loop_spec (Z.to_nat (2 * i)) i 1) as [v [Hv [HL Hv1]]].
  - lia.
  - simpl. exact Hi.
  - rewrite Z2Nat.id by lia. lia.
  - exists v. split; [exact Hv|]. split; [exact HL|]. split; [exact Hv1|].
    intros v' HL'. symmetry. exact (Luby_fun i v HL v' HL').
Qed.

(* more fuel never changes the answer *)
Lemma luby_loop_mono : forall f i k v, luby_loop f i k = Some v -> luby_loop (S f) i k = Some v.
Proof.
  induction f as [|f IH]; intros i k v H; [discriminate|].
  change (luby_loop (S (S f)) i k) with
    (if i =? Z.shiftl 1 k - 1 then Some (Z.shiftl 1 (k - 1))
     else if (Z.shiftl 1 (k - 1) <=? i) && (i <? Z.shiftl 1 k - 1)
          then luby_loop (S f) (i - (Z.shiftl 1 (k - 1) - 1)) 1
          else luby_loop (S f) i (k + 1)).
  simpl in H.
  destruct (i =? Z.shiftl 1 k - 1); [exact H|].
  destruct ((Z.shiftl 1 (k - 1) <=? i) && (i <? Z.shiftl 1 k - 1)); apply IH; exact H.
Qed.

(* pinned tree: luby(2) never returns *)
Theorem luby_pinned_refuted : forall fuel, luby_pinned fuel 2 = None.
Proof.
  unfold luby_pinned. induction fuel as [|f IH]; [reflexivity|].
  simpl. exact IH.
Qed.
