#!/bin/bash
# Full .vo build of the Coq development (no -vos).  Usage:
#   ./build.sh            build everything
#   ./build.sh C20 C07    build only the files of these directories plus Props/<dir>.v (and their deps)
# Serialised by a lock so concurrent invocations do not race on the generated Makefile.
set -u
cd "$(dirname "$0")"
exec 9>.build.lock
flock 9
{
  echo "-Q . SV"
  find Common Props C[0-9][0-9] -name '*.v' 2>/dev/null | sort
} > _CoqProject.new
if ! cmp -s _CoqProject.new _CoqProject 2>/dev/null; then mv _CoqProject.new _CoqProject; coq_makefile -f _CoqProject -o Makefile >/dev/null 2>&1; else rm -f _CoqProject.new; [ -f Makefile ] || coq_makefile -f _CoqProject -o Makefile >/dev/null 2>&1; fi
if [ $# -eq 0 ]; then
  timeout ${BUILD_TIMEOUT:-3000} make -j${JOBS:-16} -k 2>&1
  exit $?
fi
targets=""
for d in "$@"; do
  for f in $(find "$d" -name '*.v' 2>/dev/null | sort); do targets="$targets ${f%.v}.vo"; done
  [ -f "Props/$d.v" ] && targets="$targets Props/$d.vo"
done
[ -z "$targets" ] && { echo "no targets for $*"; exit 2; }
timeout ${BUILD_TIMEOUT:-3000} make -j${JOBS:-16} $targets 2>&1
