#!/bin/bash
# Full .vo build of the Coq development (no -vos).  Usage:
#   ./build.sh            build everything
#   ./build.sh C20 C07    build only the files of these directories plus Props/<dir>*.v (and their deps)
# A short global lock protects the generated _CoqProject/Makefile; the make itself takes one lock per requested
# directory, so a slow build of one property does not block the others.  Every coqc is memory-limited.
set -u
cd "$(dirname "$0")"
ulimit -v ${COQ_MEM_KB:-20000000} 2>/dev/null
(
  flock 9
  {
    echo "-Q . SV"
    find Common Props C[0-9][0-9] -name '*.v' 2>/dev/null | grep -v -E '(_tmp|Dbg|scratch|Scratch)' | sort
  } > _CoqProject.new
  if ! cmp -s _CoqProject.new _CoqProject 2>/dev/null; then mv _CoqProject.new _CoqProject; coq_makefile -f _CoqProject -o Makefile >/dev/null 2>&1; else rm -f _CoqProject.new; [ -f Makefile ] || coq_makefile -f _CoqProject -o Makefile >/dev/null 2>&1; fi
) 9>.build.lock
if [ $# -eq 0 ]; then
  exec 8>.build.lock.all
  flock 8
  timeout ${BUILD_TIMEOUT:-3000} make -j${JOBS:-16} -k 2>&1
  exit $?
fi
targets=""
for d in "$@"; do
  for f in $(find "$d" -name '*.v' 2>/dev/null | grep -v -E '(_tmp|Dbg|scratch|Scratch)' | sort); do targets="$targets ${f%.v}.vo"; done
  for f in $(ls Props/$d.v Props/${d}_*.v 2>/dev/null); do targets="$targets ${f%.v}.vo"; done
done
[ -z "$targets" ] && { echo "no targets for $*"; exit 2; }
exec 8>".build.lock.$1"
flock 8
timeout ${BUILD_TIMEOUT:-1200} make -j${JOBS:-8} $targets 2>&1
