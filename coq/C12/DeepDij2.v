(* C12_dijkstra, Rust side, part 2: the closed-set invariant of RsDij.loop and its preservation by
   (a) dropping a stale heap entry, (b) settling the minimum entry, (c) relaxing one out-edge. *)
From Coq Require Import List ZArith Bool Arith Lia Sorted.
From SV Require Import C11.Paths C11.PathsLemmas C12.RsShortest C12.DeepDij1.
Import ListNotations.
Local Open Scope nat_scope.

Section Dij.
Variable n : nat.
Variable edges : wgraph.
Variable source : nat.
Hypothesis Hs : source < n.
Hypothesis HV : evalidP n edges.

Local Notation dget s v := (nth v (RsDij.dist s) None).
Local Notation pget s v := (nth v (RsDij.pred s) None).

(* ord: the settled (visited) nodes, newest first (ghost) *)
Record inv (ord : list nat) (s : RsDij.st) : Prop := {
  i_ld : length (RsDij.dist s) = n;
  i_lp : length (RsDij.pred s) = n;
  i_lv : length (RsDij.visited s) = n;
  i_vis : forall v, v < n -> (nth v (RsDij.visited s) false = true <-> In v ord);
  i_ordlt : forall v, In v ord -> v < n;
  i_nodup : NoDup ord;
  i_walk : forall v d, dget s v = Some d -> exists p, walk edges source v p d;
  i_src : dget s source = Some 0%Z;
  i_fin : forall u, In u ord ->
            exists d, dget s u = Some d /\ forall p' d', walk edges source u p' d' -> (d <= d')%Z;
  i_heap : forall v d, ~ In v ord -> dget s v = Some d -> In (d, v) (RsDij.hp s);
  i_ub : forall c v, In (c, v) (RsDij.hp s) -> v < n /\ exists d, dget s v = Some d /\ (d <= c)%Z;
  i_sorted : hsorted (RsDij.hp s);
  i_pred : forall v u, pget s v = Some u ->
             In u ord /\ exists w du, In (u, v, w) edges /\ dget s u = Some du /\ dget s v = Some (du + w)%Z;
  i_pord : forall l1 x l2 u, ord = l1 ++ x :: l2 -> pget s x = Some u -> In u l2;
  i_root : forall v d, dget s v = Some d -> pget s v = None -> v = source;
  i_srcp : pget s source = None
}.

(* the out-edges (selected by E) of settled nodes are relaxed *)
Definition rel_ok (E : nat -> nat -> Z -> Prop) (ord : list nat) (s : RsDij.st) : Prop :=
  forall u v w, In u ord -> In (u, v, w) edges -> E u v w ->
    exists du dv, dget s u = Some du /\ dget s v = Some dv /\ (dv <= du + w)%Z.

Definition allE : nat -> nat -> Z -> Prop := fun _ _ _ => True.

Lemma rel_ok_weaken (E E' : nat -> nat -> Z -> Prop) ord s :
  (forall u v w, In (u, v, w) edges -> E' u v w -> E u v w) -> rel_ok E ord s -> rel_ok E' ord s.
Proof. intros H HR u v w Hu Hin HE. apply HR; auto. Qed.

Lemma rel_ok_dist E ord s s' : RsDij.dist s = RsDij.dist s' -> rel_ok E ord s -> rel_ok E ord s'.
Proof. intros HD HR u v w Hu Hin HE. rewrite <- HD. apply HR; auto. Qed.

(* ---------------------------------------------------------------- the minimum of the heap is a lower bound *)
Lemma min_lemma ord s c : inv ord s -> rel_ok allE ord s ->
  (forall c' v, In (c', v) (RsDij.hp s) -> (c <= c')%Z) ->
  forall a x p d', walk edges a x p d' -> ~ In x ord -> forall da, dget s a = Some da -> (c <= da + d')%Z.
Proof.
  intros HI HR Hmin a x p d' Hw. induction Hw as [u|u v t p w d Hin Hw IH]; intros Hx da Hda.
  - pose proof (i_heap _ _ HI u da Hx Hda) as Hh. specialize (Hmin _ _ Hh). lia.
  - destruct (edge_lt _ _ _ _ _ HV Hin) as [_ [_ Hw0]]. pose proof (walk_nonneg _ _ HV _ _ _ _ Hw) as Hd0.
    destruct (in_dec Nat.eq_dec u ord) as [Hu|Hu].
    + destruct (HR u v w Hu Hin I) as [du [dv [H1 [H2 H3]]]]. rewrite Hda in H1. inversion H1; subst du.
      specialize (IH Hx dv H2). lia.
    + pose proof (i_heap _ _ HI u da Hu Hda) as Hh. specialize (Hmin _ _ Hh). lia.
Qed.

(* ---------------------------------------------------------------- (a) a stale entry is dropped *)
Lemma drop_inv ord s c u rest : inv ord s -> RsDij.hp s = (c, u) :: rest -> nth u (RsDij.visited s) false = true ->
  inv ord (RsDij.mk (RsDij.dist s) (RsDij.pred s) (RsDij.visited s) rest).
Proof.
  intros HI Hh Hv. destruct HI as [I1 I2 I3 I4 I5 I6 I7 I8 I9 I10 I11 I12 I13 I14 I15 I16].
  assert (Hun : u < n) by (apply (I11 c u); rewrite Hh; left; reflexivity).
  constructor; cbn [RsDij.dist RsDij.pred RsDij.visited RsDij.hp]; try assumption.
  - intros v d Hn Hd. specialize (I10 v d Hn Hd). rewrite Hh in I10. destruct I10 as [E|Hin]; [|exact Hin].
    inversion E; subst. exfalso. apply Hn. apply I4; assumption.
  - intros c' v Hin. apply I11. rewrite Hh. right. exact Hin.
  - rewrite Hh in I12. eapply hsorted_tail. exact I12.
Qed.

(* ---------------------------------------------------------------- (b) the minimum entry is settled *)
Lemma settle_inv ord s c u rest : inv ord s -> rel_ok allE ord s ->
  RsDij.hp s = (c, u) :: rest -> nth u (RsDij.visited s) false = false ->
  let s1 := RsDij.mk (RsDij.dist s) (RsDij.pred s) (set_nth u true (RsDij.visited s)) rest in
  u < n /\ ~ In u ord /\ dget s u = Some c /\ inv (u :: ord) s1 /\ rel_ok (fun a _ _ => a <> u) (u :: ord) s1.
Proof.
  intros HI HR Hh Hv s1.
  assert (Hun : u < n) by (apply (i_ub _ _ HI c u); rewrite Hh; left; reflexivity).
  assert (Hno : ~ In u ord).
  { intros Hin. apply (i_vis _ _ HI u Hun) in Hin. congruence. }
  assert (Hmin : forall c' v, In (c', v) (RsDij.hp s) -> (c <= c')%Z).
  { intros c' v Hin. rewrite Hh in Hin. eapply hsorted_min; [|exact Hin]. rewrite <- Hh. apply (i_sorted _ _ HI). }
  assert (Hdu : dget s u = Some c).
  { destruct (i_ub _ _ HI c u) as [_ [d [Hd Hle]]]; [rewrite Hh; left; reflexivity|].
    pose proof (i_heap _ _ HI u d Hno Hd) as Hin. specialize (Hmin _ _ Hin).
    rewrite Hd. f_equal. lia. }
  split; [exact Hun|]. split; [exact Hno|]. split; [exact Hdu|].
  assert (Hfin : forall p' d', walk edges source u p' d' -> (c <= d')%Z).
  { intros p' d' Hw. pose proof (min_lemma ord s c HI HR Hmin _ _ _ _ Hw Hno 0%Z (i_src _ _ HI)). lia. }
  destruct HI as [I1 I2 I3 I4 I5 I6 I7 I8 I9 I10 I11 I12 I13 I14 I15 I16].
  subst s1. split.
  - constructor; cbn [RsDij.dist RsDij.pred RsDij.visited RsDij.hp]; try assumption.
    + rewrite sn_length. exact I3.
    + intros v Hvn. destruct (Nat.eq_dec u v) as [->|Hne].
      * rewrite sn_eq by lia. split; [intros _; left; reflexivity | reflexivity].
      * rewrite sn_neq by exact Hne. rewrite (I4 v Hvn). split; [intros H; right; exact H|].
        intros [E|H]; [congruence | exact H].
    + intros v [<-|Hin]; [exact Hun | apply I5; exact Hin].
    + constructor; assumption.
    + intros u0 [<-|Hin]; [exists c; split; assumption | apply I9; exact Hin].
    + intros v d Hn Hd. assert (Hn' : ~ In v ord) by (intros H; apply Hn; right; exact H).
      specialize (I10 v d Hn' Hd). rewrite Hh in I10. destruct I10 as [E|Hin]; [|exact Hin].
      inversion E; subst. exfalso. apply Hn. left. reflexivity.
    + intros c' v Hin. apply I11. rewrite Hh. right. exact Hin.
    + rewrite Hh in I12. eapply hsorted_tail. exact I12.
    + intros v a Hp. destruct (I13 v a Hp) as [Ha Hr]. split; [right; exact Ha | exact Hr].
    + intros l1 x l2 a Ho Hp. destruct l1 as [|y l1]; simpl in Ho; inversion Ho; subst.
      * apply (I13 x a Hp).
      * eapply I14; [reflexivity | exact Hp].
  - intros a v w [<-|Ha] Hin Hne; [congruence|]. apply (HR a v w Ha Hin I).
Qed.

(* ---------------------------------------------------------------- (c) one edge is relaxed *)
Lemma explore_inv ord s u c nb w (E : nat -> nat -> Z -> Prop) :
  inv ord s -> rel_ok E ord s -> In u ord -> dget s u = Some c -> In (u, nb, w) edges ->
  let s' := RsDij.explore u c s (nb, w) in
  inv ord s' /\ rel_ok (fun a v w' => E a v w' \/ (a = u /\ v = nb /\ w' = w)) ord s' /\
  RsDij.visited s' = RsDij.visited s /\ dget s' u = Some c /\
  length (RsDij.hp s') <= S (length (RsDij.hp s)).
Proof.
  intros HI HR Hu Hdu Hin s'.
  destruct (edge_lt _ _ _ _ _ HV Hin) as [Hun [Hnb Hw0]].
  destruct (i_walk _ _ HI u c Hdu) as [pu Hpu].
  pose proof (walk_nonneg _ _ HV _ _ _ _ Hpu) as Hc0.
  assert (Hwnb : walk edges source nb (pu ++ [nb]) (c + w)) by (eapply walk_snoc; eassumption).
  unfold s', RsDij.explore.
  destruct (nth nb (RsDij.visited s) false) eqn:Evis.
  { (* nb settled: its distance is already minimal *)
    split; [exact HI|]. split; [|split; [reflexivity|split; [exact Hdu|lia]]].
    intros a v w' Ha Hin' [HE|[-> [-> ->]]]; [apply HR; assumption|].
    assert (Hnbo : In nb ord) by (apply (i_vis _ _ HI nb Hnb); exact Evis).
    destruct (i_fin _ _ HI nb Hnbo) as [dn [Hdn Hmin]]. exists c, dn. split; [exact Hdu|]. split; [exact Hdn|].
    apply (Hmin _ _ Hwnb). }
  assert (Hnbo : ~ In nb ord).
  { intros H. apply (i_vis _ _ HI nb Hnb) in H. congruence. }
  destruct (flt (Some (c + w)%Z) (dget s nb)) eqn:Eflt.
  2:{ (* no improvement *)
    split; [exact HI|]. split; [|split; [reflexivity|split; [exact Hdu|lia]]].
    intros a v w' Ha Hin' [HE|[-> [-> ->]]]; [apply HR; assumption|].
    destruct (dget s nb) as [dn|] eqn:Ednb; [|simpl in Eflt; discriminate].
    simpl in Eflt. apply Z.ltb_ge in Eflt. exists c, dn. auto. }
  (* improvement: dist, pred and heap are updated *)
  assert (Hne_u : nb <> u) by (intros ->; contradiction).
  assert (Hne_s : nb <> source).
  { intros ->. rewrite (i_src _ _ HI) in Eflt. simpl in Eflt. apply Z.ltb_lt in Eflt. lia. }
  assert (Hold : forall dn, dget s nb = Some dn -> (c + w < dn)%Z).
  { intros dn Hdn. rewrite Hdn in Eflt. simpl in Eflt. apply Z.ltb_lt in Eflt. exact Eflt. }
  set (nd := (c + w)%Z) in *.
  set (s2 := RsDij.mk (set_nth nb (Some nd) (RsDij.dist s)) (set_nth nb (Some u) (RsDij.pred s)) (RsDij.visited s)
                      (RsDij.hpush (nd, nb) (RsDij.hp s))).
  assert (Hd : forall v, dget s2 v = if Nat.eqb nb v then Some nd else dget s v).
  { intros v. cbn [s2 RsDij.dist]. destruct (Nat.eqb_spec nb v) as [->|Hne].
    - apply sn_eq. rewrite (i_ld _ _ HI). exact Hnb.
    - apply sn_neq. exact Hne. }
  assert (Hp : forall v, pget s2 v = if Nat.eqb nb v then Some u else pget s v).
  { intros v. cbn [s2 RsDij.pred]. destruct (Nat.eqb_spec nb v) as [->|Hne].
    - apply sn_eq. rewrite (i_lp _ _ HI). exact Hnb.
    - apply sn_neq. exact Hne. }
  assert (Hdo : forall v, In v ord -> dget s2 v = dget s v).
  { intros v Hv. rewrite Hd. destruct (Nat.eqb_spec nb v) as [->|Hne]; [contradiction|reflexivity]. }
  assert (Hpo : forall v, In v ord -> pget s2 v = pget s v).
  { intros v Hv. rewrite Hp. destruct (Nat.eqb_spec nb v) as [->|Hne]; [contradiction|reflexivity]. }
  split; [|split; [|split; [reflexivity|split]]].
  - destruct HI as [I1 I2 I3 I4 I5 I6 I7 I8 I9 I10 I11 I12 I13 I14 I15 I16].
    constructor; try assumption.
    + cbn [s2 RsDij.dist]. rewrite sn_length. exact I1.
    + cbn [s2 RsDij.pred]. rewrite sn_length. exact I2.
    + intros v d. rewrite Hd. destruct (Nat.eqb_spec nb v) as [<-|Hne]; [|apply I7].
      intros H. inversion H; subst d. eexists. exact Hwnb.
    + rewrite Hd. destruct (Nat.eqb_spec nb source) as [Eq|_]; [contradiction | exact I8].
    + intros u0 Hu0. rewrite (Hdo u0 Hu0). apply I9. exact Hu0.
    + intros v d Hn. rewrite Hd. cbn [s2 RsDij.hp]. destruct (Nat.eqb_spec nb v) as [<-|Hne]; intros H.
      * inversion H; subst d. apply hpush_In. left. reflexivity.
      * apply hpush_In. right. apply I10; assumption.
    + intros c' v Hh. cbn [s2 RsDij.hp] in Hh. apply hpush_In in Hh. rewrite Hd. destruct Hh as [Eq|Hh].
      * inversion Eq; subst. rewrite Nat.eqb_refl. split; [exact Hnb|]. exists nd. split; [reflexivity|lia].
      * destruct (I11 c' v Hh) as [Hvn [d [Hdv Hle]]]. split; [exact Hvn|].
        destruct (Nat.eqb_spec nb v) as [<-|Hne]; [|exists d; auto].
        exists nd. split; [reflexivity|]. specialize (Hold d Hdv). lia.
    + cbn [s2 RsDij.hp]. apply hpush_sorted. exact I12.
    + intros v a. rewrite Hp. destruct (Nat.eqb_spec nb v) as [<-|Hne]; intros H.
      * inversion H; subst a. split; [exact Hu|]. exists w, c. split; [exact Hin|]. split.
        -- rewrite (Hdo u Hu). exact Hdu.
        -- rewrite Hd, Nat.eqb_refl. reflexivity.
      * destruct (I13 v a H) as [Ha [w0 [du [H1 [H2 H3]]]]]. split; [exact Ha|]. exists w0, du.
        split; [exact H1|]. split; [rewrite (Hdo a Ha); exact H2|].
        rewrite Hd. destruct (Nat.eqb_spec nb v); [contradiction|exact H3].
    + intros l1 x l2 a Ho. rewrite Hpo; [apply (I14 l1 x l2 a Ho)|]. rewrite Ho. apply in_or_app. right. left. reflexivity.
    + intros v d. rewrite Hd, Hp. destruct (Nat.eqb_spec nb v) as [<-|Hne]; [discriminate | apply I15].
    + rewrite Hp. destruct (Nat.eqb_spec nb source) as [Eq|_]; [contradiction | exact I16].
  - intros a v w' Ha Hin' HE. rewrite (Hdo a Ha). destruct HE as [HE|[-> [-> ->]]].
    + destruct (HR a v w' Ha Hin' HE) as [du [dv [H1 [H2 H3]]]]. rewrite Hd.
      destruct (Nat.eqb_spec nb v) as [<-|Hne]; [|exists du, dv; auto].
      exists du, nd. split; [exact H1|]. split; [reflexivity|]. specialize (Hold dv H2). lia.
    + exists c, nd. split; [exact Hdu|]. split; [rewrite Hd, Nat.eqb_refl; reflexivity | unfold nd; lia].
  - rewrite (Hdo u Hu). exact Hdu.
  - cbn [s2 RsDij.hp]. rewrite hpush_length. lia.
Qed.

(* all out-edges of u *)
Lemma explore_fold ord u c : forall l s (E : nat -> nat -> Z -> Prop),
  (forall v w, In (v, w) l -> In (u, v, w) edges) ->
  inv ord s -> rel_ok E ord s -> In u ord -> dget s u = Some c ->
  let s' := fold_left (RsDij.explore u c) l s in
  inv ord s' /\ rel_ok (fun a v w' => E a v w' \/ (a = u /\ In (v, w') l)) ord s' /\
  RsDij.visited s' = RsDij.visited s /\ length (RsDij.hp s') <= length l + length (RsDij.hp s).
Proof.
  induction l as [|[nb w] l IH]; intros s E Hl HI HR Hu Hdu; cbn [fold_left].
  - split; [exact HI|]. split; [|split; [reflexivity|simpl; lia]].
    eapply rel_ok_weaken; [|exact HR]. intros a v w' _ [H|[_ []]]. exact H.
  - assert (Hin : In (u, nb, w) edges) by (apply Hl; left; reflexivity).
    destruct (explore_inv ord s u c nb w E HI HR Hu Hdu Hin) as [HI1 [HR1 [Hv1 [Hd1 Hl1]]]].
    assert (Hl' : forall v w0, In (v, w0) l -> In (u, v, w0) edges) by (intros v w0 H; apply Hl; right; exact H).
    destruct (IH _ _ Hl' HI1 HR1 Hu Hd1) as [HI2 [HR2 [Hv2 Hl2]]].
    split; [exact HI2|]. split; [|split; [congruence | cbn [length]; lia]].
    eapply rel_ok_weaken; [|exact HR2]. intros a v w' _ [H|[-> [H|H]]].
    + left. left. exact H.
    + inversion H; subst. left. right. auto.
    + right. auto.
Qed.

Lemma expand_inv ord s u c : inv (u :: ord) s -> rel_ok (fun a _ _ => a <> u) (u :: ord) s -> u < n ->
  dget s u = Some c ->
  let s' := fold_left (RsDij.explore u c) (wout edges u) s in
  inv (u :: ord) s' /\ rel_ok allE (u :: ord) s' /\ RsDij.visited s' = RsDij.visited s /\
  length (RsDij.hp s') <= length (wout edges u) + length (RsDij.hp s).
Proof.
  intros HI HR Hun Hdu s'.
  destruct (explore_fold (u :: ord) u c (wout edges u) s _ (fun v w H => proj1 (wout_In edges u v w) H)
              HI HR (or_introl eq_refl) Hdu) as [HI2 [HR2 [Hv2 Hl2]]].
  split; [exact HI2|]. split; [|split; assumption].
  eapply rel_ok_weaken; [|exact HR2]. intros a v w Hin _.
  destruct (Nat.eq_dec a u) as [->|Hne]; [right; split; [reflexivity|apply wout_In; exact Hin] | left; exact Hne].
Qed.

End Dij.
