(* C12 - Python-side model of solvor/dijkstra.py: dijkstra_edges() (backend="python").  Definitions only.
   With a target it calls dijkstra(..., max_iter=max(1_000_000, n_nodes + len(edges) + 1)) (modelled in SV.C11.BestFirst); without a target it runs its own
   "minimal Dijkstra" whose heap holds (distance, node) tuples: tuple order is total on distinct tuples and
   equal tuples are indistinguishable, so the heap is a list kept sorted by (d, u).  dist dict -> association
   list (only get / set, reported as a dict: compared as a node-indexed vector).  Weights f64 -> Z. *)
From Coq Require Import List ZArith Bool Arith.
From SV Require Import C11.Paths C11.BellmanFord C11.BestFirst C12.RsShortest.
Import ListNotations.
Open Scope Z_scope.

Module PyDij.

Fixpoint set_nth {A} (i : nat) (x : A) (l : list A) : list A :=
  match l, i with
  | [], _ => []
  | _ :: t, O => x :: t
  | h :: t, S k => h :: set_nth k x t
  end.

(* adj = [[] for _ in range(n_nodes)]; for u, v, w in edges: adj[u].append((v, w)) *)
Definition adj_of (n : nat) (edges : wgraph) : adjacency :=
  map (fun u => map (fun e => (snd (fst e), snd e)) (filter (fun e => Nat.eqb (fst (fst e)) u) edges)) (seq 0 n).

Definition tuple_ltb (a b : Z * nat) : bool :=
  (fst a <? fst b) || ((fst a =? fst b) && Nat.ltb (snd a) (snd b)).
Fixpoint hpush (e : Z * nat) (h : list (Z * nat)) : list (Z * nat) :=
  match h with
  | [] => [e]
  | x :: r => if tuple_ltb e x then e :: h else x :: hpush e r
  end.

(* dist as a node-indexed vector (None = key absent = inf) *)
Definition relax (d : Z) (st : list (option Z) * list (Z * nat)) (vw : nat * Z) : list (option Z) * list (Z * nat) :=
  let '(dist, heap) := st in
  let '(v, w) := vw in
  let nd := d + w in
  if flt (Some nd) (nth v dist None) then (set_nth v (Some nd) dist, hpush (nd, v) heap) else st.

(* while heap: d, u = heappop(heap); if d > dist.get(u, inf): continue; for v, w in adj[u]: ... *)
Fixpoint loop (fuel : nat) (a : adjacency) (dist : list (option Z)) (heap : list (Z * nat)) : option (list (option Z)) :=
  match heap with
  | [] => Some dist
  | (d, u) :: rest =>
      match fuel with
      | O => None
      | S f =>
          if flt (nth u dist None) (Some d) then loop f a dist rest
          else let '(dist', heap') := fold_left (relax d) (adj_nbrs a u) (dist, rest) in loop f a dist' heap'
      end
  end.

(* pushes <= 1 + number of strict decreases; crude bound: each pop of a non-stale entry scans its out-edges and
   a node is non-stale at most once per distinct distance value; the harness keeps inputs tiny - fuel is
   generous and exhaustion is reported as None *)
Definition fuel_of (n : nat) (edges : wgraph) : nat := S ((S (length edges)) * (S (length edges))).

Definition all_dists (n : nat) (edges : wgraph) (source : nat) : option (list (option Z)) :=
  loop (fuel_of n edges) (adj_of n edges) (set_nth source (Some 0) (repeat None n)) [(0, source)].

(* common observable with RsDij.result *)
Definition dijkstra_edges (n : nat) (edges : wgraph) (source : nat) (target : option nat) : option RsDij.result :=
  match target with
  | None => option_map RsDij.Dists (all_dists n edges source)
  | Some t =>
      match dijkstra (adj_of n edges) source [t] (Z.max 1000000 (Z.of_nat (n + length edges + 1))) None with
      | None => None
      | Some r =>
          match r_status r, r_path r, r_obj r with
          | OPTIMAL, Some p, Some d => Some (RsDij.Path p d)
          | INFEASIBLE, None, None => Some RsDij.Infeasible
          | _, _, _ => None
          end
      end
  end.

(* literal comparison (the Python path is deterministic: heap keys are made unique by the counter) *)
Definition nats_eqb := BF.nats_eqb.
Definition obs_eqb (m : option RsDij.result) (impl : RsDij.result) : bool :=
  match m, impl with
  | Some (RsDij.Path p d), RsDij.Path p' d' => nats_eqb p p' && Z.eqb d d'
  | Some RsDij.Infeasible, RsDij.Infeasible => true
  | Some (RsDij.Dists d), RsDij.Dists d' => BF.dvec_eqb d d'
  | _, _ => false
  end.

End PyDij.
