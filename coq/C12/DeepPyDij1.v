(* C12 deep equivalence, Python side of dijkstra_edges, part 1: basic facts about the model
   (adjacency lists of adj_of, set_nth, hpush, flt) and the Dijkstra invariant of the "minimal Dijkstra"
   (no closed set) with a GHOST settled set, preserved by one relaxation and by the relaxation fold. *)
From Coq Require Import List ZArith Bool Arith Lia Sorted.
From SV Require Import C11.Paths C11.PathsLemmas C11.BestFirst C11.BestGraph C11.BestProofsInst
  C12.RsShortest C12.PyDijkstra.
Import ListNotations.
Open Scope Z_scope.

(* ---------------------------------------------------------------- adjacency lists of adj_of *)
Lemma py_adj_length : forall n (E : wgraph), length (PyDij.adj_of n E) = n.
Proof. intros n E. unfold PyDij.adj_of. rewrite map_length, seq_length. reflexivity. Qed.

Lemma py_adj_nbrs_eq : forall n (E : wgraph) u, (u < n)%nat ->
  adj_nbrs (PyDij.adj_of n E) u
  = map (fun e : nat * nat * Z => (snd (fst e), snd e)) (filter (fun e : nat * nat * Z => Nat.eqb (fst (fst e)) u) E).
Proof.
  intros n E u Hu. unfold adj_nbrs, PyDij.adj_of.
  set (f := fun u0 : nat => map (fun e : nat * nat * Z => (snd (fst e), snd e))
                              (filter (fun e : nat * nat * Z => Nat.eqb (fst (fst e)) u0) E)).
  rewrite (nth_indep (map f (seq 0 n)) [] (f O)) by (rewrite map_length, seq_length; exact Hu).
  rewrite map_nth. rewrite seq_nth by exact Hu. reflexivity.
Qed.

Lemma py_adj_nbrs_out : forall n (E : wgraph) u, (n <= u)%nat -> adj_nbrs (PyDij.adj_of n E) u = [].
Proof.
  intros n E u Hu. unfold adj_nbrs. apply nth_overflow. rewrite py_adj_length. exact Hu.
Qed.

Lemma py_adj_nbrs_In : forall n (E : wgraph) u v w,
  In (v, w) (adj_nbrs (PyDij.adj_of n E) u) <-> (u < n)%nat /\ In (u, v, w) E.
Proof.
  intros n E u v w. destruct (Nat.lt_ge_cases u n) as [Hu|Hu].
  - rewrite py_adj_nbrs_eq by exact Hu. rewrite in_map_iff. split.
    + intros [[[a b] c] [Heq Hin]]. apply filter_In in Hin. destruct Hin as [Hin Hf].
      simpl in Heq, Hf. apply Nat.eqb_eq in Hf. inversion Heq; subst. split; [exact Hu|exact Hin].
    + intros [_ Hin]. exists (u, v, w). split; [reflexivity|]. apply filter_In. split; [exact Hin|].
      simpl. apply Nat.eqb_refl.
  - rewrite py_adj_nbrs_out by exact Hu. split; [intros []|]. intros [Hlt _]. lia.
Qed.

(* ---------------------------------------------------------------- set_nth *)
Lemma py_set_nth_length : forall {A} i (x : A) l, length (PyDij.set_nth i x l) = length l.
Proof.
  intros A i x l. revert i. induction l as [|h t IH]; intros i; destruct i; simpl; auto.
Qed.

Lemma py_set_nth_same : forall {A} i (x d : A) l, (i < length l)%nat -> nth i (PyDij.set_nth i x l) d = x.
Proof.
  intros A i x d l. revert i. induction l as [|h t IH]; intros i Hi; simpl in Hi; [lia|].
  destruct i; simpl; [reflexivity|]. apply IH. lia.
Qed.

Lemma py_set_nth_other : forall {A} i j (x d : A) l, i <> j -> nth j (PyDij.set_nth i x l) d = nth j l d.
Proof.
  intros A i j x d l. revert i j. induction l as [|h t IH]; intros i j Hij; destruct i; simpl; try reflexivity.
  - destruct j; [congruence|reflexivity].
  - destruct j; [reflexivity|]. apply IH. congruence.
Qed.

Lemma nth_repeat_None : forall {A} n i, nth i (repeat (@None A) n) None = None.
Proof.
  intros A n. induction n as [|n IH]; intros i; destruct i; simpl; auto.
Qed.

(* ---------------------------------------------------------------- the heap: sorted by cost *)
Definition cle2 (a b : Z * nat) : Prop := fst a <= fst b.
Definition csorted (h : list (Z * nat)) : Prop := StronglySorted cle2 h.

Lemma hpush_In : forall e e' h, In e' (PyDij.hpush e h) <-> e' = e \/ In e' h.
Proof.
  intros e e' h. induction h as [|x r IH]; simpl.
  - intuition.
  - destruct (PyDij.tuple_ltb e x); simpl; [intuition|]. rewrite IH. intuition.
Qed.

Lemma hpush_length : forall e h, length (PyDij.hpush e h) = S (length h).
Proof.
  intros e h. induction h as [|x r IH]; simpl; [reflexivity|].
  destruct (PyDij.tuple_ltb e x); simpl; lia.
Qed.

Lemma tuple_ltb_true_le : forall a b, PyDij.tuple_ltb a b = true -> fst a <= fst b.
Proof.
  intros a b H. unfold PyDij.tuple_ltb in H. apply orb_true_iff in H. destruct H as [H|H].
  - apply Z.ltb_lt in H. lia.
  - apply andb_true_iff in H. destruct H as [H _]. apply Z.eqb_eq in H. lia.
Qed.

Lemma tuple_ltb_false_le : forall a b, PyDij.tuple_ltb a b = false -> fst b <= fst a.
Proof.
  intros a b H. unfold PyDij.tuple_ltb in H. apply orb_false_iff in H. destruct H as [H _].
  apply Z.ltb_ge in H. exact H.
Qed.

Lemma hpush_sorted : forall e h, csorted h -> csorted (PyDij.hpush e h).
Proof.
  intros e h. induction h as [|x r IH]; intros Hs; simpl.
  - constructor; constructor.
  - inversion Hs as [|x' r' Hr Hall]; subst.
    destruct (PyDij.tuple_ltb e x) eqn:T.
    + constructor; [exact Hs|]. apply tuple_ltb_true_le in T. constructor; [exact T|].
      eapply Forall_impl; [|exact Hall]. intros a Ha. unfold cle2 in *. lia.
    + constructor; [apply IH; exact Hr|]. apply tuple_ltb_false_le in T.
      apply Forall_forall. intros y Hy. apply hpush_In in Hy. destruct Hy as [Hy|Hy].
      * subst y. exact T.
      * rewrite Forall_forall in Hall. apply Hall. exact Hy.
Qed.

Lemma csorted_head : forall d u rest c v, csorted ((d, u) :: rest) -> In (c, v) ((d, u) :: rest) -> d <= c.
Proof.
  intros d u rest c v Hs Hin. inversion Hs as [|x r Hr Hall]; subst.
  destruct Hin as [Hin|Hin].
  - inversion Hin; subst. lia.
  - rewrite Forall_forall in Hall. apply (Hall _ Hin).
Qed.

Lemma csorted_tail : forall x rest, csorted (x :: rest) -> csorted rest.
Proof. intros x rest Hs. inversion Hs; assumption. Qed.

(* ---------------------------------------------------------------- flt *)
Lemma flt_Some_true : forall x o, flt (Some x) o = true <-> (o = None \/ exists y, o = Some y /\ x < y).
Proof.
  intros x o. destruct o as [y|]; simpl.
  - rewrite Z.ltb_lt. split.
    + intros H. right. exists y. split; [reflexivity|exact H].
    + intros [H|[y' [H1 H2]]]; [discriminate|]. inversion H1; subst. exact H2.
  - split; [intros _; left; reflexivity|reflexivity].
Qed.

Lemma flt_Some_false : forall x o, flt (Some x) o = false <-> exists y, o = Some y /\ y <= x.
Proof.
  intros x o. destruct o as [y|]; simpl.
  - rewrite Z.ltb_ge. split.
    + intros H. exists y. split; [reflexivity|exact H].
    + intros [y' [H1 H2]]. inversion H1; subst. exact H2.
  - split; [discriminate|]. intros [y [H _]]. discriminate.
Qed.

(* ================================================================ the invariant *)
Section PyInv.
  Variable n : nat.
  Variable E : wgraph.
  Variable source : nat.
  Hypothesis Hs : (source < n)%nat.
  Hypothesis Hv : Forall (fun e : nat * nat * Z => (fst (fst e) < n)%nat /\ (snd (fst e) < n)%nat /\ 0 <= snd e) E.

  Lemma edge_valid : forall u v w, In (u, v, w) E -> (u < n)%nat /\ (v < n)%nat /\ 0 <= w.
  Proof.
    intros u v w Hin. rewrite Forall_forall in Hv. apply (Hv _ Hin).
  Qed.

  Lemma walk_nonneg : forall u t p d, walk E u t p d -> 0 <= d.
  Proof.
    intros u t p d H. induction H as [u|u v t p w d Hin Hw IH]; [lia|].
    destruct (edge_valid _ _ _ Hin) as [_ [_ Hw0]]. lia.
  Qed.

  Definition mono (dist dist' : list (option Z)) : Prop :=
    forall x dx, nth x dist None = Some dx -> exists dx', nth x dist' None = Some dx' /\ dx' <= dx.

  Lemma mono_refl : forall dist, mono dist dist.
  Proof. intros dist x dx H. exists dx. split; [exact H|lia]. Qed.

  Lemma mono_trans : forall a b c, mono a b -> mono b c -> mono a c.
  Proof.
    intros a b c Hab Hbc x dx H. destruct (Hab _ _ H) as [d1 [H1 L1]]. destruct (Hbc _ _ H1) as [d2 [H2 L2]].
    exists d2. split; [exact H2|lia].
  Qed.

  (* S: ghost settled set (final distances); D (subset of S): nodes whose out-edges are all relaxed *)
  Record inv (S D : list nat) (dist : list (option Z)) (heap : list (Z * nat)) : Prop := {
    i_walk : forall v d, nth v dist None = Some d -> exists p, walk E source v p d;
    i_src : nth source dist None = Some 0;
    i_len : length dist = n;
    i_DS : incl D S;
    i_fin : forall u, In u S -> exists d, nth u dist None = Some d /\ forall p d', walk E source u p d' -> d <= d';
    i_edge : forall u v w du, In u D -> In (u, v, w) E -> nth u dist None = Some du ->
               exists dv, nth v dist None = Some dv /\ dv <= du + w;
    i_heap : forall v d, ~ In v S -> nth v dist None = Some d -> In (d, v) heap;
    i_hp : forall c v, In (c, v) heap -> (v < n)%nat /\ exists d, nth v dist None = Some d /\ d <= c;
    i_sorted : csorted heap
  }.

  Lemma relax_inv : forall S D dist heap u d v w dist' heap',
    inv S D dist heap -> nth u dist None = Some d -> In (u, v, w) E ->
    PyDij.relax d (dist, heap) (v, w) = (dist', heap') ->
    inv S D dist' heap' /\ nth u dist' None = Some d /\ mono dist dist'
    /\ (exists dv, nth v dist' None = Some dv /\ dv <= d + w)
    /\ (length heap' <= Datatypes.S (length heap))%nat.
  Proof.
    intros S D dist heap u d v w dist' heap' I Hu Hin R.
    destruct (edge_valid _ _ _ Hin) as [Hun [Hvn Hw0]].
    destruct (i_walk _ _ _ _ I _ _ Hu) as [pu Wu].
    pose proof (walk_nonneg _ _ _ _ Wu) as Hd0.
    pose proof (i_len _ _ _ _ I) as Hlen.
    unfold PyDij.relax in R. destruct (flt (Some (d + w)) (nth v dist None)) eqn:F.
    - inversion R; subst dist' heap'. clear R.
      assert (Hvl : (v < length dist)%nat) by (rewrite Hlen; exact Hvn).
      assert (Hnew : nth v (PyDij.set_nth v (Some (d + w)) dist) None = Some (d + w))
        by (apply py_set_nth_same; exact Hvl).
      assert (Hold : forall x, x <> v -> nth x (PyDij.set_nth v (Some (d + w)) dist) None = nth x dist None)
        by (intros x Hx; apply py_set_nth_other; congruence).
      apply flt_Some_true in F.
      (* the new value is below any old value of v *)
      assert (Hlt : forall dv, nth v dist None = Some dv -> d + w < dv).
      { intros dv Hdv. destruct F as [F|[y [F1 F2]]]; [congruence|]. rewrite Hdv in F1. inversion F1; subst. exact F2. }
      assert (Wv : walk E source v (pu ++ [v]) (d + w)) by (eapply walk_snoc; eassumption).
      assert (HvS : ~ In v S).
      { intros HvS. destruct (i_fin _ _ _ _ I _ HvS) as [dv [Hdv Hmin]].
        specialize (Hmin _ _ Wv). specialize (Hlt _ Hdv). lia. }
      assert (Huv : u <> v).
      { intros ->. specialize (Hlt _ Hu). lia. }
      assert (Hmono : mono dist (PyDij.set_nth v (Some (d + w)) dist)).
      { intros x dx Hx. destruct (Nat.eq_dec x v) as [->|Hxv].
        - exists (d + w). split; [exact Hnew|]. specialize (Hlt _ Hx). lia.
        - exists dx. rewrite Hold by exact Hxv. split; [exact Hx|lia]. }
      split; [|split; [rewrite Hold by exact Huv; exact Hu|split; [exact Hmono|split]]].
      + constructor.
        * intros x dx Hx. destruct (Nat.eq_dec x v) as [->|Hxv].
          -- rewrite Hnew in Hx. inversion Hx; subst. eexists; exact Wv.
          -- rewrite Hold in Hx by exact Hxv. eapply (i_walk _ _ _ _ I); exact Hx.
        * destruct (Nat.eq_dec source v) as [Hsv|Hsv].
          -- subst v. specialize (Hlt _ (i_src _ _ _ _ I)). lia.
          -- rewrite Hold by exact Hsv. apply (i_src _ _ _ _ I).
        * rewrite py_set_nth_length. exact Hlen.
        * apply (i_DS _ _ _ _ I).
        * intros x Hx. assert (Hxv : x <> v) by (intros ->; contradiction).
          rewrite Hold by exact Hxv. apply (i_fin _ _ _ _ I). exact Hx.
        * intros x y wy dx Hx Hxy Hdx.
          assert (HxS : In x S) by (apply (i_DS _ _ _ _ I); exact Hx).
          assert (Hxv : x <> v) by (intros ->; contradiction).
          rewrite Hold in Hdx by exact Hxv.
          destruct (i_edge _ _ _ _ I _ _ _ _ Hx Hxy Hdx) as [dy [Hdy Ly]].
          destruct (Nat.eq_dec y v) as [->|Hyv].
          -- exists (d + w). split; [exact Hnew|]. specialize (Hlt _ Hdy). lia.
          -- exists dy. rewrite Hold by exact Hyv. split; [exact Hdy|exact Ly].
        * intros x dx HxS Hx. apply hpush_In. destruct (Nat.eq_dec x v) as [->|Hxv].
          -- rewrite Hnew in Hx. inversion Hx; subst. left. reflexivity.
          -- right. rewrite Hold in Hx by exact Hxv. apply (i_heap _ _ _ _ I); assumption.
        * intros c x Hcx. apply hpush_In in Hcx. destruct Hcx as [Hcx|Hcx].
          -- inversion Hcx; subst. split; [exact Hvn|]. exists (d + w). split; [exact Hnew|lia].
          -- destruct (i_hp _ _ _ _ I _ _ Hcx) as [Hxn [dx [Hdx Lx]]]. split; [exact Hxn|].
             destruct (Hmono _ _ Hdx) as [dx' [Hdx' Lx']]. exists dx'. split; [exact Hdx'|lia].
        * apply hpush_sorted. apply (i_sorted _ _ _ _ I).
      + exists (d + w). split; [exact Hnew|lia].
      + rewrite hpush_length. lia.
    - inversion R; subst dist' heap'. clear R.
      apply flt_Some_false in F. destruct F as [y [Hy Ly]].
      split; [exact I|split; [exact Hu|split; [apply mono_refl|split]]].
      + exists y. split; [exact Hy|exact Ly].
      + lia.
  Qed.

  Lemma fold_relax_inv : forall S D u d l dist heap dist' heap',
    inv S D dist heap -> nth u dist None = Some d -> (forall v w, In (v, w) l -> In (u, v, w) E) ->
    fold_left (PyDij.relax d) l (dist, heap) = (dist', heap') ->
    inv S D dist' heap' /\ nth u dist' None = Some d /\ mono dist dist'
    /\ (forall v w, In (v, w) l -> exists dv, nth v dist' None = Some dv /\ dv <= d + w)
    /\ (length heap' <= length l + length heap)%nat.
  Proof.
    intros S D u d l. induction l as [|[v w] l IH]; intros dist heap dist' heap' I Hu Hl R; cbn [fold_left] in R.
    - inversion R; subst. split; [exact I|split; [exact Hu|split; [apply mono_refl|split]]].
      + intros v w [].
      + simpl. lia.
    - destruct (PyDij.relax d (dist, heap) (v, w)) as [d1 h1] eqn:R1.
      assert (Hin : In (u, v, w) E) by (apply Hl; left; reflexivity).
      destruct (relax_inv _ _ _ _ _ _ _ _ _ _ I Hu Hin R1) as [I1 [Hu1 [M1 [[dv [Hdv Lv]] Hlen1]]]].
      assert (Hl' : forall v0 w0, In (v0, w0) l -> In (u, v0, w0) E) by (intros v0 w0 H0; apply Hl; right; exact H0).
      destruct (IH _ _ _ _ I1 Hu1 Hl' R) as [I2 [Hu2 [M2 [Hall Hlen2]]]].
      split; [exact I2|split; [exact Hu2|split; [eapply mono_trans; eassumption|split]]].
      + intros v0 w0 [H0|H0].
        * inversion H0; subst v0 w0. destruct (M2 _ _ Hdv) as [dv' [Hdv' Lv']]. exists dv'. split; [exact Hdv'|lia].
        * apply Hall. exact H0.
      + simpl. lia.
  Qed.

  (* relaxing from a node whose out-edges are already all relaxed changes nothing *)
  Lemma fold_relax_noop : forall d l dist heap,
    (forall v w, In (v, w) l -> exists dv, nth v dist None = Some dv /\ dv <= d + w) ->
    fold_left (PyDij.relax d) l (dist, heap) = (dist, heap).
  Proof.
    intros d l dist heap. induction l as [|[v w] l IH]; intros H; cbn [fold_left]; [reflexivity|].
    assert (F : flt (Some (d + w)) (nth v dist None) = false).
    { apply flt_Some_false. apply H. left. reflexivity. }
    unfold PyDij.relax at 2. rewrite F. apply IH. intros v0 w0 H0. apply H. right. exact H0.
  Qed.
End PyInv.
