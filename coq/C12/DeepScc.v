(* C12 (deepening): the Rust-side model of Tarjan's SCC (RsScc.scc_edges: arrays indexed by node) and the
   Python-side model (C14.Scc.scc_edges: insertion-ordered dicts / sets as lists) return the IDENTICAL component
   list on every valid edge-list input.  Proof: lock-step simulation.  Both are the same recursive algorithm
   (same neighbour order, same fuel S n); only the data representation differs.  The abstraction relation [R]
   relates dict look-ups to array reads for all nodes < n.  Python's `finish` compares low_link[v] with index[v]
   through [agetd 0], Rust unwraps indices[v]: we carry "indices[v] stays defined" ([mono]) through the simulation.

   Corollaries: both sides satisfy the C14 specification (partition, classes = mutual reachability, sinks first). *)
From Coq Require Import List Arith Bool Lia.
From SV Require Import C14.Scc C14.SccSpec C14.SccLemmas C14.Main C12.RsScc C12.TopoEquiv.
Import ListNotations.

(* ---------------------------------------------------------------- sets as lists *)
Lemma mem_remove x w l : mem x (remove Nat.eq_dec w l) = negb (x =? w) && mem x l.
Proof.
  unfold mem. induction l as [|h t IH]; simpl.
  - now rewrite andb_false_r.
  - destruct (Nat.eq_dec w h) as [E|E].
    + subst h. rewrite IH. destruct (Nat.eqb_spec x w) as [E1|E1]; reflexivity.
    + simpl. rewrite IH. destruct (Nat.eqb_spec x w) as [E1|E1]; destruct (Nat.eqb_spec x h) as [E2|E2];
        simpl; try reflexivity. exfalso. apply E. congruence.
Qed.

Lemma mem_seq w n : w < n -> mem w (seq 0 n) = true.
Proof. intros H. apply mem_In. apply in_seq. lia. Qed.

(* ---------------------------------------------------------------- the abstraction relation *)
Record R (n : nat) (ps : st) (rs : RsScc.st) : Prop := mkR {
  R_ctr : ctr ps = RsScc.counter rs;
  R_stk : stk ps = RsScc.stack rs;
  R_comps : comps ps = RsScc.components rs;
  R_li : length (RsScc.indices rs) = n;
  R_ll : length (RsScc.lowlinks rs) = n;
  R_lo : length (RsScc.on_stack rs) = n;
  R_idx : forall v, v < n -> aget (idx ps) v = nth v (RsScc.indices rs) None;
  R_low : forall v, v < n -> agetd 0 (low ps) v = nth v (RsScc.lowlinks rs) 0;
  R_on : forall v, v < n -> mem v (onstk ps) = nth v (RsScc.on_stack rs) false;
  R_lt : forall v, In v (RsScc.stack rs) -> v < n }.

(* indices[v] is defined *)
Definition defd (rs : RsScc.st) (v : nat) : Prop := nth v (RsScc.indices rs) None <> None.
Definition mono (rs rs' : RsScc.st) : Prop := forall v, defd rs v -> defd rs' v.

Definition osim (n : nat) (rs : RsScc.st) (op : option st) (orr : option RsScc.st) : Prop :=
  match op, orr with
  | Some ps', Some rs' => R n ps' rs' /\ mono rs rs'
  | None, None => True
  | _, _ => False
  end.

Lemma mono_refl rs : mono rs rs.
Proof. intros v H. exact H. Qed.

Lemma osim_weaken n rs rs1 op orr : mono rs rs1 -> osim n rs1 op orr -> osim n rs op orr.
Proof.
  intros Hm H. destruct op as [ps'|]; destruct orr as [rs'|]; simpl in *; try exact H.
  destruct H as [HR Hm']. split; [exact HR|]. intros v Hv. apply Hm'. apply Hm. exact Hv.
Qed.

Lemma R_set_low n ps rs v x : R n ps rs -> v < n -> R n (set_low ps v x) (RsScc.set_low rs v x).
Proof.
  intros [H1 H2 H3 H4 H5 H6 H7 H8 H9 H10] Hv. constructor; simpl; try assumption.
  - rewrite length_set_nth. exact H5.
  - intros y Hy. destruct (Nat.eq_dec v y) as [E|E].
    + subst y. rewrite agetd_aset_eq. rewrite nth_set_nth_eq by lia. reflexivity.
    + rewrite agetd_aset_neq by exact E. rewrite nth_set_nth_neq by exact E. apply H8. exact Hy.
Qed.

Lemma R_enter n ps rs v : R n ps rs -> v < n -> R n (enter v ps) (RsScc.enter v rs).
Proof.
  intros [H1 H2 H3 H4 H5 H6 H7 H8 H9 H10] Hv. constructor; simpl; try assumption.
  - f_equal. exact H1.
  - f_equal. exact H2.
  - rewrite length_set_nth. exact H4.
  - rewrite length_set_nth. exact H5.
  - rewrite length_set_nth. exact H6.
  - intros y Hy. rewrite H1. destruct (Nat.eq_dec v y) as [E|E].
    + subst y. rewrite aget_aset_eq. rewrite nth_set_nth_eq by lia. reflexivity.
    + rewrite aget_aset_neq by exact E. rewrite nth_set_nth_neq by exact E. apply H7. exact Hy.
  - intros y Hy. rewrite H1. destruct (Nat.eq_dec v y) as [E|E].
    + subst y. rewrite agetd_aset_eq. rewrite nth_set_nth_eq by lia. reflexivity.
    + rewrite agetd_aset_neq by exact E. rewrite nth_set_nth_neq by exact E. apply H8. exact Hy.
  - intros y Hy. unfold mem. simpl. fold (mem y (onstk ps)). destruct (Nat.eqb_spec y v) as [E|E].
    + subst y. rewrite nth_set_nth_eq by lia. reflexivity.
    + simpl. rewrite nth_set_nth_neq by (intros E'; apply E; symmetry; exact E'). apply H9. exact Hy.
  - intros y [Hy|Hy]; [subst y; exact Hv | apply H10; exact Hy].
Qed.

Lemma defd_enter n ps rs v : R n ps rs -> v < n -> defd (RsScc.enter v rs) v.
Proof.
  intros HR Hv. unfold defd. simpl. rewrite nth_set_nth_eq by (rewrite (R_li _ _ _ HR); exact Hv). discriminate.
Qed.

Lemma mono_enter rs v : mono rs (RsScc.enter v rs).
Proof.
  intros x Hx. unfold defd in *. simpl. destruct (Nat.eq_dec v x) as [E|E].
  - subst x. destruct (Nat.lt_ge_cases v (length (RsScc.indices rs))) as [L|L].
    + rewrite nth_set_nth_eq by exact L. discriminate.
    + exfalso. apply Hx. apply nth_overflow. exact L.
  - rewrite nth_set_nth_neq by exact E. exact Hx.
Qed.

(* ---------------------------------------------------------------- popping a component *)
Lemma pop_sim n v : forall stack onp onr acc,
  (forall x, In x stack -> x < n) -> length onr = n ->
  (forall x, x < n -> mem x onp = nth x onr false) ->
  match pop_until v stack onp acc, RsScc.pop_until v stack onr acc with
  | Some (s1, o1, c1), Some (s2, o2, c2) =>
      s1 = s2 /\ c1 = c2 /\ length o2 = n /\ (forall x, x < n -> mem x o1 = nth x o2 false) /\
      (forall x, In x s2 -> In x stack)
  | None, None => True
  | _, _ => False
  end.
Proof.
  induction stack as [|w r IH]; intros onp onr acc Hlt Hlen Hon; simpl.
  - exact I.
  - assert (Hon' : forall x, x < n -> mem x (remove Nat.eq_dec w onp) = nth x (RsScc.set_nth w false onr) false).
    { intros x Hx. rewrite mem_remove. destruct (Nat.eqb_spec x w) as [E|E]; simpl.
      - subst x. rewrite nth_set_nth_eq by lia. reflexivity.
      - rewrite nth_set_nth_neq by (intros E'; apply E; symmetry; exact E'). apply Hon. exact Hx. }
    assert (Hlen' : length (RsScc.set_nth w false onr) = n) by (rewrite length_set_nth; exact Hlen).
    destruct (w =? v).
    + split; [reflexivity|]. split; [reflexivity|]. split; [exact Hlen'|]. split; [exact Hon'|].
      intros x Hx. right. exact Hx.
    + pose proof (IH (remove Nat.eq_dec w onp) (RsScc.set_nth w false onr) (acc ++ [w])
                     (fun x Hx => Hlt x (or_intror Hx)) Hlen' Hon') as H.
      revert H.
      destruct (pop_until v r (remove Nat.eq_dec w onp) (acc ++ [w])) as [[[s1 o1] c1]|];
        destruct (RsScc.pop_until v r (RsScc.set_nth w false onr) (acc ++ [w])) as [[[s2 o2] c2]|];
        intros H; try exact H; try (exfalso; exact H).
      destruct H as (A & B & C & D & E). split; [exact A|]. split; [exact B|]. split; [exact C|].
      split; [exact D|]. intros x Hx. right. apply E. exact Hx.
Qed.

Lemma finish_sim n v ps rs : R n ps rs -> v < n -> defd rs v -> osim n rs (finish v ps) (RsScc.finish v rs).
Proof.
  intros HR Hv Hd. pose proof HR as [H1 H2 H3 H4 H5 H6 H7 H8 H9 H10].
  unfold finish, RsScc.finish, RsScc.low. unfold defd in Hd. pose proof (H7 v Hv) as Hi.
  destruct (nth v (RsScc.indices rs) None) as [iv|] eqn:E; [|exfalso; apply Hd; reflexivity].
  assert (Ha : agetd 0 (idx ps) v = iv) by (unfold agetd; rewrite Hi; reflexivity).
  rewrite Ha, (H8 v Hv). destruct (nth v (RsScc.lowlinks rs) 0 =? iv).
  - rewrite H2. pose proof (pop_sim n v (RsScc.stack rs) (onstk ps) (RsScc.on_stack rs) [] H10 H6 H9) as H.
    revert H.
    destruct (pop_until v (RsScc.stack rs) (onstk ps) []) as [[[s1 o1] c1]|];
      destruct (RsScc.pop_until v (RsScc.stack rs) (RsScc.on_stack rs) []) as [[[s2 o2] c2]|];
      intros H; try exact H; try (exfalso; exact H).
    destruct H as (A & B & C & D & F). subst s2 c2. split; [|intros x Hx; exact Hx].
    constructor; simpl; try assumption; try reflexivity.
    + rewrite H3. reflexivity.
    + intros x Hx. apply H10. apply F. exact Hx.
  - split; [exact HR | apply mono_refl].
Qed.

(* ---------------------------------------------------------------- the neighbour loop *)
Definition sim (n : nat) (fp : nat -> st -> option st) (fr : nat -> RsScc.st -> option RsScc.st) : Prop :=
  forall w ps rs, w < n -> R n ps rs -> osim n rs (fp w ps) (fr w rs).

Lemma loop_sim n fp fr v : sim n fp fr -> v < n ->
  forall ws, (forall w, In w ws -> w < n) ->
  forall ps rs, R n ps rs -> osim n rs (sc_loop fp (seq 0 n) v ws ps) (RsScc.sc_loop fr v ws rs).
Proof.
  intros Hsim Hv. induction ws as [|w r IH]; intros Hws ps rs HR; simpl.
  - split; [exact HR | apply mono_refl].
  - assert (Hw : w < n) by (apply Hws; left; reflexivity).
    assert (Hr : forall x, In x r -> x < n) by (intros x Hx; apply Hws; right; exact Hx).
    rewrite (mem_seq w n Hw). simpl. rewrite (R_idx _ _ _ HR w Hw).
    destruct (nth w (RsScc.indices rs) None) as [iw|] eqn:E.
    + rewrite (R_on _ _ _ HR w Hw). destruct (nth w (RsScc.on_stack rs) false).
      * unfold RsScc.low. rewrite (R_low _ _ _ HR v Hv).
        eapply osim_weaken; [|apply (IH Hr); apply R_set_low; [exact HR | exact Hv]].
        intros x Hx. exact Hx.
      * apply (IH Hr). exact HR.
    + pose proof (Hsim w ps rs Hw HR) as H. revert H.
      destruct (fp w ps) as [ps1|]; destruct (fr w rs) as [rs1|]; intros H; try exact H; try (exfalso; exact H).
      destruct H as [HR1 Hm1]. unfold RsScc.low.
      rewrite (R_low _ _ _ HR1 v Hv), (R_low _ _ _ HR1 w Hw).
      eapply osim_weaken; [|apply (IH Hr); apply R_set_low; [exact HR1 | exact Hv]].
      intros x Hx. apply Hm1 in Hx. exact Hx.
Qed.

(* ---------------------------------------------------------------- strongconnect, main *)
Section Graph.
  Variable n : nat.
  Variable edges : list (nat * nat).
  Hypothesis HV : evalid n edges.
  Let g := graph_of_edges n edges.
  Let a := RsScc.build_adjacency n edges.

  Lemma sc_sim : forall fuel, sim n (strongconnect fuel g (seq 0 n)) (RsScc.strongconnect fuel a).
  Proof.
    induction fuel as [|f IH]; intros v ps rs Hv HR.
    - exact I.
    - cbn [strongconnect RsScc.strongconnect]. unfold g, a. rewrite py_nbr, (rs_adj n edges v Hv HV).
      fold g. fold a.
      pose proof (loop_sim n _ _ v IH Hv (out_of edges v) (fun w Hw => out_of_lt n edges v w HV Hw)
                           _ _ (R_enter n ps rs v HR Hv)) as H.
      revert H.
      destruct (sc_loop (strongconnect f g (seq 0 n)) (seq 0 n) v (out_of edges v) (enter v ps)) as [ps2|];
        destruct (RsScc.sc_loop (RsScc.strongconnect f a) v (out_of edges v) (RsScc.enter v rs)) as [rs2|];
        intros H; try exact H; try (exfalso; exact H).
      destruct H as [HR2 Hm2].
      apply (osim_weaken n rs rs2).
      + intros x Hx. apply Hm2. apply mono_enter. exact Hx.
      + apply finish_sim; [exact HR2 | exact Hv |]. apply Hm2. apply (defd_enter n ps rs v HR Hv).
  Qed.

  Lemma main_sim fuel : forall vs, (forall v, In v vs -> v < n) ->
    forall ps rs, R n ps rs -> osim n rs (scc_main fuel g (seq 0 n) vs ps) (RsScc.main fuel a vs rs).
  Proof.
    induction vs as [|v r IH]; intros Hvs ps rs HR; simpl.
    - split; [exact HR | apply mono_refl].
    - assert (Hv : v < n) by (apply Hvs; left; reflexivity).
      assert (Hr : forall x, In x r -> x < n) by (intros x Hx; apply Hvs; right; exact Hx).
      rewrite (R_idx _ _ _ HR v Hv). destruct (nth v (RsScc.indices rs) None) as [iv|].
      + apply (IH Hr). exact HR.
      + pose proof (sc_sim fuel v ps rs Hv HR) as H. revert H.
        destruct (strongconnect fuel g (seq 0 n) v ps) as [ps1|];
          destruct (RsScc.strongconnect fuel a v rs) as [rs1|]; intros H; try exact H; try (exfalso; exact H).
        destruct H as [HR1 Hm1]. apply (osim_weaken n rs rs1 _ _ Hm1). apply (IH Hr). exact HR1.
  Qed.
End Graph.

Lemma R_init n : R n st0 (RsScc.mk 0 (repeat None n) (repeat 0 n) (repeat false n) [] []).
Proof.
  constructor; simpl; try reflexivity; try apply repeat_length.
  - intros v Hv. rewrite nth_repeat_lt by exact Hv. reflexivity.
  - intros v Hv. rewrite nth_repeat_lt by exact Hv. reflexivity.
  - intros v Hv. rewrite nth_repeat_lt by exact Hv. reflexivity.
  - intros v [].
Qed.

(* ---------------------------------------------------------------- the theorems *)
Theorem scc_equiv : forall n edges, evalidb n edges = true ->
  RsScc.scc_edges n edges = Scc.scc_edges n edges.
Proof.
  intros n edges Hb. apply evalidb_evalid in Hb.
  unfold RsScc.scc_edges, scc_edges, scc, scc_state, scc_fuel. rewrite seq_length.
  pose proof (main_sim n edges Hb (S n) (seq 0 n)) as H.
  assert (Hs : forall v, In v (seq 0 n) -> v < n) by (intros v Hv; apply in_seq in Hv; lia).
  specialize (H Hs _ _ (R_init n)). revert H.
  destruct (scc_main (S n) (graph_of_edges n edges) (seq 0 n) (seq 0 n) st0) as [ps|];
    destruct (RsScc.main (S n) (RsScc.build_adjacency n edges) (seq 0 n)
                (RsScc.mk 0 (repeat None n) (repeat 0 n) (repeat false n) [] [])) as [rs|];
    intros H; simpl in *; try contradiction; try reflexivity.
  destruct H as [HR _]. f_equal. symmetry. apply (R_comps _ _ _ HR).
Qed.

Theorem scc_both_spec : forall n edges, evalidb n edges = true ->
  exists cs, RsScc.scc_edges n edges = Some cs /\ Scc.scc_edges n edges = Some cs /\
             scc_spec (graph_of_edges n edges) (seq 0 n) cs.
Proof.
  intros n edges Hb. destruct (scc_edges_spec n edges) as [cs [Hcs Hspec]].
  exists cs. split; [rewrite (scc_equiv n edges Hb); exact Hcs|]. split; [exact Hcs | exact Hspec].
Qed.

(* readable form: same output on both sides; it is a partition of 0..n-1 into non-empty classes, and two nodes
   share a class iff each reaches the other *)
Theorem scc_both_classes : forall n edges, evalidb n edges = true ->
  exists cs, RsScc.scc_edges n edges = Some cs /\ Scc.scc_edges n edges = Some cs /\
             is_partition (seq 0 n) cs /\
             forall x y, x < n -> y < n ->
               ((exists c, In c cs /\ In x c /\ In y c) <->
                (reach (graph_of_edges n edges) (seq 0 n) x y /\ reach (graph_of_edges n edges) (seq 0 n) y x)).
Proof.
  intros n edges Hb. destruct (scc_both_spec n edges Hb) as [cs [H1 [H2 [Hp [Hc _]]]]].
  exists cs. split; [exact H1|]. split; [exact H2|]. split; [exact Hp|].
  intros x y Hx Hy. apply (Hc x y); apply in_seq; lia.
Qed.

(* non-vacuity: a valid input with two non-trivial classes; both sides computed *)
Example scc_equiv_ex :
  evalidb 5 [(0,1);(1,2);(2,0);(2,3);(3,4);(4,3)] = true /\
  RsScc.scc_edges 5 [(0,1);(1,2);(2,0);(2,3);(3,4);(4,3)] = Some [[4;3];[2;1;0]] /\
  Scc.scc_edges 5 [(0,1);(1,2);(2,0);(2,3);(3,4);(4,3)] = Some [[4;3];[2;1;0]].
Proof. vm_compute. repeat split. Qed.

Print Assumptions scc_equiv.
Print Assumptions scc_both_classes.
