(* C12 dfs_edges, deep equivalence, part 1: generic lemmas for the Rust-side DFS (rust/src/algorithms/bfs.rs dfs):
   - successor-function transfer of paths (Python adjacency list vs. the common out_of),
   - what one neighbour loop (fold_left dfs_explore) does,
   - the termination measure (stack length + number of edges leaving an unvisited node),
   - reconstruct_path along a predecessor array whose chains descend into the visit order. *)
From Coq Require Import List ZArith Bool Arith Lia Permutation.
From SV Require Import C11.Paths C11.PathsLemmas C11.Bfs C11.BfsProofs1 C12.RsSearch C12.BfsEquiv.
Import ListNotations.
Import RsSearch.
Local Open Scope nat_scope.

(* ---------------------------------------------------------------- paths and successor functions *)
Lemma path_in_ext (succ succ' : nat -> list nat) : forall p,
  (forall u, In u p -> succ u = succ' u) -> path_in succ p -> path_in succ' p.
Proof.
  induction p as [|u p IH]; intros Hext Hp; [exact Hp|].
  destruct p as [|v p]; [exact I|].
  destruct Hp as [Huv Hp]. split.
  - rewrite <- (Hext u (or_introl eq_refl)). exact Huv.
  - apply IH; [|exact Hp]. intros w Hw. apply Hext. right. exact Hw.
Qed.

Lemma path_nodes_lt (succ : nat -> list nat) n : (forall u w, u < n -> In w (succ u) -> w < n) ->
  forall p s, s < n -> path_in succ p -> hd_error p = Some s -> forall x, In x p -> x < n.
Proof.
  intros Hcl. induction p as [|u p IH]; intros s Hs Hp Hh x Hx; [destruct Hp|].
  injection Hh as ->. destruct p as [|v p].
  - destruct Hx as [<-|[]]. exact Hs.
  - destruct Hp as [Huv Hp]. destruct Hx as [<-|Hx]; [exact Hs|].
    apply (IH v); [eapply Hcl; eauto | exact Hp | reflexivity | exact Hx].
Qed.

Lemma is_path_ext (succ succ' : nat -> list nat) n s t p :
  (forall u, u < n -> succ u = succ' u) -> (forall u w, u < n -> In w (succ u) -> w < n) -> s < n ->
  is_path succ s t p -> is_path succ' s t p.
Proof.
  intros Hext Hcl Hs (Hp & Hh & Hl & Hne). split; [|auto].
  apply (path_in_ext succ succ'); [|exact Hp].
  intros u Hu. apply Hext. eapply path_nodes_lt; eauto.
Qed.

Lemma reach_ext (succ succ' : nat -> list nat) n s t :
  (forall u, u < n -> succ u = succ' u) -> (forall u w, u < n -> In w (succ u) -> w < n) -> s < n ->
  reach succ s t -> reach succ' s t.
Proof. intros Hext Hcl Hs [p Hp]. exists p. eapply is_path_ext; eauto. Qed.

Lemma reach_lt (succ : nat -> list nat) n s t : (forall u w, u < n -> In w (succ u) -> w < n) -> s < n ->
  reach succ s t -> t < n.
Proof.
  intros Hcl Hs (p & Hp & Hh & Hl & Hne). subst t.
  apply (path_nodes_lt succ n Hcl p s Hs Hp Hh).
  destruct p as [|a p]; [congruence|]. rewrite (last_default (a :: p) s a) by discriminate.
  destruct (exists_last (l := a :: p)) as (q & z & E); [discriminate|]. rewrite E, last_last.
  apply in_or_app. right. left. reflexivity.
Qed.

Lemma reach_refl (succ : nat -> list nat) s : reach succ s s.
Proof. exists [s]. apply is_path_single. Qed.

Lemma reach_snoc (succ : nat -> list nat) s u c : reach succ s u -> In c (succ u) -> reach succ s c.
Proof. intros [p Hp] Hc. exists (p ++ [c]). eapply is_path_snoc; eauto. Qed.

(* ---------------------------------------------------------------- one neighbour loop *)
Definition unv (vis : list bool) (x : nat) : bool := negb (nth x vis false).

Lemma explore_visited node : forall l s, visited (fold_left (dfs_explore node) l s) = visited s.
Proof.
  induction l as [|y r IH]; intros s; simpl; [reflexivity|]. rewrite IH. unfold dfs_explore.
  destruct (nth y (visited s) false); reflexivity.
Qed.

Lemma explore_order node : forall l s, order (fold_left (dfs_explore node) l s) = order s.
Proof.
  induction l as [|y r IH]; intros s; simpl; [reflexivity|]. rewrite IH. unfold dfs_explore.
  destruct (nth y (visited s) false); reflexivity.
Qed.

Lemma explore_pred_len node : forall l s, length (pred (fold_left (dfs_explore node) l s)) = length (pred s).
Proof.
  induction l as [|y r IH]; intros s; simpl; [reflexivity|]. rewrite IH. unfold dfs_explore.
  destruct (nth y (visited s) false); [reflexivity|]. simpl. apply length_set_nth.
Qed.

Lemma explore_frontier node : forall l s,
  frontier (fold_left (dfs_explore node) l s) = rev (filter (unv (visited s)) l) ++ frontier s.
Proof.
  induction l as [|y r IH]; intros s; simpl; [reflexivity|]. rewrite IH. unfold dfs_explore, unv.
  destruct (nth y (visited s) false) eqn:E; simpl; [reflexivity|].
  rewrite <- app_assoc. reflexivity.
Qed.

(* a pushed neighbour gets the expanded node as predecessor *)
Lemma explore_pred_in node : forall l s x, (forall y, In y l -> y < length (pred s)) ->
  In x l -> nth x (visited s) false = false ->
  nth x (pred (fold_left (dfs_explore node) l s)) None = Some node.
Proof.
  induction l as [|y r IH]; intros s x Hlt Hin Hv; [destruct Hin|]. simpl.
  assert (Hr : forall z, In z r -> z < length (pred s)) by (intros z Hz; apply Hlt; right; exact Hz).
  destruct (in_dec Nat.eq_dec x r) as [Hxr|Hxr].
  - apply IH; [|exact Hxr|].
    + intros z Hz. unfold dfs_explore. destruct (nth y (visited s) false); [now apply Hr|].
      simpl. rewrite length_set_nth. now apply Hr.
    + unfold dfs_explore. destruct (nth y (visited s) false); exact Hv.
  - destruct Hin as [->|Hin]; [|contradiction].
    unfold dfs_explore at 2. rewrite Hv.
    assert (G : forall l0 s0, ~ In x l0 ->
              nth x (pred (fold_left (dfs_explore node) l0 s0)) None = nth x (pred s0) None).
    { induction l0 as [|z l0 IH0]; intros s0 Hn; simpl; [reflexivity|].
      rewrite IH0 by (intros H; apply Hn; right; exact H).
      unfold dfs_explore. destruct (nth z (visited s0) false); [reflexivity|]. simpl.
      apply nth_set_nth_neq. intros ->. apply Hn. left. reflexivity. }
    rewrite G by exact Hxr. simpl. apply nth_set_nth_eq. apply Hlt. left. reflexivity.
Qed.

(* every other entry is untouched *)
Lemma explore_pred_out node : forall l s x, ~ (In x l /\ nth x (visited s) false = false) ->
  nth x (pred (fold_left (dfs_explore node) l s)) None = nth x (pred s) None.
Proof.
  induction l as [|y r IH]; intros s x Hn; simpl; [reflexivity|].
  unfold dfs_explore at 2. destruct (nth y (visited s) false) eqn:E.
  - apply IH. intros [H1 H2]. apply Hn. split; [right; exact H1 | exact H2].
  - rewrite IH.
    + simpl. apply nth_set_nth_neq. intros ->. apply Hn. split; [left; reflexivity | exact E].
    + simpl. intros [H1 H2]. apply Hn. split; [right; exact H1 | exact H2].
Qed.

(* entries never go back to "none" *)
Lemma explore_pred_mono node l s x : (forall y, In y l -> y < length (pred s)) ->
  nth x (pred s) None <> None -> nth x (pred (fold_left (dfs_explore node) l s)) None <> None.
Proof.
  intros Hlt Hx. destruct (in_dec Nat.eq_dec x l) as [Hin|Hin].
  - destruct (nth x (visited s) false) eqn:E.
    + rewrite explore_pred_out; [exact Hx|]. intros [_ H]. congruence.
    + rewrite (explore_pred_in node l s x Hlt Hin E). discriminate.
  - rewrite explore_pred_out; [exact Hx|]. intros [H _]. contradiction.
Qed.

(* ---------------------------------------------------------------- the termination measure *)
Definition unvis (vis : list bool) (e : nat * nat) : bool := negb (nth (fst e) vis false).

(* stack length + number of edges whose tail is still unvisited *)
Definition measure (edges : list (nat * nat)) (s : st) : nat :=
  length (frontier s) + length (filter (unvis (visited s)) edges).

Lemma filter_len_le {A} (f : A -> bool) l : length (filter f l) <= length l.
Proof. induction l as [|x l IH]; simpl; [lia|]. destruct (f x); simpl; lia. Qed.

Lemma unvis_mark edges vis u : u < length vis -> nth u vis false = false ->
  length (filter (unvis vis) edges)
  = length (filter (unvis (set_nth u true vis)) edges) + length (out_of edges u).
Proof.
  intros Hu Hv. unfold out_of. induction edges as [|e r IH]; [reflexivity|].
  cbn [filter]. destruct (Nat.eqb_spec (fst e) u) as [E|E].
  - assert (E1 : unvis vis e = true) by (unfold unvis; rewrite E, Hv; reflexivity).
    assert (E2 : unvis (set_nth u true vis) e = false)
      by (unfold unvis; rewrite E, nth_set_nth_eq by exact Hu; reflexivity).
    rewrite E1, E2. cbn [map length]. rewrite IH. lia.
  - assert (E1 : unvis (set_nth u true vis) e = unvis vis e)
      by (unfold unvis; rewrite nth_set_nth_neq by congruence; reflexivity).
    rewrite E1. destruct (unvis vis e); cbn [length]; rewrite IH; lia.
Qed.

Lemma measure_init edges n source :
  measure edges (mk (repeat false n) (repeat None n) [source] []) <= 1 + length edges.
Proof. unfold measure. simpl. pose proof (filter_len_le (unvis (repeat false n)) edges). lia. Qed.

Lemma measure_skip edges vis pd node rest ord :
  measure edges (mk vis pd rest ord) < measure edges (mk vis pd (node :: rest) ord).
Proof. unfold measure. simpl. lia. Qed.

Lemma measure_expand edges vis pd node rest ord : node < length vis -> nth node vis false = false ->
  measure edges (fold_left (dfs_explore node) (rev (out_of edges node))
                           (mk (set_nth node true vis) pd rest (node :: ord)))
  < measure edges (mk vis pd (node :: rest) ord).
Proof.
  intros Hn Hv. unfold measure. rewrite explore_frontier, explore_visited. cbn [visited frontier].
  rewrite app_length, rev_length. rewrite (unvis_mark edges vis node Hn Hv).
  pose proof (filter_len_le (unv (set_nth node true vis)) (rev (out_of edges node))) as H.
  rewrite rev_length in H. simpl. lia.
Qed.

(* ---------------------------------------------------------------- reconstruct_path *)
Section Recon.
Variable succ : nat -> list nat.
Variable pd : list (option nat).
Variable source : nat.
Variable ord : list nat.      (* visit order, newest first *)
Hypothesis Hedge : forall x u, nth x pd None = Some u -> In x (succ u).
Hypothesis Hdesc : forall l1 x l2 u, ord = l1 ++ x :: l2 -> nth x pd None = Some u -> In u l2.
Hypothesis Hgood : forall x, In x ord -> x = source \/ nth x pd None <> None.

Lemma recon_chain : forall fuel l1 x l2 acc, ord = l1 ++ x :: l2 -> length l2 < fuel ->
  exists p, recon fuel pd source x acc = Some (p ++ acc) /\ is_path succ source x p.
Proof.
  induction fuel as [|f IH]; intros l1 x l2 acc Ho Hf; [lia|].
  simpl. destruct (Nat.eqb_spec x source) as [->|Hne].
  - exists [source]. split; [reflexivity | apply is_path_single].
  - assert (Hx : In x ord) by (rewrite Ho; apply in_or_app; right; left; reflexivity).
    destruct (Hgood x Hx) as [Hc|Hc]; [contradiction|].
    destruct (nth x pd None) as [u|] eqn:Eu; [|congruence].
    pose proof (Hdesc l1 x l2 u Ho Eu) as Hu. apply in_split in Hu. destruct Hu as (l3 & l4 & ->).
    destruct (IH (l1 ++ x :: l3) u l4 (x :: acc)) as (p & Hp & Hpath).
    + rewrite Ho, <- app_assoc. reflexivity.
    + rewrite app_length in Hf. simpl in Hf. lia.
    + exists (p ++ [x]). split; [rewrite Hp, <- app_assoc; reflexivity|].
      eapply is_path_snoc; [exact Hpath | apply Hedge; exact Eu].
Qed.

(* the node about to be visited: not yet in the order, its predecessor is *)
Lemma reconstruct_fresh x : length ord <= length pd -> (x = source \/ exists u, nth x pd None = Some u /\ In u ord) ->
  exists p, reconstruct_path pd source x = Some p /\ is_path succ source x p.
Proof.
  intros Hlen Hx. unfold reconstruct_path. simpl.
  destruct (Nat.eqb_spec x source) as [->|Hne].
  - exists [source]. split; [reflexivity | apply is_path_single].
  - destruct Hx as [Hx|(u & Eu & Hu)]; [contradiction|]. rewrite Eu.
    apply in_split in Hu as Hs. destruct Hs as (l1 & l2 & Ho).
    destruct (recon_chain (length pd) l1 u l2 [x] Ho) as (p & Hp & Hpath).
    + rewrite Ho, app_length in Hlen. simpl in Hlen. lia.
    + exists (p ++ [x]). split; [exact Hp|]. eapply is_path_snoc; [exact Hpath | apply Hedge; exact Eu].
Qed.

End Recon.
