(* C12_bfs (target case, closing C12_bfs_full_statement): with a target the Rust-side model of bfs_edges and the
   Python-side model return the IDENTICAL result (status, path, objective); the common path is a valid walk
   source -> target of the graph and no walk is shorter (C11's BFS-shortest theorem); INFEASIBLE iff unreachable.
   Proof: the lock-step simulation of BfsEquiv.v (relation `rel`) extended by the agreement of the predecessor
   array with the parent dict (`ext`), and the agreement of the two path reconstructions (Rust walks the array until
   it meets the source, Python walks the dict until a node without parent). *)
From Coq Require Import List ZArith Bool Arith Lia Permutation.
From SV Require Import C11.Paths C11.PathsLemmas C11.Bfs C11.BfsProofs1 C11.BfsProofs2 C11.BfsTheorems.
From SV Require Import C12.RsSearch C12.BfsEquiv.
Import ListNotations.
Local Open Scope nat_scope.

(* ---------------------------------------------------------------- the extra invariant *)
Record ext (n source : nat) (ps : Bfs.state) (rs : RsSearch.st) : Prop := {
  e_plen : length (RsSearch.pred rs) = n;
  e_pred : forall v, v < n -> nth v (RsSearch.pred rs) None = Bfs.lookup v (Bfs.parent ps);
  e_src : In source (Bfs.visited ps);
  e_srcnone : Bfs.lookup source (Bfs.parent ps) = None;
  e_root : forall v, In v (Bfs.visited ps) -> Bfs.lookup v (Bfs.parent ps) = None -> v = source;
  e_par : forall v p, Bfs.lookup v (Bfs.parent ps) = Some p -> In p (Bfs.visited ps);
  e_cnt : S (length (Bfs.parent ps)) = length (Bfs.visited ps)
}.

Lemma explore_both n source cur ns : forall ps rs, (forall x, In x ns -> x < n) ->
  rel n ps rs -> ext n source ps rs -> In cur (Bfs.visited ps) ->
  rel n (Bfs.expand Bfs.Queue cur ns ps) (fold_left (RsSearch.bfs_explore cur) ns rs) /\
  ext n source (Bfs.expand Bfs.Queue cur ns ps) (fold_left (RsSearch.bfs_explore cur) ns rs).
Proof.
  induction ns as [|x r IH]; intros ps rs Hlt HR HE Hcur; [split; assumption|].
  assert (Hx : x < n) by (apply Hlt; left; reflexivity).
  assert (Hr : forall y, In y r -> y < n) by (intros y Hy; apply Hlt; right; exact Hy).
  assert (Hone : forall y, In y [x] -> y < n) by (intros y [<-|[]]; exact Hx).
  pose proof (explore_sim n cur [x] ps rs Hone HR) as HR1.
  cbn [Bfs.expand fold_left] in *.
  pose proof (r_vis _ _ _ HR x Hx) as Hv.
  assert (Hex : RsSearch.bfs_explore cur rs x =
                if Bfs.mem x (Bfs.visited ps) then rs
                else RsSearch.mk (RsSearch.set_nth x true (RsSearch.visited rs)) (RsSearch.set_nth x (Some cur) (RsSearch.pred rs))
                                 (RsSearch.frontier rs ++ [x]) (RsSearch.order rs)).
  { unfold RsSearch.bfs_explore. rewrite Hv. reflexivity. }
  rewrite Hex in *. clear Hex.
  destruct (Bfs.mem x (Bfs.visited ps)) eqn:E.
  - apply IH; assumption.
  - apply IH; [exact Hr | exact HR1 | | right; exact Hcur].
    assert (Hnx : ~ In x (Bfs.visited ps)) by (intros Hin; apply BfsEquiv.mem_In in Hin; congruence).
    destruct HE as [E1 E2 E3 E4 E5 E6 E7]. constructor; cbn [Bfs.visited Bfs.parent RsSearch.pred Bfs.lookup].
    + rewrite length_set_nth. exact E1.
    + intros v Hvn. destruct (Nat.eqb_spec x v) as [->|Hn].
      * rewrite nth_set_nth_eq by lia. reflexivity.
      * rewrite nth_set_nth_neq by exact Hn. apply E2. exact Hvn.
    + right. exact E3.
    + destruct (Nat.eqb_spec x source) as [->|Hn]; [contradiction|exact E4].
    + intros v [<-|Hin] Hl.
      * rewrite Nat.eqb_refl in Hl. discriminate.
      * destruct (Nat.eqb_spec x v) as [->|Hn]; [discriminate|]. apply E5; assumption.
    + intros v p Hl. destruct (Nat.eqb_spec x v) as [->|Hn].
      * inversion Hl; subst. right. exact Hcur.
      * right. eapply E6. exact Hl.
    + simpl. f_equal. exact E7.
Qed.

(* ---------------------------------------------------------------- the two reconstructions agree *)
Lemma recon_agree n source ps rs : rel n ps rs -> ext n source ps rs ->
  forall fp cur acc r, In cur (Bfs.visited ps) ->
    Bfs.recon fp (Bfs.parent ps) cur (cur :: acc) = Some r ->
    forall fr, fp <= fr -> RsSearch.recon fr (RsSearch.pred rs) source cur acc = Some r.
Proof.
  intros HR HE. induction fp as [|fp IH]; intros cur acc r Hcur Hp fr Hf; [discriminate|].
  cbn [Bfs.recon] in Hp.
  assert (Hcn : cur < n) by (apply (r_lt _ _ _ HR); exact Hcur).
  destruct (Bfs.lookup cur (Bfs.parent ps)) as [p|] eqn:El.
  - assert (Hne : cur <> source) by (intros ->; rewrite (e_srcnone _ _ _ _ HE) in El; discriminate).
    destruct fr as [|fr]; [lia|]. cbn [RsSearch.recon].
    apply Nat.eqb_neq in Hne. rewrite Hne. rewrite (e_pred _ _ _ _ HE cur Hcn), El.
    apply (IH p (cur :: acc) r); [eapply (e_par _ _ _ _ HE); exact El | exact Hp | lia].
  - inversion Hp; subst r. assert (cur = source) by (apply (e_root _ _ _ _ HE); assumption). subst cur.
    destruct fr as [|fr]; cbn [RsSearch.recon]; rewrite Nat.eqb_refl; reflexivity.
Qed.

Lemma reconstruct_agree n source ps rs cur p : rel n ps rs -> ext n source ps rs -> In cur (Bfs.visited ps) ->
  Bfs.reconstruct_path (Bfs.parent ps) cur = Some p ->
  RsSearch.reconstruct_path (RsSearch.pred rs) source cur = Some p.
Proof.
  intros HR HE Hcur Hp. unfold Bfs.reconstruct_path in Hp. unfold RsSearch.reconstruct_path.
  eapply (recon_agree n source ps rs HR HE); [exact Hcur | exact Hp|].
  rewrite (e_plen _ _ _ _ HE). pose proof (rel_visited_bound _ _ _ HR). pose proof (e_cnt _ _ _ _ HE). lia.
Qed.

(* ---------------------------------------------------------------- the loops, with a target *)
Lemma order_fold cur : forall ns s0, RsSearch.order (fold_left (RsSearch.bfs_explore cur) ns s0) = RsSearch.order s0.
Proof.
  induction ns as [|x r IHn]; intros s0; simpl; [reflexivity|]. rewrite IHn. unfold RsSearch.bfs_explore.
  destruct (nth x (RsSearch.visited s0) false); reflexivity.
Qed.

Lemma incl_expand (edges : list (nat * nat)) source cur : forall ns p0, incl ns (map snd edges) ->
  incl (Bfs.visited p0) (source :: map snd edges) ->
  incl (Bfs.visited (Bfs.expand Bfs.Queue cur ns p0)) (source :: map snd edges).
Proof.
  induction ns as [|x r IHn]; intros p0 Hi Hp; simpl; [exact Hp|].
  assert (Hr : incl r (map snd edges)) by (intros y Hy; apply Hi; right; exact Hy).
  destruct (Bfs.mem x (Bfs.visited p0)); [apply IHn; assumption|].
  apply IHn; [exact Hr|]. simpl. intros y [<-|Hy]; [right; apply Hi; left; reflexivity | apply Hp; exact Hy].
Qed.

Lemma out_of_incl (edges : list (nat * nat)) cur : incl (out_of edges cur) (map snd edges).
Proof.
  intros y Hy. unfold out_of in Hy. apply in_map_iff in Hy.
  destruct Hy as [e [<- He]]. apply filter_In in He. apply in_map. tauto.
Qed.

Lemma loop_sim_t n edges source t mi : evalid n edges -> (Z.of_nat n < mi)%Z -> t < n ->
  forall fp fr ps rs,
    rel n ps rs -> ext n source ps rs -> incl (Bfs.visited ps) (source :: map snd edges) ->
    ~ In t (RsSearch.order rs) ->
    2 + length edges <= fp + length (RsSearch.order rs) ->
    2 + n <= fr + length (RsSearch.order rs) ->
    exists r, Bfs.loop fp Bfs.Queue (Bfs.succ_of (PyEdges.adj_of n edges)) (Bfs.goal_val t) mi
                       (Z.of_nat (length (RsSearch.order rs))) ps = Some r /\
              (r <> Bfs.Hang ->
               RsSearch.adapter ES.OPTIMAL (Some t)
                 (RsSearch.bfs_loop fr (RsSearch.build_adjacency n edges) source (Some t) rs)
               = PyEdges.wrap (Some r)).
Proof.
  intros HV Hcap Ht. induction fp as [|fp IH]; intros fr ps rs HR HE Hincl Hnt Hfp Hfr.
  - exfalso. pose proof (r_list _ _ _ HR) as HL. pose proof (r_nodup _ _ _ HR) as HN.
    pose proof (NoDup_incl_length HN Hincl) as Hb. rewrite HL, app_length, rev_length in Hb.
    simpl in Hb. rewrite map_length in Hb. lia.
  - destruct fr as [|fr].
    { exfalso. pose proof (rel_visited_bound _ _ _ HR) as Hb. rewrite (r_list _ _ _ HR), app_length in Hb. lia. }
    pose proof (rel_visited_bound _ _ _ HR) as Hb.
    pose proof (r_list _ _ _ HR) as HL.
    cbn [Bfs.loop RsSearch.bfs_loop]. rewrite (r_front _ _ _ HR).
    destruct (RsSearch.frontier rs) as [|cur rest] eqn:EF.
    + (* both stop: INFEASIBLE *)
      eexists. split; [reflexivity|]. intros _.
      cbn [Bfs.finish Bfs.goal_val].
      simpl in HL. rewrite HL in Hb.
      assert (Hm : (mi <=? Z.of_nat (length (RsSearch.order rs)))%Z = false) by (apply Z.leb_gt; lia).
      rewrite Hm. rewrite (r_vis _ _ _ HR t Ht), HL.
      assert (Hmem : Bfs.mem t (RsSearch.order rs) = false).
      { destruct (Bfs.mem t (RsSearch.order rs)) eqn:E; [|reflexivity]. apply BfsEquiv.mem_In in E. contradiction. }
      rewrite Hmem. reflexivity.
    + assert (Hlen : length (Bfs.visited ps) = S (length rest) + length (RsSearch.order rs)).
      { rewrite HL, app_length, rev_length. reflexivity. }
      assert (Hit : (Z.of_nat (length (RsSearch.order rs)) <? mi)%Z = true) by (apply Z.ltb_lt; lia).
      rewrite Hit.
      assert (Hcv : In cur (Bfs.visited ps)).
      { rewrite HL. apply in_or_app. left. apply in_rev. rewrite rev_involutive. left. reflexivity. }
      assert (Hcur : cur < n) by (apply (r_lt _ _ _ HR); exact Hcv).
      cbn [Bfs.goal_val]. rewrite (Nat.eqb_sym t cur).
      destruct (Nat.eqb_spec cur t) as [->|Hne].
      * (* the target is popped on both sides *)
        destruct (Bfs.reconstruct_path (Bfs.parent ps) t) as [p|] eqn:Ep.
        -- eexists. split; [reflexivity|]. intros _.
           rewrite (reconstruct_agree n source ps rs t p HR HE Hcv Ep). reflexivity.
        -- eexists. split; [reflexivity|]. intros H. congruence.
      * rewrite py_adj by exact Hcur. rewrite rs_adj by assumption.
        set (ps1 := Bfs.mk (Bfs.visited ps) (Bfs.parent ps) rest).
        set (rs1 := RsSearch.mk (RsSearch.visited rs) (RsSearch.pred rs) rest (cur :: RsSearch.order rs)).
        assert (HR1 : rel n ps1 rs1).
        { destruct HR as [R1 R2 R3 R4 R5 R6]. constructor; simpl; try assumption; try reflexivity.
          rewrite HL. simpl. now rewrite <- app_assoc. }
        assert (HE1 : ext n source ps1 rs1).
        { destruct HE as [E1 E2 E3 E4 E5 E6 E7]. constructor; simpl; assumption. }
        assert (Hns : forall x, In x (out_of edges cur) -> x < n) by (intros x Hx; eapply out_of_lt; eassumption).
        destruct (explore_both n source cur (out_of edges cur) ps1 rs1 Hns HR1 HE1 Hcv) as [HR2 HE2].
        assert (Hincl2 : incl (Bfs.visited (Bfs.expand Bfs.Queue cur (out_of edges cur) ps1)) (source :: map snd edges)).
        { apply incl_expand; [apply out_of_incl | exact Hincl]. }
        specialize (IH fr _ _ HR2 HE2 Hincl2). rewrite order_fold in IH. simpl in IH.
        replace (Z.of_nat (length (RsSearch.order rs)) + 1)%Z with (Z.of_nat (S (length (RsSearch.order rs)))) by lia.
        apply IH; simpl; try lia. intros [E|Hin]; [congruence | contradiction].
Qed.

(* ---------------------------------------------------------------- the successor function of both sides *)
Lemma py_adj_all n edges u : evalid n edges -> Bfs.succ_of (PyEdges.adj_of n edges) u = out_of edges u.
Proof.
  intros HV. destruct (Nat.lt_ge_cases u n) as [Hu|Hu]; [apply py_adj; exact Hu|].
  assert (E1 : out_of edges u = []).
  { unfold out_of. assert (F : filter (fun e : nat * nat => Nat.eqb (fst e) u) edges = []).
    { clear -HV Hu. induction edges as [|e l IH]; [reflexivity|]. inversion HV as [|? ? [H1 _] HV']; subst.
      simpl. destruct (Nat.eqb_spec (fst e) u) as [E|E]; [lia | apply IH; exact HV']. }
    rewrite F. reflexivity. }
  rewrite E1. unfold Bfs.succ_of, PyEdges.adj_of.
  assert (G : forall k m, k + m <= u ->
    Bfs.lookup u (map (fun u0 => (u0, map snd (filter (fun e => Nat.eqb (fst e) u0) edges))) (seq k m)) = None).
  { intros k m; revert k; induction m as [|m IH]; intros k H; [reflexivity|]. simpl.
    destruct (Nat.eqb_spec k u) as [->|E]; [lia|]. apply IH. lia. }
  rewrite G by lia. reflexivity.
Qed.

Lemma path_in_ext (s1 s2 : nat -> list nat) : (forall u, s1 u = s2 u) -> forall p, path_in s1 p <-> path_in s2 p.
Proof.
  intros HE. induction p as [|u p IH]; [tauto|]. destruct p as [|v q]; [tauto|].
  change (path_in s1 (u :: v :: q)) with (In v (s1 u) /\ path_in s1 (v :: q)).
  change (path_in s2 (u :: v :: q)) with (In v (s2 u) /\ path_in s2 (v :: q)).
  rewrite HE, IH. tauto.
Qed.

Lemma is_path_ext (s1 s2 : nat -> list nat) : (forall u, s1 u = s2 u) ->
  forall s t p, is_path s1 s t p <-> is_path s2 s t p.
Proof. intros HE s t p. unfold is_path. rewrite (path_in_ext s1 s2 HE). tauto. Qed.

Lemma reach_ext (s1 s2 : nat -> list nat) : (forall u, s1 u = s2 u) -> forall s t, reach s1 s t <-> reach s2 s t.
Proof. intros HE s t. unfold reach. split; intros [p Hp]; exists p; [rewrite <- (is_path_ext s1 s2 HE) | rewrite (is_path_ext s1 s2 HE)]; exact Hp. Qed.

Lemma valid_input_spec n edges source target : ES.valid_input n edges source target = true ->
  source < n /\ evalid n edges /\ match target with Some t => t < n | None => True end.
Proof.
  unfold ES.valid_input. intros H. apply andb_true_iff in H. destruct H as [H Ht].
  apply andb_true_iff in H. destruct H as [Hs He]. apply Nat.ltb_lt in Hs. split; [exact Hs|]. split.
  - apply Forall_forall. intros e Hin. rewrite forallb_forall in He. specialize (He e Hin).
    unfold ES.edge_ok in He. apply andb_true_iff in He. destruct He as [A B].
    apply Nat.ltb_lt in A. apply Nat.ltb_lt in B. auto.
  - destruct target as [t|]; [apply Nat.ltb_lt; exact Ht | exact I].
Qed.

(* ---------------------------------------------------------------- the theorems *)
Theorem bfs_target_equiv : forall n edges source t,
  ES.valid_input n edges source (Some t) = true ->
  RsSearch.bfs_edges n edges source (Some t) = PyEdges.bfs_edges n edges source (Some t) /\
  ((exists p, PyEdges.bfs_edges n edges source (Some t)
              = Some (ES.Found ES.OPTIMAL p (Z.of_nat (length p) - 1)) /\
              is_path (out_of edges) source t p /\
              forall q, is_path (out_of edges) source t q -> length p <= length q)
   \/ (PyEdges.bfs_edges n edges source (Some t) = Some (ES.NotFound ES.INFEASIBLE) /\
       ~ reach (out_of edges) source t)).
Proof.
  intros n edges source t HVI.
  destruct (valid_input_spec _ _ _ _ HVI) as [Hs [HE Ht]].
  assert (Hcap : (Z.of_nat n < PyEdges.max_iter_of n edges)%Z) by (unfold PyEdges.max_iter_of; lia).
  set (rs0 := RsSearch.mk (RsSearch.set_nth source true (repeat false n)) (repeat None n) [source] []).
  assert (HR0 : rel n (Bfs.init source) rs0).
  { constructor; simpl; try reflexivity.
    - rewrite length_set_nth. apply repeat_length.
    - intros v Hv. destruct (Nat.eq_dec source v) as [->|Hn].
      + rewrite nth_set_nth_eq by (rewrite repeat_length; exact Hv). unfold Bfs.mem. simpl. now rewrite Nat.eqb_refl.
      + rewrite nth_set_nth_neq by exact Hn. rewrite nth_repeat_lt by exact Hv. unfold Bfs.mem. simpl.
        assert (E2 : Nat.eqb v source = false) by (apply Nat.eqb_neq; congruence). now rewrite E2.
    - intros v [<-|[]]. exact Hs.
    - repeat constructor. intros []. }
  assert (HE0 : ext n source (Bfs.init source) rs0).
  { constructor; simpl; try reflexivity.
    - apply repeat_length.
    - intros v Hv. apply nth_repeat_lt. exact Hv.
    - left. reflexivity.
    - intros v [<-|[]] _. reflexivity.
    - intros v p H. discriminate. }
  destruct (loop_sim_t n edges source t (PyEdges.max_iter_of n edges) HE Hcap Ht
              (Bfs.fuel_of (PyEdges.adj_of n edges)) (S (S n)) (Bfs.init source) rs0 HR0 HE0)
    as [r [HP HRs]].
  - simpl. intros v [<-|[]]. left. reflexivity.
  - simpl. intros [].
  - simpl. unfold Bfs.fuel_of, PyEdges.adj_of.
    rewrite (fuel_count edges 0 n). rewrite filter_all_len; [lia|].
    intros e Hin. unfold evalid in HE. rewrite Forall_forall in HE. specialize (HE e Hin).
    apply andb_true_iff. split; [apply Nat.leb_le; lia | apply Nat.ltb_lt; lia].
  - simpl. lia.
  - change (Z.of_nat (length (RsSearch.order rs0))) with 0%Z in HP.
    assert (HS : Bfs.search Bfs.Queue (PyEdges.adj_of n edges) source (Bfs.goal_val t) (PyEdges.max_iter_of n edges) = Some r)
      by exact HP.
    pose proof (search_spec _ _ _ _ _ _ HS) as Hspec.
    assert (Hext : forall u, Bfs.succ_of (PyEdges.adj_of n edges) u = out_of edges u)
      by (intros u; apply py_adj_all; exact HE).
    assert (Hnh : r <> Bfs.Hang) by (intros ->; exact Hspec).
    specialize (HRs Hnh).
    assert (Heq : RsSearch.bfs_edges n edges source (Some t) = PyEdges.bfs_edges n edges source (Some t)).
    { unfold RsSearch.bfs_edges, RsSearch.bfs_kernel, PyEdges.bfs_edges, PyEdges.search_edges, PyEdges.goal_of.
      fold rs0. rewrite HS. exact HRs. }
    split; [exact Heq|].
    unfold PyEdges.bfs_edges, PyEdges.search_edges, PyEdges.goal_of. rewrite HS.
    destruct r as [st p obj|st|vs obj|]; cbn [result_spec] in Hspec.
    + left. destruct Hspec as [-> [t' [Hp [Hg ->]]]]. cbn [goal_test Bfs.goal_val] in Hg.
      apply Nat.eqb_eq in Hg. subst t'. exists p. split; [reflexivity|]. split.
      * apply (is_path_ext _ _ Hext). exact Hp.
      * intros q Hq. apply (is_path_ext _ _ Hext) in Hq.
        pose proof (bfs_shortest _ _ _ _ _ _ _ HS t q Hq) as Hb. cbn [goal_test Bfs.goal_val] in Hb.
        specialize (Hb (Nat.eqb_refl t)).
        destruct Hp as [_ [_ [_ Hne]]]. destruct p as [|x p]; [congruence|]. simpl length in *. lia.
    + right. destruct st; try contradiction.
      * destruct Hspec as [_ Hu]. split; [reflexivity|]. intros Hr. apply (reach_ext _ _ Hext) in Hr.
        specialize (Hu t Hr). cbn [goal_test Bfs.goal_val] in Hu. rewrite Nat.eqb_refl in Hu. discriminate.
      * exfalso. destruct Hspec as [_ [vs [Hnd [Hreach Hlen]]]].
        assert (Hlt : forall v, In v vs -> v < n).
        { intros v Hv. specialize (Hreach v Hv). apply (reach_ext _ _ Hext) in Hreach.
          destruct Hreach as [q Hq]. clear -Hq Hs HE.
          assert (G : forall l s, s < n -> path_in (out_of edges) l -> hd_error l = Some s -> last l s < n).
          { induction l as [|a l IH]; intros s Hsn Hp Hh; [exact Hsn|]. simpl in Hh. inversion Hh; subst a.
            destruct l as [|b l]; [exact Hsn|]. destruct Hp as [Hin Hp].
            assert (Hb : b < n) by (eapply out_of_lt; eassumption).
            change (last (s :: b :: l) s) with (last (b :: l) s).
            rewrite (last_default (b :: l) s b) by discriminate. apply IH; [exact Hb | exact Hp | reflexivity]. }
          destruct Hq as [Hp [Hh [Hl _]]]. rewrite <- Hl. apply G; assumption. }
        assert (Hi : incl vs (seq 0 n)) by (intros v Hv; apply in_seq; specialize (Hlt v Hv); lia).
        pose proof (NoDup_incl_length Hnd Hi) as Hle. rewrite seq_length in Hle. lia.
    + destruct Hspec as [Hg _]. discriminate.
    + contradiction.
Qed.

(* the full statement kept as a Definition in Props/C12.v: identical results for every target, never out of fuel *)
Theorem bfs_full_equiv : forall n edges source target, ES.valid_input n edges source target = true ->
  RsSearch.bfs_edges n edges source target = PyEdges.bfs_edges n edges source target /\
  exists r, PyEdges.bfs_edges n edges source target = Some r.
Proof.
  intros n edges source [t|] HV.
  - destruct (bfs_target_equiv n edges source t HV) as [H1 [[p [H2 _]]|[H2 _]]]; (split; [exact H1|]); eexists; exact H2.
  - destruct (bfs_reach_equiv n edges source HV) as [H1 [l H2]]. split; [exact H1|]. eexists; exact H2.
Qed.

Print Assumptions bfs_target_equiv.
Print Assumptions bfs_full_equiv.
