(* C12 dfs_edges, deep equivalence, part 2: the loop invariant of the Rust-side DFS and its consequences
   (never out of fuel; target popped => valid path; stack empty => visited set = reachable set). *)
From Coq Require Import List ZArith Bool Arith Lia Permutation.
From SV Require Import C11.Paths C11.PathsLemmas C11.Bfs C11.BfsProofs1 C11.BfsProofs2
                       C12.RsSearch C12.BfsEquiv C12.DeepDfs1.
Import ListNotations.
Import RsSearch.
Local Open Scope nat_scope.

Lemma nth_repeat_any {A} (x : A) n i : nth i (repeat x n) x = x.
Proof. revert i; induction n as [|n IH]; intros [|i]; simpl; auto. Qed.

Lemma nth_true_lt (l : list bool) v : nth v l false = true -> v < length l.
Proof.
  intros H. destruct (Nat.lt_ge_cases v (length l)) as [L|L]; [exact L|].
  rewrite nth_overflow in H by exact L. discriminate.
Qed.

Section Loop.
Variable n : nat.
Variable edges : list (nat * nat).
Variable source : nat.
Variable target : option nat.
Hypothesis HE : evalid n edges.
Hypothesis Hs : source < n.

Let succ := out_of edges.

Record inv (s : st) : Prop := {
  i_lv : length (visited s) = n;
  i_lp : length (pred s) = n;
  (* the visited array is the set of the visit order *)
  i_vo : forall v, nth v (visited s) false = true <-> In v (order s);
  i_nd : NoDup (order s);
  i_flt : forall x, In x (frontier s) -> x < n;
  (* predecessors are visited and are real graph predecessors *)
  i_pr : forall x u, nth x (pred s) None = Some u -> In u (order s) /\ In x (succ u);
  i_fr : forall x, In x (frontier s) -> x = source \/ nth x (pred s) None <> None;
  i_gd : forall x, In x (order s) -> x = source \/ nth x (pred s) None <> None;
  (* the predecessor of a visited node was visited earlier *)
  i_ch : forall l1 x l2 u, order s = l1 ++ x :: l2 -> nth x (pred s) None = Some u -> In u l2;
  (* successors of visited nodes are visited or waiting on the stack *)
  i_cl : forall u, In u (order s) -> forall w, In w (succ u) -> In w (order s) \/ In w (frontier s);
  i_sr : In source (order s) \/ In source (frontier s);
  i_tg : forall t, target = Some t -> ~ In t (order s);
  i_rc : forall x, In x (order s) \/ In x (frontier s) -> reach succ source x
}.

Lemma inv_order_lt s v : inv s -> In v (order s) -> v < n.
Proof.
  intros HI Hv. rewrite <- (i_lv s HI). apply nth_true_lt. apply (i_vo s HI). exact Hv.
Qed.

Lemma inv_order_len s : inv s -> length (order s) <= n.
Proof.
  intros HI.
  assert (Hi : incl (order s) (seq 0 n)).
  { intros v Hv. apply in_seq. pose proof (inv_order_lt s v HI Hv). lia. }
  pose proof (NoDup_incl_length (i_nd s HI) Hi) as H. now rewrite seq_length in H.
Qed.

Lemma inv_init : inv (mk (repeat false n) (repeat None n) [source] []).
Proof.
  constructor; cbn [visited pred frontier order].
  - apply repeat_length.
  - apply repeat_length.
  - intros v. rewrite nth_repeat_any. split; [discriminate | intros []].
  - constructor.
  - intros x [<-|[]]. exact Hs.
  - intros x u H. rewrite nth_repeat_any in H. discriminate.
  - intros x [<-|[]]. left. reflexivity.
  - intros x [].
  - intros l1 x l2 u H. destruct l1; discriminate.
  - intros u [].
  - right. left. reflexivity.
  - intros t _ [].
  - intros x [[]|[<-|[]]]. apply reach_refl.
Qed.

(* popping an already visited node *)
Lemma inv_skip s node rest : inv s -> frontier s = node :: rest -> nth node (visited s) false = true ->
  inv (mk (visited s) (pred s) rest (order s)).
Proof.
  intros HI Ef Hv. apply (i_vo s HI) in Hv.
  constructor; cbn [visited pred frontier order]; try (destruct HI; assumption).
  - intros x Hx. apply (i_flt s HI). rewrite Ef. right. exact Hx.
  - intros x Hx. apply (i_fr s HI). rewrite Ef. right. exact Hx.
  - intros u Hu w Hw. destruct (i_cl s HI u Hu w Hw) as [H|H]; [left; exact H|].
    rewrite Ef in H. destruct H as [<-|H]; [left; exact Hv | right; exact H].
  - destruct (i_sr s HI) as [H|H]; [left; exact H|].
    rewrite Ef in H. destruct H as [<-|H]; [left; exact Hv | right; exact H].
  - intros x [Hx|Hx]; apply (i_rc s HI); [left; exact Hx | right; rewrite Ef; right; exact Hx].
Qed.

(* visiting a node and pushing its unvisited neighbours *)
Lemma inv_expand s node rest : inv s -> frontier s = node :: rest -> nth node (visited s) false = false ->
  target <> Some node ->
  inv (fold_left (dfs_explore node) (rev (succ node))
                 (mk (set_nth node true (visited s)) (pred s) rest (node :: order s))).
Proof.
  intros HI Ef Hv Ht.
  set (vis1 := set_nth node true (visited s)).
  set (s1 := mk vis1 (pred s) rest (node :: order s)).
  set (l := rev (succ node)).
  set (s2 := fold_left (dfs_explore node) l s1).
  assert (Hnode : node < n) by (apply (i_flt s HI); rewrite Ef; left; reflexivity).
  assert (Hnf : In node (frontier s)) by (rewrite Ef; left; reflexivity).
  assert (Hno : ~ In node (order s)) by (intros H; apply (i_vo s HI) in H; congruence).
  assert (Hl : forall x, In x l <-> In x (succ node)) by (intros x; unfold l; symmetry; apply in_rev).
  assert (Hllt : forall y, In y l -> y < length (pred s1)).
  { intros y Hy. cbn [s1 pred]. rewrite (i_lp s HI). apply Hl in Hy. eapply out_of_lt; eauto. }
  assert (Hvis1 : forall v, nth v vis1 false = true <-> In v (node :: order s)).
  { intros v. unfold vis1. destruct (Nat.eq_dec node v) as [<-|Hne].
    - rewrite nth_set_nth_eq by (rewrite (i_lv s HI); exact Hnode). split; [left; reflexivity | reflexivity].
    - rewrite nth_set_nth_neq by exact Hne. rewrite (i_vo s HI). split; [right; assumption|].
      intros [H|H]; [contradiction | exact H]. }
  assert (Ev : visited s2 = vis1) by (unfold s2; rewrite explore_visited; reflexivity).
  assert (Eo : order s2 = node :: order s) by (unfold s2; rewrite explore_order; reflexivity).
  assert (Efr : forall x, In x (frontier s2) <-> (In x (succ node) /\ nth x vis1 false = false) \/ In x rest).
  { intros x. unfold s2. rewrite explore_frontier. cbn [s1 visited frontier]. rewrite in_app_iff, <- in_rev, filter_In, Hl.
    unfold unv. rewrite negb_true_iff. reflexivity. }
  (* the predecessor array after the loop *)
  assert (Pin : forall x, In x (succ node) -> nth x vis1 false = false -> nth x (pred s2) None = Some node).
  { intros x Hx Hxv. unfold s2. apply explore_pred_in; [exact Hllt | apply Hl; exact Hx | exact Hxv]. }
  assert (Pout : forall x, nth x vis1 false = true -> nth x (pred s2) None = nth x (pred s) None).
  { intros x Hxv. unfold s2. rewrite explore_pred_out; [reflexivity|]. cbn [s1 visited]. intros [_ H]. congruence. }
  assert (Pcase : forall x, nth x (pred s2) None = Some node /\ In x (succ node)
                            \/ nth x (pred s2) None = nth x (pred s) None).
  { intros x. destruct (in_dec Nat.eq_dec x l) as [Hin|Hin].
    - destruct (nth x vis1 false) eqn:E; [right; apply Pout; exact E|].
      left. split; [apply Pin; [apply Hl; exact Hin | exact E] | apply Hl; exact Hin].
    - right. unfold s2. rewrite explore_pred_out; [reflexivity|]. intros [H _]. contradiction. }
  assert (Pmono : forall x, nth x (pred s) None <> None -> nth x (pred s2) None <> None).
  { intros x Hx. unfold s2. apply explore_pred_mono; [exact Hllt | exact Hx]. }
  constructor.
  - rewrite Ev. unfold vis1. rewrite length_set_nth. apply (i_lv s HI).
  - unfold s2. rewrite explore_pred_len. apply (i_lp s HI).
  - intros v. rewrite Ev, Eo. apply Hvis1.
  - rewrite Eo. constructor; [exact Hno | apply (i_nd s HI)].
  - intros x Hx. apply Efr in Hx. destruct Hx as [[Hx _]|Hx].
    + eapply out_of_lt; eauto.
    + apply (i_flt s HI). rewrite Ef. right. exact Hx.
  - intros x u Hx. rewrite Eo. destruct (Pcase x) as [[E Hin]|E].
    + rewrite E in Hx. injection Hx as <-. split; [left; reflexivity | exact Hin].
    + rewrite E in Hx. destruct (i_pr s HI x u Hx) as [H1 H2]. split; [right; exact H1 | exact H2].
  - intros x Hx. apply Efr in Hx. destruct Hx as [[Hx Hxv]|Hx].
    + right. rewrite (Pin x Hx Hxv). discriminate.
    + destruct (i_fr s HI x) as [H|H]; [rewrite Ef; right; exact Hx | left; exact H | right; apply Pmono; exact H].
  - intros x Hx. rewrite Eo in Hx.
    assert (Hxf : x = source \/ nth x (pred s) None <> None).
    { destruct Hx as [<-|Hx]; [apply (i_fr s HI); exact Hnf | apply (i_gd s HI); exact Hx]. }
    destruct Hxf as [H|H]; [left; exact H | right; apply Pmono; exact H].
  - intros l1 x l2 u Ho Hx. rewrite Eo in Ho.
    assert (Hxo : In x (node :: order s)) by (rewrite Ho; apply in_or_app; right; left; reflexivity).
    rewrite (Pout x (proj2 (Hvis1 x) Hxo)) in Hx.
    destruct l1 as [|a l1]; simpl in Ho; injection Ho as Ha Ho.
    + subst x l2. apply (i_pr s HI node u Hx).
    + apply (i_ch s HI l1 x l2 u Ho Hx).
  - intros u Hu w Hw. rewrite Eo in Hu. rewrite Eo.
    destruct Hu as [<-|Hu].
    + destruct (nth w vis1 false) eqn:E.
      * left. apply Hvis1. exact E.
      * right. apply Efr. left. split; assumption.
    + destruct (i_cl s HI u Hu w Hw) as [H|H]; [left; right; exact H|].
      rewrite Ef in H. destruct H as [<-|H]; [left; left; reflexivity | right; apply Efr; right; exact H].
  - rewrite Eo. destruct (i_sr s HI) as [H|H]; [left; right; exact H|].
    rewrite Ef in H. destruct H as [<-|H]; [left; left; reflexivity | right; apply Efr; right; exact H].
  - intros t Et. rewrite Eo. intros [<-|H]; [congruence | exact (i_tg s HI t Et H)].
  - intros x Hx. rewrite Eo in Hx. destruct Hx as [[<-|Hx]|Hx].
    + apply (i_rc s HI). right. exact Hnf.
    + apply (i_rc s HI). left. exact Hx.
    + apply Efr in Hx. destruct Hx as [[Hx _]|Hx].
      * apply reach_snoc with (u := node); [apply (i_rc s HI); right; exact Hnf | exact Hx].
      * apply (i_rc s HI). right. rewrite Ef. right. exact Hx.
Qed.

(* the stack is empty: the visited set is exactly the reachable set *)
Lemma inv_final s : inv s -> frontier s = [] -> forall v, In v (order s) <-> reach succ source v.
Proof.
  intros HI Ef v. split; [intros Hv; apply (i_rc s HI); left; exact Hv|].
  intros (p & Hp & Hh & Hl & Hne). subst v.
  apply (closed_reach succ (order s)); [|  | exact Hp | exact Hh].
  - intros u Hu w Hw. destruct (i_cl s HI u Hu w Hw) as [H|H]; [exact H|]. rewrite Ef in H. destruct H.
  - destruct (i_sr s HI) as [H|H]; [exact H|]. rewrite Ef in H. destruct H.
Qed.

(* the node on top of the stack is unvisited: its path can be reconstructed from the current array *)
Lemma inv_recon s node rest : inv s -> frontier s = node :: rest ->
  exists p, reconstruct_path (pred s) source node = Some p /\ is_path succ source node p.
Proof.
  intros HI Ef.
  apply (reconstruct_fresh succ (pred s) source (order s)).
  - intros x u H. apply (i_pr s HI x u H).
  - apply (i_ch s HI).
  - apply (i_gd s HI).
  - rewrite (i_lp s HI). apply inv_order_len. exact HI.
  - destruct (i_fr s HI node) as [H|H]; [rewrite Ef; left; reflexivity | left; exact H|].
    right. destruct (nth node (pred s) None) as [u|] eqn:E; [|congruence].
    exists u. split; [reflexivity | apply (i_pr s HI node u E)].
Qed.

(* what the kernel returns *)
Definition kpost (k : kres) : Prop :=
  match target with
  | Some t => (reach succ source t /\ exists p vo, k = K p true vo /\ is_path succ source t p)
              \/ (~ reach succ source t /\ exists vo, k = K [] false vo)
  | None => exists vo, k = K [] false vo /\ NoDup vo /\ forall v, In v vo <-> reach succ source v
  end.

Lemma dfs_loop_spec : forall fuel s, inv s -> measure edges s < fuel ->
  exists k, dfs_loop fuel (build_adjacency n edges) source target s = Some k /\ kpost k.
Proof.
  induction fuel as [|f IH]; intros s HI Hm; [lia|].
  cbn [dfs_loop]. destruct (frontier s) as [|node rest] eqn:Ef.
  - (* stack empty *)
    eexists. split; [reflexivity|]. unfold kpost.
    pose proof (inv_final s HI Ef) as Hfin.
    destruct target as [t|] eqn:Et.
    + right. split; [|eexists; reflexivity].
      intros Hr. apply Hfin in Hr. exact (i_tg s HI t Et Hr).
    + eexists. split; [reflexivity|]. split; [apply NoDup_rev, (i_nd s HI)|].
      intros v. rewrite <- in_rev. apply Hfin.
  - assert (Hnode : node < n) by (apply (i_flt s HI); rewrite Ef; left; reflexivity).
    destruct (nth node (visited s) false) eqn:Hv.
    + (* already visited: skip *)
      apply IH; [eapply inv_skip; eauto|].
      destruct s as [vis pd fr ord]. cbn [visited pred frontier order] in *. subst fr.
      pose proof (measure_skip edges vis pd node rest ord). lia.
    + destruct (match target with Some t => Nat.eqb node t | None => false end) eqn:Eg.
      * (* target popped *)
        destruct target as [t|] eqn:Et; [|discriminate]. apply Nat.eqb_eq in Eg. subst t.
        destruct (inv_recon s node rest HI Ef) as (p & Hp & Hpath). rewrite Hp.
        eexists. split; [reflexivity|]. unfold kpost. rewrite Et. left.
        split; [exists p; exact Hpath|]. exists p. eexists. split; [reflexivity | exact Hpath].
      * rewrite rs_adj by assumption.
        apply IH.
        -- apply inv_expand; try assumption.
           destruct target as [t|]; [|discriminate]. intros E. injection E as ->.
           rewrite Nat.eqb_refl in Eg. discriminate.
        -- destruct s as [vis pd fr ord]. cbn [visited pred frontier order] in *. subst fr.
           assert (Hn' : node < length vis) by (pose proof (i_lv _ HI) as HL; cbn [visited] in HL; lia).
           pose proof (measure_expand edges vis pd node rest ord Hn' Hv). lia.
Qed.

Theorem dfs_kernel_spec :
  exists k, dfs_kernel n edges source target = Some k /\ kpost k.
Proof.
  unfold dfs_kernel. apply dfs_loop_spec; [apply inv_init|].
  pose proof (measure_init edges n source). lia.
Qed.

End Loop.
