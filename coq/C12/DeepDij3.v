(* C12_dijkstra, Rust side, part 3: the loop never runs out of fuel, path reconstruction succeeds, and the
   results are the true shortest-walk distances (C11.Paths.is_dist) with a valid walk of that weight. *)
From Coq Require Import List ZArith Bool Arith Lia Sorted.
From SV Require Import C11.Paths C11.PathsLemmas C12.RsShortest C12.DeepDij1 C12.DeepDij2.
Import ListNotations.
Local Open Scope nat_scope.

Section Dij3.
Variable n : nat.
Variable edges : wgraph.
Variable source : nat.
Hypothesis Hs : source < n.
Hypothesis HV : evalidP n edges.

Local Notation dget s v := (nth v (RsDij.dist s) None).
Local Notation pget s v := (nth v (RsDij.pred s) None).
Local Notation inv := (inv n edges source).
Local Notation rel_ok := (rel_ok edges).

(* ---------------------------------------------------------------- path reconstruction *)
Lemma recon_ok ord s : inv ord s ->
  forall f cur acc l1 l2 t dacc dc, ord = l1 ++ cur :: l2 -> length l2 < f ->
    walk edges cur t (cur :: acc) dacc -> dget s cur = Some dc ->
    exists path, RsDij.recon f (RsDij.pred s) source cur acc = Some path /\
                 walk edges source t path (dc + dacc).
Proof.
  intros HI. induction f as [|f IH]; intros cur acc l1 l2 t dacc dc Ho Hlen Hw Hdc; [lia|].
  cbn [RsDij.recon]. destruct (Nat.eqb_spec cur source) as [->|Hne].
  - exists (source :: acc). split; [reflexivity|]. rewrite (i_src _ _ _ _ _ HI) in Hdc. inversion Hdc; subst dc.
    replace (0 + dacc)%Z with dacc by lia. exact Hw.
  - destruct (pget s cur) as [q|] eqn:Ep.
    + destruct (i_pred _ _ _ _ _ HI cur q Ep) as [Hq [w [du [Hin [Hdq Hdcur]]]]].
      pose proof (i_pord _ _ _ _ _ HI l1 cur l2 q Ho Ep) as Hq2.
      apply in_split in Hq2. destruct Hq2 as [l3 [l4 Hl2]].
      rewrite Hdcur in Hdc. inversion Hdc; subst dc.
      destruct (IH q (cur :: acc) (l1 ++ cur :: l3) l4 t (w + dacc)%Z du) as [path [H1 H2]].
      * rewrite Ho, Hl2, <- app_assoc. reflexivity.
      * rewrite Hl2, app_length in Hlen. simpl in Hlen. lia.
      * eapply walk_cons; eassumption.
      * exact Hdq.
      * exists path. split; [exact H1|]. replace (du + w + dacc)%Z with (du + (w + dacc))%Z by lia. exact H2.
    + exfalso. apply Hne. eapply (i_root _ _ _ _ _ HI); eassumption.
Qed.

Lemma ord_len ord s : inv ord s -> length ord <= n.
Proof.
  intros HI. assert (Hi : incl ord (seq 0 n)).
  { intros v Hv. apply in_seq. pose proof (i_ordlt _ _ _ _ _ HI v Hv). lia. }
  pose proof (NoDup_incl_length (i_nodup _ _ _ _ _ HI) Hi) as H. now rewrite seq_length in H.
Qed.

(* ---------------------------------------------------------------- the loop *)
Definition tgt_ok (target : option nat) (ord : list nat) : Prop := forall t, target = Some t -> ~ In t ord.

Definition post (target : option nat) (res : RsDij.kres) : Prop :=
  match res with
  | RsDij.KHang => False
  | RsDij.KReached path d _ =>
      exists t, target = Some t /\ walk edges source t path d /\
                forall p' d', walk edges source t p' d' -> (d <= d')%Z
  | RsDij.KDone s' =>
      exists ord', inv ord' s' /\ rel_ok allE ord' s' /\ RsDij.hp s' = [] /\ tgt_ok target ord'
  end.

Definition phi (s : RsDij.st) : nat := length (RsDij.hp s) + pend edges (RsDij.visited s).

Lemma loop_ok target : forall fuel ord s, inv ord s -> rel_ok allE ord s -> tgt_ok target ord -> phi s < fuel ->
  exists res, RsDij.loop fuel (RsDij.build_adjacency n edges) source target s = Some res /\ post target res.
Proof.
  induction fuel as [|fuel IH]; intros ord s HI HR HT Hphi; [lia|].
  cbn [RsDij.loop]. destruct (RsDij.hp s) as [|[c u] rest] eqn:Eh.
  - exists (RsDij.KDone s). split; [reflexivity|]. exists ord. auto.
  - unfold phi in Hphi. rewrite Eh in Hphi. cbn [length] in Hphi.
    destruct (nth u (RsDij.visited s) false) eqn:Ev.
    + apply (IH ord).
      * eapply drop_inv; eassumption.
      * eapply rel_ok_dist; [|exact HR]. reflexivity.
      * exact HT.
      * unfold phi. cbn [RsDij.hp RsDij.visited]. lia.
    + destruct (settle_inv n edges source Hs HV ord s c u rest HI HR Eh Ev) as [Hun [Hno [Hdu [HI1 HR1]]]].
      set (s1 := RsDij.mk (RsDij.dist s) (RsDij.pred s) (set_nth u true (RsDij.visited s)) rest) in *.
      destruct (match target with Some t => Nat.eqb u t | None => false end) eqn:Et.
      * (* the target is popped *)
        destruct target as [t|]; [|discriminate]. apply Nat.eqb_eq in Et. subst t.
        destruct (recon_ok (u :: ord) s1 HI1 (S (length (RsDij.pred s))) u [] [] ord u 0%Z c) as [path [H1 H2]].
        -- reflexivity.
        -- rewrite (i_lp _ _ _ _ _ HI). pose proof (ord_len _ _ HI). lia.
        -- apply walk_nil.
        -- exact Hdu.
        -- cbn [s1 RsDij.pred] in H1. rewrite H1. eexists. split; [reflexivity|].
           exists u. split; [reflexivity|]. replace (c + 0)%Z with c in H2 by lia. split; [exact H2|].
           destruct (i_fin _ _ _ _ _ HI1 u (or_introl eq_refl)) as [d [Hd Hmin]].
           cbn [s1 RsDij.dist] in Hd. rewrite Hdu in Hd. inversion Hd; subst d. exact Hmin.
      * rewrite Hdu. cbn [flt]. rewrite Z.ltb_irrefl.
        rewrite (rsd_adj n edges u Hun HV).
        destruct (expand_inv n edges source Hs HV ord s1 u c HI1 HR1 Hun Hdu) as [HI2 [HR2 [Hv2 Hl2]]].
        apply (IH (u :: ord)); [exact HI2 | exact HR2 | |].
        -- intros t Ht [E|Hin]; [|exact (HT t Ht Hin)]. subst target t. rewrite Nat.eqb_refl in Et. discriminate.
        -- unfold phi. rewrite Hv2. cbn [s1 RsDij.visited RsDij.hp] in *.
           pose proof (pend_settle edges (RsDij.visited s) u) as Hp.
           rewrite (i_lv _ _ _ _ _ HI) in Hp. specialize (Hp Hun Ev). lia.
Qed.

(* ---------------------------------------------------------------- the final state *)
Lemma done_src ord s : inv ord s -> RsDij.hp s = [] -> In source ord.
Proof.
  intros HI Hh. destruct (in_dec Nat.eq_dec source ord) as [H|H]; [exact H|].
  pose proof (i_heap _ _ _ _ _ HI source 0%Z H (i_src _ _ _ _ _ HI)) as Hin. rewrite Hh in Hin. destruct Hin.
Qed.

Lemma done_reach ord s : inv ord s -> rel_ok allE ord s -> RsDij.hp s = [] ->
  forall a x p d, walk edges a x p d -> In a ord -> In x ord.
Proof.
  intros HI HR Hh a x p d Hw. induction Hw as [u|u v t p w d Hin Hw IH]; intros Ha; [exact Ha|].
  apply IH. destruct (HR u v w Ha Hin I) as [du [dv [_ [H2 _]]]].
  destruct (in_dec Nat.eq_dec v ord) as [H|H]; [exact H|].
  pose proof (i_heap _ _ _ _ _ HI v dv H H2) as Hin2. rewrite Hh in Hin2. destruct Hin2.
Qed.

Lemma done_dist ord s : inv ord s -> rel_ok allE ord s -> RsDij.hp s = [] ->
  forall v, match dget s v with
            | Some d => In v ord /\ is_dist edges source v d
            | None => ~ reachable edges source v
            end.
Proof.
  intros HI HR Hh v. destruct (dget s v) as [d|] eqn:Ed.
  - assert (Hv : In v ord).
    { destruct (in_dec Nat.eq_dec v ord) as [H|H]; [exact H|].
      pose proof (i_heap _ _ _ _ _ HI v d H Ed) as Hin. rewrite Hh in Hin. destruct Hin. }
    split; [exact Hv|]. destruct (i_fin _ _ _ _ _ HI v Hv) as [d' [Hd' Hmin]]. rewrite Ed in Hd'. inversion Hd'; subst d'.
    split; [apply (i_walk _ _ _ _ _ HI); exact Ed | exact Hmin].
  - intros [p [d Hw]]. pose proof (done_reach ord s HI HR Hh _ _ _ _ Hw (done_src ord s HI Hh)) as Hv.
    destruct (i_fin _ _ _ _ _ HI v Hv) as [d' [Hd' _]]. congruence.
Qed.

(* ---------------------------------------------------------------- the initial state *)
Definition s0 : RsDij.st :=
  RsDij.mk (set_nth source (Some 0%Z) (repeat None n)) (repeat None n) (repeat false n) [(0%Z, source)].

Lemma nth_rep_same {A} (x : A) m i : nth i (repeat x m) x = x.
Proof. revert i; induction m as [|m IH]; intros [|i]; simpl; auto. Qed.

Lemma dget_s0 v : dget s0 v = if Nat.eqb source v then Some 0%Z else None.
Proof.
  cbn [s0 RsDij.dist]. destruct (Nat.eqb_spec source v) as [<-|Hne].
  - apply sn_eq. rewrite repeat_length. exact Hs.
  - rewrite sn_neq by exact Hne. apply nth_rep_same.
Qed.

Lemma inv_s0 : inv [] s0.
Proof.
  constructor.
  - cbn [s0 RsDij.dist]. rewrite sn_length. apply repeat_length.
  - apply repeat_length.
  - apply repeat_length.
  - intros v Hv. cbn [s0 RsDij.visited]. rewrite rep_nth by exact Hv. split; [discriminate | intros []].
  - intros v [].
  - constructor.
  - intros v d. rewrite dget_s0. destruct (Nat.eqb_spec source v) as [<-|Hne]; [|discriminate].
    intros H. inversion H; subst d. eexists. apply walk_nil.
  - rewrite dget_s0, Nat.eqb_refl. reflexivity.
  - intros u [].
  - intros v d _. rewrite dget_s0. destruct (Nat.eqb_spec source v) as [<-|Hne]; [|discriminate].
    intros H. inversion H; subst d. left. reflexivity.
  - intros c v [E|[]]. inversion E; subst. split; [exact Hs|]. exists 0%Z. split; [|lia].
    rewrite dget_s0, Nat.eqb_refl. reflexivity.
  - constructor; constructor.
  - intros v u. cbn [s0 RsDij.pred]. rewrite nth_rep_same. discriminate.
  - intros l1 x l2 u H. destruct l1; discriminate.
  - intros v d. rewrite dget_s0. destruct (Nat.eqb_spec source v) as [<-|Hne]; [reflexivity|discriminate].
  - cbn [s0 RsDij.pred]. apply nth_rep_same.
Qed.

Lemma loop_s0 target : (forall t, target = Some t -> t < n) ->
  exists res, RsDij.loop (RsDij.fuel_of edges) (RsDij.build_adjacency n edges) source target s0 = Some res /\
              post target res.
Proof.
  intros _. apply (loop_ok target (RsDij.fuel_of edges) [] s0 inv_s0).
  - intros u v w [].
  - intros t _ [].
  - unfold phi, RsDij.fuel_of. cbn [s0 RsDij.hp RsDij.visited length]. pose proof (pend_le edges (repeat false n)). lia.
Qed.

(* ---------------------------------------------------------------- the results of RsDij.dijkstra *)
Theorem rsdij_all_dists_correct_sec :
  exists dv, RsDij.dijkstra n edges source None = Some (RsDij.Dists dv) /\ length dv = n /\
    forall v, v < n -> match nth v dv None with
                       | Some d => is_dist edges source v d
                       | None => ~ reachable edges source v
                       end.
Proof.
  destruct (loop_s0 None) as [res [Hl Hp]]; [discriminate|].
  unfold RsDij.dijkstra. fold s0. rewrite Hl.
  destruct res as [path d s'|s'|]; cbn [post] in Hp.
  - destruct Hp as [t [Ht _]]. discriminate.
  - destruct Hp as [ord' [HI [HR [Hh _]]]]. exists (RsDij.dist s'). split; [reflexivity|].
    split; [apply (i_ld _ _ _ _ _ HI)|]. intros v _. pose proof (done_dist ord' s' HI HR Hh v) as H.
    destruct (dget s' v); [exact (proj2 H) | exact H].
  - contradiction.
Qed.

Theorem rsdij_target_correct_sec : forall t, t < n ->
  (exists p d, RsDij.dijkstra n edges source (Some t) = Some (RsDij.Path p d) /\
               walk edges source t p d /\ is_dist edges source t d)
  \/ (RsDij.dijkstra n edges source (Some t) = Some RsDij.Infeasible /\ ~ reachable edges source t).
Proof.
  intros t Ht. destruct (loop_s0 (Some t)) as [res [Hl Hp]]; [intros t' E; inversion E; subst; exact Ht|].
  unfold RsDij.dijkstra. fold s0. rewrite Hl.
  destruct res as [path d s'|s'|]; cbn [post] in Hp.
  - destruct Hp as [t' [Et [Hw Hmin]]]. inversion Et; subst t'. left. exists path, d.
    split; [reflexivity|]. split; [exact Hw|]. split; [exists path; exact Hw | exact Hmin].
  - destruct Hp as [ord' [HI [HR [Hh HT]]]]. right.
    pose proof (done_dist ord' s' HI HR Hh t) as H.
    destruct (dget s' t) as [dt|].
    + exfalso. apply (HT t eq_refl). exact (proj1 H).
    + split; [reflexivity | exact H].
  - contradiction.
Qed.

End Dij3.

(* ---------------------------------------------------------------- closed statements *)
Theorem rsdij_all_dists_correct : forall n edges source, source < n -> evalidP n edges ->
  exists dv, RsDij.dijkstra n edges source None = Some (RsDij.Dists dv) /\ length dv = n /\
    forall v, v < n -> match nth v dv None with
                       | Some d => is_dist edges source v d
                       | None => ~ reachable edges source v
                       end.
Proof. intros n edges source Hs HV. exact (rsdij_all_dists_correct_sec n edges source Hs HV). Qed.

Theorem rsdij_target_correct : forall n edges source t, source < n -> t < n -> evalidP n edges ->
  (exists p d, RsDij.dijkstra n edges source (Some t) = Some (RsDij.Path p d) /\
               walk edges source t p d /\ is_dist edges source t d)
  \/ (RsDij.dijkstra n edges source (Some t) = Some RsDij.Infeasible /\ ~ reachable edges source t).
Proof. intros n edges source t Hs Ht HV. exact (rsdij_target_correct_sec n edges source Hs HV t Ht). Qed.

Print Assumptions rsdij_all_dists_correct.
Print Assumptions rsdij_target_correct.
