(* C12_bf: the Rust-side model of bellman_ford (kernel + adapter) and the Python-side model SV.C11.BellmanFord give
   the same result on every valid input: the kernels relax the edges in the same order with the same early exit,
   the detection pass is the same test, and the two path reconstructions walk the same predecessor chain. *)
From Coq Require Import List ZArith Bool Arith Lia.
From SV Require Import C11.Paths C11.BellmanFord C12.RsShortest C12.FwEquiv.
Import ListNotations.
Open Scope Z_scope.

Lemma relax_eq st e : RsBF.relax_edge st e = BF.relax st e.
Proof.
  destruct st as [[d p] upd]. destruct e as [[u v] w].
  unfold RsBF.relax_edge, BF.relax, RsBF.can_relax. change RsBF.getd with BF.getd.
  destruct (BF.getd d u) as [du|]; [|reflexivity].
  destruct (BF.getd d v) as [dv|]; simpl; [destruct (du + w <? dv)|]; reflexivity.
Qed.

Lemma round_eq edges d p : fold_left RsBF.relax_edge edges (d, p, false) = BF.round edges d p.
Proof. unfold BF.round. apply fold_left_ext. apply relax_eq. Qed.

Lemma rounds_eq k edges : forall d p, RsBF.rounds k edges d p = BF.rounds k edges d p.
Proof.
  induction k as [|k IH]; intros d p; simpl; [reflexivity|].
  rewrite round_eq. destruct (BF.round edges d p) as [[d' p'] upd].
  destruct upd; [apply IH | reflexivity].
Qed.

Lemma detect_eq edges d : RsBF.has_negative_cycle edges d = BF.detect edges d.
Proof.
  unfold RsBF.has_negative_cycle, BF.detect. induction edges as [|[[u v] w] l IH]; simpl; [reflexivity|].
  rewrite IH. reflexivity.
Qed.

Lemma recon_eq p : forall f c acc,
  RsBF.recon f p (nth c p None) (c :: acc) = BF.recon (S f) p c (c :: acc).
Proof.
  induction f as [|f IH]; intros c acc; simpl.
  - destruct (nth c p None); reflexivity.
  - destruct (nth c p None) as [u|]; [|reflexivity]. rewrite IH. reflexivity.
Qed.

Theorem bf_equiv : forall start edges n target, BF.valid_input start edges n target = true ->
  RsBF.bellman_ford start edges n target = BF.bellman_ford start edges n target.
Proof.
  intros start edges n target HV. unfold BF.bellman_ford. rewrite HV. simpl.
  unfold RsBF.bellman_ford, RsBF.kernel, BF.final_state, BF.init_dist, BF.init_parent.
  rewrite rounds_eq.
  change (@RsShortest.set_nth (option Z)) with (@BF.set_nth (option Z)).
  destruct (BF.rounds (n - 1) edges (BF.set_nth start (Some 0) (repeat None n)) (repeat None n)) as [d p].
  rewrite detect_eq. destruct (BF.detect edges d); [reflexivity|].
  destruct target as [t|]; [|reflexivity].
  change RsBF.getd with BF.getd. destruct (BF.getd d t) as [dt|]; [|reflexivity].
  unfold BF.reconstruct_indexed.
  change (RsBF.recon (S (length p)) p (Some t) []) with (RsBF.recon (length p) p (nth t p None) [t]).
  rewrite recon_eq. reflexivity.
Qed.
