(* C12 - Rust-side models, part 2: rust/src/algorithms/bfs.rs (bfs, dfs, build_adjacency, reconstruct_path)
   with the adapters _bfs_edges_rust / _dfs_edges_rust of solvor/rust/adapters.py, and the Python-side
   wrappers bfs_edges / dfs_edges of solvor/bfs.py on top of the C11 model of bfs() / dfs().
   Definitions only.

   Vec<bool> visited -> list bool; Vec<i64> predecessors (-1 = none) -> list (option nat);
   VecDeque / Vec stack -> list (front of the queue / top of the stack = head). *)
From Coq Require Import List ZArith Bool Arith.
From SV Require Import C11.Bfs.
Import ListNotations.

Module ES.   (* the common observable of bfs_edges / dfs_edges, both back-ends *)

Inductive status := OPTIMAL | FEASIBLE | INFEASIBLE | MAX_ITER.

Inductive result :=
| Found (st : status) (path : list nat) (objective : Z)   (* target given and reached: path, len(path)-1 *)
| NotFound (st : status)                                  (* None, inf *)
| Reach (sorted_nodes : list nat)                         (* target None: sorted list, objective 0, OPTIMAL *)
| Hang.

Definition status_eqb (a b : status) : bool :=
  match a, b with OPTIMAL, OPTIMAL | FEASIBLE, FEASIBLE | INFEASIBLE, INFEASIBLE | MAX_ITER, MAX_ITER => true | _, _ => false end.
Fixpoint nats_eqb (a b : list nat) : bool :=
  match a, b with [], [] => true | x :: xs, y :: ys => Nat.eqb x y && nats_eqb xs ys | _, _ => false end.
Definition result_eqb (a b : result) : bool :=
  match a, b with
  | Found s p o, Found s' p' o' => status_eqb s s' && nats_eqb p p' && Z.eqb o o'
  | NotFound s, NotFound s' => status_eqb s s'
  | Reach v, Reach v' => nats_eqb v v'
  | Hang, Hang => true
  | _, _ => false
  end.
Definition obs_eqb (a : option result) (b : result) : bool :=
  match a with Some r => result_eqb r b | None => false end.

(* sorted(...) of a duplicate-free list of ints: insertion sort *)
Fixpoint insert (x : nat) (l : list nat) : list nat :=
  match l with [] => [x] | y :: r => if Nat.leb x y then x :: l else y :: insert x r end.
Definition sort (l : list nat) : list nat := fold_right insert [] l.

Definition edge_ok (n : nat) (e : nat * nat) : bool := Nat.ltb (fst e) n && Nat.ltb (snd e) n.
(* node indices in range (the quantifier of C12) *)
Definition valid_input (n : nat) (edges : list (nat * nat)) (source : nat) (target : option nat) : bool :=
  Nat.ltb source n && forallb (edge_ok n) edges &&
  match target with None => true | Some t => Nat.ltb t n end.

End ES.

(* ================================================================== Python side: bfs_edges / dfs_edges *)
Module PyEdges.
Import ES.

(* adj = [[] for _ in range(n_nodes)]; for u, v in edges: adj[u].append(v); neighbors = lambda s: adj[s] *)
Definition adj_of (n : nat) (edges : list (nat * nat)) : Bfs.adjl :=
  map (fun u => (u, map snd (filter (fun e => Nat.eqb (fst e) u) edges))) (seq 0 n).

Definition conv_status (s : Bfs.status) : status :=
  match s with Bfs.OPTIMAL => OPTIMAL | Bfs.FEASIBLE => FEASIBLE | Bfs.INFEASIBLE => INFEASIBLE | Bfs.MAX_ITER => MAX_ITER end.

(* result = bfs(source, target, lambda s: adj[s], max_iter=max(1_000_000, n_nodes + len(edges) + 1))
   if target is None: return Result(sorted(result.solution), 0, ...)  else  return result *)
Definition wrap (r : option Bfs.result) : option result :=
  match r with
  | None => None
  | Some (Bfs.Found st p o) => Some (Found (conv_status st) p o)
  | Some (Bfs.NotFound st) => Some (NotFound (conv_status st))
  | Some (Bfs.Visited vs _) => Some (Reach (sort vs))
  | Some Bfs.Hang => Some Hang
  end.

Definition goal_of (target : option nat) : option (nat -> bool) :=
  match target with None => None | Some t => Bfs.goal_val t end.

(* the iteration budget the wrappers pass: never truncates (every node is expanded at most once) *)
Definition max_iter_of (n : nat) (edges : list (nat * nat)) : Z :=
  Z.max 1000000 (Z.of_nat (n + length edges + 1)).

Definition search_edges (m : Bfs.mode) (n : nat) (edges : list (nat * nat)) (source : nat) (target : option nat) : option result :=
  wrap (Bfs.search m (adj_of n edges) source (goal_of target) (max_iter_of n edges)).

Definition bfs_edges := search_edges Bfs.Queue.
Definition dfs_edges := search_edges Bfs.Stack.

End PyEdges.

(* ================================================================== Rust side *)
Module RsSearch.
Import ES.

Fixpoint set_nth {A} (i : nat) (x : A) (l : list A) : list A :=
  match l, i with
  | [], _ => []
  | _ :: t, O => x :: t
  | h :: t, S k => h :: set_nth k x t
  end.

(* build_adjacency: if u < n_nodes && v < n_nodes { adj[u].push(v); } *)
Definition build_adjacency (n : nat) (edges : list (nat * nat)) : list (list nat) :=
  fold_left (fun a e => if Nat.ltb (fst e) n && Nat.ltb (snd e) n
                        then set_nth (fst e) (nth (fst e) a [] ++ [snd e]) a else a)
            edges (repeat [] n).

(* reconstruct_path: while current != source { path.push(current); let pred = predecessors[current];
     if pred < 0 { return vec![]; } current = pred; }  path.push(source); path.reverse() *)
Fixpoint recon (fuel : nat) (p : list (option nat)) (source cur : nat) (acc : list nat) : option (list nat) :=
  if Nat.eqb cur source then Some (source :: acc) else
  match fuel with
  | O => None
  | S f => match nth cur p None with
           | None => Some []
           | Some q => recon f p source q (cur :: acc)
           end
  end.
Definition reconstruct_path (p : list (option nat)) (source target : nat) : option (list nat) :=
  recon (S (length p)) p source target [].

Record st := mk { visited : list bool; pred : list (option nat); frontier : list nat; order : list nat (* reversed visited_order *) }.

(* kernel result: (path, target_reached, visited_order) *)
Inductive kres := K (path : list nat) (reached : bool) (visited_order : list nat) | KHang.

(* ---------------- bfs *)
(* for &neighbor in &adj[node] { if !visited[neighbor] { visited[neighbor] = true; predecessors[neighbor] = node; queue.push_back(neighbor); } } *)
Definition bfs_explore (node : nat) (s : st) (nb : nat) : st :=
  if nth nb (visited s) false then s
  else mk (set_nth nb true (visited s)) (set_nth nb (Some node) (pred s)) (frontier s ++ [nb]) (order s).

Fixpoint bfs_loop (fuel : nat) (a : list (list nat)) (source : nat) (target : option nat) (s : st) : option kres :=
  match fuel with
  | O => None
  | S f =>
      match frontier s with
      | [] =>
          (* after the loop *)
          Some match target with
               | Some t => if nth t (visited s) false
                           then match reconstruct_path (pred s) source t with
                                | Some p => K p true (rev (order s)) | None => KHang end
                           else K [] false (rev (order s))
               | None => K [] false (rev (order s))
               end
      | node :: rest =>
          let s1 := mk (visited s) (pred s) rest (node :: order s) in
          if match target with Some t => Nat.eqb node t | None => false end
          then match reconstruct_path (pred s) source node with
               | Some p => Some (K p true (rev (order s1)))
               | None => Some KHang
               end
          else bfs_loop f a source target (fold_left (bfs_explore node) (nth node a []) s1)
      end
  end.

(* every node is pushed at most once (visited is set at push time): at most n pops, +1 for the final test *)
Definition bfs_kernel (n : nat) (edges : list (nat * nat)) (source : nat) (target : option nat) : option kres :=
  bfs_loop (S (S n)) (build_adjacency n edges) source target
           (mk (set_nth source true (repeat false n)) (repeat None n) [source] []).

(* ---------------- dfs *)
(* for &neighbor in adj[node].iter().rev() { if !visited[neighbor] { predecessors[neighbor] = node; stack.push(neighbor); } } *)
Definition dfs_explore (node : nat) (s : st) (nb : nat) : st :=
  if nth nb (visited s) false then s
  else mk (visited s) (set_nth nb (Some node) (pred s)) (nb :: frontier s) (order s).

Fixpoint dfs_loop (fuel : nat) (a : list (list nat)) (source : nat) (target : option nat) (s : st) : option kres :=
  match fuel with
  | O => None
  | S f =>
      match frontier s with
      | [] => Some (K [] false (rev (order s)))
      | node :: rest =>
          if nth node (visited s) false then dfs_loop f a source target (mk (visited s) (pred s) rest (order s))
          else
            let s1 := mk (set_nth node true (visited s)) (pred s) rest (node :: order s) in
            if match target with Some t => Nat.eqb node t | None => false end
            then match reconstruct_path (pred s) source node with
                 | Some p => Some (K p true (rev (order s1)))
                 | None => Some KHang
                 end
            else dfs_loop f a source target (fold_left (dfs_explore node) (rev (nth node a [])) s1)
      end
  end.

(* every edge pushes at most once per visit of its source; one initial push; +1 for the final test *)
Definition dfs_kernel (n : nat) (edges : list (nat * nat)) (source : nat) (target : option nat) : option kres :=
  dfs_loop (S (S (length edges))) (build_adjacency n edges) source target
           (mk (repeat false n) (repeat None n) [source] []).

(* ---------------- adapters *)
(* if target is not None: if target_reached: Result(path, len(path)-1, .., [status]) else Result(None, inf, INFEASIBLE)
   else Result(sorted(visited_order), 0, ..) *)
Definition adapter (found : status) (target : option nat) (k : option kres) : option result :=
  match k with
  | None => None
  | Some KHang => Some Hang
  | Some (K path reached vo) =>
      Some match target with
           | Some _ => if reached then Found found path (Z.of_nat (length path) - 1) else NotFound INFEASIBLE
           | None => Reach (sort vo)
           end
  end.

Definition bfs_edges (n : nat) (edges : list (nat * nat)) (source : nat) (target : option nat) : option result :=
  adapter OPTIMAL target (bfs_kernel n edges source target).
Definition dfs_edges (n : nat) (edges : list (nat * nat)) (source : nat) (target : option nat) : option result :=
  adapter FEASIBLE target (dfs_kernel n edges source target).

End RsSearch.
