(* C12 deep equivalence, Python side of dijkstra_edges, part 2: the all-distances mode (target = None).
   The loop of PyDij.all_dists terminates within fuel_of and returns the exact shortest-walk distances. *)
From Coq Require Import List ZArith Bool Arith Lia Sorted.
From SV Require Import C11.Paths C11.PathsLemmas C11.BestFirst C11.BestGraph C11.BestProofs1 C11.BestProofsInst
  C11.BestProofs6 C12.RsShortest C12.PyDijkstra C12.DeepPyDij1.
Import ListNotations.
Open Scope Z_scope.

(* ---------------------------------------------------------------- counting out-edges *)
Definition cnt_src (E : wgraph) (u : nat) : nat :=
  length (filter (fun e : nat * nat * Z => Nat.eqb (fst (fst e)) u) E).

Lemma list_sum_cons : forall a l, list_sum (a :: l) = (a + list_sum l)%nat.
Proof. reflexivity. Qed.

Lemma sum_cnt_cons : forall (e : nat * nat * Z) (E : wgraph) L, NoDup L ->
  (list_sum (map (cnt_src (e :: E)) L) <= Datatypes.S (list_sum (map (cnt_src E) L)))%nat
  /\ (~ In (fst (fst e)) L -> list_sum (map (cnt_src (e :: E)) L) = list_sum (map (cnt_src E) L)).
Proof.
  intros e E L HL. induction HL as [|x L Hx HL IH].
  - simpl. split; [lia|reflexivity].
  - destruct IH as [IH1 IH2]. rewrite !map_cons, !list_sum_cons.
    assert (Hc : cnt_src (e :: E) x = ((if Nat.eqb (fst (fst e)) x then 1 else 0) + cnt_src E x)%nat).
    { unfold cnt_src. cbn [filter]. destruct (Nat.eqb (fst (fst e)) x); reflexivity. }
    rewrite Hc. destruct (Nat.eqb (fst (fst e)) x) eqn:Ex.
    + apply Nat.eqb_eq in Ex. split.
      * rewrite IH2 by (rewrite Ex; exact Hx). lia.
      * intros Hn. exfalso. apply Hn. left. symmetry. exact Ex.
    + split; [lia|]. intros Hn. rewrite IH2; [lia|]. intros Hi. apply Hn. right. exact Hi.
Qed.

Lemma sum_cnt_le : forall (E : wgraph) L, NoDup L -> (list_sum (map (cnt_src E) L) <= length E)%nat.
Proof.
  induction E as [|e E IH]; intros L HL.
  - induction L as [|x L IHL]; [simpl; lia|]. inversion HL; subst. rewrite map_cons, list_sum_cons. unfold cnt_src at 1. simpl.
    apply IHL. assumption.
  - destruct (sum_cnt_cons e E L HL) as [H1 _]. specialize (IH L HL). simpl length. lia.
Qed.

Lemma py_deg_sum : forall n (E : wgraph),
  (list_sum (map (deg (adj_nbrs (PyDij.adj_of n E))) (seq 0 n)) <= length E)%nat.
Proof.
  intros n E. rewrite (map_ext_in _ (cnt_src E)).
  - apply sum_cnt_le. apply seq_NoDup.
  - intros u Hu. apply in_seq in Hu. unfold deg. rewrite py_adj_nbrs_eq by lia. rewrite map_length. reflexivity.
Qed.

Section PyLoop.
  Variable n : nat.
  Variable E : wgraph.
  Variable source : nat.
  Hypothesis Hs : (source < n)%nat.
  Hypothesis Hv : Forall (fun e : nat * nat * Z => (fst (fst e) < n)%nat /\ (snd (fst e) < n)%nat /\ 0 <= snd e) E.

  Notation inv := (inv n E source).
  Notation a := (PyDij.adj_of n E).

  (* first edge of a walk leaving the set S *)
  Lemma first_out : forall (S : list nat) x t p c, walk E x t p c -> In x S -> ~ In t S ->
    exists y z w p1 c1 c2, In y S /\ ~ In z S /\ In (y, z, w) E /\ walk E x y p1 c1 /\ 0 <= c2 /\ c = c1 + w + c2.
  Proof.
    intros S x t p c W. induction W as [u|u v t p w d Hin Hw IH]; intros HxS HtS.
    - contradiction.
    - destruct (in_dec Nat.eq_dec v S) as [HvS|HvS].
      + destruct (IH HvS HtS) as (y & z & w' & p1 & c1 & c2 & Hy & Hz & Hyz & W1 & Hc2 & Hc).
        exists y, z, w', (u :: p1), (w + c1), c2. repeat split; try assumption.
        * eapply walk_cons; eassumption.
        * lia.
      + exists u, v, w, [u], 0, d. repeat split; try assumption.
        * apply walk_nil.
        * eapply (walk_nonneg n E source Hs Hv). exact Hw.
  Qed.

  (* dropping a stale head, or a head whose node is already settled *)
  Lemma drop_inv : forall S dist d u rest,
    inv S S dist ((d, u) :: rest) -> (In u S \/ nth u dist None <> Some d) -> inv S S dist rest.
  Proof.
    intros S dist d u rest I Hor. constructor.
    - apply (i_walk _ _ _ _ _ _ _ I).
    - apply (i_src _ _ _ _ _ _ _ I).
    - apply (i_len _ _ _ _ _ _ _ I).
    - apply incl_refl.
    - apply (i_fin _ _ _ _ _ _ _ I).
    - apply (i_edge _ _ _ _ _ _ _ I).
    - intros v dv HvS Hdv. destruct (i_heap _ _ _ _ _ _ _ I v dv HvS Hdv) as [Heq|Hin]; [|exact Hin].
      inversion Heq; subst. destruct Hor as [Hor|Hor]; contradiction.
    - intros c v Hin. apply (i_hp _ _ _ _ _ _ _ I). right. exact Hin.
    - eapply csorted_tail. apply (i_sorted _ _ _ _ _ _ _ I).
  Qed.

  (* the popped non-stale head carries the true distance: its node joins the settled set *)
  Lemma settle_inv : forall S dist d u rest,
    inv S S dist ((d, u) :: rest) -> nth u dist None = Some d -> inv (u :: S) S dist rest.
  Proof.
    intros S dist d u rest I Hu.
    assert (Hmin : forall p d', walk E source u p d' -> d <= d').
    { intros p d' W. destruct (in_dec Nat.eq_dec u S) as [HuS|HuS].
      - destruct (i_fin _ _ _ _ _ _ _ I u HuS) as [d0 [Hd0 Hm]]. rewrite Hu in Hd0. inversion Hd0; subst d0.
        eapply Hm. exact W.
      - destruct (in_dec Nat.eq_dec source S) as [HsS|HsS].
        + destruct (first_out S _ _ _ _ W HsS HuS) as (y & z & w & p1 & c1 & c2 & Hy & Hz & Hyz & W1 & Hc2 & Hc).
          destruct (i_fin _ _ _ _ _ _ _ I y Hy) as [dy [Hdy Hmy]]. specialize (Hmy _ _ W1).
          destruct (i_edge _ _ _ _ _ _ _ I y z w dy Hy Hyz Hdy) as [dz [Hdz Lz]].
          pose proof (i_heap _ _ _ _ _ _ _ I z dz Hz Hdz) as Hin.
          pose proof (csorted_head _ _ _ _ _ (i_sorted _ _ _ _ _ _ _ I) Hin) as Hle. lia.
        + pose proof (i_heap _ _ _ _ _ _ _ I source 0 HsS (i_src _ _ _ _ _ _ _ I)) as Hin.
          pose proof (csorted_head _ _ _ _ _ (i_sorted _ _ _ _ _ _ _ I) Hin) as Hle.
          pose proof (walk_nonneg n E source Hs Hv _ _ _ _ W). lia. }
    constructor.
    - apply (i_walk _ _ _ _ _ _ _ I).
    - apply (i_src _ _ _ _ _ _ _ I).
    - apply (i_len _ _ _ _ _ _ _ I).
    - apply incl_tl. apply incl_refl.
    - intros x [Hx|Hx].
      + subst x. exists d. split; [exact Hu|exact Hmin].
      + apply (i_fin _ _ _ _ _ _ _ I). exact Hx.
    - apply (i_edge _ _ _ _ _ _ _ I).
    - intros v dv HvS Hdv.
      assert (HvS' : ~ In v S) by (intros Hi; apply HvS; right; exact Hi).
      destruct (i_heap _ _ _ _ _ _ _ I v dv HvS' Hdv) as [Heq|Hin]; [|exact Hin].
      inversion Heq; subst. exfalso. apply HvS. left. reflexivity.
    - intros c v Hin. apply (i_hp _ _ _ _ _ _ _ I). right. exact Hin.
    - eapply csorted_tail. apply (i_sorted _ _ _ _ _ _ _ I).
  Qed.

  (* relaxing all out-edges of the newly settled node *)
  Lemma expand_inv : forall S dist rest u d dist' heap',
    inv (u :: S) S dist rest -> nth u dist None = Some d ->
    fold_left (PyDij.relax d) (adj_nbrs a u) (dist, rest) = (dist', heap') ->
    inv (u :: S) (u :: S) dist' heap' /\ (length heap' <= length (adj_nbrs a u) + length rest)%nat.
  Proof.
    intros S dist rest u d dist' heap' I Hu R.
    assert (Hl : forall v w, In (v, w) (adj_nbrs a u) -> In (u, v, w) E).
    { intros v w Hin. apply py_adj_nbrs_In in Hin. tauto. }
    destruct (fold_relax_inv n E source Hs Hv _ _ _ _ _ _ _ _ _ I Hu Hl R) as [I' [Hu' [Hm [Hall Hlen]]]].
    split; [|exact Hlen]. constructor.
    - apply (i_walk _ _ _ _ _ _ _ I').
    - apply (i_src _ _ _ _ _ _ _ I').
    - apply (i_len _ _ _ _ _ _ _ I').
    - apply incl_refl.
    - apply (i_fin _ _ _ _ _ _ _ I').
    - intros x v w dx [Hx|Hx] Hxv Hdx.
      + subst x. rewrite Hu' in Hdx. inversion Hdx; subst dx. apply Hall.
        apply py_adj_nbrs_In. split; [|exact Hxv]. destruct (edge_valid n E Hv _ _ _ Hxv) as [Hun _]. exact Hun.
      + apply (i_edge _ _ _ _ _ _ _ I' x v w dx Hx Hxv Hdx).
    - apply (i_heap _ _ _ _ _ _ _ I').
    - apply (i_hp _ _ _ _ _ _ _ I').
    - apply (i_sorted _ _ _ _ _ _ _ I').
  Qed.

  (* ---- termination measure: heap length + out-degrees of the nodes not yet settled ---- *)
  Definition mu (S : list nat) (heap : list (Z * nat)) : nat :=
    (length heap + unexp_in Nat.eqb (adj_nbrs a) (seq 0 n) S)%nat.

  Lemma loop_correct : forall fuel S dist heap, inv S S dist heap -> (mu S heap <= fuel)%nat ->
    exists dv S', PyDij.loop fuel a dist heap = Some dv /\ inv S' S' dv [].
  Proof.
    induction fuel as [|f IH]; intros S dist heap I Hmu.
    - destruct heap as [|x r]; [|unfold mu in Hmu; simpl in Hmu; lia].
      exists dist, S. split; [reflexivity|exact I].
    - destruct heap as [|[d u] rest].
      { exists dist, S. split; [reflexivity|exact I]. }
      cbn [PyDij.loop].
      destruct (i_hp _ _ _ _ _ _ _ I d u (or_introl eq_refl)) as [Hun [du [Hdu Ldu]]].
      unfold mu in Hmu. cbn [length] in Hmu.
      destruct (flt (nth u dist None) (Some d)) eqn:F.
      + rewrite Hdu in F. simpl in F. apply Z.ltb_lt in F.
        apply (IH S).
        * eapply drop_inv; [exact I|]. right. rewrite Hdu. intros Heq. inversion Heq. lia.
        * unfold mu. lia.
      + rewrite Hdu in F. simpl in F. apply Z.ltb_ge in F. assert (du = d) by lia. subst du.
        destruct (in_dec Nat.eq_dec u S) as [HuS|HuS].
        * rewrite (fold_relax_noop d (adj_nbrs a u) dist rest).
          -- apply (IH S).
             ++ eapply drop_inv; [exact I|]. left. exact HuS.
             ++ unfold mu. lia.
          -- intros v w Hin. apply py_adj_nbrs_In in Hin. destruct Hin as [_ Hin].
             apply (i_edge _ _ _ _ _ _ _ I u v w d HuS Hin Hdu).
        * destruct (fold_left (PyDij.relax d) (adj_nbrs a u) (dist, rest)) as [dist' heap'] eqn:R.
          pose proof (settle_inv _ _ _ _ _ I Hdu) as I1.
          destruct (expand_inv _ _ _ _ _ _ _ I1 Hdu R) as [I2 Hlen].
          apply (IH (u :: S)); [exact I2|].
          assert (Hm : memb Nat.eqb u S = false).
          { destruct (memb Nat.eqb u S) eqn:M; [|reflexivity]. apply (memb_In Nat.eqb Nat.eqb_eq) in M. contradiction. }
          assert (HuL : In u (seq 0 n)) by (apply in_seq; lia).
          pose proof (unexp_cons_in Nat.eqb Nat.eqb_eq (adj_nbrs a) (seq 0 n) u S (seq_NoDup n 0) HuL Hm) as Hun'.
          unfold deg in Hun'. unfold mu. lia.
  Qed.

  (* ---- the initial state ---- *)
  Definition dist0 : list (option Z) := PyDij.set_nth source (Some 0) (repeat None n).

  Lemma dist0_nth : forall v d, nth v dist0 None = Some d -> v = source /\ d = 0.
  Proof.
    intros v d H. unfold dist0 in H. destruct (Nat.eq_dec source v) as [Heq|Hne].
    - subst v. rewrite py_set_nth_same in H by (rewrite repeat_length; exact Hs). inversion H. auto.
    - rewrite py_set_nth_other in H by exact Hne. rewrite nth_repeat_None in H. discriminate.
  Qed.

  Lemma init_inv : inv [] [] dist0 [(0, source)].
  Proof.
    assert (H0 : nth source dist0 None = Some 0).
    { unfold dist0. apply py_set_nth_same. rewrite repeat_length. exact Hs. }
    constructor.
    - intros v d H. apply dist0_nth in H. destruct H as [-> ->]. exists [source]. apply walk_nil.
    - exact H0.
    - unfold dist0. rewrite py_set_nth_length, repeat_length. reflexivity.
    - apply incl_refl.
    - intros u [].
    - intros u v w du [].
    - intros v d _ H. apply dist0_nth in H. destruct H as [-> ->]. left. reflexivity.
    - intros c v [H|[]]. inversion H; subst. split; [exact Hs|]. exists 0. split; [exact H0|lia].
    - constructor; constructor.
  Qed.

  (* ---- the final state ---- *)
  Lemma final_ok : forall S dv, inv S S dv [] ->
    length dv = n /\ forall v, (v < n)%nat ->
      match nth v dv None with
      | Some d => is_dist E source v d
      | None => ~ reachable E source v
      end.
  Proof.
    intros S dv I. split; [apply (i_len _ _ _ _ _ _ _ I)|]. intros v Hvn.
    assert (Hall : forall x dx, nth x dv None = Some dx -> In x S).
    { intros x dx Hx. destruct (in_dec Nat.eq_dec x S) as [Hi|Hi]; [exact Hi|].
      destruct (i_heap _ _ _ _ _ _ _ I x dx Hi Hx). }
    destruct (nth v dv None) as [d|] eqn:Ev.
    - split; [apply (i_walk _ _ _ _ _ _ _ I); exact Ev|].
      destruct (i_fin _ _ _ _ _ _ _ I v (Hall _ _ Ev)) as [d0 [Hd0 Hm]]. rewrite Ev in Hd0. inversion Hd0; subst d0.
      exact Hm.
    - intros [p [c W]].
      assert (HsS : In source S) by (eapply Hall; apply (i_src _ _ _ _ _ _ _ I)).
      assert (HvS : ~ In v S).
      { intros Hi. destruct (i_fin _ _ _ _ _ _ _ I v Hi) as [d0 [Hd0 _]]. congruence. }
      destruct (first_out S _ _ _ _ W HsS HvS) as (y & z & w & p1 & c1 & c2 & Hy & Hz & Hyz & W1 & Hc2 & Hc).
      destruct (i_fin _ _ _ _ _ _ _ I y Hy) as [dy [Hdy _]].
      destruct (i_edge _ _ _ _ _ _ _ I y z w dy Hy Hyz Hdy) as [dz [Hdz _]].
      apply Hz. eapply Hall. exact Hdz.
  Qed.

  Lemma fuel_enough : (mu [] [(0%Z, source)] <= PyDij.fuel_of n E)%nat.
  Proof.
    unfold mu. rewrite unexp_nil. pose proof (py_deg_sum n E) as H. unfold PyDij.fuel_of. cbn [length]. nia.
  Qed.

  Lemma all_dists_correct_sec :
    exists dv, PyDij.all_dists n E source = Some dv /\ length dv = n /\
      forall v, (v < n)%nat -> match nth v dv None with
                               | Some d => is_dist E source v d
                               | None => ~ reachable E source v
                               end.
  Proof.
    unfold PyDij.all_dists.
    destruct (loop_correct (PyDij.fuel_of n E) [] dist0 [(0, source)] init_inv fuel_enough) as [dv [S' [Hl I]]].
    exists dv. split; [exact Hl|]. eapply final_ok. exact I.
  Qed.
End PyLoop.

Theorem pydij_all_dists_correct : forall n edges source,
  (source < n)%nat ->
  Forall (fun e : nat * nat * Z => (fst (fst e) < n)%nat /\ (snd (fst e) < n)%nat /\ (0 <= snd e)%Z) edges ->
  exists dv, PyDij.all_dists n edges source = Some dv /\ length dv = n /\
    forall v, (v < n)%nat -> match nth v dv None with
                             | Some d => is_dist edges source v d
                             | None => ~ reachable edges source v
                             end.
Proof. intros n edges source Hs Hv. apply all_dists_correct_sec; assumption. Qed.

(* the observable of dijkstra_edges without a target *)
Corollary pydij_edges_none_correct : forall n edges source,
  (source < n)%nat ->
  Forall (fun e : nat * nat * Z => (fst (fst e) < n)%nat /\ (snd (fst e) < n)%nat /\ (0 <= snd e)%Z) edges ->
  exists dv, PyDij.dijkstra_edges n edges source None = Some (RsDij.Dists dv) /\ length dv = n /\
    forall v, (v < n)%nat -> match nth v dv None with
                             | Some d => is_dist edges source v d
                             | None => ~ reachable edges source v
                             end.
Proof.
  intros n edges source Hs Hv. destruct (pydij_all_dists_correct n edges source Hs Hv) as [dv [H1 H2]].
  exists dv. split; [|exact H2]. unfold PyDij.dijkstra_edges. rewrite H1. reflexivity.
Qed.

Print Assumptions pydij_all_dists_correct.
