(* C12_dijkstra: for in-range indices and non-negative weights the Rust-side model (RsDij: binary heap ordered by cost,
   lazy deletion, visited array) and the Python-side model (PyDij: dijkstra() of C11 with a target, the "minimal
   Dijkstra" without) return the same status and the same distance(s); both paths are walks source -> target of the
   input graph whose weight is that distance, which is the shortest-walk distance (C11.Paths.is_dist).  The two
   paths may differ (ties are broken differently).  Neither model runs out of fuel.
   Rust half: DeepDij1-3.v; Python half: DeepPyDij1-3.v; glued here by uniqueness of is_dist. *)
From Coq Require Import List ZArith Bool Arith Lia.
From SV Require Import C11.Paths C11.PathsLemmas C12.RsShortest C12.PyDijkstra.
From SV Require Import C12.DeepDij1 C12.DeepDij3 C12.DeepPyDij2 C12.DeepPyDij3.
Import ListNotations.
Local Open Scope nat_scope.

Theorem dijkstra_equiv_target : forall n edges source t, dij_valid n edges source (Some t) = true ->
  (exists p q d, RsDij.dijkstra n edges source (Some t) = Some (RsDij.Path p d) /\
                 PyDij.dijkstra_edges n edges source (Some t) = Some (RsDij.Path q d) /\
                 walk edges source t p d /\ walk edges source t q d /\ is_dist edges source t d)
  \/ (RsDij.dijkstra n edges source (Some t) = Some RsDij.Infeasible /\
      PyDij.dijkstra_edges n edges source (Some t) = Some RsDij.Infeasible /\
      ~ reachable edges source t).
Proof.
  intros n edges source t HVI. destruct (dij_valid_spec _ _ _ _ HVI) as [Hs [HV Ht]].
  destruct (rsdij_target_correct n edges source t Hs Ht HV) as [[p [d [H1 [H2 H3]]]]|[H1 H2]];
  destruct (pydij_target_correct n edges source t Hs Ht HV) as [[q [d' [G1 [G2 G3]]]]|[G1 G2]].
  - left. assert (d' = d) by (eapply is_dist_unique; eassumption). subst d'. exists p, q, d. auto.
  - exfalso. apply G2. eapply is_dist_reachable. exact H3.
  - exfalso. apply H2. eapply is_dist_reachable. exact G3.
  - right. auto.
Qed.

Theorem dijkstra_equiv_dists : forall n edges source, dij_valid n edges source None = true ->
  exists dv, RsDij.dijkstra n edges source None = Some (RsDij.Dists dv) /\
             PyDij.dijkstra_edges n edges source None = Some (RsDij.Dists dv) /\
             length dv = n /\
             forall v, v < n -> match nth v dv None with
                                | Some d => is_dist edges source v d
                                | None => ~ reachable edges source v
                                end.
Proof.
  intros n edges source HVI. destruct (dij_valid_spec _ _ _ _ HVI) as [Hs [HV _]].
  destruct (rsdij_all_dists_correct n edges source Hs HV) as [dv [H1 [H2 H3]]].
  destruct (pydij_edges_none_correct n edges source Hs HV) as [dv' [G1 [G2 G3]]].
  assert (E : dv' = dv).
  { apply (nth_ext _ _ None None); [congruence|]. intros v Hv. rewrite G2 in Hv.
    specialize (H3 v Hv). specialize (G3 v Hv).
    destruct (nth v dv None) as [d|], (nth v dv' None) as [d'|]; try reflexivity.
    - f_equal. eapply is_dist_unique; eassumption.
    - exfalso. apply G3. eapply is_dist_reachable. exact H3.
    - exfalso. apply H3. eapply is_dist_reachable. exact G3. }
  subst dv'. exists dv. auto.
Qed.

Print Assumptions dijkstra_equiv_target.
Print Assumptions dijkstra_equiv_dists.
