(* C12 - Rust-side models, part 1: shortest paths.  Definitions only (always compiles).

   Each module transliterates one kernel of rust/src/algorithms/*.rs TOGETHER WITH its adapter in
   solvor/rust/adapters.py (the PyO3 binding in rust/src/bindings/*.rs only converts the result struct into
   a dict and is the identity on the fields the adapters read).

     RsFW   rust/src/algorithms/floyd_warshall.rs : floyd_warshall()  + adapters._floyd_warshall_rust
     RsBF   rust/src/algorithms/bellman_ford.rs   : bellman_ford()    + adapters._bellman_ford_rust
     RsDij  rust/src/algorithms/dijkstra.rs       : dijkstra()        + adapters._dijkstra_edges_rust

   Numbers: f64 -> option Z (None = f64::INFINITY; the harness feeds integer weights, the kernels only add
   and compare: exact below 2^53; inf + x = inf; inf < x is false; x < inf is true).
   Vec<f64> / Vec<Vec<f64>> -> lists; `Vec<i64>` predecessor arrays with -1 -> list (option nat) (None = -1).
   The result types are those of the Python-side models (SV.C11), so that "same answer" is Leibniz equality. *)
From Coq Require Import List ZArith Bool Arith.
From SV Require Import C11.Paths C11.FloydWarshall C11.BellmanFord.
Import ListNotations.
Open Scope Z_scope.

Fixpoint set_nth {A} (i : nat) (x : A) (l : list A) : list A :=
  match l, i with
  | [], _ => []
  | _ :: t, O => x :: t
  | h :: t, S k => h :: set_nth k x t
  end.

(* f64 arithmetic / comparison with +inf *)
Definition fadd (a b : option Z) : option Z :=
  match a, b with Some x, Some y => Some (x + y) | _, _ => None end.
Definition flt (a b : option Z) : bool :=
  match a, b with
  | Some x, Some y => x <? y
  | Some _, None => true
  | None, _ => false
  end.

(* ================================================================== Floyd-Warshall *)
Module RsFW.

Definition mat := list (list (option Z)).
Definition get (m : mat) (i j : nat) : option Z := nth j (nth i m []) None.
Definition set (m : mat) (i j : nat) (x : option Z) : mat := set_nth i (set_nth j x (nth i m [])) m.

(* let mut dist = vec![vec![INFINITY; n]; n];  for i in 0..n { dist[i][i] = 0.0; } *)
Definition init (n : nat) : mat :=
  fold_left (fun m i => set m i i (Some 0)) (seq 0 n) (repeat (repeat None n) n).

(* for &(u, v, w) in edges { if u < n && v < n && w < dist[u][v] { dist[u][v] = w; } } *)
Definition add_edge (n : nat) (m : mat) (e : nat * nat * Z) : mat :=
  let '(u, v, w) := e in
  if Nat.ltb u n && Nat.ltb v n && flt (Some w) (get m u v) then set m u v (Some w) else m.

(* let via_k = dist[i][k] + dist[k][j]; if via_k < dist[i][j] { dist[i][j] = via_k; } *)
Definition step (k i j : nat) (m : mat) : mat :=
  let via_k := fadd (get m i k) (get m k j) in
  if flt via_k (get m i j) then set m i j via_k else m.

Definition loop_j (n k i : nat) (m : mat) : mat := fold_left (fun m j => step k i j m) (seq 0 n) m.
Definition loop_i (n k : nat) (m : mat) : mat := fold_left (fun m i => loop_j n k i m) (seq 0 n) m.
Definition loop_k (n : nat) (m : mat) : mat := fold_left (fun m k => loop_i n k m) (seq 0 n) m.

(* for i in 0..n { if dist[i][i] < 0.0 { has_negative_cycle = true; break; } } *)
Definition has_negative_cycle (n : nat) (m : mat) : bool :=
  existsb (fun i => flt (get m i i) (Some 0)) (seq 0 n).

(* the kernel: (distances, has_negative_cycle) *)
Definition kernel (n : nat) (edges : wgraph) : mat * bool :=
  let m := loop_k n (fold_left (add_edge n) edges (init n)) in
  (m, has_negative_cycle n m).

Definition swap_edge (e : nat * nat * Z) : nat * nat * Z := let '(u, v, w) := e in (v, u, w).

(* adapter: if not directed: edges = list(edges) + [(v, u, w) for u, v, w in edges] *)
Definition adapter_edges (edges : wgraph) (directed : bool) : wgraph :=
  if directed then edges else edges ++ map swap_edge edges.

(* adapter: has_negative_cycle -> Result(None, -inf, .., UNBOUNDED) else Result(distances, 0, ..) *)
Definition floyd_warshall (n : nat) (edges : wgraph) (directed : bool) : FW.result :=
  let '(m, neg) := kernel n (adapter_edges edges directed) in
  if neg then FW.Unbounded else FW.Dist m.

End RsFW.

(* ================================================================== Bellman-Ford *)
Module RsBF.

Definition dvec := list (option Z).
Definition pvec := list (option nat).

Definition getd (d : dvec) (i : nat) : option Z := nth i d None.

(* if distances[u] != INFINITY && distances[u] + w < distances[v] *)
Definition can_relax (d : dvec) (u v : nat) (w : Z) : bool :=
  match getd d u with
  | None => false
  | Some du => flt (Some (du + w)) (getd d v)
  end.

(* body of `for &(u, v, w) in edges` inside one round *)
Definition relax_edge (st : dvec * pvec * bool) (e : nat * nat * Z) : dvec * pvec * bool :=
  let '(d, p, updated) := st in
  let '(u, v, w) := e in
  if can_relax d u v w
  then (set_nth v (fadd (getd d u) (Some w)) d, set_nth v (Some u) p, true)
  else (d, p, updated).

(* for _ in 0..n_nodes.saturating_sub(1) { let mut updated = false; ...; if !updated { break; } } *)
Fixpoint rounds (k : nat) (edges : wgraph) (d : dvec) (p : pvec) : dvec * pvec :=
  match k with
  | O => (d, p)
  | S k' =>
      let '(d', p', updated) := fold_left relax_edge edges (d, p, false) in
      if updated then rounds k' edges d' p' else (d', p')
  end.

(* second pass: any edge still relaxable *)
Definition has_negative_cycle (edges : wgraph) (d : dvec) : bool :=
  existsb (fun e => let '(u, v, w) := e in can_relax d u v w) edges.

(* kernel: (distances, predecessors, has_negative_cycle) *)
Definition kernel (n : nat) (edges : wgraph) (source : nat) : dvec * pvec * bool :=
  let d0 := set_nth source (Some 0) (repeat None n) in
  let p0 := repeat None n in
  let '(d, p) := rounds (n - 1) edges d0 p0 in
  (d, p, has_negative_cycle edges d).

(* adapter: path = []; current = target; while current != -1: path.append(current); current = pred[current];
   path.reverse()      (acc is the reversed list; None = the loop does not end) *)
Fixpoint recon (fuel : nat) (p : pvec) (cur : option nat) (acc : list nat) : option (list nat) :=
  match cur with
  | None => Some acc
  | Some c =>
      match fuel with
      | O => None
      | S f => recon f p (nth c p None) (c :: acc)
      end
  end.

Definition bellman_ford (start : nat) (edges : wgraph) (n : nat) (target : option nat) : BF.result :=
  let '(d, p, neg) := kernel n edges start in
  if neg then BF.Unbounded else
  match target with
  | Some t =>
      match getd d t with
      | None => BF.Infeasible                       (* distances[target] == inf *)
      | Some dt =>
          match recon (S (length p)) p (Some t) [] with
          | Some path => BF.Path path dt
          | None => BF.Hang
          end
      end
  | None => BF.Dists d                              (* {i: d for i, d in enumerate(distances) if d != inf} *)
  end.

End RsBF.

(* ================================================================== Dijkstra *)
Module RsDij.

(* std BinaryHeap<State> ordered by cost only: which of several entries of EQUAL cost is popped first
   depends on the heap's internal layout.  Modelled by a list kept sorted by cost (new entries go behind
   equal ones).  Distances, reachability and the status do not depend on that choice; the returned PATH
   may, so the correspondence compares the path only through the checker (valid walk of the reported
   weight), not literally. *)
Definition heap := list (Z * nat).
Fixpoint hpush (e : Z * nat) (h : heap) : heap :=
  match h with
  | [] => [e]
  | x :: r => if fst e <? fst x then e :: h else x :: hpush e r
  end.

Definition adj := list (list (nat * Z)).
(* build_adjacency: if u < n_nodes && v < n_nodes { adj[u].push((v, w)); } *)
Definition build_adjacency (n : nat) (edges : wgraph) : adj :=
  fold_left (fun a e => let '(u, v, w) := e in
                        if Nat.ltb u n && Nat.ltb v n then set_nth u (nth u a [] ++ [(v, w)]) a else a)
            edges (repeat [] n).

Record st := mk { dist : list (option Z); pred : list (option nat); visited : list bool; hp : heap }.

(* for &(neighbor, weight) in &adj[node] { if visited[neighbor] {continue;} let new_dist = cost + weight;
     if new_dist < distances[neighbor] { distances[neighbor] = new_dist; predecessors[neighbor] = node; heap.push } } *)
Definition explore (node : nat) (cost : Z) (s : st) (nw : nat * Z) : st :=
  let '(nb, w) := nw in
  if nth nb (visited s) false then s
  else
    let nd := cost + w in
    if flt (Some nd) (nth nb (dist s) None)
    then mk (set_nth nb (Some nd) (dist s)) (set_nth nb (Some node) (pred s)) (visited s) (hpush (nd, nb) (hp s))
    else s.

(* reconstruct_path: while current != source { path.push(current); pred = predecessors[current];
     if pred < 0 { return vec![] } current = pred }  path.push(source); reverse *)
Fixpoint recon (fuel : nat) (p : list (option nat)) (source cur : nat) (acc : list nat) : option (list nat) :=
  if Nat.eqb cur source then Some (source :: acc) else
  match fuel with
  | O => None
  | S f => match nth cur p None with
           | None => Some []
           | Some q => recon f p source q (cur :: acc)
           end
  end.

Inductive kres :=
| KReached (path : list nat) (d : Z) (s : st)     (* target popped: early return *)
| KDone (s : st)                                  (* heap exhausted *)
| KHang.                                          (* path reconstruction does not end *)

(* while let Some(State { cost, node }) = heap.pop() { ... }      None = out of fuel *)
Fixpoint loop (fuel : nat) (a : adj) (source : nat) (target : option nat) (s : st) : option kres :=
  match fuel with
  | O => None
  | S f =>
      match hp s with
      | [] => Some (KDone s)
      | (cost, node) :: rest =>
          let s0 := mk (dist s) (pred s) (visited s) rest in
          if nth node (visited s) false then loop f a source target s0
          else
            let s1 := mk (dist s) (pred s) (set_nth node true (visited s)) rest in
            if match target with Some t => Nat.eqb node t | None => false end
            then match recon (S (length (pred s))) (pred s) source node [] with
                 | Some path => Some (KReached path cost s1)
                 | None => Some KHang
                 end
            else if flt (nth node (dist s) None) (Some cost) then loop f a source target s1
            else loop f a source target (fold_left (explore node cost) (nth node a []) s1)
      end
  end.

Inductive result :=
| Path (p : list nat) (d : Z)        (* target reached: path, target_distance; OPTIMAL *)
| Infeasible                         (* None, inf, INFEASIBLE *)
| Dists (d : list (option Z))        (* no target: {i: d if d != inf}; objective 0.0 *)
| Hang.

(* every push is preceded by a strict decrease of one distance entry or is the initial push; the number of
   pushes is at most 1 + |edges| (an edge pushes at most once: after its source is visited) *)
Definition fuel_of (edges : wgraph) : nat := 3 + length edges.

Definition dijkstra (n : nat) (edges : wgraph) (source : nat) (target : option nat) : option result :=
  let a := build_adjacency n edges in
  let s0 := mk (set_nth source (Some 0) (repeat None n)) (repeat None n) (repeat false n) [(0, source)] in
  match loop (fuel_of edges) a source target s0 with
  | None => None
  | Some KHang => Some Hang
  | Some (KReached path d _) => Some (Path path d)                 (* adapter: target_reached *)
  | Some (KDone s) =>
      match target with
      | None => Some (Dists (dist s))
      | Some t =>
          (* kernel tail: if distances[t].is_finite() { (true, reconstruct_path, distances[t]) } else (false, ..) *)
          match nth t (dist s) None with
          | Some dt => match recon (S (length (pred s))) (pred s) source t [] with
                       | Some path => Some (Path path dt)
                       | None => Some Hang
                       end
          | None => Some Infeasible
          end
      end
  end.

Definition oz_eqb (a b : option Z) : bool :=
  match a, b with None, None => true | Some x, Some y => Z.eqb x y | _, _ => false end.

(* observable comparison with an implementation result: distances / status / target distance literally,
   the path as a walk of the input graph of exactly the reported weight *)
Definition result_ok (edges : wgraph) (source : nat) (target : option nat) (model impl : result) : bool :=
  match model, impl with
  | Path _ d, Path p' d' =>
      Z.eqb d d' && match target with Some t => walk_check edges source t p' d' | None => false end
  | Infeasible, Infeasible => true
  | Dists d, Dists d' => BF.dvec_eqb d d'
  | _, _ => false
  end.

Definition obs_ok (edges : wgraph) (source : nat) (target : option nat) (model : option result) (impl : result) : bool :=
  match model with Some m => result_ok edges source target m impl | None => false end.

End RsDij.
