(* C12 - Rust-side model of rust/src/algorithms/kruskal.rs (struct UnionFind, kruskal()) with the adapter
   _kruskal_rust of solvor/rust/adapters.py.  Definitions only.

   `sorted_edges.sort_by(|a, b| a.2.partial_cmp(&b.2)...)` is a STABLE sort by weight; the stable sort of a list
   by a total preorder is unique, so it is the same function as the Python side's `sorted(edges, key=e[2])`
   (Mst.sort_edges, stable insertion sort).  Weights f64 -> Z.  The observable is Mst.obs (status, solution,
   objective), the counters are metadata. *)
From Coq Require Import List Arith ZArith Bool.
From SV Require Import C13.Mst.
Import ListNotations.

Module RsKruskal.

Fixpoint set_nth {A} (i : nat) (v : A) (l : list A) : list A :=
  match l, i with
  | [], _ => []
  | _ :: xs, 0 => v :: xs
  | x :: xs, S j => x :: set_nth j v xs
  end.

(* struct UnionFind { parent: Vec<usize>, rank: Vec<usize> } *)
Record ruf := { parent : list nat; rank : list nat }.
Definition uf_new (n : nat) : ruf := {| parent := seq 0 n; rank := repeat 0 n |}.

(* fn find(&mut self, x): if self.parent[x] != x { self.parent[x] = self.find(self.parent[x]); } self.parent[x]
   recursion -> fuel; None = fuel exhausted *)
Fixpoint find (fuel : nat) (p : list nat) (x : nat) : option (list nat * nat) :=
  match fuel with
  | 0 => None
  | S f =>
      let px := nth x p x in
      if negb (px =? x)
      then match find f p px with
           | None => None
           | Some (p', r) => Some (set_nth x r p', r)
           end
      else Some (p, x)
  end.

(* fn union(&mut self, x, y) -> bool: match self.rank[root_x].cmp(&self.rank[root_y]) { Less => parent[root_x] = root_y,
     Greater => parent[root_y] = root_x, Equal => { parent[root_y] = root_x; rank[root_x] += 1; } } *)
Definition union (u : ruf) (x y : nat) : option (ruf * bool) :=
  let fuel := S (length (parent u)) in
  match find fuel (parent u) x with
  | None => None
  | Some (p1, root_x) =>
    match find fuel p1 y with
    | None => None
    | Some (p2, root_y) =>
      if root_x =? root_y then Some ({| parent := p2; rank := rank u |}, false)
      else
        let rx := nth root_x (rank u) 0 in
        let ry := nth root_y (rank u) 0 in
        Some (match Nat.compare rx ry with
              | Lt => {| parent := set_nth root_x root_y p2; rank := rank u |}
              | Gt => {| parent := set_nth root_y root_x p2; rank := rank u |}
              | Eq => {| parent := set_nth root_y root_x p2; rank := set_nth root_x (S rx) (rank u) |}
              end, true)
    end
  end.

(* for (u, v, w) in sorted_edges { iterations += 1; if uf.union(u, v) { mst_edges.push((u, v, w)); total_weight += w;
     if mst_edges.len() == n_nodes - 1 { break; } } } *)
Fixpoint loop (n : nat) (u : ruf) (es : list edge) (acc : list edge) (tot : Z) : option (list edge * Z) :=
  match es with
  | [] => Some (acc, tot)
  | e :: rest =>
    match union u (eu e) (ev e) with
    | None => None
    | Some (u', true) =>
        let acc' := acc ++ [e] in
        if length acc' =? n - 1 then Some (acc', (tot + ew e)%Z)
        else loop n u' rest acc' (tot + ew e)%Z
    | Some (u', false) => loop n u' rest acc tot
    end
  end.

(* kernel: (mst_edges, total_weight, is_connected) *)
Definition kernel (n : nat) (edges : list edge) : option (list edge * Z * bool) :=
  match n with
  | 0 => Some ([], 0%Z, true)
  | _ =>
    match loop n (uf_new n) (sort_edges edges) [] 0%Z with
    | None => None
    | Some (acc, tot) => Some (acc, tot, length acc =? n - 1)
    end
  end.

(* adapter *)
Definition kruskal (n : nat) (edges : list edge) (allow_forest : bool) : option obs :=
  match kernel n edges with
  | None => None
  | Some (acc, tot, is_connected) =>
      Some (if negb is_connected
            then if allow_forest then (FEASIBLE, Some acc, Some tot) else (INFEASIBLE, None, None)
            else (OPTIMAL, Some acc, Some tot))
  end.

(* Python-side observable of the same call (None = model out of fuel / ValueError: outside C12) *)
Definition py_kruskal (n : nat) (edges : list edge) (allow_forest : bool) : option obs :=
  match Mst.kruskal n edges allow_forest with
  | Done r => Some (r_status r, r_solution r, r_objective r)
  | _ => None
  end.

Definition obs_ok (m : option obs) (impl : obs) : bool :=
  match m with Some o => obs_eqb o impl | None => false end.

End RsKruskal.
