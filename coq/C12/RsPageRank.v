(* C12 - Rust-side model of rust/src/algorithms/pagerank.rs (pagerank()) with the adapter _pagerank_edges_rust,
   and the Python-side wrapper pagerank_edges of solvor/pagerank.py on top of the C15 model of pagerank().
   Definitions only.  f64 -> Q (exact rationals; rounding is outside the model).

   MODELLED KERNEL = the kernel with the pending `fix:` of the stopping rule: the convergence test is
        max_i |new[i] - old[i]| < tol        (as in solvor/pagerank.py)
   where the pinned kernel summed the differences.  Everything else follows the pinned source:
   incoming[v] lists the sources in EDGE-LIST order (the Python side: in node order), the dangling sum runs
   over the old scores, new = (base + damping*sum) + damping*dangling_sum/n. *)
From Coq Require Import List Arith Bool ZArith QArith Qabs Qminmax.
From SV Require Import C15.Graph C15.PageRank.
Import ListNotations.
Open Scope Q_scope.

Module RsPR.

Definition edge_ok (n : nat) (e : nat * nat) : bool := Nat.ltb (fst e) n && Nat.ltb (snd e) n.

(* incoming[v].push(u); outgoing_count[u] += 1      for each in-range edge, in edge-list order *)
Definition incoming (n : nat) (edges : list (nat * nat)) (v : nat) : list nat :=
  map fst (filter (fun e => edge_ok n e && Nat.eqb (snd e) v) edges).
Definition outgoing_count (n : nat) (edges : list (nat * nat)) (u : nat) : nat :=
  length (filter (fun e => edge_ok n e && Nat.eqb (fst e) u) edges).

Definition qn (k : nat) : Q := inject_Z (Z.of_nat k).
Definition qsum (l : list Q) : Q := fold_left Qplus l 0.
Definition sc (s : list Q) (i : nat) : Q := nth i s 0.

(* one sweep: new_scores[i] = base + damping * sum_{j in incoming[i], out[j] > 0} scores[j]/out[j];
   then += damping * dangling_sum / n *)
Definition step (n : nat) (edges : list (nat * nat)) (d : Q) (s : list Q) : list Q :=
  let base := (1 - d) / qn n in
  let dangling_sum := qsum (map (sc s) (filter (fun i => Nat.eqb (outgoing_count n edges i) 0) (seq 0 n))) in
  let dangling_contrib := d * dangling_sum / qn n in
  map (fun i =>
         let sum := qsum (map (fun j => sc s j / qn (outgoing_count n edges j))
                              (filter (fun j => Nat.ltb 0 (outgoing_count n edges j)) (incoming n edges i))) in
         Qred (base + d * sum + dangling_contrib))
      (seq 0 n).

(* FIXED rule: max |a - b| *)
Definition diff (s s' : list Q) : Q :=
  fold_left (fun m ab => Qmax m (Qabs (fst ab - snd ab))) (combine s s') 0.

Definition qltb (a b : Q) : bool := negb (Qle_bool b a).

(* for iteration in 0..max_iter { ...; swap; if diff < tol { return (scores, iteration+1, true) } }  (scores, max_iter, false) *)
Fixpoint loop (fuel it n : nat) (edges : list (nat * nat)) (d tol : Q) (s : list Q) : list Q * nat * bool :=
  match fuel with
  | 0%nat => (s, it, false)
  | S f =>
      let s' := step n edges d s in
      if qltb (Qred (diff s s')) tol then (s', S it, true) else loop f (S it) n edges d tol s'
  end.

(* kernel: n == 0 -> ([], 0, converged); adapter: scores dict, OPTIMAL if converged else MAX_ITER *)
Definition pagerank_edges (n : nat) (edges : list (nat * nat)) (d tol : Q) (max_iter : nat) : list Q * nat * bool :=
  match n with
  | 0%nat => ([], 0%nat, true)
  | _ => loop max_iter 0 n edges d tol (repeat (Qred (1 / qn n)) n)
  end.

(* k sweeps without the stopping test *)
Fixpoint iterate (k n : nat) (edges : list (nat * nat)) (d : Q) (s : list Q) : list Q :=
  match k with 0%nat => s | S k' => iterate k' n edges d (step n edges d s) end.

(* ---------------- Python side: pagerank_edges = pagerank(range(n), lambda s: adj[s]) *)
Definition py_graph (n : nat) (edges : list (nat * nat)) : graph :=
  map (fun u => (u, map snd (filter (fun e => Nat.eqb (fst e) u) edges))) (seq 0 n).

Definition py_pagerank_edges (n : nat) (edges : list (nat * nat)) (d tol : Q) (max_iter : nat) : presult :=
  pagerank (py_graph n edges) d tol max_iter.

(* observable of the Python side as (scores by node index, status converged?) ; None for the n = 0 / max_iter = 0 rows *)
Definition py_obs (n : nat) (r : presult) : option (list Q * bool) :=
  match r with
  | PR_ok p => Some (map (score (p_scores p)) (seq 0 n),
                     match p_status p with P_OPTIMAL => true | P_MAX_ITER => false end)
  | PR_noiter s => Some (map (score s) (seq 0 n), false)
  | PR_empty => Some ([], true)
  end.

(* ---------------- comparison with implementation outputs (floats sent as exact rationals) *)
Definition close (eps a b : Q) : bool := Qle_bool (Qabs (a - b)) eps.
Fixpoint all_close (eps : Q) (a b : list Q) : bool :=
  match a, b with
  | [], [] => true
  | x :: xs, y :: ys => close eps x y && all_close eps xs ys
  | _, _ => false
  end.

(* scores after exactly `it` sweeps (the iteration count the implementation reports) agree within eps *)
Definition corr_iter (eps : Q) (n : nat) (edges : list (nat * nat)) (d : Q) (it : nat) (scores : list Q) : bool :=
  all_close eps (iterate it n edges d (repeat (Qred (1 / qn n)) n)) scores.

(* full run incl. stopping rule: scores, iteration count and converged flag *)
Definition corr_strict (eps : Q) (n : nat) (edges : list (nat * nat)) (d tol : Q) (max_iter : nat)
           (o : list Q * nat * bool) : bool :=
  let '(s, it, cv) := pagerank_edges n edges d tol max_iter in
  let '(s', it', cv') := o in
  all_close eps s s' && Nat.eqb it it' && Bool.eqb cv cv'.

End RsPR.
