(* C12_kruskal: the Rust-side model of kruskal (UnionFind + loop + adapter) and the Python-side model SV.C13.Mst.kruskal
   return the same status, the same edge list and the same total weight on every valid input, and neither runs out
   of fuel.  The two union-finds are the same algorithm (union by rank, path compression, same tie rule), the
   edge order is the same stable sort, so the accepted edges coincide one by one. *)
From Coq Require Import List Arith ZArith Bool Lia.
From SV Require Import C20.UF C20.UFSpec C20.UFUnion C20.UFProofs C13.Mst C12.RsKruskal.
Import ListNotations.

Definition R (u : uf) (r : RsKruskal.ruf) : Prop :=
  UF.parent u = RsKruskal.parent r /\ UF.rank u = RsKruskal.rank r.

Lemma find_eq : forall fuel p x, RsKruskal.find fuel p x = UF.find fuel p x.
Proof.
  induction fuel as [|f IH]; intros p x; simpl; [reflexivity|].
  destruct (nth x p x =? x); simpl; [reflexivity|]. rewrite IH. reflexivity.
Qed.

Lemma union_sim u r x y : R u r ->
  match UF.union u x y, RsKruskal.union r x y with
  | None, None => True
  | Some (u', b), Some (r', b') => b = b' /\ R u' r'
  | _, _ => False
  end.
Proof.
  intros [HP HK]. unfold UF.union, RsKruskal.union, fuel_of. rewrite <- HP, <- HK, !find_eq.
  destruct (UF.find (S (length (UF.parent u))) (UF.parent u) x) as [[p1 rx]|]; [|exact I].
  rewrite find_eq.
  destruct (UF.find (S (length (UF.parent u))) p1 y) as [[p2 ry]|]; [|exact I].
  destruct (rx =? ry); [split; [reflexivity | split; reflexivity]|].
  destruct (Nat.compare_spec (nth rx (UF.rank u) 0) (nth ry (UF.rank u) 0)) as [E|E|E].
  - assert (H1 : (nth rx (UF.rank u) 0 <? nth ry (UF.rank u) 0) = false) by (apply Nat.ltb_ge; lia).
    rewrite H1. cbv iota beta. rewrite E, Nat.eqb_refl. split; [reflexivity|]. split; reflexivity.
  - assert (H1 : (nth rx (UF.rank u) 0 <? nth ry (UF.rank u) 0) = true) by (apply Nat.ltb_lt; lia).
    rewrite H1. cbv iota beta.
    assert (H2 : (nth ry (UF.rank u) 0 =? nth rx (UF.rank u) 0) = false) by (apply Nat.eqb_neq; lia).
    rewrite H2. split; [reflexivity|]. split; reflexivity.
  - assert (H1 : (nth rx (UF.rank u) 0 <? nth ry (UF.rank u) 0) = false) by (apply Nat.ltb_ge; lia).
    rewrite H1. cbv iota beta.
    assert (H2 : (nth rx (UF.rank u) 0 =? nth ry (UF.rank u) 0) = false) by (apply Nat.eqb_neq; lia).
    rewrite H2. split; [reflexivity|]. split; reflexivity.
Qed.

Definition drop_iters (o : option (list edge * Z * nat)) : option (list edge * Z) :=
  match o with Some (a, t, _) => Some (a, t) | None => None end.

Lemma loop_sim n : forall es u r acc tot it, R u r ->
  drop_iters (kruskal_loop n u es acc tot it) = RsKruskal.loop n r es acc tot.
Proof.
  induction es as [|e es IH]; intros u r acc tot it HR; simpl; [reflexivity|].
  pose proof (union_sim u r (eu e) (ev e) HR) as H.
  destruct (UF.union u (eu e) (ev e)) as [[u' b]|]; destruct (RsKruskal.union r (eu e) (ev e)) as [[r' b']|];
    try contradiction; [|reflexivity].
  destruct H as [<- HR']. destruct b.
  - destruct (length (acc ++ [e]) =? n - 1); [reflexivity|]. apply IH, HR'.
  - apply IH, HR'.
Qed.

(* ---------------- the Python-side loop never fails and never collects more than n-1 edges *)
Lemma loop_ok n : forall es pre u acc tot it,
  SInv n pre u -> Forall (fun e => eu e < n /\ ev e < n) es ->
  (length acc < n - 1 \/ (n = 1 /\ acc = [])) ->
  exists acc' tot' it', kruskal_loop n u es acc tot it = Some (acc', tot', it') /\
                        (length acc' <= n - 1).
Proof.
  induction es as [|e es IH]; intros pre u acc tot it HS HF Hacc; simpl.
  - exists acc, tot, it. split; [reflexivity|]. destruct Hacc as [H|[H1 H2]]; [lia|]. subst; simpl; lia.
  - inversion HF as [|? ? [Hu Hv] HF']; subst.
    destruct (union_ok n pre u (eu e) (ev e) HS Hu Hv) as (u' & b & HU & Hb & HS').
    rewrite HU. destruct b.
    + destruct Hacc as [Hlt|[Hn1 Hnil]].
      * destruct (Nat.eqb_spec (length (acc ++ [e])) (n - 1)) as [E|E].
        -- do 3 eexists. split; [reflexivity|]. lia.
        -- apply (IH (pre ++ [(eu e, ev e)])); auto. left. rewrite app_length in *. simpl in *. lia.
      * exfalso. subst n. assert (eu e = 0) by lia. assert (ev e = 0) by lia.
        destruct Hb as [Hb _]. apply Hb; [reflexivity|]. rewrite H, H0. apply joined_refl.
    + apply (IH (pre ++ [(eu e, ev e)])); auto.
Qed.

Lemma valid_forall n edges : kruskal_valid n edges = true ->
  1 <= n /\ Forall (fun e => eu e < n /\ ev e < n) (sort_edges edges).
Proof.
  unfold kruskal_valid. intros H. apply andb_true_iff in H. destruct H as [H1 H2].
  apply Nat.leb_le in H1. split; [assumption|].
  assert (HF : Forall (fun e => eu e < n /\ ev e < n) edges).
  { apply Forall_forall. intros e He. rewrite forallb_forall in H2. specialize (H2 e He).
    unfold edge_in_range in H2. apply andb_true_iff in H2. destruct H2 as [A B].
    apply Nat.ltb_lt in A. apply Nat.ltb_lt in B. auto. }
  clear H2. unfold sort_edges. induction edges as [|e l IH]; simpl; [constructor|].
  inversion HF as [|? ? He HF']; subst. specialize (IH HF').
  revert IH. generalize (fold_right insert_edge [] l). intros s Hs.
  induction s as [|y s IHs]; simpl.
  - constructor; auto.
  - destruct (ew e <=? ew y)%Z.
    + constructor; auto.
    + inversion Hs; subst. constructor; auto.
Qed.

Lemma kernel_pos n edges : 1 <= n ->
  RsKruskal.kernel n edges =
  match RsKruskal.loop n (RsKruskal.uf_new n) (sort_edges edges) [] 0%Z with
  | None => None
  | Some (acc, tot) => Some (acc, tot, length acc =? n - 1)
  end.
Proof. destruct n; [lia | reflexivity]. Qed.

Theorem kruskal_equiv : forall n edges allow_forest, kruskal_valid n edges = true ->
  RsKruskal.kruskal n edges allow_forest = RsKruskal.py_kruskal n edges allow_forest /\
  exists o, RsKruskal.py_kruskal n edges allow_forest = Some o.
Proof.
  intros n edges allow HV. destruct (valid_forall n edges HV) as [Hn HF].
  unfold RsKruskal.py_kruskal, Mst.kruskal, RsKruskal.kruskal, kruskal_core. rewrite HV.
  rewrite kernel_pos by assumption.
  assert (HR : R (uf_init n) (RsKruskal.uf_new n)) by (split; reflexivity).
  pose proof (loop_sim n (sort_edges edges) _ _ [] 0%Z 0 HR) as Hsim.
  assert (Hacc0 : length (@nil edge) < n - 1 \/ (n = 1 /\ @nil edge = [])).
  { destruct (Nat.eq_dec n 1); [right; auto | left; simpl; lia]. }
  destruct (loop_ok n (sort_edges edges) [] _ [] 0%Z 0 (init_SInv n) HF Hacc0)
    as (acc & tot & it & HL & Hlen).
  rewrite HL in Hsim. simpl in Hsim. rewrite <- Hsim. rewrite HL.
  unfold kruskal_result.
  split.
  - destruct (Nat.ltb_spec (length acc) (n - 1)) as [Hlt|Hge].
    + assert (E : (length acc =? n - 1) = false) by (apply Nat.eqb_neq; lia). rewrite E.
      destruct allow; reflexivity.
    + assert (E : (length acc =? n - 1) = true) by (apply Nat.eqb_eq; lia). rewrite E. reflexivity.
  - eexists; reflexivity.
Qed.
