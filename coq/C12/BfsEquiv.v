(* C12_bfs (reachability part): for target = None the Rust-side model of bfs_edges (kernel + adapter) and the
   Python-side model (bfs() of SV.C11.Bfs wrapped as in solvor/bfs.py bfs_edges) return the same sorted list of
   reachable nodes, and neither runs out of fuel.  Hypothesis n <= 10^6: bfs() has a silent iteration cap
   max_iter = 1_000_000 that the Rust kernel does not have (beyond it the back-ends DO differ, see the report).
   Proof: lock-step simulation; the Python visited list is, at every moment, rev(queue) ++ (nodes popped so far). *)
From Coq Require Import List ZArith Bool Arith Lia Permutation Sorted.
From SV Require Import C11.Bfs C12.RsSearch.
Import ListNotations.

(* ---------------------------------------------------------------- arrays *)
Lemma length_set_nth {A} (i : nat) (x : A) l : length (RsSearch.set_nth i x l) = length l.
Proof. revert i; induction l as [|h t IH]; intros [|i]; simpl; auto. Qed.

Lemma nth_set_nth_eq {A} (i : nat) (x d : A) l : i < length l -> nth i (RsSearch.set_nth i x l) d = x.
Proof. revert i; induction l as [|h t IH]; intros [|i] H; simpl in *; try lia; auto. apply IH; lia. Qed.

Lemma nth_set_nth_neq {A} (i j : nat) (x d : A) l : i <> j -> nth j (RsSearch.set_nth i x l) d = nth j l d.
Proof.
  revert i j; induction l as [|h t IH]; intros [|i] [|j] H; simpl; try reflexivity; try congruence.
  apply IH; congruence.
Qed.

Lemma nth_repeat_lt {A} (x d : A) n i : i < n -> nth i (repeat x n) d = x.
Proof. revert i; induction n as [|n IH]; intros [|i] H; simpl; try lia; auto. apply IH; lia. Qed.

Lemma mem_In x l : Bfs.mem x l = true <-> In x l.
Proof.
  unfold Bfs.mem. rewrite existsb_exists. split.
  - intros [y [Hy E]]. apply Nat.eqb_eq in E. now subst.
  - intros H. exists x. split; [exact H | apply Nat.eqb_refl].
Qed.

(* ---------------------------------------------------------------- sorting is permutation invariant *)
Import ES.

Lemma insert_perm x l : Permutation (insert x l) (x :: l).
Proof.
  induction l as [|y r IH]; simpl; [apply Permutation_refl|].
  destruct (Nat.leb x y); [apply Permutation_refl|].
  eapply Permutation_trans; [apply perm_skip; exact IH | apply perm_swap].
Qed.

Lemma sort_perm l : Permutation (sort l) l.
Proof.
  induction l as [|x l IH]; simpl; [constructor|].
  eapply Permutation_trans; [apply insert_perm | apply perm_skip; exact IH].
Qed.

Lemma insert_sorted x l : Sorted le l -> Sorted le (insert x l).
Proof.
  induction l as [|y r IH]; intros H; simpl.
  - repeat constructor.
  - destruct (Nat.leb_spec x y) as [L|L].
    + constructor; [exact H | constructor; exact L].
    + inversion H as [|? ? Hs Hh]; subst. constructor; [apply IH; exact Hs|].
      destruct r as [|z r']; simpl.
      * constructor. lia.
      * destruct (Nat.leb x z); constructor; [lia | inversion Hh; subst; assumption].
Qed.

Lemma sort_sorted l : Sorted le (sort l).
Proof. induction l as [|x l IH]; simpl; [constructor | apply insert_sorted; exact IH]. Qed.

Lemma sorted_perm_eq : forall l l', Sorted le l -> Sorted le l' -> Permutation l l' -> l = l'.
Proof.
  induction l as [|x l IH]; intros l' Hs Hs' HP.
  - apply Permutation_nil in HP. now subst.
  - destruct l' as [|y l']; [apply Permutation_sym, Permutation_nil in HP; discriminate|].
    apply Sorted_StronglySorted in Hs; [|intros a b c; lia].
    apply Sorted_StronglySorted in Hs'; [|intros a b c; lia].
    inversion Hs as [|? ? Hsl Hfx]; subst. inversion Hs' as [|? ? Hsl' Hfy]; subst.
    assert (Hxy : x = y).
    { assert (Hx : In x (y :: l')) by (eapply Permutation_in; [exact HP | left; reflexivity]).
      assert (Hy : In y (x :: l)) by (eapply Permutation_in; [apply Permutation_sym; exact HP | left; reflexivity]).
      rewrite Forall_forall in Hfx, Hfy.
      destruct Hx as [Hx|Hx]; [congruence|]. destruct Hy as [Hy|Hy]; [congruence|].
      pose proof (Hfx y Hy). pose proof (Hfy x Hx). lia. }
    subst y. f_equal. apply IH.
    + apply StronglySorted_Sorted; exact Hsl.
    + apply StronglySorted_Sorted; exact Hsl'.
    + eapply Permutation_cons_inv; exact HP.
Qed.

Lemma sort_perm_eq l l' : Permutation l l' -> sort l = sort l'.
Proof.
  intros HP. apply sorted_perm_eq; try apply sort_sorted.
  eapply Permutation_trans; [apply sort_perm|].
  eapply Permutation_trans; [exact HP | apply Permutation_sym, sort_perm].
Qed.

(* ---------------------------------------------------------------- adjacency of the two sides *)
Definition out_of (edges : list (nat * nat)) (u : nat) : list nat :=
  map snd (filter (fun e => Nat.eqb (fst e) u) edges).

Definition evalid (n : nat) (edges : list (nat * nat)) : Prop :=
  Forall (fun e => fst e < n /\ snd e < n) edges.

Lemma rs_adj_gen n u : u < n -> forall edges acc, evalid n edges -> length acc = n ->
  nth u (fold_left (fun a e => if Nat.ltb (fst e) n && Nat.ltb (snd e) n
                                then RsSearch.set_nth (fst e) (nth (fst e) a [] ++ [snd e]) a else a) edges acc) []
  = nth u acc [] ++ out_of edges u.
Proof.
  intros Hu. induction edges as [|e l IH]; intros acc HV Hacc; simpl.
  - now rewrite app_nil_r.
  - inversion HV as [|? ? [H1 H2] HV']; subst.
    apply Nat.ltb_lt in H1 as H1b. apply Nat.ltb_lt in H2 as H2b. rewrite H1b, H2b. simpl.
    rewrite IH; [|exact HV'|now rewrite length_set_nth].
    unfold out_of. simpl. destruct (Nat.eqb_spec (fst e) u) as [E|E].
    + subst u. rewrite nth_set_nth_eq by lia. simpl. now rewrite <- app_assoc.
    + rewrite nth_set_nth_neq by exact E. reflexivity.
Qed.

Lemma rs_adj n edges u : u < n -> evalid n edges -> nth u (RsSearch.build_adjacency n edges) [] = out_of edges u.
Proof.
  intros Hu HV. unfold RsSearch.build_adjacency. rewrite (rs_adj_gen n u Hu edges _ HV (repeat_length _ _)).
  now rewrite nth_repeat_lt by exact Hu.
Qed.

Lemma py_adj n edges u : u < n -> Bfs.succ_of (PyEdges.adj_of n edges) u = out_of edges u.
Proof.
  intros Hu. unfold Bfs.succ_of, PyEdges.adj_of.
  assert (G : forall k m, k <= u < k + m ->
    Bfs.lookup u (map (fun u0 => (u0, map snd (filter (fun e => Nat.eqb (fst e) u0) edges))) (seq k m)) = Some (out_of edges u)).
  { intros k m; revert k; induction m as [|m IH]; intros k H; [lia|]. simpl.
    destruct (Nat.eqb_spec k u) as [->|E]; [reflexivity|]. apply IH. lia. }
  rewrite G by lia. reflexivity.
Qed.

Lemma out_of_lt n edges u w : evalid n edges -> In w (out_of edges u) -> w < n.
Proof.
  intros HV Hw. unfold out_of in Hw. apply in_map_iff in Hw. destruct Hw as [e [<- He]].
  apply filter_In in He. destruct He as [He _]. unfold evalid in HV. rewrite Forall_forall in HV.
  apply (HV e He).
Qed.

(* ---------------------------------------------------------------- the Python-side fuel is 2 + |edges| *)
Lemma filter_split_len (es : list (nat * nat)) k m :
  length (filter (fun e => Nat.eqb (fst e) k) es) + length (filter (fun e => (S k <=? fst e) && (fst e <? S k + m)) es)
  = length (filter (fun e => (k <=? fst e) && (fst e <? k + S m)) es).
Proof.
  induction es as [|e r IH]; [reflexivity|]. cbn [filter].
  destruct (Nat.eqb_spec (fst e) k); destruct (Nat.leb_spec (S k) (fst e)); destruct (Nat.leb_spec k (fst e));
    destruct (Nat.ltb_spec (fst e) (S k + m)); destruct (Nat.ltb_spec (fst e) (k + S m)); cbn [andb length]; lia.
Qed.

Lemma filter_none_len {A} (f : A -> bool) l : (forall x, In x l -> f x = false) -> length (filter f l) = 0.
Proof.
  induction l as [|x l IH]; intros H; simpl; [reflexivity|].
  rewrite (H x (or_introl eq_refl)). apply IH. intros y Hy. apply H. right. exact Hy.
Qed.

Lemma filter_all_len {A} (f : A -> bool) l : (forall x, In x l -> f x = true) -> length (filter f l) = length l.
Proof.
  induction l as [|x l IH]; intros H; simpl; [reflexivity|].
  rewrite (H x (or_introl eq_refl)). simpl. f_equal. apply IH. intros y Hy. apply H. right. exact Hy.
Qed.

Lemma fuel_count (edges : list (nat * nat)) : forall k m,
  length (flat_map snd (map (fun u => (u, map snd (filter (fun e => Nat.eqb (fst e) u) edges))) (seq k m)))
  = length (filter (fun e => (k <=? fst e) && (fst e <? k + m)) edges).
Proof.
  intros k m; revert k. induction m as [|m IH]; intros k; simpl.
  - symmetry. apply filter_none_len. intros e _.
    destruct (Nat.leb_spec k (fst e)); destruct (Nat.ltb_spec (fst e) (k + 0)); simpl; try reflexivity; lia.
  - rewrite app_length, map_length, IH. apply filter_split_len.
Qed.

(* ---------------------------------------------------------------- the simulation relation *)
Record rel (n : nat) (ps : Bfs.state) (rs : RsSearch.st) : Prop := {
  r_front : Bfs.frontier ps = RsSearch.frontier rs;
  r_len : length (RsSearch.visited rs) = n;
  r_vis : forall v, v < n -> nth v (RsSearch.visited rs) false = Bfs.mem v (Bfs.visited ps);
  r_list : Bfs.visited ps = rev (RsSearch.frontier rs) ++ RsSearch.order rs;
  r_lt : forall v, In v (Bfs.visited ps) -> v < n;
  r_nodup : NoDup (Bfs.visited ps)
}.

Lemma explore_sim n cur ns : forall ps rs, (forall x, In x ns -> x < n) -> rel n ps rs ->
  rel n (Bfs.expand Bfs.Queue cur ns ps) (fold_left (RsSearch.bfs_explore cur) ns rs).
Proof.
  induction ns as [|x r IH]; intros ps rs Hlt HR; simpl; [exact HR|].
  assert (Hx : x < n) by (apply Hlt; left; reflexivity).
  assert (Hr : forall y, In y r -> y < n) by (intros y Hy; apply Hlt; right; exact Hy).
  destruct HR as [R1 R2 R3 R4 R5 R6]. unfold RsSearch.bfs_explore at 2. rewrite (R3 x Hx).
  destruct (Bfs.mem x (Bfs.visited ps)) eqn:E.
  - apply IH; [exact Hr | constructor; assumption].
  - apply IH; [exact Hr|]. constructor; simpl.
    + now rewrite R1.
    + now rewrite length_set_nth.
    + intros v Hv. destruct (Nat.eq_dec x v) as [->|Hn].
      * rewrite nth_set_nth_eq by lia. unfold Bfs.mem. simpl. now rewrite Nat.eqb_refl.
      * rewrite nth_set_nth_neq by exact Hn. rewrite (R3 v Hv). unfold Bfs.mem. simpl.
        assert (E2 : Nat.eqb v x = false) by (apply Nat.eqb_neq; congruence). now rewrite E2.
    + rewrite R4, rev_app_distr. reflexivity.
    + intros v [<-|Hv]; [exact Hx | apply R5; exact Hv].
    + constructor; [|exact R6]. intros Hin. apply mem_In in Hin. congruence.
Qed.

Lemma rel_visited_bound n ps rs : rel n ps rs -> length (Bfs.visited ps) <= n.
Proof.
  intros [_ _ _ _ R5 R6].
  assert (Hi : incl (Bfs.visited ps) (seq 0 n)) by (intros v Hv; apply in_seq; specialize (R5 v Hv); lia).
  pose proof (NoDup_incl_length R6 Hi) as H. now rewrite seq_length in H.
Qed.

Lemma loop_sim n edges source mi : evalid n edges -> (Z.of_nat n <= mi)%Z ->
  forall fp fr ps rs,
    rel n ps rs -> incl (Bfs.visited ps) (source :: map snd edges) ->
    2 + length edges <= fp + length (RsSearch.order rs) ->
    2 + n <= fr + length (RsSearch.order rs) ->
    exists l, Bfs.loop fp Bfs.Queue (Bfs.succ_of (PyEdges.adj_of n edges)) None mi
                       (Z.of_nat (length (RsSearch.order rs))) ps = Some (Bfs.Visited l (Z.of_nat (length l))) /\
              RsSearch.bfs_loop fr (RsSearch.build_adjacency n edges) source None rs = Some (RsSearch.K [] false (rev l)).
Proof.
  intros HV Hcap. induction fp as [|fp IH]; intros fr ps rs HR Hincl Hfp Hfr.
  - exfalso. pose proof (r_list _ _ _ HR) as HL. pose proof (r_nodup _ _ _ HR) as HN.
    pose proof (NoDup_incl_length HN Hincl) as Hb. rewrite HL, app_length, rev_length in Hb.
    simpl in Hb. rewrite map_length in Hb. lia.
  - destruct fr as [|fr].
    { exfalso. pose proof (rel_visited_bound _ _ _ HR) as Hb. rewrite (r_list _ _ _ HR), app_length in Hb. lia. }
    simpl. rewrite (r_front _ _ _ HR). destruct (RsSearch.frontier rs) as [|cur rest] eqn:EF.
    + (* both stop *)
      exists (Bfs.visited ps). split; [reflexivity|].
      rewrite (r_list _ _ _ HR), EF. simpl. reflexivity.
    + pose proof (rel_visited_bound _ _ _ HR) as Hb.
      pose proof (r_list _ _ _ HR) as HL. rewrite EF in HL.
      assert (Hlen : length (Bfs.visited ps) = S (length rest) + length (RsSearch.order rs)).
      { rewrite HL, app_length, rev_length. reflexivity. }
      assert (Hit : (Z.of_nat (length (RsSearch.order rs)) <? mi)%Z = true) by (apply Z.ltb_lt; lia).
      rewrite Hit.
      assert (Hcur : cur < n).
      { apply (r_lt _ _ _ HR). rewrite HL. apply in_or_app. left. apply in_rev. rewrite rev_involutive. left. reflexivity. }
      rewrite py_adj by exact Hcur. rewrite rs_adj by assumption.
      set (ps1 := Bfs.mk (Bfs.visited ps) (Bfs.parent ps) rest).
      set (rs1 := RsSearch.mk (RsSearch.visited rs) (RsSearch.pred rs) rest (cur :: RsSearch.order rs)).
      assert (HR1 : rel n ps1 rs1).
      { destruct HR as [R1 R2 R3 R4 R5 R6]. constructor; simpl; try assumption; try reflexivity.
        rewrite HL. simpl. now rewrite <- app_assoc. }
      assert (Hns : forall x, In x (out_of edges cur) -> x < n) by (intros x Hx; eapply out_of_lt; eassumption).
      pose proof (explore_sim n cur (out_of edges cur) ps1 rs1 Hns HR1) as HR2.
      assert (Hord : forall ns s0, RsSearch.order (fold_left (RsSearch.bfs_explore cur) ns s0) = RsSearch.order s0).
      { induction ns as [|x r IHn]; intros s0; simpl; [reflexivity|]. rewrite IHn. unfold RsSearch.bfs_explore.
        destruct (nth x (RsSearch.visited s0) false); reflexivity. }
      assert (Hincl2 : incl (Bfs.visited (Bfs.expand Bfs.Queue cur (out_of edges cur) ps1)) (source :: map snd edges)).
      { assert (G : forall ns p0, incl ns (map snd edges) -> incl (Bfs.visited p0) (source :: map snd edges) ->
                    incl (Bfs.visited (Bfs.expand Bfs.Queue cur ns p0)) (source :: map snd edges)).
        { induction ns as [|x r IHn]; intros p0 Hi Hp; simpl; [exact Hp|].
          assert (Hr : incl r (map snd edges)) by (intros y Hy; apply Hi; right; exact Hy).
          destruct (Bfs.mem x (Bfs.visited p0)); [apply IHn; assumption|].
          apply IHn; [exact Hr|]. simpl. intros y [<-|Hy]; [right; apply Hi; left; reflexivity | apply Hp; exact Hy]. }
        apply G; [|exact Hincl]. intros y Hy. unfold out_of in Hy. apply in_map_iff in Hy.
        destruct Hy as [e [<- He]]. apply filter_In in He. apply in_map. tauto. }
      specialize (IH fr _ _ HR2 Hincl2). rewrite Hord in IH. simpl in IH.
      replace (Z.of_nat (length (RsSearch.order rs)) + 1)%Z with (Z.of_nat (S (length (RsSearch.order rs)))) by lia.
      apply IH; simpl; lia.
Qed.

(* ---------------------------------------------------------------- the theorem (target = None) *)
Theorem bfs_reach_equiv : forall n edges source,
  ES.valid_input n edges source None = true ->
  RsSearch.bfs_edges n edges source None = PyEdges.bfs_edges n edges source None /\
  exists l, PyEdges.bfs_edges n edges source None = Some (ES.Reach l).
Proof.
  intros n edges source HV.
  assert (Hcap : (Z.of_nat n <= PyEdges.max_iter_of n edges)%Z) by (unfold PyEdges.max_iter_of; lia).
  unfold ES.valid_input in HV. rewrite andb_true_r in HV. apply andb_true_iff in HV. destruct HV as [Hs He].
  apply Nat.ltb_lt in Hs.
  assert (HE : evalid n edges).
  { apply Forall_forall. intros e Hin. rewrite forallb_forall in He. specialize (He e Hin).
    unfold ES.edge_ok in He. apply andb_true_iff in He. destruct He as [A B].
    apply Nat.ltb_lt in A. apply Nat.ltb_lt in B. auto. }
  set (rs0 := RsSearch.mk (RsSearch.set_nth source true (repeat false n)) (repeat None n) [source] []).
  assert (HR0 : rel n (Bfs.init source) rs0).
  { constructor; simpl; try reflexivity.
    - rewrite length_set_nth. apply repeat_length.
    - intros v Hv. destruct (Nat.eq_dec source v) as [->|Hn].
      + rewrite nth_set_nth_eq by (rewrite repeat_length; exact Hv). unfold Bfs.mem. simpl. now rewrite Nat.eqb_refl.
      + rewrite nth_set_nth_neq by exact Hn. rewrite nth_repeat_lt by exact Hv. unfold Bfs.mem. simpl.
        assert (E2 : Nat.eqb v source = false) by (apply Nat.eqb_neq; congruence). now rewrite E2.
    - intros v [<-|[]]. exact Hs.
    - repeat constructor. intros []. }
  destruct (loop_sim n edges source (PyEdges.max_iter_of n edges) HE Hcap (Bfs.fuel_of (PyEdges.adj_of n edges)) (S (S n)) (Bfs.init source) rs0 HR0)
    as [l [HP HRs]].
  - simpl. intros v [<-|[]]. left. reflexivity.
  - simpl. unfold Bfs.fuel_of, PyEdges.adj_of.
    rewrite (fuel_count edges 0 n). rewrite filter_all_len; [lia|].
    intros e Hin. unfold evalid in HE. rewrite Forall_forall in HE. specialize (HE e Hin).
    apply andb_true_iff. split; [apply Nat.leb_le; lia | apply Nat.ltb_lt; lia].
  - simpl. lia.
  - unfold RsSearch.bfs_edges, RsSearch.bfs_kernel, PyEdges.bfs_edges, PyEdges.search_edges, Bfs.search, PyEdges.goal_of.
    fold rs0. change (Z.of_nat (length (RsSearch.order rs0))) with 0%Z in HP.
    rewrite HP, HRs. cbn [PyEdges.wrap RsSearch.adapter].
    split; [|eexists; reflexivity]. f_equal. f_equal. apply sort_perm_eq. apply Permutation_sym, Permutation_rev.
Qed.
