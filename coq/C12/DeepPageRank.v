(* C12 (deep) - the Rust-side model (RsPR.pagerank_edges, C12/RsPageRank.v) and the Python-side model
   (RsPR.py_pagerank_edges = C15 pagerank on py_graph) of PageRank over exact rationals perform IDENTICAL
   iterations: same scores (Leibniz-equal lists of Q), same converged flag, same iteration count.

   Why Leibniz: both sides store  Qred (value)  for every new score, the two pre-Qred values are Qeq
   (same multiset of summands: Python's incoming list (node order) is a Permutation of Rust's (edge-list
   order); fold_left vs fold_right sum), and  Qred_complete : p == q -> Qred p = Qred q.
   Once the score vectors are Leibniz-equal, the two stopping quantities (max |new-old| vs max |old-new|)
   are Leibniz-equal too (Qabs_Qminus), so the tests agree.

   Hypothesis (boolean, on the input): all edge endpoints are < n. *)
From Coq Require Import List Arith Bool ZArith QArith Qabs Qminmax Lia Permutation.
From SV Require Import C15.Graph C15.PageRank C15.PageRankLemmas C15.PageRankProofs C12.RsPageRank.
Import ListNotations.
Open Scope Q_scope.

(* ---------- list helpers ---------- *)

Lemma filter_all : forall (A : Type) (f : A -> bool) (l : list A),
  (forall x, In x l -> f x = true) -> filter f l = l.
Proof.
  intros A f l. induction l as [|a l IH]; intros Hf.
  - reflexivity.
  - cbn [filter]. rewrite (Hf a (or_introl eq_refl)). f_equal. apply IH.
    intros x Hx. apply Hf. right. exact Hx.
Qed.

Lemma flat_map_ext_in : forall (A B : Type) (f h : A -> list B) (l : list A),
  (forall x, In x l -> f x = h x) -> flat_map f l = flat_map h l.
Proof.
  intros A B f h l. induction l as [|a l IH]; intros Hf.
  - reflexivity.
  - cbn [flat_map]. rewrite (Hf a (or_introl eq_refl)). f_equal. apply IH.
    intros x Hx. apply Hf. right. exact Hx.
Qed.

Lemma flat_map_nil : forall (A B : Type) (f : A -> list B) (l : list A),
  (forall x, f x = []) -> flat_map f l = [].
Proof.
  intros A B f l Hf. induction l as [|a l IH].
  - reflexivity.
  - cbn [flat_map]. rewrite Hf, IH. reflexivity.
Qed.

Lemma fold_left_ext_in : forall (A B : Type) (F G : A -> B -> A) (l : list B) (m : A),
  (forall m' v, In v l -> F m' v = G m' v) -> fold_left F l m = fold_left G l m.
Proof.
  intros A B F G l. induction l as [|a l IH]; intros m Hf.
  - reflexivity.
  - cbn [fold_left]. rewrite (Hf m a (or_introl eq_refl)). apply IH.
    intros m' v Hv. apply Hf. right. exact Hv.
Qed.

Lemma nth_map_seq : forall (F : nat -> Q) (n v : nat) (d : Q), (v < n)%nat ->
  nth v (map F (seq 0 n)) d = F v.
Proof.
  intros F n v d Hv.
  rewrite (nth_indep (map F (seq 0 n)) d (F 0%nat)) by (rewrite map_length, seq_length; exact Hv).
  rewrite map_nth. rewrite seq_nth by exact Hv. reflexivity.
Qed.

Lemma list_as_map : forall (n : nat) (rs : list Q), length rs = n ->
  map (RsPR.sc rs) (seq 0 n) = rs.
Proof.
  intros n rs Hlen. apply (nth_ext _ _ 0 0).
  - rewrite map_length, seq_length. symmetry. exact Hlen.
  - intros v Hv. rewrite map_length, seq_length in Hv. rewrite nth_map_seq by exact Hv. reflexivity.
Qed.

Lemma nth_repeat_lt : forall (c d : Q) (n v : nat), (v < n)%nat -> nth v (repeat c n) d = c.
Proof.
  intros c d n. induction n as [|n IH]; intros v Hv.
  - lia.
  - cbn [repeat]. destruct v as [|v].
    + reflexivity.
    + cbn [nth]. apply IH. lia.
Qed.

(* inserting one element into one bucket of a flat_map *)
Lemma flat_map_insert : forall (F F' : nat -> list nat) (a : nat) (l : list nat),
  NoDup l -> In a l -> F' a = a :: F a -> (forall u, u <> a -> F' u = F u) ->
  Permutation (a :: flat_map F l) (flat_map F' l).
Proof.
  intros F F' a l Hnd. induction Hnd as [|x l Hx Hnd IH]; intros Ha Hhd Hoth.
  - destruct Ha.
  - cbn [flat_map]. destruct (Nat.eq_dec x a) as [Hxa|Hxa].
    + subst x. rewrite Hhd.
      rewrite (flat_map_ext_in _ _ F' F l).
      * apply Permutation_refl.
      * intros u Hu. apply Hoth. intros Hua. subst u. apply Hx. exact Hu.
    + rewrite (Hoth x Hxa). destruct Ha as [Ha|Ha]; [contradiction|].
      apply (perm_trans (Permutation_middle (F x) (flat_map F l) a)).
      apply Permutation_app_head. apply IH. exact Ha. exact Hhd. exact Hoth.
Qed.

(* ---------- sums ---------- *)

Lemma rs_fold_left_plus : forall (l : list Q) (a : Q), fold_left Qplus l a == a + qsum l.
Proof.
  induction l as [|x l IH]; intros a.
  - cbn [fold_left]. change (qsum []) with 0. ring.
  - cbn [fold_left]. rewrite IH. rewrite qsum_cons. ring.
Qed.

Lemma rs_qsum_eq : forall l, RsPR.qsum l == qsum l.
Proof. intros l. unfold RsPR.qsum. rewrite rs_fold_left_plus. ring. Qed.

Lemma qsum_perm : forall l l', Permutation l l' -> qsum l == qsum l'.
Proof.
  intros l l' Hp. induction Hp as [|x l l' Hp IH|x y l|l l' l'' Hp1 IH1 Hp2 IH2].
  - reflexivity.
  - rewrite !qsum_cons, IH. reflexivity.
  - rewrite !qsum_cons. ring.
  - rewrite IH1. exact IH2.
Qed.

(* ---------- the Python-side graph of an edge list ---------- *)

Lemma nodes_py_graph : forall n edges, nodes (RsPR.py_graph n edges) = seq 0 n.
Proof.
  intros n edges. unfold nodes, RsPR.py_graph. rewrite map_map. cbn [fst]. apply map_id.
Qed.

Lemma nbrs_map_key : forall (F : nat -> list nat) (l : list nat) (u : nat), In u l ->
  nbrs (map (fun w => (w, F w)) l) u = F u.
Proof.
  intros F l u. induction l as [|a l IH]; intros Hu.
  - destruct Hu.
  - cbn [map nbrs]. destruct (Nat.eqb a u) eqn:E.
    + apply Nat.eqb_eq in E. subst a. reflexivity.
    + destruct Hu as [Hu|Hu].
      * subst a. rewrite Nat.eqb_refl in E. discriminate E.
      * apply IH. exact Hu.
Qed.

Lemma edge_ok_lt : forall n edges, forallb (RsPR.edge_ok n) edges = true ->
  forall e, In e edges -> (fst e < n)%nat /\ (snd e < n)%nat.
Proof.
  intros n edges Hok e He. rewrite forallb_forall in Hok. specialize (Hok e He).
  unfold RsPR.edge_ok in Hok. apply andb_true_iff in Hok. destruct Hok as [H1 H2].
  apply Nat.ltb_lt in H1. apply Nat.ltb_lt in H2. split; assumption.
Qed.

Lemma edge_ok_true : forall n edges, forallb (RsPR.edge_ok n) edges = true ->
  forall e, In e edges -> RsPR.edge_ok n e = true.
Proof. intros n edges Hok e He. rewrite forallb_forall in Hok. apply Hok. exact He. Qed.

Lemma in_set_nbrs_py : forall n edges u, forallb (RsPR.edge_ok n) edges = true -> (u < n)%nat ->
  in_set_nbrs (RsPR.py_graph n edges) u = map snd (filter (fun e => Nat.eqb (fst e) u) edges).
Proof.
  intros n edges u Hok Hu. unfold in_set_nbrs. rewrite nodes_py_graph. unfold RsPR.py_graph.
  rewrite (nbrs_map_key (fun u0 => map snd (filter (fun e => Nat.eqb (fst e) u0) edges)) (seq 0 n) u)
    by (apply in_seq; lia).
  apply filter_all. intros w Hw. apply in_map_iff in Hw. destruct Hw as [e [He1 He2]].
  apply filter_In in He2. destruct He2 as [He2 _].
  apply memb_In. apply in_seq. destruct (edge_ok_lt n edges Hok e He2) as [_ Hs]. subst w. lia.
Qed.

Lemma out_count_py : forall n edges u, forallb (RsPR.edge_ok n) edges = true -> (u < n)%nat ->
  out_count (RsPR.py_graph n edges) u = RsPR.outgoing_count n edges u.
Proof.
  intros n edges u Hok Hu. unfold out_count. rewrite (in_set_nbrs_py n edges u Hok Hu).
  rewrite map_length. unfold RsPR.outgoing_count. f_equal. apply filter_ext_in.
  intros e He. rewrite (edge_ok_true n edges Hok e He). reflexivity.
Qed.

(* ---------- incoming lists: node order (Python) is a permutation of edge-list order (Rust) ---------- *)

Definition blk (E : list (nat * nat)) (v u : nat) : list nat :=
  map (fun _ : nat => u) (filter (Nat.eqb v) (map snd (filter (fun e => Nat.eqb (fst e) u) E))).

Lemma blk_cons : forall a b E v u,
  blk ((a, b) :: E) v u = if Nat.eqb a u && Nat.eqb b v then u :: blk E v u else blk E v u.
Proof.
  intros a b E v u. unfold blk. cbn [filter fst]. destruct (Nat.eqb a u) eqn:Ea.
  - cbn [map snd filter andb]. rewrite (Nat.eqb_sym v b). destruct (Nat.eqb b v); reflexivity.
  - reflexivity.
Qed.

Lemma bucket_perm : forall n v E, (forall e, In e E -> (fst e < n)%nat) ->
  Permutation (map fst (filter (fun e => Nat.eqb (snd e) v) E)) (flat_map (blk E v) (seq 0 n)).
Proof.
  intros n v E. induction E as [|[a b] E IH]; intros HE.
  - cbn [filter map]. rewrite flat_map_nil by (intros x; reflexivity). apply perm_nil.
  - assert (IH' : Permutation (map fst (filter (fun e => Nat.eqb (snd e) v) E)) (flat_map (blk E v) (seq 0 n))).
    { apply IH. intros e He. apply HE. right. exact He. }
    assert (Ha : (a < n)%nat). { apply (HE (a, b)). left. reflexivity. }
    cbn [filter snd]. destruct (Nat.eqb b v) eqn:Eb.
    + cbn [map fst].
      apply (perm_trans (perm_skip a IH')).
      apply flat_map_insert.
      * apply seq_NoDup.
      * apply in_seq. lia.
      * rewrite blk_cons. rewrite Nat.eqb_refl, Eb. reflexivity.
      * intros u Hu. rewrite blk_cons.
        assert (Hau : Nat.eqb a u = false). { apply Nat.eqb_neq. intros Hc. apply Hu. symmetry. exact Hc. }
        rewrite Hau. reflexivity.
    + rewrite (flat_map_ext_in _ _ (blk ((a, b) :: E) v) (blk E v)).
      * exact IH'.
      * intros u _. rewrite blk_cons. rewrite Eb. rewrite andb_false_r. reflexivity.
Qed.

Lemma incoming_perm : forall n edges v, forallb (RsPR.edge_ok n) edges = true ->
  Permutation (RsPR.incoming n edges v) (incoming (RsPR.py_graph n edges) v).
Proof.
  intros n edges v Hok. unfold incoming, RsPR.incoming. rewrite nodes_py_graph.
  rewrite (flat_map_ext_in _ _ _ (blk edges v) (seq 0 n)).
  - rewrite (filter_ext_in _ (fun e => Nat.eqb (snd e) v)).
    + apply bucket_perm. intros e He. destruct (edge_ok_lt n edges Hok e He) as [Hf _]. exact Hf.
    + intros e He. rewrite (edge_ok_true n edges Hok e He). reflexivity.
  - intros u Hu. apply in_seq in Hu. rewrite (in_set_nbrs_py n edges u Hok) by lia. reflexivity.
Qed.

Lemma rs_incoming_In : forall n edges v j, In j (RsPR.incoming n edges v) ->
  (j < n)%nat /\ (0 < RsPR.outgoing_count n edges j)%nat.
Proof.
  intros n edges v j Hj. unfold RsPR.incoming in Hj. apply in_map_iff in Hj.
  destruct Hj as [e [Hfe He]]. apply filter_In in He. destruct He as [He Hc].
  apply andb_true_iff in Hc. destruct Hc as [Hc _]. split.
  - unfold RsPR.edge_ok in Hc. apply andb_true_iff in Hc. destruct Hc as [Hc _].
    apply Nat.ltb_lt in Hc. subst j. exact Hc.
  - unfold RsPR.outgoing_count.
    assert (Hin : In e (filter (fun e0 => RsPR.edge_ok n e0 && Nat.eqb (fst e0) j) edges)).
    { apply filter_In. split. exact He. rewrite Hc. subst j. rewrite Nat.eqb_refl. reflexivity. }
    destruct (filter (fun e0 => RsPR.edge_ok n e0 && Nat.eqb (fst e0) j) edges) as [|x l].
    + destruct Hin.
    + cbn [length]. lia.
Qed.

(* ---------- state relation and one sweep ---------- *)

(* Python's score dict is the Rust score vector, keyed by node index *)
Definition rel (n : nat) (rs : list Q) (ps : list (nat * Q)) : Prop :=
  ps = map (fun v => (v, RsPR.sc rs v)) (seq 0 n) /\ length rs = n.

Lemma rel_score : forall n rs ps v, rel n rs ps -> (v < n)%nat -> score ps v = RsPR.sc rs v.
Proof.
  intros n rs ps v [Hps _] Hv. subst ps. unfold score, agetd.
  rewrite (aget_map_key (RsPR.sc rs) (seq 0 n) v) by (apply in_seq; lia). reflexivity.
Qed.

Lemma rel_obs : forall n rs ps, rel n rs ps -> map (score ps) (seq 0 n) = rs.
Proof.
  intros n rs ps Hrel. transitivity (map (RsPR.sc rs) (seq 0 n)); [|apply list_as_map; exact (proj2 Hrel)].
  apply map_ext_in. intros v Hv. apply in_seq in Hv. apply (rel_score n rs ps v Hrel). lia.
Qed.

(* the pre-Qred value of the Rust sweep at node i *)
Definition rs_new (n : nat) (edges : list (nat * nat)) (d : Q) (s : list Q) (i : nat) : Q :=
  (1 - d) / RsPR.qn n
  + d * RsPR.qsum (map (fun j => RsPR.sc s j / RsPR.qn (RsPR.outgoing_count n edges j))
                       (filter (fun j => Nat.ltb 0 (RsPR.outgoing_count n edges j)) (RsPR.incoming n edges i)))
  + d * RsPR.qsum (map (RsPR.sc s) (filter (fun i0 => Nat.eqb (RsPR.outgoing_count n edges i0) 0) (seq 0 n)))
    / RsPR.qn n.

Lemma rs_step_unfold : forall n edges d s,
  RsPR.step n edges d s = map (fun i => Qred (rs_new n edges d s i)) (seq 0 n).
Proof. reflexivity. Qed.

Lemma dangling_equiv : forall n edges rs ps, forallb (RsPR.edge_ok n) edges = true -> rel n rs ps ->
  dangling_sum (RsPR.py_graph n edges) ps
  == RsPR.qsum (map (RsPR.sc rs) (filter (fun i0 => Nat.eqb (RsPR.outgoing_count n edges i0) 0) (seq 0 n))).
Proof.
  intros n edges rs ps Hok Hrel. unfold dangling_sum. rewrite nodes_py_graph. rewrite rs_qsum_eq.
  rewrite (filter_ext_in (fun v => Nat.eqb (out_count (RsPR.py_graph n edges) v) 0)
                         (fun i0 => Nat.eqb (RsPR.outgoing_count n edges i0) 0) (seq 0 n)).
  - rewrite (map_ext_in (score ps) (RsPR.sc rs)).
    + reflexivity.
    + intros v Hv. apply filter_In in Hv. destruct Hv as [Hv _]. apply in_seq in Hv.
      apply (rel_score n rs ps v Hrel). lia.
  - intros v Hv. apply in_seq in Hv. rewrite (out_count_py n edges v Hok) by lia. reflexivity.
Qed.

Lemma rank_equiv : forall n edges rs ps v, forallb (RsPR.edge_ok n) edges = true -> rel n rs ps ->
  rank_sum (RsPR.py_graph n edges) ps v
  == RsPR.qsum (map (fun j => RsPR.sc rs j / RsPR.qn (RsPR.outgoing_count n edges j))
                    (filter (fun j => Nat.ltb 0 (RsPR.outgoing_count n edges j)) (RsPR.incoming n edges v))).
Proof.
  intros n edges rs ps v Hok Hrel. unfold rank_sum. rewrite rs_qsum_eq.
  rewrite (filter_all _ (fun j => Nat.ltb 0 (RsPR.outgoing_count n edges j)) (RsPR.incoming n edges v)).
  - rewrite (qsum_perm _ _ (Permutation_map
               (fun u => score ps u / qn (out_count (RsPR.py_graph n edges) u))
               (Permutation_sym (incoming_perm n edges v Hok)))).
    rewrite (map_ext_in (fun u => score ps u / qn (out_count (RsPR.py_graph n edges) u))
                        (fun j => RsPR.sc rs j / RsPR.qn (RsPR.outgoing_count n edges j))).
    + reflexivity.
    + intros j Hj. destruct (rs_incoming_In n edges v j Hj) as [Hjn _].
      rewrite (rel_score n rs ps j Hrel Hjn). rewrite (out_count_py n edges j Hok Hjn). reflexivity.
  - intros j Hj. destruct (rs_incoming_In n edges v j Hj) as [_ Hpos]. apply Nat.ltb_lt. exact Hpos.
Qed.

Lemma new_score_equiv : forall n edges d rs ps v, forallb (RsPR.edge_ok n) edges = true -> rel n rs ps ->
  new_score (RsPR.py_graph n edges) d ps v == rs_new n edges d rs v.
Proof.
  intros n edges d rs ps v Hok Hrel. unfold new_score, rs_new.
  rewrite nodes_py_graph, seq_length.
  rewrite (rank_equiv n edges rs ps v Hok Hrel). rewrite (dangling_equiv n edges rs ps Hok Hrel).
  reflexivity.
Qed.

(* ONE SWEEP: related states go to related states (the new score vectors are Leibniz-equal) *)
Lemma step_equiv : forall n edges d rs ps, forallb (RsPR.edge_ok n) edges = true -> rel n rs ps ->
  rel n (RsPR.step n edges d rs) (step (RsPR.py_graph n edges) d ps).
Proof.
  intros n edges d rs ps Hok Hrel. split.
  - unfold step. rewrite nodes_py_graph. apply map_ext_in. intros v Hv. apply in_seq in Hv.
    f_equal. rewrite rs_step_unfold. unfold RsPR.sc. rewrite nth_map_seq by lia.
    apply Qred_complete. apply (new_score_equiv n edges d rs ps v Hok Hrel).
  - rewrite rs_step_unfold. rewrite map_length, seq_length. reflexivity.
Qed.

(* ---------- the stopping quantity ---------- *)

Lemma diff_map_gen : forall (f h : nat -> Q) (l : list nat) (m : Q),
  fold_left (fun m0 ab => Qmax m0 (Qabs (fst ab - snd ab))) (combine (map f l) (map h l)) m
  = fold_left (fun m0 v => Qmax m0 (Qabs (f v - h v))) l m.
Proof.
  intros f h l. induction l as [|a l IH]; intros m.
  - reflexivity.
  - cbn [map combine fold_left fst snd]. apply IH.
Qed.

Lemma diff_equiv : forall n edges rs ps rs' ps', rel n rs ps -> rel n rs' ps' ->
  max_diff (RsPR.py_graph n edges) ps ps' = RsPR.diff rs rs'.
Proof.
  intros n edges rs ps rs' ps' Hrel Hrel'.
  transitivity (RsPR.diff (map (RsPR.sc rs) (seq 0 n)) (map (RsPR.sc rs') (seq 0 n))).
  - unfold max_diff, RsPR.diff. rewrite nodes_py_graph. rewrite diff_map_gen.
    apply fold_left_ext_in. intros m v Hv. apply in_seq in Hv.
    rewrite (rel_score n rs ps v Hrel) by lia. rewrite (rel_score n rs' ps' v Hrel') by lia.
    rewrite Qabs_Qminus. reflexivity.
  - f_equal.
    + apply list_as_map. exact (proj2 Hrel).
    + apply list_as_map. exact (proj2 Hrel').
Qed.

(* ---------- the loops in lock step ---------- *)

Lemma loop_equiv : forall n edges d tol, forallb (RsPR.edge_ok n) edges = true ->
  forall fuel it rs ps last s it' cv, rel n rs ps ->
  RsPR.loop fuel it n edges d tol rs = (s, it', cv) ->
  rel n s (p_scores (pr_loop fuel it (RsPR.py_graph n edges) d tol ps last))
  /\ p_iterations (pr_loop fuel it (RsPR.py_graph n edges) d tol ps last) = it'
  /\ p_status (pr_loop fuel it (RsPR.py_graph n edges) d tol ps last)
     = (if cv then P_OPTIMAL else P_MAX_ITER).
Proof.
  intros n edges d tol Hok fuel. induction fuel as [|f IH]; intros it rs ps last s it' cv Hrel Hloop.
  - cbn [RsPR.loop] in Hloop. injection Hloop as Hs Hit Hcv. subst s it' cv.
    cbn [pr_loop p_scores p_iterations p_status]. split; [exact Hrel|]. split; reflexivity.
  - cbn [RsPR.loop] in Hloop. cbn [pr_loop].
    pose proof (step_equiv n edges d rs ps Hok Hrel) as Hrel'.
    rewrite (diff_equiv n edges rs ps _ _ Hrel Hrel').
    change (qltb (Qred (RsPR.diff rs (RsPR.step n edges d rs))) tol)
      with (RsPR.qltb (Qred (RsPR.diff rs (RsPR.step n edges d rs))) tol).
    destruct (RsPR.qltb (Qred (RsPR.diff rs (RsPR.step n edges d rs))) tol) eqn:Et.
    + injection Hloop as Hs Hit Hcv. subst s it' cv.
      cbn [p_scores p_iterations p_status]. split; [exact Hrel'|]. split; reflexivity.
    + apply (IH (S it) _ _ _ s it' cv Hrel' Hloop).
Qed.

Lemma rel_init : forall n edges,
  rel n (repeat (Qred (1 / RsPR.qn n)) n) (init_scores (RsPR.py_graph n edges)).
Proof.
  intros n edges. split.
  - unfold init_scores. rewrite nodes_py_graph, seq_length. apply map_ext_in.
    intros v Hv. apply in_seq in Hv. f_equal. unfold RsPR.sc. rewrite nth_repeat_lt by lia. reflexivity.
  - apply repeat_length.
Qed.

(* ---------- main theorem ---------- *)

Theorem pagerank_equiv : forall n edges d tol max_iter, forallb (RsPR.edge_ok n) edges = true ->
  let '(s, it, cv) := RsPR.pagerank_edges n edges d tol max_iter in
  RsPR.py_obs n (RsPR.py_pagerank_edges n edges d tol max_iter) = Some (s, cv) /\
  match RsPR.py_pagerank_edges n edges d tol max_iter with
  | PR_ok r => p_iterations r = it
  | PR_noiter _ => it = 0%nat
  | PR_empty => it = 0%nat
  end.
Proof.
  intros n edges d tol max_iter Hok.
  destruct (RsPR.pagerank_edges n edges d tol max_iter) as [[s it] cv] eqn:E.
  unfold RsPR.py_pagerank_edges, pagerank. rewrite nodes_py_graph.
  destruct n as [|k].
  - unfold RsPR.pagerank_edges in E. cbv beta iota in E. injection E as Hs Hit Hcv. subst s it cv.
    cbn [seq RsPR.py_obs]. split; reflexivity.
  - cbn [seq]. unfold RsPR.pagerank_edges in E. cbv beta iota in E.
    pose proof (rel_init (S k) edges) as Hinit.
    destruct max_iter as [|m].
    + cbn [RsPR.loop] in E. injection E as Hs Hit Hcv. subst s it cv.
      cbn [RsPR.py_obs]. split; [|reflexivity].
      rewrite (rel_obs (S k) _ _ Hinit). reflexivity.
    + destruct (loop_equiv (S k) edges d tol Hok (S m) 0%nat _ _ 0 s it cv Hinit E) as [Hr [Hi Hst]].
      cbn [RsPR.py_obs]. split; [|exact Hi].
      rewrite (rel_obs (S k) _ _ Hr). rewrite Hst. destruct cv; reflexivity.
Qed.


(* non-vacuity: a concrete input satisfying the hypothesis; both sides computed, equal, 5 sweeps done *)
Example pagerank_equiv_example :
  let n := 3%nat in
  let edges := [(0, 1); (1, 2); (2, 0); (0, 2)]%nat in
  let r := RsPR.pagerank_edges n edges (85 # 100) (1 # 1000) 5 in
  forallb (RsPR.edge_ok n) edges = true
  /\ RsPR.py_obs n (RsPR.py_pagerank_edges n edges (85 # 100) (1 # 1000) 5) = Some (fst (fst r), snd r)
  /\ snd (fst r) = 5%nat
  /\ length (fst (fst r)) = 3%nat.
Proof. vm_compute. repeat split. Qed.

Print Assumptions step_equiv.
Print Assumptions pagerank_equiv.
