(* C12_dijkstra, Rust side, part 1: arrays, the adjacency built by build_adjacency, the cost-sorted heap model,
   non-negative walks, the termination measure.  (RsDij of RsShortest.v.) *)
From Coq Require Import List ZArith Bool Arith Lia Sorted.
From SV Require Import C11.Paths C11.PathsLemmas C12.RsShortest.
Import ListNotations.
Local Open Scope nat_scope.

(* ---------------------------------------------------------------- arrays *)
Lemma sn_length {A} (i : nat) (x : A) l : length (set_nth i x l) = length l.
Proof. revert i; induction l as [|h t IH]; intros [|i]; simpl; auto. Qed.

Lemma sn_eq {A} (i : nat) (x d : A) l : i < length l -> nth i (set_nth i x l) d = x.
Proof. revert i; induction l as [|h t IH]; intros [|i] H; simpl in *; try lia; auto. apply IH; lia. Qed.

Lemma sn_neq {A} (i j : nat) (x d : A) l : i <> j -> nth j (set_nth i x l) d = nth j l d.
Proof.
  revert i j; induction l as [|h t IH]; intros [|i] [|j] H; simpl; try reflexivity; try congruence.
  apply IH; congruence.
Qed.

Lemma rep_nth {A} (x d : A) n i : i < n -> nth i (repeat x n) d = x.
Proof. revert i; induction n as [|n IH]; intros [|i] H; simpl; try lia; auto. apply IH; lia. Qed.

(* ---------------------------------------------------------------- inputs *)
Definition eokP (n : nat) (e : nat * nat * Z) : Prop := fst (fst e) < n /\ snd (fst e) < n /\ (0 <= snd e)%Z.
Definition evalidP (n : nat) (edges : wgraph) : Prop := Forall (eokP n) edges.

(* boolean validity of a dijkstra_edges call: indices in range, weights non-negative *)
Definition dij_valid (n : nat) (edges : wgraph) (source : nat) (target : option nat) : bool :=
  Nat.ltb source n
  && forallb (fun e : nat * nat * Z => Nat.ltb (fst (fst e)) n && Nat.ltb (snd (fst e)) n && (0 <=? snd e)%Z) edges
  && match target with Some t => Nat.ltb t n | None => true end.

Lemma dij_valid_spec n edges source target : dij_valid n edges source target = true ->
  source < n /\ evalidP n edges /\ match target with Some t => t < n | None => True end.
Proof.
  unfold dij_valid. intros H. apply andb_true_iff in H. destruct H as [H Ht].
  apply andb_true_iff in H. destruct H as [Hs He]. apply Nat.ltb_lt in Hs. split; [exact Hs|]. split.
  - apply Forall_forall. intros e Hin. rewrite forallb_forall in He. specialize (He e Hin).
    apply andb_true_iff in He. destruct He as [He C]. apply andb_true_iff in He. destruct He as [A B].
    apply Nat.ltb_lt in A. apply Nat.ltb_lt in B. apply Z.leb_le in C. unfold eokP. auto.
  - destruct target as [t|]; [apply Nat.ltb_lt; exact Ht | exact I].
Qed.

(* ---------------------------------------------------------------- adjacency *)
Definition wout (edges : wgraph) (u : nat) : list (nat * Z) :=
  map (fun e : nat * nat * Z => (snd (fst e), snd e)) (filter (fun e : nat * nat * Z => Nat.eqb (fst (fst e)) u) edges).

Lemma wout_In edges u v w : In (v, w) (wout edges u) <-> In (u, v, w) edges.
Proof.
  unfold wout. rewrite in_map_iff. split.
  - intros [[[a b] c] [E H]]. apply filter_In in H. destruct H as [H1 H2]. simpl in *.
    apply Nat.eqb_eq in H2. inversion E; subst. exact H1.
  - intros H. exists (u, v, w). split; [reflexivity|]. apply filter_In. split; [exact H|]. simpl. apply Nat.eqb_refl.
Qed.

Lemma rsd_adj_gen n u : u < n -> forall edges acc, evalidP n edges -> length acc = n ->
  nth u (fold_left (fun a (e : nat * nat * Z) => let '(u0, v, w) := e in
                        if Nat.ltb u0 n && Nat.ltb v n then set_nth u0 (nth u0 a [] ++ [(v, w)]) a else a) edges acc) []
  = nth u acc [] ++ wout edges u.
Proof.
  intros Hu. induction edges as [|e l IH]; intros acc HV Hacc; simpl.
  - now rewrite app_nil_r.
  - inversion HV as [|? ? He HV']; subst. destruct e as [[a b] c]. destruct He as [H1 [H2 _]]. simpl in H1, H2.
    apply Nat.ltb_lt in H1 as H1b. apply Nat.ltb_lt in H2 as H2b. rewrite H1b, H2b. simpl.
    rewrite IH; [|exact HV'|now rewrite sn_length].
    unfold wout. simpl. destruct (Nat.eqb_spec a u) as [E|E].
    + subst u. rewrite sn_eq by lia. simpl. now rewrite <- app_assoc.
    + rewrite sn_neq by exact E. reflexivity.
Qed.

Lemma rsd_adj n edges u : u < n -> evalidP n edges -> nth u (RsDij.build_adjacency n edges) [] = wout edges u.
Proof.
  intros Hu HV. unfold RsDij.build_adjacency. rewrite (rsd_adj_gen n u Hu edges _ HV (repeat_length _ _)).
  now rewrite rep_nth by exact Hu.
Qed.

(* ---------------------------------------------------------------- walks with non-negative weights *)
Lemma walk_nonneg n edges : evalidP n edges -> forall a x p d, walk edges a x p d -> (0 <= d)%Z.
Proof.
  intros HV a x p d H. induction H as [u|u v t p w d Hin _ IH]; [lia|].
  unfold evalidP in HV. rewrite Forall_forall in HV. destruct (HV _ Hin) as [_ [_ Hw]]. simpl in Hw. lia.
Qed.

Lemma edge_lt n edges u v w : evalidP n edges -> In (u, v, w) edges -> u < n /\ v < n /\ (0 <= w)%Z.
Proof. intros HV Hin. unfold evalidP in HV. rewrite Forall_forall in HV. exact (HV _ Hin). Qed.

(* ---------------------------------------------------------------- the heap *)
Definition hle (a b : Z * nat) : Prop := (fst a <= fst b)%Z.
Definition hsorted (h : RsDij.heap) : Prop := StronglySorted hle h.

Lemma hpush_In e x h : In x (RsDij.hpush e h) <-> x = e \/ In x h.
Proof.
  induction h as [|y h IH]; simpl; [intuition|].
  destruct (fst e <? fst y)%Z; simpl; [intuition|]. rewrite IH. intuition.
Qed.

Lemma hpush_length e h : length (RsDij.hpush e h) = S (length h).
Proof. induction h as [|y h IH]; simpl; [reflexivity|]. destruct (fst e <? fst y)%Z; simpl; lia. Qed.

Lemma hpush_sorted e h : hsorted h -> hsorted (RsDij.hpush e h).
Proof.
  unfold hsorted. induction h as [|y h IH]; intros H; simpl.
  - constructor; constructor.
  - inversion H as [|? ? Hs Hf]; subst. destruct (Z.ltb_spec (fst e) (fst y)) as [L|L].
    + constructor; [exact H|]. constructor; [unfold hle; lia|].
      rewrite Forall_forall in *. intros z Hz. specialize (Hf z Hz). unfold hle in *. lia.
    + constructor; [apply IH; exact Hs|]. rewrite Forall_forall in *. intros z Hz.
      apply hpush_In in Hz. destruct Hz as [->|Hz]; [unfold hle; lia | apply Hf; exact Hz].
Qed.

Lemma hsorted_tail x h : hsorted (x :: h) -> hsorted h.
Proof. intros H. inversion H; assumption. Qed.

Lemma hsorted_min c u h : hsorted ((c, u) :: h) -> forall c' v, In (c', v) ((c, u) :: h) -> (c <= c')%Z.
Proof.
  intros H c' v [E|Hin]; [inversion E; lia|]. inversion H as [|? ? _ Hf]; subst.
  rewrite Forall_forall in Hf. apply (Hf _ Hin).
Qed.

(* ---------------------------------------------------------------- the termination measure *)
(* edges whose tail has not been settled yet *)
Definition pend (edges : wgraph) (vis : list bool) : nat :=
  length (filter (fun e : nat * nat * Z => negb (nth (fst (fst e)) vis false)) edges).

Lemma pend_settle edges vis u : u < length vis -> nth u vis false = false ->
  pend edges (set_nth u true vis) + length (wout edges u) = pend edges vis.
Proof.
  intros Hu Hf. unfold pend, wout. rewrite map_length.
  induction edges as [|e l IH]; [reflexivity|]. cbn [filter].
  destruct (Nat.eqb_spec (fst (fst e)) u) as [E|E].
  - rewrite E. rewrite sn_eq by exact Hu. rewrite Hf. cbn [negb length]. lia.
  - rewrite sn_neq by congruence. destruct (negb (nth (fst (fst e)) vis false)); cbn [length]; lia.
Qed.

Lemma pend_le edges vis : pend edges vis <= length edges.
Proof.
  unfold pend. induction edges as [|e l IH]; [simpl; lia|]. cbn [filter].
  destruct (negb (nth (fst (fst e)) vis false)); cbn [length]; lia.
Qed.
