(* C12 deep equivalence, Python side of dijkstra_edges, part 3: the target mode (target = Some t).
   dijkstra_edges calls dijkstra() of C11.BestFirst with max_iter = max(1_000_000, n + |E| + 1).  The C11 theorems give
   path validity / optimality / soundness of INFEASIBLE; what is added here: the iteration counter equals the size of
   the duplicate-free closed set of nodes < n, so it never reaches max_iter and the status is never MAX_ITER. *)
From Coq Require Import List ZArith Bool Arith Lia.
From SV Require Import C11.Paths C11.PathsLemmas C11.BestFirst C11.BestGraph C11.BestHyps C11.BestProofs1
  C11.BestProofsInst C11.BestProofs5 C11.BestProofs6 C12.RsShortest C12.PyDijkstra C12.DeepPyDij1 C12.DeepPyDij2.
Import ListNotations.
Open Scope Z_scope.

(* ---------------------------------------------------------------- the generic loop never reports MAX_ITER *)
Section NoMaxIter.
  Context {C K : Type}.
  Variable cadd : C -> C -> C.
  Variable cltb : C -> C -> bool.
  Variable kltb : K -> K -> bool.
  Variable mkkey : C -> nat -> K.
  Variable limit_of : K -> C -> C.
  Variable found : status.
  Variable nbrs : nat -> list (nat * C).
  Variable is_goal : nat -> bool.
  Variable M : Z.
  Variable mc : option C.
  Variable n : nat.
  Hypothesis Hfound : found <> MAX_ITER.
  Hypothesis Hnb : forall u v w, In (v, w) (nbrs u) -> (v < n)%nat.
  Hypothesis HM : Z.of_nat n < M.

  Notation state := (@st nat C K).

  Definition invB (s : state) (iters : Z) : Prop :=
    iters = Z.of_nat (length (s_closed s)) /\ NoDup (s_closed s)
    /\ (forall x, In x (s_closed s) -> (x < n)%nat)
    /\ (forall k c v, In (k, c, v) (s_heap s) -> (v < n)%nat).

  Lemma hinsert_In_B : forall (e e' : @entry nat K) h, In e' (hinsert kltb e h) <-> e' = e \/ In e' h.
  Proof.
    intros e e' h. induction h as [|x h IH]; simpl.
    - intuition.
    - destruct (entry_ltb kltb e x); simpl; [intuition|]. rewrite IH. intuition.
  Qed.

  Lemma relax_heap_B : forall cur gcur (s : state) v w, (v < n)%nat ->
    (forall k c x, In (k, c, x) (s_heap s) -> (x < n)%nat) ->
    forall k c x, In (k, c, x) (s_heap (relax Nat.eqb cadd cltb kltb mkkey cur gcur s (v, w))) -> (x < n)%nat.
  Proof.
    intros cur gcur s v w Hvn Hh k c x. unfold relax.
    destruct (memb Nat.eqb v (s_closed s)); [apply Hh|].
    destruct (match lookup Nat.eqb v (s_g s) with Some gv => cltb (cadd gcur w) gv | None => true end); [|apply Hh].
    cbn [s_heap]. intros Hin. apply hinsert_In_B in Hin. destruct Hin as [Hin|Hin].
    - inversion Hin; subst. exact Hvn.
    - eapply Hh. exact Hin.
  Qed.

  Lemma fold_relax_B : forall cur gcur l (s : state),
    (forall v w, In (v, w) l -> (v < n)%nat) ->
    (forall k c x, In (k, c, x) (s_heap s) -> (x < n)%nat) ->
    let s' := fold_left (relax Nat.eqb cadd cltb kltb mkkey cur gcur) l s in
    s_closed s' = s_closed s /\ forall k c x, In (k, c, x) (s_heap s') -> (x < n)%nat.
  Proof.
    intros cur gcur l. induction l as [|[v w] l IH]; intros s Hl Hh; cbn [fold_left].
    - split; [reflexivity|exact Hh].
    - assert (Hvn : (v < n)%nat) by (eapply Hl; left; reflexivity).
      assert (Hl' : forall v0 w0, In (v0, w0) l -> (v0 < n)%nat) by (intros v0 w0 H0; eapply Hl; right; exact H0).
      destruct (IH (relax Nat.eqb cadd cltb kltb mkkey cur gcur s (v, w)) Hl'
                   (relax_heap_B cur gcur s v w Hvn Hh)) as [Hc Hh'].
      split; [|exact Hh']. rewrite Hc. apply relax_closed.
  Qed.

  Lemma closed_bound : forall (s : state) iters, invB s iters -> iters < M.
  Proof.
    intros s iters [Hi [Hnd [Hcl _]]].
    assert (Hlen : (length (s_closed s) <= length (seq 0 n))%nat).
    { apply NoDup_incl_length; [exact Hnd|]. intros x Hx. apply in_seq. specialize (Hcl _ Hx). lia. }
    rewrite seq_length in Hlen. lia.
  Qed.

  Lemma finish_B : forall (s : state) iters, invB s iters -> r_status (finish M iters s) = INFEASIBLE.
  Proof.
    intros s iters I. pose proof (closed_bound s iters I) as Hlt. unfold finish. cbn [r_status].
    destruct (M <=? iters) eqn:Ele; [apply Z.leb_le in Ele; lia|reflexivity].
  Qed.

  Lemma loop_not_maxiter : forall fuel (s : state) iters r, invB s iters ->
    loop Nat.eqb cadd cltb kltb mkkey limit_of found nbrs is_goal M mc fuel s iters = Some r ->
    r_status r <> MAX_ITER.
  Proof.
    induction fuel as [|f IH]; intros s iters r I Hl; [discriminate|].
    cbn [loop] in Hl.
    destruct (s_heap s) as [|[[k c] cur] h'] eqn:Eh.
    { inversion Hl; subst r. rewrite (finish_B s iters I). discriminate. }
    destruct (negb (iters <? M)).
    { inversion Hl; subst r. rewrite (finish_B s iters I). discriminate. }
    destruct I as [Hi [Hnd [Hcl Hh]]].
    assert (Hcur : (cur < n)%nat) by (apply (Hh k c cur); rewrite Eh; left; reflexivity).
    assert (Hh' : forall k0 c0 x, In (k0, c0, x) h' -> (x < n)%nat)
      by (intros k0 c0 x Hx; apply (Hh k0 c0 x); rewrite Eh; right; exact Hx).
    destruct (memb Nat.eqb cur (s_closed s)) eqn:Em.
    { eapply IH; [|exact Hl]. repeat split; cbn [s_closed s_heap]; assumption. }
    assert (Hnin : ~ In cur (s_closed s)).
    { intros Hin. apply (memb_In Nat.eqb Nat.eqb_eq) in Hin. congruence. }
    assert (I2 : invB (mkSt (s_g s) (s_parent s) (cur :: s_closed s) (s_counter s) h' (s_evals s)) (iters + 1)).
    { repeat split; cbn [s_closed s_heap].
      - cbn [length]. lia.
      - constructor; assumption.
      - intros x [Hx|Hx]; [subst x; exact Hcur|apply Hcl; exact Hx].
      - exact Hh'. }
    destruct (lookup Nat.eqb cur (s_g s)) as [gcur|]; [|discriminate].
    destruct (is_goal cur).
    { destruct (reconstruct_path Nat.eqb (s_parent s) cur); [|discriminate].
      inversion Hl; subst r. cbn [r_status]. exact Hfound. }
    destruct (over_limit cltb limit_of mc k gcur).
    { eapply IH; [exact I2|exact Hl]. }
    eapply IH; [|exact Hl].
    destruct I2 as [Hi2 [Hnd2 [Hcl2 Hh2]]]. unfold expand.
    destruct (fold_relax_B cur gcur (nbrs cur)
                (mkSt (s_g s) (s_parent s) (cur :: s_closed s) (s_counter s) h' (s_evals s))
                (fun v w Hin => Hnb cur v w Hin) Hh2) as [Hc3 Hh3].
    repeat split.
    - rewrite Hc3. exact Hi2.
    - rewrite Hc3. exact Hnd2.
    - rewrite Hc3. exact Hcl2.
    - exact Hh3.
  Qed.
End NoMaxIter.

(* ---------------------------------------------------------------- edge list of adj_of versus the input edge list *)
Section PyTarget.
  Variable n : nat.
  Variable E : wgraph.
  Hypothesis Hv : Forall (fun e : nat * nat * Z => (fst (fst e) < n)%nat /\ (snd (fst e) < n)%nat /\ 0 <= snd e) E.

  Notation a := (PyDij.adj_of n E).

  Lemma py_adj_edges_In : forall u v w, In (u, v, w) (adj_edges a) <-> In (u, v, w) E.
  Proof.
    intros u v w. rewrite In_adj_edges, py_adj_nbrs_In. split; [tauto|].
    intros Hin. split; [|exact Hin]. destruct (edge_valid n E Hv _ _ _ Hin) as [Hu _]. exact Hu.
  Qed.

  Lemma py_adj_incl1 : incl (adj_edges a) E.
  Proof. intros [[u v] w] H. apply py_adj_edges_In. exact H. Qed.

  Lemma py_adj_incl2 : incl E (adj_edges a).
  Proof. intros [[u v] w] H. apply py_adj_edges_In. exact H. Qed.

  Lemma py_walk_iff : forall u t p d, walk (adj_edges a) u t p d <-> walk E u t p d.
  Proof.
    intros u t p d. split; apply walk_mono; [apply py_adj_incl1|apply py_adj_incl2].
  Qed.

  Lemma py_is_dist : forall s t d, is_dist (adj_edges a) s t d -> is_dist E s t d.
  Proof.
    intros s t d [[p W] Hm]. split.
    - exists p. apply py_walk_iff. exact W.
    - intros p' d' W'. apply (Hm p' d'). apply py_walk_iff. exact W'.
  Qed.

  Lemma py_nonneg_adj : nonneg_adj a = true.
  Proof.
    unfold nonneg_adj. apply forallb_forall. intros l Hl. apply forallb_forall. intros [v w] Hvw.
    apply (In_nth _ _ []) in Hl. destruct Hl as [u [Hu Hnth]]. rewrite py_adj_length in Hu.
    assert (Hin : In (v, w) (adj_nbrs a u)) by (unfold adj_nbrs; rewrite Hnth; exact Hvw).
    apply py_adj_nbrs_In in Hin. destruct Hin as [_ Hin].
    destruct (edge_valid n E Hv _ _ _ Hin) as [_ [_ Hw]]. simpl. apply Z.leb_le. exact Hw.
  Qed.

  Lemma goal_in_single : forall t x, goal_in [t] x = true -> x = t.
  Proof.
    intros t x H. unfold goal_in in H. cbn [memb] in H. destruct (Nat.eqb x t) eqn:Ex; [|discriminate].
    apply Nat.eqb_eq. exact Ex.
  Qed.

  Lemma goal_in_single_refl : forall t, goal_in [t] t = true.
  Proof. intros t. unfold goal_in. cbn [memb]. rewrite Nat.eqb_refl. reflexivity. Qed.

  Lemma target_correct_sec : forall source t, (source < n)%nat -> (t < n)%nat ->
    (exists p d, PyDij.dijkstra_edges n E source (Some t) = Some (RsDij.Path p d)
                 /\ walk E source t p d /\ is_dist E source t d)
    \/ (PyDij.dijkstra_edges n E source (Some t) = Some RsDij.Infeasible /\ ~ reachable E source t).
  Proof.
    intros source t Hs Ht.
    set (M := Z.max 1000000 (Z.of_nat (n + length E + 1))).
    destruct (dijkstra_total a source [t] M None) as [r Hr].
    assert (Hr' : dijkstra_gen (graph_fuel a) a source [t] M None = Some r) by exact Hr.
    pose proof (dijkstra_path_valid _ _ _ _ _ _ _ Hr') as Hok.
    pose proof (dijkstra_optimal _ _ _ _ _ _ _ py_nonneg_adj Hr') as Hopt.
    assert (Hnm : r_status r <> MAX_ITER).
    { unfold dijkstra_gen, dijkstra_c, best_first in Hr'.
      eapply (loop_not_maxiter Z.add Z.ltb Z.ltb (fun t0 _ => t0) (fun k _ => k) OPTIMAL (adj_nbrs a) (goal_in [t]) M None n);
        [discriminate| | | |exact Hr'].
      - intros u v w Hin. apply py_adj_nbrs_In in Hin. destruct Hin as [_ Hin].
        destruct (edge_valid n E Hv _ _ _ Hin) as [_ [Hvn _]]. exact Hvn.
      - unfold M. lia.
      - unfold invB, init_st. cbn [s_closed s_heap length]. repeat split.
        + constructor.
        + intros x [].
        + intros k c v [Hin|[]]. inversion Hin; subst. exact Hs. }
    unfold PyDij.dijkstra_edges. fold M. rewrite Hr.
    unfold graph_res_ok in Hok. destruct (r_path r) as [p|] eqn:Ep.
    - destruct Hok as [d [t' [Ho [W [Hg Hst]]]]]. apply goal_in_single in Hg. subst t'.
      left. exists p, d. rewrite Hst, Ho. split; [reflexivity|]. split; [apply py_walk_iff; exact W|].
      destruct (best_is_dist _ _ _ _ _ (dijkstra_path_valid _ _ _ _ _ _ _ Hr') Hopt d Ho)
        as [t' [p' [_ [Hg' [Hd _]]]]].
      apply goal_in_single in Hg'. subst t'. apply py_is_dist. exact Hd.
    - destruct Hok as [Ho [Hst|Hst]]; [|contradiction].
      right. rewrite Hst, Ho. split; [reflexivity|].
      pose proof (dijkstra_infeasible_sound _ _ _ _ _ _ Hr' Hst) as Hno.
      intros [p [d W]]. apply (Hno t (goal_in_single_refl t)). exists p, d. apply py_walk_iff. exact W.
  Qed.
End PyTarget.

Theorem pydij_target_correct : forall n edges source t,
  (source < n)%nat -> (t < n)%nat ->
  Forall (fun e : nat * nat * Z => (fst (fst e) < n)%nat /\ (snd (fst e) < n)%nat /\ (0 <= snd e)%Z) edges ->
  (exists p d, PyDij.dijkstra_edges n edges source (Some t) = Some (RsDij.Path p d)
               /\ walk edges source t p d /\ is_dist edges source t d)
  \/ (PyDij.dijkstra_edges n edges source (Some t) = Some RsDij.Infeasible /\ ~ reachable edges source t).
Proof. intros n edges source t Hs Ht Hv. apply target_correct_sec; assumption. Qed.

Print Assumptions pydij_all_dists_correct.
Print Assumptions pydij_target_correct.
