(* C12_topo: the Rust-side model of topological_sort_edges (Kahn with a STACK, rust/src/algorithms/scc.rs) and the
   Python-side model SV.C14.Scc.topo_edges (Kahn with a FIFO queue) either both return a valid topological order
   of the same graph (not necessarily the same one) or both report INFEASIBLE; neither runs out of fuel.

   The Python side is C14's theorem (Main.topo_edges_spec).  The Rust side is proved here by simulation: one
   `release` sweep computes the same in-degrees and the same SET of newly released nodes as C14's `relax`, and
   C14's loop invariant `kinv` only sees the work list as a set, so `kinv_step` transfers. *)
From Coq Require Import List Arith ZArith Bool Lia Permutation.
From SV Require Import C14.Scc C14.SccSpec C14.SccLemmas C14.KahnProofs C14.TopoProofs C14.Main C12.RsScc.
Import ListNotations.

(* ---------------------------------------------------------------- arrays *)
Lemma length_set_nth {A} (i : nat) (x : A) l : length (RsScc.set_nth i x l) = length l.
Proof. revert i; induction l as [|h t IH]; intros [|i]; simpl; auto. Qed.

Lemma nth_set_nth_eq {A} (i : nat) (x d : A) l : i < length l -> nth i (RsScc.set_nth i x l) d = x.
Proof. revert i; induction l as [|h t IH]; intros [|i] H; simpl in *; try lia; auto. apply IH; lia. Qed.

Lemma nth_set_nth_neq {A} (i j : nat) (x d : A) l : i <> j -> nth j (RsScc.set_nth i x l) d = nth j l d.
Proof.
  revert i j; induction l as [|h t IH]; intros [|i] [|j] H; simpl; try reflexivity; try congruence.
  apply IH; congruence.
Qed.

Lemma nth_repeat_lt {A} (x d : A) n i : i < n -> nth i (repeat x n) d = x.
Proof. revert i; induction n as [|n IH]; intros [|i] H; simpl; try lia; auto. apply IH; lia. Qed.

(* ---------------------------------------------------------------- abstraction of the in-degree array *)
Definition absd (deg : list nat) (dz : list (nat * Z)) : Prop :=
  forall w, zget dz w = Z.of_nat (nth w deg 0).

Lemma release_sim ws : forall deg q dz qz deg' q' dz' qz',
  absd deg dz -> Permutation q qz ->
  (forall w, In w ws -> w < length deg) ->
  (forall w, (cnt ws w <= zget dz w)%Z) ->
  fold_left RsScc.release ws (deg, q) = (deg', q') ->
  relax ws dz qz = (dz', qz') ->
  absd deg' dz' /\ Permutation q' qz' /\ length deg' = length deg.
Proof.
  induction ws as [|a r IH]; intros deg q dz qz deg' q' dz' qz' Habs Hperm Hlt Hge Hrs Hpy; simpl in *.
  - inversion Hrs; inversion Hpy; subst. auto.
  - assert (Ha : a < length deg) by (apply Hlt; left; reflexivity).
    assert (Hpos : (1 <= zget dz a)%Z).
    { specialize (Hge a). rewrite cnt_cons, Nat.eqb_refl in Hge. pose proof (cnt_nonneg r a). lia. }
    pose proof (Habs a) as Haa.
    assert (Hd : Z.of_nat (Nat.pred (nth a deg 0)) = (zget dz a - 1)%Z) by lia.
    set (d := Nat.pred (nth a deg 0)) in *.
    set (deg1 := RsScc.set_nth a d deg) in *.
    set (dz1 := aset dz a (zget dz a - 1)%Z) in *.
    assert (Habs1 : absd deg1 dz1).
    { intros w. unfold zget, dz1, deg1. destruct (Nat.eq_dec a w) as [->|Hn].
      - rewrite agetd_aset_eq. rewrite nth_set_nth_eq by exact Ha. fold (zget dz w). lia.
      - rewrite agetd_aset_neq by exact Hn. rewrite nth_set_nth_neq by exact Hn. apply Habs. }
    assert (Hlt1 : forall w, In w r -> w < length deg1).
    { intros w Hw. unfold deg1. rewrite length_set_nth. apply Hlt. right. exact Hw. }
    assert (Hge1 : forall w, (cnt r w <= zget dz1 w)%Z).
    { intros w. specialize (Hge w). rewrite cnt_cons in Hge. unfold zget, dz1.
      destruct (Nat.eq_dec a w) as [->|Hn].
      - rewrite agetd_aset_eq. rewrite Nat.eqb_refl in Hge. fold (zget dz w) in *. lia.
      - rewrite agetd_aset_neq by exact Hn. apply Nat.eqb_neq in Hn. rewrite Hn in Hge. exact Hge. }
    assert (Hz : (d =? 0) = ((zget dz a - 1) =? 0)%Z).
    { destruct (Nat.eqb_spec d 0) as [E|E]; destruct (Z.eqb_spec (zget dz a - 1) 0) as [E'|E']; try reflexivity; lia. }
    rewrite Hz in Hrs. destruct ((zget dz a - 1) =? 0)%Z.
    + destruct (IH deg1 (a :: q) dz1 (qz ++ [a]) deg' q' dz' qz' Habs1) as [H1 [H2 H3]]; try assumption.
      * apply Permutation_cons_app. rewrite app_nil_r. exact Hperm.
      * split; [exact H1|]. split; [exact H2|]. rewrite H3. unfold deg1. apply length_set_nth.
    + destruct (IH deg1 q dz1 qz deg' q' dz' qz' Habs1) as [H1 [H2 H3]]; try assumption.
      split; [exact H1|]. split; [exact H2|]. rewrite H3. unfold deg1. apply length_set_nth.
Qed.

Lemma kinv_transfer g nodes dz dz' q q' res :
  kinv g nodes dz q res -> Permutation q q' -> (forall w, zget dz w = zget dz' w) -> kinv g nodes dz' q' res.
Proof.
  intros [I1 I2 I3 I4 I5] HP HE.
  assert (HPP : Permutation (res ++ q) (res ++ q')) by (apply Permutation_app_head; exact HP).
  constructor.
  - eapply Permutation_NoDup; eassumption.
  - intros w Hw. apply I2. eapply Permutation_in; [apply Permutation_sym; exact HPP | exact Hw].
  - intros w. rewrite <- HE. apply I3.
  - intros w Hw. rewrite <- HE. rewrite <- (I4 w Hw). split; intros H.
    + eapply Permutation_in; [apply Permutation_sym; exact HPP | exact H].
    + eapply Permutation_in; [exact HPP | exact H].
  - exact I5.
Qed.

(* ---------------------------------------------------------------- the loop *)
Lemma rs_loop_inv g nodes (a : list (list nat)) n :
  NoDup nodes -> (forall v, In v nodes <-> v < n) ->
  (forall v, In v nodes -> nth v a [] = adjf g nodes v) ->
  forall fuel deg dz queue order,
    length deg = n -> absd deg dz ->
    kinv g nodes dz queue order -> length nodes < fuel + length order ->
    exists res dz', RsScc.kahn_loop fuel a deg queue order = Some res /\ kinv g nodes dz' [] res.
Proof.
  intros Hnd Hnodes Hadj. induction fuel as [|f IH]; intros deg dz queue order Hlen Habs Hinv Hfuel.
  - destruct queue as [|v q].
    + exists order, dz. split; [reflexivity | exact Hinv].
    + exfalso. destruct Hinv as [I1 I2 _ _ _].
      pose proof (NoDup_incl_length I1 I2) as Hl. rewrite app_length in Hl. simpl in Hl, Hfuel. lia.
  - destruct queue as [|v q].
    + exists order, dz. split; [reflexivity | exact Hinv].
    + simpl.
      assert (Hv : In v nodes).
      { apply (ki_incl _ _ _ _ _ Hinv). apply in_or_app. right. left. reflexivity. }
      assert (HvR : ~ In v order).
      { pose proof (ki_nodup _ _ _ _ _ Hinv) as I1. apply NoDup_remove_2 in I1.
        intros H. apply I1. apply in_or_app. left. exact H. }
      rewrite (Hadj v Hv).
      destruct (fold_left RsScc.release (adjf g nodes v) (deg, q)) as [deg' q'] eqn:Ers.
      destruct (relax (adjf g nodes v) dz q) as [dz' qz'] eqn:Epy.
      assert (Hge : forall w, (cnt (adjf g nodes v) w <= zget dz w)%Z).
      { intros w. rewrite (ki_deg _ _ _ _ _ Hinv). apply indeg_rem_ge; assumption. }
      assert (Hlt : forall w, In w (adjf g nodes v) -> w < length deg).
      { intros w Hw. unfold adjf in Hw. apply filter_In in Hw. destruct Hw as [_ Hw].
        apply mem_In in Hw. rewrite Hlen. apply Hnodes. exact Hw. }
      destruct (release_sim _ deg q dz q deg' q' dz' qz' Habs (Permutation_refl q) Hlt Hge Ers Epy)
        as [Habs' [Hperm Hlen']].
      apply (IH deg' dz' q' (order ++ [v])).
      * lia.
      * exact Habs'.
      * apply (kinv_transfer g nodes dz' dz' qz' q').
        -- eapply kinv_step; eassumption.
        -- apply Permutation_sym. exact Hperm.
        -- reflexivity.
      * rewrite app_length. simpl. lia.
Qed.

(* ---------------------------------------------------------------- adjacency of the two sides *)
Definition out_of (edges : list (nat * nat)) (u : nat) : list nat :=
  map snd (filter (fun e => fst e =? u) edges).

Definition evalid (n : nat) (edges : list (nat * nat)) : Prop :=
  Forall (fun e => fst e < n /\ snd e < n) edges.

Lemma rs_adj_gen n u : u < n -> forall edges acc, evalid n edges -> length acc = n ->
  nth u (fold_left (fun a e => if Nat.ltb (fst e) n && Nat.ltb (snd e) n
                                then RsScc.set_nth (fst e) (nth (fst e) a [] ++ [snd e]) a else a) edges acc) []
  = nth u acc [] ++ out_of edges u.
Proof.
  intros Hu. induction edges as [|e l IH]; intros acc HV Hacc; simpl.
  - now rewrite app_nil_r.
  - inversion HV as [|? ? [H1 H2] HV']; subst.
    apply Nat.ltb_lt in H1 as H1b. apply Nat.ltb_lt in H2 as H2b. rewrite H1b, H2b. simpl.
    rewrite IH; [|exact HV'|now rewrite length_set_nth].
    unfold out_of. simpl. destruct (Nat.eqb_spec (fst e) u) as [E|E].
    + subst u. rewrite nth_set_nth_eq by lia. simpl. now rewrite <- app_assoc.
    + rewrite nth_set_nth_neq by exact E. reflexivity.
Qed.

Lemma rs_adj n edges u : u < n -> evalid n edges -> nth u (RsScc.build_adjacency n edges) [] = out_of edges u.
Proof.
  intros Hu HV. unfold RsScc.build_adjacency. rewrite (rs_adj_gen n u Hu edges _ HV (repeat_length _ _)).
  now rewrite nth_repeat_lt by exact Hu.
Qed.

Lemma rs_adj_length n edges : length (RsScc.build_adjacency n edges) = n.
Proof.
  unfold RsScc.build_adjacency.
  assert (G : forall acc, length acc = n ->
    length (fold_left (fun a e => if Nat.ltb (fst e) n && Nat.ltb (snd e) n
                                  then RsScc.set_nth (fst e) (nth (fst e) a [] ++ [snd e]) a else a) edges acc) = n).
  { induction edges as [|e l IH]; intros acc H; simpl; [exact H|]. apply IH.
    destruct (Nat.ltb (fst e) n && Nat.ltb (snd e) n); [now rewrite length_set_nth | exact H]. }
  apply G. apply repeat_length.
Qed.

Lemma py_nbr_gen u : forall edges g,
  nbr (fold_left (fun g e => aset g (fst e) (agetd [] g (fst e) ++ [snd e])) edges g) u = nbr g u ++ out_of edges u.
Proof.
  induction edges as [|e l IH]; intros g; simpl.
  - now rewrite app_nil_r.
  - rewrite IH. unfold out_of. simpl. unfold nbr. destruct (Nat.eqb_spec (fst e) u) as [E|E].
    + subst u. rewrite agetd_aset_eq. simpl. now rewrite <- app_assoc.
    + rewrite agetd_aset_neq by exact E. reflexivity.
Qed.

Lemma py_nbr n edges u : nbr (graph_of_edges n edges) u = out_of edges u.
Proof. unfold graph_of_edges. rewrite py_nbr_gen. unfold nbr. now rewrite agetd_init_map. Qed.

Lemma out_of_lt n edges u w : evalid n edges -> In w (out_of edges u) -> w < n.
Proof.
  intros HV Hw. unfold out_of in Hw. apply in_map_iff in Hw. destruct Hw as [e [<- He]].
  apply filter_In in He. destruct He as [He _]. unfold evalid in HV. rewrite Forall_forall in HV.
  apply (HV e He).
Qed.

Lemma filter_all_id {A} (f : A -> bool) l : forallb f l = true -> filter f l = l.
Proof.
  induction l as [|x l IH]; simpl; [reflexivity|]. intros H. apply andb_true_iff in H. destruct H as [H1 H2].
  rewrite H1. f_equal. apply IH. exact H2.
Qed.

Lemma adj_agree n edges u : u < n -> evalid n edges ->
  nth u (RsScc.build_adjacency n edges) [] = adjf (graph_of_edges n edges) (seq 0 n) u.
Proof.
  intros Hu HV. rewrite rs_adj by assumption. unfold adjf. rewrite py_nbr.
  symmetry. apply filter_all_id. apply forallb_forall. intros w Hw. apply mem_In. apply in_seq.
  pose proof (out_of_lt n edges u w HV Hw). lia.
Qed.

(* ---------------------------------------------------------------- initial in-degrees *)
Lemma inc_fold ns : forall d w, (forall x, In x ns -> x < length d) ->
  length (fold_left (fun d v => RsScc.set_nth v (S (nth v d 0)) d) ns d) = length d /\
  Z.of_nat (nth w (fold_left (fun d v => RsScc.set_nth v (S (nth v d 0)) d) ns d) 0) = (Z.of_nat (nth w d 0%nat) + cnt ns w)%Z.
Proof.
  induction ns as [|a r IH]; intros d w Hlt; simpl.
  - rewrite cnt_nil. split; [reflexivity | lia].
  - assert (Ha : a < length d) by (apply Hlt; left; reflexivity).
    destruct (IH (RsScc.set_nth a (S (nth a d 0)) d) w) as [H1 H2].
    { intros x Hx. rewrite length_set_nth. apply Hlt. right. exact Hx. }
    rewrite H1, H2, length_set_nth, cnt_cons. split; [reflexivity|].
    destruct (Nat.eqb_spec a w) as [->|E].
    + rewrite nth_set_nth_eq by exact Ha. lia.
    + rewrite nth_set_nth_neq by exact E. lia.
Qed.

Lemma indeg_fold (l : list (list nat)) : forall d w, (forall ns x, In ns l -> In x ns -> x < length d) ->
  length (fold_left (fun d ns => fold_left (fun d v => RsScc.set_nth v (S (nth v d 0)) d) ns d) l d) = length d /\
  Z.of_nat (nth w (fold_left (fun d ns => fold_left (fun d v => RsScc.set_nth v (S (nth v d 0)) d) ns d) l d) 0)
  = (Z.of_nat (nth w d 0%nat) + sumz (map (fun ns => cnt ns w) l))%Z.
Proof.
  induction l as [|ns r IH]; intros d w Hlt; simpl.
  - split; [reflexivity | lia].
  - destruct (inc_fold ns d w) as [H1 H2]. { intros x Hx. apply (Hlt ns); [left; reflexivity | exact Hx]. }
    destruct (IH (fold_left (fun d v => RsScc.set_nth v (S (nth v d 0)) d) ns d) w) as [H3 H4].
    { intros ns' x Hn Hx. rewrite H1. apply (Hlt ns'); [right; exact Hn | exact Hx]. }
    rewrite H3, H4, H1, H2. split; [reflexivity | lia].
Qed.

Lemma list_as_map {A} (d : A) (l : list A) : l = map (fun i => nth i l d) (seq 0 (length l)).
Proof.
  induction l as [|x l IH]; simpl; [reflexivity|]. f_equal. rewrite <- seq_shift, map_map. exact IH.
Qed.

(* ---------------------------------------------------------------- the Rust side meets the C14 specification *)
Theorem rs_topo_spec n edges : evalid n edges ->
  exists out, RsScc.topo_edges n edges = Some out /\ topo_spec (graph_of_edges n edges) (seq 0 n) out.
Proof.
  intros HV. set (g := graph_of_edges n edges). set (nodes := seq 0 n).
  set (a := RsScc.build_adjacency n edges).
  assert (Hnd : NoDup nodes) by apply seq_NoDup.
  assert (Hnodes : forall v, In v nodes <-> v < n) by (intros v; unfold nodes; rewrite in_seq; lia).
  assert (Hadj : forall v, In v nodes -> nth v a [] = adjf g nodes v).
  { intros v Hv. apply adj_agree; [apply Hnodes; exact Hv | exact HV]. }
  assert (Ha : a = map (adjf g nodes) nodes).
  { rewrite (list_as_map [] a). unfold a at 2. rewrite rs_adj_length. apply map_ext_in.
    intros v Hv. apply Hadj. exact Hv. }
  set (deg := RsScc.in_degrees n a).
  destruct (indeg_fold a (repeat 0 n) 0) as [Hlen _].
  { intros ns x Hns Hx. rewrite repeat_length. rewrite Ha in Hns. apply in_map_iff in Hns.
    destruct Hns as [v [<- Hv]]. unfold adjf in Hx. apply filter_In in Hx. destruct Hx as [_ Hx].
    apply mem_In in Hx. apply Hnodes. exact Hx. }
  assert (Hdeglen : length deg = n) by (unfold deg, RsScc.in_degrees; rewrite Hlen; apply repeat_length).
  assert (Hdeg : forall w, Z.of_nat (nth w deg 0) = indeg_rem g nodes [] w).
  { intros w. destruct (indeg_fold a (repeat 0 n) w) as [_ H].
    { intros ns x Hns Hx. rewrite repeat_length. rewrite Ha in Hns. apply in_map_iff in Hns.
      destruct Hns as [v [<- Hv]]. unfold adjf in Hx. apply filter_In in Hx. destruct Hx as [_ Hx].
      apply mem_In in Hx. apply Hnodes. exact Hx. }
    unfold deg, RsScc.in_degrees. rewrite H.
    assert (E0 : nth w (repeat 0 n) 0 = 0).
    { destruct (Nat.lt_ge_cases w n) as [L|L]; [apply nth_repeat_lt; exact L | apply nth_overflow; rewrite repeat_length; exact L]. }
    rewrite E0. unfold indeg_rem. rewrite Ha, map_map. simpl. reflexivity. }
  set (dz := map (fun i => (i, Z.of_nat (nth i deg 0))) (seq 0 n)).
  assert (Habs : absd deg dz).
  { intros w. unfold zget, agetd, dz.
    assert (G : forall k m, aget (map (fun i => (i, Z.of_nat (nth i deg 0))) (seq k m)) w =
                            if (k <=? w) && (w <? k + m) then Some (Z.of_nat (nth w deg 0)) else None).
    { intros k m; revert k; induction m as [|m IHm]; intros k; simpl.
      - destruct (Nat.leb_spec k w); destruct (Nat.ltb_spec w (k + 0)); simpl; try reflexivity; lia.
      - rewrite IHm. destruct (Nat.eqb_spec k w) as [->|E].
        + rewrite Nat.leb_refl. destruct (Nat.ltb_spec w (w + S m)); [reflexivity | lia].
        + destruct (Nat.leb_spec (S k) w); destruct (Nat.leb_spec k w); destruct (Nat.ltb_spec w (S k + m));
            destruct (Nat.ltb_spec w (k + S m)); simpl; try reflexivity; lia. }
    rewrite G. simpl. destruct (Nat.ltb_spec w n) as [L|L]; [reflexivity|].
    rewrite nth_overflow by lia. reflexivity. }
  set (queue := rev (filter (fun v => nth v deg 0 =? 0) nodes)).
  assert (Hinv : kinv g nodes dz queue []).
  { constructor; simpl.
    - unfold queue. apply NoDup_rev. apply NoDup_filter. exact Hnd.
    - intros w Hw. unfold queue in Hw. apply in_rev in Hw. apply filter_In in Hw. tauto.
    - intros w. rewrite Habs. apply Hdeg.
    - intros w Hw. rewrite Habs. unfold queue. rewrite <- in_rev, filter_In, Nat.eqb_eq. split; [lia | intros; split; [exact Hw | lia]].
    - intros u w _ []. }
  destruct (rs_loop_inv g nodes a n Hnd Hnodes Hadj (S n) deg dz queue [] Hdeglen Habs Hinv) as [res [dz' [Hr Hk]]].
  { unfold nodes. rewrite seq_length. simpl. lia. }
  unfold RsScc.topo_edges, RsScc.kahn. fold a. fold deg. fold nodes. fold queue. rewrite Hr.
  eexists. split; [reflexivity|].
  destruct Hk as [I1 I2 I3 I4 I5]. rewrite app_nil_r in *.
  assert (Hnl : length nodes = n) by (unfold nodes; apply seq_length).
  destruct (Nat.eqb_spec (length res) n) as [El|El]; simpl.
  - (* a valid order *)
    assert (Hall : incl nodes res) by (apply NoDup_length_incl; [exact I1 | lia | exact I2]).
    unfold topo_order. split; [exact I1|]. split; [|split; [lia|]].
    + intros x. split; [apply I2 | apply Hall].
    + intros u w H. destruct H as (Hu & Hw & Hn). destruct (I5 u w Hu (Hall w Hw)) as [_ Hp]; [|exact Hp].
      apply adjf_edge; [exact Hu | repeat split; assumption].
  - (* a cycle *)
    assert (Hex : exists x, In x nodes /\ ~ In x res).
    { destruct (existsb (fun x => negb (mem x res)) nodes) eqn:E2.
      - apply existsb_exists in E2. destruct E2 as [x [Hx Hm]]. exists x. split; [exact Hx|].
        apply mem_false. apply negb_true_iff. exact Hm.
      - exfalso. assert (Hi : incl nodes res).
        { intros x Hx. apply mem_In. destruct (mem x res) eqn:E3; [reflexivity|].
          assert (existsb (fun x => negb (mem x res)) nodes = true)
            by (apply existsb_exists; exists x; split; [exact Hx | rewrite E3; reflexivity]).
          congruence. }
        pose proof (NoDup_incl_length Hnd Hi). pose proof (NoDup_incl_length I1 I2). lia. }
    destruct Hex as [x [Hx Hxr]].
    apply (cycle_from_predecessors g nodes (fun w => In w nodes /\ ~ In w res) x).
    + intros w [Hw _]. exact Hw.
    + intros w [Hw Hwr].
      assert (Hnz : zget dz' w <> 0%Z) by (intros Hz; apply Hwr; apply I4; assumption).
      rewrite I3 in Hnz. apply indeg_rem_nonzero_ex in Hnz. destruct Hnz as [u [Hu [Hur Hadj']]].
      exists u. split; [split; assumption|]. apply adjf_edge; assumption.
    + split; assumption.
Qed.

(* ---------------------------------------------------------------- C12_topo *)
Definition evalidb (n : nat) (edges : list (nat * nat)) : bool :=
  forallb (fun e => (fst e <? n) && (snd e <? n)) edges.

Lemma evalidb_evalid n edges : evalidb n edges = true -> evalid n edges.
Proof.
  intros H. apply Forall_forall. intros e He. unfold evalidb in H. rewrite forallb_forall in H.
  specialize (H e He). apply andb_true_iff in H. destruct H as [A B].
  apply Nat.ltb_lt in A. apply Nat.ltb_lt in B. auto.
Qed.

Theorem topo_equiv : forall n edges, evalidb n edges = true ->
  exists out_rs out_py,
    RsScc.topo_edges n edges = Some out_rs /\ Scc.topo_edges n edges = Some out_py /\
    topo_spec (graph_of_edges n edges) (seq 0 n) out_rs /\
    topo_spec (graph_of_edges n edges) (seq 0 n) out_py /\
    (out_rs = None <-> out_py = None).
Proof.
  intros n edges HV. apply evalidb_evalid in HV.
  destruct (rs_topo_spec n edges HV) as [o1 [H1 S1]].
  destruct (topo_edges_spec n edges) as [o2 [H2 [S2 _]]].
  exists o1, o2. repeat split; try assumption.
  - intros ->. destruct o2 as [ord|]; [|reflexivity]. exfalso.
    simpl in S1, S2. eapply topo_order_acyclic; eassumption.
  - intros ->. destruct o1 as [ord|]; [|reflexivity]. exfalso.
    simpl in S1, S2. eapply topo_order_acyclic; eassumption.
Qed.
