(* C12_fw: the Rust-side model of floyd_warshall (adapter + kernel) and the Python-side model SV.C11.FloydWarshall
   compute the same result (distance matrix / UNBOUNDED) on every valid input.
   The k-i-j loops and the negative-cycle rule are literally the same function of the initial matrix; the work
   is the preprocessing: Python interleaves min-updates of (u,v) and (v,u) per edge, the adapter appends all
   reversed edges and the kernel keeps `w < dist[u][v]`. *)
From Coq Require Import List ZArith Bool Arith Lia Permutation.
From SV Require Import C11.Paths C11.FloydWarshall C12.RsShortest.
Import ListNotations.
Open Scope Z_scope.

(* ---------------------------------------------------------------- lists *)
Lemma set_nth_eq {A} (i : nat) (x : A) l : RsShortest.set_nth i x l = FW.set_nth i x l.
Proof. reflexivity. Qed.

Lemma length_set_nth {A} (i : nat) (x : A) l : length (FW.set_nth i x l) = length l.
Proof. revert i; induction l as [|h t IH]; intros [|i]; simpl; auto. Qed.

Lemma nth_set_nth_eq {A} (i : nat) (x d : A) l : (i < length l)%nat -> nth i (FW.set_nth i x l) d = x.
Proof. revert i; induction l as [|h t IH]; intros [|i] H; simpl in *; try lia; auto. apply IH; lia. Qed.

Lemma nth_set_nth_neq {A} (i j : nat) (x d : A) l : i <> j -> nth j (FW.set_nth i x l) d = nth j l d.
Proof.
  revert i j; induction l as [|h t IH]; intros [|i] [|j] H; simpl; try reflexivity; try congruence.
  apply IH; congruence.
Qed.

Lemma set_nth_same {A} (i : nat) (d : A) l : FW.set_nth i (nth i l d) l = l.
Proof. revert i; induction l as [|h t IH]; intros [|i]; simpl; try reflexivity. now rewrite IH. Qed.

Lemma nth_repeat_lt {A} (x d : A) n i : (i < n)%nat -> nth i (repeat x n) d = x.
Proof. revert i; induction n as [|n IH]; intros [|i] H; simpl; try lia; auto. apply IH; lia. Qed.

Lemma list_ext {A} (d : A) (l l' : list A) :
  length l = length l' -> (forall i, (i < length l)%nat -> nth i l d = nth i l' d) -> l = l'.
Proof.
  revert l'; induction l as [|h t IH]; intros [|h' t'] HL H; simpl in *; try discriminate; auto.
  f_equal.
  - apply (H 0%nat); lia.
  - apply IH; [lia|]. intros i Hi. apply (H (S i)); lia.
Qed.

Lemma fold_left_ext {A B} (f g : A -> B -> A) l a : (forall a b, f a b = g a b) -> fold_left f l a = fold_left g l a.
Proof. intros H; revert a; induction l as [|x l IH]; intros a; simpl; auto. now rewrite H, IH. Qed.

(* ---------------------------------------------------------------- matrices *)
Definition wf (n : nat) (m : FW.mat) : Prop := length m = n /\ forall i, (i < n)%nat -> length (nth i m []) = n.

Lemma get_eq m i j : RsFW.get m i j = FW.get m i j.
Proof. reflexivity. Qed.

Lemma set_eq m i j x : RsFW.set m i j x = FW.set m i j x.
Proof. unfold RsFW.set, FW.set. now rewrite !set_nth_eq. Qed.

Lemma wf_set n m i j x : wf n m -> wf n (FW.set m i j x).
Proof.
  intros [HL HR]; split; unfold FW.set.
  - now rewrite length_set_nth.
  - intros k Hk. destruct (Nat.eq_dec i k) as [->|Hne].
    + rewrite nth_set_nth_eq by lia. rewrite length_set_nth. auto.
    + rewrite nth_set_nth_neq by assumption. auto.
Qed.

Lemma get_set n m i j x a b : wf n m -> (i < n)%nat -> (j < n)%nat ->
  FW.get (FW.set m i j x) a b = if Nat.eqb a i && Nat.eqb b j then x else FW.get m a b.
Proof.
  intros [HL HR] Hi Hj. unfold FW.get, FW.set.
  destruct (Nat.eqb_spec a i) as [->|Hai]; simpl.
  - rewrite nth_set_nth_eq by lia.
    destruct (Nat.eqb_spec b j) as [->|Hbj].
    + apply nth_set_nth_eq. rewrite HR; lia.
    + apply nth_set_nth_neq; congruence.
  - rewrite nth_set_nth_neq by congruence. reflexivity.
Qed.

Lemma set_get_same m i j : FW.set m i j (FW.get m i j) = m.
Proof. unfold FW.set, FW.get. rewrite set_nth_same. apply set_nth_same. Qed.

Lemma mat_ext n m m' : wf n m -> wf n m' ->
  (forall a b, (a < n)%nat -> (b < n)%nat -> FW.get m a b = FW.get m' a b) -> m = m'.
Proof.
  intros [HL HR] [HL' HR'] H. apply (list_ext []); [congruence|].
  intros i Hi. apply (list_ext None).
  - rewrite HR, HR'; lia.
  - intros j Hj. apply H; [lia|]. rewrite HR in Hj; lia.
Qed.

(* ---------------------------------------------------------------- the min-update *)
Definition upd (m : FW.mat) (e : nat * nat * Z) : FW.mat :=
  let '(u, v, w) := e in FW.set m u v (FW.min_inf (FW.get m u v) w).

Lemma wf_upd n m e : wf n m -> wf n (upd m e).
Proof. destruct e as [[u v] w]. apply wf_set. Qed.

Lemma get_upd n m u v w a b : wf n m -> (u < n)%nat -> (v < n)%nat ->
  FW.get (upd m (u, v, w)) a b = if Nat.eqb a u && Nat.eqb b v then FW.min_inf (FW.get m a b) w else FW.get m a b.
Proof.
  intros Hwf Hu Hv. simpl. rewrite (get_set n) by assumption.
  destruct (Nat.eqb_spec a u) as [->|]; destruct (Nat.eqb_spec b v) as [->|]; reflexivity.
Qed.

Lemma min_inf_comm d w1 w2 : FW.min_inf (FW.min_inf d w1) w2 = FW.min_inf (FW.min_inf d w2) w1.
Proof. destruct d; simpl; f_equal; lia. Qed.

Definition eok (n : nat) (e : nat * nat * Z) : Prop := FW.edge_ok n e = true.

Lemma eok_lt n u v w : eok n (u, v, w) -> (u < n)%nat /\ (v < n)%nat.
Proof.
  unfold eok, FW.edge_ok. intros H. apply andb_true_iff in H. destruct H as [H1 H2].
  apply Nat.ltb_lt in H1. apply Nat.ltb_lt in H2. auto.
Qed.

Lemma upd_comm n m e1 e2 : wf n m -> eok n e1 -> eok n e2 -> upd (upd m e1) e2 = upd (upd m e2) e1.
Proof.
  intros Hwf H1 H2. destruct e1 as [[u1 v1] w1]. destruct e2 as [[u2 v2] w2].
  destruct (eok_lt _ _ _ _ H1) as [Hu1 Hv1]. destruct (eok_lt _ _ _ _ H2) as [Hu2 Hv2].
  apply (mat_ext n); [repeat apply wf_upd; assumption | repeat apply wf_upd; assumption |].
  intros a b Ha Hb.
  rewrite (get_upd n) by (try apply wf_upd; assumption).
  rewrite (get_upd n) by assumption.
  rewrite (get_upd n) by (try apply wf_upd; assumption).
  rewrite (get_upd n) by assumption.
  destruct (Nat.eqb a u1 && Nat.eqb b v1); destruct (Nat.eqb a u2 && Nat.eqb b v2); try reflexivity.
  apply min_inf_comm.
Qed.

Lemma wf_fold_upd n l : forall m, wf n m -> wf n (fold_left upd l m).
Proof. induction l as [|e l IH]; intros m H; simpl; auto. apply IH, wf_upd, H. Qed.

Lemma fold_upd_perm n l l' : Permutation l l' -> Forall (eok n) l ->
  forall m, wf n m -> fold_left upd l m = fold_left upd l' m.
Proof.
  induction 1 as [|x l l' HP IH|x y l|l l' l'' HP1 IH1 HP2 IH2]; intros HF m Hwf; simpl.
  - reflexivity.
  - inversion HF; subst. apply IH; [assumption|]. apply wf_upd, Hwf.
  - inversion HF as [|? ? Hy HF']; subst. inversion HF' as [|? ? Hx HF'']; subst.
    now rewrite (upd_comm n m y x).
  - rewrite IH1 by assumption. apply IH2; [|assumption].
    eapply Permutation_Forall; eassumption.
Qed.

(* ---------------------------------------------------------------- initial matrices *)
Lemma nth_map_seq {A} (f : nat -> A) (d : A) n i : (i < n)%nat -> nth i (map f (seq 0 n)) d = f i.
Proof.
  intros H. rewrite (nth_indep _ d (f 0%nat)) by (rewrite map_length, seq_length; lia).
  rewrite map_nth. rewrite seq_nth by lia. reflexivity.
Qed.

Lemma wf_py_init n : wf n (FW.init n).
Proof.
  unfold FW.init; split.
  - now rewrite map_length, seq_length.
  - intros i Hi. rewrite nth_map_seq by lia. now rewrite map_length, seq_length.
Qed.

Lemma get_py_init n a b : (a < n)%nat -> (b < n)%nat ->
  FW.get (FW.init n) a b = if Nat.eqb a b then Some 0 else None.
Proof.
  intros Ha Hb. unfold FW.get, FW.init. rewrite nth_map_seq by lia. now rewrite nth_map_seq by lia.
Qed.

Definition blank (n : nat) : FW.mat := repeat (repeat None n) n.

Lemma wf_blank n : wf n (blank n).
Proof.
  split; [apply repeat_length|]. intros i Hi. unfold blank. rewrite nth_repeat_lt by lia. apply repeat_length.
Qed.

Lemma get_blank n a b : (a < n)%nat -> (b < n)%nat -> FW.get (blank n) a b = None.
Proof. intros Ha Hb. unfold FW.get, blank. rewrite nth_repeat_lt by lia. now apply nth_repeat_lt. Qed.

Lemma diag_fold n l : Forall (fun i => (i < n)%nat) l -> forall m, wf n m ->
  wf n (fold_left (fun m i => FW.set m i i (Some 0)) l m) /\
  forall a b, FW.get (fold_left (fun m i => FW.set m i i (Some 0)) l m) a b =
              if Nat.eqb a b && existsb (Nat.eqb a) l then Some 0 else FW.get m a b.
Proof.
  induction 1 as [|i l Hi HF IH]; intros m Hwf; simpl.
  - split; [assumption|]. intros a b. now rewrite andb_false_r.
  - destruct (IH (FW.set m i i (Some 0)) (wf_set n m i i _ Hwf)) as [Hw Hg].
    split; [assumption|]. intros a b. rewrite Hg. rewrite (get_set n) by assumption.
    destruct (Nat.eqb_spec a b) as [Hab|Hab]; destruct (Nat.eqb_spec a i) as [Hai|Hai];
      destruct (Nat.eqb_spec b i) as [Hbi|Hbi]; subst; simpl; try congruence;
      try (destruct (existsb (Nat.eqb i) l); reflexivity);
      try (destruct (existsb (Nat.eqb b) l); reflexivity).
Qed.

Lemma seq_lt n : Forall (fun i => (i < n)%nat) (seq 0 n).
Proof. apply Forall_forall. intros i Hi. apply in_seq in Hi. lia. Qed.

Lemma rs_init_eq n : RsFW.init n = FW.init n.
Proof.
  unfold RsFW.init.
  rewrite (fold_left_ext _ (fun m i => FW.set m i i (Some 0))) by (intros; apply set_eq).
  destruct (diag_fold n (seq 0 n) (seq_lt n) (blank n) (wf_blank n)) as [Hw Hg].
  apply (mat_ext n); [exact Hw | apply wf_py_init |].
  intros a b Ha Hb. fold (blank n). rewrite Hg, get_py_init by assumption.
  destruct (Nat.eqb a b); simpl; [|now apply get_blank].
  assert (E : existsb (Nat.eqb a) (seq 0 n) = true).
  { apply existsb_exists. exists a. split; [apply in_seq; lia | apply Nat.eqb_refl]. }
  now rewrite E.
Qed.

(* ---------------------------------------------------------------- edge insertion *)
Lemma rs_add_edge_upd n m e : eok n e -> RsFW.add_edge n m e = upd m e.
Proof.
  destruct e as [[u v] w]. intros H. destruct (eok_lt _ _ _ _ H) as [Hu Hv].
  unfold RsFW.add_edge, upd.
  apply Nat.ltb_lt in Hu. apply Nat.ltb_lt in Hv. rewrite Hu, Hv. simpl.
  change RsFW.get with FW.get. destruct (FW.get m u v) as [x|] eqn:E; simpl.
  - destruct (Z.ltb_spec w x) as [Hlt|Hge].
    + rewrite set_eq. f_equal. f_equal. lia.
    + replace (Z.min x w) with x by lia. rewrite <- E. symmetry. apply set_get_same.
  - apply set_eq.
Qed.

Lemma rs_fold_upd n l : Forall (eok n) l -> forall m, fold_left (RsFW.add_edge n) l m = fold_left upd l m.
Proof.
  induction 1 as [|e l He HF IH]; intros m; simpl; auto. rewrite rs_add_edge_upd by assumption. apply IH.
Qed.

Lemma py_fold_directed l : forall m, fold_left (FW.add_edge true) l m = fold_left upd l m.
Proof.
  induction l as [|[[u v] w] l IH]; intros m; simpl; auto.
Qed.

Lemma py_fold_undirected l : forall m,
  fold_left (FW.add_edge false) l m = fold_left upd (flat_map (fun e => [e; RsFW.swap_edge e]) l) m.
Proof.
  induction l as [|[[u v] w] l IH]; intros m; simpl; auto.
Qed.

Lemma perm_swap_expand (l : wgraph) :
  Permutation (l ++ map RsFW.swap_edge l) (flat_map (fun e => [e; RsFW.swap_edge e]) l).
Proof.
  induction l as [|e l IH]; simpl; [constructor|].
  constructor. eapply Permutation_trans; [apply Permutation_sym, Permutation_middle|].
  constructor. exact IH.
Qed.

Lemma eok_swap n e : eok n e -> eok n (RsFW.swap_edge e).
Proof.
  destruct e as [[u v] w]. unfold eok, FW.edge_ok, RsFW.swap_edge. intros H.
  apply andb_true_iff in H. destruct H as [H1 H2]. now rewrite H1, H2.
Qed.

Lemma init_state_eq n edges directed : Forall (eok n) edges ->
  fold_left (RsFW.add_edge n) (RsFW.adapter_edges edges directed) (RsFW.init n) = FW.init_edges n edges directed.
Proof.
  intros HF. unfold FW.init_edges, RsFW.adapter_edges. rewrite rs_init_eq.
  destruct directed.
  - rewrite rs_fold_upd by assumption. symmetry. apply py_fold_directed.
  - assert (HF' : Forall (eok n) (edges ++ map RsFW.swap_edge edges)).
    { apply Forall_app; split; [assumption|]. apply Forall_forall. intros e He.
      apply in_map_iff in He. destruct He as [e0 [<- He0]]. apply eok_swap.
      eapply Forall_forall in HF; eassumption. }
    rewrite rs_fold_upd by assumption. rewrite py_fold_undirected.
    apply (fold_upd_perm n); [apply perm_swap_expand | assumption | apply wf_py_init].
Qed.

(* ---------------------------------------------------------------- the loops and the negative-cycle rule *)
Lemma step_eq k i j m : RsFW.step k i j m = FW.step k i j m.
Proof.
  unfold RsFW.step, FW.step. change RsFW.get with FW.get.
  destruct (FW.get m i k) as [a|]; destruct (FW.get m k j) as [b|]; simpl; try reflexivity.
Qed.

Lemma loop_k_eq n m : RsFW.loop_k n m = FW.loop_k n m.
Proof.
  unfold RsFW.loop_k, FW.loop_k. apply fold_left_ext. intros m1 k.
  unfold RsFW.loop_i, FW.loop_i. apply fold_left_ext. intros m2 i.
  unfold RsFW.loop_j, FW.loop_j. apply fold_left_ext. intros m3 j. apply step_eq.
Qed.

Lemma neg_eq n m : RsFW.has_negative_cycle n m = FW.neg_diag n m.
Proof.
  unfold RsFW.has_negative_cycle, FW.neg_diag. induction (seq 0 n) as [|i l IH]; simpl; [reflexivity|].
  rewrite IH. change RsFW.get with FW.get. destruct (FW.get m i i); reflexivity.
Qed.

(* ---------------------------------------------------------------- the theorem *)
Theorem fw_equiv : forall n edges directed, FW.valid_input n edges = true ->
  RsFW.floyd_warshall n edges directed = FW.floyd_warshall n edges directed.
Proof.
  intros n edges directed HV. unfold FW.floyd_warshall. rewrite HV. simpl.
  unfold FW.valid_input in HV. apply andb_true_iff in HV. destruct HV as [_ HE].
  assert (HF : Forall (eok n) edges) by (apply Forall_forall; apply forallb_forall; exact HE).
  unfold RsFW.floyd_warshall, RsFW.kernel, FW.final.
  rewrite init_state_eq by assumption. rewrite loop_k_eq, neg_eq. reflexivity.
Qed.
