(* C12 dfs_edges, deep equivalence, part 3: the Rust-side model (kernel + adapter) and the Python-side model
   (dfs() of SV.C11.Bfs wrapped as in solvor/bfs.py dfs_edges) are observably equivalent on valid inputs:
   with a target both return FEASIBLE with a valid path (the two paths may differ: Rust marks at pop time,
   Python at push time) iff the target is reachable, INFEASIBLE otherwise; without a target both return the
   same sorted list = the reachable set.  Neither runs out of fuel, neither reports Hang / MAX_ITER. *)
From Coq Require Import List ZArith Bool Arith Lia Permutation.
From SV Require Import C11.Paths C11.PathsLemmas C11.Bfs C11.BfsProofs1 C11.BfsProofs2 C11.BfsTheorems
                       C12.RsSearch C12.BfsEquiv C12.DeepDfs1 C12.DeepDfs2.
Import ListNotations.
Local Open Scope nat_scope.

Lemma valid_input_inv n edges source target : ES.valid_input n edges source target = true ->
  source < n /\ evalid n edges /\ match target with Some t => t < n | None => True end.
Proof.
  unfold ES.valid_input. intros H. apply andb_true_iff in H. destruct H as [H Ht].
  apply andb_true_iff in H. destruct H as [Hs He]. apply Nat.ltb_lt in Hs.
  split; [exact Hs|]. split.
  - apply Forall_forall. intros e Hin. rewrite forallb_forall in He. specialize (He e Hin).
    unfold ES.edge_ok in He. apply andb_true_iff in He. destruct He as [A B].
    apply Nat.ltb_lt in A. apply Nat.ltb_lt in B. auto.
  - destruct target as [t|]; [apply Nat.ltb_lt; exact Ht | exact I].
Qed.

(* ================================================================== Rust side *)
Theorem rs_dfs_target_spec : forall n edges source t, ES.valid_input n edges source (Some t) = true ->
  (reach (out_of edges) source t /\
     exists p, RsSearch.dfs_edges n edges source (Some t) = Some (ES.Found ES.FEASIBLE p (Z.of_nat (length p) - 1)) /\
               is_path (out_of edges) source t p)
  \/ (~ reach (out_of edges) source t /\
      RsSearch.dfs_edges n edges source (Some t) = Some (ES.NotFound ES.INFEASIBLE)).
Proof.
  intros n edges source t HV. destruct (valid_input_inv _ _ _ _ HV) as (Hs & HE & _).
  destruct (dfs_kernel_spec n edges source (Some t) HE Hs) as (k & Hk & Hpost).
  unfold RsSearch.dfs_edges. rewrite Hk. unfold kpost in Hpost.
  destruct Hpost as [[Hr (p & vo & -> & Hp)]|[Hr (vo & ->)]].
  - left. split; [exact Hr|]. exists p. split; [reflexivity | exact Hp].
  - right. split; [exact Hr | reflexivity].
Qed.

Theorem rs_dfs_reach_spec : forall n edges source, ES.valid_input n edges source None = true ->
  exists vo, RsSearch.dfs_edges n edges source None = Some (ES.Reach (ES.sort vo)) /\ NoDup vo /\
             forall v, In v vo <-> reach (out_of edges) source v.
Proof.
  intros n edges source HV. destruct (valid_input_inv _ _ _ _ HV) as (Hs & HE & _).
  destruct (dfs_kernel_spec n edges source None HE Hs) as (k & Hk & Hpost).
  unfold RsSearch.dfs_edges. rewrite Hk. unfold kpost in Hpost.
  destruct Hpost as (vo & -> & Hnd & Hiff). exists vo. split; [reflexivity|]. split; assumption.
Qed.

(* ================================================================== Python side *)
Section Py.
Variable n : nat.
Variable edges : list (nat * nat).
Variable source : nat.
Hypothesis Hs : source < n.
Hypothesis HE : evalid n edges.

Let psucc := Bfs.succ_of (PyEdges.adj_of n edges).

Lemma psucc_eq u : u < n -> psucc u = out_of edges u.
Proof. intros Hu. apply py_adj. exact Hu. Qed.

Lemma psucc_lt u w : u < n -> In w (psucc u) -> w < n.
Proof. intros Hu Hw. rewrite psucc_eq in Hw by exact Hu. eapply out_of_lt; eauto. Qed.

Lemma osucc_lt u w : u < n -> In w (out_of edges u) -> w < n.
Proof. intros _ Hw. eapply out_of_lt; eauto. Qed.

Lemma py_path_iff t p : is_path psucc source t p <-> is_path (out_of edges) source t p.
Proof.
  split; intros H.
  - eapply (is_path_ext psucc (out_of edges) n); eauto using psucc_eq, psucc_lt.
  - eapply (is_path_ext (out_of edges) psucc n); eauto using osucc_lt.
    intros u Hu. symmetry. apply psucc_eq. exact Hu.
Qed.

Lemma py_reach_iff t : reach psucc source t <-> reach (out_of edges) source t.
Proof. split; intros [p Hp]; exists p; apply py_path_iff; exact Hp. Qed.

(* the iteration cap max(10^6, n + |edges| + 1) is never hit: at most n nodes are reachable *)
Lemma py_no_max_iter goal :
  Bfs.search Bfs.Stack (PyEdges.adj_of n edges) source goal (PyEdges.max_iter_of n edges)
  <> Some (Bfs.NotFound Bfs.MAX_ITER).
Proof.
  intros H. apply search_max_iter_real in H. destruct H as (vs & Hnd & Hr & Hle).
  assert (Hi : incl vs (seq 0 n)).
  { intros v Hv. apply in_seq. specialize (Hr v Hv).
    pose proof (reach_lt psucc n source v psucc_lt Hs Hr). lia. }
  pose proof (NoDup_incl_length Hnd Hi) as Hlen. rewrite seq_length in Hlen.
  unfold PyEdges.max_iter_of in Hle. lia.
Qed.

Lemma py_dfs_target_spec t :
  (reach (out_of edges) source t ->
     exists q, PyEdges.dfs_edges n edges source (Some t) = Some (ES.Found ES.FEASIBLE q (Z.of_nat (length q) - 1)) /\
               is_path (out_of edges) source t q)
  /\ (~ reach (out_of edges) source t ->
      PyEdges.dfs_edges n edges source (Some t) = Some (ES.NotFound ES.INFEASIBLE)).
Proof.
  unfold PyEdges.dfs_edges, PyEdges.search_edges. cbn [PyEdges.goal_of]. unfold Bfs.goal_val.
  destruct (search_some (PyEdges.adj_of n edges) source Bfs.Stack (Some (Nat.eqb t)) (PyEdges.max_iter_of n edges))
    as [r Hr].
  assert (Hm : r <> Bfs.NotFound Bfs.MAX_ITER).
  { intros ->. exact (py_no_max_iter _ Hr). }
  assert (Hgr : goal_reachable psucc source (Nat.eqb t) <-> reach (out_of edges) source t).
  { unfold goal_reachable. split.
    - intros (t' & Ht' & E). apply Nat.eqb_eq in E. subst t'. apply py_reach_iff. exact Ht'.
    - intros H. exists t. split; [apply py_reach_iff; exact H | apply Nat.eqb_refl]. }
  rewrite Hr. split; intros Hreach.
  - apply Hgr in Hreach. apply (search_finds_iff_reachable _ _ _ _ _ _ Hr Hm) in Hreach.
    destruct Hreach as (q & obj & ->).
    destruct (search_path_valid _ _ _ _ _ _ _ _ Hr) as (t' & Hp & Hg & ->).
    cbn in Hg. apply Nat.eqb_eq in Hg. subst t'.
    exists q. split; [reflexivity | apply py_path_iff; exact Hp].
  - assert (Hn : ~ goal_reachable psucc source (Nat.eqb t)) by (intros H; apply Hreach, Hgr, H).
    apply (search_infeasible_iff _ _ _ _ _ _ Hr Hm) in Hn. subst r. reflexivity.
Qed.

Lemma py_dfs_reach_spec :
  exists vs, PyEdges.dfs_edges n edges source None = Some (ES.Reach (ES.sort vs)) /\ NoDup vs /\
             forall v, In v vs <-> reach (out_of edges) source v.
Proof.
  unfold PyEdges.dfs_edges, PyEdges.search_edges. cbn [PyEdges.goal_of].
  destruct (search_some (PyEdges.adj_of n edges) source Bfs.Stack None (PyEdges.max_iter_of n edges)) as [r Hr].
  pose proof (search_spec _ _ _ _ _ _ Hr) as Hspec.
  destruct r as [st p obj|st|vs obj|]; cbn in Hspec.
  - destruct Hspec as (_ & t' & _ & Hg & _). discriminate.
  - destruct st; try contradiction; destruct Hspec as [H _]; congruence.
  - clear Hspec. destruct (search_visited _ _ _ _ _ _ Hr) as (_ & Hnd & Hsound & Hcomp).
    rewrite Hr. exists vs. split; [reflexivity|]. split; [exact Hnd|].
    assert (Hi : incl vs (seq 0 n)).
    { intros v Hv. apply in_seq. specialize (Hsound v Hv).
      pose proof (reach_lt psucc n source v psucc_lt Hs Hsound). lia. }
    pose proof (NoDup_incl_length Hnd Hi) as Hlen. rewrite seq_length in Hlen.
    assert (Hlt : (Z.of_nat (length vs) < PyEdges.max_iter_of n edges)%Z) by (unfold PyEdges.max_iter_of; lia).
    intros v. rewrite <- py_reach_iff. symmetry. apply Hcomp. exact Hlt.
  - contradiction.
Qed.

End Py.

(* ================================================================== the equivalence *)
Theorem dfs_equiv_target : forall n edges source t, ES.valid_input n edges source (Some t) = true ->
  (reach (out_of edges) source t /\
     exists p q, RsSearch.dfs_edges n edges source (Some t) = Some (ES.Found ES.FEASIBLE p (Z.of_nat (length p) - 1)) /\
                 PyEdges.dfs_edges n edges source (Some t) = Some (ES.Found ES.FEASIBLE q (Z.of_nat (length q) - 1)) /\
                 is_path (out_of edges) source t p /\ is_path (out_of edges) source t q)
  \/ (~ reach (out_of edges) source t /\
      RsSearch.dfs_edges n edges source (Some t) = Some (ES.NotFound ES.INFEASIBLE) /\
      PyEdges.dfs_edges n edges source (Some t) = Some (ES.NotFound ES.INFEASIBLE)).
Proof.
  intros n edges source t HV. destruct (valid_input_inv _ _ _ _ HV) as (Hs & HE & _).
  destruct (py_dfs_target_spec n edges source Hs HE t) as [Py1 Py2].
  destruct (rs_dfs_target_spec n edges source t HV) as [[Hr (p & Hp & Hpp)]|[Hr Hrs]].
  - left. split; [exact Hr|]. destruct (Py1 Hr) as (q & Hq & Hqp).
    exists p, q. split; [exact Hp|]. split; [exact Hq|]. split; assumption.
  - right. split; [exact Hr|]. split; [exact Hrs | apply Py2; exact Hr].
Qed.

Theorem dfs_equiv_reach : forall n edges source, ES.valid_input n edges source None = true ->
  exists l, RsSearch.dfs_edges n edges source None = Some (ES.Reach l) /\
            PyEdges.dfs_edges n edges source None = Some (ES.Reach l) /\
            (forall v, In v l <-> reach (out_of edges) source v).
Proof.
  intros n edges source HV. destruct (valid_input_inv _ _ _ _ HV) as (Hs & HE & _).
  destruct (rs_dfs_reach_spec n edges source HV) as (vo & Hrs & Hnd & Hiff).
  destruct (py_dfs_reach_spec n edges source Hs HE) as (vs & Hpy & Hnd' & Hiff').
  exists (ES.sort vo). split; [exact Hrs|]. split.
  - rewrite Hpy. f_equal. f_equal. apply sort_perm_eq. apply NoDup_Permutation; try assumption.
    intros v. rewrite Hiff, Hiff'. reflexivity.
  - intros v. rewrite <- Hiff. split; apply Permutation_in; [|apply Permutation_sym]; apply sort_perm.
Qed.

(* non-vacuity: a graph where the two back-ends return DIFFERENT valid paths, an unreachable target, a reach set *)
Example dfs_equiv_ex_valid :
  ES.valid_input 5 [(0,1);(0,2);(1,3);(2,3);(3,1)] 0 (Some 3) = true /\
  ES.valid_input 5 [(0,1);(0,2);(1,3);(2,3);(3,1)] 0 (Some 4) = true /\
  ES.valid_input 5 [(0,1);(0,2);(1,3);(2,3);(3,1)] 0 None = true.
Proof. vm_compute. auto. Qed.

Example dfs_equiv_ex_paths :
  RsSearch.dfs_edges 5 [(0,1);(0,2);(1,3);(2,3);(3,1)] 0 (Some 3) = Some (ES.Found ES.FEASIBLE [0;1;3] 2) /\
  PyEdges.dfs_edges 5 [(0,1);(0,2);(1,3);(2,3);(3,1)] 0 (Some 3) = Some (ES.Found ES.FEASIBLE [0;2;3] 2) /\
  RsSearch.dfs_edges 5 [(0,1);(0,2);(1,3);(2,3);(3,1)] 0 (Some 4) = Some (ES.NotFound ES.INFEASIBLE) /\
  RsSearch.dfs_edges 5 [(0,1);(0,2);(1,3);(2,3);(3,1)] 0 None = Some (ES.Reach [0;1;2;3]).
Proof. vm_compute. auto. Qed.

Print Assumptions rs_dfs_target_spec.
Print Assumptions rs_dfs_reach_spec.
Print Assumptions dfs_equiv_target.
Print Assumptions dfs_equiv_reach.
