(* C12 - Rust-side model of rust/src/algorithms/scc.rs (strongly_connected_components: recursive Tarjan;
   topological_sort: Kahn with a Vec used as a STACK) with the adapters _scc_edges_rust / _topo_edges_rust of
   solvor/rust/adapters.py.  Definitions only.

   (Since /repo 50224e7 the Rust Tarjan is ITERATIVE with explicit frames - it visits the nodes in the same order and pushes the same
   components as the recursive kernel transliterated below, so this fuel-based recursive model describes the same function; the
   correspondence with backend='rust' is re-checked on every run.)
   Vec<Option<usize>> indices -> list (option nat); Vec<usize> lowlinks / in_degree -> list nat;
   Vec<bool> on_stack -> list bool; stack: head = top.  Recursion of `strongconnect` -> fuel (depth). *)
From Coq Require Import List Arith ZArith Bool.
Import ListNotations.

Module RsScc.

Fixpoint set_nth {A} (i : nat) (x : A) (l : list A) : list A :=
  match l, i with
  | [], _ => []
  | _ :: t, O => x :: t
  | h :: t, S k => h :: set_nth k x t
  end.

Definition build_adjacency (n : nat) (edges : list (nat * nat)) : list (list nat) :=
  fold_left (fun a e => if Nat.ltb (fst e) n && Nat.ltb (snd e) n
                        then set_nth (fst e) (nth (fst e) a [] ++ [snd e]) a else a)
            edges (repeat [] n).

(* ---------------------------------------------------------------- Tarjan *)
Record st := mk {
  counter : nat;
  indices : list (option nat);
  lowlinks : list nat;
  on_stack : list bool;
  stack : list nat;
  components : list (list nat) }.

Definition low (s : st) (v : nat) : nat := nth v (lowlinks s) 0.
Definition set_low (s : st) (v x : nat) : st :=
  mk (counter s) (indices s) (set_nth v x (lowlinks s)) (on_stack s) (stack s) (components s).

(* indices[v] = Some(counter); lowlinks[v] = counter; counter += 1; stack.push(v); on_stack[v] = true *)
Definition enter (v : nat) (s : st) : st :=
  mk (S (counter s)) (set_nth v (Some (counter s)) (indices s)) (set_nth v (counter s) (lowlinks s))
     (set_nth v true (on_stack s)) (v :: stack s) (components s).

(* loop { let w = stack.pop().unwrap(); on_stack[w] = false; component.push(w); if w == v { break; } } *)
Fixpoint pop_until (v : nat) (stk : list nat) (on : list bool) (acc : list nat) : option (list nat * list bool * list nat) :=
  match stk with
  | [] => None                              (* unwrap() on None: panic *)
  | w :: r =>
      let on' := set_nth w false on in
      let acc' := acc ++ [w] in
      if w =? v then Some (r, on', acc') else pop_until v r on' acc'
  end.

(* if lowlinks[v] == indices[v].unwrap() { ... components.push(component); } *)
Definition finish (v : nat) (s : st) : option st :=
  match nth v (indices s) None with
  | None => None
  | Some iv =>
      if low s v =? iv then
        match pop_until v (stack s) (on_stack s) [] with
        | None => None
        | Some (stk', on', c) => Some (mk (counter s) (indices s) (lowlinks s) on' stk' (components s ++ [c]))
        end
      else Some s
  end.

(* for &w in &adj[v] { if indices[w].is_none() { strongconnect(w); lowlinks[v] = min(lowlinks[v], lowlinks[w]); }
                       else if on_stack[w] { lowlinks[v] = min(lowlinks[v], indices[w].unwrap()); } } *)
Fixpoint sc_loop (rec : nat -> st -> option st) (v : nat) (ws : list nat) (s : st) : option st :=
  match ws with
  | [] => Some s
  | w :: r =>
      match nth w (indices s) None with
      | None =>
          match rec w s with
          | None => None
          | Some s1 => sc_loop rec v r (set_low s1 v (Nat.min (low s1 v) (low s1 w)))
          end
      | Some iw =>
          if nth w (on_stack s) false
          then sc_loop rec v r (set_low s v (Nat.min (low s v) iw))
          else sc_loop rec v r s
      end
  end.

Fixpoint strongconnect (fuel : nat) (a : list (list nat)) (v : nat) (s : st) : option st :=
  match fuel with
  | 0 => None
  | S f =>
      match sc_loop (strongconnect f a) v (nth v a []) (enter v s) with
      | None => None
      | Some s2 => finish v s2
      end
  end.

(* for v in 0..n_nodes { if indices[v].is_none() { strongconnect(v, ...); } } *)
Fixpoint main (fuel : nat) (a : list (list nat)) (vs : list nat) (s : st) : option st :=
  match vs with
  | [] => Some s
  | v :: r =>
      match nth v (indices s) None with
      | Some _ => main fuel a r s
      | None => match strongconnect fuel a v s with
                | None => None
                | Some s' => main fuel a r s'
                end
      end
  end.

(* adapter: Result([list(c) for c in components], n_components, 0, 0): solution = components (objective = their number) *)
Definition scc_edges (n : nat) (edges : list (nat * nat)) : option (list (list nat)) :=
  option_map components
    (main (S n) (build_adjacency n edges) (seq 0 n)
          (mk 0 (repeat None n) (repeat 0 n) (repeat false n) [] [])).

(* ---------------------------------------------------------------- Kahn (stack discipline) *)
(* for neighbors in &adj { for &v in neighbors { in_degree[v] += 1; } } *)
Definition in_degrees (n : nat) (a : list (list nat)) : list nat :=
  fold_left (fun d ns => fold_left (fun d v => set_nth v (S (nth v d 0)) d) ns d) a (repeat 0 n).

(* for &v in &adj[u] { in_degree[v] -= 1; if in_degree[v] == 0 { queue.push(v); } }      (push = on top) *)
Definition release (st : list nat * list nat) (v : nat) : list nat * list nat :=
  let '(deg, queue) := st in
  let d := Nat.pred (nth v deg 0) in
  let deg' := set_nth v d deg in
  if d =? 0 then (deg', v :: queue) else (deg', queue).

(* while let Some(u) = queue.pop() { order.push(u); ... } *)
Fixpoint kahn_loop (fuel : nat) (a : list (list nat)) (deg : list nat) (queue : list nat) (order : list nat) : option (list nat) :=
  match queue with
  | [] => Some order
  | u :: q =>
      match fuel with
      | 0 => None
      | S f =>
          let '(deg', q') := fold_left release (nth u a []) (deg, q) in
          kahn_loop f a deg' q' (order ++ [u])
      end
  end.

(* let mut queue: Vec<usize> = (0..n).filter(|&v| in_degree[v] == 0).collect();  pop() takes the LAST element *)
Definition kahn (n : nat) (edges : list (nat * nat)) : option (list nat) :=
  let a := build_adjacency n edges in
  let deg := in_degrees n a in
  let queue := rev (filter (fun v => nth v deg 0 =? 0) (seq 0 n)) in
  kahn_loop (S n) a deg queue [].

(* kernel: order.len() == n_nodes -> Some(order) else None; adapter: is_acyclic -> Result(order, len(order)) else
   Result(None, 0, INFEASIBLE).   outer None = out of fuel; Some None = INFEASIBLE; Some (Some l) = order *)
Definition topo_edges (n : nat) (edges : list (nat * nat)) : option (option (list nat)) :=
  match kahn n edges with
  | None => None
  | Some order => Some (if length order =? n then Some order else None)
  end.

End RsScc.
