(* C19 part B - proofs about the differential_evolution bookkeeping machine (B_DE.v). *)
From Coq Require Import List ZArith Bool Arith Lia.
From SV Require Import C19.B_Common C19.B_DE C19.B_ProofsCommon.
Import ListNotations.
Open Scope Z_scope.

Section DE.
Variable ivs : list Z.

(* one generation keeps: stream well-formed, every slot holds an evaluated point with its own value,
   best = minimum over everything evaluated so far *)
Lemma de_gen_inv pop : forall best st pop' best' st',
  wf ivs st -> Forall (good ivs (evals st)) pop -> is_min ivs (evals st) best ->
  de_gen pop best st = Some (pop', best', st') ->
  wf ivs st' /\ (evals st <= evals st')%nat /\ Forall (good ivs (evals st')) pop' /\ is_min ivs (evals st') best'.
Proof.
  induction pop as [|p ps IH]; intros best st pop' best' st' W HG HM H; cbn [de_gen] in H.
  - inversion H; subst. split; [exact W|]. split; [lia|]. split; [constructor | exact HM].
  - destruct (eval st) as [[t st1]|] eqn:E; [|discriminate].
    destruct (de_gen ps _ st1) as [[[ps' b] st2]|] eqn:E2; [|discriminate].
    inversion H; subst; clear H.
    destruct (eval_spec ivs _ _ _ W E) as (W1 & A2 & A3 & A4).
    pose proof (eval_good ivs _ _ _ W E) as Gt.
    inversion HG as [|? ? Gp Gps]; subst.
    assert (HM1 : is_min ivs (evals st1)
                    (if (eval_ t <=? eval_ p) && (eval_ t <? eval_ best) then t else best)).
    { destruct (eval_ t <=? eval_ p) eqn:C1; cbn [andb].
      - destruct (eval_ t <? eval_ best) eqn:C2.
        + apply Z.ltb_lt in C2. apply (is_min_new ivs st t st1 best); auto. lia.
        + apply Z.ltb_ge in C2. apply (is_min_keep ivs st t st1 best); auto.
      - apply Z.leb_gt in C1. apply (is_min_keep ivs st t st1 best); auto.
        destruct HM as [_ L]. pose proof (good_lower ivs _ _ _ Gp L). lia. }
    assert (HG1 : Forall (good ivs (evals st1)) ps) by (eapply Forall_good_mono; [exact Gps | lia]).
    destruct (IH _ _ _ _ _ W1 HG1 HM1 E2) as (W2 & B2 & B3 & B4).
    split; [exact W2|]. split; [lia|]. split; [|exact B4].
    constructor; [|exact B3].
    destruct (eval_ t <=? eval_ p).
    + apply (good_mono ivs (evals st1)); [exact Gt | lia].
    + apply (good_mono ivs (evals st)); [exact Gp | lia].
Qed.
End DE.

Lemma de_loop_ok minimize us max_iter conv cb interval k : forall it pop best st r st',
  let ivs := ev_internal (ev_sign minimize) us in
  wf ivs st -> Forall (good ivs (evals st)) pop -> is_min ivs (evals st) best ->
  de_loop (ev_sign minimize) max_iter conv cb interval k it pop best st = Some (r, st') ->
  result_ok minimize us r st'.
Proof.
  induction k as [|k IH]; intros it pop best st r st' ivs W HG HM H; cbn [de_loop] in H.
  - inversion H; subst. apply mk_result_ok; assumption.
  - destruct (de_gen pop best st) as [[[pop1 best1] st1]|] eqn:E; [|discriminate].
    destruct (de_gen_inv ivs _ _ _ _ _ _ W HG HM E) as (W1 & B2 & B3 & B4).
    destruct (conv it).
    + inversion H; subst. apply mk_result_ok; assumption.
    + destruct (report_progress cb interval it).
      * inversion H; subst. apply mk_result_ok; assumption.
      * eapply IH; eauto.
Qed.

Theorem de_run_ok minimize population_size max_iter conv cb interval us r st :
  de_run_st minimize population_size max_iter conv cb interval us = Some (r, st) ->
  result_ok minimize us r st.
Proof.
  unfold de_run_st. set (ivs := ev_internal (ev_sign minimize) us).
  destruct (eval_n _ (est0 ivs)) as [[pop st0]|] eqn:E; [|discriminate].
  destruct (argmin_first pop) as [best|] eqn:EA; [|discriminate].
  intros H.
  destruct (eval_n_spec ivs _ _ _ _ (wf_est0 ivs) E) as (W & A2 & A3 & A4 & A5).
  specialize (A5 [] (covers_nil0 ivs)). cbn [app] in A5.
  eapply de_loop_ok; eauto.
  eapply argmin_is_min; eauto.
Qed.

(* mirror: maximise f  ==  minimise -f with the objective negated *)
Lemma de_loop_mirror max_iter conv cb interval k : forall it pop best st,
  de_loop (-1) max_iter conv cb interval k it pop best st
  = neg_out (de_loop 1 max_iter conv cb interval k it pop best st).
Proof.
  induction k as [|k IH]; intros it pop best st; cbn [de_loop].
  - cbn. rewrite mk_result_neg. reflexivity.
  - destruct (de_gen pop best st) as [[[pop1 best1] st1]|]; [|reflexivity].
    destruct (conv it); [cbn; rewrite mk_result_neg; reflexivity|].
    destruct (report_progress cb interval it); [cbn; rewrite mk_result_neg; reflexivity|].
    apply IH.
Qed.

Theorem de_run_mirror population_size max_iter conv cb interval us :
  de_run_st false population_size max_iter conv cb interval us
  = neg_out (de_run_st true population_size max_iter conv cb interval (map Z.opp us)).
Proof.
  unfold de_run_st. cbn [ev_sign]. rewrite internal_mirror.
  destruct (eval_n _ _) as [[pop st0]|]; [|reflexivity].
  destruct (argmin_first pop) as [best|]; [|reflexivity].
  apply de_loop_mirror.
Qed.
