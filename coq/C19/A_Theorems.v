(* C19 part A - the property-level statements, uniformly named, each for EVERY value stream and EVERY
   oracle stream (no bound on their length).  `*_log` is the list of user-sign objective values the run
   consumed, in call order, start point(s) first; a run that is not a well-formed recording (events
   missing / left over / wrong number of children) is None and is excluded explicitly. *)
From Coq Require Import List ZArith Bool Arith Lia.
From SV Require Import Common.Corr C19.Common C19.A_Anneal C19.A_Lns C19.A_Tabu C19.A_Evolve C19.A_Check
  C19.A_AnnealProofs C19.A_LnsProofs C19.A_TabuProofs C19.A_EvolveProofs.
Import ListNotations.
Open Scope Z_scope.

(* ---- best_is_f: the reported objective is the logged value of the returned identity *)
Lemma lns_best_is_f m mi mni u0 evs r :
  lns m mi mni u0 evs = Some r -> nth_error (lns_log u0 evs) (r_id r) = Some (r_obj r).
Proof. intros H. exact (proj1 (lns_spec _ _ _ _ _ _ H)). Qed.
Lemma alns_best_is_f m mi mni u0 evs r :
  alns m mi mni u0 evs = Some r -> nth_error (lns_log u0 evs) (r_id r) = Some (r_obj r).
Proof. intros H. exact (proj1 (alns_spec _ _ _ _ _ _ H)). Qed.
Lemma tabu_best_is_f m cd mi mni u0 evs r :
  tabu m cd mi mni u0 evs = Some r -> nth_error (tabu_log u0 evs) (r_id r) = Some (r_obj r).
Proof. intros H. exact (proj1 (tabu_spec _ _ _ _ _ _ _ H)). Qed.
Lemma evolve_best_is_f m el mi us0 evs r :
  evolve m el mi us0 evs = Some r -> nth_error (evolve_log us0 evs) (r_id r) = Some (r_obj r).
Proof. intros H. exact (proj1 (evolve_spec _ _ _ _ _ _ H)). Qed.

(* ---- best_is_min in the user's own words: minimising, nothing evaluated is smaller; maximising,
   nothing evaluated is larger *)
Lemma spec_user_words m us r :
  BestSpec m us r ->
  (m = true -> forall u, In u us -> r_obj r <= u) /\ (m = false -> forall u, In u us -> u <= r_obj r).
Proof.
  intros H. split; intros ->; [apply BestSpec_minimize | apply BestSpec_maximize]; exact H.
Qed.

(* ---- the start point is among the logged values (so "at least as good as the start") *)
Lemma anneal_start_logged u0 evs : In u0 (anneal_log u0 evs).
Proof. left. reflexivity. Qed.
Lemma lns_start_logged u0 evs : In u0 (lns_log u0 evs).
Proof. left. reflexivity. Qed.
Lemma tabu_start_logged u0 evs : In u0 (tabu_log u0 evs).
Proof. left. reflexivity. Qed.
Lemma evolve_start_logged us0 evs u : In u us0 -> In u (evolve_log us0 evs).
Proof. intros H. apply in_or_app. left. exact H. Qed.

(* ---- transfer: a kernel-checked correspondence case means the IMPLEMENTATION's observable on that
   run satisfies the specification w.r.t. the log the harness recorded *)
Lemma zlist_eqb_eq a b : zlist_eqb a b = true -> a = b.
Proof.
  unfold zlist_eqb. revert b. induction a as [|x a IH]; intros [|y b] H; simpl in H; try discriminate.
  - reflexivity.
  - apply andb_true_iff in H. destruct H as [H1 H2]. apply Z.eqb_eq in H1. subst y.
    rewrite (IH b H2). reflexivity.
Qed.

Lemma matches_transfer m us ci r o :
  BestSpec m us r -> obs_matches ci (Some r) o = true -> ObsSpec m us o.
Proof.
  intros [H1 [H2 H3]] H. simpl in H.
  apply andb_true_iff in H. destruct H as [H _].
  apply andb_true_iff in H. destruct H as [H He].
  apply andb_true_iff in H. destruct H as [Hi Ho].
  apply Z.eqb_eq in Ho. apply Nat.eqb_eq in He.
  apply existsb_exists in Hi. destruct Hi as [i [Hi Hie]]. apply Nat.eqb_eq in Hie. subst i.
  split; [|split].
  - exists (r_id r). split; [exact Hi|]. rewrite <- Ho. exact H1.
  - rewrite <- Ho. exact H2.
  - rewrite <- He. exact H3.
Qed.

Lemma anneal_corr_transfer m mi u0 evs us o :
  anneal_corr (ACase m mi u0 evs us o) = true -> ObsSpec m us o.
Proof.
  simpl. intros H. apply andb_true_iff in H. destruct H as [H1 H2]. apply zlist_eqb_eq in H2. subst us.
  destruct (anneal m mi u0 evs) as [r|] eqn:Hr; [|discriminate].
  exact (matches_transfer _ _ _ _ _ (anneal_spec _ _ _ _ _ Hr) H1).
Qed.

Lemma lns_corr_transfer m mi mni u0 evs us o :
  lns_corr (LCase 0 m mi mni u0 evs us o) = true -> ObsSpec m us o.
Proof.
  simpl. intros H. apply andb_true_iff in H. destruct H as [H1 H2]. apply zlist_eqb_eq in H2. subst us.
  destruct (lns m mi mni u0 evs) as [r|] eqn:Hr; [|discriminate].
  exact (matches_transfer _ _ _ _ _ (lns_spec _ _ _ _ _ _ Hr) H1).
Qed.

Lemma alns_corr_transfer m mi mni u0 evs us o :
  lns_corr (LCase 1 m mi mni u0 evs us o) = true -> ObsSpec m us o.
Proof.
  simpl. intros H. apply andb_true_iff in H. destruct H as [H1 H2]. apply zlist_eqb_eq in H2. subst us.
  destruct (alns m mi mni u0 evs) as [r|] eqn:Hr; [|discriminate].
  exact (matches_transfer _ _ _ _ _ (alns_spec _ _ _ _ _ _ Hr) H1).
Qed.

Lemma tabu_corr_transfer m cd mi mni u0 evs us o :
  tabu_corr (TCase m cd mi mni u0 evs us o) = true -> ObsSpec m us o.
Proof.
  simpl. intros H. apply andb_true_iff in H. destruct H as [H1 H2]. apply zlist_eqb_eq in H2. subst us.
  destruct (tabu m cd mi mni u0 evs) as [r|] eqn:Hr; [|discriminate].
  exact (matches_transfer _ _ _ _ _ (tabu_spec _ _ _ _ _ _ _ Hr) H1).
Qed.

Lemma evolve_corr_transfer m el mi us0 evs us o :
  evolve_corr (GCase m el mi us0 evs us o) = true -> ObsSpec m us o.
Proof.
  simpl. intros H. apply andb_true_iff in H. destruct H as [H1 H2]. apply zlist_eqb_eq in H2. subst us.
  destruct (evolve m el mi us0 evs) as [r|] eqn:Hr; [|discriminate].
  exact (matches_transfer _ _ _ _ _ (evolve_spec _ _ _ _ _ _ Hr) H1).
Qed.
