(* Model of solvor/anneal.py: anneal() (lines 88-144).  Definitions only.

   Inputs of the machine: minimize flag, max_iter, u0 = f(initial) (user sign) and one event per
   loop iteration the run entered:
     ACold              - `temperature < min_temp` was true: break (no evaluation)
     AEval u acc stop   - u = f(neighbor) (user sign); acc = outcome of
                          `rng.random() < exp(-delta / temperature)` (only consulted when delta >= 0,
                          as in the short-circuit `or`); stop = `report_progress(...)` returned True.
   Float arithmetic (cooling schedule, exp) stays outside: only its DECISIONS enter, as recorded bits.
   Identity of a point = its evaluation index (initial = 0). *)
From Coq Require Import List ZArith Bool Arith.
From SV Require Import C19.Common.
Import ListNotations.
Open Scope Z_scope.

Inductive aevent := ACold | AEval (u : Z) (acc stop : bool).

Record ast := mkA { a_cur : nat; a_cur_obj : Z; a_best : nat; a_best_obj : Z; a_evals : nat }.

(* solution, obj = initial, evaluate(initial); best_solution, best_obj = solution, obj *)
Definition a_init (m : bool) (u0 : Z) : ast :=
  let x := ev_call m u0 in mkA 0 x 0 x 1.

Definition a_step (m : bool) (it : nat) (s : ast) (e : aevent) : ast * bool :=
  match e with
  | ACold => (s, true)                                   (* if temperature < min_temp: break *)
  | AEval u acc stop =>
      let x := ev_call m u in                            (* neighbor_obj = evaluate(neighbor) *)
      let id := a_evals s in
      let delta := x - a_cur_obj s in
      let s1 :=
        if (delta <? 0) || acc then                      (* delta < 0 or rng.random() < exp(..) *)
          if x <? a_best_obj s                           (* if obj < best_obj *)
          then mkA id x id x (S (a_evals s))
          else mkA id x (a_best s) (a_best_obj s) (S (a_evals s))
        else mkA (a_cur s) (a_cur_obj s) (a_best s) (a_best_obj s) (S (a_evals s)) in
      (s1, stop)                                         (* if report_progress(...): return *)
  end.

Definition a_result (m : bool) (s : ast) (it : nat) : result :=
  {| r_id := a_best s; r_obj := to_user m (a_best_obj s); r_evals := a_evals s; r_iters := it |}.

(* max_iter = 0 (with `iteration = 0` bound before the `for`): the start point, 0 iterations *)
Definition anneal (m : bool) (max_iter : nat) (u0 : Z) (evs : list aevent) : option result :=
  match loop (a_step m) max_iter 1 (a_init m u0) evs with
  | None => None
  | Some (s, it) => Some (a_result m s it)
  end.

Definition a_vals (e : aevent) : list Z := match e with ACold => [] | AEval u _ _ => [u] end.
(* the objective values the run consumed, in call order (= the evaluator's log) *)
Definition anneal_log (u0 : Z) (evs : list aevent) : list Z := u0 :: flat_map a_vals evs.

Definition a_neg (e : aevent) : aevent :=
  match e with ACold => ACold | AEval u acc stop => AEval (- u) acc stop end.
