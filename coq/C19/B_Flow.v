(* C19 part B - VALUE-FLOW models of solvor/powell.py: powell() and solvor/bfgs.py: bfgs(), lbfgs()
   (objective_fn given).  Definitions only.  These solvers do not use the Evaluator; the stream holds the raw
   user values of the objective calls in call order (est0 user_values), identity = index of the call.
   The property for them is only: the reported objective is the objective of exactly the returned point.

   ABSTRACTED (stated in the harness notes):
   * powell: a line search (_line_search = _bracket_minimum + _golden_section_search, or the degenerate
     branch) is an oracle that says how many objective calls it made (K >= 1); in the code its result
     (x_new, sign*f_opt) is the point and value of its LAST call (f_min = f(x_min) resp. objective_fn(x)),
     which is what the model tracks.  [conv it] = the float test abs(f_start-f_x) < tol*(1+abs(f_x)),
     [moved it] = disp_norm > 1e-12.
   * bfgs / lbfgs: [conv it] = grad_norm < tol, [bt it] = number of trial points of
     _backtracking_line_search (1..30, decided by the float Armijo test); the line search returns only
     alpha, the objective reported is a FRESH call objective_fn(x) on the current x, so the returned point's
     identity is the last objective call.  `evals` is the code's own counter (gradient calls included). *)
From Coq Require Import List ZArith Bool Arith Lia.
From SV Require Import C19.B_Common.
Import ListNotations.
Open Scope Z_scope.

(* k >= 1 objective calls, keep the last one *)
Definition calls_last (k : nat) (st : est) : option (ent * est) :=
  match eval_n k st with
  | None => None
  | Some (es, st') =>
    match es with
    | [] => None
    | e :: r => Some (last r e, st')
    end
  end.

(* ---------------- powell ---------------- *)
(* for i in range(n): x, f_x, ls_evals = _line_search(...); evals += ls_evals
   j = ordinal of the next line search (argument of the oracle [lens]) *)
Fixpoint pw_dirs (lens : nat -> nat) (n j : nat) (cur : ent) (ev : nat) (st : est) : option (ent * nat * nat * est) :=
  match n with
  | O => Some (cur, j, ev, st)
  | S n' =>
    match calls_last (lens j) st with
    | None => None
    | Some (c, st') => pw_dirs lens n' (S j) c (ev + lens j)%nat st'
    end
  end.

Definition pw_result (cur : ent) (it ev : nat) (s : status) : result := mkR (eid cur) (eval_ cur) it ev s.

(* for iteration in range(max_iter) *)
Fixpoint pw_loop (max_iter n : nat) (lens : nat -> nat) (conv moved : nat -> bool)
         (cb : option (nat -> bool)) (interval : nat)
         (k it j : nat) (cur : ent) (ev : nat) (st : est) : option (result * est) :=
  match k with
  | O => Some (pw_result cur max_iter ev MAX_ITER, st)
  | S k' =>
    match pw_dirs lens n j cur ev st with
    | None => None
    | Some (c, j1, ev1, st1) =>
      if conv it then Some (pw_result c it ev1 OPTIMAL, st1)          (* Result(x, f_x, iteration, evals) *)
      else
        let extra :=
          if moved it then
            match calls_last (lens j1) st1 with
            | None => None
            | Some (c2, st2) => Some (c2, S j1, (ev1 + lens j1)%nat, st2)
            end
          else Some (c, j1, ev1, st1) in
        match extra with
        | None => None
        | Some (c2, j2, ev2, st2) =>
          if report_progress cb interval (it + 1) then Some (pw_result c2 (it + 1) ev2 FEASIBLE, st2)
          else pw_loop max_iter n lens conv moved cb interval k' (S it) j2 c2 ev2 st2
        end
    end
  end.

Definition powell_run_st (n max_iter : nat) (lens : nat -> nat) (conv moved : nat -> bool)
           (cb : option (nat -> bool)) (interval : nat) (user_values : list Z) : option (result * est) :=
  match eval (est0 user_values) with                                    (* f_x = objective_fn(x); evals += 1 *)
  | None => None
  | Some (c0, st0) => pw_loop max_iter n lens conv moved cb interval max_iter 0 0 c0 1 st0
  end.
Definition powell_run n max_iter lens conv moved cb interval user_values : option result :=
  option_map fst (powell_run_st n max_iter lens conv moved cb interval user_values).

(* ---------------- bfgs / lbfgs ---------------- *)
Definition qn_report (st : est) (it ev : nat) (s : status) : option (result * est) :=
  match eval st with                                                    (* obj = objective_fn(x) *)
  | None => None
  | Some (c, st') => Some (mkR (eid c) (eval_ c) it ev s, st')
  end.

Fixpoint qn_loop (max_iter : nat) (conv : nat -> bool) (bt : nat -> nat)
         (cb : option (nat -> bool)) (interval : nat) (k it ev : nat) (st : est) : option (result * est) :=
  match k with
  | O => qn_report st max_iter ev MAX_ITER
  | S k' =>
    if conv it then qn_report st it ev OPTIMAL
    else if ((bt it =? 0) || (30 <? bt it))%nat then None
    else
      match eval_n (1 + bt it) st with                                  (* f_x, then the trial points *)
      | None => None
      | Some (_, st1) =>
        let ev1 := (ev + (1 + bt it) + 1)%nat in                        (* evals += ls_evals ; grad: evals += 1 *)
        match eval st1 with                                             (* obj = objective_fn(x) (new x) *)
        | None => None
        | Some (c, st2) =>
          if report_progress cb interval (it + 1) then Some (mkR (eid c) (eval_ c) (it + 1) ev1 FEASIBLE, st2)
          else qn_loop max_iter conv bt cb interval k' (S it) ev1 st2
        end
      end
  end.

Definition bfgs_run_st (max_iter : nat) (conv : nat -> bool) (bt : nat -> nat)
           (cb : option (nat -> bool)) (interval : nat) (user_values : list Z) : option (result * est) :=
  qn_loop max_iter conv bt cb interval max_iter 0 1 (est0 user_values).
Definition bfgs_run max_iter conv bt cb interval user_values : option result :=
  option_map fst (bfgs_run_st max_iter conv bt cb interval user_values).

(* lbfgs: same control flow around the objective (the two-loop recursion and the history of size m only
   decide the points) *)
Definition lbfgs_run_st (max_iter : nat) (conv : nat -> bool) (bt : nat -> nat)
           (cb : option (nat -> bool)) (interval : nat) (user_values : list Z) : option (result * est) :=
  qn_loop max_iter conv bt cb interval max_iter 0 1 (est0 user_values).
Definition lbfgs_run max_iter conv bt cb interval user_values : option result :=
  option_map fst (lbfgs_run_st max_iter conv bt cb interval user_values).
