(* C19 part B - VALUE-FLOW model of solvor/bfgs.py: bfgs(), lbfgs() with objective_fn given (powell: B_Powell.v).
   Definitions only.  These solvers do not use the Evaluator; the stream holds the raw user values of the
   objective calls in call order (est0 user_values), identity = index of the call.
   The property for them is only: the reported objective is the objective of exactly the returned point.

   ABSTRACTED (stated in the harness notes):
   * bfgs / lbfgs: [conv it] = grad_norm < tol, [bt it] = number of trial points of
     _backtracking_line_search (1..30, decided by the float Armijo test); the line search returns only
     alpha, the objective reported is a FRESH call objective_fn(x) on the current x, so the returned point's
     identity is the last objective call.  `evals` is the code's own counter (gradient calls included). *)
From Coq Require Import List ZArith Bool Arith Lia.
From SV Require Import C19.B_Common.
Import ListNotations.
Open Scope Z_scope.

(* ---------------- bfgs / lbfgs ---------------- *)
Definition qn_report (st : est) (it ev : nat) (s : status) : option (result * est) :=
  match eval st with                                                    (* obj = objective_fn(x) *)
  | None => None
  | Some (c, st') => Some (mkR (eid c) (eval_ c) it ev s, st')
  end.

Fixpoint qn_loop (max_iter : nat) (conv : nat -> bool) (bt : nat -> nat)
         (cb : option (nat -> bool)) (interval : nat) (k it ev : nat) (st : est) : option (result * est) :=
  match k with
  | O => qn_report st max_iter ev MAX_ITER
  | S k' =>
    if conv it then qn_report st it ev OPTIMAL
    else if ((bt it =? 0) || (30 <? bt it))%nat then None
    else
      match eval_n (1 + bt it) st with                                  (* f_x, then the trial points *)
      | None => None
      | Some (_, st1) =>
        let ev1 := (ev + (1 + bt it) + 1)%nat in                        (* evals += ls_evals ; grad: evals += 1 *)
        match eval st1 with                                             (* obj = objective_fn(x) (new x) *)
        | None => None
        | Some (c, st2) =>
          if report_progress cb interval (it + 1) then Some (mkR (eid c) (eval_ c) (it + 1) ev1 FEASIBLE, st2)
          else qn_loop max_iter conv bt cb interval k' (S it) ev1 st2
        end
      end
  end.

Definition bfgs_run_st (max_iter : nat) (conv : nat -> bool) (bt : nat -> nat)
           (cb : option (nat -> bool)) (interval : nat) (user_values : list Z) : option (result * est) :=
  qn_loop max_iter conv bt cb interval max_iter 0 1 (est0 user_values).
Definition bfgs_run max_iter conv bt cb interval user_values : option result :=
  option_map fst (bfgs_run_st max_iter conv bt cb interval user_values).

(* lbfgs: same control flow around the objective (the two-loop recursion and the history of size m only
   decide the points) *)
Definition lbfgs_run_st (max_iter : nat) (conv : nat -> bool) (bt : nat -> nat)
           (cb : option (nat -> bool)) (interval : nat) (user_values : list Z) : option (result * est) :=
  qn_loop max_iter conv bt cb interval max_iter 0 1 (est0 user_values).
Definition lbfgs_run max_iter conv bt cb interval user_values : option result :=
  option_map fst (lbfgs_run_st max_iter conv bt cb interval user_values).
