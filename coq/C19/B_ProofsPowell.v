(* C19 part B - proofs about the powell value-flow machine (B_Powell.v): the reported objective is the value of
   exactly the objective call whose point is returned. *)
From Coq Require Import List ZArith Bool Arith Lia.
From SV Require Import C19.B_Common C19.B_Powell C19.B_ProofsCommon.
Import ListNotations.
Open Scope Z_scope.


Section Powell.
Variable us : list Z.
Variable sign : Z.
Hypothesis Hsign : sign = 1 \/ sign = -1.

Lemma bracket_loop_wf fuel : forall ev fb fc st k st',
  wf us st -> bracket_loop fuel sign ev fb fc st = Some (k, st') -> wf us st' /\ (evals st <= evals st')%nat.
Proof.
  induction fuel as [|fuel IH]; intros ev fb fc st k st' W H; cbn [bracket_loop] in H; [discriminate|].
  destruct ((fc <? fb) && (ev <? 50)%nat).
  - destruct (eval st) as [[c st1]|] eqn:E; [|discriminate].
    destruct (eval_spec us _ _ _ W E) as (W1 & A2 & _).
    destruct (IH _ _ _ _ _ _ W1 H) as (W2 & B2). split; [exact W2 | lia].
  - inversion H; subst. split; [exact W | lia].
Qed.

Lemma bracket_wf st k st' : wf us st -> bracket sign st = Some (k, st') -> wf us st' /\ (evals st <= evals st')%nat.
Proof.
  intros W H. unfold bracket in H.
  destruct (eval st) as [[a st1]|] eqn:E1; [|discriminate].
  destruct (eval_spec us _ _ _ W E1) as (W1 & A1 & _).
  destruct (eval st1) as [[b st2]|] eqn:E2; [|discriminate].
  destruct (eval_spec us _ _ _ W1 E2) as (W2 & A2 & _).
  destruct (eval st2) as [[c st3]|] eqn:E3; [|discriminate].
  destruct (eval_spec us _ _ _ W2 E3) as (W3 & A3 & _).
  destruct (bracket_loop_wf _ _ _ _ _ _ _ W3 H) as (W4 & A4). split; [exact W4 | lia].
Qed.

Lemma golden_loop_wf m : forall fb fd st st',
  wf us st -> golden_loop m sign fb fd st = Some st' -> wf us st' /\ (evals st <= evals st')%nat.
Proof.
  induction m as [|m IH]; intros fb fd st st' W H; cbn [golden_loop] in H.
  - inversion H; subst. split; [exact W | lia].
  - destruct (eval st) as [[x st1]|] eqn:E; [|discriminate].
    destruct (eval_spec us _ _ _ W E) as (W1 & A1 & _).
    destruct (fb <? fd); destruct (IH _ _ _ _ W1 H) as (W2 & A2); (split; [exact W2 | lia]).
Qed.

(* the golden-section search hands back its LAST call: identity + internal value sign * f *)
Lemma golden_spec m st e k st' :
  wf us st -> golden sign m st = Some (e, k, st') ->
  wf us st' /\ (evals st <= evals st')%nat /\ (eid e < evals st')%nat /\
  exists v, nth_error us (eid e) = Some v /\ eval_ e = sign * v.
Proof.
  intros W H. unfold golden in H. destruct (100 <? m)%nat; [discriminate|].
  destruct (eval st) as [[b st1]|] eqn:E1; [|discriminate].
  destruct (eval_spec us _ _ _ W E1) as (W1 & A1 & _).
  destruct (eval st1) as [[d st2]|] eqn:E2; [|discriminate].
  destruct (eval_spec us _ _ _ W1 E2) as (W2 & A2 & _).
  destruct (golden_loop m sign _ _ st2) as [st3|] eqn:E3; [|discriminate].
  destruct (golden_loop_wf _ _ _ _ _ W2 E3) as (W3 & A3).
  destruct (eval st3) as [[x st4]|] eqn:E4; [|discriminate].
  destruct (eval_spec us _ _ _ W3 E4) as (W4 & A4 & A5 & A6).
  inversion H; subst; clear H. cbn [eid eval_ fst snd].
  split; [exact W4|]. split; [lia|]. split; [rewrite A5; lia|].
  exists (eval_ x). split; [rewrite A5; exact A6 | reflexivity].
Qed.

(* a line search hands back an evaluated point together with its USER value *)
Lemma line_search_spec o st e k st' :
  wf us st -> line_search sign o st = Some (e, k, st') ->
  wf us st' /\ (evals st <= evals st')%nat /\ good us (evals st') e.
Proof.
  intros W H. unfold line_search in H. destruct (fst o).
  - destruct (eval st) as [[x st1]|] eqn:E; [|discriminate]. inversion H; subst; clear H.
    destruct (eval_spec us _ _ _ W E) as (W1 & A1 & _).
    split; [exact W1|]. split; [lia | exact (eval_good us _ _ _ W E)].
  - destruct (bracket sign st) as [[bk st1]|] eqn:E1; [|discriminate].
    destruct (bracket_wf _ _ _ W E1) as (W1 & A1).
    destruct (golden sign (snd o) st1) as [[[xm sk] st2]|] eqn:E2; [|discriminate].
    destruct (golden_spec _ _ _ _ _ W1 E2) as (W2 & A2 & A3 & v & Hv & Hx).
    inversion H; subst; clear H.
    split; [exact W2|]. split; [lia|]. split; cbn [eid eval_ fst snd]; [exact A3|].
    rewrite Hv. f_equal. rewrite Hx. destruct Hsign as [->| ->]; lia.
Qed.

Lemma good_flow_ok cur it ev s st :
  wf us st -> good us (evals st) cur -> flow_ok us (pw_result cur it ev s) st.
Proof.
  intros W [G1 G2]. unfold flow_ok, pw_result; cbn [r_sol r_obj].
  split; [exact G1|]. split; [exact G2 | apply wf_length; exact W].
Qed.

Lemma pw_dirs_inv ls n : forall j cur ev st c j' ev' st',
  wf us st -> good us (evals st) cur ->
  pw_dirs sign ls n j cur ev st = Some (c, j', ev', st') ->
  wf us st' /\ good us (evals st') c.
Proof.
  induction n as [|n IH]; intros j cur ev st c j' ev' st' W G H; cbn [pw_dirs] in H.
  - inversion H; subst. split; assumption.
  - destruct (line_search sign (ls j) st) as [[[c1 k1] st1]|] eqn:E; [|discriminate].
    destruct (line_search_spec _ _ _ _ _ W E) as (W1 & _ & G1).
    eapply IH; eauto.
Qed.

Lemma pw_loop_ok max_iter n ls conv moved cb interval k : forall it j cur ev st r st',
  wf us st -> good us (evals st) cur ->
  pw_loop sign max_iter n ls conv moved cb interval k it j cur ev st = Some (r, st') ->
  flow_ok us r st'.
Proof.
  induction k as [|k IH]; intros it j cur ev st r st' W G H; cbn [pw_loop] in H.
  - inversion H; subst. apply good_flow_ok; assumption.
  - destruct (pw_dirs sign ls n j cur ev st) as [[[[c j1] ev1] st1]|] eqn:E; [|discriminate].
    destruct (pw_dirs_inv _ _ _ _ _ _ _ _ _ _ W G E) as (W1 & G1).
    destruct (conv it).
    + inversion H; subst. apply good_flow_ok; assumption.
    + destruct (moved it).
      * destruct (line_search sign (ls j1) st1) as [[[c2 k2] st2]|] eqn:E2; [|discriminate].
        destruct (line_search_spec _ _ _ _ _ W1 E2) as (W2 & _ & G2).
        destruct (report_progress cb interval (it + 1)).
        -- inversion H; subst. apply good_flow_ok; assumption.
        -- eapply IH; eauto.
      * destruct (report_progress cb interval (it + 1)).
        -- inversion H; subst. apply good_flow_ok; assumption.
        -- eapply IH; eauto.
Qed.

End Powell.

Theorem powell_run_ok minimize n max_iter ls conv moved cb interval us r st :
  powell_run_st minimize n max_iter ls conv moved cb interval us = Some (r, st) -> flow_ok us r st.
Proof.
  unfold powell_run_st. destruct (eval (est0 us)) as [[c0 st0]|] eqn:E; [|discriminate].
  intros H.
  destruct (eval_spec us _ _ _ (wf_est0 us) E) as (W & _).
  eapply (pw_loop_ok us (ev_sign minimize) (sign_cases minimize)); [exact W | | exact H].
  exact (eval_good us _ _ _ (wf_est0 us) E).
Qed.
