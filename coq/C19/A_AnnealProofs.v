(* Proofs about the anneal machine (A_Anneal.v): for EVERY value stream and EVERY oracle stream. *)
From Coq Require Import List ZArith Bool Arith Lia.
From SV Require Import C19.Common C19.A_Anneal.
Import ListNotations.
Open Scope Z_scope.

(* shared list fact: the internal log is the image of the user log *)
Lemma map_flat_map {A} (f : Z -> Z) (g : A -> list Z) (l : list A) :
  map f (flat_map g l) = flat_map (fun e => map f (g e)) l.
Proof. induction l as [|e l IH]; simpl; [reflexivity|]. rewrite map_app, IH. reflexivity. Qed.

(* invariant over the INTERNAL values consumed so far *)
Definition a_inv (seen : list Z) (s : ast) : Prop :=
  Holds seen (a_cur s) (a_cur_obj s)
  /\ IsBest seen (a_best s) (a_best_obj s)
  /\ a_evals s = length seen.

Lemma a_inv_init m u0 : a_inv [ev_call m u0] (a_init m u0).
Proof.
  unfold a_inv, a_init; simpl. split; [reflexivity|]. split; [apply IsBest_single | reflexivity].
Qed.

Lemma IsBest_le_Holds seen b o id x : IsBest seen b o -> Holds seen id x -> o <= x.
Proof.
  intros [_ H] Hh. rewrite Forall_forall in H. apply H. eapply nth_error_In. exact Hh.
Qed.

Lemma a_step_inv m it s e seen :
  a_inv seen s -> a_inv (seen ++ map (ev_call m) (a_vals e)) (fst (a_step m it s e)).
Proof.
  intros [Hc [Hb He]]. destruct e as [|u acc stop]; simpl.
  - rewrite app_nil_r. split; [exact Hc|]. split; [exact Hb | exact He].
  - set (x := ev_call m u).
    assert (Hlen : length (seen ++ [x]) = S (length seen)) by (rewrite app_length; simpl; lia).
    pose proof (IsBest_le_Holds _ _ _ _ _ Hb Hc) as Hbc.
    destruct ((x - a_cur_obj s <? 0) || acc) eqn:Hacc.
    + destruct (x <? a_best_obj s) eqn:Hlt; unfold a_inv; simpl; rewrite He.
      * apply Z.ltb_lt in Hlt. split; [apply Holds_new|]. split; [|lia].
        eapply IsBest_new; [exact Hb | lia].
      * apply Z.ltb_ge in Hlt. split; [apply Holds_new|]. split; [|lia].
        apply IsBest_keep; [exact Hb | lia].
    + (* rejected: not (delta < 0), so best <= cur <= x and best stays minimal *)
      apply orb_false_iff in Hacc. destruct Hacc as [Hd _]. apply Z.ltb_ge in Hd.
      unfold a_inv; simpl. split; [apply Holds_app; exact Hc|]. split; [|lia].
      apply IsBest_keep; [exact Hb | lia].
Qed.

(* ---- the three bookkeeping clauses at once *)
Lemma anneal_spec m mi u0 evs r :
  anneal m mi u0 evs = Some r -> BestSpec m (anneal_log u0 evs) r.
Proof.
  unfold anneal. intros H.
  destruct (loop (a_step m) mi 1 (a_init m u0) evs) as [[s it]|] eqn:HL; [|discriminate].
  injection H as <-.
  pose proof (loop_inv (a_step m) (fun e => map (ev_call m) (a_vals e)) a_inv
                (fun it s e seen => a_step_inv m it s e seen)
                mi 1%nat (a_init m u0) evs [ev_call m u0] s it (a_inv_init m u0) HL) as [_ [Hb He]].
  assert (Hseen : [ev_call m u0] ++ flat_map (fun e => map (ev_call m) (a_vals e)) evs
                  = map (ev_call m) (anneal_log u0 evs)).
  { unfold anneal_log. simpl. rewrite map_flat_map. reflexivity. }
  rewrite Hseen in Hb, He. unfold a_result.
  apply IsBest_BestSpec; [exact Hb|]. rewrite He, map_length. reflexivity.
Qed.

Lemma anneal_best_is_f m mi u0 evs r :
  anneal m mi u0 evs = Some r -> nth_error (anneal_log u0 evs) (r_id r) = Some (r_obj r).
Proof. intros H. apply anneal_spec in H. exact (proj1 H). Qed.

Lemma anneal_best_is_min m mi u0 evs r :
  anneal m mi u0 evs = Some r -> Forall (better_eq m (r_obj r)) (anneal_log u0 evs).
Proof. intros H. apply anneal_spec in H. exact (proj1 (proj2 H)). Qed.

Lemma anneal_evals_count m mi u0 evs r :
  anneal m mi u0 evs = Some r -> r_evals r = length (anneal_log u0 evs).
Proof. intros H. apply anneal_spec in H. exact (proj2 (proj2 H)). Qed.

Lemma anneal_iters_le m mi u0 evs r :
  anneal m mi u0 evs = Some r -> (r_iters r <= mi)%nat.
Proof.
  unfold anneal. intros H.
  destruct (loop (a_step m) mi 1 (a_init m u0) evs) as [[s it]|] eqn:HL; [|discriminate].
  injection H as <-. apply loop_iters in HL. simpl in *. lia.
Qed.

(* ---- mirror: maximize on the stream u  =  minimize on the stream -u, objective negated *)
Lemma a_step_mirror it s e : a_step false it s e = a_step true it s (a_neg e).
Proof. destruct e as [|u acc stop]; simpl; [reflexivity|]. rewrite ev_call_mirror. reflexivity. Qed.

Lemma anneal_mirror mi u0 evs :
  anneal false mi u0 evs = option_map neg_result (anneal true mi (- u0) (map a_neg evs)).
Proof.
  unfold anneal.
  rewrite (loop_map (a_step false) (a_step true) a_neg a_step_mirror).
  assert (Hi : a_init false u0 = a_init true (- u0)) by (unfold a_init; rewrite ev_call_mirror; reflexivity).
  rewrite Hi.
  destruct (loop (a_step true) mi 1 (a_init true (- u0)) (map a_neg evs)) as [[s it]|]; simpl; [|reflexivity].
  unfold a_result, neg_result; simpl. rewrite to_user_mirror. reflexivity.
Qed.

(* ---- the run is a function of (values, oracle bits): nothing else enters *)
Lemma anneal_deterministic m mi u0 evs r1 r2 :
  anneal m mi u0 evs = Some r1 -> anneal m mi u0 evs = Some r2 -> r1 = r2.
Proof. intros H1 H2. rewrite H1 in H2. injection H2 as <-. reflexivity. Qed.

(* non-vacuity: a run in which an uphill move is accepted after the best point was seen *)
Example anneal_example :
  anneal true 4 5 [AEval 3 false false; AEval 7 true false; AEval 3 false false; AEval 9 false true]
  = Some {| r_id := 1; r_obj := 3; r_evals := 5; r_iters := 4 |}.
Proof. vm_compute. reflexivity. Qed.
