(* Proofs about the tabu_search machine (A_Tabu.v): for every candidate/value stream, every move
   numbering, every stop oracle. *)
From Coq Require Import List ZArith Bool Arith Lia.
From SV Require Import C19.Common C19.A_Tabu C19.A_AnnealProofs.
Import ListNotations.
Open Scope Z_scope.

Definition t_inv (seen : list Z) (s : tst) : Prop :=
  Holds seen (t_cur s) (t_cur_obj s)
  /\ IsBest seen (t_best s) (t_best_obj s)
  /\ t_evals s = length seen.

Lemma t_inv_init m u0 : t_inv [ev_call m u0] (t_init m u0).
Proof.
  unfold t_inv, t_init; simpl. split; [reflexivity|]. split; [apply IsBest_single | reflexivity].
Qed.

Lemma IsBest_app seen more b o : IsBest seen b o -> Forall (Z.le o) more -> IsBest (seen ++ more) b o.
Proof.
  intros [H1 H2] Hm. split; [apply Holds_app; exact H1|]. apply Forall_app. split; assumption.
Qed.

(* the best admissible neighbour so far holds an evaluated point *)
Definition bn_holds (seen : list Z) (bn : option (Z * nat * nat)) : Prop :=
  match bn with None => True | Some (bx, bid, _) => Holds seen bid bx end.

(* every scanned value is either not better than best_obj (skipped as tabu) or not better than bn *)
Definition Covered (bobj : Z) (bn : option (Z * nat * nat)) (v : Z) : Prop :=
  bobj <= v \/ match bn with None => False | Some (bx, _, _) => bx <= v end.

Lemma t_scan_inv m bobj tset : forall cands seen id bn bn' id',
  id = length seen -> bn_holds seen bn ->
  t_scan m bobj tset cands id bn = (bn', id') ->
  id' = length (seen ++ map (ev_call m) (map snd cands))
  /\ bn_holds (seen ++ map (ev_call m) (map snd cands)) bn'
  /\ (forall v, Covered bobj bn v -> Covered bobj bn' v)
  /\ Forall (Covered bobj bn') (map (ev_call m) (map snd cands)).
Proof.
  induction cands as [|[mv u] rest IH]; intros seen id bn bn' id' Hid Hbn Hs; simpl in Hs.
  - injection Hs as <- <-. simpl. rewrite app_nil_r. repeat split; auto.
  - set (x := ev_call m u) in *.
    set (bn1 := if memb mv tset && (bobj <=? x) then bn
                else match bn with
                     | None => Some (x, id, mv)
                     | Some (bx, _, _) => if x <? bx then Some (x, id, mv) else bn
                     end) in *.
    assert (Hh1 : bn_holds (seen ++ [x]) bn1).
    { assert (Hold : bn_holds (seen ++ [x]) bn).
      { destruct bn as [[[bx bid] bm]|]; simpl in *; [apply Holds_app; exact Hbn | exact I]. }
      assert (Hnew : bn_holds (seen ++ [x]) (Some (x, id, mv))).
      { simpl. rewrite Hid. apply Holds_new. }
      unfold bn1. destruct (memb mv tset && (bobj <=? x)); [exact Hold|].
      destruct bn as [[[bx bid] bm]|]; [|exact Hnew]. destruct (x <? bx); [exact Hnew | exact Hold]. }
    assert (Hmono1 : forall v, Covered bobj bn v -> Covered bobj bn1 v).
    { intros v Hv. unfold bn1. destruct (memb mv tset && (bobj <=? x)); [exact Hv|].
      destruct bn as [[[bx bid] bm]|].
      - destruct (x <? bx) eqn:Hlt; [|exact Hv]. apply Z.ltb_lt in Hlt.
        destruct Hv as [Hv|Hv]; [left; exact Hv | right; simpl in *; lia].
      - destruct Hv as [Hv|Hv]; [left; exact Hv | contradiction]. }
    assert (Hx : Covered bobj bn1 x).
    { unfold bn1. destruct (memb mv tset && (bobj <=? x)) eqn:Hsk.
      - apply andb_true_iff in Hsk. destruct Hsk as [_ Hle]. apply Z.leb_le in Hle. left. exact Hle.
      - destruct bn as [[[bx bid] bm]|]; [|right; simpl; lia].
        destruct (x <? bx) eqn:Hlt; right; simpl; [lia|]. apply Z.ltb_ge in Hlt. exact Hlt. }
    assert (Hid1 : S id = length (seen ++ [x])) by (rewrite app_length; simpl; lia).
    destruct (IH (seen ++ [x]) (S id) bn1 bn' id' Hid1 Hh1 Hs) as [Ha [Hb [Hc Hd]]].
    simpl. fold x. rewrite <- app_assoc in Ha, Hb. simpl in Ha, Hb.
    split; [exact Ha|]. split; [exact Hb|]. split.
    + intros v Hv. apply Hc. apply Hmono1. exact Hv.
    + constructor; [apply Hc; exact Hx | exact Hd].
Qed.

Lemma t_step_inv m cd mni it s e seen :
  t_inv seen s -> t_inv (seen ++ map (ev_call m) (t_vals e)) (fst (t_step m cd mni it s e)).
Proof.
  intros [Hc [Hb He]]. unfold t_step, t_vals.
  destruct (t_cands e) as [|c0 cs] eqn:Hcands.
  - simpl. rewrite app_nil_r. split; [exact Hc|]. split; [exact Hb | exact He].
  - destruct (t_scan m (t_best_obj s) (t_set s) (c0 :: cs) (t_evals s) None) as [bn ev'] eqn:Hs.
    destruct (t_scan_inv m (t_best_obj s) (t_set s) (c0 :: cs) seen (t_evals s) None bn ev' He I Hs)
      as [Hev [Hbn [_ Hcov]]].
    set (more := map (ev_call m) (map snd (c0 :: cs))) in *.
    destruct bn as [[[x id] mv]|].
    + (* a neighbour was chosen *)
      simpl in Hbn.
      destruct (x <? t_best_obj s) eqn:Hlt; unfold t_inv; simpl.
      * apply Z.ltb_lt in Hlt. split; [exact Hbn|]. split; [|exact Hev].
        split; [exact Hbn|]. apply Forall_app. split.
        -- apply Forall_le_trans with (b := t_best_obj s); [lia | exact (proj2 Hb)].
        -- eapply Forall_impl; [|exact Hcov]. intros v [Hv|Hv]; simpl in *; lia.
      * apply Z.ltb_ge in Hlt. split; [exact Hbn|]. split; [|exact Hev].
        apply IsBest_app; [exact Hb|].
        eapply Forall_impl; [|exact Hcov]. intros v [Hv|Hv]; simpl in *; lia.
    + (* every candidate was tabu and not better than best *)
      unfold t_inv; simpl. split; [apply Holds_app; exact Hc|]. split; [|exact Hev].
      apply IsBest_app; [exact Hb|].
      eapply Forall_impl; [|exact Hcov]. intros v [Hv|Hv]; simpl in *; [lia | contradiction].
Qed.

Lemma tabu_log_internal m u0 evs :
  [ev_call m u0] ++ flat_map (fun e => map (ev_call m) (t_vals e)) evs = map (ev_call m) (tabu_log u0 evs).
Proof. unfold tabu_log. simpl. rewrite map_flat_map. reflexivity. Qed.

Lemma tabu_spec m cd mi mni u0 evs r :
  tabu m cd mi mni u0 evs = Some r -> BestSpec m (tabu_log u0 evs) r.
Proof.
  unfold tabu. intros H. destruct (Nat.eqb cd 0); [discriminate|].
  destruct (loop (t_step m cd mni) mi 1 (t_init m u0) evs) as [[s it]|] eqn:HL; [|discriminate].
  injection H as <-.
  pose proof (loop_inv (t_step m cd mni) (fun e => map (ev_call m) (t_vals e)) t_inv
                (fun it s e seen => t_step_inv m cd mni it s e seen)
                mi 1%nat (t_init m u0) evs [ev_call m u0] s it (t_inv_init m u0) HL) as [_ [Hb He]].
  rewrite tabu_log_internal in Hb, He. unfold t_result.
  apply IsBest_BestSpec; [exact Hb|]. rewrite He, map_length. reflexivity.
Qed.

Lemma tabu_best_is_min m cd mi mni u0 evs r :
  tabu m cd mi mni u0 evs = Some r -> Forall (better_eq m (r_obj r)) (tabu_log u0 evs).
Proof. intros H. apply tabu_spec in H. exact (proj1 (proj2 H)). Qed.

Lemma tabu_evals_count m cd mi mni u0 evs r :
  tabu m cd mi mni u0 evs = Some r -> r_evals r = length (tabu_log u0 evs).
Proof. intros H. apply tabu_spec in H. exact (proj2 (proj2 H)). Qed.

(* ---- mirror *)
Definition c_neg (c : nat * Z) : nat * Z := (fst c, - snd c).

Lemma t_scan_mirror bobj tset : forall cands id bn,
  t_scan false bobj tset cands id bn = t_scan true bobj tset (map c_neg cands) id bn.
Proof.
  induction cands as [|[mv u] rest IH]; intros id bn; simpl; [reflexivity|].
  rewrite ev_call_mirror. apply IH.
Qed.

Lemma t_step_mirror cd mni it s e : t_step false cd mni it s e = t_step true cd mni it s (t_neg e).
Proof.
  unfold t_step, t_neg. simpl. fold c_neg.
  destruct (t_cands e) as [|c0 cs]; [reflexivity|].
  rewrite t_scan_mirror. reflexivity.
Qed.

Lemma tabu_mirror cd mi mni u0 evs :
  tabu false cd mi mni u0 evs = option_map neg_result (tabu true cd mi mni (- u0) (map t_neg evs)).
Proof.
  unfold tabu. destruct (Nat.eqb cd 0); [reflexivity|].
  rewrite (loop_map (t_step false cd mni) (t_step true cd mni) t_neg (t_step_mirror cd mni)).
  assert (Hi : t_init false u0 = t_init true (- u0)) by (unfold t_init; rewrite ev_call_mirror; reflexivity).
  rewrite Hi.
  destruct (loop (t_step true cd mni) mi 1 (t_init true (- u0)) (map t_neg evs)) as [[s it]|]; simpl; [|reflexivity].
  unfold t_result, neg_result; simpl. rewrite to_user_mirror. reflexivity.
Qed.

Lemma tabu_deterministic m cd mi mni u0 evs r1 r2 :
  tabu m cd mi mni u0 evs = Some r1 -> tabu m cd mi mni u0 evs = Some r2 -> r1 = r2.
Proof. intros H1 H2. rewrite H1 in H2. injection H2 as <-. reflexivity. Qed.

(* non-vacuity: a forced uphill move (only non-tabu neighbour is worse), aspiration on a tabu move,
   then every candidate tabu and not better: break *)
Example tabu_example :
  tabu true 2 10 100 5
    [mkT [(0%nat, 3); (1%nat, 4)] false;      (* move 0 taken: 3 is the new best *)
     mkT [(0%nat, 6); (1%nat, 7)] false;      (* 0 is tabu and 6 >= 3: skipped; uphill to 7 *)
     mkT [(0%nat, 2); (1%nat, 9)] false;      (* both tabu; 2 < 3 passes by aspiration *)
     mkT [(0%nat, 8); (1%nat, 8)] false]      (* both tabu, neither better: best_neighbor is None *)
  = Some {| r_id := 5; r_obj := 2; r_evals := 9; r_iters := 4 |}.
Proof. vm_compute. reflexivity. Qed.
