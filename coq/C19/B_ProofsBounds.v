(* C19 part B - in_bounds: clipped / uniformly drawn / crossed-over points lie inside the box. *)
From Coq Require Import List QArith Qminmax Lia.
From SV Require Import C19.B_Bounds.
Import ListNotations.
Open Scope Q_scope.

Lemma clip1_in lo hi x : lo <= hi -> lo <= clip1 lo hi x /\ clip1 lo hi x <= hi.
Proof.
  intros H. unfold clip1. split; [apply Q.le_max_l|].
  apply Q.max_lub; [exact H | apply Q.le_min_l].
Qed.

Lemma clip_in_box bounds : forall x,
  valid_bounds bounds -> (length bounds <= length x)%nat -> in_box bounds (clip bounds x).
Proof.
  induction bounds as [|[lo hi] bs IH]; intros x V L; cbn [clip].
  - constructor.
  - destruct x as [|v vs]; [cbn in L; lia|]. inversion V as [|? ? V1 V2]; subst. cbn [fst snd] in V1.
    constructor.
    + unfold in1; cbn [fst snd]. apply clip1_in. exact V1.
    + apply IH; [exact V2 | cbn in L; lia].
Qed.

Lemma mix_in_box bounds : forall mask a b,
  length mask = length bounds -> in_box bounds a -> in_box bounds b -> in_box bounds (mix mask a b).
Proof.
  induction bounds as [|bd bs IH]; intros mask a b L Ha Hb.
  - inversion Ha; subst. destruct mask; cbn; constructor.
  - inversion Ha as [|? x ? xs Hx Hxs]; subst. inversion Hb as [|? y ? ys Hy Hys]; subst.
    destruct mask as [|m ms]; [cbn in L; lia|]. cbn [mix]. constructor.
    + destruct m; assumption.
    + apply IH; [cbn in L; lia | assumption | assumption].
Qed.

Theorem bounded_point_in_box bounds x :
  valid_bounds bounds -> bounded_point bounds x -> in_box bounds x.
Proof.
  intros V H. induction H as [x Hx | x Hl | mask a b Hl Ha IHa Hb IHb].
  - exact Hx.
  - apply clip_in_box; assumption.
  - apply mix_in_box; assumption.
Qed.

Lemma valid_boundsb_sound bounds : valid_boundsb bounds = true -> valid_bounds bounds.
Proof.
  unfold valid_boundsb, valid_bounds. intros H. apply Forall_forall. intros b Hb.
  rewrite forallb_forall in H. apply Qle_bool_iff. exact (H b Hb).
Qed.

Lemma in_boxb_sound bounds : forall x, in_boxb bounds x = true -> in_box bounds x.
Proof.
  induction bounds as [|bd bs IH]; intros x H; unfold in_boxb in H; apply andb_prop in H; destruct H as [H1 H2].
  - destruct x; [constructor | discriminate].
  - destruct x as [|v vs]; [discriminate|]. cbn [combine forallb fst snd] in H2.
    apply andb_prop in H2. destruct H2 as [H2 H3]. apply andb_prop in H2. destruct H2 as [H2a H2b].
    constructor.
    + split; apply Qle_bool_iff; assumption.
    + apply IH. unfold in_boxb. apply andb_true_intro. split; [exact H1 | exact H3].
Qed.
