(* C19 part B - bookkeeping model of solvor/particle_swarm.py: particle_swarm().  Definitions only.
   Roles: particle i's current position (fitness[i]), personal best (p_best[i], p_best_fit[i]), global best.
   Oracle: the points (velocities, clipping, rng) and the on_progress answers. *)
From Coq Require Import List ZArith Bool Arith Lia.
From SV Require Import C19.B_Common.
Import ListNotations.
Open Scope Z_scope.

(* a particle: (current, personal best) *)
Definition particle : Type := (ent * ent)%type.

(* for i in range(n_particles): fitness[i] = evaluate(positions[i]); personal / global best updates *)
Fixpoint pso_sweep (ps : list particle) (best : ent) (st : est) : option (list particle * ent * est) :=
  match ps with
  | [] => Some ([], best, st)
  | (cur, pb) :: r =>
    match eval st with
    | None => None
    | Some (c, st1) =>
      let imp := eval_ c <? eval_ pb in                          (* if fitness[i] < p_best_fit[i] *)
      let pb' := if imp then c else pb in
      let best' := if imp && (eval_ c <? eval_ best) then c else best in   (* if fitness[i] < best_obj *)
      match pso_sweep r best' st1 with
      | None => None
      | Some (r', b, st2) => Some ((c, pb') :: r', b, st2)
      end
    end
  end.

Fixpoint pso_loop (sign : Z) (cb : option (nat -> bool)) (interval : nat)
         (k it : nat) (ps : list particle) (best : ent) (st : est) : option (result * est) :=
  match k with
  | O => Some (mk_result sign best (it - 1) st FEASIBLE, st)
  | S k' =>
    match pso_sweep ps best st with
    | None => None
    | Some (ps', best', st') =>
      if report_progress cb interval it then Some (mk_result sign best' it st' FEASIBLE, st')
      else pso_loop sign cb interval k' (S it) ps' best' st'
    end
  end.

(* None = raises (n_particles = 0: min() of empty range) or stream too short.  max_iter = 0: iteration = 0
   bound before the loop (fix: commit). *)
Definition pso_run_st (minimize : bool) (n_particles max_iter : nat)
           (cb : option (nat -> bool)) (interval : nat) (user_values : list Z) : option (result * est) :=
  let sign := ev_sign minimize in
  match eval_n n_particles (est0 (ev_internal sign user_values)) with
  | None => None
  | Some (fit, st) =>
    match argmin_first fit with
    | None => None
    | Some best =>
      pso_loop sign cb interval max_iter 1 (map (fun e => (e, e)) fit) best st
    end
  end.

Definition pso_run minimize n_particles max_iter cb interval user_values : option result :=
  option_map fst (pso_run_st minimize n_particles max_iter cb interval user_values).
