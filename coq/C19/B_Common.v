(* C19 part B - shared definitions of the bookkeeping machines (DEFINITIONS ONLY, must always compile).

   Shape O (DESIGN.md C19): points are never computed.  Every point handed to the objective gets the
   0-based index of that objective call as its IDENTITY (the harness copies the point at call time).
   A machine consumes the stream of objective values in call order and moves identities between the
   roles the Python code has (population slot, personal best, simplex vertex, global best).

   solvor/utils/helpers.py, class Evaluator:
       __init__ : sign = 1 if minimize else -1 ; evals = 0
       __call__ : evals += 1 ; return sign * objective_fn(sol)
       to_user  : internal_obj * sign
   is modelled by  [ev_sign], [ev_internal] (the whole stream of user values multiplied by sign - the k-th
   call returns the k-th element), the counter [evals] of the stream state (incremented by every [eval])
   and [to_user].  Objective values are Z: the harness feeds integer-valued objectives, so every
   comparison the code makes on them is exact. *)
From Coq Require Import List ZArith Bool Arith Lia.
Import ListNotations.
Open Scope Z_scope.

Definition ev_sign (minimize : bool) : Z := if minimize then 1 else -1.
Definition ev_internal (sign : Z) (user_values : list Z) : list Z := map (Z.mul sign) user_values.
Definition to_user (sign : Z) (internal : Z) : Z := internal * sign.

(* a tracked point: (identity = index of the evaluator call that saw it, internal objective value) *)
Definition ent : Type := (nat * Z)%type.
Definition eid (e : ent) : nat := fst e.
Definition eval_ (e : ent) : Z := snd e.

(* evaluator state: number of calls made, internal values still to come *)
Record est : Type := mkE { evals : nat; rest : list Z }.
Definition est0 (internal_values : list Z) : est := mkE 0 internal_values.

(* one call of the Evaluator: None = the recorded stream is exhausted (explicit error) *)
Definition eval (st : est) : option (ent * est) :=
  match rest st with
  | [] => None
  | v :: r => Some ((evals st, v), mkE (S (evals st)) r)
  end.

(* [evaluate(p) for p in points] for k points *)
Fixpoint eval_n (k : nat) (st : est) : option (list ent * est) :=
  match k with
  | O => Some ([], st)
  | S k' =>
    match eval st with
    | None => None
    | Some (e, st1) =>
      match eval_n k' st1 with
      | None => None
      | Some (es, st2) => Some (e :: es, st2)
      end
    end
  end.

(* min(range(len(l)), key=lambda i: l[i]) : the FIRST entry with minimal value *)
Fixpoint argmin_from (b : ent) (l : list ent) : ent :=
  match l with
  | [] => b
  | e :: r => if eval_ e <? eval_ b then argmin_from e r else argmin_from b r
  end.
Definition argmin_first (l : list ent) : option ent :=
  match l with
  | [] => None            (* Python: min() of an empty range raises ValueError *)
  | e :: r => Some (argmin_from e r)
  end.

(* solvor.types.Status values used by these solvers *)
Inductive status := OPTIMAL | FEASIBLE | MAX_ITER.
Definition status_eqb (a b : status) : bool :=
  match a, b with
  | OPTIMAL, OPTIMAL | FEASIBLE, FEASIBLE | MAX_ITER, MAX_ITER => true
  | _, _ => false
  end.

(* Result(solution, objective, iterations, evaluations, status); solution = identity *)
Record result : Type := mkR { r_sol : nat; r_obj : Z; r_iter : nat; r_evals : nat; r_status : status }.

(* utils/helpers.py report_progress: the callback is called iff on_progress is given, interval > 0 and
   iteration % interval == 0; the run stops iff the callback returned True.
   [cb] : None = no on_progress; Some f = f it is "the callback returned True when called at iteration it"
   (oracle recorded by the harness). *)
Definition report_progress (cb : option (nat -> bool)) (interval it : nat) : bool :=
  match cb with
  | None => false
  | Some f => (0 <? interval)%nat && (Nat.modulo it interval =? 0)%nat && f it
  end.

(* user-facing result from internal best *)
Definition mk_result (sign : Z) (best : ent) (it : nat) (st : est) (s : status) : result :=
  mkR (eid best) (to_user sign (eval_ best)) it (evals st) s.

(* observable comparison used by the generated correspondence cases:
   [ids] = identities whose logged point copy equals the solution returned by the implementation *)
Definition result_matches (r : result) (ids : list nat) (obj : Z) (it ev : nat) (s : status) : bool :=
  existsb (Nat.eqb (r_sol r)) ids && (r_obj r =? obj) && (r_iter r =? it)%nat && (r_evals r =? ev)%nat
  && status_eqb (r_status r) s.

(* run outcome + all recorded values consumed *)
Definition run_matches (o : option (result * est)) (ids : list nat) (obj : Z) (it ev : nat) (s : status) : bool :=
  match o with
  | Some (r, st) => result_matches r ids obj it ev s && match rest st with [] => true | _ => false end
  | None => false
  end.
Definition run_is_error (o : option (result * est)) : bool :=
  match o with None => true | Some _ => false end.
