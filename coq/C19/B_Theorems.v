(* C19 part B - the final statements, in the user's terms, derived from the run invariants.
   us = the user's objective values f(x) in call order (identity of a point = index of its call). *)
From Coq Require Import List ZArith Bool Arith Lia.
From SV Require Import C19.B_Common C19.B_DE C19.B_PSO C19.B_NM C19.B_Bayes C19.B_Flow C19.B_Powell
     C19.B_Spec C19.B_ProofsCommon C19.B_ProofsDE C19.B_ProofsPSO C19.B_ProofsNM C19.B_ProofsBayes C19.B_ProofsFlow C19.B_ProofsPowell.
Import ListNotations.
Open Scope Z_scope.

(* the three group-1 clauses *)
Definition is_f (us : list Z) (r : result) : Prop := nth_error us (r_sol r) = Some (r_obj r).
Definition is_best (minimize : bool) (us : list Z) (r : result) : Prop :=
  forall k v, (k < r_evals r)%nat -> nth_error us k = Some v -> if minimize then r_obj r <= v else v <= r_obj r.
Definition counts (us : list Z) (r : result) (st : est) : Prop :=
  r_evals r = evals st /\ (r_evals r + length (rest st) = length us)%nat.

Lemma run_of_st (o : option (result * est)) r : option_map fst o = Some r -> exists st, o = Some (r, st).
Proof. destruct o as [[r' st]|]; cbn; [|discriminate]. intros H. inversion H; subst. exists st. reflexivity. Qed.

Lemma ok_is_f m us r st : result_ok m us r st -> is_f us r.
Proof. intros (_ & _ & _ & H & _). exact H. Qed.
Lemma ok_is_best m us r st : result_ok m us r st -> is_best m us r.
Proof. intros (_ & _ & _ & _ & H). exact H. Qed.
Lemma ok_counts m us r st : result_ok m us r st -> counts us r st.
Proof. intros (H1 & H2 & _). split; assumption. Qed.

Lemma neg_out_fst o : option_map fst (neg_out o) = option_map neg_res (option_map fst o).
Proof. destruct o as [[r st]|]; reflexivity. Qed.

(* a complete run (every recorded objective call consumed) satisfies the specification B_Spec.Spec1 - the same
   predicate whose boolean checker judges the implementation's outputs *)
Lemma ok_spec1 m us r st : result_ok m us r st -> rest st = [] -> Spec1 m us [r_sol r] (r_obj r) (r_evals r).
Proof.
  intros (H1 & H2 & H3 & H4 & H5) Hr. rewrite Hr in H2. cbn [length] in H2.
  split; [|split].
  - exists (r_sol r). split; [left; reflexivity | exact H4].
  - intros v Hv. destruct (In_nth_error _ _ Hv) as [k Hk].
    apply (H5 k v); [|exact Hk].
    assert (k < length us)%nat by (apply nth_error_Some; congruence). lia.
  - lia.
Qed.

Lemma de_spec m ps mi conv cb iv us r st :
  de_run_st m ps mi conv cb iv us = Some (r, st) -> rest st = [] -> Spec1 m us [r_sol r] (r_obj r) (r_evals r).
Proof. intros Hs. apply ok_spec1. exact (de_run_ok _ _ _ _ _ _ _ _ _ Hs). Qed.
Lemma pso_spec m np mi cb iv us r st :
  pso_run_st m np mi cb iv us = Some (r, st) -> rest st = [] -> Spec1 m us [r_sol r] (r_obj r) (r_evals r).
Proof. intros Hs. apply ok_spec1. exact (pso_run_ok _ _ _ _ _ _ _ _ Hs). Qed.
Lemma nm_spec m n mi tolc cb iv us r st :
  nm_run_st true m n mi tolc cb iv us = Some (r, st) -> rest st = [] -> Spec1 m us [r_sol r] (r_obj r) (r_evals r).
Proof. intros Hs. apply ok_spec1. exact (nm_run_ok _ _ _ _ _ _ _ _ _ Hs). Qed.
Lemma bo_spec m ni mi cb iv us r st :
  bo_run_st m ni mi cb iv us = Some (r, st) -> rest st = [] -> Spec1 m us [r_sol r] (r_obj r) (r_evals r).
Proof. intros Hs. apply ok_spec1. exact (bo_run_ok _ _ _ _ _ _ _ _ Hs). Qed.

(* ---------------- differential_evolution *)
Lemma de_best_is_f m ps mi conv cb iv us r : de_run m ps mi conv cb iv us = Some r -> is_f us r.
Proof. intros H. destruct (run_of_st _ _ H) as [st Hs]. exact (ok_is_f _ _ _ _ (de_run_ok _ _ _ _ _ _ _ _ _ Hs)). Qed.
Lemma de_best_is_min m ps mi conv cb iv us r : de_run m ps mi conv cb iv us = Some r -> is_best m us r.
Proof. intros H. destruct (run_of_st _ _ H) as [st Hs]. exact (ok_is_best _ _ _ _ (de_run_ok _ _ _ _ _ _ _ _ _ Hs)). Qed.
Lemma de_evals_count m ps mi conv cb iv us r st : de_run_st m ps mi conv cb iv us = Some (r, st) -> counts us r st.
Proof. intros Hs. exact (ok_counts _ _ _ _ (de_run_ok _ _ _ _ _ _ _ _ _ Hs)). Qed.
Lemma de_mirror ps mi conv cb iv us :
  de_run false ps mi conv cb iv us = option_map neg_res (de_run true ps mi conv cb iv (map Z.opp us)).
Proof. unfold de_run. rewrite de_run_mirror. apply neg_out_fst. Qed.

(* ---------------- particle_swarm *)
Lemma pso_best_is_f m np mi cb iv us r : pso_run m np mi cb iv us = Some r -> is_f us r.
Proof. intros H. destruct (run_of_st _ _ H) as [st Hs]. exact (ok_is_f _ _ _ _ (pso_run_ok _ _ _ _ _ _ _ _ Hs)). Qed.
Lemma pso_best_is_min m np mi cb iv us r : pso_run m np mi cb iv us = Some r -> is_best m us r.
Proof. intros H. destruct (run_of_st _ _ H) as [st Hs]. exact (ok_is_best _ _ _ _ (pso_run_ok _ _ _ _ _ _ _ _ Hs)). Qed.
Lemma pso_evals_count m np mi cb iv us r st : pso_run_st m np mi cb iv us = Some (r, st) -> counts us r st.
Proof. intros Hs. exact (ok_counts _ _ _ _ (pso_run_ok _ _ _ _ _ _ _ _ Hs)). Qed.
Lemma pso_mirror np mi cb iv us :
  pso_run false np mi cb iv us = option_map neg_res (pso_run true np mi cb iv (map Z.opp us)).
Proof. unfold pso_run. rewrite pso_run_mirror. apply neg_out_fst. Qed.

(* ---------------- nelder_mead (repaired early return: early_best = true) *)
Lemma nm_best_is_f m n mi tolc cb iv us r : nm_run true m n mi tolc cb iv us = Some r -> is_f us r.
Proof. intros H. destruct (run_of_st _ _ H) as [st Hs]. exact (ok_is_f _ _ _ _ (nm_run_ok _ _ _ _ _ _ _ _ _ Hs)). Qed.
Lemma nm_best_is_min m n mi tolc cb iv us r : nm_run true m n mi tolc cb iv us = Some r -> is_best m us r.
Proof. intros H. destruct (run_of_st _ _ H) as [st Hs]. exact (ok_is_best _ _ _ _ (nm_run_ok _ _ _ _ _ _ _ _ _ Hs)). Qed.
Lemma nm_evals_count m n mi tolc cb iv us r st : nm_run_st true m n mi tolc cb iv us = Some (r, st) -> counts us r st.
Proof. intros Hs. exact (ok_counts _ _ _ _ (nm_run_ok _ _ _ _ _ _ _ _ _ Hs)). Qed.
Lemma nm_mirror eb n mi tolc cb iv us :
  nm_run eb false n mi tolc cb iv us = option_map neg_res (nm_run eb true n mi tolc cb iv (map Z.opp us)).
Proof. unfold nm_run. rewrite nm_run_mirror. apply neg_out_fst. Qed.

(* the pinned code (early return of simplex[0] before the sort) did NOT have best_is_min *)
Lemma nm_pinned_refuted :
  exists m n mi tolc cb iv us r,
    nm_run false m n mi tolc cb iv us = Some r /\ ~ is_best m us r.
Proof.
  exists true, 1%nat, 5%nat, 0, (Some (fun _ => true)), 1%nat, [100; 105; 95; 90].
  eexists. split; [vm_compute; reflexivity|].
  intros H. specialize (H 3%nat 90). cbn in H. specialize (H ltac:(lia) eq_refl). lia.
Qed.

(* ---------------- bayesian_opt *)
Lemma bo_best_is_f m ni mi cb iv us r : bo_run m ni mi cb iv us = Some r -> is_f us r.
Proof. intros H. destruct (run_of_st _ _ H) as [st Hs]. exact (ok_is_f _ _ _ _ (bo_run_ok _ _ _ _ _ _ _ _ Hs)). Qed.
Lemma bo_best_is_min m ni mi cb iv us r : bo_run m ni mi cb iv us = Some r -> is_best m us r.
Proof. intros H. destruct (run_of_st _ _ H) as [st Hs]. exact (ok_is_best _ _ _ _ (bo_run_ok _ _ _ _ _ _ _ _ Hs)). Qed.
Lemma bo_evals_count m ni mi cb iv us r st : bo_run_st m ni mi cb iv us = Some (r, st) -> counts us r st.
Proof. intros Hs. exact (ok_counts _ _ _ _ (bo_run_ok _ _ _ _ _ _ _ _ Hs)). Qed.
Lemma bo_mirror ni mi cb iv us :
  bo_run false ni mi cb iv us = option_map neg_res (bo_run true ni mi cb iv (map Z.opp us)).
Proof. unfold bo_run. rewrite bo_run_mirror. apply neg_out_fst. Qed.

(* ---------------- powell / bfgs / lbfgs: objective of exactly the returned point *)
Lemma powell_objective_is_f m n mi ls conv moved cb iv us r :
  powell_run m n mi ls conv moved cb iv us = Some r -> is_f us r.
Proof.
  intros H. destruct (run_of_st _ _ H) as [st Hs].
  destruct (powell_run_ok _ _ _ _ _ _ _ _ _ _ _ Hs) as (_ & H2 & _). exact H2.
Qed.
Lemma bfgs_objective_is_f mi conv bt cb iv us r : bfgs_run mi conv bt cb iv us = Some r -> is_f us r.
Proof.
  intros H. destruct (run_of_st _ _ H) as [st Hs].
  destruct (bfgs_run_ok _ _ _ _ _ _ _ _ Hs) as ((_ & H2 & _) & _). exact H2.
Qed.
Lemma lbfgs_objective_is_f mi conv bt cb iv us r : lbfgs_run mi conv bt cb iv us = Some r -> is_f us r.
Proof.
  intros H. destruct (run_of_st _ _ H) as [st Hs].
  destruct (lbfgs_run_ok _ _ _ _ _ _ _ _ Hs) as ((_ & H2 & _) & _). exact H2.
Qed.
(* bfgs / lbfgs report a FRESH evaluation: the returned point is the point of the LAST objective call *)
Lemma bfgs_reports_last_call mi conv bt cb iv us r st :
  bfgs_run_st mi conv bt cb iv us = Some (r, st) -> S (r_sol r) = evals st /\ rest st = skipn (evals st) us.
Proof.
  intros Hs. destruct (bfgs_run_ok _ _ _ _ _ _ _ _ Hs) as (_ & H2). split; [exact H2|].
  unfold bfgs_run_st in Hs. clear H2.
  assert (W : wf us st).
  { revert Hs. generalize (wf_est0 us). generalize (est0 us) as s0. generalize 1%nat as ev. generalize 0%nat as it.
    generalize mi at 2 as k. induction k as [|k IH]; intros it ev s0 W0 H; cbn [qn_loop] in H.
    - unfold qn_report in H. destruct (eval s0) as [[c s1]|] eqn:E; [|discriminate]. inversion H; subst.
      exact (proj1 (eval_spec us _ _ _ W0 E)).
    - destruct (conv it).
      + unfold qn_report in H. destruct (eval s0) as [[c s1]|] eqn:E; [|discriminate]. inversion H; subst.
        exact (proj1 (eval_spec us _ _ _ W0 E)).
      + destruct ((bt it =? 0)%nat || (30 <? bt it)%nat); [discriminate|].
        destruct (eval_n (1 + bt it) s0) as [[es s1]|] eqn:E; [|discriminate].
        destruct (eval_n_spec us _ _ _ _ W0 E) as (W1 & _).
        destruct (eval s1) as [[c s2]|] eqn:E2; [|discriminate].
        pose proof (proj1 (eval_spec us _ _ _ W1 E2)) as W2.
        destruct (report_progress cb iv (it + 1)); [inversion H; subst; exact W2|].
        exact (IH _ _ _ W2 H). }
  exact (proj1 W).
Qed.
