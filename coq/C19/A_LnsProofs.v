(* Proofs about the lns / alns machines (A_Lns.v), for every value stream and every accept / stop
   oracle, and the refutation of best_is_min for the lns of the pinned tree. *)
From Coq Require Import List ZArith Bool Arith Lia.
From SV Require Import C19.Common C19.A_Lns C19.A_AnnealProofs.
Import ListNotations.
Open Scope Z_scope.

Definition l_inv (seen : list Z) (s : lst) : Prop :=
  Holds seen (l_cur s) (l_cur_obj s)
  /\ IsBest seen (l_best s) (l_best_obj s)
  /\ l_evals s = length seen.

Lemma l_inv_init m u0 : l_inv [ev_call m u0] (l_init m u0).
Proof.
  unfold l_inv, l_init; simpl. split; [reflexivity|]. split; [apply IsBest_single | reflexivity].
Qed.

Lemma lns_step_inv m mni it s e seen :
  l_inv seen s -> l_inv (seen ++ map (ev_call m) (l_vals e)) (fst (lns_step m mni it s e)).
Proof.
  intros [Hc [Hb He]]. unfold lns_step, l_vals. simpl.
  set (x := ev_call m (l_u e)).
  assert (Hlen : length (seen ++ [x]) = S (length seen)) by (rewrite app_length; simpl; lia).
  destruct (x <? l_best_obj s) eqn:Hlt; destruct (l_acc e); unfold l_inv; simpl; rewrite ?He;
    (split; [first [apply Holds_new | apply Holds_app; exact Hc]|]); (split; [|lia]).
  all: first [ apply Z.ltb_lt in Hlt; eapply IsBest_new; [exact Hb | lia]
             | apply Z.ltb_ge in Hlt; apply IsBest_keep; [exact Hb | lia] ].
Qed.

Lemma alns_step_inv m mni it s e seen :
  l_inv seen s -> l_inv (seen ++ map (ev_call m) (l_vals e)) (fst (alns_step m mni it s e)).
Proof.
  intros [Hc [Hb He]]. unfold alns_step, l_vals. simpl.
  set (x := ev_call m (l_u e)).
  assert (Hlen : length (seen ++ [x]) = S (length seen)) by (rewrite app_length; simpl; lia).
  destruct (x <? l_best_obj s) eqn:Hlt.
  - apply Z.ltb_lt in Hlt. unfold l_inv; simpl; rewrite He.
    split; [apply Holds_new|]. split; [|lia]. eapply IsBest_new; [exact Hb | lia].
  - apply Z.ltb_ge in Hlt.
    destruct ((x <? l_cur_obj s) || l_acc e); unfold l_inv; simpl; rewrite ?He;
      (split; [first [apply Holds_new | apply Holds_app; exact Hc]|]); (split; [|lia]);
      apply IsBest_keep; [exact Hb | lia | exact Hb | lia].
Qed.

Lemma lns_log_internal m u0 evs :
  [ev_call m u0] ++ flat_map (fun e => map (ev_call m) (l_vals e)) evs = map (ev_call m) (lns_log u0 evs).
Proof. unfold lns_log. simpl. rewrite map_flat_map. reflexivity. Qed.

Section Run.
  Variable step : bool -> Z -> nat -> lst -> levent -> lst * bool.
  Hypothesis step_inv : forall m mni it s e seen,
    l_inv seen s -> l_inv (seen ++ map (ev_call m) (l_vals e)) (fst (step m mni it s e)).

  Lemma l_run_spec m mi mni u0 evs r :
    l_run (step m mni) m mi u0 evs = Some r -> BestSpec m (lns_log u0 evs) r.
  Proof.
    unfold l_run. intros H.
    destruct (loop (step m mni) mi 1 (l_init m u0) evs) as [[s it]|] eqn:HL; [|discriminate].
    injection H as <-.
    pose proof (loop_inv (step m mni) (fun e => map (ev_call m) (l_vals e)) l_inv
                  (fun it s e seen => step_inv m mni it s e seen)
                  mi 1%nat (l_init m u0) evs [ev_call m u0] s it (l_inv_init m u0) HL) as [_ [Hb He]].
    rewrite lns_log_internal in Hb, He. unfold l_result.
    apply IsBest_BestSpec; [exact Hb|]. rewrite He, map_length. reflexivity.
  Qed.

  Hypothesis step_mirror : forall mni it s e, step false mni it s e = step true mni it s (l_neg e).

  Lemma l_run_mirror mi mni u0 evs :
    l_run (step false mni) false mi u0 evs
    = option_map neg_result (l_run (step true mni) true mi (- u0) (map l_neg evs)).
  Proof.
    unfold l_run.
    rewrite (loop_map (step false mni) (step true mni) l_neg (step_mirror mni)).
    assert (Hi : l_init false u0 = l_init true (- u0)) by (unfold l_init; rewrite ev_call_mirror; reflexivity).
    rewrite Hi.
    destruct (loop (step true mni) mi 1 (l_init true (- u0)) (map l_neg evs)) as [[s it]|]; simpl; [|reflexivity].
    unfold l_result, neg_result; simpl. rewrite to_user_mirror. reflexivity.
  Qed.
End Run.

Lemma lns_spec m mi mni u0 evs r : lns m mi mni u0 evs = Some r -> BestSpec m (lns_log u0 evs) r.
Proof. apply (l_run_spec lns_step lns_step_inv). Qed.

Lemma alns_spec m mi mni u0 evs r : alns m mi mni u0 evs = Some r -> BestSpec m (lns_log u0 evs) r.
Proof. apply (l_run_spec alns_step alns_step_inv). Qed.

Lemma lns_step_mirror mni it s e : lns_step false mni it s e = lns_step true mni it s (l_neg e).
Proof. unfold lns_step, l_neg. simpl. rewrite ev_call_mirror. reflexivity. Qed.

Lemma alns_step_mirror mni it s e : alns_step false mni it s e = alns_step true mni it s (l_neg e).
Proof. unfold alns_step, l_neg. simpl. rewrite ev_call_mirror. reflexivity. Qed.

Lemma lns_mirror mi mni u0 evs :
  lns false mi mni u0 evs = option_map neg_result (lns true mi mni (- u0) (map l_neg evs)).
Proof. apply (l_run_mirror lns_step lns_step_mirror). Qed.

Lemma alns_mirror mi mni u0 evs :
  alns false mi mni u0 evs = option_map neg_result (alns true mi mni (- u0) (map l_neg evs)).
Proof. apply (l_run_mirror alns_step alns_step_mirror). Qed.

Lemma lns_best_is_min m mi mni u0 evs r :
  lns m mi mni u0 evs = Some r -> Forall (better_eq m (r_obj r)) (lns_log u0 evs).
Proof. intros H. apply lns_spec in H. exact (proj1 (proj2 H)). Qed.

Lemma alns_best_is_min m mi mni u0 evs r :
  alns m mi mni u0 evs = Some r -> Forall (better_eq m (r_obj r)) (lns_log u0 evs).
Proof. intros H. apply alns_spec in H. exact (proj1 (proj2 H)). Qed.

Lemma lns_evals_count m mi mni u0 evs r :
  lns m mi mni u0 evs = Some r -> r_evals r = length (lns_log u0 evs).
Proof. intros H. apply lns_spec in H. exact (proj2 (proj2 H)). Qed.

Lemma alns_evals_count m mi mni u0 evs r :
  alns m mi mni u0 evs = Some r -> r_evals r = length (lns_log u0 evs).
Proof. intros H. apply alns_spec in H. exact (proj2 (proj2 H)). Qed.

Lemma lns_deterministic m mi mni u0 evs r1 r2 :
  lns m mi mni u0 evs = Some r1 -> lns m mi mni u0 evs = Some r2 -> r1 = r2.
Proof. intros H1 H2. rewrite H1 in H2. injection H2 as <-. reflexivity. Qed.

Lemma alns_deterministic m mi mni u0 evs r1 r2 :
  alns m mi mni u0 evs = Some r1 -> alns m mi mni u0 evs = Some r2 -> r1 = r2.
Proof. intros H1 H2. rewrite H1 in H2. injection H2 as <-. reflexivity. Qed.

(* ---- the lns of the pinned tree loses the best evaluated point: witness of DESIGN.md C19
   lns(5, f = id, destroy = id, repair = x-1, accept = always False, max_iter = 3):
   evaluates 5, 4, 4, 4 (current never moves), the machine - like the pinned code - reports (5, 5). *)
Definition lns_witness_events : list levent := [mkL 4 false false; mkL 4 false false; mkL 4 false false].

Lemma lns_pinned_witness_run :
  lns_pinned true 3 100 5 lns_witness_events = Some {| r_id := 0; r_obj := 5; r_evals := 4; r_iters := 3 |}.
Proof. vm_compute. reflexivity. Qed.

Lemma lns_pinned_refuted :
  exists m mi mni u0 evs r,
    lns_pinned m mi mni u0 evs = Some r /\ ~ Forall (better_eq m (r_obj r)) (lns_log u0 evs).
Proof.
  exists true, 3%nat, 100, 5, lns_witness_events, {| r_id := 0; r_obj := 5; r_evals := 4; r_iters := 3 |}.
  split; [exact lns_pinned_witness_run|].
  intros H. vm_compute in H. inversion H as [|a l H1 H2]; subst. inversion H2 as [|b l' H3 H4]; subst.
  apply H3. reflexivity.
Qed.

(* the repaired machine on the same streams reports the evaluated 4 *)
Example lns_fixed_on_witness :
  lns true 3 100 5 lns_witness_events = Some {| r_id := 1; r_obj := 4; r_evals := 4; r_iters := 3 |}.
Proof. vm_compute. reflexivity. Qed.

(* under the side condition that accept never rejects a candidate better than the incumbent the
   pinned machine and the repaired one coincide step by step *)
Lemma lns_pinned_step_agrees m mni it s e :
  (ev_call m (l_u e) <? l_best_obj s = true -> l_acc e = true) ->
  lns_step_pinned m mni it s e = lns_step m mni it s e.
Proof.
  intros H. unfold lns_step_pinned, lns_step.
  destruct (ev_call m (l_u e) <? l_best_obj s) eqn:Hlt.
  - rewrite (H eq_refl). simpl. reflexivity.
  - destruct (l_acc e); simpl; reflexivity.
Qed.

Example alns_example :
  alns false 5 2 1 [mkL 3 false false; mkL 2 true false; mkL 3 false false]
  = Some {| r_id := 1; r_obj := 3; r_evals := 4; r_iters := 3 |}.
Proof. vm_compute. reflexivity. Qed.
