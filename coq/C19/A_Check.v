(* Case types + boolean checks used by the generated correspondence files of harness/props/C19.py.
   Definitions only.  For each solver:
     *_corr : the machine's output equals the implementation's observable AND the value log the
              machine reads off its events is the log the harness recorded (call order);
     spec_ok: the Coq specification checker (Common.obs_spec_check, proved sound) judges the
              implementation's observable against the recorded log - independent of the machines. *)
From Coq Require Import List ZArith Bool Arith.
From SV Require Import Common.Corr C19.Common C19.A_Anneal C19.A_Lns C19.A_Tabu C19.A_Evolve.
Import ListNotations.
Open Scope Z_scope.

Definition zlist_eqb := list_eqb Z.eqb.

(* minimize, recorded log (user sign), implementation observable *)
Inductive speccase := SpecCase (m : bool) (us : list Z) (o : observed).
Definition spec_ok (c : speccase) : bool :=
  match c with SpecCase m us o => obs_spec_check m us o end.

Inductive acase := ACase (m : bool) (max_iter : nat) (u0 : Z) (evs : list aevent) (us : list Z) (o : observed).
Definition anneal_corr (c : acase) : bool :=
  match c with ACase m mi u0 evs us o =>
    obs_matches true (anneal m mi u0 evs) o && zlist_eqb (anneal_log u0 evs) us end.

(* which: 0 = lns (repaired), 1 = alns, 2 = lns as on the pinned tree *)
Inductive lcase := LCase (which : nat) (m : bool) (max_iter : nat) (mni : Z) (u0 : Z) (evs : list levent)
                         (us : list Z) (o : observed).
Definition l_model (which : nat) :=
  match which with 0%nat => lns | 1%nat => alns | _ => lns_pinned end.
Definition lns_corr (c : lcase) : bool :=
  match c with LCase w m mi mni u0 evs us o =>
    obs_matches true (l_model w m mi mni u0 evs) o && zlist_eqb (lns_log u0 evs) us end.

Inductive tcase := TCase (m : bool) (cooldown max_iter : nat) (mni : Z) (u0 : Z) (evs : list tevent)
                         (us : list Z) (o : observed).
Definition tabu_corr (c : tcase) : bool :=
  match c with TCase m cd mi mni u0 evs us o =>
    obs_matches true (tabu m cd mi mni u0 evs) o && zlist_eqb (tabu_log u0 evs) us end.

Inductive gcase := GCase (m : bool) (elite max_iter : nat) (us0 : list Z) (evs : list gevent)
                         (us : list Z) (o : observed).
Definition evolve_corr (c : gcase) : bool :=
  match c with GCase m el mi us0 evs us o =>
    obs_matches true (evolve m el mi us0 evs) o && zlist_eqb (evolve_log us0 evs) us end.
