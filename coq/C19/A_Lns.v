(* Model of solvor/lns.py: lns() (lines 89-144) and alns() (lines 147-262).  Definitions only.

   One event per loop iteration: u = f(candidate) (user sign); acc = what `accept_fn(current_obj,
   candidate_obj, iteration, rng)` answered (the built-in rules and custom call-backs alike are
   oracle bits - the temperature/exp arithmetic of 'simulated_annealing' stays outside); stop =
   `report_progress(...)` returned True.  destroy/repair/operator selection and the adaptive weights
   of alns only decide WHICH point is evaluated next, never the bookkeeping: they do not appear.

   lns_step       : the REPAIRED lns - `best` is updated before `accept` is consulted (as alns does).
   lns_step_pinned: the lns of the pinned tree - `best` updated only inside the accepted branch
                    (kept for the refutation lns_pinned_refuted). *)
From Coq Require Import List ZArith Bool Arith.
From SV Require Import C19.Common.
Import ListNotations.
Open Scope Z_scope.

Record levent := mkL { l_u : Z; l_acc : bool; l_stop : bool }.

Record lst := mkLS { l_cur : nat; l_cur_obj : Z; l_best : nat; l_best_obj : Z; l_best_iter : nat;
                     l_evals : nat }.

(* current_obj = evaluate(current); best_solution, best_obj = current, current_obj; best_iter = 0 *)
Definition l_init (m : bool) (u0 : Z) : lst :=
  let x := ev_call m u0 in mkLS 0 x 0 x 0 1.

(* if report_progress(...): return ...   /   if iteration - best_iter >= max_no_improve: break *)
Definition l_leave (mni : Z) (it : nat) (s : lst) (stop : bool) : bool :=
  stop || (mni <=? Z.of_nat it - Z.of_nat (l_best_iter s)).

Definition lns_step (m : bool) (mni : Z) (it : nat) (s : lst) (e : levent) : lst * bool :=
  let x := ev_call m (l_u e) in
  let id := l_evals s in
  let s1 := if x <? l_best_obj s
            then mkLS (l_cur s) (l_cur_obj s) id x it (S (l_evals s))
            else mkLS (l_cur s) (l_cur_obj s) (l_best s) (l_best_obj s) (l_best_iter s) (S (l_evals s)) in
  let s2 := if l_acc e
            then mkLS id x (l_best s1) (l_best_obj s1) (l_best_iter s1) (l_evals s1)
            else s1 in
  (s2, l_leave mni it s2 (l_stop e)).

Definition lns_step_pinned (m : bool) (mni : Z) (it : nat) (s : lst) (e : levent) : lst * bool :=
  let x := ev_call m (l_u e) in
  let id := l_evals s in
  let s2 := if l_acc e then
              if x <? l_best_obj s
              then mkLS id x id x it (S (l_evals s))
              else mkLS id x (l_best s) (l_best_obj s) (l_best_iter s) (S (l_evals s))
            else mkLS (l_cur s) (l_cur_obj s) (l_best s) (l_best_obj s) (l_best_iter s) (S (l_evals s)) in
  (s2, l_leave mni it s2 (l_stop e)).

(* alns: acc is only consulted in the third branch *)
Definition alns_step (m : bool) (mni : Z) (it : nat) (s : lst) (e : levent) : lst * bool :=
  let x := ev_call m (l_u e) in
  let id := l_evals s in
  let s2 :=
    if x <? l_best_obj s then mkLS id x id x it (S (l_evals s))
    else if (x <? l_cur_obj s) || l_acc e
         then mkLS id x (l_best s) (l_best_obj s) (l_best_iter s) (S (l_evals s))
         else mkLS (l_cur s) (l_cur_obj s) (l_best s) (l_best_obj s) (l_best_iter s) (S (l_evals s)) in
  (s2, l_leave mni it s2 (l_stop e)).

Definition l_result (m : bool) (s : lst) (it : nat) : result :=
  {| r_id := l_best s; r_obj := to_user m (l_best_obj s); r_evals := l_evals s; r_iters := it |}.

Definition l_run (step : nat -> lst -> levent -> lst * bool) (m : bool) (max_iter : nat) (u0 : Z)
           (evs : list levent) : option result :=
  (* `iteration = 0` is bound before the `for`: max_iter = 0 returns the start point, 0 iterations *)
  match loop step max_iter 1 (l_init m u0) evs with
  | None => None
  | Some (s, it) => Some (l_result m s it)
  end.

Definition lns (m : bool) (max_iter : nat) (mni : Z) := l_run (lns_step m mni) m max_iter.
Definition lns_pinned (m : bool) (max_iter : nat) (mni : Z) := l_run (lns_step_pinned m mni) m max_iter.
Definition alns (m : bool) (max_iter : nat) (mni : Z) := l_run (alns_step m mni) m max_iter.

Definition l_vals (e : levent) : list Z := [l_u e].
Definition lns_log (u0 : Z) (evs : list levent) : list Z := u0 :: flat_map l_vals evs.

Definition l_neg (e : levent) : levent := mkL (- l_u e) (l_acc e) (l_stop e).
