(* Model of solvor/genetic.py: evolve() (lines 55-139).  Definitions only.

   Inputs: minimize, elite_size, max_iter, us0 = f of the initial population in order (user sign),
   and one event per generation: the f-values of the children in creation order and the stop bit of
   report_progress.  Tournament selection, crossover, the mutation draw and the adaptive mutation
   rate only decide WHICH child is built; every child is evaluated exactly once and appended, so
   none of them enters the bookkeeping.  A population slot is (identity, internal fitness); the
   population is kept sorted by Python's stable sort (modelled by stable insertion sort).
   Number of children per generation is what the `while len(new_pop) < pop_size` loop produces;
   an event with a different number of values flags the run as malformed (None). *)
From Coq Require Import List ZArith Bool Arith.
From SV Require Import C19.Common.
Import ListNotations.
Open Scope Z_scope.

Record gevent := mkG { g_kids : list Z; g_stop : bool }.

Definition slot := (nat * Z)%type.

Record gst := mkGS { g_pop : list slot; g_best : nat; g_best_obj : Z; g_evals : nat; g_ok : bool }.

(* stable sort by fitness: p is placed before the first element that is not smaller *)
Fixpoint ins (p : slot) (l : list slot) : list slot :=
  match l with
  | [] => [p]
  | q :: r => if snd p <=? snd q then p :: q :: r else q :: ins p r
  end.
Fixpoint isort (l : list slot) : list slot :=
  match l with [] => [] | p :: r => ins p (isort r) end.

(* identities first..first+k-1 paired with internal values *)
Definition slots_from (m : bool) (first : nat) (us : list Z) : list slot :=
  combine (seq first (length us)) (map (ev_call m) us).

(* pop = [Individual(sol, evaluate(sol)) ...]; pop.sort(key=fitness); best = pop[0] *)
Definition g_init (m : bool) (us0 : list Z) : option gst :=
  match isort (slots_from m 0 us0) with
  | [] => None                                           (* pop[0]: IndexError *)
  | (id, x) :: r => Some (mkGS ((id, x) :: r) id x (length us0) true)
  end.

Definition g_step (m : bool) (elite pop_size : nat) (it : nat) (s : gst) (e : gevent) : gst * bool :=
  let new0 := firstn elite (g_pop s) in                  (* new_pop = pop[:elite_size] *)
  let need := (pop_size - length new0)%nat in            (* while len(new_pop) < pop_size *)
  let kids := slots_from m (g_evals s) (g_kids e) in
  let ok := g_ok s && Nat.eqb (length (g_kids e)) need in
  let pop' := firstn pop_size (isort (new0 ++ kids)) in  (* sorted(new_pop, key=fitness)[:pop_size] *)
  let ev' := (g_evals s + length (g_kids e))%nat in
  let s' := match pop' with
            | (id, x) :: _ =>
                if x <? g_best_obj s                     (* if pop[0].fitness < best_fitness *)
                then mkGS pop' id x ev' ok
                else mkGS pop' (g_best s) (g_best_obj s) ev' ok
            | [] => mkGS pop' (g_best s) (g_best_obj s) ev' false
            end in
  (s', g_stop e).

Definition g_result (m : bool) (s : gst) (it : nat) : result :=
  {| r_id := g_best s; r_obj := to_user m (g_best_obj s); r_evals := g_evals s; r_iters := it |}.

Definition evolve (m : bool) (elite max_iter : nat) (us0 : list Z) (evs : list gevent) : option result :=
  match g_init m us0 with
  | None => None
  | Some s0 =>
      match loop (g_step m elite (length us0)) max_iter 1 s0 evs with
      | None => None
      | Some (s, it) => if g_ok s then Some (g_result m s it) else None
      end
  end.

Definition g_vals (e : gevent) : list Z := g_kids e.
Definition evolve_log (us0 : list Z) (evs : list gevent) : list Z := us0 ++ flat_map g_vals evs.

Definition g_neg (e : gevent) : gevent := mkG (map Z.opp (g_kids e)) (g_stop e).
