(* C19 part B - invariants shared by the bookkeeping proofs.
   Everything is relative to the stream [ivs] of INTERNAL values (sign * f) the evaluator returns in call order. *)
From Coq Require Import List ZArith Bool Arith Lia.
From SV Require Import C19.B_Common.
Import ListNotations.
Open Scope Z_scope.

(* ------------------------------------------------------------------ list facts *)
Lemma skipn_cons_nth {A} (l : list A) : forall n v r,
  skipn n l = v :: r -> nth_error l n = Some v /\ skipn (S n) l = r /\ (n < length l)%nat.
Proof.
  induction l as [|x xs IH]; intros n v r H.
  - destruct n; discriminate.
  - destruct n as [|n].
    + cbn in H. inversion H; subst. cbn. repeat split; lia.
    + cbn [skipn] in H. destruct (IH n v r H) as (A1 & A2 & A3).
      cbn [nth_error length]. repeat split; try assumption; lia.
Qed.

(* ------------------------------------------------------------------ invariants *)
Section Inv.
Variable ivs : list Z.

Definition wf (st : est) : Prop := rest st = skipn (evals st) ivs /\ (evals st <= length ivs)%nat.
Definition good (n : nat) (e : ent) : Prop := (eid e < n)%nat /\ nth_error ivs (eid e) = Some (eval_ e).
Definition lower (n : nat) (x : Z) : Prop := forall k v, (k < n)%nat -> nth_error ivs k = Some v -> x <= v.
Definition is_min (n : nat) (e : ent) : Prop := good n e /\ lower n (eval_ e).
(* every value evaluated so far is >= some entry of l *)
Definition covers (n : nat) (l : list ent) : Prop :=
  forall k v, (k < n)%nat -> nth_error ivs k = Some v -> exists e, In e l /\ eval_ e <= v.

Lemma wf_est0 : wf (est0 ivs).
Proof. split; cbn; [reflexivity | lia]. Qed.

Lemma good_mono n m e : good n e -> (n <= m)%nat -> good m e.
Proof. intros [H1 H2] H. split; [lia | exact H2]. Qed.

Lemma Forall_good_mono n m l : Forall (good n) l -> (n <= m)%nat -> Forall (good m) l.
Proof. intros H Hm. eapply Forall_impl; [|exact H]. intros e He. eapply good_mono; eauto. Qed.

Lemma good_lower n e x : good n e -> lower n x -> x <= eval_ e.
Proof. intros [H1 H2] HL. exact (HL _ _ H1 H2). Qed.

Lemma eval_spec st e st' :
  wf st -> eval st = Some (e, st') ->
  wf st' /\ evals st' = S (evals st) /\ eid e = evals st /\ nth_error ivs (evals st) = Some (eval_ e).
Proof.
  intros [W1 W2] H. unfold eval in H. destruct (rest st) as [|v r] eqn:E; [discriminate|].
  inversion H; subst; clear H. symmetry in W1.
  destruct (skipn_cons_nth ivs _ _ _ W1) as (A1 & A2 & A3).
  cbn. repeat split; try assumption; try lia. symmetry; exact A2.
Qed.

Lemma eval_good st e st' : wf st -> eval st = Some (e, st') -> good (evals st') e.
Proof.
  intros W H. destruct (eval_spec _ _ _ W H) as (_ & A2 & A3 & A4).
  split; [lia | rewrite A3; exact A4].
Qed.

(* the new value: whoever is below all old values and below the new one is below everything *)
Lemma lower_step st e st' x :
  wf st -> eval st = Some (e, st') -> lower (evals st) x -> x <= eval_ e -> lower (evals st') x.
Proof.
  intros W H HL Hx k v Hk Hv. destruct (eval_spec _ _ _ W H) as (_ & A2 & A3 & A4).
  destruct (Nat.eq_dec k (evals st)) as [->|Hne].
  - rewrite A4 in Hv. inversion Hv; subst. exact Hx.
  - apply (HL k v); [lia | exact Hv].
Qed.

Lemma is_min_keep st e st' b :
  wf st -> eval st = Some (e, st') -> is_min (evals st) b -> eval_ b <= eval_ e -> is_min (evals st') b.
Proof.
  intros W H [G L] Hx. destruct (eval_spec _ _ _ W H) as (_ & A2 & _).
  split; [eapply good_mono; [exact G | lia] | eapply lower_step; eauto].
Qed.

Lemma is_min_new st e st' b :
  wf st -> eval st = Some (e, st') -> is_min (evals st) b -> eval_ e <= eval_ b -> is_min (evals st') e.
Proof.
  intros W H [G L] Hx. split; [eapply eval_good; eauto|].
  eapply lower_step; eauto; [|lia].
  intros k v Hk Hv. specialize (L k v Hk Hv). lia.
Qed.

Lemma covers_step st e st' l l' :
  wf st -> eval st = Some (e, st') -> covers (evals st) l ->
  (forall x, In x l -> exists y, In y l' /\ eval_ y <= eval_ x) ->
  (exists y, In y l' /\ eval_ y <= eval_ e) ->
  covers (evals st') l'.
Proof.
  intros W H HC Hold Hnew k v Hk Hv. destruct (eval_spec _ _ _ W H) as (_ & A2 & A3 & A4).
  destruct (Nat.eq_dec k (evals st)) as [->|Hne].
  - rewrite A4 in Hv. inversion Hv; subst. exact Hnew.
  - destruct (HC k v) as (x & Hx & Hxv); [lia | exact Hv |].
    destruct (Hold x Hx) as (y & Hy & Hyx). exists y. split; [exact Hy | lia].
Qed.

Lemma covers_weaken n l l' :
  covers n l -> (forall x, In x l -> exists y, In y l' /\ eval_ y <= eval_ x) -> covers n l'.
Proof.
  intros HC Hold k v Hk Hv. destruct (HC k v Hk Hv) as (x & Hx & Hxv).
  destruct (Hold x Hx) as (y & Hy & Hyx). exists y. split; [exact Hy | lia].
Qed.

Lemma is_min_covers n b : is_min n b -> covers n [b].
Proof. intros [G L] k v Hk Hv. exists b. split; [left; reflexivity | exact (L k v Hk Hv)]. Qed.

Lemma min_of_cover n l b :
  covers n l -> good n b -> (forall e, In e l -> eval_ b <= eval_ e) -> is_min n b.
Proof.
  intros HC G Hmin. split; [exact G|]. intros k v Hk Hv.
  destruct (HC k v Hk Hv) as (e & He & Hev). specialize (Hmin e He). lia.
Qed.

(* [evaluate(p) for p in ...] *)
Lemma eval_n_spec k : forall st es st',
  wf st -> eval_n k st = Some (es, st') ->
  wf st' /\ evals st' = (evals st + k)%nat /\ Forall (good (evals st')) es /\ length es = k /\
  (forall l, covers (evals st) l -> covers (evals st') (l ++ es)).
Proof.
  induction k as [|k IH]; intros st es st' W H; cbn in H.
  - inversion H; subst. split; [exact W|]. split; [lia|]. split; [constructor|]. split; [reflexivity|].
    intros l HC. rewrite app_nil_r. exact HC.
  - destruct (eval st) as [[e st1]|] eqn:E; [|discriminate].
    destruct (eval_n k st1) as [[es1 st2]|] eqn:E2; [|discriminate].
    inversion H; subst; clear H.
    destruct (eval_spec _ _ _ W E) as (W1 & A2 & A3 & A4).
    destruct (IH _ _ _ W1 E2) as (W2 & B2 & B3 & B4 & B5).
    split; [exact W2|]. split; [lia|]. split; [|split].
    + constructor; [|exact B3]. apply (good_mono (evals st1)); [exact (eval_good _ _ _ W E) | lia].
    + cbn. lia.
    + intros l HC.
      assert (HC1 : covers (evals st1) (l ++ [e])).
      { apply (covers_step st e st1 l); auto.
        - intros x Hx. exists x. split; [apply in_or_app; left; exact Hx | lia].
        - exists e. split; [apply in_or_app; right; left; reflexivity | lia]. }
      specialize (B5 _ HC1). rewrite <- app_assoc in B5. exact B5.
Qed.

Lemma covers_nil0 : covers 0 [].
Proof. intros k v Hk. lia. Qed.

(* ------------------------------------------------------------------ first minimum *)
Lemma argmin_from_spec l : forall b,
  (In (argmin_from b l) (b :: l)) /\ (forall e, In e (b :: l) -> eval_ (argmin_from b l) <= eval_ e).
Proof.
  induction l as [|x xs IH]; intros b; cbn [argmin_from].
  - split; [left; reflexivity|]. intros e [<-|[]]. lia.
  - destruct (eval_ x <? eval_ b) eqn:C.
    + destruct (IH x) as [I1 I2]. split.
      * right. exact I1.
      * intros e [<-|He]; [|exact (I2 e He)].
        specialize (I2 x (or_introl eq_refl)). apply Z.ltb_lt in C. lia.
    + destruct (IH b) as [I1 I2]. split.
      * destruct I1 as [<-|I1]; [left; reflexivity | right; right; exact I1].
      * intros e [<-|[<-|He]].
        -- apply I2. left; reflexivity.
        -- specialize (I2 b (or_introl eq_refl)). apply Z.ltb_ge in C. lia.
        -- apply I2. right; exact He.
Qed.

Lemma argmin_first_spec l b :
  argmin_first l = Some b -> In b l /\ (forall e, In e l -> eval_ b <= eval_ e).
Proof.
  destruct l as [|x xs]; cbn; [discriminate|]. intros H. inversion H; subst. apply argmin_from_spec.
Qed.

Lemma argmin_is_min n l b :
  covers n l -> Forall (good n) l -> argmin_first l = Some b -> is_min n b.
Proof.
  intros HC HG H. destruct (argmin_first_spec _ _ H) as [I1 I2].
  eapply min_of_cover; eauto. rewrite Forall_forall in HG. exact (HG b I1).
Qed.

End Inv.

(* ------------------------------------------------------------------ user-level statement *)
Lemma sign_cases m : ev_sign m = 1 \/ ev_sign m = -1.
Proof. destruct m; cbn; auto. Qed.

Lemma nth_error_internal s us k :
  nth_error (ev_internal s us) k = option_map (Z.mul s) (nth_error us k).
Proof. unfold ev_internal. apply nth_error_map. Qed.

(* what every group-1 run establishes about its Result, in the user's terms:
   us = the user's objective values in call order *)
Definition result_ok (minimize : bool) (us : list Z) (r : result) (st : est) : Prop :=
  r_evals r = evals st /\
  (r_evals r + length (rest st) = length us)%nat /\
  (r_sol r < r_evals r)%nat /\
  nth_error us (r_sol r) = Some (r_obj r) /\
  (forall k v, (k < r_evals r)%nat -> nth_error us k = Some v ->
               if minimize then r_obj r <= v else v <= r_obj r).

Lemma wf_length ivs st : wf ivs st -> (evals st + length (rest st) = length ivs)%nat.
Proof. intros [W1 W2]. rewrite W1, skipn_length. lia. Qed.

Lemma mk_result_ok minimize us best it st s :
  wf (ev_internal (ev_sign minimize) us) st ->
  is_min (ev_internal (ev_sign minimize) us) (evals st) best ->
  result_ok minimize us (mk_result (ev_sign minimize) best it st s) st.
Proof.
  intros W [[G1 G2] L]. unfold result_ok, mk_result; cbn [r_evals r_sol r_obj].
  rewrite nth_error_internal in G2.
  destruct (nth_error us (eid best)) as [u|] eqn:Eu; [|discriminate]. cbn in G2. inversion G2 as [G3].
  split; [reflexivity|]. split.
  { pose proof (wf_length _ _ W) as HL. unfold ev_internal in HL. rewrite map_length in HL. exact HL. }
  split; [exact G1|]. split.
  { f_equal. unfold to_user. destruct minimize; cbn [ev_sign] in *; lia. }
  intros k v Hk Hv.
  assert (Hi : nth_error (ev_internal (ev_sign minimize) us) k = Some (ev_sign minimize * v)).
  { rewrite nth_error_internal, Hv. reflexivity. }
  specialize (L k _ Hk Hi). rewrite <- G3 in L. unfold to_user.
  destruct minimize; cbn [ev_sign] in *; lia.
Qed.

(* what every group-2 run (powell, bfgs, lbfgs) establishes: us = raw user values of the objective calls *)
Definition flow_ok (us : list Z) (r : result) (st : est) : Prop :=
  (r_sol r < evals st)%nat /\ nth_error us (r_sol r) = Some (r_obj r) /\
  (evals st + length (rest st) = length us)%nat.

(* ------------------------------------------------------------------ mirror *)
Definition neg_res (r : result) : result := mkR (r_sol r) (- r_obj r) (r_iter r) (r_evals r) (r_status r).
Definition neg_out (o : option (result * est)) : option (result * est) :=
  option_map (fun p => (neg_res (fst p), snd p)) o.

Lemma mk_result_neg b it st s : mk_result (-1) b it st s = neg_res (mk_result 1 b it st s).
Proof. unfold mk_result, neg_res, to_user. cbn. f_equal. lia. Qed.

Lemma internal_mirror us : ev_internal (-1) us = ev_internal 1 (map Z.opp us).
Proof.
  unfold ev_internal. rewrite map_map. apply map_ext. intros a. lia.
Qed.
