(* C19 part B - bookkeeping model of solvor/nelder_mead.py: nelder_mead(), _shrink().  Definitions only.
   Roles: simplex vertex k (simplex[k], values[k]) - a list of n+1 entries.  The reflection / expansion /
   contraction / shrink decisions are comparisons among objective values and are modelled exactly; the
   convergence test `abs(worst_val - best_val) < tol` is on integer values, so it equals
   `|worst - best| < tolc` with tolc = ceil(tol) (given by the harness).  Oracle: the points (centroid,
   alpha/gamma/rho/sigma arithmetic, adaptive) and the on_progress answers.
   Early return on on_progress, flag [early_best]:
     true  = the repaired code (fix: commit): returns the minimum over `values`, like the normal exit;
     false = the pinned code: returned simplex[0], values[0] AFTER the step and BEFORE the next sort, i.e. not
             necessarily the best vertex (kept for theorem nelder_mead_pinned_refuted).
   max_iter = 0: `iteration = 0` bound before the loop (fix: commit). *)
From Coq Require Import List ZArith Bool Arith Lia.
From SV Require Import C19.B_Common.
Import ListNotations.
Open Scope Z_scope.

Definition ent0 : ent := (0%nat, 0).

(* sorted(range(n+1), key=lambda i: values[i]) is stable: equal values keep their order *)
Fixpoint nm_insert (x : ent) (l : list ent) : list ent :=
  match l with
  | [] => [x]
  | y :: ys => if eval_ x <=? eval_ y then x :: y :: ys else y :: nm_insert x ys
  end.
Fixpoint nm_sort (l : list ent) : list ent :=
  match l with
  | [] => []
  | x :: xs => nm_insert x (nm_sort xs)
  end.

(* simplex[n] = x ; values[n] = x_val *)
Definition set_last (s : list ent) (x : ent) : list ent := removelast s ++ [x].

(* _shrink: vertices 1..n are moved (in place) towards simplex[0] and re-evaluated in index order *)
Definition nm_shrink (s : list ent) (st : est) : option (list ent * est) :=
  match s with
  | [] => None
  | b :: r =>
    match eval_n (length r) st with
    | None => None
    | Some (es, st') => Some (b :: es, st')
    end
  end.

(* body of one iteration after the sort and the convergence test *)
Definition nm_step (s : list ent) (st : est) : option (list ent * est) :=
  let best_val := eval_ (hd ent0 s) in
  let worst_val := eval_ (last s ent0) in
  let second_worst_val := eval_ (nth (length s - 2) s ent0) in
  match eval st with                                                   (* reflected_val *)
  | None => None
  | Some (r, st1) =>
    if (best_val <=? eval_ r) && (eval_ r <? second_worst_val) then Some (set_last s r, st1)
    else if eval_ r <? best_val then
      match eval st1 with                                              (* expanded_val *)
      | None => None
      | Some (e, st2) => if eval_ e <? eval_ r then Some (set_last s e, st2) else Some (set_last s r, st2)
      end
    else if eval_ r <? worst_val then
      match eval st1 with                                              (* outside contraction *)
      | None => None
      | Some (c, st2) => if eval_ c <=? eval_ r then Some (set_last s c, st2) else nm_shrink s st2
      end
    else
      match eval st1 with                                              (* inside contraction *)
      | None => None
      | Some (c, st2) => if eval_ c <? worst_val then Some (set_last s c, st2) else nm_shrink s st2
      end
  end.

Definition nm_final_status (it max_iter : nat) : status :=
  if (it <? max_iter)%nat then OPTIMAL else MAX_ITER.

(* best_idx = min(range(n+1), key=values) ; Result(simplex[best_idx], to_user(values[best_idx]), iteration, evals, status) *)
Definition nm_finish (sign : Z) (max_iter it : nat) (s : list ent) (st : est) : option (result * est) :=
  match argmin_first s with
  | None => None
  | Some b => Some (mk_result sign b it st (nm_final_status it max_iter), st)
  end.

Definition nm_early (early_best : bool) (sign : Z) (it : nat) (s : list ent) (st : est) : option (result * est) :=
  if early_best then
    match argmin_first s with
    | None => None
    | Some b => Some (mk_result sign b it st FEASIBLE, st)
    end
  else Some (mk_result sign (hd ent0 s) it st FEASIBLE, st).           (* pinned: Result(simplex[0], values[0], ...) *)

Fixpoint nm_loop (early_best : bool) (sign : Z) (max_iter : nat) (tolc : Z) (cb : option (nat -> bool)) (interval : nat)
         (k it : nat) (s : list ent) (st : est) : option (result * est) :=
  match k with
  | O => nm_finish sign max_iter (it - 1) s st
  | S k' =>
    let s1 := nm_sort s in
    if Z.abs (eval_ (last s1 ent0) - eval_ (hd ent0 s1)) <? tolc then nm_finish sign max_iter it s1 st   (* break *)
    else
      match nm_step s1 st with
      | None => None
      | Some (s2, st2) =>
        if report_progress cb interval it
        then nm_early early_best sign it s2 st2
        else nm_loop early_best sign max_iter tolc cb interval k' (S it) s2 st2
      end
  end.

(* n = len(x0).  None = not modelled (n = 0) or stream too short. *)
Definition nm_run_st (early_best : bool) (minimize : bool) (n max_iter : nat) (tolc : Z)
           (cb : option (nat -> bool)) (interval : nat) (user_values : list Z) : option (result * est) :=
  let sign := ev_sign minimize in
  match n with
  | O => None
  | S _ =>
    match eval_n (S n) (est0 (ev_internal sign user_values)) with        (* values = [evaluate(v) for v in simplex] *)
    | None => None
    | Some (s, st) =>
      nm_loop early_best sign max_iter tolc cb interval max_iter 1 s st
    end
  end.

Definition nm_run early_best minimize n max_iter tolc cb interval user_values : option result :=
  option_map fst (nm_run_st early_best minimize n max_iter tolc cb interval user_values).
