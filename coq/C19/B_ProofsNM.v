(* C19 part B - proofs about the nelder_mead bookkeeping machine (B_NM.v). *)
From Coq Require Import List ZArith Bool Arith Lia.
From SV Require Import C19.B_Common C19.B_NM C19.B_ProofsCommon.
Import ListNotations.
Open Scope Z_scope.

(* ------------------------------------------------------------------ the stable sort *)
Lemma nm_insert_in x l y : In y (nm_insert x l) <-> y = x \/ In y l.
Proof.
  induction l as [|z zs IH]; cbn [nm_insert].
  - cbn. intuition.
  - destruct (eval_ x <=? eval_ z); cbn [In]; [intuition|]. rewrite IH. intuition.
Qed.

Lemma nm_sort_in l y : In y (nm_sort l) <-> In y l.
Proof.
  induction l as [|z zs IH]; cbn [nm_sort]; [reflexivity|].
  rewrite nm_insert_in, IH. cbn. intuition.
Qed.

Lemma nm_insert_length x l : length (nm_insert x l) = S (length l).
Proof.
  induction l as [|z zs IH]; cbn [nm_insert]; [reflexivity|].
  destruct (eval_ x <=? eval_ z); cbn [length]; [reflexivity | rewrite IH; reflexivity].
Qed.

Lemma nm_sort_length l : length (nm_sort l) = length l.
Proof. induction l as [|z zs IH]; cbn [nm_sort length]; [reflexivity|]. rewrite nm_insert_length, IH. reflexivity. Qed.

Fixpoint ssorted (l : list ent) : Prop :=
  match l with
  | [] => True
  | x :: r => (forall y, In y r -> eval_ x <= eval_ y) /\ ssorted r
  end.

Lemma nm_insert_sorted x l : ssorted l -> ssorted (nm_insert x l).
Proof.
  induction l as [|z zs IH]; intros H; cbn [nm_insert].
  - cbn. split; [intros y []| exact I].
  - destruct H as [H1 H2]. destruct (eval_ x <=? eval_ z) eqn:C.
    + apply Z.leb_le in C. cbn [ssorted]. split; [|split; assumption].
      intros y [<-|Hy]; [exact C | specialize (H1 y Hy); lia].
    + apply Z.leb_gt in C. cbn [ssorted]. split; [|apply IH; exact H2].
      intros y Hy. apply (proj1 (nm_insert_in _ _ _)) in Hy. destruct Hy as [->|Hy]; [lia | exact (H1 y Hy)].
Qed.

Lemma nm_sort_sorted l : ssorted (nm_sort l).
Proof. induction l as [|z zs IH]; cbn [nm_sort]; [exact I | apply nm_insert_sorted; exact IH]. Qed.

Lemma sorted_hd_min l e : ssorted l -> In e l -> eval_ (hd ent0 l) <= eval_ e.
Proof.
  destruct l as [|x r]; [intros _ []|]. intros [H _] [<-|He]; cbn [hd]; [lia | exact (H e He)].
Qed.

(* ------------------------------------------------------------------ list surgery *)
Lemma in_removelast (l : list ent) y : In y (removelast l) -> In y l.
Proof.
  induction l as [|a r IH]; [intros []|]. cbn [removelast]. destruct r as [|b t]; [intros []|].
  intros [<-|H]; [left; reflexivity | right; exact (IH H)].
Qed.

Lemma in_set_last s x y : In y (set_last s x) -> In y s \/ y = x.
Proof.
  unfold set_last. intros H. apply in_app_or in H. destruct H as [H|[<-|[]]].
  - left. exact (in_removelast _ _ H).
  - right. reflexivity.
Qed.

Lemma x_in_set_last s x : In x (set_last s x).
Proof. unfold set_last. apply in_or_app. right. left. reflexivity. Qed.

Lemma hd_in_set_last s x : (2 <= length s)%nat -> In (hd ent0 s) (set_last s x).
Proof.
  destruct s as [|a [|b t]]; cbn [length]; try lia. intros _.
  unfold set_last. cbn. left. reflexivity.
Qed.

Lemma set_last_length s x : s <> [] -> length (set_last s x) = length s.
Proof.
  intros H. unfold set_last. rewrite app_length. cbn [length].
  rewrite (app_removelast_last ent0 H) at 2. rewrite app_length. cbn [length]. reflexivity.
Qed.

Lemma hd_in (s : list ent) : s <> [] -> In (hd ent0 s) s.
Proof. destruct s; [congruence | intros _; left; reflexivity]. Qed.

Lemma last_in (s : list ent) : s <> [] -> In (last s ent0) s.
Proof.
  intros H. rewrite (app_removelast_last ent0 H) at 2. apply in_or_app. right. left. reflexivity.
Qed.

(* ------------------------------------------------------------------ the simplex invariant *)
Section NM.
Variable ivs : list Z.

(* every vertex is an evaluated point with its own value; the simplex minimum bounds everything evaluated *)
Definition sinv (n : nat) (s : list ent) : Prop :=
  Forall (good ivs n) s /\ covers ivs n s /\ (2 <= length s)%nat.

Lemma sinv_sort n s : sinv n s -> sinv n (nm_sort s).
Proof.
  intros (G & C & L). split; [|split].
  - apply Forall_forall. intros e He. apply (proj1 (nm_sort_in _ _)) in He. rewrite Forall_forall in G. exact (G e He).
  - eapply covers_weaken; [exact C|]. intros x Hx. exists x. split; [apply (proj2 (nm_sort_in _ _)); exact Hx | lia].
  - rewrite nm_sort_length. exact L.
Qed.

Lemma sinv_from_cover m L s2 :
  covers ivs m L -> (forall x, In x L -> exists y, In y s2 /\ eval_ y <= eval_ x) ->
  Forall (good ivs m) s2 -> (2 <= length s2)%nat -> sinv m s2.
Proof. intros C H G Len. split; [exact G|]. split; [eapply covers_weaken; eauto | exact Len]. Qed.

Lemma good_set_last n m s x :
  Forall (good ivs n) s -> (n <= m)%nat -> good ivs m x -> Forall (good ivs m) (set_last s x).
Proof.
  intros G Hm Gx. apply Forall_forall. intros y Hy. apply in_set_last in Hy. destruct Hy as [Hy| ->]; [|exact Gx].
  rewrite Forall_forall in G. eapply good_mono; [exact (G y Hy) | exact Hm].
Qed.

Lemma dom_self (s2 : list ent) y : In y s2 -> exists z, In z s2 /\ eval_ z <= eval_ y.
Proof. intros H. exists y. split; [exact H | lia]. Qed.

Lemma dom_by (s2 : list ent) b y : In b s2 -> eval_ b <= eval_ y -> exists z, In z s2 /\ eval_ z <= eval_ y.
Proof. intros H Hle. exists b. split; [exact H | exact Hle]. Qed.

Lemma nm_shrink_inv s st s2 st2 b L :
  wf ivs st -> Forall (good ivs (evals st)) s -> (2 <= length s)%nat -> b = hd ent0 s ->
  covers ivs (evals st) L -> (forall x, In x L -> eval_ b <= eval_ x) ->
  nm_shrink s st = Some (s2, st2) ->
  wf ivs st2 /\ (evals st <= evals st2)%nat /\ sinv (evals st2) s2 /\ length s2 = length s.
Proof.
  intros W G Len Hb C HL H. unfold nm_shrink in H. destruct s as [|a r]; [discriminate|].
  cbn [hd] in Hb. subst a.
  destruct (eval_n (length r) st) as [[es st']|] eqn:E; [|discriminate]. inversion H; subst; clear H.
  destruct (eval_n_spec ivs _ _ _ _ W E) as (W2 & A2 & A3 & A4 & A5).
  split; [exact W2|]. split; [lia|]. split; [|cbn [length]; lia].
  apply (sinv_from_cover _ (L ++ es)).
  - apply A5. exact C.
  - intros x Hx. apply in_app_or in Hx. destruct Hx as [Hx|Hx].
    + apply (dom_by _ b); [left; reflexivity | exact (HL x Hx)].
    + apply dom_self. right. exact Hx.
  - constructor; [|exact A3]. inversion G; subst. eapply good_mono; [eassumption | lia].
  - cbn [length] in *. lia.
Qed.

Lemma nm_step_inv s st s2 st2 :
  wf ivs st -> sinv (evals st) s -> ssorted s ->
  nm_step s st = Some (s2, st2) ->
  wf ivs st2 /\ (evals st <= evals st2)%nat /\ sinv (evals st2) s2.
Proof.
  intros W (G & C & Len) Srt H.
  assert (Hne : s <> []) by (destruct s; cbn in Len; [lia | congruence]).
  set (b := hd ent0 s) in *.
  assert (Hbin : In b s) by (apply hd_in; exact Hne).
  assert (Hbmin : forall e, In e s -> eval_ b <= eval_ e) by (intros e He; apply sorted_hd_min; assumption).
  assert (Gb : good ivs (evals st) b) by (rewrite Forall_forall in G; exact (G b Hbin)).
  assert (Mb : is_min ivs (evals st) b) by (eapply min_of_cover; eauto).
  assert (Hw : eval_ b <= eval_ (last s ent0)) by (apply Hbmin, last_in; exact Hne).
  unfold nm_step in H. fold b in H.
  destruct (eval st) as [[r st1]|] eqn:E1; [|discriminate].
  destruct (eval_spec ivs _ _ _ W E1) as (W1 & A2 & A3 & A4).
  pose proof (eval_good ivs _ _ _ W E1) as Gr.
  assert (C1 : covers ivs (evals st1) [b; r]).
  { apply (covers_step ivs st r st1 [b]); auto.
    - apply is_min_covers. exact Mb.
    - intros x [<-|[]]. apply dom_self. left; reflexivity.
    - apply dom_self. right; left; reflexivity. }
  destruct ((eval_ b <=? eval_ r) && (eval_ r <? eval_ (nth (length s - 2) s ent0))) eqn:CA.
  { (* accept reflection *)
    inversion H; subst; clear H. split; [exact W1|]. split; [lia|].
    apply (sinv_from_cover _ [b; r]); [exact C1 | | |].
    - intros x [<-|[<-|[]]]; apply dom_self; [apply hd_in_set_last; exact Len | apply x_in_set_last].
    - apply (good_set_last (evals st)); [exact G | lia | exact Gr].
    - rewrite set_last_length; assumption. }
  destruct (eval_ r <? eval_ b) eqn:CB.
  { (* expansion *)
    apply Z.ltb_lt in CB.
    destruct (eval st1) as [[e st2']|] eqn:E2; [|discriminate].
    destruct (eval_spec ivs _ _ _ W1 E2) as (W2 & B2 & B3 & B4).
    pose proof (eval_good ivs _ _ _ W1 E2) as Ge.
    assert (C2 : covers ivs (evals st2') [b; r; e]).
    { apply (covers_step ivs st1 e st2' [b; r]); auto.
      - intros x Hx. apply dom_self. cbn in *. intuition.
      - apply dom_self. right; right; left; reflexivity. }
    assert (Gr2 : good ivs (evals st2') r) by (eapply good_mono; [exact Gr | lia]).
    destruct (eval_ e <? eval_ r) eqn:CE; inversion H; subst; clear H;
      (split; [exact W2|]; split; [lia|]).
    - apply Z.ltb_lt in CE. apply (sinv_from_cover _ [b; r; e]); [exact C2 | | |].
      + intros x [<-|[<-|[<-|[]]]].
        * apply dom_self. apply hd_in_set_last; exact Len.
        * apply (dom_by _ e); [apply x_in_set_last | lia].
        * apply dom_self. apply x_in_set_last.
      + apply (good_set_last (evals st)); [exact G | lia | exact Ge].
      + rewrite set_last_length; assumption.
    - apply Z.ltb_ge in CE. apply (sinv_from_cover _ [b; r; e]); [exact C2 | | |].
      + intros x [<-|[<-|[<-|[]]]].
        * apply dom_self. apply hd_in_set_last; exact Len.
        * apply dom_self. apply x_in_set_last.
        * apply (dom_by _ r); [apply x_in_set_last | lia].
      + apply (good_set_last (evals st)); [exact G | lia | exact Gr2].
      + rewrite set_last_length; assumption. }
  apply Z.ltb_ge in CB.
  (* contraction: r >= b *)
  assert (Hcontr : forall (keep : ent -> bool),
            (forall c, keep c = false -> eval_ b <= eval_ c) ->
            match eval st1 with
            | None => None
            | Some (c, st2) => if keep c then Some (set_last s c, st2) else nm_shrink s st2
            end = Some (s2, st2) ->
            wf ivs st2 /\ (evals st <= evals st2)%nat /\ sinv (evals st2) s2).
  { intros keep Hkeep HH.
    destruct (eval st1) as [[c st2']|] eqn:E2; [|discriminate].
    destruct (eval_spec ivs _ _ _ W1 E2) as (W2 & B2 & B3 & B4).
    pose proof (eval_good ivs _ _ _ W1 E2) as Gc.
    assert (C2 : covers ivs (evals st2') [b; r; c]).
    { apply (covers_step ivs st1 c st2' [b; r]); auto.
      - intros x Hx. apply dom_self. cbn in *. intuition.
      - apply dom_self. right; right; left; reflexivity. }
    destruct (keep c) eqn:K.
    - inversion HH; subst; clear HH. split; [exact W2|]. split; [lia|].
      apply (sinv_from_cover _ [b; r; c]); [exact C2 | | |].
      + intros x [<-|[<-|[<-|[]]]].
        * apply dom_self. apply hd_in_set_last; exact Len.
        * apply (dom_by _ b); [apply hd_in_set_last; exact Len | exact CB].
        * apply dom_self. apply x_in_set_last.
      + apply (good_set_last (evals st)); [exact G | lia | exact Gc].
      + rewrite set_last_length; assumption.
    - specialize (Hkeep c K).
      assert (G2 : Forall (good ivs (evals st2')) s) by (eapply Forall_good_mono; [exact G | lia]).
      destruct (nm_shrink_inv s st2' s2 st2 b [b; r; c] W2 G2 Len eq_refl C2) as (W3 & D2 & D3 & D4); [|exact HH|].
      + intros x [<-|[<-|[<-|[]]]]; lia.
      + split; [exact W3|]. split; [lia | exact D3]. }
  destruct (eval_ r <? eval_ (last s ent0)) eqn:CW.
  - apply (Hcontr (fun c => eval_ c <=? eval_ r)); [|exact H].
    intros c K. apply Z.leb_gt in K. lia.
  - apply (Hcontr (fun c => eval_ c <? eval_ (last s ent0))); [|exact H].
    intros c K. apply Z.ltb_ge in K. lia.
Qed.

Lemma nm_finish_min sign max_iter it s st r st' :
  sinv (evals st) s -> nm_finish sign max_iter it s st = Some (r, st') ->
  exists b s0, is_min ivs (evals st) b /\ st' = st /\ r = mk_result sign b it st s0.
Proof.
  intros (G & C & _) H. unfold nm_finish in H. destruct (argmin_first s) as [b|] eqn:E; [|discriminate].
  inversion H; subst. exists b, (nm_final_status it max_iter). split; [|split; reflexivity].
  eapply argmin_is_min; eauto.
Qed.

End NM.

Lemma nm_loop_ok minimize us max_iter tolc cb interval k : forall it s st r st',
  let ivs := ev_internal (ev_sign minimize) us in
  wf ivs st -> sinv ivs (evals st) s ->
  nm_loop true (ev_sign minimize) max_iter tolc cb interval k it s st = Some (r, st') ->
  result_ok minimize us r st'.
Proof.
  induction k as [|k IH]; intros it s st r st' ivs W HS H; cbn [nm_loop] in H.
  - destruct (nm_finish_min ivs _ _ _ _ _ _ _ HS H) as (b & s0 & M & -> & ->). apply mk_result_ok; assumption.
  - pose proof (sinv_sort ivs _ _ HS) as HS1.
    destruct (Z.abs _ <? tolc).
    + destruct (nm_finish_min ivs _ _ _ _ _ _ _ HS1 H) as (b & s0 & M & -> & ->). apply mk_result_ok; assumption.
    + destruct (nm_step (nm_sort s) st) as [[s2 st2]|] eqn:E; [|discriminate].
      destruct (nm_step_inv ivs _ _ _ _ W HS1 (nm_sort_sorted s) E) as (W2 & B2 & HS2).
      destruct (report_progress cb interval it).
      * unfold nm_early in H. destruct HS2 as (G & C & _).
        destruct (argmin_first s2) as [b|] eqn:EA; [|discriminate]. inversion H; subst.
        apply mk_result_ok; [exact W2|]. eapply argmin_is_min; eauto.
      * eapply IH; eauto.
Qed.

Theorem nm_run_ok minimize n max_iter tolc cb interval us r st :
  nm_run_st true minimize n max_iter tolc cb interval us = Some (r, st) ->
  result_ok minimize us r st.
Proof.
  unfold nm_run_st. set (ivs := ev_internal (ev_sign minimize) us).
  destruct n as [|n]; [discriminate|].
  destruct (eval_n _ (est0 ivs)) as [[s st0]|] eqn:E; [|discriminate].
  intros H.
  destruct (eval_n_spec ivs _ _ _ _ (wf_est0 ivs) E) as (W & A2 & A3 & A4 & A5).
  specialize (A5 [] (covers_nil0 ivs)). cbn [app] in A5.
  eapply nm_loop_ok; [exact W | | exact H].
  split; [exact A3|]. split; [exact A5 | lia].
Qed.

(* mirror *)
Lemma nm_finish_mirror max_iter it s st :
  nm_finish (-1) max_iter it s st = neg_out (nm_finish 1 max_iter it s st).
Proof. unfold nm_finish. destruct (argmin_first s); [cbn; rewrite mk_result_neg|]; reflexivity. Qed.

Lemma nm_loop_mirror eb max_iter tolc cb interval k : forall it s st,
  nm_loop eb (-1) max_iter tolc cb interval k it s st
  = neg_out (nm_loop eb 1 max_iter tolc cb interval k it s st).
Proof.
  induction k as [|k IH]; intros it s st; cbn [nm_loop].
  - apply nm_finish_mirror.
  - destruct (Z.abs _ <? tolc); [apply nm_finish_mirror|].
    destruct (nm_step (nm_sort s) st) as [[s2 st2]|]; [|reflexivity].
    destruct (report_progress cb interval it); [|apply IH].
    unfold nm_early. destruct eb.
    + destruct (argmin_first s2); [cbn; rewrite mk_result_neg|]; reflexivity.
    + cbn. rewrite mk_result_neg. reflexivity.
Qed.

Theorem nm_run_mirror eb n max_iter tolc cb interval us :
  nm_run_st eb false n max_iter tolc cb interval us
  = neg_out (nm_run_st eb true n max_iter tolc cb interval (map Z.opp us)).
Proof.
  unfold nm_run_st. cbn [ev_sign]. rewrite internal_mirror.
  destruct n as [|n]; [reflexivity|].
  destruct (eval_n _ _) as [[s st0]|]; [|reflexivity].
  apply nm_loop_mirror.
Qed.
