(* C19 part B - bookkeeping model of the OUTER loop of solvor/bayesian.py: bayesian_opt().  Definitions only.
   Roles: best_solution / best_obj.  Oracle: which point is sampled next (GP surrogate, acquisition
   optimisation by an inner nelder_mead on the acquisition function - which has its OWN Evaluator and never
   calls the user's objective -, Cholesky fallback, rng) and the on_progress answers. *)
From Coq Require Import List ZArith Bool Arith Lia.
From SV Require Import C19.B_Common.
Import ListNotations.
Open Scope Z_scope.

(* status = MAX_ITER if iteration >= max_iter - 1 else OPTIMAL   (Python ints) *)
Definition bo_final_status (iteration max_iter : nat) : status :=
  if Z.of_nat iteration >=? Z.of_nat max_iter - 1 then MAX_ITER else OPTIMAL.

(* for iteration in range(n_initial, max_iter): k = iterations still to run, it = the next value of
   `iteration`, last = the value `iteration` currently has *)
Fixpoint bo_loop (sign : Z) (max_iter : nat) (cb : option (nat -> bool)) (interval : nat)
         (k it last : nat) (best : ent) (st : est) : option (result * est) :=
  match k with
  | O => Some (mk_result sign best (last + 1) st (bo_final_status last max_iter), st)
  | S k' =>
    match eval st with                                               (* y_new = evaluate(top_candidate) *)
    | None => None
    | Some (y, st') =>
      let best' := if eval_ y <? eval_ best then y else best in      (* if y_new < best_obj *)
      if report_progress cb interval (it + 1) then Some (mk_result sign best' (it + 1) st' FEASIBLE, st')
      else bo_loop sign max_iter cb interval k' (S it) it best' st'
    end
  end.

(* None = raises (n_initial = 0: min() of an empty range) or stream too short *)
Definition bo_run_st (minimize : bool) (n_initial max_iter : nat)
           (cb : option (nat -> bool)) (interval : nat) (user_values : list Z) : option (result * est) :=
  let sign := ev_sign minimize in
  match eval_n n_initial (est0 (ev_internal sign user_values)) with    (* ys = [evaluate(x) for x in xs] *)
  | None => None
  | Some (ys, st) =>
    match argmin_first ys with
    | None => None
    | Some best => bo_loop sign max_iter cb interval (max_iter - n_initial) n_initial n_initial best st
    end
  end.

Definition bo_run minimize n_initial max_iter cb interval user_values : option result :=
  option_map fst (bo_run_st minimize n_initial max_iter cb interval user_values).
