(* C19 part B - proofs about the value-flow machine of bfgs / lbfgs (B_Flow.v):
   the reported objective is the value of exactly the objective call whose point is returned. *)
From Coq Require Import List ZArith Bool Arith Lia.
From SV Require Import C19.B_Common C19.B_Flow C19.B_ProofsCommon.
Import ListNotations.
Open Scope Z_scope.


Section Flow.
Variable us : list Z.

Lemma qn_report_ok st it ev s r st' :
  wf us st -> qn_report st it ev s = Some (r, st') ->
  flow_ok us r st' /\ S (r_sol r) = evals st'.
Proof.
  intros W H. unfold qn_report in H. destruct (eval st) as [[c st1]|] eqn:E; [|discriminate].
  inversion H; subst; clear H.
  destruct (eval_spec us _ _ _ W E) as (W1 & A2 & A3 & A4).
  pose proof (eval_good us _ _ _ W E) as [G1 G2].
  split; [|cbn [r_sol]; lia].
  unfold flow_ok; cbn [r_sol r_obj]. split; [exact G1|]. split; [exact G2 | apply wf_length; exact W1].
Qed.

Lemma qn_loop_ok max_iter conv bt cb interval k : forall it ev st r st',
  wf us st ->
  qn_loop max_iter conv bt cb interval k it ev st = Some (r, st') ->
  flow_ok us r st' /\ S (r_sol r) = evals st'.
Proof.
  induction k as [|k IH]; intros it ev st r st' W H; cbn [qn_loop] in H.
  - eapply qn_report_ok; eauto.
  - destruct (conv it); [eapply qn_report_ok; eauto|].
    destruct ((bt it =? 0)%nat || (30 <? bt it)%nat); [discriminate|].
    destruct (eval_n (1 + bt it) st) as [[es st1]|] eqn:E; [|discriminate].
    destruct (eval_n_spec us _ _ _ _ W E) as (W1 & _).
    destruct (eval st1) as [[c st2]|] eqn:E2; [|discriminate].
    destruct (eval_spec us _ _ _ W1 E2) as (W2 & A2 & A3 & A4).
    pose proof (eval_good us _ _ _ W1 E2) as [G1 G2].
    destruct (report_progress cb interval (it + 1)).
    + inversion H; subst; clear H. split; [|cbn [r_sol]; lia].
      unfold flow_ok; cbn [r_sol r_obj]. split; [exact G1|]. split; [exact G2 | apply wf_length; exact W2].
    + eapply IH; eauto.
Qed.

End Flow.

Theorem bfgs_run_ok max_iter conv bt cb interval us r st :
  bfgs_run_st max_iter conv bt cb interval us = Some (r, st) ->
  flow_ok us r st /\ S (r_sol r) = evals st.
Proof. unfold bfgs_run_st. apply qn_loop_ok. apply wf_est0. Qed.

Theorem lbfgs_run_ok max_iter conv bt cb interval us r st :
  lbfgs_run_st max_iter conv bt cb interval us = Some (r, st) ->
  flow_ok us r st /\ S (r_sol r) = evals st.
Proof. unfold lbfgs_run_st. apply qn_loop_ok. apply wf_est0. Qed.
