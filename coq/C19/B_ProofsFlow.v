(* C19 part B - proofs about the value-flow machines of powell / bfgs / lbfgs (B_Flow.v):
   the reported objective is the value of exactly the objective call whose point is returned. *)
From Coq Require Import List ZArith Bool Arith Lia.
From SV Require Import C19.B_Common C19.B_Flow C19.B_ProofsCommon.
Import ListNotations.
Open Scope Z_scope.

(* us = raw user values of the objective calls, in call order *)
Definition flow_ok (us : list Z) (r : result) (st : est) : Prop :=
  (r_sol r < evals st)%nat /\ nth_error us (r_sol r) = Some (r_obj r) /\
  (evals st + length (rest st) = length us)%nat.

Section Flow.
Variable us : list Z.

Lemma last_in_cons (r : list ent) (e : ent) : In (last r e) (e :: r).
Proof.
  induction r as [|a t IH]; cbn [last]; [left; reflexivity|].
  destruct t as [|b t']; [right; left; reflexivity|].
  destruct IH as [IH|IH]; [left; exact IH | right; right; exact IH].
Qed.

Lemma calls_last_spec k st e st' :
  wf us st -> calls_last k st = Some (e, st') ->
  wf us st' /\ good us (evals st') e /\ (evals st <= evals st')%nat.
Proof.
  intros W H. unfold calls_last in H.
  destruct (eval_n k st) as [[es st1]|] eqn:E; [|discriminate].
  destruct es as [|x r]; [discriminate|]. inversion H; subst; clear H.
  destruct (eval_n_spec us _ _ _ _ W E) as (W1 & A2 & A3 & _).
  split; [exact W1|]. split; [|lia].
  rewrite Forall_forall in A3. apply A3. apply last_in_cons.
Qed.

Lemma good_flow_ok cur it ev s st :
  wf us st -> good us (evals st) cur -> flow_ok us (pw_result cur it ev s) st.
Proof.
  intros W [G1 G2]. unfold flow_ok, pw_result; cbn [r_sol r_obj].
  split; [exact G1|]. split; [exact G2 | apply wf_length; exact W].
Qed.

Lemma pw_dirs_inv lens n : forall j cur ev st c j' ev' st',
  wf us st -> good us (evals st) cur ->
  pw_dirs lens n j cur ev st = Some (c, j', ev', st') ->
  wf us st' /\ good us (evals st') c.
Proof.
  induction n as [|n IH]; intros j cur ev st c j' ev' st' W G H; cbn [pw_dirs] in H.
  - inversion H; subst. split; assumption.
  - destruct (calls_last (lens j) st) as [[c1 st1]|] eqn:E; [|discriminate].
    destruct (calls_last_spec _ _ _ _ W E) as (W1 & G1 & _).
    eapply IH; eauto.
Qed.

Lemma pw_loop_ok max_iter n lens conv moved cb interval k : forall it j cur ev st r st',
  wf us st -> good us (evals st) cur ->
  pw_loop max_iter n lens conv moved cb interval k it j cur ev st = Some (r, st') ->
  flow_ok us r st'.
Proof.
  induction k as [|k IH]; intros it j cur ev st r st' W G H; cbn [pw_loop] in H.
  - inversion H; subst. apply good_flow_ok; assumption.
  - destruct (pw_dirs lens n j cur ev st) as [[[[c j1] ev1] st1]|] eqn:E; [|discriminate].
    destruct (pw_dirs_inv _ _ _ _ _ _ _ _ _ _ W G E) as (W1 & G1).
    destruct (conv it).
    + inversion H; subst. apply good_flow_ok; assumption.
    + destruct (moved it).
      * destruct (calls_last (lens j1) st1) as [[c2 st2]|] eqn:E2; [|discriminate].
        destruct (calls_last_spec _ _ _ _ W1 E2) as (W2 & G2 & _).
        destruct (report_progress cb interval (it + 1)).
        -- inversion H; subst. apply good_flow_ok; assumption.
        -- eapply IH; eauto.
      * destruct (report_progress cb interval (it + 1)).
        -- inversion H; subst. apply good_flow_ok; assumption.
        -- eapply IH; eauto.
Qed.

Lemma qn_report_ok st it ev s r st' :
  wf us st -> qn_report st it ev s = Some (r, st') ->
  flow_ok us r st' /\ S (r_sol r) = evals st'.
Proof.
  intros W H. unfold qn_report in H. destruct (eval st) as [[c st1]|] eqn:E; [|discriminate].
  inversion H; subst; clear H.
  destruct (eval_spec us _ _ _ W E) as (W1 & A2 & A3 & A4).
  pose proof (eval_good us _ _ _ W E) as [G1 G2].
  split; [|cbn [r_sol]; lia].
  unfold flow_ok; cbn [r_sol r_obj]. split; [exact G1|]. split; [exact G2 | apply wf_length; exact W1].
Qed.

Lemma qn_loop_ok max_iter conv bt cb interval k : forall it ev st r st',
  wf us st ->
  qn_loop max_iter conv bt cb interval k it ev st = Some (r, st') ->
  flow_ok us r st' /\ S (r_sol r) = evals st'.
Proof.
  induction k as [|k IH]; intros it ev st r st' W H; cbn [qn_loop] in H.
  - eapply qn_report_ok; eauto.
  - destruct (conv it); [eapply qn_report_ok; eauto|].
    destruct ((bt it =? 0)%nat || (30 <? bt it)%nat); [discriminate|].
    destruct (eval_n (1 + bt it) st) as [[es st1]|] eqn:E; [|discriminate].
    destruct (eval_n_spec us _ _ _ _ W E) as (W1 & _).
    destruct (eval st1) as [[c st2]|] eqn:E2; [|discriminate].
    destruct (eval_spec us _ _ _ W1 E2) as (W2 & A2 & A3 & A4).
    pose proof (eval_good us _ _ _ W1 E2) as [G1 G2].
    destruct (report_progress cb interval (it + 1)).
    + inversion H; subst; clear H. split; [|cbn [r_sol]; lia].
      unfold flow_ok; cbn [r_sol r_obj]. split; [exact G1|]. split; [exact G2 | apply wf_length; exact W2].
    + eapply IH; eauto.
Qed.

End Flow.

Theorem powell_run_ok n max_iter lens conv moved cb interval us r st :
  powell_run_st n max_iter lens conv moved cb interval us = Some (r, st) -> flow_ok us r st.
Proof.
  unfold powell_run_st. destruct (eval (est0 us)) as [[c0 st0]|] eqn:E; [|discriminate].
  intros H.
  destruct (eval_spec us _ _ _ (wf_est0 us) E) as (W & _).
  eapply pw_loop_ok; [exact W | | exact H].
  exact (eval_good us _ _ _ (wf_est0 us) E).
Qed.

Theorem bfgs_run_ok max_iter conv bt cb interval us r st :
  bfgs_run_st max_iter conv bt cb interval us = Some (r, st) ->
  flow_ok us r st /\ S (r_sol r) = evals st.
Proof. unfold bfgs_run_st. apply qn_loop_ok. apply wf_est0. Qed.

Theorem lbfgs_run_ok max_iter conv bt cb interval us r st :
  lbfgs_run_st max_iter conv bt cb interval us = Some (r, st) ->
  flow_ok us r st /\ S (r_sol r) = evals st.
Proof. unfold lbfgs_run_st. apply qn_loop_ok. apply wf_est0. Qed.
