(* C19 part B - proofs about the particle_swarm bookkeeping machine (B_PSO.v). *)
From Coq Require Import List ZArith Bool Arith Lia.
From SV Require Import C19.B_Common C19.B_PSO C19.B_ProofsCommon.
Import ListNotations.
Open Scope Z_scope.

Section PSO.
Variable ivs : list Z.

Definition pgood (n : nat) (p : particle) : Prop := good ivs n (snd p).

Lemma pso_sweep_inv ps : forall best st ps' best' st',
  wf ivs st -> Forall (pgood (evals st)) ps -> is_min ivs (evals st) best ->
  pso_sweep ps best st = Some (ps', best', st') ->
  wf ivs st' /\ (evals st <= evals st')%nat /\ Forall (pgood (evals st')) ps' /\ is_min ivs (evals st') best'.
Proof.
  induction ps as [|[cur pb] r IH]; intros best st ps' best' st' W HG HM H; cbn [pso_sweep] in H.
  - inversion H; subst. split; [exact W|]. split; [lia|]. split; [constructor | exact HM].
  - destruct (eval st) as [[c st1]|] eqn:E; [|discriminate].
    destruct (pso_sweep r _ st1) as [[[r' b] st2]|] eqn:E2; [|discriminate].
    inversion H; subst; clear H.
    destruct (eval_spec ivs _ _ _ W E) as (W1 & A2 & A3 & A4).
    pose proof (eval_good ivs _ _ _ W E) as Gc.
    inversion HG as [|? ? Gp Gr]; subst. unfold pgood in Gp; cbn [snd] in Gp.
    assert (HM1 : is_min ivs (evals st1)
                    (if (eval_ c <? eval_ pb) && (eval_ c <? eval_ best) then c else best)).
    { destruct (eval_ c <? eval_ pb) eqn:C1; cbn [andb].
      - destruct (eval_ c <? eval_ best) eqn:C2.
        + apply Z.ltb_lt in C2. apply (is_min_new ivs st c st1 best); auto. lia.
        + apply Z.ltb_ge in C2. apply (is_min_keep ivs st c st1 best); auto.
      - apply Z.ltb_ge in C1. apply (is_min_keep ivs st c st1 best); auto.
        destruct HM as [_ L]. pose proof (good_lower ivs _ _ _ Gp L). lia. }
    assert (HG1 : Forall (pgood (evals st1)) r).
    { eapply Forall_impl; [|exact Gr]. intros q Hq. unfold pgood in *. eapply good_mono; [exact Hq | lia]. }
    destruct (IH _ _ _ _ _ W1 HG1 HM1 E2) as (W2 & B2 & B3 & B4).
    split; [exact W2|]. split; [lia|]. split; [|exact B4].
    constructor; [|exact B3]. unfold pgood; cbn [snd].
    destruct (eval_ c <? eval_ pb).
    + apply (good_mono ivs (evals st1)); [exact Gc | lia].
    + apply (good_mono ivs (evals st)); [exact Gp | lia].
Qed.
End PSO.

Lemma pso_loop_ok minimize us cb interval k : forall it ps best st r st',
  let ivs := ev_internal (ev_sign minimize) us in
  wf ivs st -> Forall (pgood ivs (evals st)) ps -> is_min ivs (evals st) best ->
  pso_loop (ev_sign minimize) cb interval k it ps best st = Some (r, st') ->
  result_ok minimize us r st'.
Proof.
  induction k as [|k IH]; intros it ps best st r st' ivs W HG HM H; cbn [pso_loop] in H.
  - inversion H; subst. apply mk_result_ok; assumption.
  - destruct (pso_sweep ps best st) as [[[ps1 best1] st1]|] eqn:E; [|discriminate].
    destruct (pso_sweep_inv ivs _ _ _ _ _ _ W HG HM E) as (W1 & B2 & B3 & B4).
    destruct (report_progress cb interval it).
    + inversion H; subst. apply mk_result_ok; assumption.
    + eapply IH; eauto.
Qed.

Theorem pso_run_ok minimize n_particles max_iter cb interval us r st :
  pso_run_st minimize n_particles max_iter cb interval us = Some (r, st) ->
  result_ok minimize us r st.
Proof.
  unfold pso_run_st. set (ivs := ev_internal (ev_sign minimize) us).
  destruct (eval_n _ (est0 ivs)) as [[fit st0]|] eqn:E; [|discriminate].
  destruct (argmin_first fit) as [best|] eqn:EA; [|discriminate].
  intros H.
  destruct (eval_n_spec ivs _ _ _ _ (wf_est0 ivs) E) as (W & A2 & A3 & A4 & A5).
  specialize (A5 [] (covers_nil0 ivs)). cbn [app] in A5.
  eapply pso_loop_ok; [exact W | | | exact H].
  - apply Forall_forall. intros p Hp. apply in_map_iff in Hp. destruct Hp as (e & <- & He).
    unfold pgood; cbn [snd]. rewrite Forall_forall in A3. exact (A3 e He).
  - eapply argmin_is_min; eauto.
Qed.

Lemma pso_loop_mirror cb interval k : forall it ps best st,
  pso_loop (-1) cb interval k it ps best st = neg_out (pso_loop 1 cb interval k it ps best st).
Proof.
  induction k as [|k IH]; intros it ps best st; cbn [pso_loop].
  - cbn. rewrite mk_result_neg. reflexivity.
  - destruct (pso_sweep ps best st) as [[[ps1 best1] st1]|]; [|reflexivity].
    destruct (report_progress cb interval it); [cbn; rewrite mk_result_neg; reflexivity|].
    apply IH.
Qed.

Theorem pso_run_mirror n_particles max_iter cb interval us :
  pso_run_st false n_particles max_iter cb interval us
  = neg_out (pso_run_st true n_particles max_iter cb interval (map Z.opp us)).
Proof.
  unfold pso_run_st. cbn [ev_sign]. rewrite internal_mirror.
  destruct (eval_n _ _) as [[fit st0]|]; [|reflexivity].
  destruct (argmin_first fit) as [best|]; [|reflexivity].
  apply pso_loop_mirror.
Qed.
