(* C19 part B - the readable specification of a group-1 Result and a boolean checker for it, so that the
   IMPLEMENTATION's outputs can be judged inside coqc independently of the bookkeeping machines.
     us   = the user's objective values of all objective calls of the run, in call order
     ids  = indices of the calls whose (copied) point equals the returned solution
     obj, evaluations = Result.objective, Result.evaluations *)
From Coq Require Import List ZArith Bool Arith Lia.
Import ListNotations.
Open Scope Z_scope.

Definition Spec1 (minimize : bool) (us : list Z) (ids : list nat) (obj : Z) (evaluations : nat) : Prop :=
  (exists i, In i ids /\ nth_error us i = Some obj) /\          (* objective = f(returned solution), user's sign *)
  (forall v, In v us -> if minimize then obj <= v else v <= obj) /\   (* at least as good as everything evaluated *)
  evaluations = length us.                                      (* evaluations = number of objective calls *)

Definition nth_is (us : list Z) (obj : Z) (i : nat) : bool :=
  match nth_error us i with Some v => v =? obj | None => false end.

Definition spec1_check (minimize : bool) (us : list Z) (ids : list nat) (obj : Z) (evaluations : nat) : bool :=
  existsb (nth_is us obj) ids &&
  forallb (fun v => if minimize then obj <=? v else v <=? obj) us &&
  (evaluations =? length us)%nat.

Lemma spec1_check_sound minimize us ids obj evaluations :
  spec1_check minimize us ids obj evaluations = true -> Spec1 minimize us ids obj evaluations.
Proof.
  unfold spec1_check, Spec1. intros H.
  apply andb_prop in H. destruct H as [H H3]. apply andb_prop in H. destruct H as [H1 H2].
  split; [|split].
  - apply existsb_exists in H1. destruct H1 as (i & Hi & Hn). exists i. split; [exact Hi|].
    unfold nth_is in Hn. destruct (nth_error us i) as [v|]; [|discriminate].
    apply Z.eqb_eq in Hn. subst. reflexivity.
  - intros v Hv. rewrite forallb_forall in H2. specialize (H2 v Hv).
    destruct minimize; apply Z.leb_le in H2; exact H2.
  - apply Nat.eqb_eq in H3. exact H3.
Qed.

(* group 2 (powell, bfgs, lbfgs): only "the reported objective is f(returned point)" *)
Definition Spec2 (us : list Z) (ids : list nat) (obj : Z) : Prop := exists i, In i ids /\ nth_error us i = Some obj.
Definition spec2_check (us : list Z) (ids : list nat) (obj : Z) : bool := existsb (nth_is us obj) ids.
Lemma spec2_check_sound us ids obj : spec2_check us ids obj = true -> Spec2 us ids obj.
Proof.
  unfold spec2_check, Spec2. intros H1.
  apply existsb_exists in H1. destruct H1 as (i & Hi & Hn). exists i. split; [exact Hi|].
  unfold nth_is in Hn. destruct (nth_error us i) as [v|]; [|discriminate].
  apply Z.eqb_eq in Hn. subst. reflexivity.
Qed.
