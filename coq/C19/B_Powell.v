(* C19 part B - VALUE-FLOW model of solvor/powell.py: powell(), _line_search(), _bracket_minimum(),
   _golden_section_search().  Definitions only.  powell does not use the Evaluator: the stream holds the raw user
   values of the objective calls in call order (est0 user_values); inside a line search the code works on
   f_alpha = sign * objective and hands back sign * f_opt.
   Modelled exactly: which calls are made and which call's point / value is handed on - the bracket loop
   `while fb > fc and evals < max_iter` (comparisons of objective values), the golden-section loop (one call per
   iteration, fb < fd decides which slot is refreshed), f_min = f(x_min) as the LAST call of the search, the
   degenerate branch `return x, objective_fn(x), 1`, the code's own evals counters, the outer loop.
   Oracle (float decisions recorded from the run): per line search j, [ls j] = (alpha_min >= alpha_max,
   number of golden-section iterations before `c - a < tol` breaks the loop); [conv it] =
   abs(f_start - f_x) < tol*(1+abs(f_x)); [moved it] = disp_norm > 1e-12; the points themselves. *)
From Coq Require Import List ZArith Bool Arith Lia.
From SV Require Import C19.B_Common.
Import ListNotations.
Open Scope Z_scope.

(* while fb > fc and evals < max_iter (= 50): a, b, c = b, c, ...; fa, fb = fb, fc; fc = f(c); evals += 1
   fuel only makes the recursion structural (50 suffices because evals < 50 bounds the loop); None = exhausted *)
Fixpoint bracket_loop (fuel : nat) (sign : Z) (evals_ : nat) (fb fc : Z) (st : est) : option (nat * est) :=
  match fuel with
  | O => None
  | S fuel' =>
    if (fc <? fb) && (evals_ <? 50)%nat then
      match eval st with
      | None => None
      | Some (c, st') => bracket_loop fuel' sign (S evals_) fc (sign * eval_ c) st'
      end
    else Some (evals_, st)
  end.

(* _bracket_minimum(f_alpha, mid, ...): returns the number of calls it made (the points a, b, c are opaque) *)
Definition bracket (sign : Z) (st : est) : option (nat * est) :=
  match eval st with                                                   (* fa = f(a) *)
  | None => None
  | Some (a, st1) =>
    match eval st1 with                                                (* fb = f(b) *)
    | None => None
    | Some (b, st2) =>
      let fa := sign * eval_ a in
      let fb := sign * eval_ b in
      let fb' := if fa <? fb then fa else fb in                        (* if fa < fb: swap *)
      match eval st2 with                                              (* fc = f(c); evals = 3 *)
      | None => None
      | Some (c, st3) => bracket_loop 50 sign 3 fb' (sign * eval_ c) st3
      end
    end
  end.

(* the loop of _golden_section_search: m iterations, each refreshes fb or fd by one call *)
Fixpoint golden_loop (m : nat) (sign : Z) (fb fd : Z) (st : est) : option est :=
  match m with
  | O => Some st
  | S m' =>
    match eval st with
    | None => None
    | Some (x, st') =>
      if fb <? fd then golden_loop m' sign (sign * eval_ x) fb st'     (* fd = fb; fb = f(b) *)
      else golden_loop m' sign fd (sign * eval_ x) st'                 (* fb = fd; fd = f(d) *)
    end
  end.

(* _golden_section_search: returns (x_min, f_min = f(x_min), evals + 1); m <= max_iter = 100 *)
Definition golden (sign : Z) (m : nat) (st : est) : option (ent * nat * est) :=
  if (100 <? m)%nat then None else
  match eval st with                                                   (* fb = f(b) *)
  | None => None
  | Some (b, st1) =>
    match eval st1 with                                                (* fd = f(d); evals = 2 *)
    | None => None
    | Some (d, st2) =>
      match golden_loop m sign (sign * eval_ b) (sign * eval_ d) st2 with
      | None => None
      | Some st3 =>
        match eval st3 with                                            (* f_min = f(x_min) *)
        | None => None
        | Some (x, st4) => Some ((eid x, sign * eval_ x), (2 + m + 1)%nat, st4)
        end
      end
    end
  end.

(* _line_search: returns (x_new, sign * f_opt, evals) - identity and USER value of the point handed back *)
Definition line_search (sign : Z) (o : bool * nat) (st : est) : option (ent * nat * est) :=
  if fst o then                                                        (* alpha_min >= alpha_max *)
    match eval st with                                                 (* return x, objective_fn(x), 1 *)
    | None => None
    | Some (x, st') => Some (x, 1%nat, st')
    end
  else
    match bracket sign st with
    | None => None
    | Some (bracket_evals, st1) =>
      match golden sign (snd o) st1 with
      | None => None
      | Some (xm, search_evals, st2) => Some ((eid xm, sign * eval_ xm), (bracket_evals + search_evals)%nat, st2)
      end
    end.

(* for i in range(n): x, f_x, ls_evals = _line_search(...); evals += ls_evals
   j = ordinal of the next line search (argument of the oracle) *)
Fixpoint pw_dirs (sign : Z) (ls : nat -> bool * nat) (n j : nat) (cur : ent) (ev : nat) (st : est)
  : option (ent * nat * nat * est) :=
  match n with
  | O => Some (cur, j, ev, st)
  | S n' =>
    match line_search sign (ls j) st with
    | None => None
    | Some (c, k, st') => pw_dirs sign ls n' (S j) c (ev + k)%nat st'
    end
  end.

Definition pw_result (cur : ent) (it ev : nat) (s : status) : result := mkR (eid cur) (eval_ cur) it ev s.

(* for iteration in range(max_iter) *)
Fixpoint pw_loop (sign : Z) (max_iter n : nat) (ls : nat -> bool * nat) (conv moved : nat -> bool)
         (cb : option (nat -> bool)) (interval : nat)
         (k it j : nat) (cur : ent) (ev : nat) (st : est) : option (result * est) :=
  match k with
  | O => Some (pw_result cur max_iter ev MAX_ITER, st)
  | S k' =>
    match pw_dirs sign ls n j cur ev st with
    | None => None
    | Some (c, j1, ev1, st1) =>
      if conv it then Some (pw_result c it ev1 OPTIMAL, st1)          (* Result(x, f_x, iteration, evals) *)
      else
        let extra :=
          if moved it then                                            (* extra search along the displacement *)
            match line_search sign (ls j1) st1 with
            | None => None
            | Some (c2, k2, st2) => Some (c2, S j1, (ev1 + k2)%nat, st2)
            end
          else Some (c, j1, ev1, st1) in
        match extra with
        | None => None
        | Some (c2, j2, ev2, st2) =>
          if report_progress cb interval (it + 1) then Some (pw_result c2 (it + 1) ev2 FEASIBLE, st2)
          else pw_loop sign max_iter n ls conv moved cb interval k' (S it) j2 c2 ev2 st2
        end
    end
  end.

Definition powell_run_st (minimize : bool) (n max_iter : nat) (ls : nat -> bool * nat) (conv moved : nat -> bool)
           (cb : option (nat -> bool)) (interval : nat) (user_values : list Z) : option (result * est) :=
  match eval (est0 user_values) with                                    (* f_x = objective_fn(x); evals += 1 *)
  | None => None
  | Some (c0, st0) => pw_loop (ev_sign minimize) max_iter n ls conv moved cb interval max_iter 0 0 c0 1 st0
  end.
Definition powell_run minimize n max_iter ls conv moved cb interval user_values : option result :=
  option_map fst (powell_run_st minimize n max_iter ls conv moved cb interval user_values).
