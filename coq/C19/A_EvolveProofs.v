(* Proofs about the evolve machine (A_Evolve.v): population bookkeeping with elitism and stable
   sorting, for every stream of child values and every stop oracle. *)
From Coq Require Import List ZArith Bool Arith Lia.
From SV Require Import C19.Common C19.A_Evolve C19.A_AnnealProofs C19.A_TabuProofs.
Import ListNotations.
Open Scope Z_scope.

(* ---------------------------------------------------------------- stable insertion sort *)
Lemma ins_In p q l : In p (ins q l) <-> p = q \/ In p l.
Proof.
  induction l as [|r l IH]; simpl.
  - split; intros [H|H]; auto; try contradiction.
  - destruct (snd q <=? snd r); simpl.
    + split; intros [H|H]; auto.
    + rewrite IH. split; intros H; tauto.
Qed.

Lemma isort_In p l : In p (isort l) <-> In p l.
Proof.
  induction l as [|q l IH]; simpl; [tauto|]. rewrite ins_In, IH. split; intros [H|H]; auto.
Qed.

Lemma isort_Forall (P : slot -> Prop) l : Forall P l -> Forall P (isort l).
Proof. rewrite !Forall_forall. intros H p Hp. apply H. apply isort_In. exact Hp. Qed.

Fixpoint lsorted (l : list slot) : Prop :=
  match l with [] => True | p :: r => Forall (fun q => snd p <= snd q) r /\ lsorted r end.

Lemma ins_sorted q l : lsorted l -> lsorted (ins q l).
Proof.
  induction l as [|r l IH]; simpl; intros H.
  - split; [constructor | exact I].
  - destruct H as [Hr Hl]. destruct (snd q <=? snd r) eqn:Hle; simpl.
    + apply Z.leb_le in Hle. split; [|split; assumption].
      constructor; [exact Hle|]. eapply Forall_impl; [|exact Hr]. simpl. intros a Ha. lia.
    + apply Z.leb_gt in Hle. split; [|apply IH; exact Hl].
      apply Forall_forall. intros a Ha. apply ins_In in Ha. destruct Ha as [->|Ha]; [lia|].
      rewrite Forall_forall in Hr. apply Hr. exact Ha.
Qed.

Lemma isort_sorted l : lsorted (isort l).
Proof. induction l as [|q l IH]; simpl; [exact I | apply ins_sorted; exact IH]. Qed.

(* pop[0] after sorting is minimal *)
Lemma isort_head_min l p r : isort l = p :: r -> forall q, In q l -> snd p <= snd q.
Proof.
  intros H q Hq. pose proof (isort_sorted l) as Hs. rewrite H in Hs. destruct Hs as [Hr _].
  apply isort_In in Hq. rewrite H in Hq. destruct Hq as [<-|Hq]; [lia|].
  rewrite Forall_forall in Hr. apply Hr. exact Hq.
Qed.

Lemma firstn_Forall {A} (P : A -> Prop) n l : Forall P l -> Forall P (firstn n l).
Proof.
  revert l. induction n as [|n IH]; intros l H; simpl; [constructor|].
  destruct l as [|a l]; [constructor|]. inversion H; subst. constructor; auto.
Qed.

Lemma firstn_head {A} n (l : list A) p r : firstn n l = p :: r -> exists r', l = p :: r'.
Proof.
  destruct n; simpl; [discriminate|]. destruct l as [|a l]; [discriminate|].
  intros H. injection H as -> _. exists l. reflexivity.
Qed.

(* ---------------------------------------------------------------- slots of fresh evaluations *)
Definition HoldsP (seen : list Z) (p : slot) : Prop := Holds seen (fst p) (snd p).

Lemma slots_from_cons m first u us :
  slots_from m first (u :: us) = (first, ev_call m u) :: slots_from m (S first) us.
Proof. reflexivity. Qed.

Lemma slots_from_holds m : forall us seen,
  Forall (HoldsP (seen ++ map (ev_call m) us)) (slots_from m (length seen) us).
Proof.
  induction us as [|u us IH]; intros seen; [constructor|].
  rewrite slots_from_cons. constructor.
  - unfold HoldsP. simpl. apply Holds_new.
  - specialize (IH (seen ++ [ev_call m u])).
    rewrite <- app_assoc in IH. simpl in IH.
    rewrite app_length in IH. simpl in IH. rewrite Nat.add_1_r in IH. exact IH.
Qed.

Lemma slots_from_snd m : forall us first, map snd (slots_from m first us) = map (ev_call m) us.
Proof.
  induction us as [|u us IH]; intros first; [reflexivity|].
  rewrite slots_from_cons. simpl. rewrite IH. reflexivity.
Qed.

Lemma HoldsP_app seen more l : Forall (HoldsP seen) l -> Forall (HoldsP (seen ++ more)) l.
Proof. intros H. eapply Forall_impl; [|exact H]. intros p Hp. apply Holds_app. exact Hp. Qed.

(* ---------------------------------------------------------------- invariant *)
(* only runs that are well-formed so far (g_ok) are constrained: a malformed run yields None *)
Definition g_inv (seen : list Z) (s : gst) : Prop :=
  g_ok s = true ->
  Forall (HoldsP seen) (g_pop s)
  /\ IsBest seen (g_best s) (g_best_obj s)
  /\ g_evals s = length seen.

Lemma min_of_slots (x : Z) (l : list slot) (more : list Z) :
  (forall q, In q l -> x <= snd q) -> (forall v, In v more -> exists q, In q l /\ snd q = v) ->
  Forall (Z.le x) more.
Proof.
  intros H1 H2. apply Forall_forall. intros v Hv. destruct (H2 v Hv) as [q [Hq <-]]. apply H1. exact Hq.
Qed.

Lemma g_init_inv m us0 s0 : g_init m us0 = Some s0 -> g_inv (map (ev_call m) us0) s0.
Proof.
  unfold g_init. destruct (isort (slots_from m 0 us0)) as [|[id x] r] eqn:Hs; [discriminate|].
  intros H. injection H as <-. intros _. simpl.
  pose proof (slots_from_holds m us0 []) as Hh. simpl in Hh.
  apply isort_Forall in Hh. rewrite Hs in Hh.
  split; [exact Hh|]. split; [|rewrite map_length; reflexivity].
  split.
  - inversion Hh; subst. assumption.
  - apply (min_of_slots x (slots_from m 0 us0)).
    + intros q Hq. exact (isort_head_min _ _ _ Hs q Hq).
    + intros v Hv. rewrite <- (slots_from_snd m us0 0%nat) in Hv. apply in_map_iff in Hv.
      destruct Hv as [q [Hq1 Hq2]]. exists q. split; assumption.
Qed.

Lemma g_step_ok m el ps it s e : g_ok (fst (g_step m el ps it s e)) = true -> g_ok s = true.
Proof.
  unfold g_step. simpl.
  destruct (firstn ps (isort (firstn el (g_pop s) ++ slots_from m (g_evals s) (g_kids e)))) as [|[id x] r]; simpl.
  - discriminate.
  - destruct (x <? g_best_obj s); simpl; intros H; apply andb_true_iff in H; tauto.
Qed.

Lemma g_step_inv m el ps it s e seen :
  g_inv seen s -> g_inv (seen ++ map (ev_call m) (g_vals e)) (fst (g_step m el ps it s e)).
Proof.
  intros Hinv Hok'. pose proof (g_step_ok _ _ _ _ _ _ Hok') as Hok.
  destruct (Hinv Hok) as [Hp [Hb He]]. clear Hinv.
  unfold g_vals. revert Hok'. unfold g_step. simpl.
  set (more := map (ev_call m) (g_kids e)).
  set (kids := slots_from m (g_evals s) (g_kids e)).
  set (newp := firstn el (g_pop s) ++ kids).
  assert (Hnew : Forall (HoldsP (seen ++ more)) newp).
  { apply Forall_app. split.
    - apply HoldsP_app. apply firstn_Forall. exact Hp.
    - unfold kids. rewrite He. apply slots_from_holds. }
  assert (Hpop : Forall (HoldsP (seen ++ more)) (firstn ps (isort newp))).
  { apply firstn_Forall. apply isort_Forall. exact Hnew. }
  assert (Hlen : (g_evals s + length (g_kids e))%nat = length (seen ++ more)).
  { rewrite app_length. unfold more. rewrite map_length. lia. }
  destruct (firstn ps (isort newp)) as [|[id x] r] eqn:Hf; simpl; [discriminate|].
  destruct (firstn_head _ _ _ _ Hf) as [r' Hs].
  assert (Hmin : Forall (Z.le x) more).
  { apply (min_of_slots x newp).
    - intros q Hq. exact (isort_head_min _ _ _ Hs q Hq).
    - intros v Hv. unfold more in Hv. rewrite <- (slots_from_snd m (g_kids e) (g_evals s)) in Hv.
      apply in_map_iff in Hv. destruct Hv as [q [Hq1 Hq2]]. exists q. split; [|exact Hq1].
      unfold newp. apply in_or_app. right. exact Hq2. }
  assert (Hhead : Holds (seen ++ more) id x).
  { inversion Hpop; subst. assumption. }
  destruct (x <? g_best_obj s) eqn:Hlt; simpl; intros _.
  - apply Z.ltb_lt in Hlt. split; [exact Hpop|]. split; [|exact Hlen].
    split; [exact Hhead|]. apply Forall_app. split; [|exact Hmin].
    apply Forall_le_trans with (b := g_best_obj s); [lia | exact (proj2 Hb)].
  - apply Z.ltb_ge in Hlt. split; [exact Hpop|]. split; [|exact Hlen].
    apply IsBest_app; [exact Hb|].
    apply Forall_le_trans with (b := x); [exact Hlt | exact Hmin].
Qed.

Lemma evolve_log_internal m us0 evs :
  map (ev_call m) us0 ++ flat_map (fun e => map (ev_call m) (g_vals e)) evs
  = map (ev_call m) (evolve_log us0 evs).
Proof. unfold evolve_log. rewrite map_app, map_flat_map. reflexivity. Qed.

Lemma evolve_spec m el mi us0 evs r :
  evolve m el mi us0 evs = Some r -> BestSpec m (evolve_log us0 evs) r.
Proof.
  unfold evolve. intros H.
  destruct (g_init m us0) as [s0|] eqn:Hi; [|discriminate].
  destruct (loop (g_step m el (length us0)) mi 1 s0 evs) as [[s it]|] eqn:HL; [|discriminate].
  destruct (g_ok s) eqn:Hok; [|discriminate]. injection H as <-.
  pose proof (loop_inv (g_step m el (length us0)) (fun e => map (ev_call m) (g_vals e)) g_inv
                (fun it s e seen => g_step_inv m el (length us0) it s e seen)
                mi 1%nat s0 evs (map (ev_call m) us0) s it (g_init_inv m us0 s0 Hi) HL Hok) as [_ [Hb He]].
  rewrite evolve_log_internal in Hb, He. unfold g_result.
  apply IsBest_BestSpec; [exact Hb|]. rewrite He, map_length. reflexivity.
Qed.

Lemma evolve_best_is_min m el mi us0 evs r :
  evolve m el mi us0 evs = Some r -> Forall (better_eq m (r_obj r)) (evolve_log us0 evs).
Proof. intros H. apply evolve_spec in H. exact (proj1 (proj2 H)). Qed.

Lemma evolve_evals_count m el mi us0 evs r :
  evolve m el mi us0 evs = Some r -> r_evals r = length (evolve_log us0 evs).
Proof. intros H. apply evolve_spec in H. exact (proj2 (proj2 H)). Qed.

(* ---------------------------------------------------------------- mirror *)
Lemma slots_from_mirror first us : slots_from false first us = slots_from true first (map Z.opp us).
Proof. unfold slots_from. rewrite map_ev_call_mirror, !map_length. reflexivity. Qed.

Lemma g_step_mirror el ps it s e : g_step false el ps it s e = g_step true el ps it s (g_neg e).
Proof. unfold g_step, g_neg. simpl. rewrite slots_from_mirror, map_length. reflexivity. Qed.

Lemma g_init_mirror us0 : g_init false us0 = g_init true (map Z.opp us0).
Proof. unfold g_init. rewrite slots_from_mirror, map_length. reflexivity. Qed.

Lemma evolve_mirror el mi us0 evs :
  evolve false el mi us0 evs = option_map neg_result (evolve true el mi (map Z.opp us0) (map g_neg evs)).
Proof.
  unfold evolve. rewrite g_init_mirror, map_length.
  destruct (g_init true (map Z.opp us0)) as [s0|]; [|reflexivity].
  rewrite (loop_map (g_step false el (length us0)) (g_step true el (length us0)) g_neg
             (g_step_mirror el (length us0))).
  destruct (loop (g_step true el (length us0)) mi 1 s0 (map g_neg evs)) as [[s it]|]; simpl; [|reflexivity].
  destruct (g_ok s); simpl; [|reflexivity].
  unfold g_result, neg_result; simpl. rewrite to_user_mirror. reflexivity.
Qed.

Lemma evolve_deterministic m el mi us0 evs r1 r2 :
  evolve m el mi us0 evs = Some r1 -> evolve m el mi us0 evs = Some r2 -> r1 = r2.
Proof. intros H1 H2. rewrite H1 in H2. injection H2 as <-. reflexivity. Qed.

(* non-vacuity: no elitism - the best individual (value 1, identity 1) is dropped from the population
   in generation 1 and must survive in best_solution; a tie in generation 2 does not replace it *)
Example evolve_example :
  evolve true 0 2 [4; 1; 3] [mkG [5; 6; 2] false; mkG [1; 7; 7] false]
  = Some {| r_id := 1; r_obj := 1; r_evals := 9; r_iters := 2 |}.
Proof. vm_compute. reflexivity. Qed.

Example evolve_malformed : evolve true 1 1 [4; 1; 3] [mkG [5] false] = None.
Proof. vm_compute. reflexivity. Qed.
