(* C19 part B - bookkeeping model of solvor/differential_evolution.py: differential_evolution().
   Definitions only.  What is modelled: population slots / fitness (one entry per slot), global best,
   greedy selection (trial_fit <= fitness[i]), best update (trial_fit < best_obj), the generation loop with
   the convergence break and the report_progress early return, the final status.  What is an oracle:
   the points themselves (strategy, mutation, crossover, clip, rng - irrelevant to which identity sits in
   which slot), [conv it] = "_population_converged(population, tol) returned True after generation it"
   (float variance), [cb] = answers of the on_progress callback. *)
From Coq Require Import List ZArith Bool Arith Lia.
From SV Require Import C19.B_Common.
Import ListNotations.
Open Scope Z_scope.

(* for i in range(pop_size): trial_fit = evaluate(trial); selection; best update *)
Fixpoint de_gen (pop : list ent) (best : ent) (st : est) : option (list ent * ent * est) :=
  match pop with
  | [] => Some ([], best, st)
  | p :: ps =>
    match eval st with
    | None => None
    | Some (t, st1) =>
      let accept := eval_ t <=? eval_ p in                    (* if trial_fit <= fitness[i] *)
      let p' := if accept then t else p in
      let best' := if accept && (eval_ t <? eval_ best) then t else best in   (* if trial_fit < best_obj *)
      match de_gen ps best' st1 with
      | None => None
      | Some (ps', b, st2) => Some (p' :: ps', b, st2)
      end
    end
  end.

Definition de_final_status (it max_iter : nat) : status :=
  if (it <? max_iter)%nat then OPTIMAL else MAX_ITER.

(* for iteration in range(1, max_iter+1); k = iterations still to run, it = number of the next one *)
Fixpoint de_loop (sign : Z) (max_iter : nat) (conv : nat -> bool) (cb : option (nat -> bool)) (interval : nat)
         (k it : nat) (pop : list ent) (best : ent) (st : est) : option (result * est) :=
  match k with
  | O => Some (mk_result sign best (it - 1) st (de_final_status (it - 1) max_iter), st)
  | S k' =>
    match de_gen pop best st with
    | None => None
    | Some (pop', best', st') =>
      if conv it then Some (mk_result sign best' it st' (de_final_status it max_iter), st')      (* break *)
      else if report_progress cb interval it then Some (mk_result sign best' it st' FEASIBLE, st')
      else de_loop sign max_iter conv cb interval k' (S it) pop' best' st'
    end
  end.

(* differential_evolution(f, bounds, minimize=, population_size=, max_iter=, ...) on the stream of user
   objective values.  None = the recorded stream is too short.  max_iter = 0: `iteration = 0` is bound before the loop (fix: commit), the
   result is the best of the initial population. *)
Definition de_run_st (minimize : bool) (population_size max_iter : nat) (conv : nat -> bool)
           (cb : option (nat -> bool)) (interval : nat) (user_values : list Z) : option (result * est) :=
  let sign := ev_sign minimize in
  let pop_size := Nat.max population_size 4 in
  match eval_n pop_size (est0 (ev_internal sign user_values)) with     (* fitness = [evaluate(ind) ...] *)
  | None => None
  | Some (pop, st) =>
    match argmin_first pop with                                         (* best_idx = min(range, key=fitness) *)
    | None => None
    | Some best =>
      de_loop sign max_iter conv cb interval max_iter 1 pop best st      (* iteration = 0 before the loop *)
    end
  end.

Definition de_run minimize population_size max_iter conv cb interval user_values : option result :=
  option_map fst (de_run_st minimize population_size max_iter conv cb interval user_values).
