(* C19 part B - `clip` of differential_evolution / particle_swarm / bayesian_opt over Q vectors.  Definitions only.
   Finite floats are rationals and max / min are exact on them, so Q is an exact model of clip for finite inputs
   (NaN / inf are outside the model). *)
From Coq Require Import List QArith Qminmax.
Import ListNotations.
Open Scope Q_scope.

(* max(lo, min(hi, x)) *)
Definition clip1 (lo hi x : Q) : Q := Qmax lo (Qmin hi x).

(* [max(lo, min(hi, x[i])) for i, (lo, hi) in enumerate(bounds)]   (DE, PSO)
   [max(lo, min(hi, xi)) for xi, (lo, hi) in zip(x, bounds)]       (bayesian_opt clip_to_bounds)
   (a point shorter than bounds raises IndexError in the first form: excluded by the length hypothesis) *)
Fixpoint clip (bounds : list (Q * Q)) (x : list Q) : list Q :=
  match bounds, x with
  | (lo, hi) :: bs, v :: vs => clip1 lo hi v :: clip bs vs
  | _, _ => []
  end.

(* DE binomial crossover: trial[j] = mutant[j] if (j == j_rand or rng.random() < crossover) else population[i][j] *)
Fixpoint mix (mask : list bool) (a b : list Q) : list Q :=
  match mask, a, b with
  | m :: ms, x :: xs, y :: ys => (if m then x else y) :: mix ms xs ys
  | _, _, _ => []
  end.

Definition in1 (b : Q * Q) (v : Q) : Prop := fst b <= v /\ v <= snd b.
Definition in_box (bounds : list (Q * Q)) (x : list Q) : Prop := Forall2 in1 bounds x.
Definition valid_bounds (bounds : list (Q * Q)) : Prop := Forall (fun b => fst b <= snd b) bounds.
Definition valid_boundsb (bounds : list (Q * Q)) : bool := forallb (fun b => Qle_bool (fst b) (snd b)) bounds.
Definition in_boxb (bounds : list (Q * Q)) (x : list Q) : bool :=
  (length bounds =? length x)%nat &&
  forallb (fun p => Qle_bool (fst (fst p)) (snd p) && Qle_bool (snd p) (snd (fst p))) (combine bounds x).

(* how DE / PSO / bayesian_opt build every point they store or evaluate:
   - bp_uniform : [rng.uniform(lo, hi) for lo, hi in bounds]  - ASSUMPTION about `random`: lo <= uniform(lo,hi) <= hi
   - bp_clip    : clip(anything of full length)  (initial_population / initial_positions, the DE mutant,
                  the PSO position after the velocity update, bayesian_opt's acquisition optimum)
   - bp_mix     : DE crossover of a clipped mutant with the stored target *)
Inductive bounded_point (bounds : list (Q * Q)) : list Q -> Prop :=
| bp_uniform x : in_box bounds x -> bounded_point bounds x
| bp_clip x : (length bounds <= length x)%nat -> bounded_point bounds (clip bounds x)
| bp_mix mask a b : length mask = length bounds -> bounded_point bounds a -> bounded_point bounds b ->
                    bounded_point bounds (mix mask a b).
